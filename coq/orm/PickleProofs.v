(* C51 - proofs about the codecs of coq/orm/Pickle.v *)
From Coq Require Import List ZArith Bool String Lia.
Import ListNotations.
From SAV.orm Require Import Pickle.
Open Scope Z_scope.

(* ================= paths ================= *)
Lemma odds_cons2 : forall {A} (m p : A) r, odds (m :: p :: r) = p :: odds r.
Proof. intros A m p r. destruct r as [|x [|y r']]; reflexivity. Qed.
Lemma evens_cons2 : forall {A} (m p : A) r, evens (m :: p :: r) = m :: evens r.
Proof. reflexivity. Qed.

Lemma serialize_cons2 : forall m p r,
  serialize (m :: p :: r) = (cls_of m, Some (cls_of p)) :: serialize r.
Proof. intros. unfold serialize. rewrite evens_cons2, odds_cons2. reflexivity. Qed.
Lemma serialize_one : forall m, serialize [m] = [(cls_of m, None)].
Proof. reflexivity. Qed.

Definition tail_none (p : path) : list (option pelem) := if Nat.odd (List.length p) then [None] else [].

Lemma chain_serialize : forall n p, (List.length p <= n)%nat -> wf_path p = true ->
  chain (serialize p) = map Some (map erase p) ++ tail_none p.
Proof.
  induction n as [|n IH]; intros p Hl Hw.
  - destruct p; [reflexivity | simpl in Hl; lia].
  - destruct p as [|m [|q r]].
    + reflexivity.
    + destruct m; simpl in Hw; try discriminate; reflexivity.
    + rewrite serialize_cons2.
      assert (Hm : erase m = PMapper (cls_of m) /\ exists k, q = PProp k /\ wf_path r = true).
      { unfold wf_path in *. destruct m; simpl in Hw; try discriminate;
          (destruct q; simpl in Hw; try discriminate; split; [reflexivity | eauto]). }
      destruct Hm as [Hm [k [-> Hr]]]. simpl chain.
      rewrite IH; [|simpl in Hl; lia|exact Hr]. simpl map. rewrite Hm. unfold tail_none. simpl List.length.
      replace (Nat.odd (S (S (List.length r)))) with (Nat.odd (List.length r)) by (rewrite Nat.odd_succ_succ; reflexivity).
      reflexivity.
Qed.

Lemma strip_some : forall (l : list pelem), strip_last_none (map Some l) = map Some l.
Proof.
  intros l. unfold strip_last_none. rewrite <- map_rev. destruct (rev l); reflexivity.
Qed.
Lemma strip_snoc_none : forall l, strip_last_none (l ++ [None]) = l.
Proof. intros l. unfold strip_last_none. rewrite rev_app_distr. simpl. apply rev_involutive. Qed.

Lemma fold_somes : forall (l : list pelem),
  fold_right (fun o acc => match o, acc with Some e, Some a => Some (e :: a) | _, _ => None end)
             (Some []) (map Some l) = Some l.
Proof. induction l; simpl; auto. now rewrite IHl. Qed.

Theorem path_roundtrip : forall p, wf_path p = true -> deserialize (serialize p) = Some (map erase p).
Proof.
  intros p Hw. unfold deserialize. rewrite (chain_serialize (List.length p) p (le_n _) Hw).
  unfold tail_none. destruct (Nat.odd (List.length p)).
  - rewrite strip_snoc_none. apply fold_somes.
  - rewrite app_nil_r, strip_some. apply fold_somes.
Qed.

Lemma erase_alias_free : forall p, alias_free p = true -> map erase p = p.
Proof.
  induction p as [|e p IH]; simpl; intros H; auto. apply andb_true_iff in H. destruct H as [He Hp].
  rewrite IH by auto. destruct e; simpl in *; try discriminate; reflexivity.
Qed.

Theorem path_roundtrip_guarded : forall p, wf_path p = true -> alias_free p = true ->
  deserialize (serialize p) = Some p.
Proof. intros p Hw Ha. rewrite path_roundtrip by auto. now rewrite erase_alias_free. Qed.

Theorem path_roundtrip_refuted : exists p, wf_path p = true /\ deserialize (serialize p) <> Some p.
Proof. exists [PAlias 1; PProp 2; PMapper 3]. split; [reflexivity|]. vm_compute. discriminate. Qed.

(* ================= instance state ================= *)
Definition state_ok (s : dict) : Prop :=
  forall k v, lookup k s = Some v ->
  match v with VPath p => wf_path p = true | VSer _ => False | Opaque _ => True end.

Lemma dec_enc : forall v, match v with VPath p => wf_path p = true | VSer _ => False | Opaque _ => True end ->
  dec (enc v) = Some (norm v).
Proof.
  intros [z|p|sp] H; simpl; auto; [|tauto]. now rewrite path_roundtrip.
Qed.

Lemma class_default_ok : forall k,
  match class_default k with VPath p => wf_path p = true | VSer _ => False | Opaque _ => True end.
Proof.
  intros k. unfold class_default.
  repeat match goal with |- context [if ?b then _ else _] => destruct b end; simpl; auto.
Qed.

Lemma getattr_ok : forall s k, state_ok s ->
  match getattr s k with VPath p => wf_path p = true | VSer _ => False | Opaque _ => True end.
Proof.
  intros s k Hs. unfold getattr. destruct (lookup k s) eqn:E; [eapply Hs; eauto | apply class_default_ok].
Qed.

Definition fired_any (w : wtable) (s : dict) (k : key) : bool :=
  existsb (fun e => String.eqb k (fst e) && fires s (fst e) (snd e)) w.

Lemma lookup_getstate_from : forall w s acc k,
  lookup k (getstate_from w s acc) =
  if fired_any w s k then Some (enc (getattr s k)) else lookup k acc.
Proof.
  induction w as [|[k' m] w IH]; intros s acc k; simpl; [reflexivity|].
  rewrite IH. destruct (fired_any w s k) eqn:Ef; [now rewrite orb_true_r|]. rewrite orb_false_r.
  destruct (fires s k' m); simpl.
  - destruct (String.eqb_spec k k') as [->|Hne]; simpl; [reflexivity | reflexivity].
  - now rewrite andb_false_r.
Qed.

Lemma lookup_getstate : forall w s k,
  lookup k (getstate w s) = if fired_any w s k then Some (enc (getattr s k)) else None.
Proof. intros. unfold getstate. now rewrite lookup_getstate_from. Qed.

Lemma mem_true : forall k l, mem k l = true <-> In k l.
Proof.
  intros k l. unfold mem. rewrite existsb_exists. split.
  - intros [x [Hx He]]. apply String.eqb_eq in He. now subst.
  - intros H. exists k. split; auto. apply String.eqb_refl.
Qed.

(* what one entry of the read table leaves in the new state *)
Definition read_one (m : rmode) (o : option sval) : option (option sval) :=
  match m, o with
  | RRequired, None => None
  | RGet z, None => Some (Some (Opaque z))
  | RIfPresent, None => Some None
  | _, Some v => match dec v with Some v' => Some (Some v') | None => None end
  end.

Lemma setstate_from_spec : forall r d acc,
  nodup_keys (rkeys r) = true ->
  (forall k m, In (k, m) r -> read_one m (lookup k d) <> None) ->
  exists s', setstate_from r d acc = Some s' /\
    (forall k m, In (k, m) r -> exists o, read_one m (lookup k d) = Some o /\
                 lookup k s' = match o with Some v => Some v | None => lookup k acc end) /\
    (forall k, mem k (rkeys r) = false -> lookup k s' = lookup k acc).
Proof.
  induction r as [|[k0 m0] r IH]; intros d acc Hn Hr.
  - exists acc. simpl. repeat split; auto. intros k m [].
  - simpl in Hn. apply andb_true_iff in Hn. destruct Hn as [Hk0 Hn]. apply negb_true_iff in Hk0.
    assert (Hr0 := Hr k0 m0 (or_introl eq_refl)).
    assert (Hr' : forall k m, In (k, m) r -> read_one m (lookup k d) <> None) by (intros; apply Hr; now right).
    simpl setstate_from.
    assert (Hcase : exists o, read_one m0 (lookup k0 d) = Some o /\
              setstate_from ((k0, m0) :: r) d acc =
              setstate_from r d (match o with Some v => (k0, v) :: acc | None => acc end)).
    { simpl. unfold read_one in *. destruct m0, (lookup k0 d) as [v|]; try (destruct (dec v)); try congruence; eauto. }
    destruct Hcase as [o [Ho Hstep]]. simpl in Hstep. rewrite Hstep.
    destruct (IH d (match o with Some v => (k0, v) :: acc | None => acc end) Hn Hr') as [s' [Hs [Hin Hout]]].
    exists s'. split; auto. split.
    + intros k m [He|Hi].
      * injection He as <- <-. exists o. split; auto. rewrite (Hout k0 Hk0).
        destruct o; simpl; [now rewrite String.eqb_refl | reflexivity].
      * destruct (Hin k m Hi) as [o' [Ho' Hl]]. exists o'. split; auto. rewrite Hl.
        destruct o'; auto. destruct o; auto. simpl.
        destruct (String.eqb_spec k k0) as [->|]; auto.
        exfalso. assert (mem k0 (rkeys r) = true) by (apply mem_true; apply in_map_iff; exists (k0, m); auto). congruence.
    + intros k Hk. simpl in Hk. apply orb_false_iff in Hk. destruct Hk as [Hk1 Hk2].
      rewrite (Hout k Hk2). destruct o; auto. simpl. now rewrite Hk1.
Qed.

Lemma always_written_fires : forall w s k, always_written w k = true -> fired_any w s k = true.
Proof.
  intros w s k H. unfold always_written in H. unfold fired_any. apply existsb_exists in H. apply existsb_exists.
  destruct H as [[k' m] [Hi He]]. simpl in He. apply andb_true_iff in He. destruct He as [He Hm].
  exists (k', m). split; auto. simpl. rewrite He. destruct m; try discriminate. reflexivity.
Qed.

(* when no entry for k fires, the attribute has its class default *)
Lemma falsy_eq : forall a b, falsy a = true -> falsy b = true -> a = b.
Proof. intros [z|[|e p]|sp] [z'|[|e' p']|sp']; simpl; intros; try discriminate; reflexivity. Qed.

Lemma not_fired_default : forall w s k, truthy_ok w = true -> mem k (wkeys w) = true -> fired_any w s k = false ->
  getattr s k = class_default k.
Proof.
  intros w s k Ht Hm Hf. apply mem_true in Hm. apply in_map_iff in Hm. destruct Hm as [[k' m] [Hk Hi]].
  simpl in Hk. subst k'. unfold fired_any in Hf.
  assert (Hno : forall x, In x w -> (String.eqb k (fst x) && fires s (fst x) (snd x)) = false).
  { intros x Hx. destruct (String.eqb k (fst x) && fires s (fst x) (snd x)) eqn:E; auto.
    assert (existsb (fun e => String.eqb k (fst e) && fires s (fst e) (snd e)) w = true)
      by (apply existsb_exists; eauto). congruence. }
  specialize (Hno _ Hi). simpl in Hno. rewrite String.eqb_refl in Hno. simpl in Hno.
  unfold truthy_ok in Ht. rewrite forallb_forall in Ht. specialize (Ht _ Hi). simpl in Ht.
  destruct m; simpl in Hno; try discriminate.
  - unfold getattr. destruct (lookup k s); [discriminate | reflexivity].
  - apply negb_false_iff in Hno. now apply falsy_eq.
Qed.

Lemma in_rkeys : forall k m (r : rtable), In (k, m) r -> mem k (rkeys r) = true.
Proof. intros. apply mem_true. apply in_map_iff. exists (k, m). auto. Qed.

(* THE GENERAL THEOREM: for every pair of key tables satisfying the side condition, unpickling what was
   pickled gives, for every key the tables mention, the attribute value the original had (paths: with
   aliased entities replaced by their mappers); every other attribute falls back to its class default *)
Theorem state_roundtrip_tables : forall w r s, codec_ok w r = true -> state_ok s ->
  exists s', setstate r (getstate w s) = Some s' /\
    (forall k, mem k (rkeys r) = true -> getattr s' k = norm (getattr s k)) /\
    (forall k, mem k (rkeys r) = false -> getattr s' k = class_default k).
Proof.
  intros w r s Hc Hs. unfold codec_ok in Hc. repeat rewrite andb_true_iff in Hc.
  destruct Hc as [[[[Hnd Htr] Hwr] Hrw] Hmodes].
  rewrite forallb_forall in Hrw, Hmodes.
  set (d := getstate w s).
  assert (Hd : forall k, lookup k d = if fired_any w s k then Some (enc (getattr s k)) else None)
    by (intros; apply lookup_getstate).
  assert (Hread : forall k m, In (k, m) r ->
            read_one m (lookup k d) = Some (if fired_any w s k then Some (norm (getattr s k))
                                            else match m with RGet z => Some (Opaque z) | _ => None end)).
  { intros k m Hi. rewrite Hd. specialize (Hmodes _ Hi). simpl in Hmodes.
    destruct (fired_any w s k) eqn:Ef.
    - unfold read_one. rewrite (dec_enc _ (getattr_ok s k Hs)). destruct m; reflexivity.
    - destruct m; simpl; auto. rewrite (always_written_fires _ s _ Hmodes) in Ef. discriminate. }
  destruct (setstate_from_spec r d [] Hnd) as [s' [Hs' [Hin Hout]]].
  { intros k m Hi. rewrite (Hread k m Hi). discriminate. }
  exists s'. split; [exact Hs'|]. split.
  - intros k Hk. apply mem_true in Hk. apply in_map_iff in Hk. destruct Hk as [[k' m] [Hk Hi]]. simpl in Hk. subst k'.
    destruct (Hin k m Hi) as [o [Ho Hl]]. rewrite (Hread k m Hi) in Ho. injection Ho as <-.
    assert (Hkw : mem k (wkeys w) = true) by (apply Hrw; apply in_map_iff; exists (k, m); auto).
    unfold getattr at 1. rewrite Hl. destruct (fired_any w s k) eqn:Ef; [reflexivity|].
    rewrite (not_fired_default w s k Htr Hkw Ef).
    assert (Hnorm : norm (class_default k) = class_default k).
    { unfold class_default. repeat match goal with |- context [if ?b then _ else _] => destruct b end; reflexivity. }
    rewrite Hnorm. specialize (Hmodes _ Hi). simpl in Hmodes.
    destruct m; simpl; auto.
    apply andb_true_iff in Hmodes. destruct Hmodes as [_ Hdef].
    destruct (class_default k); try discriminate. apply Z.eqb_eq in Hdef. now subst.
  - intros k Hk. unfold getattr. now rewrite (Hout k Hk).
Qed.

(* and conversely the side condition is necessary: a key that is written only when set, read with a
   fallback different from the class default, changes the attribute (witness of a broken table) *)
Theorem state_roundtrip_needs_side_condition : exists w r s,
  codec_ok w r = false /\ exists s', setstate r (getstate w s) = Some s' /\
  getattr s' "modified"%string <> getattr s "modified"%string.
Proof.
  exists [("modified"%string, WIfSet)], [("modified"%string, RGet c_empty_dict)], [].
  split; [reflexivity|]. eexists. split; [reflexivity|]. vm_compute. discriminate.
Qed.

(* a key dropped from the written table is silently lost *)
Theorem state_roundtrip_dropped_key_lost : exists w r s,
  codec_ok w r = false /\ exists s', setstate r (getstate w s) = Some s' /\
  getattr s' "modified"%string <> getattr s "modified"%string.
Proof.
  exists [("key"%string, WIfSet)], [("key"%string, RIfPresent); ("modified"%string, RGet c_false)],
         [("modified"%string, Opaque 77)].
  split; [reflexivity|]. eexists. split; [reflexivity|]. vm_compute. discriminate.
Qed.

Lemma model_tables_ok : codec_ok model_writes model_reads = true.
Proof. vm_compute. reflexivity. Qed.

(* ================= rows and frozen results ================= *)
Lemma md_index_filter_picklable : forall k km, picklable_key k = true ->
  md_index k (filter (fun e => picklable_key (fst e)) km) = md_index k km.
Proof.
  intros k. induction km as [|[k' i] km IH]; simpl; intros Hp; auto.
  destruct (picklable_key k') eqn:E; simpl.
  - destruct (rkey_eqb k k'); auto.
  - rewrite IH by auto. destruct k, k'; simpl in *; try discriminate; reflexivity.
Qed.
Lemma md_index_filter_obj : forall z km,
  md_index (KObj z) (filter (fun e => picklable_key (fst e)) km) = None.
Proof.
  intros z. induction km as [|[k' i] km IH]; simpl; auto.
  destruct (picklable_key k') eqn:E; simpl; auto. destruct k'; simpl in *; try discriminate; auto.
Qed.

Theorem row_roundtrip_spec : forall r,
  row_data (row_roundtrip r) = row_data r /\
  md_keys (row_md (row_roundtrip r)) = md_keys (row_md r) /\
  (forall k, picklable_key k = true -> row_get (row_roundtrip r) k = row_get r k) /\
  (forall z, row_get (row_roundtrip r) (KObj z) = None).
Proof.
  intros [[keys km] data]. unfold row_roundtrip, row_get. simpl. repeat split; auto.
  - intros k Hk. now rewrite md_index_filter_picklable.
  - intros z. now rewrite md_index_filter_obj.
Qed.

Theorem frozen_roundtrip_spec : forall f, thaw (frozen_roundtrip f) = thaw f /\
  fr_scalars (frozen_roundtrip f) = fr_scalars f.
Proof. intros [[keys km] sc data]. split; reflexivity. Qed.

Lemma md_index_filter_str : forall z km,
  md_index (KStr z) (filter (fun e => str_key (fst e)) km) = md_index (KStr z) km.
Proof.
  intros z. induction km as [|[k' i] km IH]; simpl; auto.
  destruct k' as [y|y|y]; simpl; rewrite IH; reflexivity.
Qed.
Lemma md_index_filter_str_obj : forall z km,
  md_index (KObj z) (filter (fun e => str_key (fst e)) km) = None.
Proof.
  intros z. induction km as [|[k' i] km IH]; simpl; auto.
  destruct k' as [y|y|y]; simpl; auto.
Qed.

(* every STRING key the frozen result answered - result keys and aliases such as Column.key or the
   table-qualified label - resolves to the same position after the round trip; Column objects do not *)
Theorem frozen_string_lookup_kept : forall f z,
  frozen_index (frozen_roundtrip f) (KStr z) = frozen_index f (KStr z).
Proof. intros [[keys km] sc data] z. unfold frozen_index. simpl. apply md_index_filter_str. Qed.

Theorem frozen_object_lookup_lost : forall f z, frozen_index (frozen_roundtrip f) (KObj z) = None.
Proof. intros [[keys km] sc data] z. unfold frozen_index. simpl. apply md_index_filter_str_obj. Qed.

(* ================= serializer ================= *)
Lemma str_eqb_refl : forall s, str_eqb s s = true.
Proof. induction s; simpl; auto. now rewrite Z.eqb_refl. Qed.
Lemma str_eqb_eq : forall a b, str_eqb a b = true -> a = b.
Proof.
  induction a; destruct b; simpl; intros H; try discriminate; auto.
  apply andb_true_iff in H. destruct H as [H1 H2]. apply Z.eqb_eq in H1. subst. f_equal. auto.
Qed.

Lemma after_first_app : forall a b, no_colon a = true -> after_first colon (a ++ colon :: b) = Some b.
Proof.
  induction a as [|x a IH]; simpl; intros b H; auto.
  apply andb_true_iff in H. destruct H as [Hx Ha]. apply negb_true_iff in Hx. rewrite Hx. auto.
Qed.
Lemma upto_app : forall c a b, forallb (fun x => negb (x =? c)) a = true -> upto c (a ++ c :: b) = a.
Proof.
  induction a as [|x a IH]; simpl; intros b H; [now rewrite Z.eqb_refl|].
  apply andb_true_iff in H. destruct H as [Hx Ha]. apply negb_true_iff in Hx. rewrite Hx. f_equal. auto.
Qed.
Lemma upto_all : forall c a, forallb (fun x => negb (x =? c)) a = true -> upto c a = a.
Proof.
  induction a as [|x a IH]; simpl; intros H; auto.
  apply andb_true_iff in H. destruct H as [Hx Ha]. apply negb_true_iff in Hx. rewrite Hx. f_equal. auto.
Qed.
Lemma split_nocolon : forall a, no_colon a = true -> split_on colon a = [a].
Proof.
  induction a as [|x a IH]; simpl; intros H; auto.
  apply andb_true_iff in H. destruct H as [Hx Ha]. apply negb_true_iff in Hx. rewrite Hx. now rewrite IH.
Qed.
Lemma split_two : forall a b, no_colon a = true -> no_colon b = true -> split_on colon (a ++ colon :: b) = [a; b].
Proof.
  induction a as [|x a IH]; simpl; intros b Ha Hb.
  - now rewrite split_nocolon.
  - apply andb_true_iff in Ha. destruct Ha as [Hx Ha]. apply negb_true_iff in Hx. rewrite Hx. now rewrite IH.
Qed.

Section SerializerProofs.
  Variable b64 : Z -> str.
  Variable unb64 : str -> option Z.
  Variable tables : list (str * list str).
  Variable props : Z -> list str.
  Hypothesis b64_clean : forall c, no_colon (b64 c) = true.    (* base64 alphabet *)
  Hypothesis unb64_b64 : forall c, unb64 (b64 c) = Some c.     (* pickle of the class, CPython's *)

  Notation load_id := (load_id unb64 tables props).
  Notation id_of := (id_of b64).
  Notation leaf_ok := (leaf_ok tables props).

  Lemma find_table_key : forall t l cs, find_table t l = Some cs -> True.
  Proof. auto. Qed.

  Theorem load_id_roundtrip : forall l, leaf_ok l = true -> load_id (id_of l) = LOk l.
  Proof.
    intros l H. destruct l as [t|t c|cls|cls k|cls]; simpl in H; unfold Pickle.load_id, Pickle.id_of.
    - rewrite after_first_app by reflexivity. rewrite upto_app by reflexivity.
      change (str_eqb s_table s_table) with true. cbv iota.
      destruct (find_table t tables); [reflexivity | discriminate].
    - apply andb_true_iff in H. destruct H as [H Hf]. apply andb_true_iff in H. destruct H as [Ht Hc].
      rewrite after_first_app by reflexivity. rewrite upto_app by reflexivity.
      change (str_eqb s_column s_table) with false. change (str_eqb s_column s_column) with true. cbv iota.
      rewrite split_two by auto.
      destruct (find_table t tables); [|discriminate]. now rewrite Hf.
    - rewrite after_first_app by reflexivity. rewrite upto_app by reflexivity.
      change (str_eqb s_mapper s_table) with false. change (str_eqb s_mapper s_column) with false.
      change (str_eqb s_mapper s_mapper) with true. cbv iota.
      now rewrite unb64_b64.
    - apply andb_true_iff in H. destruct H as [Hk Hp].
      rewrite after_first_app by reflexivity. rewrite upto_app by reflexivity.
      change (str_eqb s_mapperprop s_table) with false. change (str_eqb s_mapperprop s_column) with false.
      change (str_eqb s_mapperprop s_mapper) with false. change (str_eqb s_mapperprop s_mapperprop) with true. cbv iota.
      rewrite split_two by auto. rewrite unb64_b64. now rewrite Hp.
    - rewrite after_first_app by reflexivity. rewrite upto_app by reflexivity.
      change (str_eqb s_mapper_selectable s_table) with false. change (str_eqb s_mapper_selectable s_column) with false.
      change (str_eqb s_mapper_selectable s_mapper) with false.
      change (str_eqb s_mapper_selectable s_mapperprop) with false.
      change (str_eqb s_mapper_selectable s_mapper_selectable) with true. cbv iota.
      now rewrite unb64_b64.
  Qed.

  Lemma stmt_ind2 : forall P : stmt -> Prop,
    (forall l, P (SLeaf l)) -> (forall t ch, Forall P ch -> P (SNode t ch)) -> forall s, P s.
  Proof.
    intros P Hl Hn. fix IH 1. intros [l|t ch]; [apply Hl|]. apply Hn.
    induction ch as [|c ch IHch]; constructor; [apply IH | exact IHch].
  Qed.

  Theorem serializer_roundtrip_guarded : forall s, stmt_ok tables props s = true ->
    loads unb64 tables props (dumps b64 s) = LOk s.
  Proof.
    intros s. induction s as [l|t ch IH] using stmt_ind2; intros H.
    - simpl in *. now rewrite load_id_roundtrip.
    - simpl in H. simpl. 
      assert (Hgo : (fix go (l : list dumped) : lres (list stmt) :=
                 match l with
                 | [] => LOk []
                 | x :: r => match loads unb64 tables props x, go r with
                             | LOk a, LOk b => LOk (a :: b)
                             | LErr e, _ => LErr e
                             | _, LErr e => LErr e
                             end
                 end) (map (dumps b64) ch) = LOk ch).
      { induction ch as [|c ch IHch]; [reflexivity|]. simpl in H. apply andb_true_iff in H. destruct H as [Hc Hch].
        inversion IH; subst. simpl. rewrite (H1 Hc). rewrite (IHch H2 Hch). reflexivity. }
      rewrite Hgo. reflexivity.
  Qed.
End SerializerProofs.

(* names that contain the separator of the id syntax do not survive: ValueError on load *)
Definition ex_tables : list (str * list str) := [([116], [[105; 100]; [97; 58; 98]]); ([117; 58; 118], [[121]])].
Theorem serializer_roundtrip_refuted_column_colon :
  load_id (fun _ => None) ex_tables (fun _ => []) (id_of (fun _ => []) (LColumn [116] [97; 58; 98])) = LErr EUnpack /\
  load_id (fun _ => None) ex_tables (fun _ => []) (id_of (fun _ => []) (LColumn [117; 58; 118] [121])) = LErr EUnpack.
Proof. split; vm_compute; reflexivity. Qed.
(* since the id regex is compiled with DOTALL a newline in a key is harmless (formerly KeyError) *)
Theorem serializer_roundtrip_newline_ok :
  load_id (fun _ => None) [([119; 10; 122], [[105; 100]; [110; 10; 109]])] (fun _ => []) (id_of (fun _ => []) (LTable [119; 10; 122]))
    = LOk (LTable [119; 10; 122]) /\
  load_id (fun _ => None) [([119; 10; 122], [[105; 100]; [110; 10; 109]])] (fun _ => [])
          (id_of (fun _ => []) (LColumn [119; 10; 122] [110; 10; 109])) = LOk (LColumn [119; 10; 122] [110; 10; 109]).
Proof. split; vm_compute; reflexivity. Qed.
