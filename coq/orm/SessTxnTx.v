(* C33 - rollback, commit and close under the whole invariant. *)
From Coq Require Import List ZArith Bool Arith Lia.
Import ListNotations.
From SAV.orm Require Import SessTxn SessTxnBase SessTxnSpec SessTxnInv SessTxnOps SessTxnRestore SessTxnRestore2
  SessTxnShift SessTxnStmts SessTxnFlush SessTxnDbInv SessTxnCore SessTxnFlushCore.
Open Scope nat_scope.

(* database back to the restore point of the (live) innermost frame, frame DEACTIVE, snapshot restored *)
Lemma restore_phase : forall sX g gs' f rest W0,
  DbOk sX (g :: gs') -> stack sX = f :: rest -> live_state (fstate f) = true ->
  Good (objs sX) (nobj sX) W0 (snew sX) (sdel sX) -> J (objs sX) (nobj sX) -> GClean g ->
  Rel g f (objs sX) (nobj sX) (snew sX) (sdel sX) W0 -> ChainG g rest gs' ->
  exists s3 f3, (head_db_rollback ;; lift (set_head_state DEACTIVE) ;; restore_snapshot (fnested f)) sX = (Ok, s3) /\
    Core s3 (g :: gs') /\ stack s3 = f3 :: rest /\ fstate f3 = DEACTIVE /\ fid f3 = fid f /\ fnested f3 = fnested f /\
    frbexc f3 = frbexc f /\
    is_clean s3 = true /\ committed s3 = committed sX /\ nfid s3 = nfid sX /\ nobj s3 = nobj sX /\
    handles s3 = handles sX /\ eoc s3 = eoc sX.
Proof.
  intros sX g gs' f rest W0 DX HsX Hlive G Jh GC R CG.
  destruct (head_rollback_ok sX g gs' f rest DX HsX Hlive) as [s1 [E1 [W1 [D1 [O1 [N1 [A1 [A2 [A3 [A4 [A5 [A6 A7]]]]]]]]]]]].
  rewrite (bind_ok _ _ _ _ E1). rewrite (bind_ok _ _ _ (set_head_state DEACTIVE s1)) by reflexivity.
  set (s2 := set_head_state DEACTIVE s1) in *.
  assert (Hs2 : stack s2 = f_state f DEACTIVE :: rest).
  { unfold s2, set_head_state. destruct (upd_head_fields s1 (fun f0 => f_state f0 DEACTIVE)) as [_ [_ [_ [_ [_ [_ [_ [_ [_ [_ X]]]]]]]]]].
    rewrite X, A3, HsX. reflexivity. }
  destruct (upd_head_fields s1 (fun f0 => f_state f0 DEACTIVE)) as [X0 [X1 [X2 [X3 [X4 [X5 [X6 [X7 [X8 [X9 _]]]]]]]]]].
  fold (set_head_state DEACTIVE s1) in X0, X1, X2, X3, X4, X5, X6, X7, X8, X9. fold s2 in X0, X1, X2, X3, X4, X5, X6, X7, X8, X9.
  destruct (restore_head (fnested f) s2 (f_state f DEACTIVE) rest W0 g Hs2) as (s3 & f3 & E3 & G3 & J3 & Ap & S1 & S2 & Cl & W3 & St3 & I1 & I2 & I3 & I4 & I5 & B1 & B2 & B3 & B4 & B5 & B6).
  { rewrite X0, X1, X2, X3, O1, N1, A1, A2. exact G. }
  { rewrite X0, X1, O1, N1. exact Jh. }
  { exact GC. }
  { rewrite X0, X1, X2, X3, O1, N1, A1, A2. eapply Rel_frame_ext; [| | | |exact R]; reflexivity. }
  { rewrite X7. exact W1. }
  cbn [fid fnested fstate fconn frbexc f_state] in I1, I2, I3, I4, I5.
  exists s3, f3. split; [exact E3|]. split; [|split; [exact St3|]].
  2:{ split; [exact I3|]. split; [exact I1|]. split; [exact I2|]. split; [exact I5|]. split; [exact Cl|]. repeat split; congruence. }
  constructor.
  - unfold GoodS. rewrite S1, S2, B1, X1, N1. rewrite X1, N1 in G3. exact G3.
  - rewrite B1, X1, N1. rewrite X1, N1 in J3. exact J3.
  - eapply (DbOk_ext s2); [| | | | |exact D1].
    + rewrite St3, Hs2. cbn. unfold skel. cbn. rewrite I1, I2, I3, I4. reflexivity.
    + congruence.
    + congruence.
    + rewrite W3, X7. symmetry. exact W1.
    + congruence.
  - unfold Chain. rewrite St3. split; [exact GC|]. rewrite I3. split; [|exact CG].
    rewrite B1, X1, N1. rewrite X1, N1 in Ap. split; [exact Ap|]. split; [exact S1|]. split; [exact S2|exact W3].
  - rewrite St3. intros X; discriminate.
Qed.

(* a DEACTIVE innermost frame (snapshot restored) leaves the stack *)
Lemma pop_core : forall st g gs' f rest, Core st (g :: gs') -> stack st = f :: rest -> fstate f = DEACTIVE ->
  exists st', close_head st = (Ok, st') /\ Core st' gs' /\ stack st' = rest /\ is_clean st' = true /\
    objs st' = objs st /\ nobj st' = nobj st /\ work st' = work st /\ committed st' = committed st /\
    nfid st' = nfid st /\ handles st' = handles st /\ eoc st' = eoc st.
Proof.
  intros st g gs' f rest C Hs Hf. destruct C as [G Jh D Ch Em].
  unfold close_head. rewrite Hs, Hf. cbn [live_state]. rewrite andb_false_r.
  eexists. split; [reflexivity|]. cbn [stack objs nobj work committed nfid handles eoc set_stack].
  unfold Chain in Ch. rewrite Hs in Ch. destruct Ch as [GC [Hd CG]]. rewrite Hf in Hd.
  destruct Hd as [Ap [S1 [S2 W]]].
  assert (Hcl : is_clean (set_stack st rest) = true).
  { apply is_clean_spec. cbn. repeat split; auto. intros o _ Hi. apply (a_clean _ _ _ Ap o Hi). }
  split; [|repeat split; auto].
  destruct D as [D1 D2 D4 D5]. destruct D5 as [D5 D6]. rewrite Hs in *.
  cbn [FramesOk] in D1. destruct D1 as [F1 [F2 [F3 [F4 F5]]]].
  cbn [SnapOk] in D6. destruct D6 as [Q1 Q2].
  assert (Hent : entries (f :: rest) (g :: gs') = entries rest gs').
  { cbn [entries]. unfold live_conn. rewrite Hf. cbn. rewrite andb_false_r. reflexivity. }
  constructor; auto.
  - constructor; cbn [stack nfid work committed saves set_stack].
    + eapply FramesOk_weaken; eauto. lia.
    + unfold head_ok. destruct rest as [|p rest']; auto. left. apply F5. left; auto.
    + intros Hn. destruct (fconn f) eqn:Ec.
      * destruct rest as [|p rest'].
        -- destruct (fnested f) eqn:En; [destruct F3 as [F3 _]; specialize (F3 eq_refl); congruence|]. congruence.
        -- specialize (F4 eq_refl p (or_introl eq_refl)). specialize (Hn p (or_introl eq_refl)). congruence.
      * apply D4. intros f' [X|X]; [subst; auto|auto].
    + split; [rewrite D5, Hent; reflexivity|]. rewrite W. exact Q2.
  - unfold Chain. cbn [stack objs nobj snew sdel work set_stack].
    destruct rest as [|p rest']; destruct gs' as [|gp gs'']; auto; try (destruct CG; fail).
    cbn [ChainG] in CG. destruct CG as [GCp [L CG']]. split; auto. split; auto.
    rewrite (F5 p (or_introl eq_refl)). rewrite S1, S2, W.
    eapply Rel_shift; eauto. unfold GoodS in G. rewrite S1, S2, W in G. exact G.
Qed.

Lemma check_moves_ok : forall m s st, Z.eqb (moves_to m) (tstate_code s) = true -> check_moves m s st = (Ok, st).
Proof. intros m s st H. unfold check_moves. rewrite H. reflexivity. Qed.

(* SessionTransaction.rollback of the innermost frame *)
Lemma rollback_head_core : forall st g gs' f rest, Core st (g :: gs') -> stack st = f :: rest ->
  exists st', rollback_head st = (Ok, st') /\ Core st' gs' /\ stack st' = rest /\ is_clean st' = true /\
    committed st' = committed st /\ nfid st' = nfid st /\ nobj st' = nobj st /\ handles st' = handles st /\ eoc st' = eoc st /\
    work st' = gW g.
Proof.
  intros st g gs' f rest C Hs. pose proof C as C0. destruct C as [G Jh D Ch Em].
  assert (Hst : fstate f = ACTIVE \/ fstate f = DEACTIVE).
  { destruct D as [_ D2 _ _]. rewrite Hs in D2. exact D2. }
  unfold rollback_head. rewrite Hs.
  unfold Chain in Ch. rewrite Hs in Ch. destruct Ch as [GC [Hd CG]].
  destruct Hst as [Hf|Hf]; rewrite Hf in *; cbn [live_state].
  - destruct (restore_phase st g gs' f rest (work st) D Hs) as (s3 & f3 & E3 & C3 & S3 & F3 & I1 & I2 & I5 & Cl & K1 & K2 & K3 & K4 & K5); auto.
    { rewrite Hf. reflexivity. }
    assert (E3' : (head_db_rollback ;; lift (set_head_state DEACTIVE) ;; restore_snapshot (fnested f)) st = (Ok, s3)) by exact E3.
    rewrite (bind_ok _ _ _ _ E3'). rewrite bind_withst. rewrite Cl. rewrite (bind_ok _ _ _ s3) by reflexivity.
    destruct (pop_core s3 g gs' f3 rest C3 S3 F3) as (st' & E4 & C4 & S4 & Cl4 & O4 & N4 & W4 & M4 & F4 & H4 & Ec4).
    rewrite (bind_ok _ _ _ _ E4). exists st'. split; [reflexivity|]. split; [exact C4|]. split; [exact S4|]. split; [exact Cl4|].
    repeat split; try congruence.
    destruct C3 as [_ _ _ Ch3 _]. unfold Chain in Ch3. rewrite S3, F3 in Ch3. destruct Ch3 as [_ [[_ [_ [_ X]]] _]]. congruence.
  - rewrite (bind_ok _ _ _ st) by reflexivity. rewrite bind_withst.
    destruct Hd as [Ap [S1 [S2 W]]].
    assert (Hcl : is_clean st = true).
    { apply is_clean_spec. repeat split; auto. intros o _ Hi. apply (a_clean _ _ _ Ap o Hi). }
    rewrite Hcl. rewrite (bind_ok _ _ _ st) by reflexivity.
    destruct (pop_core st g gs' f rest C0 Hs Hf) as (st' & E4 & C4 & S4 & Cl4 & O4 & N4 & W4 & M4 & F4 & H4 & Ec4).
    rewrite (bind_ok _ _ _ _ E4). exists st'. split; [reflexivity|]. split; [exact C4|]. split; [exact S4|]. split; [exact Cl4|].
    repeat split; congruence.
Qed.

Lemma Core_shape : forall st gs f rest, Core st gs -> stack st = f :: rest -> exists g gs', gs = g :: gs'.
Proof.
  intros st gs f rest C Hs. destruct C as [_ _ _ Ch _]. unfold Chain in Ch. rewrite Hs in Ch.
  destruct gs as [|g gs']; [destruct Ch|eauto].
Qed.
Lemma Core_nil : forall st gs, Core st gs -> stack st = [] -> gs = [].
Proof.
  intros st gs C Hs. destruct C as [_ _ _ Ch _]. unfold Chain in Ch. rewrite Hs in Ch.
  destruct gs; [reflexivity|destruct Ch].
Qed.
Lemma Core_head_state : forall st gs f rest, Core st gs -> stack st = f :: rest -> fstate f = ACTIVE \/ fstate f = DEACTIVE.
Proof. intros st gs f rest C Hs. destruct C as [_ _ D _ _]. destruct D as [_ D2 _ _]. rewrite Hs in D2. exact D2. Qed.
Lemma check_rollback_ok : forall f, fstate f = ACTIVE \/ fstate f = DEACTIVE -> check_prereq f M_rollback = None.
Proof. intros f [H|H]; unfold check_prereq; rewrite H; reflexivity. Qed.

(* Session.rollback(): every frame is rolled back, innermost first *)
Lemma rollback_all_core : forall fuel st gs, Core st gs -> length (stack st) < fuel ->
  exists st', rollback_all fuel st = (Ok, st') /\ Core st' [] /\ stack st' = [] /\ is_clean st' = true /\
    committed st' = committed st /\ nfid st' = nfid st /\ nobj st' = nobj st /\ handles st' = handles st /\ eoc st' = eoc st.
Proof.
  induction fuel as [|fuel IH]; intros st gs C Hl; [lia|].
  cbn [rollback_all]. destruct (stack st) as [|f rest] eqn:Hs.
  - exists st. pose proof (Core_nil _ _ C Hs) as X. subst gs. split; [reflexivity|]. split; [exact C|]. split; [exact Hs|].
    split; [|repeat split; reflexivity].
    destruct C as [G Jh D Ch Em]. exact (Em Hs).
  - destruct (Core_shape _ _ _ _ C Hs) as [g [gs' X]]. subst gs.
    rewrite (check_rollback_ok f (Core_head_state _ _ _ _ C Hs)).
    destruct (rollback_head_core st g gs' f rest C Hs) as (s1 & E1 & C1 & S1 & Cl1 & K1 & K2 & K3 & K4 & K5 & K6).
    rewrite (bind_ok _ _ _ _ E1).
    destruct (IH s1 gs' C1) as (s2 & E2 & C2 & S2 & Cl2 & L1 & L2 & L3 & L4 & L5).
    { rewrite S1. cbn in Hl. lia. }
    exists s2. split; [exact E2|]. split; [exact C2|]. split; [exact S2|]. split; [exact Cl2|]. repeat split; congruence.
Qed.

(* handle.rollback() of the innermost frame is SessionTransaction.rollback of that frame *)
Lemma t_rollback_head : forall st gs n, Core st gs -> head_is n st = true -> t_rollback n st = rollback_head st.
Proof.
  intros st gs n C Hh. unfold head_is in Hh. destruct (stack st) as [|f rest] eqn:Hs; [discriminate|].
  unfold t_rollback, find_frame. rewrite Hs. cbn [find]. rewrite Hh.
  rewrite (check_rollback_ok f (Core_head_state _ _ _ _ C Hs)).
  assert (X : close_above (S (length (f :: rest))) n st = (Ok, st)).
  { cbn [close_above]. unfold head_is. rewrite Hs, Hh. reflexivity. }
  rewrite (bind_ok _ _ _ _ X). reflexivity.
Qed.
Lemma t_rollback_gone : forall st n, find_frame n st = None -> t_rollback n st = (Err E_CLOSED, st).
Proof. intros st n H. unfold t_rollback. rewrite H. reflexivity. Qed.
