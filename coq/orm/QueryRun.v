(* executable entry point for the correspondence check of C41 *)
From Coq Require Import List ZArith Bool Arith.
Import ListNotations.
From SAV.base Require Import Tree.
From SAV.sql Require Import Val3.
From SAV.orm Require Import Query.

Definition as_op (z : Z) : option cmpop :=
  match z with
  | 0 => Some OEq | 1 => Some ONe | 2 => Some OLt | 3 => Some OLe | 4 => Some OGt | 5 => Some OGe | _ => None
  end%Z.

Fixpoint as_sx (t : tree) {struct t} : option sx :=
  match t with
  | L [I 0] => Some STrue
  | L [I 1; I o; I k] => match as_op o with Some o' => Some (SCmp o' k) | None => None end
  | L [I 2] => Some SNull
  | L [I 3; a; b] => match as_sx a, as_sx b with Some x, Some y => Some (SAnd x y) | _, _ => None end
  | L [I 4; a; b] => match as_sx a, as_sx b with Some x, Some y => Some (SOr x y) | _, _ => None end
  | L [I 5; a] => option_map SNot (as_sx a)
  | _ => None
  end.

Fixpoint as_pcrit (t : tree) {struct t} : option pcrit :=
  match t with
  | L [I 0; s] => option_map PS (as_sx s)
  | L [I 1; s] => option_map PAny (as_sx s)
  | L [I 2; s] => option_map PAnySub (as_sx s)
  | L [I 3; I cid] => Some (PContains cid)
  | L [I 4; a; b] => match as_pcrit a, as_pcrit b with Some x, Some y => Some (PAnd x y) | _, _ => None end
  | L [I 5; a; b] => match as_pcrit a, as_pcrit b with Some x, Some y => Some (POr x y) | _, _ => None end
  | L [I 6; a] => option_map PNot (as_pcrit a)
  | L [I 7; s] => option_map PExists (as_sx s)
  | L [I 8; s] => option_map PIn (as_sx s)
  | L [I 9; s] => option_map PTagAny (as_sx s)
  | L [I 10; s] => option_map PTagNested (as_sx s)
  | _ => None
  end.

Fixpoint as_ccrit (t : tree) {struct t} : option ccrit :=
  match t with
  | L [I 0; s] => option_map CS (as_sx s)
  | L [I 1; s] => option_map CHas (as_sx s)
  | L [I 4; a; b] => match as_ccrit a, as_ccrit b with Some x, Some y => Some (CAnd x y) | _, _ => None end
  | L [I 5; a; b] => match as_ccrit a, as_ccrit b with Some x, Some y => Some (COr x y) | _, _ => None end
  | L [I 6; a] => option_map CNot (as_ccrit a)
  (* [7, rel]: rel 0 C.parent == None, 1 the same through C.owner (primaryjoin written foreign key first) *)
  | L [I 7; I _] => Some CNoParent
  | L [I 8; s] => option_map CHasAny (as_sx s)
  | L [I 9; I _] => Some (CNot CNoParent)             (* rel != None *)
  | _ => None
  end.

(* [3, k] / [4, k]: the keyword forms any(data=k) / has(data=k) *)
Fixpoint as_ncrit (t : tree) {struct t} : option ncrit :=
  match t with
  | L [I 0; s] => option_map NS (as_sx s)
  | L [I 1; s] => option_map NAny (as_sx s)
  | L [I 2; s] => option_map NHas (as_sx s)
  | L [I 3; I k] => Some (NAny (SCmp OEq k))
  | L [I 4; I k] => Some (NHas (SCmp OEq k))
  | L [I 5; a; b] => match as_ncrit a, as_ncrit b with Some x, Some y => Some (NAnd x y) | _, _ => None end
  | L [I 6; a; b] => match as_ncrit a, as_ncrit b with Some x, Some y => Some (NOr x y) | _, _ => None end
  | L [I 7; a] => option_map NNot (as_ncrit a)
  | _ => None
  end.

Definition as_target (z : Z) : option target :=
  match z with 0 => Some TgC | 1 => Some TgAlias | 2 => Some TgSub | 3 => Some TgSubOn | _ => None end%Z.
Definition as_colmode (z : Z) : option colmode :=
  match z with 0 => Some BothEnt | 1 => Some EntCol | 2 => Some ColEnt | _ => None end%Z.

Definition as_oq (t : tree) : option oq :=
  match t with
  | L [I 0; c] => option_map QP (as_pcrit c)
  | L [I 1; c] => option_map QC (as_ccrit c)
  | L [I 2; o; I tg; sp; sc; I m] =>
    match as_bool o, as_target tg, as_sx sp, as_sx sc, as_colmode m with
    | Some o', Some t', Some sp', Some sc', Some m' => Some (QJoinPC o' t' sp' sc' m')
    | _, _, _, _, _ => None
    end
  | L [I 3; o; sc; sp] =>
    match as_bool o, as_sx sc, as_sx sp with
    | Some o', Some sc', Some sp' => Some (QJoinCP o' sc' sp') | _, _, _ => None
    end
  | L [I 4; sc] => option_map QGroup (as_sx sc)
  | L [I 5; a; b] => match as_pcrit a, as_pcrit b with Some x, Some y => Some (QUnion x y) | _, _ => None end
  | L [I 6; c] => option_map QN (as_ncrit c)
  | L [I 8; c] => option_map QC (as_ccrit c)            (* select(aliased(C)).where(c) *)
  | L [I 9; a; b; c] =>
    match as_sx a, as_sx b, as_ccrit c with
    | Some a', Some b', Some c' => Some (QUnionC a' b' c') | _, _, _ => None
    end
  (* v: 0 (Sub, aliased(Sub)), 1 two aliases, 2 the id columns of class + alias *)
  | L [I 7; I v; sc] => option_map (QSibs (Z.eqb v 2)) (as_sx sc)
  | _ => None
  end.

Definition as_prow (t : tree) : option prow :=
  match t with
  | L [I i; x] => match as_optZ x with Some x' => Some {| p_id := i; p_x := x' |} | None => None end
  | _ => None
  end.
Definition as_crow (t : tree) : option crow :=
  match t with
  | L [I i; pid; y; I k] =>
    match as_optZ pid, as_optZ y with
    | Some pid', Some y' => Some {| c_id := i; c_pid := pid'; c_y := y'; c_kind := k |} | _, _ => None
    end
  | _ => None
  end.
Definition as_db (t : tree) : option db :=
  match t with
  | L [tp; tc; tn; ta] =>
    match as_list_of as_prow tp, as_list_of as_crow tc, as_list_of as_crow tn, as_list_of (as_pair_of as_Z as_Z) ta with
    | Some p, Some c, Some n, Some a => Some {| ps := p; cs := c; ns := n; pn := a |} | _, _, _, _ => None
    end
  | _ => None
  end.
(* [offset; limit] with limit -1 = none *)
Definition as_slice (t : tree) : option (nat * option nat) :=
  match t with
  | L [I o; I l] => if (o <? 0)%Z then None else Some (Z.to_nat o, if (l <? 0)%Z then None else Some (Z.to_nat l))
  | _ => None
  end.

Definition of_item (i : item) : tree :=
  match i with
  | IEnt o pk => L [of_nat o; I pk]
  | INone => L []
  | IVal v => of_optZ v
  end.

(* input  L [db; query; I style (0 = select() + Session.execute, 1 = legacy Query); L [offset; limit]]
   output L [rows; count; exists] *)
Definition run_case (t : tree) : tree :=
  match t with
  | L [td; tq; ts; tl] =>
    match as_db td, as_oq tq, as_bool ts, as_slice tl with
    | Some d, Some q, Some legacy, Some (off, lim) =>
      L [of_list (of_list of_item) (orm_exec_sl d q off lim legacy); of_nat (orm_count_sl d q off lim);
         of_bool (orm_exists_sl d q off lim)]
    | _, _, _, _ => bad_input
    end
  | _ => bad_input
  end.
