(* C33 - _restore_snapshot under the invariant: it re-establishes the snapshot of the frame. *)
From Coq Require Import List ZArith Bool Arith Lia.
Import ListNotations.
From SAV.orm Require Import SessTxn SessTxnBase SessTxnSpec SessTxnInv SessTxnOps SessTxnRestore.
Open Scope nat_scope.

Lemma mem_filter_seq : forall (P : nat -> bool) n x, mem x (filter P (seq 0 n)) = Nat.ltb x n && P x.
Proof.
  intros P n x. destruct (mem x (filter P (seq 0 n))) eqn:E.
  - apply mem_In in E. apply filter_In in E. destruct E as [E1 E2]. apply in_seq in E1.
    rewrite E2. destruct (Nat.ltb_spec x n); [reflexivity|lia].
  - destruct (Nat.ltb_spec x n); cbn; auto. destruct (P x) eqn:EP; auto.
    assert (In x (filter P (seq 0 n))). { apply filter_In. split; auto. apply in_seq. lia. }
    apply mem_In in H0. congruence.
Qed.
Lemma mem_filter : forall (P : nat -> bool) l x, mem x (filter P l) = mem x l && P x.
Proof.
  intros P l x. destruct (mem x (filter P l)) eqn:E.
  - apply mem_In in E. apply filter_In in E. destruct E as [E1 E2]. apply mem_In in E1. rewrite E1, E2. reflexivity.
  - destruct (mem x l) eqn:E1; cbn; auto. destruct (P x) eqn:E2; auto.
    assert (In x (filter P l)). { apply filter_In. split; auto. apply mem_In; auto. }
    apply mem_In in H. congruence.
Qed.

Lemma Good_ext : forall ob n W W' sn sd, (forall k, W k = W' k) -> Good ob n W sn sd -> Good ob n W' sn sd.
Proof.
  intros ob n W W' sn sd HW G. destruct G as [G1 G2 G3 G4 G5 G5' G6 G6' G7 G8]. constructor; auto.
  - intros o k H1 H2. destruct (G4 o k H1 H2) as [v [A B]]. exists v. rewrite <- HW. auto.
  - intros o k H1 H2 H3 H4. destruct (G7 o k H1 H2 H3 H4) as [A|A]; [left; rewrite <- HW; auto|right; auto].
Qed.

(* the object a restore of frame [f] produces from [ob] *)
Section Final.
  Variables (b : bool) (f : frame) (ob : nat -> obj) (n : nat) (sn sd : list nat).
  Definition memE (x : nat) : bool := Nat.ltb x n && expunged f sn x.
  Definition fo1 (x : nat) : obj :=
    if memE x then detach_obj true (if mem x sn then ob x else o_in (ob x) false) else ob x.
  Definition fo2 (x : nat) : obj :=
    match ks_find x (fks f) with
    | Some (old, _) => if memE x then fo1 x else o_in (o_key (fo1 x) (Some old)) true
    | None => fo1 x
    end.
  Definition mtodel (x : nat) : bool := Nat.ltb x n && negb (memE x) && (mem x (fdel f) || mem x sd).
  Definition fo3 (x : nat) : obj := if mtodel x then o_in (o_delf (fo2 x) false) true else fo2 x.
  Definition fo4 (x : nat) : obj :=
    if oin (fo3 x) && (negb b || omod (fo3 x) || mem x (fdirty f)) then expire_obj (fo3 x) else fo3 x.

  (* ---- plain computation on the formula *)
  Lemma fo4_E : forall x, memE x = true -> (mem x sn = true -> oin (ob x) = false) ->
    oatt (fo4 x) = false /\ oin (fo4 x) = false /\ (odelf (fo4 x) = false /\ okey (fo4 x) = None) /\
    odid (fo4 x) = odid (ob x) /\ odv (fo4 x) = odv (ob x) /\ omod (fo4 x) = omod (ob x) /\
    ocid (fo4 x) = ocid (ob x) /\ ocv (fo4 x) = ocv (ob x).
  Proof.
    intros x H Hs. unfold fo4, fo3, mtodel, fo2, fo1. rewrite H. rewrite andb_false_r. cbn [andb].
    destruct (mem x sn) eqn:Es.
    - specialize (Hs eq_refl).
      destruct (ks_find x (fks f)) as [[old nw]|]; cbn; rewrite ?Hs; cbn; repeat split; auto.
    - destruct (ks_find x (fks f)) as [[old nw]|]; cbn; repeat split; reflexivity.
  Qed.

  Definition oin3 (x : nat) : bool :=
    match ks_find x (fks f) with Some _ => true | None => false end || mtodel x || oin (ob x).
  Lemma fo3_notE : forall x, memE x = false ->
    okey (fo3 x) = pkey f ob x /\ oatt (fo3 x) = oatt (ob x) /\
    odelf (fo3 x) = (if mtodel x then false else odelf (ob x)) /\ oin (fo3 x) = oin3 x /\
    odid (fo3 x) = odid (ob x) /\ odv (fo3 x) = odv (ob x) /\ omod (fo3 x) = omod (ob x) /\
    ocid (fo3 x) = ocid (ob x) /\ ocv (fo3 x) = ocv (ob x) /\ oexp (fo3 x) = oexp (ob x).
  Proof.
    intros x H. unfold oin3, fo3, fo2, fo1, pkey. rewrite H.
    destruct (ks_find x (fks f)) as [[old nw]|]; destruct (mtodel x); cbn; repeat split; try reflexivity.
  Qed.
  Lemma fo4_notE : forall x, memE x = false ->
    okey (fo4 x) = pkey f ob x /\ oatt (fo4 x) = oatt (ob x) /\
    odelf (fo4 x) = (if mtodel x then false else odelf (ob x)) /\ oin (fo4 x) = oin3 x /\
    ((odid (fo4 x) = None /\ odv (fo4 x) = None /\ omod (fo4 x) = false /\ ocid (fo4 x) = None /\ ocv (fo4 x) = None /\ oin3 x = true) \/
     (odid (fo4 x) = odid (ob x) /\ odv (fo4 x) = odv (ob x) /\ omod (fo4 x) = omod (ob x) /\
      ocid (fo4 x) = ocid (ob x) /\ ocv (fo4 x) = ocv (ob x) /\
      (oin3 x = true -> b = true /\ omod (ob x) = false /\ mem x (fdirty f) = false))).
  Proof.
    intros x H. destruct (fo3_notE x H) as [A1 [A2 [A3 [A4 [A5 [A6 [A7 [A8 [A9 A10]]]]]]]]].
    unfold fo4. destruct (oin (fo3 x) && (negb b || omod (fo3 x) || mem x (fdirty f))) eqn:E.
    - apply andb_prop in E. destruct E as [E1 E2]. cbn [expire_obj okey oatt odelf oin odid odv omod ocid ocv].
      split; [exact A1|]. split; [exact A2|]. split; [exact A3|]. split; [exact A4|].
      left. repeat split; auto. congruence.
    - split; [exact A1|]. split; [exact A2|]. split; [exact A3|]. split; [exact A4|].
      right. split; [exact A5|]. split; [exact A6|]. split; [exact A7|]. split; [exact A8|]. split; [exact A9|].
      intros Hi. rewrite A4, Hi in E. cbn in E.
      apply orb_false_elim in E. destruct E as [E E3]. apply orb_false_elim in E. destruct E as [E1 E2].
      destruct b; [|discriminate]. rewrite A7 in E2. auto.
  Qed.
  Lemma fo4_clean : forall x, oin (fo4 x) = true -> omod (fo4 x) = false.
  Proof.
    intros x H. unfold fo4 in *. destruct (oin (fo3 x) && (negb b || omod (fo3 x) || mem x (fdirty f))) eqn:E.
    - reflexivity.
    - rewrite H in E. cbn in E. apply orb_false_elim in E. destruct E as [E _].
      apply orb_false_elim in E. destruct E; auto.
  Qed.
  Lemma fo4_out : forall x, n <= x -> ks_find x (fks f) = None -> oin (ob x) = false -> fo4 x = ob x.
  Proof.
    intros x H Hk Hi. unfold fo4, fo3, mtodel, fo2, fo1, memE.
    destruct (Nat.ltb_spec x n); [lia|]. cbn. rewrite Hk, Hi. reflexivity.
  Qed.
End Final.

(* ------------------------------------------------------------------ the formula against the snapshot *)
Section Sem.
  Variables (b : bool) (f : frame) (ob : nat -> obj) (n : nat) (sn sd : list nat) (W0 : tbl) (g : ghost).
  Hypothesis G : Good ob n W0 sn sd.
  Hypothesis Jh : J ob n.
  Hypothesis GC : GClean g.
  Hypothesis R : Rel g f ob n sn sd W0.

  Let GG : Good (gobjs g) (gn g) (gW g) [] [] := proj1 GC.

  Lemma memE_exp : forall x, x < n -> memE f n sn x = expunged f sn x.
  Proof. intros x H. unfold memE. destruct (Nat.ltb_spec x n); [reflexivity|lia]. Qed.

  Lemma sn_notin : forall x, mem x sn = true -> oin (ob x) = false /\ x < n /\ okey (ob x) = None.
  Proof.
    intros x H. apply mem_In in H. apply (g_new _ _ _ _ _ G) in H. destruct H as [A [B C]].
    repeat split; auto. destruct (oin (ob x)) eqn:E; auto.
    destruct (g_in _ _ _ _ _ G x E) as [_ [_ [_ K]]]. congruence.
  Qed.

  Lemma mtodel_spec : forall x, mtodel f n sn sd x = true ->
    x < n /\ expunged f sn x = false /\ (mem x (fdel f) = true \/ mem x sd = true).
  Proof.
    intros x H. unfold mtodel in H. apply andb_prop in H. destruct H as [H H3].
    apply andb_prop in H. destruct H as [H1 H2]. apply Nat.ltb_lt in H1.
    rewrite memE_exp in H2 by auto. apply negb_true_iff in H2. apply orb_prop in H3. auto.
  Qed.

  (* an object that ends up in the identity map was in it when the frame began, under the restored key *)
  Lemma fin_sigma : forall x, x < n -> expunged f sn x = false -> oin3 f ob n sn sd x = true ->
    x < gn g /\ oin (gobjs g x) = true /\ oatt (ob x) = true /\ oatt (gobjs g x) = true /\
    pkey f ob x = okey (gobjs g x) /\ pdelf f ob sd x = odelf (gobjs g x).
  Proof.
    intros x Hn He Hi.
    assert (Hatt : oatt (ob x) = true).
    { unfold oin3 in Hi. apply orb_prop in Hi. destruct Hi as [Hi|Hi]; [apply orb_prop in Hi; destruct Hi as [Hi|Hi]|].
      - destruct (ks_find x (fks f)) as [[old nw]|] eqn:Ek; [|discriminate].
        destruct (r_ks _ _ _ _ _ _ _ R x old nw Ek) as [_ [_ [A _]]]. exact A.
      - destruct (mtodel_spec x Hi) as [_ [_ [D|D]]].
        + destruct (r_del _ _ _ _ _ _ _ R x D) as [_ [_ [_ [A _]]]]. exact A.
        + apply mem_In in D. apply (g_del _ _ _ _ _ G) in D. destruct (g_in _ _ _ _ _ G x D) as [_ [A _]]. exact A.
      - destruct (g_in _ _ _ _ _ G x Hi) as [_ [A _]]. exact A. }
    assert (Hlt : x < gn g).
    { destruct (Nat.lt_ge_cases x (gn g)); auto.
      destruct (r_fresh _ _ _ _ _ _ _ R x H Hn) as [A|[A _]]; congruence. }
    destruct (r_id _ _ _ _ _ _ _ R x Hlt He) as [A B].
    assert (Ha : oatt (gobjs g x) = true) by congruence.
    destruct (B Ha) as [B1 B2].
    repeat split; auto.
    (* persistent in the snapshot *)
    assert (Hk : pkey f ob x <> None /\ pdelf f ob sd x = false).
    { unfold oin3 in Hi. apply orb_prop in Hi. destruct Hi as [Hi|Hi]; [apply orb_prop in Hi; destruct Hi as [Hi|Hi]|].
      - destruct (ks_find x (fks f)) as [[old nw]|] eqn:Ek; [|discriminate].
        split; [unfold pkey; rewrite Ek; discriminate|].
        destruct (r_ks _ _ _ _ _ _ _ R x old nw Ek) as [_ [_ [_ [D|D]]]].
        + unfold expunged in He. rewrite D in He. discriminate.
        + destruct (r_dirty _ _ _ _ _ _ _ R x D) as [D'|[_ D']].
          * unfold expunged in He. rewrite D' in He. discriminate.
          * destruct (g_in _ _ _ _ _ GG x D') as [_ [_ [X _]]]. congruence.
      - destruct (mtodel_spec x Hi) as [_ [_ D]]. split.
        + unfold pkey. destruct (ks_find x (fks f)) as [[old nw]|]; [discriminate|].
          destruct D as [D|D].
          * destruct (r_del _ _ _ _ _ _ _ R x D) as [_ [_ [_ [_ X]]]]. exact X.
          * apply mem_In in D. apply (g_del _ _ _ _ _ G) in D. destruct (g_in _ _ _ _ _ G x D) as [_ [_ [_ X]]]. exact X.
        + unfold pdelf. destruct D as [D|D]; rewrite D; [reflexivity|rewrite orb_true_r; reflexivity].
      - destruct (g_in _ _ _ _ _ G x Hi) as [_ [_ [X Y]]]. split.
        + unfold pkey. destruct (ks_find x (fks f)) as [[old nw]|]; [discriminate|exact Y].
        + unfold pdelf. destruct (_ || _); auto. }
    destruct Hk as [K1 K2]. rewrite B1 in K1. rewrite B2 in K2.
    destruct (okey (gobjs g x)) as [k|] eqn:Ek; [|congruence].
    apply (g_pers _ _ _ _ _ GG x k Hlt Ek Ha K2).
  Qed.

  Notation F4 := (fo4 b f ob n sn sd).

  (* identity of the result for objects the snapshot knows *)
  Lemma fo4_id : forall x, x < gn g ->
    oatt (F4 x) = oatt (gobjs g x) /\ oin (F4 x) = oin (gobjs g x) /\
    (oatt (gobjs g x) = true -> okey (F4 x) = okey (gobjs g x) /\ odelf (F4 x) = odelf (gobjs g x)).
  Proof.
    intros x Hx. assert (Hn : x < n) by (pose proof (r_n _ _ _ _ _ _ _ R); lia).
    destruct (expunged f sn x) eqn:He.
    - pose proof (r_exp _ _ _ _ _ _ _ R x Hx He) as B.
      destruct (fo4_E b f ob n sn sd x) as [C [D _]]; [rewrite memE_exp; auto|intros Y; apply sn_notin; auto|].
      rewrite C, D, B. split; auto. split; [|intros; congruence].
      destruct (oin (gobjs g x)) eqn:E; auto. destruct (g_in _ _ _ _ _ GG x E) as [_ [X _]]. congruence.
    - destruct (r_id _ _ _ _ _ _ _ R x Hx He) as [A B].
      destruct (fo4_notE b f ob n sn sd x) as [C1 [C2 [C3 [C4 _]]]]; [rewrite memE_exp; auto|].
      rewrite C1, C2, C3, C4. split; auto.
      destruct (oin3 f ob n sn sd x) eqn:Ei.
      + destruct (fin_sigma x Hn He Ei) as [_ [D1 [D2 [D3 [D4 D5]]]]]. split; auto.
        intros _. split; auto. rewrite <- D5. unfold pdelf.
        destruct (mtodel f n sn sd x) eqn:Em.
        * destruct (mtodel_spec x Em) as [_ [_ [D|D]]]; rewrite D; [reflexivity|rewrite orb_true_r; reflexivity].
        * unfold mtodel in Em. destruct (Nat.ltb_spec x n); [|lia]. rewrite memE_exp, He in Em by auto.
          cbn in Em. rewrite Em. reflexivity.
      + assert (Hm : mtodel f n sn sd x = false /\ ks_find x (fks f) = None /\ oin (ob x) = false).
        { unfold oin3 in Ei. apply orb_false_elim in Ei. destruct Ei as [Ei E3].
          apply orb_false_elim in Ei. destruct Ei as [E1 E2]. repeat split; auto.
          destruct (ks_find x (fks f)); [discriminate|reflexivity]. }
        destruct Hm as [M1 [M2 M3]]. rewrite M1. split.
        * destruct (oin (gobjs g x)) eqn:E; auto. exfalso.
          destruct (g_in _ _ _ _ _ GG x E) as [_ [Xa [Xd Xk]]]. destruct (B Xa) as [B1 B2].
          unfold pkey in B1. rewrite M2 in B1.
          assert (Hf : mem x (fdel f) || mem x sd = false).
          { unfold mtodel in M1. destruct (Nat.ltb_spec x n); [|lia]. rewrite memE_exp, He in M1 by auto. exact M1. }
          unfold pdelf in B2. rewrite Hf in B2.
          destruct (okey (ob x)) as [k|] eqn:Ek; [|congruence].
          rewrite (g_pers _ _ _ _ _ G x k Hn Ek) in M3; congruence.
        * intros Xa. destruct (B Xa) as [B1 B2]. unfold pkey in *. rewrite M2 in *. split; auto.
          assert (Hf : mem x (fdel f) || mem x sd = false).
          { unfold mtodel in M1. destruct (Nat.ltb_spec x n); [|lia]. rewrite memE_exp, He in M1 by auto. exact M1. }
          unfold pdelf in B2. rewrite Hf in B2. exact B2.
  Qed.

  Lemma fo4_fresh : forall x, gn g <= x -> x < n -> oatt (F4 x) = false /\ oin (F4 x) = false.
  Proof.
    intros x Hx Hn. destruct (expunged f sn x) eqn:He.
    - destruct (fo4_E b f ob n sn sd x) as [C [D _]]; [rewrite memE_exp; auto|intros Y; apply sn_notin; auto|]. auto.
    - destruct (r_fresh _ _ _ _ _ _ _ R x Hx Hn) as [A|[A B]]; [congruence|].
      destruct (fo4_notE b f ob n sn sd x) as [C1 [C2 [C3 [C4 _]]]]; [rewrite memE_exp; auto|].
      rewrite C2, C4. split; auto.
      destruct (oin3 f ob n sn sd x) eqn:Ei; auto.
      destruct (fin_sigma x Hn He Ei) as [X _]. lia.
  Qed.

  Lemma fo4_beyond : forall x, n <= x -> F4 x = ob x.
  Proof.
    intros x Hx. apply fo4_out; auto.
    - destruct (ks_find x (fks f)) as [[old nw]|] eqn:E; auto.
      destruct (r_ks _ _ _ _ _ _ _ R x old nw E) as [X _]. lia.
    - destruct (oin (ob x)) eqn:E; auto. destruct (g_in _ _ _ _ _ G x E) as [X _]. lia.
  Qed.

  Lemma restored_approx : Approx g F4 n.
  Proof.
    constructor.
    - apply (r_n _ _ _ _ _ _ _ R).
    - apply fo4_id.
    - apply fo4_fresh.
    - apply fo4_clean.
    - intros x Hx Hk Hi Hm. assert (Hn : x < n) by (pose proof (r_n _ _ _ _ _ _ _ R); lia).
      destruct (fo4_id x Hx) as [A [B C]].
      assert (Hv : odid (F4 x) = odid (ob x) /\ odv (F4 x) = odv (ob x) /\ omod (F4 x) = omod (ob x)).
      { destruct (expunged f sn x) eqn:He.
        - destruct (fo4_E b f ob n sn sd x) as [_ [_ [_ [D1 [D2 [D3 _]]]]]]; [rewrite memE_exp; auto|intros Y; apply sn_notin; auto|]. auto.
        - destruct (fo4_notE b f ob n sn sd x) as [_ [_ [_ [C4 [[_ [_ [_ [_ [_ X]]]]]|[D1 [D2 [D3 _]]]]]]]]; [rewrite memE_exp; auto| |auto].
          rewrite C4 in B. congruence. }
      destruct Hv as [V1 [V2 V3]]. rewrite V1, V2. rewrite V3 in Hm.
      apply (r_keep _ _ _ _ _ _ _ R x Hx Hk Hi Hm).
  Qed.

  Lemma restored_J : J F4 n.
  Proof.
    intros x Hn. destruct (Jh x Hn) as [J1 [J2 J3]].
    destruct (expunged f sn x) eqn:He.
    - destruct (fo4_E b f ob n sn sd x) as [_ [_ [_ [D1 [D2 [D3 [D4 D5]]]]]]]; [rewrite memE_exp; auto|intros Y; apply sn_notin; auto|].
      rewrite D1, D2, D3, D4, D5. auto.
    - destruct (fo4_notE b f ob n sn sd x) as [_ [_ [_ [_ [[D1 [D2 [D3 [D4 [D5 _]]]]]|[D1 [D2 [D3 [D4 [D5 _]]]]]]]]]]; [rewrite memE_exp; auto| |].
      + rewrite D1, D2, D3, D4, D5. repeat split; auto; congruence.
      + rewrite D1, D2, D3, D4, D5. auto.
  Qed.

  Lemma restored_good : Good F4 n (gW g) [] [].
  Proof.
    pose proof restored_approx as AP. destruct AP as [A_n A_id A_fresh A_clean A_keep].
    assert (Hgn : gn g <= n) by exact A_n.
    (* an object of the resulting identity map is known to the snapshot *)
    assert (Hin : forall x, oin (F4 x) = true -> x < gn g /\ oin (gobjs g x) = true /\ oatt (gobjs g x) = true /\
                   okey (F4 x) = okey (gobjs g x) /\ odelf (F4 x) = odelf (gobjs g x)).
    { intros x Hx. destruct (Nat.lt_ge_cases x n) as [Hn|Hn].
      - destruct (Nat.lt_ge_cases x (gn g)) as [Hg|Hg].
        + destruct (A_id x Hg) as [A1 [A2 A3]]. rewrite A2 in Hx.
          destruct (g_in _ _ _ _ _ GG x Hx) as [_ [Xa _]]. destruct (A3 Xa). auto.
        + destruct (A_fresh x Hg Hn). congruence.
      - rewrite fo4_beyond in Hx by auto. destruct (g_in _ _ _ _ _ G x Hx). lia. }
    constructor.
    - intros x Hx. destruct (Hin x Hx) as [H1 [H2 [H3 [H4 H5]]]].
      destruct (g_in _ _ _ _ _ GG x H2) as [_ [Xa [Xd Xk]]]. destruct (A_id x H1) as [A1 _].
      repeat split; try congruence. lia.
    - intros x1 x2 k H1 H2 K1 K2. destruct (Hin x1 H1) as [P1 [P2 [_ [P4 _]]]]. destruct (Hin x2 H2) as [Q1 [Q2 [_ [Q4 _]]]].
      apply (g_uniq _ _ _ _ _ GG x1 x2 k); congruence.
    - intros x k Hn Hk Ha Hd. destruct (Nat.lt_ge_cases x (gn g)) as [Hg|Hg].
      + destruct (A_id x Hg) as [A1 [A2 A3]]. rewrite A2. rewrite A1 in Ha. destruct (A3 Ha) as [A4 A5].
        apply (g_pers _ _ _ _ _ GG x k); congruence.
      + destruct (A_fresh x Hg Hn). congruence.
    - (* rows *)
      intros x k Hx Hk. destruct (Hin x Hx) as [H1 [H2 [H3 [H4 H5]]]].
      assert (Hn : x < n) by lia.
      assert (Hk' : okey (gobjs g x) = Some k) by congruence.
      destruct (g_rows _ _ _ _ _ GG x k H2 Hk') as [v [Hw Hva]]. exists v. split; auto.
      assert (He : expunged f sn x = false).
      { destruct (expunged f sn x) eqn:He; auto. pose proof (r_exp _ _ _ _ _ _ _ R x H1 He). congruence. }
      destruct (fo4_notE b f ob n sn sd x) as [C1 [C2 [C3 [C4 Hv]]]]; [rewrite memE_exp; auto|].
      destruct Hv as [[D1 [D2 [D3 [D4 [D5 _]]]]]|[D1 [D2 [D3 [D4 [D5 D6]]]]]].
      { unfold VA. rewrite D1, D2, D3, D4, D5. repeat split; auto; try congruence; intros; discriminate. }
      rewrite C4 in Hx. destruct (D6 Hx) as [Eb [Em Ed]].
      destruct (Jh x Hn) as [_ [_ J3]]. destruct (J3 Em) as [Jc Jv].
      assert (Hvals : (odid (ob x) = None \/ odid (ob x) = Some k) /\ (odv (ob x) = None \/ odv (ob x) = Some v)).
      { destruct (oin (ob x)) eqn:Eo.
        - (* was in the identity map: its row was not written by the frame *)
          assert (Hks : ks_find x (fks f) = None).
          { destruct (ks_find x (fks f)) as [[old nw]|] eqn:Ek; auto.
            destruct (r_ks _ _ _ _ _ _ _ R x old nw Ek) as [_ [_ [_ [X|X]]]]; [|congruence].
            unfold expunged in He. rewrite X in He. discriminate. }
          assert (Hko : okey (ob x) = Some k). { rewrite <- Hk, C1. unfold pkey. rewrite Hks. reflexivity. }
          destruct (g_rows _ _ _ _ _ G x k Eo Hko) as [v0 [Hw0 [V1 [V2 [V3 _]]]]].
          assert (Hnd : mem x (fdel f) = false).
          { destruct (mem x (fdel f)) eqn:Ef; auto. destruct (r_del _ _ _ _ _ _ _ R x Ef) as [_ [X _]]. congruence. }
          rewrite (r_row _ _ _ _ _ _ _ R x k H1 He H2 Ed Hnd Hk') in Hw0.
          assert (v0 = v) by congruence. subst v0. split; auto.
        - (* a deletion of the frame is reverted *)
          assert (Hd : mem x (fdel f) = true).
          { unfold oin3 in Hx. rewrite Eo, orb_false_r in Hx. apply orb_prop in Hx. destruct Hx as [Hx|Hx].
            - destruct (ks_find x (fks f)) as [[old nw]|] eqn:Ek; [|discriminate].
              destruct (r_ks _ _ _ _ _ _ _ R x old nw Ek) as [_ [_ [_ [X|X]]]]; [|congruence].
              unfold expunged in He. rewrite X in He. discriminate.
            - destruct (mtodel_spec x Hx) as [_ [_ [X|X]]]; auto.
              apply mem_In in X. apply (g_del _ _ _ _ _ G) in X. congruence. }
          apply (r_delv _ _ _ _ _ _ _ R x k v H1 He Hd Ed Em Hk' Hw). }
      destruct Hvals as [Hv1 Hv2].
      unfold VA. rewrite D1, D2, D3, D4, D5, Jc, Jv. rewrite Em.
      repeat split; auto; try congruence; intros; discriminate.
    - intros x. split; [intros []|]. intros [Hn [Hk Ha]]. exfalso.
      destruct (Nat.lt_ge_cases x (gn g)) as [Hg|Hg].
      + destruct (A_id x Hg) as [A1 [A2 A3]]. rewrite A1 in Ha. destruct (A3 Ha) as [A4 A5].
        assert (In x []); [|auto]. apply (g_new _ _ _ _ _ GG). repeat split; congruence.
      + destruct (A_fresh x Hg Hn). congruence.
    - intros x Hn Hk. destruct (expunged f sn x) eqn:He.
      + destruct (fo4_E b f ob n sn sd x) as [_ [_ [[D _] _]]]; [rewrite memE_exp; auto|intros Y; apply sn_notin; auto|exact D].
      + destruct (fo4_notE b f ob n sn sd x) as [C1 [_ [C3 _]]]; [rewrite memE_exp; auto|].
        rewrite C3. destruct (mtodel f n sn sd x); auto.
        change (okey (fo4 b f ob n sn sd x) = None) in Hk. rewrite C1 in Hk. unfold pkey in Hk.
        destruct (ks_find x (fks f)) as [[old nw]|]; [discriminate|]. apply (g_newd _ _ _ _ _ G x Hn Hk).
    - intros x [].
    - split; constructor.
    - intros x k Hn Hk Ha Hd. destruct (Nat.lt_ge_cases x (gn g)) as [Hg|Hg].
      + destruct (A_id x Hg) as [A1 [A2 A3]]. rewrite A1 in Ha. destruct (A3 Ha) as [A4 A5].
        destruct (g_dels _ _ _ _ _ GG x k Hg) as [X|[x' [X1 X2]]]; try congruence; auto.
        right. exists x'. destruct (g_in _ _ _ _ _ GG x' X1) as [Y1 [Y2 _]].
        destruct (A_id x' Y1) as [B1 [B2 B3]]. destruct (B3 Y2). split; congruence.
      + destruct (A_fresh x Hg Hn). congruence.
    - intros x Hn Hk Ha Hd. destruct (Nat.lt_ge_cases x (gn g)) as [Hg|Hg].
      2:{ destruct (A_fresh x Hg Hn). congruence. }
      destruct (A_id x Hg) as [A1 [A2 A3]].
      assert (He : expunged f sn x = false).
      { destruct (expunged f sn x) eqn:He; auto.
        destruct (fo4_E b f ob n sn sd x) as [C _]; [rewrite memE_exp; auto|intros Y; apply sn_notin; auto|]. congruence. }
      destruct (fo4_notE b f ob n sn sd x) as [C1 [C2 [C3 [C4 Hv]]]]; [rewrite memE_exp; auto|].
      assert (Hni : oin3 f ob n sn sd x = false).
      { destruct (oin3 f ob n sn sd x) eqn:Ei; auto. exfalso.
        destruct (Hin x C4) as [_ [Y2 [_ [_ Y5]]]]. destruct (g_in _ _ _ _ _ GG x Y2) as [_ [_ [Z _]]]. congruence. }
      destruct Hv as [[_ [_ [_ [_ [_ X]]]]]|[D1 [D2 _]]]; [congruence|].
      rewrite D1, D2.
      assert (Hm : mtodel f n sn sd x = false /\ ks_find x (fks f) = None).
      { unfold oin3 in Hni. apply orb_false_elim in Hni. destruct Hni as [Hni _].
        apply orb_false_elim in Hni. destruct Hni as [E1 E2]. split; auto.
        destruct (ks_find x (fks f)); [discriminate|reflexivity]. }
      destruct Hm as [M1 M2]. rewrite M1 in C3. unfold pkey in C1. rewrite M2 in C1.
      apply (g_delv _ _ _ _ _ G x Hn); congruence.
  Qed.
End Sem.

(* ------------------------------------------------------------------ the function computes the formula *)
Section Compute.
  Variables (b : bool) (st : sess) (f : frame) (rest : list frame) (W0 : tbl) (g : ghost).
  Hypothesis Hst : stack st = f :: rest.
  Hypothesis G : Good (objs st) (nobj st) W0 (snew st) (sdel st).
  Hypothesis Jh : J (objs st) (nobj st).
  Hypothesis GC : GClean g.
  Hypothesis R : Rel g f (objs st) (nobj st) (snew st) (sdel st) W0.

  Let n := nobj st.
  Let ob := objs st.
  Let sn := snew st.
  Let sd := sdel st.
  Let GG : Good (gobjs g) (gn g) (gW g) [] [] := proj1 GC.
  Let E := filter (fun o => mem o (fnew f) || mem o (snew st)) (all_objs st).
  Let st1 := expunge_states E true st.

  Lemma memE_E : forall x, mem x E = memE f n sn x.
  Proof. intros x. unfold E, all_objs, memE, expunged. apply mem_filter_seq. Qed.

  Lemma st1_objs : forall x, objs st1 x = fo1 f ob n sn x.
  Proof.
    intros x. unfold st1, expunge_states, fo1.
    match goal with |- objs (upd_head ?s ?h) x = _ => destruct (upd_head_fields s h) as [X _]; rewrite X end.
    cbn. rewrite memE_E. reflexivity.
  Qed.

  Let fdel1 := filter (fun x => negb ((mem x E && negb (mem x sn)) && negb (oin (ob x)))) (fdel f).
  Let sdel1 := filter (fun x => negb ((mem x E && negb (mem x sn)) && oin (ob x))) sd.

  Lemma st1_rest : nobj st1 = n /\ stack st1 = f_del f fdel1 :: rest /\ sdel st1 = sdel1 /\
    snew st1 = filter (fun x => negb (mem x E)) sn /\ eoc st1 = eoc st /\ handles st1 = handles st /\
    committed st1 = committed st /\ work st1 = work st /\ saves st1 = saves st /\ nfid st1 = nfid st.
  Proof.
    unfold st1, expunge_states.
    match goal with |- nobj (upd_head ?s ?h) = _ /\ _ =>
      destruct (upd_head_fields s h) as [_ [X1 [X2 [X3 [X4 [X5 [X6 [X7 [X8 [X9 X10]]]]]]]]]] end.
    rewrite X1, X2, X3, X4, X5, X6, X7, X8, X9, X10. cbn. rewrite Hst. repeat split; reflexivity.
  Qed.

  Lemma st1_snew_nil : snew st1 = [].
  Proof.
    destruct st1_rest as [_ [_ [_ [H _]]]]. rewrite H.
    assert (X : forall l, (forall x, In x l -> mem x E = true) -> filter (fun x => negb (mem x E)) l = []).
    { induction l as [|a l IH]; intros Hl; cbn; auto. rewrite (Hl a) by (left; auto). cbn. apply IH. intros; apply Hl; right; auto. }
    apply X. intros x Hx. rewrite memE_E. unfold memE, expunged.
    apply (g_new _ _ _ _ _ G) in Hx as Hx'. destruct Hx' as [A _].
    destruct (Nat.ltb_spec x n); [|unfold n in *; lia]. apply mem_In in Hx. fold sn in Hx. rewrite Hx. rewrite orb_true_r. reflexivity.
  Qed.

  (* phase 2 *)
  Let st2 := fold_left (fun s o => restore_ks_one E (fks f) o s) (all_objs st1) st1.

  Lemma P2_fo2 : forall x, P2 E (fks f) st1 x = fo2 f ob n sn x.
  Proof. intros x. unfold P2, fo2. rewrite st1_objs, memE_E. reflexivity. Qed.

  Lemma oin_fo2 : forall x, x < n -> oin (fo2 f ob n sn x) = true ->
    expunged f sn x = false /\ oin3 f ob n sn sd x = true /\ okey (fo2 f ob n sn x) = pkey f ob x.
  Proof.
    intros x Hn H. unfold fo2, fo1 in *. rewrite (memE_exp f n sn) in * by auto.
    destruct (expunged f sn x) eqn:He.
    - exfalso.
      assert (H1 : oin (detach_obj true (if mem x sn then ob x else o_in (ob x) false)) = true)
        by (destruct (ks_find x (fks f)) as [[old nw]|]; exact H).
      destruct (mem x sn) eqn:Es; cbn in H1; [|discriminate].
      destruct (sn_notin (objs st) (nobj st) (snew st) (sdel st) W0 G x Es) as [X _]. unfold ob in H1. congruence.
    - split; auto. unfold oin3, pkey. destruct (ks_find x (fks f)) as [[old nw]|]; cbn in *; auto.
      rewrite H. rewrite orb_true_r. auto.
  Qed.

  Lemma phase2_inj : forall x y, x < nobj st1 -> y < nobj st1 -> oin (P2 E (fks f) st1 x) = true -> oin (P2 E (fks f) st1 y) = true ->
    okey (P2 E (fks f) st1 x) = okey (P2 E (fks f) st1 y) -> okey (P2 E (fks f) st1 x) <> None -> x = y.
  Proof.
    intros x y Hx Hy Ox Oy Hk Hnk. rewrite !P2_fo2 in *.
    destruct st1_rest as [N1 _]. rewrite N1 in Hx, Hy.
    destruct (oin_fo2 x Hx Ox) as [Ex [Ix Kx]]. destruct (oin_fo2 y Hy Oy) as [Ey [Iy Ky]].
    destruct (fin_sigma f ob n sn sd W0 g G GC R x Hx Ex Ix) as [X1 [X2 [_ [_ [X5 _]]]]].
    destruct (fin_sigma f ob n sn sd W0 g G GC R y Hy Ey Iy) as [Y1 [Y2 [_ [_ [Y5 _]]]]].
    rewrite Kx in Hk, Hnk. rewrite Ky in Hk. rewrite X5 in Hk, Hnk. rewrite Y5 in Hk.
    destruct (okey (gobjs g x)) as [k|] eqn:Ek; [|congruence].
    apply (g_uniq _ _ _ _ _ GG x y k); auto; congruence.
  Qed.

  Lemma st2_char : same_rest st2 st1 /\ forall x, objs st2 x = fo2 f ob n sn x.
  Proof.
    assert (HE : forall x, mem x E = true -> oin (objs st1 x) = false).
    { intros x Hx. rewrite st1_objs. unfold fo1. rewrite <- memE_E, Hx.
      destruct (mem x sn) eqn:Es; cbn; auto.
      destruct (sn_notin (objs st) (nobj st) (snew st) (sdel st) W0 G x Es) as [X _]. exact X. }
    destruct (phase2_char E (fks f) st1 HE phase2_inj) as [SR H]. split; auto.
    intros x. rewrite <- P2_fo2. apply H.
    destruct (Nat.lt_ge_cases x (nobj st1)); auto. right.
    destruct (ks_find x (fks f)) as [[old nw]|] eqn:Ek; auto.
    destruct (r_ks _ _ _ _ _ _ _ R x old nw Ek) as [X _]. destruct st1_rest as [N1 _]. unfold n in N1. lia.
  Qed.

  (* phase 3 *)
  Let todel := filter (fun o => mem o fdel1 || mem o sdel1) (all_objs st2).

  Lemma mem_todel : forall x, mem x todel = mtodel f n sn sd x.
  Proof.
    intros x. unfold todel, all_objs. destruct st2_char as [[_ [N2 _]] _]. destruct st1_rest as [N1 _].
    rewrite N2, N1. rewrite mem_filter_seq. unfold mtodel.
    destruct (Nat.ltb_spec x n); cbn [andb]; auto.
    unfold fdel1, sdel1. rewrite !mem_filter. rewrite !memE_E.
    destruct (memE f n sn x) eqn:Em; cbn [andb negb].
    - (* expunged objects are in neither collection any more *)
      destruct (mem x (fdel f)) eqn:Ef.
      + destruct (r_del _ _ _ _ _ _ _ R x Ef) as [_ [X1 [_ [_ X2]]]].
        assert (Hs : mem x sn = false).
        { destruct (mem x sn) eqn:Es; auto.
          destruct (sn_notin (objs st) (nobj st) (snew st) (sdel st) W0 G x Es) as [_ [_ Y]]. congruence. }
        rewrite Hs. unfold ob. rewrite X1. cbn.
        destruct (mem x sd) eqn:Ed; auto. apply mem_In in Ed. apply (g_del _ _ _ _ _ G) in Ed. congruence.
      + cbn. destruct (mem x sd) eqn:Ed; auto. apply mem_In in Ed. apply (g_del _ _ _ _ _ G) in Ed as Ed'.
        assert (Hs : mem x sn = false).
        { destruct (mem x sn) eqn:Es; auto.
          destruct (sn_notin (objs st) (nobj st) (snew st) (sdel st) W0 G x Es) as [Y _]. congruence. }
        rewrite Hs. unfold ob. rewrite Ed'. reflexivity.
    - rewrite !andb_true_r. reflexivity.
  Qed.

  Lemma todel_ok : forall x, In x todel -> x < nobj st2 /\ okey (objs st2 x) <> None /\ oatt (objs st2 x) = true.
  Proof.
    intros x Hx. apply mem_In in Hx. rewrite mem_todel in Hx.
    destruct (mtodel_spec f n sn sd x Hx) as [Hn [He Hd]].
    destruct st2_char as [[_ [N2 _]] O2]. destruct st1_rest as [N1 _].
    split; [unfold n in *; lia|].
    assert (Hi : oin3 f ob n sn sd x = true). { unfold oin3. rewrite Hx. rewrite orb_true_r. reflexivity. }
    destruct (fin_sigma f ob n sn sd W0 g G GC R x Hn He Hi) as [X1 [X2 [X3 [X4 [X5 _]]]]].
    rewrite O2. unfold fo2, fo1. rewrite (memE_exp f n sn) by auto. rewrite He.
    assert (Hk : pkey f ob x <> None).
    { rewrite X5. destruct (g_in _ _ _ _ _ GG x X2) as [_ [_ [_ Y]]]. exact Y. }
    unfold pkey in Hk. destruct (ks_find x (fks f)) as [[old nw]|]; cbn; split; auto; discriminate.
  Qed.

  Lemma phase3_inj : forall x y, x < nobj st2 -> y < nobj st2 -> fin3 st2 todel x -> fin3 st2 todel y ->
    okey (objs st2 x) = okey (objs st2 y) -> okey (objs st2 x) <> None -> x = y.
  Proof.
    intros x y Hx Hy Fx Fy Hk Hnk.
    destruct st2_char as [[_ [N2 _]] O2]. destruct st1_rest as [N1 _].
    assert (Hx' : x < n) by (unfold n in *; lia). assert (Hy' : y < n) by (unfold n in *; lia).
    assert (K : forall z, z < n -> fin3 st2 todel z ->
                expunged f sn z = false /\ oin3 f ob n sn sd z = true /\ okey (objs st2 z) = pkey f ob z).
    { intros z Hz [Fz|Fz].
      - rewrite O2 in Fz. rewrite O2. apply oin_fo2; auto.
      - apply mem_In in Fz. rewrite mem_todel in Fz.
        destruct (mtodel_spec f n sn sd z Fz) as [_ [He _]].
        split; auto. split; [unfold oin3; rewrite Fz; rewrite orb_true_r; reflexivity|].
        rewrite O2. unfold fo2, fo1, pkey. rewrite (memE_exp f n sn) by auto. rewrite He.
        destruct (ks_find z (fks f)) as [[old nw]|]; reflexivity. }
    destruct (K x Hx' Fx) as [Ex [Ix Kx]]. destruct (K y Hy' Fy) as [Ey [Iy Ky]].
    destruct (fin_sigma f ob n sn sd W0 g G GC R x Hx' Ex Ix) as [X1 [X2 [_ [_ [X5 _]]]]].
    destruct (fin_sigma f ob n sn sd W0 g G GC R y Hy' Ey Iy) as [Y1 [Y2 [_ [_ [Y5 _]]]]].
    rewrite Kx in Hk, Hnk. rewrite Ky in Hk. rewrite X5 in Hk, Hnk. rewrite Y5 in Hk.
    destruct (okey (gobjs g x)) as [k|] eqn:Ek; [|congruence].
    apply (g_uniq _ _ _ _ _ GG x y k); auto; congruence.
  Qed.

  Theorem restore_compute : exists st',
    restore_snapshot b st = (Ok, st') /\
    (forall x, objs st' x = fo4 b f ob n sn sd x) /\
    nobj st' = n /\ snew st' = [] /\ sdel st' = [] /\ stack st' = f_del f fdel1 :: rest /\
    eoc st' = eoc st /\ handles st' = handles st /\ committed st' = committed st /\ work st' = work st /\
    saves st' = saves st /\ nfid st' = nfid st.
  Proof.
    destruct st2_char as [SR2 O2]. destruct st1_rest as [N1 [S1 [D1 [_ [E1 [H1 [C1 [W1 [V1 F1]]]]]]]]].
    destruct SR2 as [E2 [N2 [Sn2 [D2 [S2 [H2 [C2 [W2 [V2 F2]]]]]]]]].
    assert (Hnd : NoDup todel). { unfold todel. apply NoDup_filter. apply seq_NoDup. }
    destruct (phase3_char st2 todel todel_ok phase3_inj Hnd) as [s3 [E3 I3h]].
    destruct I3h as [A1 [A2 [A3 [A4 [A5 [A6 [A7 [A8 [A9 [A10 A11]]]]]]]]]].
    assert (Hsd3 : sdel s3 = []).
    { rewrite A10. rewrite D2, D1.
      assert (X : forall l, (forall x, In x l -> mem x todel = true) -> filter (fun x => negb (mem x todel)) l = []).
      { induction l as [|a l IH]; intros Hl; cbn; auto. rewrite (Hl a) by (left; auto). cbn. apply IH. intros; apply Hl; right; auto. }
      apply X. intros x Hx. unfold todel. apply mem_In. apply filter_In. split.
      - apply in_seq. cbn. rewrite N2, N1. apply filter_In in Hx. destruct Hx as [Hx _].
        apply (g_del _ _ _ _ _ G) in Hx. destruct (g_in _ _ _ _ _ G x Hx) as [Y _]. unfold n. lia.
      - apply mem_In in Hx. rewrite Hx. apply orb_true_r. }
    unfold restore_snapshot. rewrite Hst.
    fold E. fold st1. fold st2.
    replace (match stack st2 with f2 :: _ => fdel f2 | [] => [] end) with fdel1 by (rewrite S2, S1; reflexivity).
    replace (sdel st2) with sdel1 by (rewrite D2, D1; reflexivity).
    fold todel. rewrite E3. rewrite Hsd3. cbn [isnil negb].
    eexists. split; [reflexivity|].
    split.
    - intros x. unfold map_objs. cbn [objs set_objs]. rewrite A11. unfold fo4.
      assert (X : (if mem x todel then P3 st2 todel x else objs st2 x) = fo3 f ob n sn sd x).
      { unfold fo3, P3. rewrite mem_todel. rewrite O2. destruct (mtodel f n sn sd x); reflexivity. }
      rewrite X. reflexivity.
    - unfold map_objs. cbn. repeat split; try congruence.
      rewrite A3, Sn2. apply st1_snew_nil.
  Qed.
End Compute.
