(* C38 - concrete witnesses: where the instrumented collections are NOT the builtin types
   (one lemma per known finding), the repaired slice-assignment cases, and exactness of the
   list accounting guard. *)
From Coq Require Import List ZArith Bool Lia ZifyBool Permutation Arith.
Import ListNotations.
From SAV.base Require Import PySlice PySliceProofs.
From SAV.orm Require Import CollBase CollList CollSet CollDict CollProofs CollListProofs.
Open Scope Z_scope.

Definition sl (a b c : option Z) : pyslice := mkslice a b c.

(* result and contents of one instrumented list operation, for comparison with py_list_op *)
Definition sa_list_rc (l : list item) (op : lop) : res retv * list item :=
  let '(r, l', _) := sa_list_run1 l op in (r, l').
Definition sa_list_events (l : list item) (op : lop) : list ev :=
  let '(_, _, g) := sa_list_run1 l op in g.

(* ---- repaired defects: now equal to the builtin, with exact events ---- *)
(* 1d9f897: slice assignment through slice.indices() *)
Lemma fixed_negative_start :
  sa_list_run1 [0;1;2] (LSetSlice (sl (Some (-5)) (Some 2) None) (VList [7]))
  = (Ok RNone, [7;2], [ERem 0; ERem 1; EAdd 7]) /\
  py_list_op [0;1;2] (LSetSlice (sl (Some (-5)) (Some 2) None) (VList [7])) = (Ok RNone, [7;2]).
Proof. split; vm_compute; reflexivity. Qed.

Lemma fixed_reversed :
  sa_list_run1 [0;1;2] (LSetSlice (sl None None (Some (-1))) (VList [7;8;9]))
  = (Ok RNone, [9;8;7], [ERem 2; EAdd 7; ERem 1; EAdd 8; ERem 0; EAdd 9]) /\
  py_list_op [0;1;2] (LSetSlice (sl None None (Some (-1))) (VList [7;8;9])) = (Ok RNone, [9;8;7]).
Proof. split; vm_compute; reflexivity. Qed.

Lemma fixed_stop_unclamped :
  sa_list_run1 [0;1;2] (LSetSlice (sl (Some 1) (Some 10) (Some 2)) (VList [7]))
  = (Ok RNone, [0;7;2], [ERem 1; EAdd 7]) /\
  py_list_op [0;1;2] (LSetSlice (sl (Some 1) (Some 10) (Some 2)) (VList [7])) = (Ok RNone, [0;7;2]).
Proof. split; vm_compute; reflexivity. Qed.

(* 2c3a941: the assigned value is materialised first *)
(* c[::-1] = c : a reversal, no longer reads the list while overwriting it *)
Lemma fixed_extslice_self :
  sa_list_run1 [0;1] (LSetSlice (sl None None (Some (-1))) VSelf)
  = (Ok RNone, [1;0], [ERem 1; EAdd 0; ERem 0; EAdd 1]) /\
  py_list_op [0;1] (LSetSlice (sl None None (Some (-1))) VSelf) = (Ok RNone, [1;0]).
Proof. split; vm_compute; reflexivity. Qed.

(* c[0:2] = 5 : TypeError before anything is deleted, no event *)
Lemma fixed_setslice_noniterable :
  sa_list_run1 [0;1;2] (LSetSlice (sl (Some 0) (Some 2) None) VNonIter)
  = (Raise TypeError, [0;1;2], []) /\
  py_list_op [0;1;2] (LSetSlice (sl (Some 0) (Some 2) None) VNonIter) = (Raise TypeError, [0;1;2]).
Proof. split; vm_compute; reflexivity. Qed.

(* c[0:3:2] = iter([7, 8]) : accepted *)
Lemma fixed_extslice_iterator :
  sa_list_run1 [0;1;2] (LSetSlice (sl (Some 0) (Some 3) (Some 2)) (VIter [7;8]))
  = (Ok RNone, [7;1;8], [ERem 0; EAdd 7; ERem 2; EAdd 8]) /\
  py_list_op [0;1;2] (LSetSlice (sl (Some 0) (Some 3) (Some 2)) (VIter [7;8])) = (Ok RNone, [7;1;8]).
Proof. split; vm_compute; reflexivity. Qed.

(* b1144f3: remove(7) on [0,1,2]: ValueError and NO remove event *)
Lemma fixed_remove_absent :
  sa_list_run1 [0;1;2] (LRemove 7) = (Raise ValueError, [0;1;2], []) /\
  sa_list_run1 [0;1;2] (LRemove 1) = (Ok RNone, [0;2], [ERem 1]).
Proof. split; vm_compute; reflexivity. Qed.

(* c982b6e: d |= {0: 7, 5: 8} fires the events of update() *)
Lemma fixed_dict_ior :
  sa_dict_run1 [(0, 0); (1, 1)] (DIor [(0, 7); (5, 8)])
  = (Ok RSelf, [(0, 7); (1, 1); (5, 8)], [ERem 0; EAdd 7; EAdd 8]) /\
  py_dict_op [(0, 0); (1, 1)] (DIor [(0, 7); (5, 8)]) = (Ok RSelf, [(0, 7); (1, 1); (5, 8)]).
Proof. split; vm_compute; reflexivity. Qed.

(* ---- list: contents / result differ from the builtin ---- *)
(* c[1:2] = c : ignored *)
Lemma refuted_setslice_self : exists l op,
  list_eq_guard l op = false /\ sa_list_rc l op = (Ok RNone, [0;1;2]) /\
  py_list_op l op = (Ok RNone, [0;0;1;2;2]).
Proof.
  exists [0;1;2], (LSetSlice (sl (Some 1) (Some 2) None) VSelf). repeat split; vm_compute; reflexivity.
Qed.

(* ---- list: events do not account for the contents ---- *)
Definition unaccounted (before after : list item) (g : list ev) : Prop :=
  exists x, countZ x after - countZ x before <> net x g.

(* c *= 2 : contents doubled, no event *)
Lemma refuted_imul : exists l op,
  list_acct_guard l op = false /\
  sa_list_run1 l op = (Ok RSelf, [0;1;0;1], []) /\ unaccounted l [0;1;0;1] [].
Proof.
  exists [0;1], (LIMul 2). repeat split; try (vm_compute; reflexivity).
  exists 0. vm_compute. discriminate.
Qed.

(* ---- set ---- *)
(* s -= s on {0}: RuntimeError after one member was discarded; the builtin empties the set *)
Lemma refuted_set_isub_self : exists s op,
  set_eq_guard s op = false /\
  sa_set_run1 (fun l => l) s op = (Raise RuntimeError, [], [ERem 0]) /\
  py_set_op (fun l => l) s op = (Ok RSelf, []).
Proof. exists [0], (SIsub ASelf). repeat split; vm_compute; reflexivity. Qed.

(* ---- the list accounting guard excludes exactly the defective region ---- *)
Lemma countZ_concat_repeat : forall x (l : list item) k,
  countZ x (concat (repeat l k)) = Z.of_nat k * countZ x l.
Proof.
  induction k; cbn [repeat concat]; [rewrite countZ_nil; lia|]. rewrite countZ_app, IHk. lia.
Qed.

Theorem list_acct_guard_exact : forall l op g, list_acct_guard l op = false ->
  let '(_, (l', g')) := sa_list_op op (l, g) in
  exists x, countZ x l' - countZ x l <> net x g' - net x g.
Proof.
  intros l op g H. destruct op; try discriminate; cbn [list_acct_guard] in H.
  (* *= n, n <> 1, non-empty *)
  cbn [sa_list_op]. unfold bind, b_upd, lift, ret. cbn [fst snd].
  apply orb_false_elim in H. destruct H as [H1 H2].
  destruct l as [|h t]; [discriminate|]. exists h.
  assert (C : 1 <= countZ h (h :: t)).
  { rewrite countZ_cons, Z.eqb_refl. pose proof (countZ_nonneg h t). lia. }
  unfold py_imul. destruct (n <=? 0) eqn:E.
  - rewrite countZ_nil. lia.
  - rewrite countZ_concat_repeat. nia.
Qed.

(* ---- the list equality guard excludes exactly the defective region: wherever it is false the
   contents differ from the builtin's ---- *)
Theorem list_eq_guard_exact : forall l op g, list_eq_guard l op = false ->
  fst (snd (sa_list_op op (l, g))) <> snd (py_list_op l op).
Proof.
  intros l op g H. destruct op as [| | | |s0 v| | | | | | | | |]; try discriminate. destruct v; try discriminate.
  cbn [list_eq_guard] in H. cbn [sa_list_op py_list_op]. unfold bind. rewrite sa_setslice_unfold.
  destruct (adjust s0 (zlen l)) as [[[start stop] step]|e] eqn:Ha; [|discriminate].
  destruct (step =? 1) eqn:E1; [|discriminate]. assert (step = 1) by lia. subst step.
  destruct (adjust_bounds _ _ _ _ _ (zlen_nonneg l) Ha) as [_ [Hpos _]].
  destruct (Hpos ltac:(lia)) as [Bs Bp].
  unfold sa_setslice_body. cbn [Z.eqb Pos.eqb ret fst snd materialise].
  unfold py_setslice. rewrite Ha. cbn [Z.eqb Pos.eqb fst snd].
  intro Heq. apply (f_equal (@length Z)) in Heq.
  rewrite !app_length, firstn_length, skipn_length in Heq. unfold zlen in *. lia.
Qed.
