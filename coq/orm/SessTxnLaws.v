(* C33 - T3: what the database sees of a guarded history.
   (a) the rows other connections see change only when the outermost transaction is committed;
   (b) the outermost commit publishes exactly the rows the session's connection sees and leaves neither
       transaction nor savepoint; (c) Session.rollback() restores the committed rows and leaves neither;
   (d) in every state the savepoint stack of the database is exactly the stack of the session's live
       begin_nested transactions that hold a connection, innermost first (the SAVEPOINT / RELEASE /
       ROLLBACK TO commands the session issues keep the snapshot stack of engine/RefDb.v in step with
       the SessionTransaction stack). *)
From Coq Require Import List ZArith Bool Arith Lia.
Import ListNotations.
From SAV.orm Require Import SessTxn SessTxnBase SessTxnSpec SessTxnInv SessTxnOps SessTxnRestore SessTxnRestore2
  SessTxnShift SessTxnStmts SessTxnFlush SessTxnDbInv SessTxnCore SessTxnFlushCore SessTxnTx SessTxnMerge SessTxnCommit SessTxnObjOps
  SessTxnNested SessTxnClose SessTxnMain.
Open Scope nat_scope.

Lemma committed_autobegin : forall st, committed (autobegin st) = committed st.
Proof. intros. unfold autobegin. destruct (stack st); reflexivity. Qed.
Lemma committed_modified_event : forall o st, committed (modified_event o st) = committed st.
Proof.
  intros. unfold modified_event. destruct (omod _); auto.
  destruct (_ && _); rewrite ?committed_autobegin; reflexivity.
Qed.
Lemma committed_simple : forall p st r st', (match p with ONew _ _ | OAdd _ | OSetV _ _ | ODel _ => True | _ => False end) ->
  do_op p st = (r, st') -> committed st' = committed st.
Proof.
  intros p st r st' Hp H. destruct p; try contradiction; cbn [do_op] in H.
  - unfold save_or_update in H. cbn in H. rewrite updN_same in H. cbn in H.
    destruct (mem _ _) in H; inversion H; subst; cbn; rewrite ?committed_autobegin; reflexivity.
  - destruct (Nat.ltb o (nobj st)); [|inversion H; subst; reflexivity].
    unfold save_or_update, update_impl, im_add in H.
    destruct (okey (objs st o)).
    + destruct (odelf _); [inversion H; subst; reflexivity|]. destruct (negb _); [inversion H; subst; reflexivity|].
      cbn in H. destruct (okey _) in H; [|inversion H; subst; cbn; apply committed_autobegin].
      destruct (im_other _ _) in H; inversion H; subst; cbn; apply committed_autobegin.
    + destruct (mem _ _) in H; inversion H; subst; cbn; apply committed_autobegin.
  - destruct (negb _); inversion H; subst; [reflexivity|]. rewrite committed_modified_event. reflexivity.
  - destruct (negb _); [inversion H; subst; reflexivity|].
    destruct (okey _); [|inversion H; subst; reflexivity]. destruct (negb _); [inversion H; subst; reflexivity|].
    destruct (mem _ _); [inversion H; subst; apply committed_autobegin|].
    unfold bind, im_add, lift in H. destruct (okey _) in H; [|inversion H; subst; apply committed_autobegin].
    destruct (im_other _ _) in H; inversion H; subst; cbn; apply committed_autobegin.
Qed.

Theorem committed_step : forall st p r st', Inv st -> guard st p = true -> do_op p st = (r, st') -> r <> Unmodelled ->
  p <> OCommit -> committed st' = committed st \/ (exists h, p = OTCommit h /\ r = Ok /\ stack st' = []).
Proof.
  intros st p r st' [gs C] Hg H Hr Hp.
  destruct p; try congruence; try (left; eapply committed_simple; eauto; exact I).
  - (* o.id = pk *)
    left. cbn [do_op] in H. destruct (Nat.ltb_spec o (nobj st)) as [Ho|Ho]; cbn [negb] in H; [|inversion H; subst; reflexivity].
    apply bind_inv in H. destruct H as [[s1 [H1 H2]]|[H1 Hn]].
    + inversion H2; subst. rewrite committed_modified_event. cbn.
      destruct (needs_pk_load _); [|inversion H1; subst; reflexivity].
      destruct (load_expired_core st gs o Ok s1 C Ho H1) as [gs1 (_ & _ & _ & _ & K & _)]; [discriminate|exact K].
    + destruct (needs_pk_load _); [|inversion H1; subst; congruence].
      destruct (load_expired_core st gs o r st' C Ho H1 Hr) as [gs1 (_ & _ & _ & _ & K & _)]. exact K.
  - (* flush *)
    left. cbn [do_op] in H. destruct (flush_core st gs r st' C H Hr) as [_ (_ & _ & K & _)]. exact K.
  - (* begin_nested *)
    left. cbn [do_op] in H.
    pose proof (Core_handles st gs (handles st ++ [None]) C) as C0.
    set (st0 := set_handles st (handles st ++ [None])) in *.
    destruct (autobegin_core st0 gs C0) as [gs1 [C1 _]].
    assert (E0 : committed (autobegin st0) = committed st) by (rewrite committed_autobegin; reflexivity).
    destruct (stack (autobegin st0)) as [|p rest] eqn:Es; [inversion H; subst; congruence|].
    destruct (check_prereq p M_begin); [inversion H; subst; exact E0|].
    apply bind_inv in H. destruct H as [[s2 [H1 H2]]|[H1 Hn]].
    + destruct (flush_core _ gs1 Ok s2 C1 H1) as [_ (_ & _ & K & _)]; [discriminate|]. inversion H2; subst. cbn. congruence.
    + destruct (flush_core _ gs1 r st' C1 H1 Hr) as [_ (_ & _ & K & _)]. congruence.
  - (* Session.rollback *)
    left. cbn [do_op] in H.
    destruct (rollback_all_core (S (length (stack st))) st gs C) as (s2 & E & _ & _ & _ & K & _); [lia|].
    rewrite E in H. inversion H; subst. exact K.
  - (* handle.commit *)
    cbn [do_op] in H.
    destruct (nth_error (handles st) h) as [[n|]|] eqn:En; [|inversion H; subst; left; reflexivity|inversion H; subst; congruence].
    destruct (t_commit_core st gs n r st' C H Hr) as [gs' [_ [_ [K|[K1 K2]]]]]; [left; exact K|right; eauto].
  - (* handle.rollback *)
    left. cbn [do_op] in H. unfold guard in Hg. cbn in Hg.
    destruct (nth_error (handles st) h) as [[n|]|] eqn:En; [|inversion H; subst; reflexivity|inversion H; subst; congruence].
    apply orb_prop in Hg. destruct Hg as [Hg|Hg].
    + rewrite (t_rollback_head st gs n C Hg) in H.
      unfold head_is in Hg. destruct (stack st) as [|f rest] eqn:Es; [discriminate|].
      destruct (Core_shape st gs f rest C Es) as [g [gs' Eg]]. subst gs.
      destruct (rollback_head_core st g gs' f rest C Es) as (s2 & E & _ & _ & _ & K & _).
      rewrite E in H. inversion H; subst. exact K.
    + apply negb_true_iff in Hg. rewrite (t_rollback_gone st n (find_frame_none st n Hg)) in H. inversion H; subst. reflexivity.
  - (* close *)
    left. destruct (op_close_core st gs r st' C Hg H Hr) as (_ & _ & _ & _ & K). exact K.
  - (* attribute refresh *)
    left. cbn [do_op] in H. destruct (Nat.ltb_spec o (nobj st)) as [Ho|Ho]; cbn [negb] in H; [|inversion H; subst; reflexivity].
    destruct (odv (objs st o)); [inversion H; subst; reflexivity|].
    destruct (load_expired_core st gs o r st' C Ho H Hr) as [gs1 (_ & _ & _ & _ & K & _)]. exact K.
Qed.

(* (b) the outermost commit *)
Theorem commit_publishes : forall st r st', Inv st -> guard st OCommit = true -> do_op OCommit st = (r, st') -> r = Ok ->
  stack st' = [] /\ saves st' = [] /\ committed st' = work st' /\ is_clean st' = true.
Proof.
  intros st r st' I Hg H Hr.
  destruct (do_op_inv st OCommit r st' I Hg H) as [[gs C] B]; [congruence|].
  cbn [do_op] in H. destruct I as [gs0 C0].
  destruct (autobegin_core st gs0 C0) as [gs1 [C1 [A1 A2]]].
  assert (Hl : length (stack (autobegin st)) < S (S (length (stack st)))).
  { unfold autobegin. destruct (stack st) eqn:Es; cbn; rewrite ?Es; cbn; lia. }
  destruct (commit_all_core _ _ gs1 r st' C1 Hl H) as [gs' [C' B']]; [congruence|].
  destruct (B' Hr) as [S1 Cl1]. split; [exact S1|].
  destruct C' as [_ _ D _ _]. destruct D as [_ _ D4 [D5 _]]. rewrite S1 in *.
  split; [rewrite D5; destruct gs'; reflexivity|]. split; [symmetry; apply D4; intros f []|exact Cl1].
Qed.

(* (c) Session.rollback() *)
Theorem rollback_restores : forall st, Inv st ->
  exists st', do_op ORollback st = (Ok, st') /\ stack st' = [] /\ saves st' = [] /\
    committed st' = committed st /\ work st' = committed st /\ is_clean st' = true.
Proof.
  intros st [gs C]. cbn [do_op].
  destruct (rollback_all_core (S (length (stack st))) st gs C) as (s2 & E & C2 & S2 & Cl & K1 & _); [lia|].
  exists s2. split; [exact E|]. split; [exact S2|].
  destruct C2 as [_ _ D _ _]. destruct D as [_ _ D4 [D5 _]]. rewrite S2 in *.
  split; [rewrite D5; reflexivity|]. split; [exact K1|]. split; [|exact Cl].
  rewrite <- K1. apply D4. intros f [].
Qed.

(* (d) the savepoint stack of the database mirrors the stack of transactions *)
Lemma entries_ids : forall fs gs, length gs = length fs -> map fst (entries fs gs) = map fid (filter live_conn fs).
Proof.
  induction fs as [|f fs IH]; intros [|g gs] H; try discriminate; auto.
  cbn [entries filter]. destruct (live_conn f); cbn [map]; [f_equal|]; apply IH; cbn in H; lia.
Qed.
Lemma Core_len : forall st gs, Core st gs -> length gs = length (stack st).
Proof.
  intros st gs C. destruct C as [_ _ D _ _]. destruct D as [_ _ _ [_ X]].
  revert gs X. generalize (work st). induction (stack st) as [|f fs IH]; intros T [|g gs] X; try (destruct X; fail); auto.
  cbn in X. destruct X as [_ X]. cbn. f_equal. eapply IH; eauto.
Qed.
Theorem savepoints_mirror_transactions : forall st, Inv st ->
  map fst (saves st) = map fid (filter live_conn (stack st)).
Proof.
  intros st [gs C]. pose proof (Core_len st gs C) as L.
  destruct C as [_ _ D _ _]. destruct D as [_ _ _ [X _]]. rewrite X. apply entries_ids. exact L.
Qed.

(* T3 for guarded histories *)
Theorem db_laws :
  (forall e st p r st', GReach e st -> guard st p = true -> do_op p st = (r, st') -> r <> Unmodelled -> p <> OCommit ->
     committed st' = committed st \/ (exists h, p = OTCommit h /\ r = Ok /\ stack st' = [])) /\
  (forall e st r st', GReach e st -> guard st OCommit = true -> do_op OCommit st = (r, st') -> r = Ok ->
     stack st' = [] /\ saves st' = [] /\ committed st' = work st' /\ is_clean st' = true) /\
  (forall e st, GReach e st ->
     exists st', do_op ORollback st = (Ok, st') /\ stack st' = [] /\ saves st' = [] /\
       committed st' = committed st /\ work st' = committed st /\ is_clean st' = true) /\
  (forall e st, GReach e st -> map fst (saves st) = map fid (filter live_conn (stack st))).
Proof.
  split; [|split; [|split]].
  - intros e st p r st' R. apply committed_step. eapply greach_inv; eauto.
  - intros e st r st' R. apply commit_publishes. eapply greach_inv; eauto.
  - intros e st R. apply rollback_restores. eapply greach_inv; eauto.
  - intros e st R. apply savepoints_mirror_transactions. eapply greach_inv; eauto.
Qed.
