(* C44: the outcomes of a flush, and preservation of the invariant by every step *)
From Coq Require Import List ZArith NArith Bool Arith Lia.
Import ListNotations.
From SAV.orm Require Import Version VersionBase VersionStmts VersionInv.
Open Scope Z_scope.

Section P.
Variables (server sane_multi : bool) (eoc : nat -> bool) (g : Z -> Z).
Notation stepT := (step server true sane_multi eoc g).
Notation flushT := (flush server true sane_multi g).
Notation del_checkT := (del_check true sane_multi).

Definition flush_noop (i : nat) (s : state) : state :=
  let se := sget i (sss s) in
  {| sdb := sdb s; sss := sput i {| snap := snap se; sents := post_ents server g [] (sents se); stx := stx se |} (sss s) |}.
Definition flush_done (i : nat) (s : state) (w w2 : rows) (dirty : bool) : state :=
  let se := sget i (sss s) in
  let d := sdb s in
  {| sdb := {| gen := gen d; com := com d; wr := Some (i, w2, dirty) |};
     sss := sput i {| snap := match snap se with Some x => Some x | None => Some (gen d, com d) end;
                      sents := post_ents server g w (sents se); stx := true |} (sss s) |}.

Inductive flush_out (i : nat) (s : state) : state -> res -> Prop :=
| FO_nothing :
    nothing (upds (sents (sget i (sss s)))) (dels (sents (sget i (sss s)))) = true ->
    flush_out i s (flush_noop i s) ROk
| FO_busy :
    nothing (upds (sents (sget i (sss s)))) (dels (sents (sget i (sss s)))) = false ->
    begin_write (sdb s) i (snap (sget i (sss s))) = None ->
    flush_out i s (rolled_back s i) RBusy
| FO_stale_upd : forall dirty,
    nothing (upds (sents (sget i (sss s)))) (dels (sents (sget i (sss s)))) = false ->
    begin_write (sdb s) i (snap (sget i (sss s))) = Some (cur_rows (sdb s) i, dirty) ->
    mcount (cur_rows (sdb s) i) (upds (sents (sget i (sss s)))) <> length (upds (sents (sget i (sss s)))) ->
    flush_out i s (rolled_back s i) RStale
| FO_stale_del : forall dirty,
    nothing (upds (sents (sget i (sss s)))) (dels (sents (sget i (sss s)))) = false ->
    begin_write (sdb s) i (snap (sget i (sss s))) = Some (cur_rows (sdb s) i, dirty) ->
    mcount (cur_rows (sdb s) i) (upds (sents (sget i (sss s)))) = length (upds (sents (sget i (sss s)))) ->
    del_checkT (length (dels (sents (sget i (sss s))))) = true ->
    mcount (cur_rows (sdb s) i) (dels (sents (sget i (sss s)))) <> length (dels (sents (sget i (sss s)))) ->
    flush_out i s (rolled_back s i) RStale
| FO_ok : forall dirty dirty',
    nothing (upds (sents (sget i (sss s)))) (dels (sents (sget i (sss s)))) = false ->
    begin_write (sdb s) i (snap (sget i (sss s))) = Some (cur_rows (sdb s) i, dirty) ->
    mcount (cur_rows (sdb s) i) (upds (sents (sget i (sss s)))) = length (upds (sents (sget i (sss s)))) ->
    (del_checkT (length (dels (sents (sget i (sss s))))) = false \/
     mcount (cur_rows (sdb s) i) (dels (sents (sget i (sss s)))) = length (dels (sents (sget i (sss s))))) ->
    (dirty' = false -> dirty = false /\
        mcount (cur_rows (sdb s) i) (upds (sents (sget i (sss s)))) = O /\
        mcount (cur_rows (sdb s) i) (dels (sents (sget i (sss s)))) = O) ->
    flush_out i s
      (flush_done i s (cur_rows (sdb s) i)
         (fst (run_deletes (fst (run_updates g (cur_rows (sdb s) i) (upds (sents (sget i (sss s))))))
                           (dels (sents (sget i (sss s))))))
         dirty') ROk.

(* an instance marked deleted is not in the UPDATE list *)
Lemma dels_not_upds : forall es k e, distinct es -> In (k, e) (dels es) -> lookup k (upds es) = None.
Proof.
  intros es k e D Hin. unfold dels in Hin. apply filter_In in Hin. destruct Hin as [Hin Hd]. cbn [snd] in Hd.
  unfold upds. rewrite (lookup_filter _ _ k e es D (distinct_In_lookup _ _ _ _ D Hin)). cbn [snd].
  unfold is_upd. rewrite Hd. reflexivity.
Qed.
Lemma upds_not_dels : forall es k e, distinct es -> In (k, e) (upds es) -> lookup k (dels es) = None.
Proof.
  intros es k e D Hin. unfold upds in Hin. apply filter_In in Hin. destruct Hin as [Hin Hd]. cbn [snd] in Hd.
  unfold dels. rewrite (lookup_filter _ _ k e es D (distinct_In_lookup _ _ _ _ D Hin)). cbn [snd].
  unfold is_upd in Hd. destruct (edel e); [discriminate|reflexivity].
Qed.

(* the DELETEs of a flush count against the rows the flush started from *)
Lemma mcount_dels_after_upds : forall es w, distinct es ->
  mcount (fst (run_updates g w (upds es))) (dels es) = mcount w (dels es).
Proof.
  intros es w D. apply mcount_ext. intros k e Hin. unfold matches.
  rewrite run_updates_lookup by (apply distinct_filter, D). rewrite (dels_not_upds es k e D Hin). reflexivity.
Qed.

Lemma flush_flush_out : forall i s, sorted (sents (sget i (sss s))) ->
  flush_out i s (fst (flushT i s)) (snd (flushT i s)).
Proof.
  intros i s Hs. pose proof (sorted_distinct _ Hs) as D. unfold flush.
  destruct (nothing _ _) eqn:Hn; [cbn [fst snd]; apply FO_nothing, Hn|].
  destruct (begin_write _ _ _) as [[w dirty]|] eqn:B; [|cbn [fst snd]; apply FO_busy; assumption].
  pose proof (begin_write_cur _ _ _ _ _ B) as ->.
  set (es := sents (sget i (sss s))) in *. set (w := cur_rows (sdb s) i) in *.
  pose proof (run_updates_count g (upds es) w (distinct_filter _ _ _ D)) as Cu.
  destruct (run_updates g w (upds es)) as [w1 mu] eqn:Ru. cbn [snd] in Cu. subst mu.
  cbn [andb]. destruct (Nat.eqb_spec (mcount w (upds es)) (length (upds es))) as [Eu|Nu]; cbn [negb].
  2:{ cbn [fst snd]. eapply FO_stale_upd; eassumption. }
  pose proof (run_deletes_count (dels es) w1 (distinct_filter _ _ _ D)) as Cd.
  assert (Ew1 : w1 = fst (run_updates g w (upds es))) by (rewrite Ru; reflexivity).
  rewrite Ew1 in Cd at 2. rewrite mcount_dels_after_upds in Cd by exact D.
  destruct (run_deletes w1 (dels es)) as [w2 md] eqn:Rd. cbn [snd] in Cd. subst md.
  destruct (del_checkT (length (dels es))) eqn:Dc; cbn [andb].
  - destruct (Nat.eqb_spec (mcount w (dels es)) (length (dels es))) as [Ed|Nd]; cbn [negb fst snd].
    + assert (Ew2 : w2 = fst (run_deletes (fst (run_updates g w (upds es))) (dels es))) by (rewrite <- Ew1, Rd; reflexivity).
      rewrite Ew2. eapply FO_ok; try eassumption; [right; exact Ed|].
      intros E. apply orb_false_iff in E. destruct E as [-> E]. apply negb_false_iff, Nat.eqb_eq in E. split; [reflexivity|]. unfold w, es in *. lia.
    + eapply FO_stale_del; eassumption.
  - cbn [fst snd].
    assert (Ew2 : w2 = fst (run_deletes (fst (run_updates g w (upds es))) (dels es))) by (rewrite <- Ew1, Rd; reflexivity).
    rewrite Ew2. eapply FO_ok; try eassumption; [left; exact Dc|].
    intros E. apply orb_false_iff in E. destruct E as [-> E]. apply negb_false_iff, Nat.eqb_eq in E. split; [reflexivity|]. unfold w, es in *. lia.
Qed.
End P.
