(* C31 - spec side: a reference database with IMMEDIATE foreign key / NOT NULL checks, the statements
   a flush emits (as events with statically determined content), which action emits which event, and
   the ordering needs that follow from the constraints alone.  Definitions only. *)
From Coq Require Import List NArith Bool.
Import ListNotations.
From SAV.util Require Import Topo Cycles TopoRun.
From SAV.orm Require Import FlushOrder.
Local Open Scope N_scope.

Definition trip := (N * N * N)%type.
Definition t3eqb (x y : trip) : bool :=
  N.eqb (fst (fst x)) (fst (fst y)) && N.eqb (snd (fst x)) (snd (fst y)) && N.eqb (snd x) (snd y).
Definition mem3 (x : trip) (l : list trip) : bool := existsb (t3eqb x) l.
Definition opt_eqb (a b : option N) : bool :=
  match a, b with Some x, Some y => N.eqb x y | None, None => true | _, _ => false end.

(* ------------------------------------------------------------------ reference database *)
(* rows are identified with the objects they belong to; [refs] (row, fk column, referenced row);
   [secs] (secondary table, left row, right row) *)
Record db := { live : list N; refs : list trip; secs : list trip }.

Inductive stmt :=
| Insert (r : N) (m : N) (vals : list (N * N))        (* row, table (base mapper), non-NULL fk values *)
| Update (r : N) (sets : list (N * option N))
| Delete (r : N)
| SecInsert (x : trip)
| SecDelete (x : trip).

(* [nn]: NOT NULL fk columns (column, table) *)
Definition exec1 (nn : list (N * N)) (d : db) (s : stmt) : option db :=
  match s with
  | Insert r m vals =>
      if negb (memb r (live d))
         && forallb (fun v => memb (snd v) (live d) || N.eqb (snd v) r) vals
         && forallb (fun cm => negb (N.eqb (snd cm) m) || memb (fst cm) (map fst vals)) nn
      then Some {| live := r :: live d; refs := map (fun v => (r, fst v, snd v)) vals ++ refs d; secs := secs d |}
      else None
  | Update r sets =>
      if memb r (live d)
         && forallb (fun v => match snd v with
                              | Some t => memb t (live d)
                              | None => negb (memb (fst v) (map fst nn)) end) sets
      then Some {| live := live d;
                   refs := flat_map (fun v => match snd v with Some t => [(r, fst v, t)] | None => [] end) sets
                           ++ filter (fun x => negb (N.eqb (fst (fst x)) r && memb (snd (fst x)) (map fst sets))) (refs d);
                   secs := secs d |}
      else None
  | Delete r =>
      if memb r (live d)
         && forallb (fun x => negb (N.eqb (snd x) r) || N.eqb (fst (fst x)) r) (refs d)
         && forallb (fun x => negb (N.eqb (snd (fst x)) r) && negb (N.eqb (snd x) r)) (secs d)
      then Some {| live := filter (fun t => negb (N.eqb t r)) (live d);
                   refs := filter (fun x => negb (N.eqb (fst (fst x)) r)) (refs d);
                   secs := secs d |}
      else None
  | SecInsert x =>
      if memb (snd (fst x)) (live d) && memb (snd x) (live d) && negb (mem3 x (secs d))
      then Some {| live := live d; refs := refs d; secs := x :: secs d |}
      else None
  | SecDelete x =>
      if mem3 x (secs d)
      then Some {| live := live d; refs := refs d; secs := filter (fun y => negb (t3eqb x y)) (secs d) |}
      else None
  end.

Fixpoint exec (nn : list (N * N)) (d : db) (l : list stmt) : option db :=
  match l with
  | [] => Some d
  | s :: r => match exec1 nn d s with Some d' => exec nn d' r | None => None end
  end.

(* ------------------------------------------------------------------ events of a flush *)
Inductive ev :=
| ESave (s : N)        (* INSERT (no key) or UPDATE (key) of the object's row by _save_obj *)
| EPost (s : N)        (* UPDATE by _post_update *)
| EDel (s : N)         (* DELETE *)
| ESecIns (x : trip)   (* INSERT into a secondary table *)
| ESecDel (x : trip).  (* DELETE from a secondary table *)

Definition st_of (g : graph) (s : N) : option st := find (fun x => N.eqb (s_id x) s) (g_sts g).
Definition key_of (g : graph) (s : N) : bool := match st_of g s with Some x => s_key x | None => false end.
Definition map_of (g : graph) (s : N) : N := match st_of g s with Some x => s_map x | None => 0 end.

(* a column is written by post_update when a post_update one-to-many / many-to-one processor owns it *)
Definition postcol (g : graph) (c : N) : bool :=
  existsb (fun d => N.eqb (d_col d) c && d_post d && negb (N.eqb (d_kind d) 2)) (g_deps g).

Definition ref_get (l : list trip) (r c : N) : option N :=
  match find (fun x => N.eqb (fst (fst x)) r && N.eqb (snd (fst x)) c) l with
  | Some x => Some (snd x) | None => None end.
Definition cols_of (g : graph) (r : N) : list N :=
  dedup (map (fun x => snd (fst x)) (filter (fun x => N.eqb (fst (fst x)) r) (g_ref0 g ++ g_ref1 g))).
(* value of a post_update column after the flush.  A row about to be deleted gets NULL first when the
   column belongs to a post_update many-to-one (_ManyToOneDP.process_deletes) or the referenced row is
   deleted too (_OneToManyDP.process_deletes of the parent); otherwise it is left alone *)
Definition m2o_post_col (g : graph) (c : N) : bool :=
  existsb (fun d => N.eqb (d_col d) c && d_post d && N.eqb (d_kind d) 1) (g_deps g).
Definition fin (g : graph) (r c : N) : option N :=
  if N.eqb (role_of g r) 2 then
    match ref_get (g_ref0 g) r c with
    | Some t => if m2o_post_col g c || N.eqb (role_of g t) 2 then None else Some t
    | None => None end
  else ref_get (g_ref1 g) r c.

Definition save_sets (g : graph) (r : N) : list (N * option N) :=
  map (fun c => (c, ref_get (g_ref1 g) r c))
      (filter (fun c => negb (postcol g c) && negb (opt_eqb (ref_get (g_ref0 g) r c) (ref_get (g_ref1 g) r c)))
              (cols_of g r)).
Definition post_sets (g : graph) (r : N) : list (N * option N) :=
  map (fun c => (c, fin g r c))
      (filter (fun c => postcol g c && negb (opt_eqb (ref_get (g_ref0 g) r c) (fin g r c))) (cols_of g r)).
Definition ins_vals (g : graph) (r : N) : list (N * N) :=
  flat_map (fun c => match ref_get (g_ref1 g) r c with Some t => [(c, t)] | None => [] end)
           (filter (fun c => negb (postcol g c)) (cols_of g r)).

Definition stmt_of (g : graph) (e : ev) : stmt :=
  match e with
  | ESave s => if key_of g s then Update s (save_sets g s) else Insert s (map_of g s) (ins_vals g s)
  | EPost s => Update s (post_sets g s)
  | EDel s => Delete s
  | ESecIns x => SecInsert x
  | ESecDel x => SecDelete x
  end.

Definition has_post (g : graph) (s : N) : bool := match post_sets g s with [] => false | _ => true end.
Definition ids_with (g : graph) (f : st -> bool) : list N := map s_id (filter f (g_sts g)).

Definition events (g : graph) : list ev :=
  map ESave (ids_with g (fun s => N.eqb (s_role s) 1)) ++
  map EPost (ids_with g (fun s => in_uow s && has_post g (s_id s))) ++
  map EDel (ids_with g (fun s => N.eqb (s_role s) 2)) ++
  map ESecIns (filter (fun x => negb (mem3 x (g_sec0 g))) (g_sec1 g)) ++
  map ESecDel (filter (fun x => negb (mem3 x (g_sec1 g))) (g_sec0 g)).

Definition db0 (g : graph) : db :=
  {| live := ids_with g s_key; refs := g_ref0 g; secs := g_sec0 g |}.

(* the row exists after the flush *)
Definition survives (g : graph) (s : N) : bool :=
  match st_of g s with
  | Some x => if s_key x then negb (N.eqb (s_role x) 2) else N.eqb (s_role x) 1
  | None => false end.
Definition pending (g : graph) (s : N) : bool := negb (key_of g s) && N.eqb (role_of g s) 1.

(* ------------------------------------------------------------------ which action emits an event *)
Definition home_save (g : graph) (cy : list N) (s : N) : action :=
  if incyc cy (SaveAll (map_of g s)) then SaveSt s else SaveAll (map_of g s).
Definition home_del (g : graph) (cy : list N) (s : N) : action :=
  if incyc cy (DelAll (map_of g s)) then DelSt s else DelAll (map_of g s).
Definition home_post (g : graph) (s : N) : action := PostAll (map_of g s) (N.eqb (role_of g s) 2).
Definition proc_home (g : graph) (cy : list N) (d : N) (isdel : bool) (s : N) : action :=
  if amemb (ProcAll d isdel) (disabled g cy) then ProcSt d isdel s else ProcAll d isdel.

Definition link_in (g : graph) (d owner rel : N) : bool :=
  existsb (fun l => N.eqb (fst (fst l)) d && N.eqb (snd (fst l)) owner && opt_eqb (snd l) (Some rel)) (g_links g).

(* many-to-many processors that may write the secondary row x = (table, left, right) *)
Definition sec_owner (rev : bool) (x : trip) : N := if rev then snd x else snd (fst x).
Definition sec_rel (rev : bool) (x : trip) : N := if rev then snd (fst x) else snd x.

Definition sec_homes (g : graph) (cy : list N) (ins : bool) (x : trip) : list action :=
  flat_map (fun d =>
    if N.eqb (d_kind d) 2 && N.eqb (d_col d) (fst (fst x)) then
      let o := sec_owner (d_rev d) x in
      let r := sec_rel (d_rev d) x in
      if N.eqb (d_parent d) (map_of g o) && N.eqb (d_child d) (map_of g r) && link_in g (d_id d) o r then
        if N.eqb (role_of g o) 1 then [proc_home g cy (d_id d) false o]
        else if N.eqb (role_of g o) 2 then (if ins then [] else [proc_home g cy (d_id d) true o])
        else []
      else []
    else []) (active g).

Definition homes (g : graph) (cy : list N) (e : ev) : list action :=
  match e with
  | ESave s => [home_save g cy s]
  | EPost s => [home_post g s]
  | EDel s => [home_del g cy s]
  | ESecIns x => sec_homes g cy true x
  | ESecDel x => sec_homes g cy false x
  end.

(* ------------------------------------------------------------------ ordering needs *)
(* what the constraints alone demand of the statement order (no reference to the unit of work) *)
Definition needs_ref1 (g : graph) (x : trip) : list (ev * ev) :=
  let s := fst (fst x) in let c := snd (fst x) in let t := snd x in
  if N.eqb (role_of g s) 1 then
    if postcol g c then
      (if pending g s then [(ESave s, EPost s)] else []) ++ (if pending g t then [(ESave t, EPost s)] else [])
    else if pending g t && negb (N.eqb s t) then [(ESave t, ESave s)] else []
  else [].
Definition needs_ref0 (g : graph) (x : trip) : list (ev * ev) :=
  let s := fst (fst x) in let c := snd (fst x) in let t := snd x in
  if N.eqb (role_of g t) 2 && negb (N.eqb s t) then
    if postcol g c then [(EPost s, EDel t)]
    else if N.eqb (role_of g s) 2 then [(EDel s, EDel t)] else [(ESave s, EDel t)]
  else [].
Definition needs_postdel (g : graph) (s : N) : list (ev * ev) :=
  if N.eqb (role_of g s) 2 && has_post g s then [(EPost s, EDel s)] else [].
Definition needs_secins (g : graph) (x : trip) : list (ev * ev) :=
  (if pending g (snd (fst x)) then [(ESave (snd (fst x)), ESecIns x)] else []) ++
  (if pending g (snd x) then [(ESave (snd x), ESecIns x)] else []).
Definition needs_secdel (g : graph) (x : trip) : list (ev * ev) :=
  (if N.eqb (role_of g (snd (fst x))) 2 then [(ESecDel x, EDel (snd (fst x)))] else []) ++
  (if N.eqb (role_of g (snd x)) 2 then [(ESecDel x, EDel (snd x))] else []).

Definition needs (g : graph) : list (ev * ev) :=
  flat_map (needs_ref1 g) (g_ref1 g) ++
  flat_map (needs_ref0 g) (g_ref0 g) ++
  flat_map (needs_postdel g) (map s_id (g_sts g)) ++
  flat_map (needs_secins g) (filter (fun x => negb (mem3 x (g_sec0 g))) (g_sec1 g)) ++
  flat_map (needs_secdel g) (filter (fun x => negb (mem3 x (g_sec1 g))) (g_sec0 g)).

(* ------------------------------------------------------------------ hypotheses of the theorems (decidable) *)
Fixpoint nodupb (l : list N) : bool :=
  match l with [] => true | x :: r => negb (memb x r) && nodupb r end.
Fixpoint nodup3 (l : list trip) : bool :=
  match l with [] => true | x :: r => negb (mem3 x r) && nodup3 r end.
(* no two entries for the same (row, column) *)
Fixpoint functional (l : list trip) : bool :=
  match l with
  | [] => true
  | x :: r => negb (existsb (fun y => N.eqb (fst (fst x)) (fst (fst y)) && N.eqb (snd (fst x)) (snd (fst y))) r)
              && functional r
  end.
Definition is_st (g : graph) (s : N) : bool := match st_of g s with Some _ => true | None => false end.

Definition wf (g : graph) : bool :=
  nodupb (map s_id (g_sts g)) && nodupb (map d_id (g_deps g)) &&
  forallb (fun d => N.ltb (d_id d) K) (g_deps g) &&
  forallb (fun s => N.leb (s_role s) 2 && (negb (N.eqb (s_role s) 2) || s_key s)) (g_sts g) &&
  functional (g_ref0 g) && functional (g_ref1 g) && nodup3 (g_sec0 g) && nodup3 (g_sec1 g) &&
  forallb (fun x => key_of g (fst (fst x)) && key_of g (snd x)) (g_ref0 g) &&
  forallb (fun x => key_of g (snd (fst x)) && key_of g (snd x)) (g_sec0 g) &&
  (* a NOT NULL column belongs to the table of every row that has a value in it *)
  forallb (fun x => forallb (fun cm => negb (N.eqb (fst cm) (snd (fst x))) || N.eqb (snd cm) (map_of g (fst (fst x))))
                            (g_notnull g)) (g_ref0 g ++ g_ref1 g).

(* the state after the flush satisfies the constraints, and rows the flush does not write keep their
   values *)
Definition consistent (g : graph) : bool :=
  forallb (fun x => survives g (fst (fst x)) && survives g (snd x)) (g_ref1 g) &&
  forallb (fun x => survives g (snd (fst x)) && survives g (snd x)) (g_sec1 g) &&
  forallb (fun s => negb (N.eqb (s_role s) 0) ||
                    forallb (fun c => opt_eqb (ref_get (g_ref1 g) (s_id s) c) (ref_get (g_ref0 g) (s_id s) c))
                            (cols_of g (s_id s))) (g_sts g) &&
  forallb (fun cm => negb (postcol g (fst cm))) (g_notnull g) &&
  forallb (fun s => negb (N.eqb (s_role s) 1) ||
                    forallb (fun cm => negb (N.eqb (snd cm) (s_map s)) ||
                                       match ref_get (g_ref1 g) (s_id s) (fst cm) with Some _ => true | None => false end)
                            (g_notnull g)) (g_sts g).

Definition all_mappers (g : graph) : list N :=
  map s_map (g_sts g) ++ map d_parent (g_deps g) ++ map d_child (g_deps g).
(* the assertion of per_state_flush_actions: saves and deletes of a mapper are in the cycles together *)
Definition paired (g : graph) (cy : list N) : bool :=
  forallb (fun m => Bool.eqb (incyc cy (SaveAll m)) (incyc cy (DelAll m))) (all_mappers g).

(* an active one-to-many (owner = referenced row t) / many-to-one (owner = referencing row s)
   processor on column c whose get_all_pending list links the two rows *)
Definition o2m_cov (g : graph) (post : bool) (s c t : N) : bool :=
  existsb (fun d => d_active d && N.eqb (d_kind d) 0 && N.eqb (d_col d) c && Bool.eqb (d_post d) post
                    && N.eqb (d_parent d) (map_of g t) && N.eqb (d_child d) (map_of g s)
                    && link_in g (d_id d) t s) (g_deps g).
Definition m2o_cov (g : graph) (post : bool) (s c t : N) : bool :=
  existsb (fun d => d_active d && N.eqb (d_kind d) 1 && N.eqb (d_col d) c && Bool.eqb (d_post d) post
                    && N.eqb (d_parent d) (map_of g s) && N.eqb (d_child d) (map_of g t)
                    && link_in g (d_id d) s t) (g_deps g).

Definition mg_ref1 (g : graph) (x : trip) : bool :=
  let s := fst (fst x) in let c := snd (fst x) in let t := snd x in
  if N.eqb (role_of g s) 1 then
    if postcol g c then
      if pending g s || pending g t then (o2m_cov g true s c t && N.eqb (role_of g t) 1) || m2o_cov g true s c t else true
    else if pending g t && negb (N.eqb s t) then o2m_cov g false s c t || m2o_cov g false s c t else true
  else true.
(* excluded here: a post_update column whose target row is deleted while the holder survives (defect, see
   the _refuted theorem); and - through [m2o_cov], which needs the get_all_pending link - a many-to-one whose
   OLD target was not loaded when the attribute was reset *)
Definition mg_ref0 (g : graph) (cy : list N) (x : trip) : bool :=
  let s := fst (fst x) in let c := snd (fst x) in let t := snd x in
  if N.eqb (role_of g t) 2 && negb (N.eqb s t) then
    if postcol g c then N.eqb (role_of g s) 2 && (o2m_cov g true s c t || m2o_cov g true s c t)
    else if N.eqb (role_of g s) 2 then o2m_cov g false s c t || m2o_cov g false s c t
    else N.eqb (role_of g s) 1 && (o2m_cov g false s c t || m2o_cov g false s c t)
  else true.
Definition mg_postdel (g : graph) (s : N) : bool :=
  if N.eqb (role_of g s) 2 && has_post g s then
    existsb (fun d => d_active d && d_post d &&
                      ((N.eqb (d_kind d) 0 && N.eqb (d_child d) (map_of g s)) ||
                       (N.eqb (d_kind d) 1 && N.eqb (d_parent d) (map_of g s)))) (g_deps g)
  else true.
Definition managed (g : graph) (cy : list N) : bool :=
  forallb (mg_ref1 g) (g_ref1 g) && forallb (mg_ref0 g cy) (g_ref0 g) &&
  forallb (mg_postdel g) (map s_id (g_sts g)).

(* ------------------------------------------------------------------ facts about the cycle set *)
(* the cycle set contains only per-mapper records *)
Definition cyc_shape (cy : list N) : bool := forallb (fun n => N.ltb (N.modulo n 7) 3) cy.
(* facts about the cycle set that the code itself relies on (the first is its assertion); decidable,
   evaluated on every case of the correspondence *)
Definition procs_follow (g : graph) (cy : list N) : bool :=
  forallb (fun d => (negb (incyc cy (ProcAll (d_id d) false)) || incyc cy (SaveAll (d_parent d))) &&
                    (negb (incyc cy (ProcAll (d_id d) true)) || incyc cy (DelAll (d_parent d)))) (g_deps g).
Definition cyc_ok (g : graph) (cy : list N) : bool := cyc_shape cy && paired g cy && procs_follow g cy.


(* index of the layer that contains n *)
Fixpoint lidx (r : list (list N)) (n : N) : option nat :=
  match r with
  | [] => None
  | l :: r' => if memb n l then Some O else match lidx r' n with Some k => Some (S k) | None => None end
  end.

