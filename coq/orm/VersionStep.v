(* C44: every step of every session preserves the invariant *)
From Coq Require Import List ZArith NArith Bool Arith Lia.
Import ListNotations.
From SAV.orm Require Import Version VersionBase VersionStmts VersionInv VersionFlush.
Open Scope Z_scope.

Section P.
Variables (server sane_multi : bool) (eoc : nat -> bool) (g : Z -> Z).
Hypothesis Hg : forall v, v < g v.
Notation stepT := (step server true sane_multi eoc g).
Notation flushT := (flush server true sane_multi g).

Lemma nothing_true : forall us ds : ents, nothing us ds = true -> us = [] /\ ds = [].
Proof. intros [|? ?] [|? ?]; cbn [nothing]; intros H; try discriminate. split; reflexivity. Qed.

Lemma writer_is_self : forall d i w b, writer_is {| gen := gen d; com := com d; wr := Some (i, w, b) |} i = Some (w, b).
Proof. intros. unfold writer_is. cbn [wr]. rewrite Nat.eqb_refl. reflexivity. Qed.

(* rows the session's statements have produced, seen from an instance it holds *)
Lemma flush_rows_upd : forall es w k e, distinct es -> In (k, e) es -> is_upd e = true -> matches w k (ev e) = true ->
  lookup k (fst (run_deletes (fst (run_updates g w (upds es))) (dels es))) = Some {| rx := pend_of e; rv := g (ev e) |}.
Proof.
  intros es w k e D Hin Hu M.
  assert (Iu : In (k, e) (upds es)) by (apply filter_In; split; [exact Hin|exact Hu]).
  rewrite run_deletes_lookup by (apply distinct_filter, D). rewrite (upds_not_dels es k e D Iu).
  rewrite run_updates_lookup by (apply distinct_filter, D).
  assert (L : lookup k (upds es) = Some e) by (apply distinct_In_lookup; [apply distinct_filter, D|exact Iu]).
  rewrite L, M. reflexivity.
Qed.
Lemma flush_rows_del : forall es w k e, distinct es -> In (k, e) es -> edel e = true -> matches w k (ev e) = true ->
  lookup k (fst (run_deletes (fst (run_updates g w (upds es))) (dels es))) = None.
Proof.
  intros es w k e D Hin Hd M.
  assert (Id : In (k, e) (dels es)) by (apply filter_In; split; [exact Hin|exact Hd]).
  rewrite run_deletes_lookup by (apply distinct_filter, D).
  assert (L : lookup k (dels es) = Some e) by (apply distinct_In_lookup; [apply distinct_filter, D|exact Id]).
  rewrite L. unfold matches at 1. rewrite run_updates_lookup by (apply distinct_filter, D). rewrite (dels_not_upds es k e D Id).
  fold (matches w k (ev e)). rewrite M. reflexivity.
Qed.
Lemma flush_rows_other : forall es w k e, distinct es -> In (k, e) es -> is_upd e = false -> edel e = false ->
  lookup k (fst (run_deletes (fst (run_updates g w (upds es))) (dels es))) = lookup k w.
Proof.
  intros es w k e D Hin Hu Hd. pose proof (distinct_In_lookup _ _ _ _ D Hin) as L.
  rewrite run_deletes_lookup by (apply distinct_filter, D).
  unfold dels at 1. rewrite (lookup_filter _ _ k e es D L). cbn [snd]. rewrite Hd.
  rewrite run_updates_lookup by (apply distinct_filter, D).
  unfold upds at 1. rewrite (lookup_filter _ _ k e es D L). cbn [snd]. rewrite Hu. reflexivity.
Qed.

Lemma flush_out_inv : forall i s s' r, Inv s -> flush_out server sane_multi g i s s' r -> Inv s'.
Proof.
  intros i s s' r HI HF. pose proof (proj2 HI i) as [S1 [S2 S3]]. pose proof (sorted_distinct _ S1) as D.
  destruct HF as [Hn|Hn B|dirty Hn B Nu|dirty Hn B Eu Dc Nd|dirty dirty' Hn B Eu Ed Hdirty].
  - (* nothing to write *)
    apply nothing_true in Hn. destruct Hn as [Hu Hd]. unfold flush_noop.
    apply Inv_change; [exact HI|apply HI| |apply others_frame_refl].
    unfold sess_ok. cbn [sents snap]. split; [apply post_ents_sorted, S1|]. split; [|exact S3].
    intros k e' b Hin Hb. apply post_ents_In in Hin. destruct Hin as [e [Hin P]]. unfold post_ent in P.
    destruct (edel e) eqn:Ed; [discriminate|]. destruct (is_upd e) eqn:Eu.
    + assert (In (k, e) (upds (sents (sget i (sss s))))) by (apply filter_In; split; assumption). rewrite Hu in H. destruct H.
    + injection P as <-. cbn [ev ex]. apply (S2 k e b Hin Hb).
  - apply rolled_back_inv, HI.
  - apply rolled_back_inv, HI.
  - apply rolled_back_inv, HI.
  - (* all statements matched *)
    set (es := sents (sget i (sss s))) in *. set (w := cur_rows (sdb s) i) in *.
    set (w2 := fst (run_deletes (fst (run_updates g w (upds es))) (dels es))).
    assert (Hcw : rows_le (com (sdb s)) w).
    { unfold w, cur_rows, writer_is. pose proof (proj1 HI) as Hd. unfold db_ok in Hd.
      destruct (wr (sdb s)) as [[[j w0] b0]|]; [|apply rows_le_refl]. destruct (Nat.eqb j i); [apply Hd|apply rows_le_refl]. }
    assert (Hw2 : rows_le w w2).
    { unfold w2. eapply rows_le_trans; [apply (run_updates_le g Hg)|apply run_deletes_le]. }
    unfold flush_done. fold es. apply Inv_change; [exact HI| | |].
    + unfold db_ok. cbn [wr com]. split; [eapply rows_le_trans; eassumption|].
      intros E. destruct (Hdirty E) as [-> [Zu Zd]]. fold es w in Zu, Zd.
      pose proof (begin_write_clean _ _ _ _ (proj1 HI) B) as Ew.
      unfold w2.
      assert (E1 : fst (run_updates g w (upds es)) = w).
      { apply run_updates_zero. rewrite run_updates_count by (apply distinct_filter, D). exact Zu. }
      rewrite E1. rewrite run_deletes_zero; [exact Ew|].
      rewrite run_deletes_count by (apply distinct_filter, D). exact Zd.
    + unfold sess_ok. cbn [sents snap]. unfold cur_rows. rewrite writer_is_self.
      split; [apply post_ents_sorted, S1|]. split; [|discriminate].
      intros k e' b Hin Hb. apply post_ents_In in Hin. destruct Hin as [e [Hin P]]. unfold post_ent in P.
      destruct (edel e) eqn:Ede; [discriminate|]. destruct (is_upd e) eqn:Eup.
      * assert (M : matches w k (ev e) = true).
        { apply (mcount_full w (upds es) Eu). apply filter_In. split; assumption. }
        rewrite M in P. cbn [orb] in P. injection P as <-. cbn [ev ex].
        unfold w2 in Hb. rewrite (flush_rows_upd es w k e D Hin Eup M) in Hb. injection Hb as <-. cbn [rv rx]. split; [lia|trivial].
      * injection P as <-. cbn [ev ex]. unfold w2 in Hb. rewrite (flush_rows_other es w k e D Hin Eup Ede) in Hb.
        apply (S2 k e b Hin Hb).
    + apply frame_flush_ok. destruct (begin_write_writer _ _ _ _ _ B) as [E|E]; [left; exact E|right; eauto].
Qed.

Lemma flush_inv : forall i s, Inv s -> Inv (fst (flushT i s)).
Proof.
  intros i s HI. eapply flush_out_inv; [exact HI|]. apply flush_flush_out. apply (proj2 HI i).
Qed.

Lemma sess_ok_after_commit : forall d i se es', db_ok d -> sess_ok d i se -> (es' = sents se \/ es' = []) ->
  sess_ok (end_txn d i true) i {| snap := None; sents := es'; stx := false |}.
Proof.
  intros d i se es' Hd [S1 [S2 S3]] Hes. unfold sess_ok. cbn [sents snap].
  split; [destruct Hes as [->| ->]; [exact S1|exact I]|]. split; [|intros _; exact I].
  destruct Hes as [->| ->]; [|apply ent_le_nil].
  unfold end_txn, cur_rows, writer_is in *. unfold db_ok in Hd.
  destruct (wr d) as [[[j w] b]|] eqn:W; [|rewrite W; exact S2].
  destruct (Nat.eqb_spec j i) as [->|N]; [|rewrite W; destruct (Nat.eqb_spec j i); [contradiction|exact S2]].
  destruct b; cbn [andb wr com]; [exact S2|]. destruct Hd as [_ Hd]. rewrite <- (Hd eq_refl). exact S2.
Qed.

Theorem step_inv : forall i o s, Inv s -> Inv (fst (stepT i o s)).
Proof.
  intros i o s HI. destruct o as [k|k c p|k| | |]; cbn [step].
  - pose proof (load_inv i k s HI) as [H _]. destruct (load i k s) as [s1 r]. exact H.
  - pose proof (load_inv i k s HI) as [H [_ [_ HL]]]. destruct (load i k s) as [s1 [e|]]; cbn [fst snd] in *; [|exact H].
    apply (touch_inv i k e); [exact H|apply HL; reflexivity|reflexivity|reflexivity].
  - pose proof (load_inv i k s HI) as [H [_ [_ HL]]]. destruct (load i k s) as [s1 [e|]]; cbn [fst snd] in *; [|exact H].
    apply (touch_inv i k e); [exact H|apply HL; reflexivity|reflexivity|reflexivity].
  - apply flush_inv, HI.
  - pose proof (flush_inv i s HI) as H. destruct (flushT i s) as [s1 r]. cbn [fst] in H.
    destruct r; try exact H. cbn [fst].
    apply Inv_change; [exact H|apply db_ok_end, H| |apply frame_end_commit, H].
    apply (sess_ok_after_commit _ _ (sget i (sss s1))); [apply H|apply H|destruct (eoc i); [right|left]; reflexivity].
  - destruct (stx (sget i (sss s))); cbn [fst]; [apply rolled_back_inv, HI|exact HI].
Qed.

Theorem run_inv : forall l s, Inv s -> Inv (run server true sane_multi eoc g l s).
Proof. induction l as [|[i o] t IH]; intros s H; cbn [run]; [exact H|]. apply IH, step_inv, H. Qed.

Theorem reach_inv : forall r0 s, reach server true sane_multi eoc g r0 s -> Inv s.
Proof. intros r0 s [l ->]. apply run_inv, Inv_init. Qed.
End P.
