(* C37 - spec side: the agreement invariants, the guards (the region outside the two defects) and
   the reload semantics. *)
From Coq Require Import List NArith Bool.
Import ListNotations.
From SAV.orm Require Import Backref.
Open Scope N_scope.

(* one-to-many / many-to-one: B is in A's collection exactly when A is B's parent *)
Definition agree_o2m (s : st) : Prop :=
  forall p c, In c (coll_of s SA p) <-> (p <> 0 /\ sb s c = CVal p).
(* many-to-many: B is in A's collection exactly when A is in B's collection *)
Definition agree_m2m (s : st) : Prop :=
  forall l r, In r (coll_of s SA l) <-> In l (coll_of s SB r).
(* one-to-one *)
Definition agree_o2o (s : st) : Prop :=
  forall p o, p <> 0 -> o <> 0 -> (sa s p = CVal o <-> sb s o = CVal p).

Definition nodup_side (s : st) (sd : side) : Prop := forall o, NoDup (coll_of s sd o).
Definition nonzero_side (s : st) (sd : side) : Prop := forall o, ~ In 0 (coll_of s sd o).
(* every scalar side is loaded (the unloaded-side exception is stated separately) *)
Definition loaded_side (s : st) (sd : side) : Prop := forall o, cells s sd o <> CUnl.

Record inv_o2m (s : st) : Prop := {
  o2m_agree : agree_o2m s;
  o2m_nodup : nodup_side s SA;
  o2m_nonzero : nonzero_side s SA;
  o2m_loaded : loaded_side s SB
}.
Record inv_m2m (s : st) : Prop := {
  m2m_agree : agree_m2m s;
  m2m_nodup_a : nodup_side s SA;
  m2m_nodup_b : nodup_side s SB;
  m2m_nonzero_a : nonzero_side s SA;
  m2m_nonzero_b : nonzero_side s SB
}.

(* ---- guards: uselist collections without duplicate members ---- *)
Fixpoint nodupb (l : list N) : bool :=
  match l with [] => true | y :: t => negb (memb y t) && nodupb t end.

Definition guard_coll_prim (s : st) (sd : side) (p : prim) : bool :=
  match p with
  | PAppend sd' o v => side_eqb sd sd' && negb (o =? 0) && negb (v =? 0) && negb (memb v (coll_of s sd o))
  | PInsert sd' o _ v => side_eqb sd sd' && negb (o =? 0) && negb (v =? 0) && negb (memb v (coll_of s sd o))
  | PRemove sd' o v => side_eqb sd sd' && negb (o =? 0) && negb (v =? 0)
  | PPop sd' o _ | PDelItem sd' o _ => side_eqb sd sd' && negb (o =? 0)
  | PDelColl sd' o => side_eqb sd sd' && negb (o =? 0)
  | PSetItem sd' o i v =>
      side_eqb sd sd' && negb (o =? 0) && negb (v =? 0) &&
      (negb (memb v (coll_of s sd o)) ||
       match nth_error (coll_of s sd o) i with Some e => e =? v | None => true end)
  | PReplace sd' o vs => side_eqb sd sd' && negb (o =? 0) && nodupb vs && negb (memb 0 vs)
  | _ => false
  end.

Definition guard_o2m (s : st) (p : prim) : bool :=
  match p with
  | PSet SB c _ => negb (c =? 0)
  | PDel SB c => negb (c =? 0)
  | PSet SA _ _ | PDel SA _ => false
  | _ => guard_coll_prim s SA p
  end.
Definition guard_m2m (s : st) (p : prim) : bool :=
  match p with
  | PSet _ _ _ | PDel _ _ => false
  | PAppend sd _ _ | PRemove sd _ _ | PInsert sd _ _ _ | PPop sd _ _ | PDelItem sd _ _
  | PSetItem sd _ _ _ | PReplace sd _ _ | PDelColl sd _ => guard_coll_prim s sd p
  end.

(* running a sequence of primitives while checking the guard before each of them *)
Fixpoint run_guarded (r : rkind) (g : st -> prim -> bool) (ps : list prim) (s : st) : option st :=
  match ps with
  | [] => Some s
  | p :: rest =>
    if g s p then
      match step_prim r p s with
      | Ok s1 | Err _ s1 => run_guarded r g rest s1
      | OutOfFuel => None
      end
    else None
  end.

(* ---- reload: after flush + expire, each side is read back from the same rows ---- *)
Definition rows_of_side (r : rkind) (sd : side) (rows : list (N * N)) (o : N) : list N :=
  match sd with
  | SA => map snd (filter (fun p => N.eqb (fst p) o) rows)
  | SB => map fst (filter (fun p => N.eqb (snd p) o) rows)
  end.
Definition reload_cell (r : rkind) (sd : side) (rows : list (N * N)) (o : N) : cell :=
  match kind_of r sd with
  | Coll => CList (rows_of_side r sd rows o)
  | Scal => match rows_of_side r sd rows o with [] => CVal 0 | x :: _ => CVal x end
  end.
Definition reload (r : rkind) (rows : list (N * N)) : st :=
  mkst true (reload_cell r SA rows) (reload_cell r SB rows).
(* a foreign key holds one value: each B object occurs in at most one row *)
Definition functional_rows (rows : list (N * N)) : Prop :=
  forall x x' y, In (x, y) rows -> In (x', y) rows -> x = x'.
Definition injective_rows (rows : list (N * N)) : Prop :=
  forall x y y', In (x, y) rows -> In (x, y') rows -> y = y'.
Definition nonzero_rows (rows : list (N * N)) : Prop :=
  forall x y, In (x, y) rows -> x <> 0 /\ y <> 0.

(* running primitives without any guard (results with an exception keep the state reached) *)
Fixpoint run_prims (r : rkind) (ps : list prim) (s : st) : option st :=
  match ps with
  | [] => Some s
  | p :: rest => match step_prim r p s with
                 | Ok s1 | Err _ s1 => run_prims r rest s1
                 | OutOfFuel => None
                 end
  end.
