(* executable entry point for the correspondence check of C35 *)
From Coq Require Import List ZArith Bool Arith.
Import ListNotations.
From SAV.base Require Import Tree.
From SAV.orm Require Import Lifecycle.
Open Scope Z_scope.

Definition lc_code (s : lc) : Z :=
  match s with Absent => 0 | Transient => 1 | Pending => 2 | Persistent => 4 | Deleted => 8 | Detached => 16 end.
Definition evt_code (e : evt) : Z :=
  match e with T2P => 0 | P2S => 1 | P2T => 2 | LAP => 3 | S2T => 4 | S2D => 5 | D2X => 6 | S2X => 7 | X2S => 8 | D2S => 9 end.
Definition b2z (b : bool) : Z := if b then 1 else 0.

(* inspect(obj).transient/pending/persistent/deleted/detached as a bit mask, plus membership flags *)
Definition obj_code (o : obj) : Z :=
  b2z (is_transient o) + 2 * b2z (is_pending o) + 4 * b2z (is_persistent o) + 8 * b2z (is_deleted o)
  + 16 * b2z (is_detached o)
  + 32 * (b2z (inew o) + 2 * b2z (isdel o) + 4 * b2z (iimap o) + 8 * b2z (odel o)).

Definition ev_codes (j : nat) (l : list entry) : list Z :=
  flat_map (fun x : entry => match x with
                     | (i, OEv e c) => if Nat.eqb i j then [Z.of_nat j * 1024 + evt_code e * 32 + lc_code c] else []
                     | (_, OChg _ _) => []
                     end) l.

Definition decode_op (code : Z) (i : nat) : option op :=
  match code with
  | 0 => Some (Add i) | 1 => Some (Delete i) | 2 => Some (Expunge i) | 3 => Some Flush | 4 => Some Commit
  | 5 => Some Rollback | 6 => Some Close | 7 => Some (Merge i) | 8 => Some (MakeTransient i)
  | 9 => Some (MakeTransientToDetached i) | _ => None
  end.

(* the environment of one operation is packed into two words:
     w  = code + 16 * idx + 128 * modified + 256 * (bit mask of the visible rows: bit k-1 for primary key k, k <= 3)
     fw = sum_j 8^j * (expired_j + 2 * pk_expired_j + 4 * pk_loaded_j) *)
Definition flag_at (fw : Z) (bit : Z) (i : nat) : bool := Z.testbit fw (3 * Z.of_nat i + bit).
Definition rows_of (mask : Z) : list Z := filter (fun k => Z.testbit mask (k - 1)) [1; 2; 3].
Definition decode_env (w fw : Z) : env :=
  mkEnv (rows_of (Z.shiftr w 8)) (Z.testbit w 7) (flag_at fw 0) (flag_at fw 1) (flag_at fw 2).

(* observation of one operation: [err + 16 * (merge result + 1); sum_j 512^j * state word of object j;
   event words ...] *)
Definition observe (c : Z) (res : option nat) (seg : list entry) (st : state) : tree :=
  L (I (c + 16 * match res with Some r => Z.of_nat r + 1 | None => 0 end)
     :: I (fold_right (fun o acc => obj_code o + 512 * acc) 0 (objs st))
     :: map I (flat_map (fun j => ev_codes j seg) (seq 0 (length (objs st))))).

Fixpoint run_ops (ops : list tree) (st : state) : option (list tree) :=
  match ops with
  | [] => Some []
  | L [I w; I fw] :: r =>
      if (w <? 0) || (fw <? 0) then None
      else
        match decode_op (Z.land w 15) (Nat.modulo (Z.to_nat (Z.land (Z.shiftr w 4) 7)) (length (objs st))) with
        | Some o =>
            let e := decode_env w fw in
            if stop e st then Some [L [I 99]]
            else
              let '(st', c, res) := step e o st in
              let seg := skipn (length (slog st)) (slog st') in
              (* a rollback() that raised leaves the transaction half restored: the history is cut *)
              if match o with Rollback => negb (Z.eqb c 0) | _ => false end
              then Some [observe c res seg st'; L [I 99]]
              else
              match run_ops r st' with
              | Some out => Some (observe c res seg st' :: out)
              | None => None
              end
        | None => None
        end
  | _ => None
  end.

(* input  L [I eoc; L pks; L ops]   op = L [I w; I fw] *)
Definition run_case (t : tree) : tree :=
  match t with
  | L [teoc; tpks; L ops] =>
      match as_bool teoc, as_list_of as_Z tpks with
      | Some b, Some (p :: pks) =>
          match run_ops ops (init b (p :: pks)) with Some out => L out | None => bad_input end
      | _, _ => bad_input
      end
  | _ => bad_input
  end.
