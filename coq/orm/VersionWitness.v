(* C44: concrete histories - the defect region (refutations) and non-vacuity of the theorems' hypotheses *)
From Coq Require Import List ZArith NArith Bool Arith Lia.
Import ListNotations.
From SAV.orm Require Import Version VersionBase VersionStmts VersionInv VersionFlush VersionStep VersionTheorems.
Open Scope Z_scope.

Definition rows12 : rows := [(1, {| rx := (0, 0); rv := 1 |}); (2, {| rx := (0, 0); rv := 1 |})].
Definition no_eoc (i : nat) : bool := false.

(* session 0 loads rows 1 and 2 and ends its transaction; session 1 changes row 1 and commits;
   session 0 then marks both instances deleted (w_del) / modifies both (w_upd) *)
Definition w_prefix : list (nat * op) :=
  [(0%nat, Load 1); (0%nat, Load 2); (0%nat, Commit); (1%nat, SetX 1 false 5); (1%nat, Commit)].
Definition w_del : list (nat * op) := w_prefix ++ [(0%nat, Del 1); (0%nat, Del 2)].
Definition w_upd : list (nat * op) := w_prefix ++ [(0%nat, SetX 1 false 7); (0%nat, SetX 2 false 8)].

Definition st_del (sane_rc sane_multi : bool) : state := run false sane_rc sane_multi no_eoc Z.succ w_del (init rows12).
Definition st_upd (sane_rc sane_multi : bool) : state := run false sane_rc sane_multi no_eoc Z.succ w_upd (init rows12).

Lemma st_del_reach : forall a b, reach false a b no_eoc Z.succ rows12 (st_del a b).
Proof. intros. exists w_del. reflexivity. Qed.
Lemma st_upd_reach : forall a b, reach false a b no_eoc Z.succ rows12 (st_upd a b).
Proof. intros. exists w_upd. reflexivity. Qed.

Lemma st_del_stale : forall a b, stale_del (st_del a b) 0.
Proof.
  intros a b. exists 1, {| ex := (0, 0); ev := 1; epend := None; edel := true |}.
  destruct a, b; vm_compute; (split; [left; reflexivity|split; reflexivity]).
Qed.
Lemma st_upd_stale : forall a b, stale_upd (st_upd a b) 0.
Proof.
  intros a b. exists 1, {| ex := (0, 0); ev := 1; epend := Some (7, 0); edel := false |}.
  destruct a, b; vm_compute; (split; [left; reflexivity|split; reflexivity]).
Qed.

(* the defect: two DELETEs, one stale, dialect without sane multi-rowcount: commit succeeds, row 2 is gone, row 1
   (which the session believes deleted) is still there *)
Lemma multi_delete_unchecked :
  snd (step false true false no_eoc Z.succ 0 Commit (st_del true false)) = ROk /\
  com (sdb (fst (step false true false no_eoc Z.succ 0 Commit (st_del true false)))) = [(1, {| rx := (5, 0); rv := 2 |})] /\
  n_dels (st_del true false) 0 = 2%nat.
Proof. vm_compute. repeat split. Qed.

(* with sane multi-rowcount the same history fails and changes nothing *)
Lemma multi_delete_checked :
  snd (step false true true no_eoc Z.succ 0 Commit (st_del true true)) = RStale /\
  com (sdb (fst (step false true true no_eoc Z.succ 0 Commit (st_del true true)))) =
    [(1, {| rx := (5, 0); rv := 2 |}); (2, {| rx := (0, 0); rv := 1 |})].
Proof. vm_compute. repeat split. Qed.

(* a dialect without sane rowcount verifies nothing: the stale UPDATE matches no row, the flush succeeds *)
Lemma no_sane_rowcount_unchecked :
  snd (step false false false no_eoc Z.succ 0 Commit (st_upd false false)) = ROk /\
  com (sdb (fst (step false false false no_eoc Z.succ 0 Commit (st_upd false false)))) =
    [(1, {| rx := (5, 0); rv := 2 |}); (2, {| rx := (8, 0); rv := 2 |})].
Proof. vm_compute. repeat split. Qed.

Lemma stale_update_fails :
  snd (step false true true no_eoc Z.succ 0 Commit (st_upd true true)) = RStale.
Proof. vm_compute. reflexivity. Qed.

(* the database refuses first: session 0 still reads from the snapshot taken before session 1 committed *)
Definition w_busy : list (nat * op) := [(0%nat, SetX 1 false 7); (1%nat, SetX 1 false 5); (1%nat, Commit)].
Lemma busy_example :
  snd (step false true true no_eoc Z.succ 0 Commit (run false true true no_eoc Z.succ w_busy (init rows12))) = RBusy.
Proof. vm_compute. reflexivity. Qed.

(* a successful commit of an UPDATE (hypotheses of no_lost_update are satisfiable) *)
Lemma ok_example :
  let s := run false true true no_eoc Z.succ [(0%nat, SetX 1 false 7)] (init rows12) in
  snd (step false true true no_eoc Z.succ 0 Commit s) = ROk /\
  In (1, {| ex := (0, 0); ev := 1; epend := Some (7, 0); edel := false |}) (sents (sget 0 (sss s))) /\
  com (sdb (fst (step false true true no_eoc Z.succ 0 Commit s))) = [(1, {| rx := (7, 0); rv := 2 |}); (2, {| rx := (0, 0); rv := 1 |})].
Proof. vm_compute. split; [reflexivity|split; [left; reflexivity|reflexivity]]. Qed.

Lemma succ_increasing : forall v, v < Z.succ v.
Proof. intros; lia. Qed.
