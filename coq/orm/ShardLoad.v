(* C53 - loading rows from the chosen shards: identity resolution and the merged result *)
From Coq Require Import List ZArith NArith Bool Lia Permutation.
Import ListNotations.
From SAV.orm Require Import Shard ShardDb ShardInv.
Open Scope Z_scope.

(* what the program sees of object number o: its identity token and attribute values *)
Definition view (l : list inst) (o : nat) : option (N * row) :=
  match nth_error l o with
  | Some i => match i_tok i with Some t => Some (t, i_cur i) | None => None end
  | None => None
  end.

Lemma view_app : forall l x o v, view l o = Some v -> view (l ++ x) o = Some v.
Proof.
  unfold view. intros l x o v H. destruct (nth_error l o) eqn:E; [|discriminate].
  rewrite nth_error_app1; [now rewrite E|]. apply nth_error_Some. congruence.
Qed.

Lemma lookup_some : forall l k t o, lookup l k t = Some o ->
  exists i, nth_error l o = Some i /\ i_life i = Persistent /\ i_tok i = Some t /\ r_pk (i_cur i) = k.
Proof.
  unfold lookup. intros l k t o H. apply find_idx_some in H. destruct H as [i [Hn [Hk _]]].
  rewrite Nat.sub_0_r in Hn. exists i. split; auto. now apply is_key_true.
Qed.

Lemma load_row_spec : forall t l d r l' o,
  Inv l d -> Forall clean l -> In r (d t) -> load_row t l r = (l', o) ->
  Inv l' d /\ Forall clean l' /\ (exists x, l' = l ++ x) /\ view l' o = Some (t, r).
Proof.
  intros t l d r l' o HI Hc Hr H. unfold load_row in H.
  destruct (lookup l (r_pk r) t) as [o'|] eqn:E.
  - injection H as <- <-. split; auto. split; auto. split; [exists []; now rewrite app_nil_r|].
    apply lookup_some in E. destruct E as [i [Hn [Hl [Ht Hk]]]].
    assert (Hi : In i l) by (eapply nth_error_In; eauto).
    destruct (inv_row _ _ HI i Hi Hl) as [t' [Ht' [Hin Hpk]]].
    rewrite Ht in Ht'. inversion Ht'; subst t'.
    rewrite Forall_forall in Hc. destruct (Hc i Hi) as [_ Hcl]. specialize (Hcl Hl).
    unfold view. rewrite Hn, Ht. f_equal. f_equal. rewrite Hcl.
    apply (same_pk_same_row (d t)); auto; [apply (inv_pk _ _ HI) | congruence].
  - injection H as <- <-. split; [now apply inv_load|]. split.
    + apply Forall_app. split; auto. constructor; [|constructor]. split; simpl; [discriminate | auto].
    + split; [eauto|]. unfold view. rewrite nth_error_app2 by lia. rewrite Nat.sub_diag. reflexivity.
Qed.

Lemma load_rows_spec : forall t d rs l l' os,
  Inv l d -> Forall clean l -> (forall r, In r rs -> In r (d t)) -> load_rows t l rs = (l', os) ->
  Inv l' d /\ Forall clean l' /\ (exists x, l' = l ++ x) /\
  map (view l') os = map (fun r => Some (t, r)) rs.
Proof.
  intros t d. induction rs as [|r rs IH]; simpl; intros l l' os HI Hc Hr H.
  - injection H as <- <-. refine (conj HI (conj Hc (conj _ eq_refl))). exists []. now rewrite app_nil_r.
  - destruct (load_row t l r) as [l1 o] eqn:E1. destruct (load_rows t l1 rs) as [l2 os2] eqn:E2.
    injection H as <- <-.
    destruct (load_row_spec _ _ _ _ _ _ HI Hc (Hr r (or_introl eq_refl)) E1) as [HI1 [Hc1 [[x1 Hx1] Hv1]]].
    destruct (IH _ _ _ HI1 Hc1 (fun r' Hr' => Hr r' (or_intror Hr')) E2) as [HI2 [Hc2 [[x2 Hx2] Hv2]]].
    refine (conj HI2 (conj Hc2 (conj _ _))).
    + exists (x1 ++ x2). rewrite Hx2, Hx1. now rewrite app_assoc.
    + simpl. rewrite Hv2. f_equal. rewrite Hx2. now apply view_app.
Qed.

Lemma map_view_app : forall l x os vs, map (view l) os = map Some vs -> map (view (l ++ x)) os = map Some vs.
Proof.
  intros l x. induction os as [|o os IH]; intros [|v vs] H; simpl in *; try discriminate; auto.
  injection H as H1 H2. f_equal; [now apply view_app | now apply IH].
Qed.

(* the merged result of all chosen shards: shard order, then row order; tokens = source shards *)
Definition expected (q : qry) (ss : list N) (d : dbs) : list (N * row) :=
  flat_map (fun s => map (pair s) (sql_select q (d s))) ss.

Lemma exec_shards_spec : forall q d ss l l' os,
  Inv l d -> Forall clean l -> exec_shards q ss d l = (l', os) ->
  Inv l' d /\ Forall clean l' /\ (exists x, l' = l ++ x) /\
  map (view l') os = map Some (expected q ss d).
Proof.
  intros q d. induction ss as [|s ss IH]; simpl; intros l l' os HI Hc H.
  - injection H as <- <-. refine (conj HI (conj Hc (conj _ eq_refl))). exists []. now rewrite app_nil_r.
  - destruct (load_rows s l (sql_select q (d s))) as [l1 os1] eqn:E1.
    destruct (exec_shards q ss d l1) as [l2 os2] eqn:E2. injection H as <- <-.
    destruct (load_rows_spec _ _ _ _ _ _ HI Hc (fun r Hr => proj1 (proj1 (in_select _ _ _) Hr)) E1)
      as [HI1 [Hc1 [[x1 Hx1] Hv1]]].
    destruct (IH _ _ _ HI1 Hc1 E2) as [HI2 [Hc2 [[x2 Hx2] Hv2]]].
    refine (conj HI2 (conj Hc2 (conj _ _))).
    + exists (x1 ++ x2). rewrite Hx2, Hx1. now rewrite app_assoc.
    + unfold expected in *. simpl. rewrite !map_app. f_equal; [|exact Hv2].
      rewrite Hx2. apply map_view_app. rewrite Hv1, map_map. reflexivity.
Qed.

Lemma flat_map_perm : forall {A B} (f g : A -> list B) l,
  (forall a, Permutation (f a) (g a)) -> Permutation (flat_map f l) (flat_map g l).
Proof. induction l; simpl; intros; auto. apply Permutation_app; auto. Qed.

(* as a multiset the result is the union of the matching rows of the chosen shards *)
Lemma expected_perm : forall q ss d,
  Permutation (expected q ss d) (flat_map (fun s => map (pair s) (filter (qmatch q) (d s))) ss).
Proof.
  intros. apply flat_map_perm. intros s. apply Permutation_map. apply select_perm.
Qed.
