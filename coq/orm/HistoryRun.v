(* C36 - executable entry point for the correspondence check.

   input   L [I kind; L [I okind; I x0; I b0; L c0]; L ops]
             kind   0 list, 1 set, 2 keyed dict        okind 0 new, 1 loaded, 2 relationships unloaded
             op     L [I code; arg]   0 SetX v | 1 DelX | 2 GetX | 3 SetB v | 4 DelB | 5 GetB | 6 CAdd o
                    | 7 CRem o | 8 CReplace (L l) | 9 CDel | 10 CGet | 11 Flush | 12 Expire
                    keyed dict only: 13 pop(key o) | 14 pop(key o, None) | 15 popitem | 16 del d[key o]
                    | 17 setdefault(key o, o) | 18 update(L l) | 19 clear
   output  one entry per executed operation: L [I rc; ret; hx; hb; hc; I modified]
             rc   0 ok | 1 AttributeError | 2 KeyError | 3 ValueError | 4 InvalidRequestError
             ret  L [] | L [I v] | collection members (L [I (-1)] when cs is not in __dict__)
                  | L [I 1; I x; I bid; L children]  (database row after a flush)
             h    L [added; unchanged; deleted]
           a failing flush ends the run with L [I rc; L []; L []; L []; L []; I 0].          *)
From Coq Require Import List ZArith NArith Bool.
Import ListNotations.
From SAV.base Require Import Tree.
From SAV.orm Require Import History.

Definition of_vals (l : list val) : tree := of_list of_N l.
Definition of_hist (h : hist) : tree :=
  let '(a, u, d) := h in L [of_vals a; of_vals u; of_vals d].
Definition of_exn (e : exn) : tree :=
  I (match e with AttributeError => 1 | KeyError => 2 | ValueError => 3 | InvalidRequestError => 4
             | Unreachable => 99 end)%Z.
Definition of_ret (r : ret) : tree :=
  match r with
  | RNone => L []
  | RVal v => L [of_N v]
  | RColl (Some l) => of_vals l
  | RColl None => L [I (-1)%Z]
  | RDb x b c => L [I 1%Z; of_N x; of_N b; of_vals c]
  end.
Definition of_obs (o : obs) : tree :=
  match o_res o with
  | Done r => L [I 0%Z; of_ret r; of_hist (o_hx o); of_hist (o_hb o); of_hist (o_hc o); of_bool (o_mod o)]
  | Fail e => L [of_exn e; L []; of_hist (o_hx o); of_hist (o_hb o); of_hist (o_hc o); of_bool (o_mod o)]
  end.
(* the terminal entry of a failed flush carries no histories *)
Definition of_obs_run (o : obs) : tree :=
  match o_term o, o_res o with
  | true, Fail e => L [of_exn e; L []; L []; L []; L []; I 0%Z]
  | _, _ => of_obs o
  end.

Definition as_ckind (t : tree) : option ckind :=
  match t with I 0%Z => Some KList | I 1%Z => Some KSet | I 2%Z => Some KDict | _ => None end.
Definition as_okind (t : tree) : option okind :=
  match t with I 0%Z => Some ONew | I 1%Z => Some OLoaded | I 2%Z => Some OUnloadedRel | _ => None end.
Definition as_op (t : tree) : option op :=
  match t with
  | L [I 0%Z; v] => option_map SetX (as_N v)
  | L [I 1%Z; _] => Some DelX
  | L [I 2%Z; _] => Some GetX
  | L [I 3%Z; v] => option_map SetB (as_N v)
  | L [I 4%Z; _] => Some DelB
  | L [I 5%Z; _] => Some GetB
  | L [I 6%Z; v] => option_map CAdd (as_N v)
  | L [I 7%Z; v] => option_map CRem (as_N v)
  | L [I 8%Z; l] => option_map CReplace (as_list_of as_N l)
  | L [I 9%Z; _] => Some CDel
  | L [I 10%Z; _] => Some CGet
  | L [I 11%Z; _] => Some Flush
  | L [I 12%Z; _] => Some Expire
  | L [I 13%Z; v] => option_map CPop (as_N v)
  | L [I 14%Z; v] => option_map CPopD (as_N v)
  | L [I 15%Z; _] => Some CPopItem
  | L [I 16%Z; v] => option_map CDelKey (as_N v)
  | L [I 17%Z; v] => option_map CSetDefault (as_N v)
  | L [I 18%Z; l] => option_map CUpdate (as_list_of as_N l)
  | L [I 19%Z; _] => Some CClear
  | _ => None
  end.

Definition run_case (t : tree) : tree :=
  match t with
  | L [tk; L [tok; tx; tb; tc]; tops] =>
    match as_ckind tk, as_okind tok, as_N tx, as_N tb, as_list_of as_N tc, as_list_of as_op tops with
    | Some k, Some ok, Some x0, Some b0, Some c0, Some ops =>
        L (map of_obs_run (snd (run k ops (init ok x0 b0 c0))))
    | _, _, _, _, _, _ => bad_input
    end
  | _ => bad_input
  end.
