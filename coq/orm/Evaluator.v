(* C43 - ORM-enabled UPDATE / DELETE with synchronize_session='evaluate'.  Definitions only.

   CODE SIDE (transcribed from lib/sqlalchemy/orm/evaluator.py, class _EvaluatorCompiler, and
   orm/bulk_persistence.py):
     process / visit_grouping / visit_null / visit_true / visit_false / visit_column / visit_bindparam
     visit_clauselist -> visit_and_clauselist_op, visit_or_clauselist_op
     visit_binary -> visit_is_binary_op, visit_is_not_binary_op, _straight_evaluate,
                     _straight_evaluate_numeric_only (add mul sub mod), lt le ne gt ge eq,
                     visit_in_op_binary_op, visit_not_in_op_binary_op, visit_concat_op_binary_op,
                     visit_startswith_op_binary_op, visit_endswith_op_binary_op
     visit_unary (inv)                                               -> [check] (the UnevaluatableError
                                                                        decisions) and [run]
     _get_matched_objects_on_criteria, _apply_update_set_values_to_objects,
     _BulkORMDelete._do_post_synchronize_evaluate                     -> [matched], [update_obj], [delete_obj]
   SPEC SIDE: [sem], the value of the same expression in SQL (three-valued logic, truncating %, LIKE based
   prefix / suffix tests, IN as in C07), validated against SQLite on every run; [update_row]. *)
From Coq Require Import List ZArith NArith Bool.
Import ListNotations.
From SAV.sql Require Import Val3 InList.
Open Scope Z_scope.

(* ------------------------------------------------------------------------------------------ *)
(** * Expressions (what the evaluator dispatches on) *)
Inductive sty := TyInt | TyStr | TyBool | TyNull.      (* clause.type._type_affinity, as far as it matters *)

Inductive binop :=
| OAdd | OSub | OMul | OMod
| OLt | OLe | ONe | OGt | OGe | OEq
| OIs | OIsNot
| OConcat | OStartsWith | OEndsWith
| OOther.                 (* any operator without a visit_<op>_binary_op: contains, like, floordiv, ... *)

Inductive ex :=
| ECol (c : nat)                        (* mapped column attribute *)
| ELit (t : sty) (v : sv)               (* BindParameter with its type and value *)
| ENull | ETrue | EFalse
| EBin (o : binop) (a b : ex)
| EIn (neg : bool) (a : ex) (vs : list sv)   (* in_op / not_in_op against an expanding list parameter *)
| EAnd (es : list ex)
| EOr (es : list ex)
| ENot (e : ex)                         (* UnaryExpression with operator inv *)
| EGroup (e : ex)                       (* Grouping *)
| EOther.                               (* a clause without visit_ method, or a unary operator but inv *)

(* the mapped class: column -> type *)
Definition schema := nat -> sty.

Fixpoint sqlty (sc : schema) (e : ex) : sty :=
  match e with
  | ECol c => sc c
  | ELit t _ => t
  | ENull => TyNull
  | ETrue | EFalse => TyBool
  | EBin o a _ =>
      match o with
      | OAdd | OSub | OMul | OMod => sqlty sc a
      | OConcat => TyStr
      | _ => TyBool
      end
  | EIn _ _ _ | EAnd _ | EOr _ | ENot _ => TyBool
  | EGroup e1 => sqlty sc e1
  | EOther => TyNull
  end.

(* ------------------------------------------------------------------------------------------ *)
(** * process(): which expressions raise UnevaluatableError *)
Definition numeric (t : sty) : bool := match t with TyInt => true | _ => false end.
Definition concatenable (t : sty) : bool := match t with TyStr => true | _ => false end.

Fixpoint check (sc : schema) (e : ex) : bool :=
  match e with
  | ECol _ | ELit _ _ | ENull | ETrue | EFalse => true
  | EBin o a b =>
      check sc a && check sc b &&
      match o with
      | OAdd | OSub | OMul | OMod => numeric (sqlty sc a) && numeric (sqlty sc b)   (* _straight_evaluate_numeric_only *)
      | OConcat => concatenable (sqlty sc a) && concatenable (sqlty sc b)
      | OOther => false
      | _ => true
      end
  | EIn _ a _ => check sc a
  | EAnd es | EOr es => (fix all (l : list ex) : bool := match l with [] => true | x :: r => check sc x && all r end) es
  | ENot e1 | EGroup e1 => check sc e1
  | EOther => false
  end.

(* ------------------------------------------------------------------------------------------ *)
(** * Python values and operations *)
Inductive pyv := VNone | VBool (b : bool) | VInt (z : Z) | VStr (s : list N) | VExp.   (* VExp = _EXPIRED_OBJECT *)
Inductive pyexn := Unevaluatable | PyTypeError | PyZeroDivisionError | PyAttributeError.
Inductive pyres := POk (v : pyv) | PRaise (e : pyexn).

Definition of_sv (v : sv) : pyv := match v with SNull => VNone | SInt z => VInt z | SText s => VStr s end.
Definition b2z (b : bool) : Z := if b then 1 else 0.
Definition is_none (v : pyv) : bool := match v with VNone => true | _ => false end.
Definition is_exp (v : pyv) : bool := match v with VExp => true | _ => false end.
Definition truthy (v : pyv) : bool :=
  match v with
  | VNone => false | VBool b => b | VInt z => negb (Z.eqb z 0)
  | VStr s => match s with [] => false | _ => true end
  | VExp => true
  end.
(* numbers: bool is a subclass of int *)
Definition as_int (v : pyv) : option Z := match v with VBool b => Some (b2z b) | VInt z => Some z | _ => None end.

Definition py_eq (a b : pyv) : bool :=
  match as_int a, as_int b with
  | Some x, Some y => Z.eqb x y
  | _, _ =>
      match a, b with
      | VNone, VNone => true
      | VStr x, VStr y => text_eqb x y
      | VExp, VExp => true
      | _, _ => false
      end
  end.

(* str comparison by code point *)
Fixpoint text_ltb (a b : list N) : bool :=
  match a, b with
  | _, [] => false
  | [], _ :: _ => true
  | x :: a', y :: b' => N.ltb x y || (N.eqb x y && text_ltb a' b')
  end.

Inductive cmpk := CLt | CLe | CGt | CGe.
Definition py_cmp (k : cmpk) (a b : pyv) : pyres :=
  match as_int a, as_int b with
  | Some x, Some y =>
      POk (VBool (match k with CLt => Z.ltb x y | CLe => Z.leb x y | CGt => Z.ltb y x | CGe => Z.leb y x end))
  | _, _ =>
      match a, b with
      | VStr x, VStr y =>
          POk (VBool (match k with CLt => text_ltb x y | CLe => negb (text_ltb y x)
                                 | CGt => text_ltb y x | CGe => negb (text_ltb x y) end))
      | _, _ => PRaise PyTypeError
      end
  end.

Definition py_arith (f : Z -> Z -> Z) (a b : pyv) : pyres :=
  match as_int a, as_int b with Some x, Some y => POk (VInt (f x y)) | _, _ => PRaise PyTypeError end.
(* operator.add / the lambda a + b of concat *)
Definition py_add (a b : pyv) : pyres :=
  match a, b with
  | VStr x, VStr y => POk (VStr (x ++ y))
  | _, _ => py_arith Z.add a b
  end.
(* Python % on ints: floor modulo, ZeroDivisionError *)
Definition py_mod (a b : pyv) : pyres :=
  match as_int a, as_int b with
  | Some x, Some y => if Z.eqb y 0 then PRaise PyZeroDivisionError else POk (VInt (Z.modulo x y))
  | _, _ => PRaise PyTypeError              (* (str % x is string formatting: not modelled) *)
  end.

Fixpoint prefixb (p s : list N) : bool :=          (* str.startswith *)
  match p, s with
  | [], _ => true
  | x :: p', y :: s' => N.eqb x y && prefixb p' s'
  | _ :: _, [] => false
  end.
Fixpoint suffixb (p s : list N) : bool :=          (* str.endswith: some tail of s equals p *)
  text_eqb s p || match s with [] => false | _ :: s' => suffixb p s' end.

Definition py_startswith (a b : pyv) : pyres :=
  match a, b with
  | VStr x, VStr y => POk (VBool (prefixb y x))
  | VStr _, _ => PRaise PyTypeError
  | _, _ => PRaise PyAttributeError
  end.
Definition py_endswith (a b : pyv) : pyres :=
  match a, b with
  | VStr x, VStr y => POk (VBool (suffixb y x))
  | VStr _, _ => PRaise PyTypeError
  | _, _ => PRaise PyAttributeError
  end.

(* a in b / a not in b on a Python list: element-wise == *)
Definition py_in (a : pyv) (vs : list sv) : bool := existsb (fun v => py_eq a (of_sv v)) vs.

(* operator(left, right) for the operators evaluated by _straight_evaluate *)
Definition py_binop (o : binop) (a b : pyv) : pyres :=
  match o with
  | OAdd => py_add a b
  | OSub => py_arith Z.sub a b
  | OMul => py_arith Z.mul a b
  | OMod => py_mod a b
  | OLt => py_cmp CLt a b | OLe => py_cmp CLe a b | OGt => py_cmp CGt a b | OGe => py_cmp CGe a b
  | OEq => POk (VBool (py_eq a b))
  | ONe => POk (VBool (negb (py_eq a b)))
  | OConcat => py_add a b
  | OStartsWith => py_startswith a b
  | OEndsWith => py_endswith a b
  | OIs | OIsNot | OOther => PRaise PyTypeError      (* not reached: dispatched elsewhere *)
  end.

(* ------------------------------------------------------------------------------------------ *)
(** * The evaluator functions built by process() *)
(* an attribute slot of the instance dict: a value; absent (expired: impl.get gives PASSIVE_NO_RESULT);
   or the _EXPIRED_OBJECT marker itself, which _apply_update_set_values_to_objects stores when a SET
   expression reads an expired attribute *)
Inductive attr := Loaded (v : sv) | Expired | Marker.
Definition obj := nat -> attr.

Definition pbind (r : pyres) (f : pyv -> pyres) : pyres := match r with POk v => f v | PRaise e => PRaise e end.

Fixpoint run (e : ex) (o : obj) : pyres :=
  match e with
  | ECol c => POk (match o c with Loaded v => of_sv v | Expired | Marker => VExp end)
  | ELit _ v => POk (of_sv v)
  | ENull => POk VNone
  | ETrue => POk (VBool true)
  | EFalse => POk (VBool false)
  | EBin o' a b =>
      pbind (run a o) (fun l => pbind (run b o) (fun r =>
      match o' with
      | OIs => if is_exp l || is_exp r then POk VExp else POk (VBool (py_eq l r))
      | OIsNot => if is_exp l || is_exp r then POk VExp else POk (VBool (negb (py_eq l r)))
      | _ =>                                                     (* _straight_evaluate *)
          if is_exp l || is_exp r then POk VExp
          else if is_none l || is_none r then POk VNone
          else py_binop o' l r
      end))
  | EIn neg a vs =>
      pbind (run a o) (fun l =>
      if is_exp l then POk VExp
      else if is_none l then POk VNone
      (* since e2dd2ce: True if a in b else None if None in b else False  (NOT IN: False / None / True) *)
      else if py_in l vs then POk (VBool (negb neg))
      else if existsb (fun v => match v with SNull => true | _ => false end) vs then POk VNone
      else POk (VBool neg))
  | EAnd es =>                                                  (* visit_and_clauselist_op *)
      (fix go (l : list ex) (has_null : bool) : pyres :=
         match l with
         | [] => if has_null then POk VNone else POk (VBool true)
         | x :: r =>
             pbind (run x o) (fun v =>
             if is_exp v then POk VExp
             else if truthy v then go r has_null
             else if is_none v then go r true
             else POk (VBool false))
         end) es false
  | EOr es =>                                                   (* visit_or_clauselist_op *)
      (fix go (l : list ex) (has_null : bool) : pyres :=
         match l with
         | [] => if has_null then POk VNone else POk (VBool false)
         | x :: r =>
             pbind (run x o) (fun v =>
             if is_exp v then POk VExp
             else if truthy v then POk (VBool true)
             else go r (has_null || is_none v))
         end) es false
  | ENot e1 =>                                                  (* visit_unary, operators.inv *)
      pbind (run e1 o) (fun v =>
      if is_exp v then POk VExp else if is_none v then POk VNone else POk (VBool (negb (truthy v))))
  | EGroup e1 => run e1 o
  | EOther => PRaise Unevaluatable
  end.

(* _EvaluatorCompiler(cls).process(clause)(obj): the UnevaluatableError is raised by process() *)
Definition ev (sc : schema) (e : ex) (o : obj) : pyres :=
  if check sc e then run e o else PRaise Unevaluatable.

(* ------------------------------------------------------------------------------------------ *)
(** * Spec: the value of the expression in SQL (SQLite flavour where dialects differ) *)
Definition row := nat -> sv.

Definition tv_of_sv (v : sv) : tv :=
  match v with SNull => TU | SInt z => if Z.eqb z 0 then TF else TT | SText _ => TF end.

Definition sql_cmp (k : cmpk) (a b : sv) : sv :=
  match a, b with
  | SNull, _ | _, SNull => SNull
  | SInt x, SInt y =>
      sv_of_tv (tv_of_bool (match k with CLt => Z.ltb x y | CLe => Z.leb x y | CGt => Z.ltb y x | CGe => Z.leb y x end))
  | SText x, SText y =>
      sv_of_tv (tv_of_bool (match k with CLt => text_ltb x y | CLe => negb (text_ltb y x)
                                       | CGt => text_ltb y x | CGe => negb (text_ltb x y) end))
  | SInt _, SText _ => sv_of_tv (tv_of_bool (match k with CLt | CLe => true | _ => false end))   (* numbers sort first *)
  | SText _, SInt _ => sv_of_tv (tv_of_bool (match k with CGt | CGe => true | _ => false end))
  end.
Definition sql_arith (f : Z -> Z -> Z) (a b : sv) : sv :=
  match a, b with SInt x, SInt y => SInt (f x y) | _, _ => SNull end.
(* % truncates toward zero; x % 0 is NULL (SQLite, MySQL) *)
Definition sql_mod (a b : sv) : sv :=
  match a, b with SInt x, SInt y => if Z.eqb y 0 then SNull else SInt (Z.rem x y) | _, _ => SNull end.
Definition sql_concat (a b : sv) : sv :=
  match a, b with SText x, SText y => SText (x ++ y) | _, _ => SNull end.
(* IS / IS NOT: null-safe equality *)
Definition sql_is (a b : sv) : bool := sv_eqb a b.

(* LIKE: % any sequence, _ any character; SQLite compares ASCII letters case-insensitively *)
Definition pct : N := 37%N.
Definition und : N := 95%N.
Definition upper (c : N) : N := if (N.leb 97 c && N.leb c 122)%N then (c - 32)%N else c.
Definition ceq (a b : N) : bool := N.eqb (upper a) (upper b).
Fixpoint like (p s : list N) : bool :=
  match p with
  | [] => match s with [] => true | _ => false end
  | c :: p' =>
      if N.eqb c pct then
        (fix any (s : list N) : bool := like p' s || match s with [] => false | _ :: s' => any s' end) s
      else
        match s with
        | [] => false
        | x :: s' => (N.eqb c und || ceq c x) && like p' s'
        end
  end.
Definition sql_like (a p : sv) : sv :=
  match a, p with SText x, SText y => sv_of_tv (tv_of_bool (like y x)) | _, _ => SNull end.

Fixpoint sem (e : ex) (r : row) : sv :=
  match e with
  | ECol c => r c
  | ELit _ v => v
  | ENull => SNull
  | ETrue => SInt 1
  | EFalse => SInt 0
  | EBin o a b =>
      let x := sem a r in let y := sem b r in
      match o with
      | OAdd => sql_arith Z.add x y | OSub => sql_arith Z.sub x y | OMul => sql_arith Z.mul x y
      | OMod => sql_mod x y
      | OLt => sql_cmp CLt x y | OLe => sql_cmp CLe x y | OGt => sql_cmp CGt x y | OGe => sql_cmp CGe x y
      | OEq => sv_of_tv (eq3 x y)
      | ONe => sv_of_tv (not3 (eq3 x y))
      | OIs => SInt (b2z (sql_is x y))
      | OIsNot => SInt (b2z (negb (sql_is x y)))
      | OConcat => sql_concat x y
      | OStartsWith => sql_like x (sql_concat y (SText [pct]))        (* x LIKE y || '%' *)
      | OEndsWith => sql_like x (sql_concat (SText [pct]) y)          (* x LIKE '%' || y *)
      | OOther => SNull
      end
  | EIn neg a vs =>
      let t := in_sem [sem a r] (map (fun v => [v]) vs) in
      sv_of_tv (if neg then not3 t else t)
  | EAnd es => sv_of_tv ((fix go (l : list ex) : tv := match l with [] => TT | x :: t => and3 (tv_of_sv (sem x r)) (go t) end) es)
  | EOr es => sv_of_tv ((fix go (l : list ex) : tv := match l with [] => TF | x :: t => or3 (tv_of_sv (sem x r)) (go t) end) es)
  | ENot e1 => sv_of_tv (not3 (tv_of_sv (sem e1 r)))
  | EGroup e1 => sem e1 r
  | EOther => SNull
  end.

(* a row is selected by WHERE <e> iff the value is TRUE *)
Definition selected (e : ex) (r : row) : bool := is_true (tv_of_sv (sem e r)).

(* ------------------------------------------------------------------------------------------ *)
(** * Synchronisation: bulk_persistence.py *)
(* _get_matched_objects_on_criteria: "evaled_condition is True or evaled_condition is _EXPIRED_OBJECT" *)
Inductive mres := Matched (partially_expired : bool) | NotMatched | MRaise (e : pyexn).
Definition matched (sc : schema) (crit : ex) (o : obj) : mres :=
  match ev sc crit o with
  | POk (VBool true) => Matched false
  | POk VExp => Matched true
  | POk _ => NotMatched
  | PRaise e => MRaise e
  end.

Definition set_attr (o : obj) (c : nat) (a : attr) : obj := fun c' => if Nat.eqb c' c then a else o c'.
Definition to_attr (v : pyv) : attr :=
  match v with
  | VNone => Loaded SNull | VBool b => Loaded (SInt (b2z b)) | VInt z => Loaded (SInt z) | VStr s => Loaded (SText s)
  | VExp => Marker
  end.

(* _apply_update_set_values_to_objects for one matched object (no pending changes, no prefetch /
   postfetch columns).  [sets]: the SET clause in the order in which "to_evaluate" is iterated (a Python
   set: any order).  Value expressions that raise UnevaluatableError are not evaluated: the attribute is
   expired instead. *)
Inductive ores := OOk (o : obj) | ORaise (e : pyexn).
(* since c4d3d0a: every SET expression is evaluated against the object as it was before the statement
   ("dict_.update([(key, value_evaluators[key](obj)) for key in to_evaluate if key in dict_])"), then the
   values are assigned; an exception during the evaluation leaves the object untouched *)
Inductive eres' := EvOk (l : list (nat * attr)) | EvRaise (e : pyexn).
Fixpoint eval_sets (sc : schema) (sets : list (nat * ex)) (o : obj) : eres' :=
  match sets with
  | [] => EvOk []
  | (c, v) :: rest =>
      if check sc v then
        match o c with
        | Expired => eval_sets sc rest o           (* "if key in dict_": only attributes that are present *)
        | _ =>
            match run v o with
            | POk x => match eval_sets sc rest o with EvOk l => EvOk ((c, to_attr x) :: l) | r => r end
            | PRaise e => EvRaise e
            end
        end
      else eval_sets sc rest o
  end.
Definition assign (o : obj) (l : list (nat * attr)) : obj := fold_left (fun o' ca => set_attr o' (fst ca) (snd ca)) l o.
(* SET targets whose value expression raises UnevaluatableError are not evaluated: the attribute is expired.
   The code keeps ONE variable "to_expire" across the loop over the matched objects: before the loop it holds
   the postfetch columns that are not evaluated (a column SET to a SQL expression is a postfetch column), at
   the top of each iteration these attributes are expired - BEFORE the evaluable expressions are evaluated, so
   an expression reading such an attribute sees it expired and the _EXPIRED_OBJECT marker is stored - and at
   the end of the iteration it is overwritten with the un-evaluated SET attributes still present, which are
   expired then and carried to the next object. *)
Definition uneval_targets (sc : schema) (sets : list (nat * ex)) : list nat :=
  map fst (filter (fun cv => negb (check sc (snd cv))) sets).
Definition expire_attrs (cols : list nat) (o : obj) : obj :=
  fun c => if existsb (Nat.eqb c) cols then Expired else o c.
Definition present (o : obj) (c : nat) : bool := match o c with Expired => false | _ => true end.
(* one iteration: [pre] = to_expire at the top; returns the object and to_expire for the next iteration *)
Definition apply_sets_st (sc : schema) (sets : list (nat * ex)) (pre : list nat) (o : obj) : ores * list nat :=
  let o1 := expire_attrs pre o in
  match eval_sets sc sets o1 with
  | EvOk l =>
      let o2 := assign o1 l in
      let post := filter (present o2) (uneval_targets sc sets) in
      (OOk (expire_attrs post o2), post)
  | EvRaise e => (ORaise e, pre)
  end.
(* the first (or only) matched object *)
Definition apply_sets (sc : schema) (sets : list (nat * ex)) (o : obj) : ores :=
  fst (apply_sets_st sc sets (uneval_targets sc sets) o).

Definition update_obj (sc : schema) (crit : ex) (sets : list (nat * ex)) (o : obj) : ores :=
  match matched sc crit o with
  | Matched _ => apply_sets sc sets o
  | NotMatched => OOk o
  | MRaise e => ORaise e
  end.

(* DELETE: Some o = the object stays in the session (possibly expired), None = removed *)
Inductive dres := DKeep (o : obj) | DRemoved | DRaise (e : pyexn).
Definition delete_obj (sc : schema) (crit : ex) (o : obj) : dres :=
  match matched sc crit o with
  | Matched true => DKeep (fun _ => Expired)       (* state._expire(...) *)
  | Matched false => DRemoved
  | NotMatched => DKeep o
  | MRaise e => DRaise e
  end.

(* the database: UPDATE t SET c1 = v1, .. WHERE crit - all right-hand sides see the OLD row *)
Definition update_row (crit : ex) (sets : list (nat * ex)) (r : row) : row :=
  if selected crit r
  then fun c => match find (fun cv => Nat.eqb (fst cv) c) sets with Some cv => sem (snd cv) r | None => r c end
  else r.
Definition delete_row (crit : ex) (r : row) : bool := selected crit r.

(* the session object agrees with the row on every attribute it holds *)
Definition obj_of (r : row) : obj := fun c => Loaded (r c).

(* ------------------------------------------------------------------------------------------ *)
(** * Side conditions of the theorems *)
(* static typing of the supported fragment *)
Definition sty_eqb (a b : sty) : bool :=
  match a, b with TyInt, TyInt | TyStr, TyStr | TyBool, TyBool | TyNull, TyNull => true | _, _ => false end.
Definition val_ty (t : sty) : bool := match t with TyInt | TyStr => true | _ => false end.
Definition sv_has (t : sty) (v : sv) : bool :=
  match v, t with
  | SNull, _ => true
  | SInt _, TyInt => true
  | SText _, TyStr => true
  | _, _ => false
  end.

(* [wt sc e = Some t]: e is in the supported fragment and has type t (TyNull: the NULL constant).
   A literal is typed by its VALUE (Python is dynamically typed); its declared SQL type only matters for
   [check]. *)
Definition compat (a b : sty) : bool :=       (* operands of a comparison *)
  match a, b with
  | TyInt, TyInt | TyStr, TyStr => true
  | TyNull, (TyInt | TyStr | TyNull) | (TyInt | TyStr), TyNull => true
  | _, _ => false
  end.
Definition lit_ty (t : sty) (v : sv) : sty :=
  match v with SNull => if val_ty t then t else TyNull | SInt _ => TyInt | SText _ => TyStr end.
Definition intlike (t : sty) : bool := match t with TyInt | TyNull => true | _ => false end.
Definition strlike (t : sty) : bool := match t with TyStr | TyNull => true | _ => false end.
Fixpoint wt' (sc : schema) (e : ex) : option sty :=
  match e with
  | ECol c => if val_ty (sc c) then Some (sc c) else None
  | ELit t v => Some (lit_ty t v)
  | ENull => Some TyNull
  | ETrue | EFalse => Some TyBool
  | EBin o a b =>
      match wt' sc a, wt' sc b with
      | Some ta, Some tb =>
          match o with
          | OAdd | OSub | OMul | OMod => if intlike ta && intlike tb then Some TyInt else None
          | OConcat => if strlike ta && strlike tb then Some TyStr else None
          | OStartsWith | OEndsWith => if strlike ta && strlike tb then Some TyBool else None
          | OLt | OLe | OGt | OGe | OEq | ONe | OIs | OIsNot => if compat ta tb then Some TyBool else None
          | OOther => None
          end
      | _, _ => None
      end
  | EIn _ a vs =>
      match wt' sc a with
      | Some ta => if (val_ty ta || sty_eqb ta TyNull) && forallb (sv_has (if val_ty ta then ta else TyNull)) vs
                   then Some TyBool else None
      | None => None
      end
  | EAnd es | EOr es =>
      if (fix all (l : list ex) : bool :=
            match l with [] => true | x :: r => match wt' sc x with Some TyBool => all r | _ => false end end) es
      then Some TyBool else None
  | ENot e1 => match wt' sc e1 with Some TyBool => Some TyBool | _ => None end
  | EGroup e1 => wt' sc e1
  | EOther => None
  end.
Definition wt (sc : schema) (e : ex) : option sty := if check sc e then wt' sc e else None.

(* the row holds values of the column types *)
Definition row_ok (sc : schema) (r : row) : Prop := forall c, sv_has (sc c) (r c) = true.

(* the regions in which Python and SQL differ (each one refuted in props/C43.v) *)
Definition lower_only (s : list N) : bool := forallb (fun c => negb (N.leb 65 c && N.leb c 90)%N) s.
Definition no_wild (s : list N) : bool := forallb (fun c => negb (N.eqb c pct || N.eqb c und)) s.
Definition like_safe (a b : sv) : bool :=       (* string a, pattern part b *)
  match a, b with
  | SText x, SText y => no_wild y && lower_only x && lower_only y
  | _, _ => true
  end.
Definition mod_safe (a b : sv) : bool :=
  match a, b with
  | SInt x, SInt y => negb (Z.eqb y 0) && Z.eqb (Z.modulo x y) (Z.rem x y)
  | _, _ => true
  end.
Definition has_null (vs : list sv) : bool := existsb (fun v => match v with SNull => true | _ => false end) vs.
Definition in_safe (a : sv) (vs : list sv) : bool :=
  match a with
  | SNull => negb (is_nil vs)                        (* NULL IN () is FALSE in SQL, None in Python *)
  | _ => true          (* (not found + NULL in the list: UNKNOWN in both worlds since e2dd2ce) *)
  end.

Fixpoint guard (e : ex) (r : row) : bool :=
  match e with
  | EBin o a b =>
      guard a r && guard b r &&
      match o with
      | OMod => mod_safe (sem a r) (sem b r)
      | OStartsWith | OEndsWith => like_safe (sem a r) (sem b r)
      | _ => true
      end
  | EIn _ a vs => guard a r && in_safe (sem a r) vs
  | EAnd es | EOr es => (fix all (l : list ex) : bool := match l with [] => true | x :: t => guard x r && all t end) es
  | ENot e1 | EGroup e1 => guard e1 r
  | _ => true
  end.

(* SET clauses: each target once, typed like its column, guarded *)
Fixpoint targets_distinct (sets : list (nat * ex)) : bool :=
  match sets with
  | [] => true
  | (c, _) :: rest => negb (existsb (fun cv => Nat.eqb (fst cv) c) rest) && targets_distinct rest
  end.
Definition set_ok (sc : schema) (r : row) (cv : nat * ex) : bool :=
  match wt sc (snd cv) with
  | Some t => (sty_eqb t (sc (fst cv)) || sty_eqb t TyNull) && val_ty (sc (fst cv)) && guard (snd cv) r
  | None => false
  end.
