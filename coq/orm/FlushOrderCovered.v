(* C31 - theorem B (edges_cover_fk), assembly: every need of [needs g] is covered by a path between the
   records that emit the two statements *)
From Coq Require Import List NArith Bool Lia Permutation Arith.
Import ListNotations.
From SAV.util Require Import Topo Cycles TopoRun TopoProofs.
From SAV.orm Require Import FlushOrder FlushOrderSpec FlushOrderBase FlushOrderSort FlushOrderCover FlushOrderNeeds.
Local Open Scope N_scope.

Lemma nodupb_NoDup l : nodupb l = true -> NoDup l.
Proof. induction l as [|a l IH]; simpl; intros H; [constructor|]. apply andb_true_iff in H. destruct H as [H1 H2].
  constructor; [apply memb_false, negb_true_iff, H1|apply IH, H2]. Qed.

Ltac band H := repeat match type of H with
  | (_ && _ = true) => let H1 := fresh H in apply andb_true_iff in H; destruct H as [H H1]; band H1 end.
Ltac bands := repeat match goal with H : (_ && _ = true) |- _ =>
  let H1 := fresh H in apply andb_true_iff in H; destruct H as [H H1] end.

Lemma o2m_cov_spec g post s c t : o2m_cov g post s c t = true ->
  exists d, In d (g_deps g) /\ d_active d = true /\ d_kind d = 0 /\ d_col d = c /\ d_post d = post /\
            d_parent d = map_of g t /\ d_child d = map_of g s /\ link_in g (d_id d) t s = true.
Proof. unfold o2m_cov. rewrite existsb_exists. intros [d [Hd H]]. bands.
  exists d. repeat split; try assumption; try (apply N.eqb_eq; assumption). apply eqb_prop; assumption. Qed.
Lemma m2o_cov_spec g post s c t : m2o_cov g post s c t = true ->
  exists d, In d (g_deps g) /\ d_active d = true /\ d_kind d = 1 /\ d_col d = c /\ d_post d = post /\
            d_parent d = map_of g s /\ d_child d = map_of g t /\ link_in g (d_id d) s t = true.
Proof. unfold m2o_cov. rewrite existsb_exists. intros [d [Hd H]]. bands.
  exists d. repeat split; try assumption; try (apply N.eqb_eq; assumption). apply eqb_prop; assumption. Qed.

Lemma sec_homes_spec g cy ins x h : In h (sec_homes g cy ins x) ->
  exists d, In d (g_deps g) /\ d_active d = true /\ d_kind d = 2 /\
    d_parent d = map_of g (sec_owner (d_rev d) x) /\ d_child d = map_of g (sec_rel (d_rev d) x) /\
    link_in g (d_id d) (sec_owner (d_rev d) x) (sec_rel (d_rev d) x) = true /\
    ((role_of g (sec_owner (d_rev d) x) = 1 /\ h = proc_home g cy (d_id d) false (sec_owner (d_rev d) x)) \/
     (role_of g (sec_owner (d_rev d) x) = 2 /\ ins = false /\ h = proc_home g cy (d_id d) true (sec_owner (d_rev d) x))).
Proof. unfold sec_homes. intros H. apply in_flat_map in H. destruct H as [d [Hd H]].
  unfold active in Hd. apply filter_In in Hd. destruct Hd as [Hd Ha].
  destruct (N.eqb (d_kind d) 2 && N.eqb (d_col d) (fst (fst x))) eqn:E1; [|contradiction].
  destruct (N.eqb (d_parent d) _ && N.eqb (d_child d) _ && link_in g _ _ _) eqn:E2; [|contradiction].
  apply andb_true_iff in E1. destruct E1 as [K1 _]. apply andb_true_iff in E2. destruct E2 as [E2 K4].
  apply andb_true_iff in E2. destruct E2 as [K2 K3]. apply N.eqb_eq in K1, K2, K3.
  exists d. split; [exact Hd|]. split; [exact Ha|]. split; [exact K1|]. split; [exact K2|]. split; [exact K3|]. split; [exact K4|].
  destruct (N.eqb (role_of g _) 1) eqn:R1.
  - left. destruct H as [<-|[]]. split; [apply N.eqb_eq, R1|reflexivity].
  - destruct (N.eqb (role_of g _) 2) eqn:R2; [|contradiction]. destruct ins; [contradiction|].
    right. destruct H as [<-|[]]. split; [apply N.eqb_eq, R2|split; reflexivity]. Qed.

Lemma sec_owner_rel rev x y : y = snd (fst x) \/ y = snd x -> y = sec_owner rev x \/ y = sec_rel rev x.
Proof. unfold sec_owner, sec_rel. destruct rev; tauto. Qed.

Lemma pending_role g s : pending g s = true -> role_of g s = 1.
Proof. unfold pending. intros H. apply andb_true_iff in H. destruct H as [_ H]. apply N.eqb_eq, H. Qed.

Section Covered.
Variables (g : graph) (cy : list N).
Notation T := std_tables.
Hypothesis Hwf : wf g = true.
Hypothesis Hok : cyc_ok g cy = true.
Hypothesis Hm : managed g cy = true.
Hypothesis Hcons : consistent g = true.

Lemma ref1_survive s c t : In (s, c, t) (g_ref1 g) -> survives g s = true /\ survives g t = true.
Proof. intros H. pose proof Hcons as X. unfold consistent in X. repeat (apply andb_true_iff in X; destruct X as [X _]).
  rewrite forallb_forall in X. specialize (X _ H). simpl in X. apply andb_true_iff in X. exact X. Qed.
Lemma survives_role t : survives g t = true -> role_of g t <> 2.
Proof. unfold survives, role_of, st_of. destruct (find _ (g_sts g)) as [x|]; [|discriminate].
  destruct (s_key x); intros H E; rewrite E in H; discriminate. Qed.

Lemma wf_nd : NoDup (map d_id (g_deps g)).
Proof. pose proof Hwf as H. unfold wf in H. bands. apply nodupb_NoDup. assumption. Qed.
Lemma ok_shape : cyc_shape cy = true.
Proof. pose proof Hok as H. unfold cyc_ok in H. bands. assumption. Qed.
Lemma ok_follow : procs_follow g cy = true.
Proof. pose proof Hok as H. unfold cyc_ok in H. bands. assumption. Qed.
Lemma ok_pair m : In m (all_mappers g) -> incyc cy (DelAll m) = incyc cy (SaveAll m).
Proof. intros Hi. pose proof Hok as H. unfold cyc_ok in H. apply andb_true_iff in H. destruct H as [H _].
  apply andb_true_iff in H. destruct H as [_ H]. unfold paired in H. rewrite forallb_forall in H.
  specialize (H _ Hi). apply eqb_prop in H. symmetry. exact H. Qed.

Notation fpath := (fpath T g cy).
Let nd := wf_nd. Let sh := ok_shape. Let fo := ok_follow. Let pa := ok_pair.

Theorem needs_covered : forall e1 e2, In (e1, e2) (needs g) ->
  forall h1 h2, In h1 (homes g cy e1) -> In h2 (homes g cy e2) -> fpath h1 h2.
Proof.
  intros e1 e2 Hn h1 h2 H1 H2. pose proof Hm as Hm'. unfold managed in Hm'. apply andb_true_iff in Hm'. destruct Hm' as [Hm12 Hm3].
  apply andb_true_iff in Hm12. destruct Hm12 as [Hm1 Hm2]. rewrite forallb_forall in Hm1, Hm2, Hm3.
  unfold needs in Hn. repeat (apply in_app_or in Hn; destruct Hn as [Hn|Hn]).
  - (* references of the final state *)
    apply in_flat_map in Hn. destruct Hn as [[[s c] t] [Hx Hn]]. specialize (Hm1 _ Hx).
    unfold needs_ref1 in Hn. unfold mg_ref1 in Hm1. simpl fst in *; simpl snd in *.
    destruct (N.eqb (role_of g s) 1) eqn:Rs; [|contradiction]. apply N.eqb_eq in Rs.
    destruct (postcol g c) eqn:Pc.
    + assert (HP : home_post g s = PostAll (map_of g s) false) by (unfold home_post; rewrite Rs; reflexivity).
      apply in_app_or in Hn. destruct Hn as [Hn|Hn].
      * destruct (pending g s) eqn:Ps; [|contradiction]. destruct Hn as [Hn|[]]. inversion Hn; subst e1 e2. simpl in H1, H2.
        destruct H1 as [<-|[]], H2 as [<-|[]]. rewrite HP. simpl in Hm1.
        apply orb_true_iff in Hm1. destruct Hm1 as [Hc|Hc].
        -- apply andb_true_iff in Hc. destruct Hc as [Hc Rt]. apply N.eqb_eq in Rt.
           destruct (o2m_cov_spec _ _ _ _ _ Hc) as [d [A1 [A2 [A3 [A4 [A5 [A6 [A7 A8]]]]]]]].
           apply (cov_o2m_post g cy nd sh fo d s t s); auto.
        -- destruct (m2o_cov_spec _ _ _ _ _ Hc) as [d [A1 [A2 [A3 [A4 [A5 [A6 [A7 A8]]]]]]]].
           apply (cov_m2o_post_owner g cy nd sh fo d s t); auto. apply survives_role. apply (ref1_survive s c t Hx).
      * destruct (pending g t) eqn:Pt; [|contradiction]. destruct Hn as [Hn|[]]. inversion Hn; subst e1 e2. simpl in H1, H2.
        destruct H1 as [<-|[]], H2 as [<-|[]]. rewrite HP. rewrite orb_true_r in Hm1. pose proof (pending_role _ _ Pt) as Rt.
        apply orb_true_iff in Hm1. destruct Hm1 as [Hc|Hc].
        -- apply andb_true_iff in Hc. destruct Hc as [Hc _].
           destruct (o2m_cov_spec _ _ _ _ _ Hc) as [d [A1 [A2 [A3 [A4 [A5 [A6 [A7 A8]]]]]]]].
           apply (cov_o2m_post g cy nd sh fo d s t t); auto.
        -- destruct (m2o_cov_spec _ _ _ _ _ Hc) as [d [A1 [A2 [A3 [A4 [A5 [A6 [A7 A8]]]]]]]].
           apply (cov_m2o_post_rel g cy nd sh fo d s t); auto.
    + destruct (pending g t && negb (N.eqb s t)) eqn:Pt; [|contradiction]. destruct Hn as [Hn|[]]. inversion Hn; subst e1 e2.
      simpl in H1, H2. destruct H1 as [<-|[]], H2 as [<-|[]]. apply andb_true_iff in Pt. destruct Pt as [Pt _].
      pose proof (pending_role _ _ Pt) as Rt. apply orb_true_iff in Hm1. destruct Hm1 as [Hc|Hc].
      * destruct (o2m_cov_spec _ _ _ _ _ Hc) as [d [A1 [A2 [A3 [A4 [A5 [A6 [A7 A8]]]]]]]].
        apply (cov_o2m_ins g cy nd sh fo d s t); auto.
      * destruct (m2o_cov_spec _ _ _ _ _ Hc) as [d [A1 [A2 [A3 [A4 [A5 [A6 [A7 A8]]]]]]]].
        apply (cov_m2o_ins g cy nd sh fo d s t); auto.
  - (* references held before the flush to rows that are deleted *)
    apply in_flat_map in Hn. destruct Hn as [[[s c] t] [Hx Hn]]. specialize (Hm2 _ Hx).
    unfold needs_ref0 in Hn. unfold mg_ref0 in Hm2. simpl fst in *; simpl snd in *.
    destruct (N.eqb (role_of g t) 2 && negb (N.eqb s t)) eqn:Rt; [|contradiction].
    apply andb_true_iff in Rt. destruct Rt as [Rt _]. apply N.eqb_eq in Rt.
    destruct (postcol g c) eqn:Pc.
    + destruct Hn as [Hn|[]]. inversion Hn; subst e1 e2. simpl in H1, H2. destruct H1 as [<-|[]], H2 as [<-|[]].
      apply andb_true_iff in Hm2. destruct Hm2 as [Rs Hc]. apply N.eqb_eq in Rs.
      assert (HP : home_post g s = PostAll (map_of g s) true) by (unfold home_post; rewrite Rs; reflexivity). rewrite HP.
      apply orb_true_iff in Hc. destruct Hc as [Hc|Hc].
      * destruct (o2m_cov_spec _ _ _ _ _ Hc) as [d [A1 [A2 [A3 [A4 [A5 [A6 [A7 A8]]]]]]]].
        rewrite <- A7. rewrite <- (fin_del g cy t), <- A6.
        apply (cov_pre_del g cy sh d CPre PDels t); auto. simpl. auto.
      * destruct (m2o_cov_spec _ _ _ _ _ Hc) as [d [A1 [A2 [A3 [A4 [A5 [A6 [A7 A8]]]]]]]].
        rewrite <- A6. rewrite <- (fin_del g cy t), <- A7.
        apply (cov_pre_del g cy sh d PPre CDels t); auto. simpl. auto.
    + destruct (N.eqb (role_of g s) 2) eqn:Rs.
      * apply N.eqb_eq in Rs. destruct Hn as [Hn|[]]. inversion Hn; subst e1 e2. simpl in H1, H2. destruct H1 as [<-|[]], H2 as [<-|[]].
        apply orb_true_iff in Hm2. destruct Hm2 as [Hc|Hc].
        -- destruct (o2m_cov_spec _ _ _ _ _ Hc) as [d [A1 [A2 [A3 [A4 [A5 [A6 [A7 A8]]]]]]]].
           apply (cov_o2m_deldel g cy sh pa d s t); auto.
        -- destruct (m2o_cov_spec _ _ _ _ _ Hc) as [d [A1 [A2 [A3 [A4 [A5 [A6 [A7 A8]]]]]]]].
           apply (cov_m2o_deldel g cy sh pa d s t); auto.
      * destruct Hn as [Hn|[]]. inversion Hn; subst e1 e2. simpl in H1, H2. destruct H1 as [<-|[]], H2 as [<-|[]].
        apply andb_true_iff in Hm2. destruct Hm2 as [Rs1 Hc]. apply N.eqb_eq in Rs1.
        apply orb_true_iff in Hc. destruct Hc as [Hc|Hc].
        -- destruct (o2m_cov_spec _ _ _ _ _ Hc) as [d [A1 [A2 [A3 [A4 [A5 [A6 [A7 A8]]]]]]]].
           apply (cov_o2m_savedel g cy sh d s t); auto.
        -- destruct (m2o_cov_spec _ _ _ _ _ Hc) as [d [A1 [A2 [A3 [A4 [A5 [A6 [A7 A8]]]]]]]].
           apply (cov_m2o_savedel g cy sh pa d s t); auto.
  - (* the pre-update of a row before its own DELETE *)
    apply in_flat_map in Hn. destruct Hn as [s [Hx Hn]]. specialize (Hm3 _ Hx).
    unfold needs_postdel in Hn. unfold mg_postdel in Hm3.
    destruct (N.eqb (role_of g s) 2 && has_post g s) eqn:Rs; [|contradiction].
    apply andb_true_iff in Rs. destruct Rs as [Rs _]. apply N.eqb_eq in Rs.
    destruct Hn as [Hn|[]]. inversion Hn; subst e1 e2. simpl in H1, H2. destruct H1 as [<-|[]], H2 as [<-|[]].
    assert (HP : home_post g s = PostAll (map_of g s) true) by (unfold home_post; rewrite Rs; reflexivity). rewrite HP.
    apply existsb_exists in Hm3. destruct Hm3 as [d [Hd Hc]]. apply andb_true_iff in Hc. destruct Hc as [Hc Hk].
    apply andb_true_iff in Hc. destruct Hc as [Ha Hp]. rewrite <- (fin_del g cy s).
    apply orb_true_iff in Hk. destruct Hk as [Hk|Hk]; apply andb_true_iff in Hk; destruct Hk as [Hk Hmp]; apply N.eqb_eq in Hk, Hmp; rewrite <- Hmp.
    + apply (cov_pre_del g cy sh d CPre CDels s); auto. simpl. auto.
    + apply (cov_pre_del g cy sh d PPre PDels s); auto. simpl. auto.
  - (* secondary rows inserted *)
    apply in_flat_map in Hn. destruct Hn as [x [Hx Hn]]. unfold needs_secins in Hn.
    assert (Hy : exists y, (y = snd (fst x) \/ y = snd x) /\ pending g y = true /\ e1 = ESave y /\ e2 = ESecIns x).
    { apply in_app_or in Hn. destruct Hn as [Hn|Hn].
      - destruct (pending g (snd (fst x))) eqn:P; [|contradiction]. destruct Hn as [Hn|[]]. inversion Hn. eauto 10.
      - destruct (pending g (snd x)) eqn:P; [|contradiction]. destruct Hn as [Hn|[]]. inversion Hn. eauto 10. }
    destruct Hy as [y [Hy [Py [-> ->]]]]. simpl in H1, H2. destruct H1 as [<-|[]].
    destruct (sec_homes_spec _ _ _ _ _ H2) as [d [A1 [A2 [A3 [A4 [A5 [A6 A7]]]]]]].
    destruct A7 as [[Ro ->]|[_ [E _]]]; [|discriminate].
    apply (cov_m2m_ins g cy nd sh fo d _ (sec_rel (d_rev d) x)); auto.
    destruct (sec_owner_rel (d_rev d) x y Hy) as [->| ->]; [left; reflexivity|right; split; [reflexivity|apply pending_role, Py]].
  - (* secondary rows deleted *)
    apply in_flat_map in Hn. destruct Hn as [x [Hx Hn]]. unfold needs_secdel in Hn.
    assert (Hy : exists y, (y = snd (fst x) \/ y = snd x) /\ role_of g y = 2 /\ e1 = ESecDel x /\ e2 = EDel y).
    { apply in_app_or in Hn. destruct Hn as [Hn|Hn].
      - destruct (N.eqb (role_of g (snd (fst x))) 2) eqn:P; [|contradiction]. destruct Hn as [Hn|[]]. inversion Hn. apply N.eqb_eq in P. eauto 10.
      - destruct (N.eqb (role_of g (snd x)) 2) eqn:P; [|contradiction]. destruct Hn as [Hn|[]]. inversion Hn. apply N.eqb_eq in P. eauto 10. }
    destruct Hy as [y [Hy [Ry [-> ->]]]]. simpl in H1, H2. destruct H2 as [<-|[]].
    destruct (sec_homes_spec _ _ _ _ _ H1) as [d [A1 [A2 [A3 [A4 [A5 [A6 A7]]]]]]].
    destruct (sec_owner_rel (d_rev d) x y Hy) as [Ey|Ey]; destruct A7 as [[Ro ->]|[Ro [_ ->]]].
    + exfalso. rewrite <- Ey in Ro. congruence.
    + rewrite Ey. apply (cov_m2m_del g cy nd sh fo pa d _ (sec_rel (d_rev d) x)); auto.
    + rewrite Ey. apply (cov_m2m_save_delrel g cy nd sh fo pa d); auto. rewrite <- Ey. exact Ry.
    + rewrite Ey. apply (cov_m2m_del g cy nd sh fo pa d _ (sec_rel (d_rev d) x)); auto. right. split; [reflexivity|rewrite <- Ey; exact Ry].
Qed.
End Covered.
