(* executable entry point for the correspondence check of C51.

   L [I 0; L entries]                       instance state before pickling, entries L [I keycode; sval]
        sval = L [I 0; I z] (plain value by canonical code) | L [I 1; L [L [I kind; I id] ..]] (load path;
        kind 0 mapper, 1 aliased class, 2 property)
        -> L [sval of getattr(state', key) for every key code 0..16]  |  L [I (-1)] (exception)
   L [I 1; L path]                          -> L [I 1; L path'] | L [I 0]       PathRegistry round trip
   L [I 2; L keys; L keymap; L data; L lookups]   keymap entries L [I kind; I z; I index] (kind 0 str, 1 int, 2 object)
        -> L [L keys'; L data'; L [row'._mapping[k] for the lookups: L [] = error, L [I v]]]
   L [I 3; L keys; I scalars; L rows; L keymap; L lookups]  a frozen result and the keymap of its metadata
        -> L [L keys'; I scalars'; L rows'; L [index each lookup key resolves to afterwards: L [] = KeyError]]
   L [I 4; L tables; L classes; L leaves]   tables L [tkey; L ckeys]; classes L [I cls; b64 string; L prop keys]
        leaves L [I 0; t] | L [I 1; t; c] | L [I 2; I cls] | L [I 3; I cls; k] | L [I 4; I cls]
        -> L [L persistent ids; I result]   result 0 ok (and equal), 1 no match, 2 ValueError, 3 KeyError *)
From Coq Require Import List ZArith Bool String.
Import ListNotations.
From SAV.base Require Import Tree.
From SAV.orm Require Import Pickle.
Open Scope Z_scope.

Definition key_names : list string :=
  ["instance"; "class_"; "committed_state"; "expired_attributes"; "_pending_mutations"; "modified"; "expired";
   "callables"; "key"; "parents"; "load_options"; "info"; "load_path"; "manager"; "session_id";
   "identity_token"; "insert_order"]%string.

Definition as_pelem (t : tree) : option pelem :=
  match t with
  | L [I 0; I c] => Some (PMapper c)
  | L [I 1; I c] => Some (PAlias c)
  | L [I 2; I k] => Some (PProp k)
  | _ => None
  end.
Definition of_pelem (e : pelem) : tree :=
  match e with PMapper c => L [I 0; I c] | PAlias c => L [I 1; I c] | PProp k => L [I 2; I k] end.
Definition as_sval (t : tree) : option sval :=
  match t with
  | L [I 0; I z] => Some (Opaque z)
  | L [I 1; p] => match as_list_of as_pelem p with Some l => Some (VPath l) | None => None end
  | _ => None
  end.
Definition of_sval (v : sval) : tree :=
  match v with
  | Opaque z => L [I 0; I z]
  | VPath p => L [I 1; L (map of_pelem p)]
  | VSer sp => L [I 2]
  end.
Definition as_entry (t : tree) : option (key * sval) :=
  match t with
  | L [I c; v] => match nth_error key_names (Z.to_nat c), as_sval v with
                  | Some k, Some x => if 0 <=? c then Some (k, x) else None
                  | _, _ => None
                  end
  | _ => None
  end.

Definition as_str (t : tree) : option str := as_list_of as_Z t.
Definition of_str (s : str) : tree := L (map I s).

Definition as_rkey (kind z : Z) : rkey := if kind =? 0 then KStr z else if kind =? 1 then KInt z else KObj z.
Definition as_kment (t : tree) : option (rkey * nat) :=
  match t with L [I kind; I z; I i] => Some (as_rkey kind z, Z.to_nat i) | _ => None end.
Definition as_lkey (t : tree) : option rkey :=
  match t with L [I kind; I z] => Some (as_rkey kind z) | _ => None end.


Definition as_leaf (t : tree) : option leaf :=
  match t with
  | L [I 0; a] => match as_str a with Some x => Some (LTable x) | None => None end
  | L [I 1; a; b] => match as_str a, as_str b with Some x, Some y => Some (LColumn x y) | _, _ => None end
  | L [I 2; I c] => Some (LMapper c)
  | L [I 3; I c; k] => match as_str k with Some y => Some (LProp c y) | None => None end
  | L [I 4; I c] => Some (LSelectable c)
  | _ => None
  end.
Definition as_table (t : tree) : option (str * list str) := as_pair_of as_str (as_list_of as_str) t.
Definition as_class (t : tree) : option (Z * str * list str) :=
  match t with
  | L [I c; b; ps] => match as_str b, as_list_of as_str ps with Some x, Some y => Some (c, x, y) | _, _ => None end
  | _ => None
  end.
Fixpoint b64_of (cl : list (Z * str * list str)) (c : Z) : str :=
  match cl with [] => [] | (c', b, _) :: r => if c =? c' then b else b64_of r c end.
Fixpoint unb64_of (cl : list (Z * str * list str)) (s : str) : option Z :=
  match cl with [] => None | (c', b, _) :: r => if str_eqb s b then Some c' else unb64_of r s end.
Fixpoint props_of (cl : list (Z * str * list str)) (c : Z) : list str :=
  match cl with [] => [] | (c', _, ps) :: r => if c =? c' then ps else props_of r c end.
Fixpoint ids_of (d : dumped) : list str :=
  match d with DId s => [s] | DNode _ ch => flat_map ids_of ch end.

Definition run_case (t : tree) : tree :=
  match t with
  | L [I 0; L ents] =>
      match all_some (map as_entry ents) with
      | Some s =>
          match setstate model_reads (getstate model_writes s) with
          | Some s' => L (map (fun k => of_sval (getattr s' k)) key_names)
          | None => L [I (-1)]
          end
      | None => bad_input
      end
  | L [I 1; p] =>
      match as_list_of as_pelem p with
      | Some l => match deserialize (serialize l) with
                  | Some l' => L [I 1; L (map of_pelem l')]
                  | None => L [I 0]
                  end
      | None => bad_input
      end
  | L [I 2; keys; km; data; lk] =>
      match as_list_of as_Z keys, as_list_of as_kment km, as_list_of as_Z data, as_list_of as_lkey lk with
      | Some ks, Some kmap, Some dt, Some lks =>
          let r := row_roundtrip (mkRow (mkMd ks kmap) dt) in
          L [L (map I (md_keys (row_md r))); L (map I (row_data r));
             L (map (fun k => match row_get r k with Some v => L [I v] | None => L [] end) lks)]
      | _, _, _, _ => bad_input
      end
  | L [I 3; keys; I sc; rows; km; lk] =>
      match as_list_of as_Z keys, as_list_of (as_list_of as_Z) rows, as_list_of as_kment km, as_list_of as_lkey lk with
      | Some ks, Some rs, Some kmap, Some lks =>
          let f := frozen_roundtrip (mkFrozen (mkMd ks kmap) (sc =? 1) rs) in
          L [L (map I (fst (thaw f))); of_bool (fr_scalars f); L (map (fun r => L (map I r)) (snd (thaw f)));
             L (map (fun k => match frozen_index f k with Some i => L [of_nat i] | None => L [] end) lks)]
      | _, _, _, _ => bad_input
      end
  | L [I 4; tbs; cls; lvs] =>
      match as_list_of as_table tbs, as_list_of as_class cls, as_list_of as_leaf lvs with
      | Some tl, Some cl, Some ll =>
          let d := dumps (b64_of cl) (SNode 0 (map SLeaf ll)) in
          L [L (map of_str (ids_of d));
             I (match loads (unb64_of cl) tl (props_of cl) d with
                | LOk s => if tree_eqb (L (map of_str (ids_of (dumps (b64_of cl) s)))) (L (map of_str (ids_of d))) then 0 else 9
                | LErr ENoMatch => 1
                | LErr EUnpack => 2
                | LErr EKey => 3
                end)]
      | _, _, _ => bad_input
      end
  | _ => bad_input
  end.
