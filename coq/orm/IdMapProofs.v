(* C34 - every operation keeps the identity map functional and keyed *)
From Coq Require Import List ZArith Bool Arith Lia.
Import ListNotations.
From SAV.orm Require Import IdMap IdMapSpec IdMapLemmas.
Open Scope Z_scope.

Ltac ocase :=
  intros;
  repeat match goal with o : obj |- _ => destruct o as [? [?|] ? [] [] [] [] [] [] [] ?] end;
  simpl in *; repeat split; intros; try reflexivity; try discriminate; auto; try congruence.
(* the same, also splitting on the key-switch record *)
Ltac ocase2 :=
  intros;
  repeat match goal with o : obj |- _ => destruct o as [? [?|] ? [] [] [] [] [] [] [] [?|]] end;
  simpl in *; repeat split; intros; try reflexivity; try discriminate; auto; try congruence.

Definition mono (g : obj -> obj) : Prop :=
  forall o, jb o = true -> jb (g o) = true /\ (iimap (g o) = true -> iimap o = true /\ okey (g o) = okey o).

Lemma pass_mono_all : forall g st, mono g -> Inv st -> Inv (app_all (fun _ => g) st).
Proof. intros g st Hg. apply pass_mono. intros k o _. apply Hg. Qed.
Lemma pass_mono_only : forall i g st, mono g -> Inv st -> Inv (app_all (only i g) st).
Proof. intros i g st Hg. apply pass_mono. intros k o _ Hj. unfold only. destruct (Nat.eqb k i); [apply Hg; auto|].
  split; auto. Qed.
Lemma pass_mono_cond : forall (c : nat -> bool) g st, mono g -> Inv st -> Inv (app_all (fun i o => if c i then g o else o) st).
Proof. intros c g st Hg. apply pass_mono. intros k o _ Hj. destruct (c k); [apply Hg; auto|]. split; auto. Qed.

Lemma mono_expunge : forall h t, mono (expunge_obj h t).
Proof. intros [] []; unfold mono; ocase. Qed.
Lemma mono_restore_expunge : forall h, mono (restore_expunge_obj h).
Proof. intros []; unfold mono; ocase. Qed.
Lemma mono_newly_deleted : forall h, mono (newly_deleted_obj h).
Proof. intros []; unfold mono; ocase. Qed.
Lemma mono_expire : mono expire_obj.
Proof. unfold mono; ocase. Qed.
Lemma mono_expire_if : mono (fun o => if iimap o then expire_obj o else o).
Proof. unfold mono; ocase. Qed.
Lemma mono_end_tx : mono end_tx_obj.
Proof. unfold mono; ocase. Qed.
Lemma mono_set_pk : forall v, mono (set_pk v).
Proof. unfold mono; ocase. Qed.
Lemma mono_commit : mono (fun o => let o1 := if iimap o then expire_obj o else o in if itdel o1 then detach_obj false o1 else o1).
Proof. unfold mono; ocase. Qed.

(* ---- add / delete ------------------------------------------------------------------------------- *)
Lemma save_impl_inv : forall i st, Inv st -> Inv (fst (save_impl i st)).
Proof.
  intros i st HI. unfold save_impl. destruct (okey (get st i)) eqn:E; simpl; auto.
  apply pass_mono; [|apply autobegin_inv; auto].
  intros k o Hk Hj. unfold only. destruct (Nat.eqb_spec k i); [subst|split; auto].
  assert (Ko : okey o = None).
  { rewrite <- (get_nth _ _ _ Hk). unfold get, autobegin. destruct (tx st); exact E. }
  revert Hj Ko. ocase.
Qed.

Lemma autobegin_get : forall st i, get (autobegin st) i = get st i.
Proof. intros. unfold get, autobegin. destruct (tx st); reflexivity. Qed.

Lemma update_impl_inv : forall i st, Inv st -> Inv (fst (update_impl i st)).
Proof.
  intros i st HI. unfold update_impl. destruct (okey (get st i)) as [k|] eqn:E; simpl; auto.
  destruct (odel (get st i)); simpl; auto.
  destruct (conflict i (autobegin st)) eqn:Ec; simpl; [apply autobegin_inv; auto|].
  eapply pass_add; [rewrite autobegin_get; exact E|exact Ec| |apply autobegin_inv; auto].
  ocase.
Qed.

Lemma delete_impl_inv : forall i st, Inv st -> Inv (fst (delete_impl i st)).
Proof.
  intros i st HI. unfold delete_impl. destruct (okey (get st i)) as [k|] eqn:E; simpl; auto.
  destruct (isdel (get st i)); simpl; [apply autobegin_inv; auto|].
  destruct (conflict i (autobegin st)) eqn:Ec; simpl; [apply autobegin_inv; auto|].
  apply Inv_flag_bad. eapply pass_add; [rewrite autobegin_get; exact E|exact Ec| |apply autobegin_inv; auto].
  ocase.
Qed.

Lemma revert_impl_inv : forall i st, Inv st -> Inv (fst (revert_impl i st)).
Proof.
  intros i st HI. unfold revert_impl. destruct (okey (get st i)) as [k|] eqn:E; simpl; auto.
  destruct (odel (get st i) && negb (osess (get st i))); simpl; auto.
  apply Inv_flag_bad. apply pass_claiming; auto. intros o Hk Hj.
  assert (Ko : okey o = Some k) by (rewrite <- (get_nth _ _ _ Hk); exact E).
  revert Hj Ko. ocase.
Qed.

(* ---- restore ---------------------------------------------------------------------------------------- *)
Lemma fold_err_inv : forall (P : state -> Prop) f l st,
  (forall i s, P s -> P (fst (f i s))) -> P st -> P (fst (fold_err f l st)).
Proof.
  induction l as [|i r IH]; intros st Hf HP; simpl; auto.
  pose proof (Hf i st HP) as H1. destruct (f i st) as [st' e]. simpl in H1.
  destruct (Z.eqb e 0); simpl; auto.
Qed.
Lemma fold_left_inv : forall (P : state -> Prop) (f : state -> nat -> state) l st,
  (forall i s, P s -> P (f s i)) -> P st -> P (fold_left f l st).
Proof. induction l; intros; simpl; auto. Qed.

Definition noinew (st : state) : Prop := SP (fun _ o => negb (inew o)) st.

Lemma unswitch_one_inv : forall i st, Inv st /\ noinew st -> Inv (unswitch_one i st) /\ noinew (unswitch_one i st).
Proof.
  intros i st [HI HN]. unfold unswitch_one. destruct (oksw (get st i)) as [old|]; auto.
  destruct (itnew (get st i)); [split; auto|].
  split.
    + apply Inv_flag_bad. apply Inv_flag_bad. apply pass_claiming; auto. intros o Hk Hj. pose proof (HN i o Hk) as Hn. simpl in Hn. revert Hj Hn. ocase.
    + intros k o' Hk. simpl in Hk. apply app_all_inv_nth in Hk as [o [Hk ->]]. unfold claiming.
      pose proof (HN k o Hk) as Hn. simpl in Hn. destruct (Nat.eqb k i); auto.
      destruct (iimap o && okey_eqb (okey o) (Some old)); auto.
Qed.

Lemma restore_pass1_noinew : forall h st, noinew (app_all (fun _ => restore_expunge_obj h) st).
Proof. intros h st k o' Hk. apply app_all_inv_nth in Hk as [o [Hk ->]]. destruct h; ocase. Qed.

Lemma restore_snapshot_inv : forall st, Inv st -> Inv (fst (restore_snapshot st)).
Proof.
  intros st HI. unfold restore_snapshot.
  set (st1 := app_all (fun _ => restore_expunge_obj (has_tx st)) st).
  assert (H1 : Inv st1 /\ noinew st1).
  { split; [apply pass_mono_all; auto; apply mono_restore_expunge|apply restore_pass1_noinew]. }
  set (st2 := fold_left (fun st i => unswitch_one i st) (all_idx st1) st1).
  assert (H2 : Inv st2 /\ noinew st2).
  { apply (fold_left_inv (fun s => Inv s /\ noinew s)); auto. intros i s Hs. apply unswitch_one_inv; auto. }
  destruct H2 as [H2 _].
  pose proof (fold_err_inv Inv (fun i st => if itdel (get st i) || isdel (get st i) then revert_impl i st else (st, 0))
                (all_idx st2) st2) as H3.
  destruct (fold_err _ (all_idx st2) st2) as [st3 c]. simpl in H3.
  assert (H3' : Inv st3).
  { apply H3; auto. intros i s Hs. destruct (itdel (get s i) || isdel (get s i)); auto. apply revert_impl_inv; auto. }
  destruct (Z.eqb c 0); simpl; auto.
  apply pass_mono_all; auto. apply mono_expire_if.
Qed.

Lemma end_tx_inv : forall st, Inv st -> Inv (end_tx st).
Proof. intros. unfold end_tx. apply Inv_set_tx. apply pass_mono_all; auto. apply mono_end_tx. Qed.

(* ---- flush --------------------------------------------------------------------------------------------- *)
Definition fres_state (r : fres) : state := match r with FOk s _ => s | FFail s _ => s end.

Lemma organize_one_inv : forall e d rws st p, Inv st -> Inv (fres_state (fst (organize_one e d rws st p))).
Proof.
  intros. unfold organize_one. destruct (holder _ st); simpl; auto.
  destruct (eexp e n && eidexp e n && negb (osess (get st n))); simpl; auto.
  destruct (eexp e n && negb (memz (pk (get st p)) rws)); simpl; auto.
  apply Inv_flag_bad. apply pass_mono_only; auto. apply mono_newly_deleted.
Qed.

Lemma organize_inv : forall e d rws ps st, Inv st -> Inv (fres_state (fst (organize e d rws st ps))).
Proof.
  induction ps as [|p r IH]; intros st HI; simpl; auto.
  destruct (inew (get st p)); auto.
  pose proof (organize_one_inv e d rws st p HI) as H1.
  destruct (organize_one e d rws st p) as [[st1 rw1|st1 c] rs]; simpl in *; auto.
  specialize (IH st1 H1). destruct (organize e d rws st1 r) as [res rsw]. simpl in *. auto.
Qed.

Lemma register_one_inv : forall st i, Inv st -> Inv (register_one st i).
Proof.
  intros st i HI. unfold register_one. apply Inv_flag_bad. apply pass_claiming; auto.
  intros o Hk Hj. unfold register_obj.
  destruct (okey o) as [k|] eqn:Ek.
  - destruct (key_eqb k (pk (get st i), otok (get st i))) eqn:Ee.
    + apply key_eqb_eq in Ee. subst k. revert Hj Ek. destruct (has_tx st); ocase2.
    + revert Hj Ek. destruct (has_tx st); ocase2.
  - revert Hj Ek. destruct (has_tx st); ocase2.
Qed.

Lemma finalize_inv : forall st0 reg st, Inv st -> Inv (finalize st0 reg st).
Proof.
  intros st0 reg st HI. unfold finalize. apply fold_left_inv.
  - intros i s Hs. destruct (reg i); auto. apply register_one_inv; auto.
  - apply (pass_mono_cond (fun i => isdel (get st0 i))); auto. apply mono_newly_deleted.
Qed.

Lemma flush_inv : forall e st, Inv st -> Inv (fst (fst (flush e st))).
Proof.
  intros e st HI. unfold flush. destruct (is_clean e st); simpl; auto.
  pose proof (autobegin_inv st HI) as H0.
  destruct (is_deact (autobegin st)); simpl; auto.
  set (st0 := set_flushed true (autobegin st)).
  assert (H0' : Inv st0) by (apply Inv_set_flushed; auto).
  set (st0' := app_all (fun i o => if is_dirty e st0 i && negb (ehasid e i) then expire_obj o else o) st0).
  assert (H1 : Inv st0').
  { apply (pass_mono_cond (fun i => is_dirty e st0 i && negb (ehasid e i))); auto. apply mono_expire. }
  pose proof (organize_inv e (fun d => isdel (get st0' d)) (rows e) (all_idx st0') st0' H1) as H2.
  destruct (organize e _ (rows e) st0' (all_idx st0')) as [[st1 rw|st1 c] rsw]; simpl in H2.
  - destruct (flush_db e st0' _ rsw (rows e)).
    + pose proof (restore_snapshot_inv (set_tx (Some true) st1)) as H3.
      destruct (restore_snapshot (set_tx (Some true) st1)). simpl in *. apply H3. apply Inv_set_tx; auto.
    + simpl. apply finalize_inv; auto.
  - pose proof (restore_snapshot_inv (set_tx (Some true) st1)) as H3.
    destruct (restore_snapshot (set_tx (Some true) st1)). simpl in *. apply H3. apply Inv_set_tx; auto.
Qed.

(* ---- loads ------------------------------------------------------------------------------------------------ *)
Lemma load_row_inv : forall k st, Inv st -> Inv (fst (load_row k st)).
Proof.
  intros k st HI. unfold load_row. destruct (holder k st) eqn:Eh; simpl; auto.
  apply add_obj_inv; auto. simpl. intros _ k' Hk' j. inversion Hk'; subst. destruct k'. simpl in *.
  eapply holder_none; eauto.
Qed.
Lemma load_rows_inv : forall tok pks st, Inv st -> Inv (fst (load_rows tok pks st)).
Proof.
  induction pks as [|k r IH]; intros st HI; simpl; auto.
  pose proof (load_row_inv (k, tok) st HI) as H1. destruct (load_row (k, tok) st) as [st1 h]. simpl in H1.
  specialize (IH st1 H1). destruct (load_rows tok r st1). simpl in *. auto.
Qed.

Lemma sql_inv : forall e st, Inv st -> Inv (fst (fst (sql e st))).
Proof.
  intros e st HI. unfold sql. pose proof (flush_inv e st HI) as H1.
  destruct (flush e st) as [[st1 c] rws]. simpl in H1. destruct (Z.eqb c 0); simpl; auto.
  pose proof (autobegin_inv st1 H1). destruct (is_deact (autobegin st1)); simpl; auto.
Qed.

Lemma do_query_inv : forall e tok st, Inv st -> Inv (rst (do_query e tok st)).
Proof.
  intros e tok st HI. unfold do_query. pose proof (sql_inv e st HI) as H1.
  destruct (sql e st) as [[st1 c] rws]. simpl in H1. destruct (Z.eqb c 0); simpl; auto.
  pose proof (load_rows_inv tok (sort_z rws) st1 H1). destruct (load_rows tok (sort_z rws) st1). simpl in *. auto.
Qed.

Lemma get_miss_inv : forall e k st, Inv st -> Inv (rst (get_miss e k st)).
Proof.
  intros e k st HI. unfold get_miss. pose proof (sql_inv e st HI) as H1.
  destruct (sql e st) as [[st1 c] rws]. simpl in H1. destruct (Z.eqb c 0); simpl; auto.
  destruct (memz (fst k) rws); simpl; auto.
  pose proof (load_row_inv k st1 H1). destruct (load_row k st1). simpl in *. auto.
Qed.

Lemma do_get_inv : forall e k st, Inv st -> Inv (rst (do_get e k st)).
Proof.
  intros e k st HI. unfold do_get. destruct (holder k st) as [h|]; [|apply get_miss_inv; auto].
  destruct (negb (eexp e h)); simpl; auto. destruct (negb (eidexp e h)); simpl; auto.
  destruct (negb (osess (get st h))); simpl; auto.
  pose proof (sql_inv e st HI) as H1. destruct (sql e st) as [[st1 c] rws]. simpl in H1.
  assert (Hg : Inv (rst (get_miss (with_rows e rws) k (flag_bad true (app_all (only h (newly_deleted_obj (has_tx st1))) st1))))).
  { apply get_miss_inv. apply Inv_flag_bad. apply pass_mono_only; auto. apply mono_newly_deleted. }
  destruct (Z.eqb c 5); auto. destruct (Z.eqb c 0); simpl; auto.
  destruct (negb (memz (key_pk (get st1 h)) rws)); simpl; auto.
  destruct (odel (get st1 h)); simpl; auto.
  destruct (holder k st1); simpl; auto. apply get_miss_inv; auto.
Qed.

Lemma do_refresh_inv : forall e i st, Inv st -> Inv (rst (do_refresh e i st)).
Proof.
  intros e i st HI. unfold do_refresh. destruct (negb (iimap (get st i))); simpl; auto.
  assert (H0 : Inv (app_all (only i expire_obj) st)) by (apply pass_mono_only; auto; apply mono_expire).
  pose proof (flush_inv (refresh_env e i) _ H0) as H1.
  destruct (flush (refresh_env e i) (app_all (only i expire_obj) st)) as [[st1 c] rws]. simpl in H1.
  destruct (Z.eqb c 0); simpl; auto.
  pose proof (autobegin_inv st1 H1). destruct (is_deact (autobegin st1)); simpl; auto.
  destruct (okey (get (autobegin st1) i)); simpl; auto. destruct (memz (fst k) rws); simpl; auto.
Qed.

Lemma do_merge_inv : forall e i st, Inv st -> Inv (rst (do_merge e i st)).
Proof.
  intros e i st HI. unfold do_merge. pose proof (flush_inv e st HI) as H1.
  destruct (flush e st) as [[st1 c] rws]. simpl in H1. destruct (Z.eqb c 0); simpl; auto.
  set (k := match okey (get st1 i) with Some k => k | None => (pk (get st1 i), otok (get st1 i)) end).
  destruct (holder k st1) as [m|].
  - destruct (Nat.eqb m i || negb (ehasid e i)); simpl; auto.
    assert (Hp : forall s, Inv s -> Inv (app_all (only m (set_pk (pk (get st1 i)))) s)).
    { intros. apply pass_mono_only; auto. apply mono_set_pk. }
    destruct (eidexp e m && _); simpl; auto.
    destruct (negb (osess (get st1 m))); simpl; auto.
    pose proof (autobegin_inv st1 H1). destruct (is_deact (autobegin st1)); simpl; auto.
    destruct (negb (memz (key_pk (get (autobegin st1) m)) rws)); simpl; auto.
  - pose proof (autobegin_inv st1 H1) as HA. destruct (is_deact (autobegin st1)); simpl; auto.
    destruct (memz (fst k) rws).
    + pose proof (load_row_inv k _ HA) as HL. destruct (load_row k (autobegin st1)) as [st2 m]. simpl in *.
      destruct (ehasid e i); auto. apply pass_mono_only; auto. apply mono_set_pk.
    + assert (H2 : Inv (add_obj (new_obj (pk (get st1 i))) (autobegin st1))).
      { apply add_obj_inv; auto. simpl. intros. discriminate. }
      pose proof (save_impl_inv (length (objs (autobegin st1))) _ H2) as HS.
      destruct (save_impl _ _). simpl in *. exact HS.
Qed.

Lemma do_commit_inv : forall e st, Inv st -> Inv (rst (do_commit e st)).
Proof.
  intros e st HI. unfold do_commit. pose proof (autobegin_inv st HI) as H0.
  destruct (is_deact (autobegin st)); simpl; auto.
  pose proof (flush_inv e _ H0) as H1. destruct (flush e (autobegin st)) as [[st1 c] rws]. simpl in H1.
  destruct (Z.eqb c 0); simpl; auto. apply end_tx_inv.
  destruct (eoc st1); auto. apply pass_mono_all; auto. apply mono_commit.
Qed.

Lemma do_rollback_inv : forall e st, Inv st -> Inv (rst (do_rollback e st)).
Proof.
  intros e st HI. unfold do_rollback. destruct (tx st) as [[]|]; simpl; auto.
  - destruct (is_clean e st); simpl; [apply end_tx_inv; auto|].
    pose proof (restore_snapshot_inv st HI). destruct (restore_snapshot st) as [s c]. simpl in *.
    destruct (Z.eqb c 0); simpl; auto. apply end_tx_inv; auto.
  - pose proof (restore_snapshot_inv (set_tx (Some true) st)) as H. destruct (restore_snapshot _) as [s c]. simpl in *.
    assert (Inv s) by (apply H; apply Inv_set_tx; auto).
    destruct (Z.eqb c 0); simpl; auto. apply end_tx_inv; auto.
Qed.

Lemma step_inv : forall e o st, Inv st -> Inv (rst (step e o st)).
Proof.
  intros e o st HI0. assert (HI : Inv (set_flushed false st)) by (apply Inv_set_flushed; auto).
  unfold step. destruct o; simpl.
  - apply do_query_inv; auto.
  - apply do_get_inv; auto.
  - apply do_refresh_inv; auto.
  - apply do_merge_inv; auto.
  - destruct (negb (osess (get (set_flushed false st) i))); simpl; auto.
    apply pass_mono_only; auto. apply mono_expunge.
  - destruct (okey (get (set_flushed false st) i)); [apply update_impl_inv|apply save_impl_inv]; auto.
  - destruct (_ && _); simpl; auto. apply pass_mono_only; auto. apply mono_set_pk.
  - pose proof (flush_inv e _ HI). destruct (flush e (set_flushed false st)) as [[s c] r]. auto.
  - apply do_commit_inv; auto.
  - apply do_rollback_inv; auto.
  - apply delete_impl_inv; auto.
  - auto.
Qed.

Lemma init_inv : forall b pks, Inv (init b pks).
Proof.
  intros. split.
  - intros k o Hk. simpl in Hk. rewrite nth_error_map in Hk. destruct (nth_error pks k); [|discriminate].
    inversion Hk. reflexivity.
  - intros k i j [o [Hk [Hi _]]]. simpl in Hk. rewrite nth_error_map in Hk. destruct (nth_error pks i); [|discriminate].
    inversion Hk; subst. discriminate.
Qed.

Lemma run_inv : forall h st, Inv st -> Inv (run h st).
Proof.
  induction h as [|[e o] r IH]; intros st HI; simpl; auto.
  destruct (stop e st); auto. pose proof (step_inv e o st HI) as HS.
  destruct o; auto. destruct (negb (Z.eqb (rerr (step e Rollback st)) 0)); auto.
Qed.

(* the identity map of every reachable state is a partial function, and what it maps has that key *)
Theorem reachable_functional : forall b pks h, functional (run h (init b pks)).
Proof. intros. apply (run_inv h (init b pks) (init_inv b pks)). Qed.
Theorem reachable_keyed : forall b pks h k o,
  nth_error (objs (run h (init b pks))) k = Some o ->
  (iimap o = true -> okey o <> None) /\ (inew o = true -> okey o = None).
Proof.
  intros b pks h k o Hk. destruct (run_inv h (init b pks) (init_inv b pks)) as [HJ _].
  specialize (HJ k o Hk). simpl in HJ. revert HJ. ocase.
Qed.
