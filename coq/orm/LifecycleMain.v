(* C35 - commit, rollback, merge; every guarded history keeps the invariant *)
From Coq Require Import List ZArith Bool Arith Lia.
Import ListNotations.
From SAV.orm Require Import Lifecycle LifecycleSpec LifecycleLemmas LifecycleInv LifecycleRestore LifecycleFlush.
Open Scope Z_scope.

(* ---- the transaction status after a flush that did not raise --------------------------------------- *)
Lemma organize_one_tx : forall e d st p, tx (fst (organize_one e d st p)) = tx st.
Proof. intros. unfold organize_one. destruct (holder (pk (get st p)) st); auto.
  destruct (eexp e n && negb (memz (pk (get st p)) (rows e))); auto. simpl. apply app_all_tx. Qed.
Lemma organize_tx : forall e d ps st, tx (fst (organize e d st ps)) = tx st.
Proof. induction ps; intros; auto. rewrite organize_fst. destruct (inew (get st a)); auto.
  rewrite IHps. apply organize_one_tx. Qed.
Lemma register_fold_tx : forall (n0 : nat -> bool) l st,
  tx (fold_left (fun st i => if n0 i then register_one st i else st) l st) = tx st.
Proof. induction l; intros; simpl; auto. rewrite IHl. destruct (n0 a); auto. unfold register_one. apply app_all_tx. Qed.
Lemma finalize_tx : forall st0 st, tx (finalize st0 st) = tx st.
Proof. intros. unfold finalize. rewrite register_fold_tx. apply app_all_tx. Qed.
Lemma flush_db_fail : forall e st0 rsw c, flush_db e st0 rsw = DbFail c -> c <> 0.
Proof. intros e st0 rsw c. unfold flush_db. destruct (do_inserts _ _ _ _); [|intro H; inversion H; lia].
  destruct (do_deletes _ _ _ _ _); intro H; inversion H; lia. Qed.

Lemma flush_code0_deact : forall e st, snd (fst (flush e st)) = 0 ->
  is_deact (fst (fst (flush e st))) = is_deact st.
Proof.
  intros e st. unfold flush. destruct (is_clean st (emod e)); auto.
  destruct (is_deact (autobegin st)) eqn:Ed; [simpl; intro; discriminate|].
  destruct (organize e _ (autobegin st) _) as [st1 rsw] eqn:Eo.
  destruct (flush_db e (autobegin st) rsw) eqn:Ef.
  - simpl. intros _. unfold is_deact at 1. rewrite finalize_tx.
    replace st1 with (fst (organize e (fun d => isdel (get (autobegin st) d)) (autobegin st) (all_idx (autobegin st))))
      by (rewrite Eo; reflexivity).
    rewrite organize_tx. fold (is_deact (autobegin st)). rewrite Ed. rewrite autobegin_deact in Ed. auto.
  - apply flush_db_fail in Ef. destruct (restore_snapshot _) as [s2 c2]. simpl.
    destruct (Z.eqb_spec c2 0); intro; congruence.
Qed.

(* ---- commit ------------------------------------------------------------------------------------------- *)
Lemma end_tx_inv_any : forall t st, SP (fun _ => objinvb t) st -> wf (slog st) -> Inv (end_tx st).
Proof.
  intros t st H1 H2. unfold end_tx.
  destruct (pass_spec (fun _ => objinvb t) (fun _ => objinvb None) (fun _ => end_tx_obj) st H1) as [A B].
  { intros k o Hp. split; [|reflexivity]. eapply end_tx_obj_ok; eauto. }
  split; simpl; [apply SP_set_tx; exact A|auto].
Qed.

Lemma commit_detach_ok : forall o, objinvb (Some false) o = true ->
  objinvb (Some true) (fst (commit_detach_obj o)) = true /\ wfob (snd (commit_detach_obj o)) = true.
Proof. obj_cases. Qed.

Lemma do_commit_inv : forall e st, Inv st -> guard_step e Commit st = true -> Inv (fst (do_commit e st)).
Proof.
  intros e st HI G. unfold do_commit. simpl in G.
  pose proof (autobegin_inv st HI) as HI0.
  destruct (is_deact (autobegin st)) eqn:Ed; [exact HI0|].
  pose proof (flush_inv e (autobegin st) HI0 G) as HF.
  pose proof (flush_code0_deact e (autobegin st)) as HD.
  destruct (flush e (autobegin st)) as [[st2 c] rws]. simpl in *.
  destruct (Z.eqb_spec c 0); simpl; [|exact HF]. subst c. specialize (HD eq_refl). rewrite Ed in HD.
  destruct HF as [F1 F2].
  assert (Htx : tx st2 = Some false \/ tx st2 = None).
  { unfold is_deact in HD. destruct (tx st2) as [[]|]; auto. discriminate. }
  destruct (eoc st2).
  - destruct (pass_spec (fun _ => objinvb (Some false)) (fun _ => objinvb (Some true)) (fun _ => commit_detach_obj) st2) as [A B].
    { destruct Htx as [E|E]; rewrite E in F1; auto. eapply SP_weaken; [exact F1|]. intros. apply objinv_begin; auto. }
    { intros k o Hp. apply commit_detach_ok; auto. }
    eapply end_tx_inv_any; eauto.
  - eapply end_tx_inv_any; eauto.
Qed.

(* ---- rollback ------------------------------------------------------------------------------------------- *)
Lemma do_rollback_inv : forall e st, Inv st -> guard_step e Rollback st = true -> Inv (fst (do_rollback e st)).
Proof.
  intros e st HI G. unfold do_rollback. simpl in G. destruct HI as [H1 H2].
  destruct (tx st) as [[]|] eqn:Et; [| |split; simpl; [rewrite Et; exact H1|exact H2]].
  - destruct (is_clean st (emod e)); simpl; [eapply end_tx_inv_any; eauto|].
    destruct (restore_inv st Et H1 G H2) as [R1 [R2 R3]].
    destruct (restore_snapshot st) as [st2 c]. simpl in *.
    destruct (Z.eqb c 0); simpl; [eapply end_tx_inv_any; eauto|]. split; [rewrite R3; auto|auto].
  - assert (HPd : SP (fun _ => objinvb (Some true)) (set_tx (Some true) st)).
    { apply SP_set_tx. eapply SP_weaken; [exact H1|]. intros k o H. eapply objinv_deact; [exact H|discriminate]. }
    destruct (restore_inv (set_tx (Some true) st) eq_refl HPd G H2) as [R1 [R2 R3]].
    destruct (restore_snapshot (set_tx (Some true) st)) as [st2 c]. simpl in *.
    destruct (Z.eqb c 0); simpl; [eapply end_tx_inv_any; eauto|]. split; [rewrite R3; auto|auto].
Qed.

(* ---- merge ------------------------------------------------------------------------------------------------ *)
Lemma SP_add_obj : forall (p : nat -> obj -> bool) o st, SP p st -> p (length (objs st)) o = true -> SP p (add_obj o st).
Proof.
  intros p o st HP Ho k x Hk. unfold add_obj in Hk. simpl in Hk.
  destruct (Nat.lt_ge_cases k (length (objs st))).
  - rewrite nth_error_app1 in Hk by auto. eapply HP; eauto.
  - rewrite nth_error_app2 in Hk by auto. destruct (k - length (objs st))%nat eqn:E; simpl in Hk.
    + inversion Hk; subst. replace k with (length (objs st)) by lia. exact Ho.
    + destruct n; discriminate.
Qed.

Lemma new_obj_inv : forall t k, objinvb t (new_obj k) = true.
Proof. destruct t as [[]|]; reflexivity. Qed.
Lemma loaded_obj_inv : forall k, objinvb (Some false) (mkObj k true true false false true false false false) = true.
Proof. reflexivity. Qed.

Lemma with_log_inv : forall st es, Inv st -> wf es -> Inv (mkSt (eoc st) (objs st) (tx st) (slog st ++ es)).
Proof. intros st es [H1 H2] He. split; simpl; [exact H1|apply wf_app; auto]. Qed.

Lemma do_merge_inv : forall e i st, Inv st -> guard_step e (Merge i) st = true -> Inv (fst (fst (do_merge e i st))).
Proof.
  intros e i st HI G. unfold do_merge. simpl in G.
  pose proof (flush_inv e st HI G) as HF.
  destruct (flush e st) as [[st1 c] rws]. simpl in HF.
  destruct (Z.eqb c 0); simpl; [|exact HF].
  destruct (holder (pk (get st1 i)) st1) as [m|].
  - destruct (negb (Nat.eqb m i) && ehasid e i && eidexp e m && negb (inew (get st m) && okey (get st1 m))); [|exact HF].
    pose proof (autobegin_inv st1 HF) as HA.
    destruct (is_deact (autobegin st1)); [exact HA|]. destruct (negb (memz (pk (get st1 i)) rws)); exact HA.
  - pose proof (autobegin_inv st1 HF) as HA.
    destruct (is_deact (autobegin st1)) eqn:Ed; [exact HA|].
    assert (Htx : tx (autobegin st1) = Some false) by (apply is_deact_false_tx; auto; apply autobegin_has_tx).
    destruct (memz (pk (get st1 i)) rws); simpl.
    + apply (with_log_inv (add_obj _ (autobegin st1))).
      * destruct HA as [A1 A2]. split; [|exact A2]. simpl. apply SP_add_obj; [exact A1|]. rewrite Htx. apply loaded_obj_inv.
      * apply (wf_fire _ Absent Persistent LAP); [reflexivity|constructor].
    + set (st2 := mkSt _ _ _ _).
      assert (H2 : Inv st2).
      { apply (with_log_inv (add_obj _ (autobegin st1))).
        - destruct HA as [A1 A2]. split; [|exact A2]. simpl. apply SP_add_obj; [exact A1|]. apply new_obj_inv.
        - apply (wf_silent _ Absent Transient); [reflexivity|constructor]. }
      pose proof (save_impl_inv (length (objs (autobegin st1))) st2 H2) as HS.
      destruct (save_impl _ st2). exact HS.
Qed.

(* ---- one step, whole histories ------------------------------------------------------------------------------ *)
Lemma step_inv : forall e o st, Inv st -> guard_step e o st = true -> Inv (fst (fst (step e o st))).
Proof.
  intros e o st HI G. destruct o; simpl.
  - apply do_add_inv; auto.
  - apply delete_impl_inv; auto.
  - apply do_expunge_inv; auto.
  - pose proof (flush_inv e st HI G). destruct (flush e st) as [[s c] r]. exact H.
  - apply do_commit_inv; auto.
  - apply do_rollback_inv; auto.
  - apply do_close_inv; auto.
  - apply do_merge_inv; auto.
  - apply do_make_transient_inv; auto.
  - apply do_mttd_inv; auto.
Qed.

Lemma init_inv : forall b pks, Inv (init b pks).
Proof.
  intros. split; [|constructor]. intros k o Hk. simpl in Hk.
  rewrite nth_error_map in Hk. destruct (nth_error pks k); [|discriminate]. inversion Hk. apply new_obj_inv.
Qed.

Lemma run_inv : forall h st, Inv st -> guarded h st = true -> Inv (run h st).
Proof.
  induction h as [|[e o] r IH]; intros st HI G; simpl; auto.
  simpl in G. destruct (stop e st); auto.
  apply andb_prop in G as [G1 G2].
  pose proof (step_inv e o st HI G1) as HS.
  destruct (step e o st) as [[st' c] res]. apply IH; auto.
Qed.

Theorem guarded_log_wf : forall b pks h, guarded h (init b pks) = true -> wf (slog (run h (init b pks))).
Proof. intros. apply (run_inv h (init b pks)); auto. apply init_inv. Qed.

Theorem guarded_transitions_documented : forall b pks h, guarded h (init b pks) = true ->
  forall i f t, In (Chg i f t) (slog (run h (init b pks))) -> exists e, documented f t e = true.
Proof. intros b pks h G. apply wf_chg_documented. apply guarded_log_wf; auto. Qed.

(* exactly one of the five predicates, for every object whatsoever (so for every reachable one) *)
Theorem one_state : forall o,
  (if is_transient o then 1 else 0) + (if is_pending o then 1 else 0) + (if is_persistent o then 1 else 0)
  + (if is_deleted o then 1 else 0) + (if is_detached o then 1 else 0) = 1.
Proof. obj_cases. Qed.

Theorem state_is_lc : forall o,
  match lc_of o with
  | Transient => is_transient o | Pending => is_pending o | Persistent => is_persistent o
  | Deleted => is_deleted o | Detached => is_detached o | Absent => false
  end = true.
Proof. obj_cases. Qed.

(* ---- what a well-formed log says, item by item ------------------------------------------------------------ *)
Lemma wf_at_chg : forall l, wf l -> forall l1 i f t l2, l = l1 ++ Chg i f t :: l2 -> wf l1 /\ wf (Chg i f t :: l2).
Proof.
  induction 1 as [|i0 f0 t0 e0 l' Hd Hw IH|i0 f0 t0 l' Hd Hw IH]; intros l1 i f t l2 E.
  - destruct l1; discriminate.
  - destruct l1 as [|x [|y l1']].
    + simpl in E. inversion E; subst. split; [constructor|apply wf_fire; auto].
    + simpl in E. inversion E.
    + simpl in E. inversion E; subst. destruct (IH l1' i f t l2 eq_refl) as [A B].
      split; [apply wf_fire; auto|auto].
  - destruct l1 as [|x l1'].
    + simpl in E. inversion E; subst. split; [constructor|apply wf_silent; auto].
    + simpl in E. inversion E; subst. destruct (IH l1' i f t l2 eq_refl) as [A B].
      split; [apply wf_silent; auto|auto].
Qed.

(* a transition is either one documented without an event, or it is immediately followed by the
   event documented for it, fired on the same object while it is in the target state *)
Lemma wf_transition_then_event : forall l, wf l -> forall l1 i f t l2, l = l1 ++ Chg i f t :: l2 ->
  documented f t None = true \/ exists e l3, documented f t (Some e) = true /\ l2 = Ev i e t :: l3.
Proof.
  intros l Hw l1 i f t l2 E. destruct (wf_at_chg l Hw l1 i f t l2 E) as [_ B].
  inversion B; subst; [right; eauto|left; auto].
Qed.

(* an event is immediately preceded by the transition it is documented for *)
Lemma wf_event_after_transition : forall l, wf l -> forall l1 i e t l2, l = l1 ++ Ev i e t :: l2 ->
  exists l0 f, l1 = l0 ++ [Chg i f t] /\ documented f t (Some e) = true.
Proof.
  induction 1 as [|i0 f0 t0 e0 l' Hd Hw IH|i0 f0 t0 l' Hd Hw IH]; intros l1 i e t l2 E.
  - destruct l1; discriminate.
  - destruct l1 as [|x [|y l1']].
    + simpl in E. inversion E.
    + simpl in E. inversion E; subst. exists [], f0. auto.
    + simpl in E. inversion E; subst. destruct (IH l1' i e t l2 eq_refl) as [l0 [f [A B]]].
      exists (Chg i0 f0 t0 :: Ev i0 e0 t0 :: l0), f. subst. auto.
  - destruct l1 as [|x l1'].
    + simpl in E. inversion E.
    + simpl in E. inversion E; subst. destruct (IH l1' i e t l2 eq_refl) as [l0 [f [A B]]].
      exists (Chg i0 f0 t0 :: l0), f. subst. auto.
Qed.
