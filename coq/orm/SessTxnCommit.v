(* C33 - commit under the whole invariant. *)
From Coq Require Import List ZArith Bool Arith Lia.
Import ListNotations.
From SAV.orm Require Import SessTxn SessTxnBase SessTxnSpec SessTxnInv SessTxnOps SessTxnRestore SessTxnRestore2
  SessTxnShift SessTxnStmts SessTxnFlush SessTxnDbInv SessTxnCore SessTxnFlushCore SessTxnTx.
Open Scope nat_scope.

Definition FlushPost (st : sess) (r : res) (st' : sess) : Prop :=
  ids st' = ids st /\ nfid st' = nfid st /\ committed st' = committed st /\
  nobj st' = nobj st /\ handles st' = handles st /\ eoc st' = eoc st /\
  map lists_of (tl (stack st')) = map lists_of (tl (stack st)) /\
  (r = Ok -> is_clean st' = true /\ hd_state st' = hd_state st) /\
  (r <> Ok -> hd_state st' = hd_state st \/ (hd_state st = Some ACTIVE /\ hd_state st' = Some DEACTIVE /\ is_clean st' = true)).

Lemma flush_core : forall st gs r st', Core st gs -> flush st = (r, st') -> r <> Unmodelled ->
  Core st' gs /\ FlushPost st r st'.
Proof.
  intros st gs r st' C H Hr.
  exact (flush_with_core flush_body flush_body_inner st gs r st' C H Hr).
Qed.

Lemma FlushPost_refl : forall st, is_clean st = true -> FlushPost st Ok st.
Proof. intros st H. unfold FlushPost. repeat split; auto. Qed.

Lemma flush_loop_core : forall n st gs r st', Core st gs -> flush_loop (S (S n)) st = (r, st') -> r <> Unmodelled ->
  Core st' gs /\ FlushPost st r st'.
Proof.
  intros n st gs r st' C H Hr. cbn [flush_loop] in H.
  destruct (is_clean st) eqn:Ecl.
  { inversion H; subst. split; [exact C|]. apply FlushPost_refl; auto. }
  apply bind_inv in H. destruct H as [[s1 [H1 H2]]|[H1 Hn]].
  - destruct (flush_core st gs Ok s1 C H1) as [C1 P1]; [discriminate|].
    destruct P1 as (A1 & A2 & A3 & A4 & A5 & A6 & A7 & A8 & A9). destruct (A8 eq_refl) as [Cl Hh].
    cbn [flush_loop] in H2. rewrite Cl in H2. inversion H2; subst r st'.
    split; [exact C1|]. unfold FlushPost. repeat split; auto; try (intros X; congruence).
  - exact (flush_core st gs r st' C H1 Hr).
Qed.

(* ------------------------------------------------------------------ SessionTransaction.commit of the innermost frame *)
Definition commit_tail : M :=
  (lift (set_head_state PREPARED) ;; check_moves M_prepare PREPARED) ;;
  (head_db_commit ;; lift (set_head_state COMMITTED) ;; lift remove_snapshot ;; close_head ;; check_moves M_commit CLOSED).

Lemma commit_head_split : forall st f rest, stack st = f :: rest -> fstate f = ACTIVE ->
  commit_head st = (flush_loop 100 ;; commit_tail) st.
Proof.
  intros st f rest Hs Hf. unfold commit_head. rewrite Hs.
  assert (E1 : check_prereq f M_commit = None) by (unfold check_prereq; rewrite Hf; reflexivity).
  rewrite E1.
  assert (E2 : forall X : M, (prepare_head ;; X) st = ((flush_loop 100 ;; lift (set_head_state PREPARED) ;; check_moves M_prepare PREPARED) ;; X) st).
  { intros X. unfold bind at 1. unfold bind at 3. unfold prepare_head. rewrite Hs, Hf. cbn [tstate_eqb].
    assert (E3 : check_prereq f M_prepare = None) by (unfold check_prereq; rewrite Hf; reflexivity).
    rewrite E3. reflexivity. }
  rewrite E2. unfold commit_tail. rewrite bind_assoc. reflexivity.
Qed.

Definition root_final (st : sess) (f : frame) : sess :=
  let st2 := if fconn f then db_commit st else st in
  let st3 := if eoc st
             then map_objs st2 (fun x o => let o1 := if oin o then expire_obj o else o in
                                           if mem x (fdel f) then detach_obj false o1 else o1)
             else st2 in
  set_stack st3 [].

Lemma commit_tail_root : forall st f, stack st = [f] -> fnested f = false -> fstate f = ACTIVE ->
  commit_tail st = (Ok, root_final st f).
Proof.
  intros st f Hs Hn Hf. destruct st as [e n ob sn sd stk hs cm wk sv nf]. cbn in Hs. subst stk.
  unfold commit_tail, root_final, bind, lift, check_moves, head_db_commit, close_head, remove_snapshot, set_head_state, upd_head,
    set_stack, db_commit, set_db, map_objs, set_objs, ret.
  cbn. rewrite Hn. cbn. destruct (fconn f) eqn:Ec; destruct e; cbn; rewrite ?Hn, ?Ec; cbn; rewrite ?andb_false_r; reflexivity.
Qed.

(* the outermost commit: the connection's rows become the committed rows, the snapshot is dropped (with
   expire_on_commit every object of the identity map is expired, the deleted ones are detached) *)
Lemma root_final_core : forall st g gs' f, Core st (g :: gs') -> stack st = [f] -> fstate f = ACTIVE -> is_clean st = true ->
  Core (root_final st f) [] /\ stack (root_final st f) = [] /\ is_clean (root_final st f) = true /\
  committed (root_final st f) = work st /\ work (root_final st f) = work st /\
  nobj (root_final st f) = nobj st /\ handles (root_final st f) = handles st /\ eoc (root_final st f) = eoc st /\
  nfid (root_final st f) = nfid st.
Proof.
  intros st g gs' f C Hs Hf Hcl. destruct C as [G Jh D Ch Em].
  apply is_clean_spec in Hcl. destruct Hcl as [Hsn [Hsd Hmod]].
  unfold GoodS in G. rewrite Hsn, Hsd in G.
  unfold Chain in Ch. rewrite Hs, Hf in Ch. destruct Ch as [GC [R _]]. rewrite Hsn, Hsd in R.
  destruct D as [D1 D2 D4 D5]. rewrite Hs in D1, D4, D5. destruct D5 as [D5 D6].
  cbn [FramesOk] in D1. destruct D1 as [F1 [_ [F3 _]]].
  assert (Hn : fnested f = false). { destruct (fnested f); auto. destruct F3 as [F3 _]. exfalso. apply (F3 eq_refl). reflexivity. }
  assert (Hsv : saves st = []). { rewrite D5. cbn. unfold live_conn. rewrite Hn, andb_false_r. cbn. destruct gs'; reflexivity. }
  assert (Hcw : fconn f = false -> work st = committed st).
  { intros X. apply D4. intros f' [Y|[]]. subst; auto. }
  (* the objects *)
  set (ob' := fun x => let o := objs st x in
                let o1 := if oin o then expire_obj o else o in
                if mem x (fdel f) then detach_obj false o1 else o1).
  assert (Hdel : forall x, mem x (fdel f) = true -> oin (objs st x) = false /\ odelf (objs st x) = true /\ oatt (objs st x) = true).
  { intros x Hx. destruct (r_del _ _ _ _ _ _ _ R x Hx) as [_ [A [B [E _]]]]. auto. }
  assert (Hk : forall x, okey (ob' x) = okey (objs st x) /\ odelf (ob' x) = odelf (objs st x) /\ oin (ob' x) = oin (objs st x)).
  { intros x. unfold ob'. cbn zeta. destruct (mem x (fdel f)) eqn:E1, (oin (objs st x)) eqn:E2; cbn; rewrite ?E2; auto. }
  assert (Hatt : forall x, oatt (ob' x) = true -> mem x (fdel f) = false /\ oatt (objs st x) = true).
  { intros x. unfold ob'. cbn zeta. destruct (mem x (fdel f)); [cbn; discriminate|]. destruct (oin (objs st x)) eqn:E2; cbn; auto. }
  assert (Hsame : forall x, mem x (fdel f) = false -> oin (objs st x) = false -> ob' x = objs st x).
  { intros x A B. unfold ob'. cbn zeta. rewrite A, B. reflexivity. }
  assert (Hexp : forall x, oin (objs st x) = true -> ob' x = expire_obj (objs st x)).
  { intros x A. unfold ob'. cbn zeta. rewrite A. destruct (mem x (fdel f)) eqn:E; auto. destruct (Hdel x E). congruence. }
  assert (G' : Good ob' (nobj st) (work st) [] []).
  { destruct G as [g1 g2 g3 g4 g5 g5' g6 g6' g7 g8]. constructor.
    - intros o H. destruct (Hk o) as [K1 [K2 K3]]. rewrite K3 in H. destruct (g1 o H) as [A [B [E F]]].
      rewrite (Hexp o H). cbn. auto.
    - intros o1 o2 k H1 H2 K1 K2. destruct (Hk o1) as [A1 [_ A3]]. destruct (Hk o2) as [B1 [_ B3]].
      rewrite A3 in H1. rewrite B3 in H2. rewrite A1 in K1. rewrite B1 in K2. eauto.
    - intros o k Ho K A B. destruct (Hk o) as [K1 [K2 K3]]. destruct (Hatt o A) as [_ A']. rewrite K3. rewrite K1 in K. rewrite K2 in B. eauto.
    - intros o k H K. destruct (Hk o) as [K1 [K2 K3]]. rewrite K3 in H. rewrite K1 in K.
      destruct (g4 o k H K) as [v [V1 V2]]. exists v. split; auto. rewrite (Hexp o H).
      unfold VA, expire_obj. cbn. repeat split; auto; try discriminate; try (intros; discriminate); intros X; congruence.
    - intros o. split; [intros []|]. intros [A [B E]]. destruct (Hk o) as [K1 _]. destruct (Hatt o E) as [_ E'].
      apply (g5 o). rewrite K1 in B. auto.
    - intros o [].
    - intros o [].
    - split; constructor.
    - intros o k Ho K A B. destruct (Hk o) as [K1 [K2 K3]]. destruct (Hatt o A) as [_ A']. rewrite K1 in K. rewrite K2 in B.
      destruct (g7 o k Ho K A' B) as [X|[o' [X1 X2]]]; [left; auto|right].
      exists o'. destruct (Hk o') as [L1 [_ L3]]. rewrite L1, L3. auto.
    - intros o Ho K A B. destruct (Hk o) as [K1 [K2 K3]]. destruct (Hatt o A) as [Nd A']. rewrite K1 in K. rewrite K2 in B.
      assert (Ni : oin (objs st o) = false).
      { destruct (oin (objs st o)) eqn:E; auto. destruct (g1 o E) as [_ [_ [X _]]]. congruence. }
      rewrite (Hsame o Nd Ni). apply g8; auto. }
  assert (J' : J ob' (nobj st)).
  { intros o Ho. specialize (Jh o Ho). unfold ob'. cbn zeta.
    destruct (mem o (fdel f)), (oin (objs st o)); cbn; auto; repeat split; auto; try discriminate; intros X; congruence. }
  assert (Cl' : forall o, oin (ob' o) = true -> omod (ob' o) = false).
  { intros o H. destruct (Hk o) as [_ [_ K3]]. rewrite K3 in H. rewrite (Hexp o H). reflexivity. }
  unfold root_final.
  assert (Main : forall st3, stack st3 = [] -> (objs st3 = objs st \/ objs st3 = ob') -> nobj st3 = nobj st -> snew st3 = [] -> sdel st3 = [] ->
            work st3 = work st -> committed st3 = work st -> saves st3 = [] ->
            Core st3 [] /\ is_clean st3 = true).
  { intros st3 S3 O3 N3 A3 B3 W3 M3 V3.
    assert (Hc3 : is_clean st3 = true).
    { apply is_clean_spec. rewrite A3, B3, N3. repeat split; auto. intros o Ho Hi.
      destruct O3 as [O3|O3]; rewrite O3 in *; [apply Hmod; auto|apply Cl'; auto]. }
    split; [|exact Hc3]. constructor.
    - unfold GoodS. rewrite N3, A3, B3, W3. destruct O3 as [O3|O3]; rewrite O3; auto.
    - rewrite N3. destruct O3 as [O3|O3]; rewrite O3; auto.
    - constructor; rewrite ?S3; cbn; auto.
      + intros _. congruence.
      + split; [rewrite V3; reflexivity|exact I].
    - unfold Chain. rewrite S3. exact I.
    - intros _. exact Hc3. }
  assert (Hcw' : fconn f = false -> committed st = work st) by (intros X; symmetry; auto).
  destruct (fconn f) eqn:Ec; destruct (eoc st) eqn:Ee; cbv zeta;
    match goal with |- Core ?S [] /\ _ =>
      assert (M : Core S [] /\ is_clean S = true);
      [apply Main; cbn; auto; try (right; reflexivity); try (left; reflexivity)
      |destruct M as [M1 M2]; split; [exact M1|]; split; [reflexivity|]; split; [exact M2|]; cbn; repeat split; auto]
    end.
Qed.
