(* C33 - commit under the whole invariant. *)
From Coq Require Import List ZArith Bool Arith Lia.
Import ListNotations.
From SAV.orm Require Import SessTxn SessTxnBase SessTxnSpec SessTxnInv SessTxnOps SessTxnRestore SessTxnRestore2
  SessTxnShift SessTxnStmts SessTxnFlush SessTxnDbInv SessTxnCore SessTxnFlushCore SessTxnTx SessTxnMerge.
Open Scope nat_scope.

Definition FlushPost (st : sess) (r : res) (st' : sess) : Prop :=
  ids st' = ids st /\ nfid st' = nfid st /\ committed st' = committed st /\
  nobj st' = nobj st /\ handles st' = handles st /\ eoc st' = eoc st /\
  map lists_of (tl (stack st')) = map lists_of (tl (stack st)) /\
  (r = Ok -> is_clean st' = true /\ hd_state st' = hd_state st /\ KsGrow st st') /\
  (r <> Ok -> hd_state st' = hd_state st \/ (hd_state st = Some ACTIVE /\ hd_state st' = Some DEACTIVE /\ is_clean st' = true)).

Lemma flush_core : forall st gs r st', Core st gs -> flush st = (r, st') -> r <> Unmodelled ->
  Core st' gs /\ FlushPost st r st'.
Proof.
  intros st gs r st' C H Hr.
  exact (flush_with_core flush_body flush_body_inner st gs r st' C H Hr).
Qed.

Lemma FlushPost_refl : forall st, is_clean st = true -> FlushPost st Ok st.
Proof. intros st H. unfold FlushPost. repeat split; auto; try apply KsGrow_refl; intros X; congruence. Qed.

Lemma flush_loop_core : forall n st gs r st', Core st gs -> flush_loop (S (S n)) st = (r, st') -> r <> Unmodelled ->
  Core st' gs /\ FlushPost st r st'.
Proof.
  intros n st gs r st' C H Hr. cbn [flush_loop] in H.
  destruct (is_clean st) eqn:Ecl.
  { inversion H; subst. split; [exact C|]. apply FlushPost_refl; auto. }
  apply bind_inv in H. destruct H as [[s1 [H1 H2]]|[H1 Hn]].
  - destruct (flush_core st gs Ok s1 C H1) as [C1 P1]; [discriminate|].
    destruct P1 as (A1 & A2 & A3 & A4 & A5 & A6 & A7 & A8 & A9). destruct (A8 eq_refl) as [Cl [Hh Kg]].
    cbn [flush_loop] in H2. rewrite Cl in H2. inversion H2; subst r st'.
    split; [exact C1|]. unfold FlushPost. repeat split; auto; try (intros X; congruence).
  - exact (flush_core st gs r st' C H1 Hr).
Qed.

(* ------------------------------------------------------------------ SessionTransaction.commit of the innermost frame *)
Definition commit_tail : M :=
  (lift (set_head_state PREPARED) ;; check_moves M_prepare PREPARED) ;;
  (head_db_commit ;; lift (set_head_state COMMITTED) ;; lift remove_snapshot ;; close_head ;; check_moves M_commit CLOSED).

Lemma commit_head_split : forall st f rest, stack st = f :: rest -> fstate f = ACTIVE ->
  commit_head st = (flush_loop 100 ;; commit_tail) st.
Proof.
  intros st f rest Hs Hf. unfold commit_head. rewrite Hs.
  assert (E1 : check_prereq f M_commit = None) by (unfold check_prereq; rewrite Hf; reflexivity).
  rewrite E1.
  assert (E2 : forall X : M, (prepare_head ;; X) st = ((flush_loop 100 ;; lift (set_head_state PREPARED) ;; check_moves M_prepare PREPARED) ;; X) st).
  { intros X. unfold bind at 1. unfold bind at 3. unfold prepare_head. rewrite Hs, Hf. cbn [tstate_eqb].
    assert (E3 : check_prereq f M_prepare = None) by (unfold check_prereq; rewrite Hf; reflexivity).
    rewrite E3. reflexivity. }
  rewrite E2. unfold commit_tail. rewrite bind_assoc. reflexivity.
Qed.

Definition root_final (st : sess) (f : frame) : sess :=
  let st2 := if fconn f then db_commit st else st in
  let st3 := if eoc st
             then map_objs st2 (fun x o => let o1 := if oin o then expire_obj o else o in
                                           if mem x (fdel f) then detach_obj false o1 else o1)
             else st2 in
  set_stack st3 [].

Lemma commit_tail_root : forall st f, stack st = [f] -> fnested f = false -> fstate f = ACTIVE ->
  commit_tail st = (Ok, root_final st f).
Proof.
  intros st f Hs Hn Hf. destruct st as [e n ob sn sd stk hs cm wk sv nf]. cbn in Hs. subst stk.
  unfold commit_tail, root_final, bind, lift, check_moves, head_db_commit, close_head, remove_snapshot, set_head_state, upd_head,
    set_stack, db_commit, set_db, map_objs, set_objs, ret.
  cbn. rewrite Hn. cbn. destruct (fconn f) eqn:Ec; destruct e; cbn; rewrite ?Hn, ?Ec; cbn; rewrite ?andb_false_r; reflexivity.
Qed.

(* the outermost commit: the connection's rows become the committed rows, the snapshot is dropped (with
   expire_on_commit every object of the identity map is expired, the deleted ones are detached) *)
Lemma root_final_core : forall st g gs' f, Core st (g :: gs') -> stack st = [f] -> fstate f = ACTIVE -> is_clean st = true ->
  Core (root_final st f) [] /\ stack (root_final st f) = [] /\ is_clean (root_final st f) = true /\
  committed (root_final st f) = work st /\ work (root_final st f) = work st /\
  nobj (root_final st f) = nobj st /\ handles (root_final st f) = handles st /\ eoc (root_final st f) = eoc st /\
  nfid (root_final st f) = nfid st.
Proof.
  intros st g gs' f C Hs Hf Hcl. destruct C as [G Jh D Ch Em].
  apply is_clean_spec in Hcl. destruct Hcl as [Hsn [Hsd Hmod]].
  unfold GoodS in G. rewrite Hsn, Hsd in G.
  unfold Chain in Ch. rewrite Hs, Hf in Ch. destruct Ch as [GC [R _]]. rewrite Hsn, Hsd in R.
  destruct D as [D1 D2 D4 D5]. rewrite Hs in D1, D4, D5. destruct D5 as [D5 D6].
  cbn [FramesOk] in D1. destruct D1 as [F1 [_ [F3 _]]].
  assert (Hn : fnested f = false). { destruct (fnested f); auto. destruct F3 as [F3 _]. exfalso. apply (F3 eq_refl). reflexivity. }
  assert (Hsv : saves st = []). { rewrite D5. cbn. unfold live_conn. rewrite Hn, andb_false_r. cbn. destruct gs'; reflexivity. }
  assert (Hcw : fconn f = false -> work st = committed st).
  { intros X. apply D4. intros f' [Y|[]]. subst; auto. }
  (* the objects *)
  set (ob' := fun x => let o := objs st x in
                let o1 := if oin o then expire_obj o else o in
                if mem x (fdel f) then detach_obj false o1 else o1).
  assert (Hdel : forall x, mem x (fdel f) = true -> oin (objs st x) = false /\ odelf (objs st x) = true /\ oatt (objs st x) = true).
  { intros x Hx. destruct (r_del _ _ _ _ _ _ _ R x Hx) as [_ [A [B [E _]]]]. auto. }
  assert (Hk : forall x, okey (ob' x) = okey (objs st x) /\ odelf (ob' x) = odelf (objs st x) /\ oin (ob' x) = oin (objs st x)).
  { intros x. unfold ob'. cbn zeta. destruct (mem x (fdel f)) eqn:E1, (oin (objs st x)) eqn:E2; cbn; rewrite ?E2; auto. }
  assert (Hatt : forall x, oatt (ob' x) = true -> mem x (fdel f) = false /\ oatt (objs st x) = true).
  { intros x. unfold ob'. cbn zeta. destruct (mem x (fdel f)); [cbn; discriminate|]. destruct (oin (objs st x)) eqn:E2; cbn; auto. }
  assert (Hsame : forall x, mem x (fdel f) = false -> oin (objs st x) = false -> ob' x = objs st x).
  { intros x A B. unfold ob'. cbn zeta. rewrite A, B. reflexivity. }
  assert (Hexp : forall x, oin (objs st x) = true -> ob' x = expire_obj (objs st x)).
  { intros x A. unfold ob'. cbn zeta. rewrite A. destruct (mem x (fdel f)) eqn:E; auto. destruct (Hdel x E). congruence. }
  assert (G' : Good ob' (nobj st) (work st) [] []).
  { destruct G as [g1 g2 g3 g4 g5 g5' g6 g6' g7 g8]. constructor.
    - intros o H. destruct (Hk o) as [K1 [K2 K3]]. rewrite K3 in H. destruct (g1 o H) as [A [B [E F]]].
      rewrite (Hexp o H). cbn. auto.
    - intros o1 o2 k H1 H2 K1 K2. destruct (Hk o1) as [A1 [_ A3]]. destruct (Hk o2) as [B1 [_ B3]].
      rewrite A3 in H1. rewrite B3 in H2. rewrite A1 in K1. rewrite B1 in K2. eauto.
    - intros o k Ho K A B. destruct (Hk o) as [K1 [K2 K3]]. destruct (Hatt o A) as [_ A']. rewrite K3. rewrite K1 in K. rewrite K2 in B. eauto.
    - intros o k H K. destruct (Hk o) as [K1 [K2 K3]]. rewrite K3 in H. rewrite K1 in K.
      destruct (g4 o k H K) as [v [V1 V2]]. exists v. split; auto. rewrite (Hexp o H).
      unfold VA, expire_obj. cbn. repeat split; auto; try discriminate; try (intros; discriminate); intros X; congruence.
    - intros o. split; [intros []|]. intros [A [B E]]. destruct (Hk o) as [K1 _]. destruct (Hatt o E) as [_ E'].
      apply (g5 o). rewrite K1 in B. auto.
    - intros o [].
    - intros o [].
    - split; constructor.
    - intros o k Ho K A B. destruct (Hk o) as [K1 [K2 K3]]. destruct (Hatt o A) as [_ A']. rewrite K1 in K. rewrite K2 in B.
      destruct (g7 o k Ho K A' B) as [X|[o' [X1 X2]]]; [left; auto|right].
      exists o'. destruct (Hk o') as [L1 [_ L3]]. rewrite L1, L3. auto.
    - intros o Ho K A B. destruct (Hk o) as [K1 [K2 K3]]. destruct (Hatt o A) as [Nd A']. rewrite K1 in K. rewrite K2 in B.
      assert (Ni : oin (objs st o) = false).
      { destruct (oin (objs st o)) eqn:E; auto. destruct (g1 o E) as [_ [_ [X _]]]. congruence. }
      rewrite (Hsame o Nd Ni). apply g8; auto. }
  assert (J' : J ob' (nobj st)).
  { intros o Ho. specialize (Jh o Ho). unfold ob'. cbn zeta.
    destruct (mem o (fdel f)), (oin (objs st o)); cbn; auto; repeat split; auto; try discriminate; intros X; congruence. }
  assert (Cl' : forall o, oin (ob' o) = true -> omod (ob' o) = false).
  { intros o H. destruct (Hk o) as [_ [_ K3]]. rewrite K3 in H. rewrite (Hexp o H). reflexivity. }
  unfold root_final.
  assert (Main : forall st3, stack st3 = [] -> (objs st3 = objs st \/ objs st3 = ob') -> nobj st3 = nobj st -> snew st3 = [] -> sdel st3 = [] ->
            work st3 = work st -> committed st3 = work st -> saves st3 = [] ->
            Core st3 [] /\ is_clean st3 = true).
  { intros st3 S3 O3 N3 A3 B3 W3 M3 V3.
    assert (Hc3 : is_clean st3 = true).
    { apply is_clean_spec. rewrite A3, B3, N3. repeat split; auto. intros o Ho Hi.
      destruct O3 as [O3|O3]; rewrite O3 in *; [apply Hmod; auto|apply Cl'; auto]. }
    split; [|exact Hc3]. constructor.
    - unfold GoodS. rewrite N3, A3, B3, W3. destruct O3 as [O3|O3]; rewrite O3; auto.
    - rewrite N3. destruct O3 as [O3|O3]; rewrite O3; auto.
    - constructor; rewrite ?S3; cbn; auto.
      + intros _. congruence.
      + split; [rewrite V3; reflexivity|exact I].
    - unfold Chain. rewrite S3. exact I.
    - intros _. exact Hc3. }
  assert (Hcw' : fconn f = false -> committed st = work st) by (intros X; symmetry; auto).
  destruct (fconn f) eqn:Ec; destruct (eoc st) eqn:Ee; cbv zeta;
    match goal with |- Core ?S [] /\ _ =>
      assert (M : Core S [] /\ is_clean S = true);
      [apply Main; cbn; auto; try (right; reflexivity); try (left; reflexivity)
      |destruct M as [M1 M2]; split; [exact M1|]; split; [reflexivity|]; split; [exact M2|]; cbn; repeat split; auto]
    end.
Qed.

Lemma ids_one : forall st st' f, ids st' = ids st -> stack st = [f] -> exists f', stack st' = [f'] /\ fid f' = fid f /\ fnested f' = fnested f.
Proof.
  intros st st' f H Hs. unfold ids in H. rewrite Hs in H. destruct (stack st') as [|f' [|x r]]; try discriminate.
  cbn in H. inversion H. eauto.
Qed.

(* SessionTransaction.commit of the outermost transaction *)
Lemma commit_head_root_core : forall st gs f r st', Core st gs -> stack st = [f] -> commit_head st = (r, st') -> r <> Unmodelled ->
  (r = Ok /\ Core st' [] /\ stack st' = [] /\ is_clean st' = true /\ nobj st' = nobj st /\ handles st' = handles st /\ eoc st' = eoc st) \/
  (r <> Ok /\ Core st' gs /\ nobj st' = nobj st /\ handles st' = handles st /\ eoc st' = eoc st /\ committed st' = committed st).
Proof.
  intros st gs f r st' C Hs H Hr.
  destruct (Core_head_state st gs f [] C Hs) as [Hf|Hf].
  2:{ unfold commit_head in H. rewrite Hs in H. unfold check_prereq in H. rewrite Hf in H. cbn in H.
      inversion H; subst. right. split; [discriminate|]. split; [exact C|]. repeat split; reflexivity. }
  rewrite (commit_head_split st f [] Hs Hf) in H. apply bind_inv in H. destruct H as [[s1 [H1 H2]]|[H1 Hn]].
  - destruct (flush_loop_core 98 st gs Ok s1 C H1) as [C1 P1]; [discriminate|].
    destruct P1 as (A1 & A2 & A3 & A4 & A5 & A6 & A7 & A8 & A9). destruct (A8 eq_refl) as [Cl [Hh Kg]].
    destruct (ids_one st s1 f A1 Hs) as [f1 [Hs1 [I1 I2]]].
    assert (Hf1 : fstate f1 = ACTIVE).
    { unfold hd_state in Hh. rewrite Hs, Hs1 in Hh. congruence. }
    destruct (Core_shape s1 gs f1 [] C1 Hs1) as [g [gs' Eg]]. subst gs.
    assert (Hn1 : fnested f1 = false).
    { destruct C1 as [_ _ D _ _]. destruct D as [D1 _ _ _]. rewrite Hs1 in D1. cbn in D1. destruct D1 as [_ [_ [F3 _]]].
      destruct (fnested f1); auto. destruct F3 as [F3 _]. exfalso. apply (F3 eq_refl). reflexivity. }
    rewrite (commit_tail_root s1 f1 Hs1 Hn1 Hf1) in H2. inversion H2; subst r st'.
    destruct (root_final_core s1 g gs' f1 C1 Hs1 Hf1 Cl) as (R1 & R2 & R3 & R4 & R5 & R6 & R7 & R8 & R9).
    left. split; [reflexivity|]. split; [exact R1|]. split; [exact R2|]. split; [exact R3|]. repeat split; congruence.
  - destruct (flush_loop_core 98 st gs r st' C H1 Hr) as [C1 P1].
    destruct P1 as (A1 & A2 & A3 & A4 & A5 & A6 & A7 & A8 & A9).
    right. split; [exact Hn|]. split; [exact C1|]. repeat split; congruence.
Qed.

(* ------------------------------------------------------------------ releasing a savepoint *)
Definition nested_final (st : sess) (f p : frame) (rest' : list frame) : sess :=
  let st2 := if fconn f then set_db st (committed st) (work st) (tl (saves st)) else st in
  set_stack st2 (merge_into p f :: rest').

Lemma commit_tail_nested : forall st f p rest', stack st = f :: p :: rest' -> fnested f = true -> fstate f = ACTIVE ->
  (fconn f = true -> exists w r, saves st = (fid f, w) :: r) ->
  commit_tail st = (Ok, nested_final st f p rest').
Proof.
  intros st f p rest' Hs Hn Hf Hsv. destruct st as [e n ob sn sd stk hs cm wk sv nf]. cbn in Hs, Hsv. subst stk.
  unfold commit_tail, nested_final, bind, lift, check_moves, head_db_commit, close_head, remove_snapshot, set_head_state, upd_head,
    set_stack, db_release, set_db, ret.
  cbn. rewrite Hn. cbn. destruct (fconn f) eqn:Ec.
  - destruct (Hsv eq_refl) as [w [r E]]. subst sv. cbn. rewrite Nat.eqb_refl. cbn. rewrite Hn. cbn. rewrite andb_false_r.
    unfold merge_into. cbn. reflexivity.
  - cbn. rewrite ?Hn, ?Ec. cbn. rewrite ?andb_false_r, ?Ec. cbn. unfold merge_into. cbn. reflexivity.
Qed.

Lemma merge_skel : forall p f, skel (merge_into p f) = skel p.
Proof. intros. reflexivity. Qed.

Lemma nested_final_core : forall st g gs' f p rest', Core st (g :: gs') -> stack st = f :: p :: rest' -> fstate f = ACTIVE ->
  is_clean st = true ->
  (forall x, ks_find x (fks f) <> None -> ks_find x (fks p) = None) ->
  Core (nested_final st f p rest') gs' /\ fnested f = true /\
  (fconn f = true -> exists w r, saves st = (fid f, w) :: r).
Proof.
  intros st g gs' f p rest' C Hs Hf Hcl Hg. destruct C as [G Jh D Ch Em].
  pose proof Hcl as Hcl0. apply is_clean_spec in Hcl. destruct Hcl as [Hsn [Hsd Hmod]].
  unfold Chain in Ch. rewrite Hs, Hf in Ch. destruct Ch as [GC [R CG]].
  destruct gs' as [|gp gs'']; [destruct CG|]. cbn [ChainG] in CG. destruct CG as [GCp [L CG']].
  destruct D as [D1 D2 D4 D5]. rewrite Hs in D1, D4, D5. destruct D5 as [D5 D6].
  cbn [FramesOk] in D1. destruct D1 as [F1 [F2 [F3 [F4 F5]]]].
  assert (Hn : fnested f = true) by (apply (proj2 F3); discriminate).
  assert (Hp : fstate p = ACTIVE) by (apply F5; left; reflexivity).
  assert (Hent : entries (f :: p :: rest') (g :: gp :: gs'') =
                 if fconn f then (fid f, gW g) :: entries (p :: rest') (gp :: gs'') else entries (p :: rest') (gp :: gs'')).
  { cbn [entries]. unfold live_conn at 1. rewrite Hn, Hf. cbn [live_state]. rewrite !andb_true_r. reflexivity. }
  split; [|split; [exact Hn|]].
  2:{ intros Ec. rewrite D5, Hent, Ec. eauto. }
  assert (Hsv' : saves (nested_final st f p rest') = entries (p :: rest') (gp :: gs'')).
  { unfold nested_final. destruct (fconn f) eqn:Ec; cbn; rewrite D5, Hent; reflexivity. }
  assert (Hsame : objs (nested_final st f p rest') = objs st /\ nobj (nested_final st f p rest') = nobj st /\
                  snew (nested_final st f p rest') = snew st /\ sdel (nested_final st f p rest') = sdel st /\
                  work (nested_final st f p rest') = work st /\ committed (nested_final st f p rest') = committed st /\
                  nfid (nested_final st f p rest') = nfid st /\ stack (nested_final st f p rest') = merge_into p f :: rest').
  { unfold nested_final. destruct (fconn f); cbn; repeat split; reflexivity. }
  destruct Hsame as (E1 & E2 & E3 & E4 & E5 & E6 & E7 & E8).
  assert (Hsk : map skel (p :: rest') = map skel (merge_into p f :: rest')) by reflexivity.
  constructor.
  - unfold GoodS. rewrite E1, E2, E3, E4, E5. exact G.
  - rewrite E1, E2. exact Jh.
  - constructor; rewrite ?E5, ?E6, ?E7, ?E8.
    + eapply FramesOk_skel; [exact Hsk|]. eapply FramesOk_weaken; [exact F2|lia].
    + left. exact Hp.
    + intros Hnc.
      assert (Ecp : fconn p = false) by (apply (Hnc (merge_into p f)); left; reflexivity).
      assert (Ecf : fconn f = false).
      { destruct (fconn f) eqn:Ec; auto. rewrite (F4 eq_refl p (or_introl eq_refl)) in Ecp. discriminate. }
      apply D4. intros f' [X|[X|X]]; [subst; auto|subst; auto|].
      apply (Hnc f'). right. exact X.
    + eapply SavesOk_skel; [exact Hsk|]. split; [exact Hsv'|].
      cbn [SnapOk] in D6. destruct D6 as [Q1 Q2].
      destruct (fconn p) eqn:Ecp.
      * cbn [SnapOk] in *. rewrite Ecp in *. exact Q2.
      * assert (Ecf : fconn f = false).
        { destruct (fconn f) eqn:Ec; auto. rewrite (F4 eq_refl p (or_introl eq_refl)) in Ecp. discriminate. }
        rewrite Ecf in Q1. rewrite <- Q1. cbn [SnapOk]. rewrite Ecp. exact Q2.
  - unfold Chain. rewrite E8. split; [exact GCp|]. split; [|exact CG'].
    assert (Hm : fstate (merge_into p f) = ACTIVE) by exact Hp. rewrite Hm.
    rewrite E1, E2, E3, E4, E5, Hsn, Hsd.
    unfold GoodS in G. rewrite Hsn, Hsd in R, G.
    apply (Rel_merge gp g p f (objs st) (nobj st) (work st)); auto.
  - rewrite E8. intros X. discriminate.
Qed.

(* ------------------------------------------------------------------ guard g2 as a property of key-switch domains *)
Definition kdom (l : list (nat * (Z * Z))) (x : nat) : Prop := ks_find x l <> None.
(* [A] is disjoint from every domain of the list, and the domains are pairwise disjoint *)
Fixpoint PD (A : nat -> Prop) (kss : list (list (nat * (Z * Z)))) : Prop :=
  match kss with
  | [] => True
  | k :: r => (forall x, A x -> ~ kdom k x) /\ PD (fun x => A x \/ kdom k x) r
  end.
Lemma PD_mono : forall kss (A A' : nat -> Prop), (forall x, A' x -> A x) -> PD A kss -> PD A' kss.
Proof.
  induction kss as [|k r IH]; intros A A' H P; cbn in *; auto. destruct P as [P1 P2]. split.
  - intros x Hx. apply P1. auto.
  - eapply IH; [|exact P2]. intros x [X|X]; auto.
Qed.
Lemma PD_firstn : forall kss A n, PD A kss -> PD A (firstn n kss).
Proof.
  induction kss as [|k r IH]; intros A n P; destruct n; cbn in *; auto. destruct P as [P1 P2]. split; auto.
Qed.

(* an object of the identity map with an unflushed primary-key change *)
Definition pend (st : sess) (x : nat) : Prop := oin (objs st x) = true /\ upd_sets_id (objs st x) = true.
Definition hdA (st : sess) (x : nat) : Prop :=
  match stack st with f :: _ => kdom (fks f) x | [] => False end \/ pend st x.

Lemma clean_no_pend : forall st gs x, Core st gs -> is_clean st = true -> ~ pend st x.
Proof.
  intros st gs x C Hcl [H1 H2]. apply is_clean_spec in Hcl. destruct Hcl as [_ [_ Hm]].
  destruct (g_in _ _ _ _ _ (c_good _ _ C) x H1) as [Hx _].
  destruct (c_j _ _ C x Hx) as [_ [_ J3]]. destruct (J3 (Hm x Hx H1)) as [E _].
  unfold upd_sets_id in H2. rewrite E in H2. discriminate.
Qed.

Lemma lists_fks : forall fs fs', map lists_of fs' = map lists_of fs -> map fks fs' = map fks fs.
Proof.
  induction fs as [|a fs IH]; intros [|b fs'] Q; try discriminate; auto.
  cbn in Q. injection Q as E1 E2 E3 E4 E5 E6 E7 E8 E9. cbn. rewrite E4. f_equal. apply IH; auto.
Qed.

(* what a successful SessionTransaction.commit of the innermost frame leaves *)
Definition CommitDone (st : sess) (f : frame) (rest : list frame) (st' : sess) : Prop :=
  is_clean st' = true /\
  match rest with
  | [] => stack st' = []
  | p :: rest' => exists m rest2, stack st' = m :: rest2 /\ map lists_of rest2 = map lists_of rest' /\ length rest2 = length rest' /\
                    fstate m = ACTIVE /\ fid m = fid p /\
                    (forall x, kdom (fks m) x -> hdA st x \/ kdom (fks p) x) /\
                    committed st' = committed st
  end.

Lemma commit_head_core : forall st gs f rest r st', Core st gs -> stack st = f :: rest ->
  PD (hdA st) (firstn 1 (map fks rest)) ->
  commit_head st = (r, st') -> r <> Unmodelled ->
  nobj st' = nobj st /\ handles st' = handles st /\ eoc st' = eoc st /\
  ((r <> Ok /\ Core st' gs /\ committed st' = committed st /\ ids st' = ids st /\
    map lists_of (tl (stack st')) = map lists_of (tl (stack st))) \/
   (r = Ok /\ exists gs', Core st' gs' /\ CommitDone st f rest st')).
Proof.
  intros st gs f rest r st' C Hs HP H Hr.
  destruct (Core_head_state st gs f rest C Hs) as [Hf|Hf].
  2:{ unfold commit_head in H. rewrite Hs in H. unfold check_prereq in H. rewrite Hf in H. cbn in H.
      inversion H; subst. repeat split; auto. left. split; [discriminate|]. split; [exact C|]. repeat split; reflexivity. }
  rewrite (commit_head_split st f rest Hs Hf) in H. apply bind_inv in H. destruct H as [[s1 [H1 H2]]|[H1 Hn]].
  2:{ destruct (flush_loop_core 98 st gs r st' C H1 Hr) as [C1 P1].
      destruct P1 as (A1 & A2 & A3 & A4 & A5 & A6 & A7 & A8 & A9).
      repeat split; auto. left. split; [exact Hn|]. split; [exact C1|]. repeat split; auto. }
  destruct (flush_loop_core 98 st gs Ok s1 C H1) as [C1 P1]; [discriminate|].
  destruct P1 as (A1 & A2 & A3 & A4 & A5 & A6 & A7 & A8 & A9). destruct (A8 eq_refl) as [Cl [Hh Kg]].
  destruct (stack s1) as [|f1 rest1] eqn:Hs1.
  { unfold hd_state in Hh. rewrite Hs, Hs1 in Hh. discriminate. }
  assert (Hf1 : fstate f1 = ACTIVE) by (unfold hd_state in Hh; rewrite Hs, Hs1 in Hh; congruence).
  rewrite Hs in A7. cbn [tl] in A7.
  unfold KsGrow in Kg. rewrite Hs, Hs1 in Kg.
  destruct (Core_shape s1 gs f1 rest1 C1 Hs1) as [g [gs' Eg]]. subst gs.
  destruct rest as [|p rest'].
  - (* the outermost transaction *)
    destruct rest1 as [|x1 r1]; [|discriminate].
    assert (Hn1 : fnested f1 = false).
    { destruct C1 as [_ _ D _ _]. destruct D as [D1 _ _ _]. rewrite Hs1 in D1. cbn in D1. destruct D1 as [_ [_ [F3 _]]].
      destruct (fnested f1); auto. destruct F3 as [F3 _]. exfalso. apply (F3 eq_refl). reflexivity. }
    rewrite (commit_tail_root s1 f1 Hs1 Hn1 Hf1) in H2. inversion H2; subst r st'.
    destruct (root_final_core s1 g gs' f1 C1 Hs1 Hf1 Cl) as (R1 & R2 & R3 & R4 & R5 & R6 & R7 & R8 & R9).
    split; [congruence|]. split; [congruence|]. split; [congruence|].
    right. split; [reflexivity|]. exists []. split; [exact R1|]. split; [exact R3|exact R2].
  - (* a savepoint *)
    destruct rest1 as [|p1 rest1']; [discriminate|].
    cbn [map] in A7. injection A7 as Q1 Q2 Q3 Q4 Q5 Q6 Q7 Q8 Q9.
    assert (Hg : forall x, ks_find x (fks f1) <> None -> ks_find x (fks p1) = None).
    { intros x Hx. cbn [map firstn PD] in HP. destruct HP as [HP _]. rewrite Q4.
      destruct (ks_find x (fks p)) eqn:E; auto. exfalso. apply (HP x); [|unfold kdom; rewrite E; discriminate].
      unfold hdA. rewrite Hs. destruct (Kg x Hx) as [K|K]; [left; exact K|right; exact K]. }
    destruct (nested_final_core s1 g gs' f1 p1 rest1' C1 Hs1 Hf1 Cl Hg) as [CF [Hn1 Hsv]].
    rewrite (commit_tail_nested s1 f1 p1 rest1' Hs1 Hn1 Hf1 Hsv) in H2. inversion H2; subst r st'.
    assert (E : nobj (nested_final s1 f1 p1 rest1') = nobj s1 /\ handles (nested_final s1 f1 p1 rest1') = handles s1 /\
                eoc (nested_final s1 f1 p1 rest1') = eoc s1 /\ stack (nested_final s1 f1 p1 rest1') = merge_into p1 f1 :: rest1' /\
                is_clean (nested_final s1 f1 p1 rest1') = is_clean s1).
    { unfold nested_final. destruct (fconn f1); cbn; repeat split; reflexivity. }
    destruct E as (E1 & E2 & E3 & E4 & E5).
    split; [congruence|]. split; [congruence|]. split; [congruence|].
    right. split; [reflexivity|]. exists gs'. split; [exact CF|]. split; [congruence|].
    exists (merge_into p1 f1), rest1'. split; [exact E4|]. split; [exact Q9|].
    split; [apply (f_equal (@length _)) in Q9; rewrite !map_length in Q9; exact Q9|].
    split; [cbn; destruct C1 as [_ _ D _ _]; destruct D as [D1 _ _ _]; rewrite Hs1 in D1; cbn in D1;
            destruct D1 as [_ [_ [_ [_ F5]]]]; apply F5; left; reflexivity|].
    split; [cbn; congruence|].
    split; [|unfold nested_final; destruct (fconn f1); cbn; congruence].
    intros x Hx. unfold kdom in Hx.
    assert (Hk : ks_find x (fks (merge_into p1 f1)) = match ks_find x (fks f1) with Some e => Some e | None => ks_find x (fks p1) end).
    { unfold merge_into. cbn. apply ks_find_fold.
      destruct C1 as [_ _ _ Ch _]. unfold Chain in Ch. rewrite Hs1, Hf1 in Ch. destruct Ch as [_ [R _]]. apply (r_ksu _ _ _ _ _ _ _ R). }
    rewrite Hk in Hx. destruct (ks_find x (fks f1)) eqn:E.
    + left. unfold hdA. rewrite Hs. assert (X : ks_find x (fks f1) <> None) by (rewrite E; discriminate).
      destruct (Kg x X) as [K|K]; [left; exact K|right; exact K].
    + right. unfold kdom. rewrite <- Q4. exact Hx.
Qed.

Lemma PD_after_commit : forall st gs f p rest' st1 gs1 m rest2, Core st gs -> Core st1 gs1 -> stack st = f :: p :: rest' ->
  PD (hdA st) (map fks (p :: rest')) -> is_clean st1 = true -> stack st1 = m :: rest2 -> map fks rest2 = map fks rest' ->
  (forall x, kdom (fks m) x -> hdA st x \/ kdom (fks p) x) ->
  PD (hdA st1) (map fks rest2).
Proof.
  intros st gs f p rest' st1 gs1 m rest2 C C1 Hs HP Hcl Hs1 Hk Hm.
  cbn [map PD] in HP. destruct HP as [_ HP]. rewrite Hk. eapply PD_mono; [|exact HP].
  intros x Hx. unfold hdA in Hx. rewrite Hs1 in Hx. destruct Hx as [Hx|Hx]; [apply Hm; exact Hx|].
  exfalso. eapply clean_no_pend; eauto.
Qed.

(* Session.commit(): every frame, innermost first *)
Lemma commit_all_core : forall fuel st gs r st', Core st gs -> PD (hdA st) (map fks (tl (stack st))) ->
  length (stack st) < fuel -> commit_all fuel st = (r, st') -> r <> Unmodelled ->
  exists gs', Core st' gs' /\ (r = Ok -> stack st' = [] /\ is_clean st' = true).
Proof.
  induction fuel as [|fuel IH]; intros st gs r st' C HP Hl H Hr; [lia|].
  cbn [commit_all] in H. destruct (stack st) as [|f rest] eqn:Hs.
  { inversion H; subst. exists gs. split; [exact C|]. intros _. split; [exact Hs|]. exact (c_empty _ _ C Hs). }
  cbn [tl] in HP.
  apply bind_inv in H. destruct H as [[s1 [H1 H2]]|[H1 Hn]].
  - destruct (commit_head_core st gs f rest Ok s1 C Hs (PD_firstn _ _ 1 HP) H1) as (_ & _ & _ & [[X _]|[_ [gs1 [C1 [Cl1 CD]]]]]);
      [discriminate|congruence|].
    destruct rest as [|p rest'].
    + destruct fuel as [|fuel']; [cbn in Hl; lia|]. cbn [commit_all] in H2. rewrite CD in H2. inversion H2; subst.
      exists gs1. split; [exact C1|]. auto.
    + destruct CD as (m & rest2 & S1 & K1 & L1 & M1 & I1 & D1 & _).
      apply (IH s1 gs1 r st' C1); auto.
      * rewrite S1. cbn [tl]. apply (PD_after_commit st gs f p rest' s1 gs1 m rest2); auto. apply lists_fks; exact K1.
      * rewrite S1. cbn in *. lia.
  - destruct (commit_head_core st gs f rest r st' C Hs (PD_firstn _ _ 1 HP) H1 Hr) as (_ & _ & _ & [[X [C1 _]]|[X _]]); [|congruence].
    exists gs. split; [exact C1|]. intros Y. congruence.
Qed.

(* handle.commit(): the frames above the handle's frame, innermost first, then the frame itself *)
Lemma fup_head : forall n p r, exists X, frames_upto_parent n (p :: r) = p :: X.
Proof. intros. cbn. destruct (Nat.eqb (fid p) n); eauto. Qed.

Lemma fup_lists : forall n a b, map lists_of a = map lists_of b ->
  map fks (frames_upto_parent n a) = map fks (frames_upto_parent n b).
Proof.
  intros n. induction a as [|x a IH]; intros [|y b] Q; try discriminate; auto.
  cbn in Q. injection Q as E1 E2 E3 E4 E5 E6 E7 E8 E9. cbn [frames_upto_parent]. rewrite E6.
  destruct (Nat.eqb (fid y) n).
  - cbn [map]. rewrite E4. f_equal. rewrite <- !firstn_map. f_equal. apply lists_fks. exact E9.
  - cbn [map]. rewrite E4. f_equal. apply IH. exact E9.
Qed.

Lemma commit_upto_core : forall fuel n st gs r st', Core st gs ->
  PD (hdA st) (map fks (tl (frames_upto_parent n (stack st)))) ->
  commit_upto fuel n st = (r, st') -> r <> Unmodelled ->
  exists gs', Core st' gs' /\ (r = Ok -> is_clean st' = true) /\
    (committed st' = committed st \/ (r = Ok /\ stack st' = [])).
Proof.
  induction fuel as [|fuel IH]; intros n st gs r st' C HP H Hr; [inversion H; subst; congruence|].
  cbn [commit_upto] in H. unfold head_is in H.
  destruct (stack st) as [|f rest] eqn:Hs.
  { (* no transaction: commit_head is outside the model *)
    apply bind_inv in H. unfold commit_head in H. rewrite Hs in H. destruct H as [[s1 [H1 _]]|[H1 _]]; inversion H1; subst; congruence. }
  cbn [frames_upto_parent] in HP.
  destruct (Nat.eqb (fid f) n) eqn:En.
  - cbn [tl] in HP. rewrite <- firstn_map in HP.
    destruct (commit_head_core st gs f rest r st' C Hs HP H Hr) as (_ & _ & _ & [[X [C1 [K1 _]]]|[X [gs1 [C1 [Cl1 CD]]]]]).
    + exists gs. split; [exact C1|]. split; [intros Y; congruence|left; exact K1].
    + exists gs1. split; [exact C1|]. split; [auto|].
      destruct rest as [|p rest']; [right; auto|]. destruct CD as (m & rest2 & _ & _ & _ & _ & _ & _ & K). left; exact K.
  - cbn [tl] in HP.
    assert (HP1 : PD (hdA st) (firstn 1 (map fks rest))).
    { destruct rest as [|p rest']; [exact I|]. destruct (fup_head n p rest') as [X EX]. rewrite EX in HP.
      cbn [map firstn PD] in *. destruct HP as [A _]. split; [exact A|exact I]. }
    apply bind_inv in H. destruct H as [[s1 [H1 H2]]|[H1 Hn]].
    + destruct (commit_head_core st gs f rest Ok s1 C Hs HP1 H1) as (_ & _ & _ & [[X _]|[_ [gs1 [C1 [Cl1 CD]]]]]);
        [discriminate|congruence|].
      destruct rest as [|p rest'].
      * (* the outermost transaction was committed and the handle's frame was not found: outside the model *)
        destruct fuel; cbn [commit_upto] in H2; [inversion H2; subst; congruence|].
        unfold head_is in H2. rewrite CD in H2. apply bind_inv in H2. unfold commit_head in H2. rewrite CD in H2.
        destruct H2 as [[s2 [X _]]|[X _]]; inversion X; subst; congruence.
      * destruct CD as (m & rest2 & S1 & K1 & L1 & M1 & I1 & D1 & Kc).
        assert (Goal' : exists gs', Core st' gs' /\ (r = Ok -> is_clean st' = true) /\
                          (committed st' = committed s1 \/ (r = Ok /\ stack st' = []))).
        2:{ destruct Goal' as [gs2 [G1 [G2 [G3|G3]]]]; exists gs2; split; auto; split; auto. left. congruence. }
        apply (IH n s1 gs1 r st' C1); auto.
        rewrite S1. cbn [frames_upto_parent]. rewrite I1.
        cbn [frames_upto_parent] in HP.
        assert (Q : PD (hdA s1) (map fks (tl (p :: (if Nat.eqb (fid p) n then firstn 1 rest' else frames_upto_parent n rest'))))).
        { cbn [tl]. destruct (Nat.eqb (fid p) n); cbn [map PD] in HP; destruct HP as [_ HP];
            (eapply PD_mono; [|exact HP]); intros x Hx; unfold hdA in Hx; rewrite S1 in Hx;
            (destruct Hx as [Hx|Hx]; [apply D1; exact Hx|exfalso; eapply clean_no_pend; eauto]). }
        destruct (Nat.eqb (fid p) n); cbn [tl] in *.
        -- rewrite <- firstn_map. rewrite (lists_fks _ _ K1). rewrite firstn_map. exact Q.
        -- rewrite (fup_lists n rest2 rest' K1). exact Q.
    + destruct (commit_head_core st gs f rest r st' C Hs HP1 H1 Hr) as (_ & _ & _ & [[X [C1 [K1 _]]]|[X _]]); [|congruence].
      exists gs. split; [exact C1|]. split; [intros Y; congruence|left; exact K1].
Qed.

(* ------------------------------------------------------------------ the boolean guard g2 gives PD *)
Lemma ks_find_in : forall x l, ks_find x l <> None <-> In x (map fst l).
Proof.
  intros x l. split.
  - intros H. destruct (in_dec Nat.eq_dec x (map fst l)) as [I|N]; auto. exfalso. apply H. apply ks_find_notin. exact N.
  - induction l as [|[a p] l IH]; cbn; [tauto|]. intros [E|E].
    + subst. rewrite Nat.eqb_refl. discriminate.
    + destruct (Nat.eqb a x); [discriminate|auto].
Qed.

Lemma PD_of_disjoint : forall (r : list frame) (A : nat -> Prop),
  (forall x, A x -> forall q, In q r -> ~ kdom (fks q) x) -> disjoint_all (map ks_dom r) = true -> PD A (map fks r).
Proof.
  induction r as [|p r IH]; intros A HA HD; cbn [map PD]; auto.
  cbn [map disjoint_all] in HD. apply andb_prop in HD. destruct HD as [HD1 HD2]. split.
  - intros x Hx. apply (HA x Hx p). left; reflexivity.
  - apply IH; auto. intros x [Hx|Hx] q Hq.
    + apply (HA x Hx q). right; exact Hq.
    + intros Hk. apply ks_find_in in Hx. apply ks_find_in in Hk.
      rewrite forallb_forall in HD1. specialize (HD1 x Hx). apply negb_true_iff in HD1.
      assert (X : existsb (mem x) (map ks_dom r) = true).
      { apply existsb_exists. exists (ks_dom q). split; [apply in_map; exact Hq|apply mem_In; exact Hk]. }
      congruence.
Qed.

Lemma guard_PD : forall st gs f r, Core st gs -> (exists rest, stack st = f :: rest) ->
  disjoint_all ((ks_dom f ++ pending_switch st) :: map ks_dom r) = true -> PD (hdA st) (map fks r).
Proof.
  intros st gs f r C [rest Hs] H. cbn [disjoint_all] in H. apply andb_prop in H. destruct H as [H1 H2].
  apply PD_of_disjoint; auto. intros x Hx q Hq Hk.
  assert (Hin : In x (ks_dom f ++ pending_switch st)).
  { unfold hdA in Hx. rewrite Hs in Hx. apply in_or_app. destruct Hx as [Hx|[X1 X2]].
    - left. apply ks_find_in. exact Hx.
    - right. unfold pending_switch. apply filter_In. split; [|rewrite X1, X2; reflexivity].
      apply in_seq. destruct (g_in _ _ _ _ _ (c_good _ _ C) x X1) as [Y _]. cbn. lia. }
  rewrite forallb_forall in H1. specialize (H1 x Hin). apply negb_true_iff in H1.
  assert (X : existsb (mem x) (map ks_dom r) = true).
  { apply existsb_exists. exists (ks_dom q). split; [apply in_map; exact Hq|apply mem_In; apply ks_find_in; exact Hk]. }
  congruence.
Qed.

Lemma t_commit_core : forall st gs n r st', Core st gs -> g2_ok st n = true -> t_commit n st = (r, st') -> r <> Unmodelled ->
  exists gs', Core st' gs' /\ (r = Ok -> is_clean st' = true) /\
    (committed st' = committed st \/ (r = Ok /\ stack st' = [])).
Proof.
  intros st gs n r st' C Hg H Hr. unfold t_commit in H.
  destruct (find_frame n st) as [fr|] eqn:Ef; [|inversion H; subst; exists gs; split; [exact C|split; [intros X; discriminate|left; reflexivity]]].
  assert (HP : PD (hdA st) (map fks (tl (frames_upto_parent n (stack st))))).
  { unfold g2_ok in Hg. destruct (stack st) as [|f rest] eqn:Hs; [exact I|].
    destruct (fup_head n f rest) as [X EX]. rewrite EX in *. cbn [tl].
    rewrite <- Hs in EX. apply (guard_PD st gs f X C); eauto. }
  destruct (check_prereq fr M_commit); [inversion H; subst; exists gs; split; [exact C|split; [intros X; discriminate|left; reflexivity]]|].
  destruct (tstate_eqb (fstate fr) PREPARED).
  - eapply commit_upto_core; eauto.
  - destruct (check_prereq fr M_prepare); [inversion H; subst; exists gs; split; [exact C|split; [intros X; discriminate|left; reflexivity]]|].
    eapply commit_upto_core; eauto.
Qed.
