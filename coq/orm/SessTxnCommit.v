(* C33 - commit under the whole invariant. *)
From Coq Require Import List ZArith Bool Arith Lia.
Import ListNotations.
From SAV.orm Require Import SessTxn SessTxnBase SessTxnSpec SessTxnInv SessTxnOps SessTxnRestore SessTxnRestore2
  SessTxnShift SessTxnStmts SessTxnFlush SessTxnDbInv SessTxnCore SessTxnFlushCore SessTxnTx SessTxnMerge.
Open Scope nat_scope.

Definition FlushPost (st : sess) (r : res) (st' : sess) : Prop :=
  ids st' = ids st /\ nfid st' = nfid st /\ committed st' = committed st /\
  nobj st' = nobj st /\ handles st' = handles st /\ eoc st' = eoc st /\
  map lists_of (tl (stack st')) = map lists_of (tl (stack st)) /\
  (r = Ok -> is_clean st' = true /\ hd_state st' = hd_state st /\ KsGrow st st') /\
  (r <> Ok -> hd_state st' = hd_state st \/ (hd_state st = Some ACTIVE /\ hd_state st' = Some DEACTIVE /\ is_clean st' = true)).

Lemma flush_core : forall st gs r st', Core st gs -> flush st = (r, st') -> r <> Unmodelled ->
  Core st' gs /\ FlushPost st r st'.
Proof.
  intros st gs r st' C H Hr.
  exact (flush_with_core flush_body flush_body_inner st gs r st' C H Hr).
Qed.

Lemma FlushPost_refl : forall st, is_clean st = true -> FlushPost st Ok st.
Proof. intros st H. unfold FlushPost. repeat split; auto; try apply KsGrow_refl; intros X; congruence. Qed.

Lemma flush_loop_core : forall n st gs r st', Core st gs -> flush_loop (S (S n)) st = (r, st') -> r <> Unmodelled ->
  Core st' gs /\ FlushPost st r st'.
Proof.
  intros n st gs r st' C H Hr. cbn [flush_loop] in H.
  destruct (is_clean st) eqn:Ecl.
  { inversion H; subst. split; [exact C|]. apply FlushPost_refl; auto. }
  apply bind_inv in H. destruct H as [[s1 [H1 H2]]|[H1 Hn]].
  - destruct (flush_core st gs Ok s1 C H1) as [C1 P1]; [discriminate|].
    destruct P1 as (A1 & A2 & A3 & A4 & A5 & A6 & A7 & A8 & A9). destruct (A8 eq_refl) as [Cl [Hh Kg]].
    cbn [flush_loop] in H2. rewrite Cl in H2. inversion H2; subst r st'.
    split; [exact C1|]. unfold FlushPost. repeat split; auto; try (intros X; congruence).
  - exact (flush_core st gs r st' C H1 Hr).
Qed.

(* ------------------------------------------------------------------ SessionTransaction.commit of the innermost frame *)
Definition commit_tail : M :=
  (lift (set_head_state PREPARED) ;; check_moves M_prepare PREPARED) ;;
  (head_db_commit ;; lift (set_head_state COMMITTED) ;; lift remove_snapshot ;; close_head ;; check_moves M_commit CLOSED).

Lemma commit_head_split : forall st f rest, stack st = f :: rest -> fstate f = ACTIVE ->
  commit_head st = (flush_loop 100 ;; commit_tail) st.
Proof.
  intros st f rest Hs Hf. unfold commit_head. rewrite Hs.
  assert (E1 : check_prereq f M_commit = None) by (unfold check_prereq; rewrite Hf; reflexivity).
  rewrite E1.
  assert (E2 : forall X : M, (prepare_head ;; X) st = ((flush_loop 100 ;; lift (set_head_state PREPARED) ;; check_moves M_prepare PREPARED) ;; X) st).
  { intros X. unfold bind at 1. unfold bind at 3. unfold prepare_head. rewrite Hs, Hf. cbn [tstate_eqb].
    assert (E3 : check_prereq f M_prepare = None) by (unfold check_prereq; rewrite Hf; reflexivity).
    rewrite E3. reflexivity. }
  rewrite E2. unfold commit_tail. rewrite bind_assoc. reflexivity.
Qed.

Definition root_final (st : sess) (f : frame) : sess :=
  let st2 := if fconn f then db_commit st else st in
  let st3 := if eoc st
             then map_objs st2 (fun x o => let o1 := if oin o then expire_obj o else o in
                                           if mem x (fdel f) then detach_obj false o1 else o1)
             else st2 in
  set_stack st3 [].

Lemma commit_tail_root : forall st f, stack st = [f] -> fnested f = false -> fstate f = ACTIVE ->
  commit_tail st = (Ok, root_final st f).
Proof.
  intros st f Hs Hn Hf. destruct st as [e n ob sn sd stk hs cm wk sv nf]. cbn in Hs. subst stk.
  unfold commit_tail, root_final, bind, lift, check_moves, head_db_commit, close_head, remove_snapshot, set_head_state, upd_head,
    set_stack, db_commit, set_db, map_objs, set_objs, ret.
  cbn. rewrite Hn. cbn. destruct (fconn f) eqn:Ec; destruct e; cbn; rewrite ?Hn, ?Ec; cbn; rewrite ?andb_false_r; reflexivity.
Qed.

(* the outermost commit: the connection's rows become the committed rows, the snapshot is dropped (with
   expire_on_commit every object of the identity map is expired, the deleted ones are detached) *)
Lemma root_final_core : forall st g gs' f, Core st (g :: gs') -> stack st = [f] -> fstate f = ACTIVE -> is_clean st = true ->
  Core (root_final st f) [] /\ stack (root_final st f) = [] /\ is_clean (root_final st f) = true /\
  committed (root_final st f) = work st /\ work (root_final st f) = work st /\
  nobj (root_final st f) = nobj st /\ handles (root_final st f) = handles st /\ eoc (root_final st f) = eoc st /\
  nfid (root_final st f) = nfid st.
Proof.
  intros st g gs' f C Hs Hf Hcl. destruct C as [G Jh D Ch Em].
  apply is_clean_spec in Hcl. destruct Hcl as [Hsn [Hsd Hmod]].
  unfold GoodS in G. rewrite Hsn, Hsd in G.
  unfold Chain in Ch. rewrite Hs, Hf in Ch. destruct Ch as [GC [R _]]. rewrite Hsn, Hsd in R.
  destruct D as [D1 D2 D4 D5]. rewrite Hs in D1, D4, D5. destruct D5 as [D5 D6].
  cbn [FramesOk] in D1. destruct D1 as [F1 [_ [F3 _]]].
  assert (Hn : fnested f = false). { destruct (fnested f); auto. destruct F3 as [F3 _]. exfalso. apply (F3 eq_refl). reflexivity. }
  assert (Hsv : saves st = []). { rewrite D5. cbn. unfold live_conn. rewrite Hn, andb_false_r. cbn. destruct gs'; reflexivity. }
  assert (Hcw : fconn f = false -> work st = committed st).
  { intros X. apply D4. intros f' [Y|[]]. subst; auto. }
  (* the objects *)
  set (ob' := fun x => let o := objs st x in
                let o1 := if oin o then expire_obj o else o in
                if mem x (fdel f) then detach_obj false o1 else o1).
  assert (Hdel : forall x, mem x (fdel f) = true -> oin (objs st x) = false /\ odelf (objs st x) = true /\ oatt (objs st x) = true).
  { intros x Hx. destruct (r_del _ _ _ _ _ _ _ R x Hx) as [_ [A [B [E _]]]]. auto. }
  assert (Hk : forall x, okey (ob' x) = okey (objs st x) /\ odelf (ob' x) = odelf (objs st x) /\ oin (ob' x) = oin (objs st x)).
  { intros x. unfold ob'. cbn zeta. destruct (mem x (fdel f)) eqn:E1, (oin (objs st x)) eqn:E2; cbn; rewrite ?E2; auto. }
  assert (Hatt : forall x, oatt (ob' x) = true -> mem x (fdel f) = false /\ oatt (objs st x) = true).
  { intros x. unfold ob'. cbn zeta. destruct (mem x (fdel f)); [cbn; discriminate|]. destruct (oin (objs st x)) eqn:E2; cbn; auto. }
  assert (Hsame : forall x, mem x (fdel f) = false -> oin (objs st x) = false -> ob' x = objs st x).
  { intros x A B. unfold ob'. cbn zeta. rewrite A, B. reflexivity. }
  assert (Hexp : forall x, oin (objs st x) = true -> ob' x = expire_obj (objs st x)).
  { intros x A. unfold ob'. cbn zeta. rewrite A. destruct (mem x (fdel f)) eqn:E; auto. destruct (Hdel x E). congruence. }
  assert (G' : Good ob' (nobj st) (work st) [] []).
  { destruct G as [g1 g2 g3 g4 g5 g5' g6 g6' g7 g8]. constructor.
    - intros o H. destruct (Hk o) as [K1 [K2 K3]]. rewrite K3 in H. destruct (g1 o H) as [A [B [E F]]].
      rewrite (Hexp o H). cbn. auto.
    - intros o1 o2 k H1 H2 K1 K2. destruct (Hk o1) as [A1 [_ A3]]. destruct (Hk o2) as [B1 [_ B3]].
      rewrite A3 in H1. rewrite B3 in H2. rewrite A1 in K1. rewrite B1 in K2. eauto.
    - intros o k Ho K A B. destruct (Hk o) as [K1 [K2 K3]]. destruct (Hatt o A) as [_ A']. rewrite K3. rewrite K1 in K. rewrite K2 in B. eauto.
    - intros o k H K. destruct (Hk o) as [K1 [K2 K3]]. rewrite K3 in H. rewrite K1 in K.
      destruct (g4 o k H K) as [v [V1 V2]]. exists v. split; auto. rewrite (Hexp o H).
      unfold VA, expire_obj. cbn. repeat split; auto; try discriminate; try (intros; discriminate); intros X; congruence.
    - intros o. split; [intros []|]. intros [A [B E]]. destruct (Hk o) as [K1 _]. destruct (Hatt o E) as [_ E'].
      apply (g5 o). rewrite K1 in B. auto.
    - intros o Ho K. destruct (Hk o) as [K1 [K2 _]]. rewrite K2. rewrite K1 in K. auto.
    - intros o [].
    - split; constructor.
    - intros o k Ho K A B. destruct (Hk o) as [K1 [K2 K3]]. destruct (Hatt o A) as [_ A']. rewrite K1 in K. rewrite K2 in B.
      destruct (g7 o k Ho K A' B) as [X|[o' [X1 X2]]]; [left; auto|right].
      exists o'. destruct (Hk o') as [L1 [_ L3]]. rewrite L1, L3. auto.
    - intros o Ho K A B. destruct (Hk o) as [K1 [K2 K3]]. destruct (Hatt o A) as [Nd A']. rewrite K1 in K. rewrite K2 in B.
      assert (Ni : oin (objs st o) = false).
      { destruct (oin (objs st o)) eqn:E; auto. destruct (g1 o E) as [_ [_ [X _]]]. congruence. }
      rewrite (Hsame o Nd Ni). apply g8; auto. }
  assert (J' : J ob' (nobj st)).
  { intros o Ho. specialize (Jh o Ho). unfold ob'. cbn zeta.
    destruct (mem o (fdel f)), (oin (objs st o)); cbn; auto; repeat split; auto; try discriminate; intros X; congruence. }
  assert (Cl' : forall o, oin (ob' o) = true -> omod (ob' o) = false).
  { intros o H. destruct (Hk o) as [_ [_ K3]]. rewrite K3 in H. rewrite (Hexp o H). reflexivity. }
  unfold root_final.
  assert (Main : forall st3, stack st3 = [] -> (objs st3 = objs st \/ objs st3 = ob') -> nobj st3 = nobj st -> snew st3 = [] -> sdel st3 = [] ->
            work st3 = work st -> committed st3 = work st -> saves st3 = [] ->
            Core st3 [] /\ is_clean st3 = true).
  { intros st3 S3 O3 N3 A3 B3 W3 M3 V3.
    assert (Hc3 : is_clean st3 = true).
    { apply is_clean_spec. rewrite A3, B3, N3. repeat split; auto. intros o Ho Hi.
      destruct O3 as [O3|O3]; rewrite O3 in *; [apply Hmod; auto|apply Cl'; auto]. }
    split; [|exact Hc3]. constructor.
    - unfold GoodS. rewrite N3, A3, B3, W3. destruct O3 as [O3|O3]; rewrite O3; auto.
    - rewrite N3. destruct O3 as [O3|O3]; rewrite O3; auto.
    - constructor; rewrite ?S3; cbn; auto.
      + intros _. congruence.
      + split; [rewrite V3; reflexivity|exact I].
    - unfold Chain. rewrite S3. exact I.
    - intros _. exact Hc3. }
  assert (Hcw' : fconn f = false -> committed st = work st) by (intros X; symmetry; auto).
  destruct (fconn f) eqn:Ec; destruct (eoc st) eqn:Ee; cbv zeta;
    match goal with |- Core ?S [] /\ _ =>
      assert (M : Core S [] /\ is_clean S = true);
      [apply Main; cbn; auto; try (right; reflexivity); try (left; reflexivity)
      |destruct M as [M1 M2]; split; [exact M1|]; split; [reflexivity|]; split; [exact M2|]; cbn; repeat split; auto]
    end.
Qed.

Lemma ids_one : forall st st' f, ids st' = ids st -> stack st = [f] -> exists f', stack st' = [f'] /\ fid f' = fid f /\ fnested f' = fnested f.
Proof.
  intros st st' f H Hs. unfold ids in H. rewrite Hs in H. destruct (stack st') as [|f' [|x r]]; try discriminate.
  cbn in H. inversion H. eauto.
Qed.

(* SessionTransaction.commit of the outermost transaction *)
Lemma commit_head_root_core : forall st gs f r st', Core st gs -> stack st = [f] -> commit_head st = (r, st') -> r <> Unmodelled ->
  (r = Ok /\ Core st' [] /\ stack st' = [] /\ is_clean st' = true /\ nobj st' = nobj st /\ handles st' = handles st /\ eoc st' = eoc st) \/
  (r <> Ok /\ Core st' gs /\ nobj st' = nobj st /\ handles st' = handles st /\ eoc st' = eoc st /\ committed st' = committed st).
Proof.
  intros st gs f r st' C Hs H Hr.
  destruct (Core_head_state st gs f [] C Hs) as [Hf|Hf].
  2:{ unfold commit_head in H. rewrite Hs in H. unfold check_prereq in H. rewrite Hf in H. cbn in H.
      inversion H; subst. right. split; [discriminate|]. split; [exact C|]. repeat split; reflexivity. }
  rewrite (commit_head_split st f [] Hs Hf) in H. apply bind_inv in H. destruct H as [[s1 [H1 H2]]|[H1 Hn]].
  - destruct (flush_loop_core 98 st gs Ok s1 C H1) as [C1 P1]; [discriminate|].
    destruct P1 as (A1 & A2 & A3 & A4 & A5 & A6 & A7 & A8 & A9). destruct (A8 eq_refl) as [Cl [Hh Kg]].
    destruct (ids_one st s1 f A1 Hs) as [f1 [Hs1 [I1 I2]]].
    assert (Hf1 : fstate f1 = ACTIVE).
    { unfold hd_state in Hh. rewrite Hs, Hs1 in Hh. congruence. }
    destruct (Core_shape s1 gs f1 [] C1 Hs1) as [g [gs' Eg]]. subst gs.
    assert (Hn1 : fnested f1 = false).
    { destruct C1 as [_ _ D _ _]. destruct D as [D1 _ _ _]. rewrite Hs1 in D1. cbn in D1. destruct D1 as [_ [_ [F3 _]]].
      destruct (fnested f1); auto. destruct F3 as [F3 _]. exfalso. apply (F3 eq_refl). reflexivity. }
    rewrite (commit_tail_root s1 f1 Hs1 Hn1 Hf1) in H2. inversion H2; subst r st'.
    destruct (root_final_core s1 g gs' f1 C1 Hs1 Hf1 Cl) as (R1 & R2 & R3 & R4 & R5 & R6 & R7 & R8 & R9).
    left. split; [reflexivity|]. split; [exact R1|]. split; [exact R2|]. split; [exact R3|]. repeat split; congruence.
  - destruct (flush_loop_core 98 st gs r st' C H1 Hr) as [C1 P1].
    destruct P1 as (A1 & A2 & A3 & A4 & A5 & A6 & A7 & A8 & A9).
    right. split; [exact Hn|]. split; [exact C1|]. repeat split; congruence.
Qed.

(* ------------------------------------------------------------------ releasing a savepoint *)
Definition nested_final (st : sess) (f p : frame) (rest' : list frame) : sess :=
  let st2 := if fconn f then set_db st (committed st) (work st) (tl (saves st)) else st in
  set_stack st2 (merge_into p f :: rest').

Lemma commit_tail_nested : forall st f p rest', stack st = f :: p :: rest' -> fnested f = true -> fstate f = ACTIVE ->
  (fconn f = true -> exists w r, saves st = (fid f, w) :: r) ->
  commit_tail st = (Ok, nested_final st f p rest').
Proof.
  intros st f p rest' Hs Hn Hf Hsv. destruct st as [e n ob sn sd stk hs cm wk sv nf]. cbn in Hs, Hsv. subst stk.
  unfold commit_tail, nested_final, bind, lift, check_moves, head_db_commit, close_head, remove_snapshot, set_head_state, upd_head,
    set_stack, db_release, set_db, ret.
  cbn. rewrite Hn. cbn. destruct (fconn f) eqn:Ec.
  - destruct (Hsv eq_refl) as [w [r E]]. subst sv. cbn. rewrite Nat.eqb_refl. cbn. rewrite Hn. cbn. rewrite andb_false_r.
    unfold merge_into. cbn. reflexivity.
  - cbn. rewrite ?Hn, ?Ec. cbn. rewrite ?andb_false_r, ?Ec. cbn. unfold merge_into. cbn. reflexivity.
Qed.

Lemma merge_skel : forall p f, skel (merge_into p f) = skel p.
Proof. intros. reflexivity. Qed.

Lemma nested_final_core : forall st g gs' f p rest', Core st (g :: gs') -> stack st = f :: p :: rest' -> fstate f = ACTIVE ->
  is_clean st = true ->
  Core (nested_final st f p rest') gs' /\ fnested f = true /\
  (fconn f = true -> exists w r, saves st = (fid f, w) :: r).
Proof.
  intros st g gs' f p rest' C Hs Hf Hcl. destruct C as [G Jh D Ch Em].
  pose proof Hcl as Hcl0. apply is_clean_spec in Hcl. destruct Hcl as [Hsn [Hsd Hmod]].
  unfold Chain in Ch. rewrite Hs, Hf in Ch. destruct Ch as [GC [R CG]].
  destruct gs' as [|gp gs'']; [destruct CG|]. cbn [ChainG] in CG. destruct CG as [GCp [L CG']].
  destruct D as [D1 D2 D4 D5]. rewrite Hs in D1, D4, D5. destruct D5 as [D5 D6].
  cbn [FramesOk] in D1. destruct D1 as [F1 [F2 [F3 [F4 F5]]]].
  assert (Hn : fnested f = true) by (apply (proj2 F3); discriminate).
  assert (Hp : fstate p = ACTIVE) by (apply F5; left; reflexivity).
  assert (Hent : entries (f :: p :: rest') (g :: gp :: gs'') =
                 if fconn f then (fid f, gW g) :: entries (p :: rest') (gp :: gs'') else entries (p :: rest') (gp :: gs'')).
  { cbn [entries]. unfold live_conn at 1. rewrite Hn, Hf. cbn [live_state]. rewrite !andb_true_r. reflexivity. }
  split; [|split; [exact Hn|]].
  2:{ intros Ec. rewrite D5, Hent, Ec. eauto. }
  assert (Hsv' : saves (nested_final st f p rest') = entries (p :: rest') (gp :: gs'')).
  { unfold nested_final. destruct (fconn f) eqn:Ec; cbn; rewrite D5, Hent; reflexivity. }
  assert (Hsame : objs (nested_final st f p rest') = objs st /\ nobj (nested_final st f p rest') = nobj st /\
                  snew (nested_final st f p rest') = snew st /\ sdel (nested_final st f p rest') = sdel st /\
                  work (nested_final st f p rest') = work st /\ committed (nested_final st f p rest') = committed st /\
                  nfid (nested_final st f p rest') = nfid st /\ stack (nested_final st f p rest') = merge_into p f :: rest').
  { unfold nested_final. destruct (fconn f); cbn; repeat split; reflexivity. }
  destruct Hsame as (E1 & E2 & E3 & E4 & E5 & E6 & E7 & E8).
  assert (Hsk : map skel (p :: rest') = map skel (merge_into p f :: rest')) by reflexivity.
  constructor.
  - unfold GoodS. rewrite E1, E2, E3, E4, E5. exact G.
  - rewrite E1, E2. exact Jh.
  - constructor; rewrite ?E5, ?E6, ?E7, ?E8.
    + eapply FramesOk_skel; [exact Hsk|]. eapply FramesOk_weaken; [exact F2|lia].
    + left. exact Hp.
    + intros Hnc.
      assert (Ecp : fconn p = false) by (apply (Hnc (merge_into p f)); left; reflexivity).
      assert (Ecf : fconn f = false).
      { destruct (fconn f) eqn:Ec; auto. rewrite (F4 eq_refl p (or_introl eq_refl)) in Ecp. discriminate. }
      apply D4. intros f' [X|[X|X]]; [subst; auto|subst; auto|].
      apply (Hnc f'). right. exact X.
    + eapply SavesOk_skel; [exact Hsk|]. split; [exact Hsv'|].
      cbn [SnapOk] in D6. destruct D6 as [Q1 Q2].
      destruct (fconn p) eqn:Ecp.
      * cbn [SnapOk] in *. rewrite Ecp in *. exact Q2.
      * assert (Ecf : fconn f = false).
        { destruct (fconn f) eqn:Ec; auto. rewrite (F4 eq_refl p (or_introl eq_refl)) in Ecp. discriminate. }
        rewrite Ecf in Q1. rewrite <- Q1. cbn [SnapOk]. rewrite Ecp. exact Q2.
  - unfold Chain. rewrite E8. split; [exact GCp|]. split; [|exact CG'].
    assert (Hm : fstate (merge_into p f) = ACTIVE) by exact Hp. rewrite Hm.
    rewrite E1, E2, E3, E4, E5, Hsn, Hsd.
    unfold GoodS in G. rewrite Hsn, Hsd in R, G.
    apply (Rel_merge gp g p f (objs st) (nobj st) (work st)); auto.
  - rewrite E8. intros X. discriminate.
Qed.

(* ------------------------------------------------------------------ commit of the innermost frame, in general *)
(* what a successful SessionTransaction.commit of the innermost frame leaves *)
Definition CommitDone (st : sess) (f : frame) (rest : list frame) (st' : sess) : Prop :=
  is_clean st' = true /\
  match rest with
  | [] => stack st' = []
  | p :: rest' => exists m rest2, stack st' = m :: rest2 /\ map lists_of rest2 = map lists_of rest' /\ length rest2 = length rest' /\
                    fstate m = ACTIVE /\ fid m = fid p /\ committed st' = committed st
  end.

Lemma commit_head_core : forall st gs f rest r st', Core st gs -> stack st = f :: rest ->
  commit_head st = (r, st') -> r <> Unmodelled ->
  nobj st' = nobj st /\ handles st' = handles st /\ eoc st' = eoc st /\
  ((r <> Ok /\ Core st' gs /\ committed st' = committed st /\ ids st' = ids st /\
    map lists_of (tl (stack st')) = map lists_of (tl (stack st))) \/
   (r = Ok /\ exists gs', Core st' gs' /\ CommitDone st f rest st')).
Proof.
  intros st gs f rest r st' C Hs H Hr.
  destruct (Core_head_state st gs f rest C Hs) as [Hf|Hf].
  2:{ unfold commit_head in H. rewrite Hs in H. unfold check_prereq in H. rewrite Hf in H. cbn in H.
      inversion H; subst. repeat split; auto. left. split; [discriminate|]. split; [exact C|]. repeat split; reflexivity. }
  rewrite (commit_head_split st f rest Hs Hf) in H. apply bind_inv in H. destruct H as [[s1 [H1 H2]]|[H1 Hn]].
  2:{ destruct (flush_loop_core 98 st gs r st' C H1 Hr) as [C1 P1].
      destruct P1 as (A1 & A2 & A3 & A4 & A5 & A6 & A7 & A8 & A9).
      repeat split; auto. left. split; [exact Hn|]. split; [exact C1|]. repeat split; auto. }
  destruct (flush_loop_core 98 st gs Ok s1 C H1) as [C1 P1]; [discriminate|].
  destruct P1 as (A1 & A2 & A3 & A4 & A5 & A6 & A7 & A8 & A9). destruct (A8 eq_refl) as [Cl [Hh Kg]].
  destruct (stack s1) as [|f1 rest1] eqn:Hs1.
  { unfold hd_state in Hh. rewrite Hs, Hs1 in Hh. discriminate. }
  assert (Hf1 : fstate f1 = ACTIVE) by (unfold hd_state in Hh; rewrite Hs, Hs1 in Hh; congruence).
  rewrite Hs in A7. cbn [tl] in A7.
  destruct (Core_shape s1 gs f1 rest1 C1 Hs1) as [g [gs' Eg]]. subst gs.
  destruct rest as [|p rest'].
  - (* the outermost transaction *)
    destruct rest1 as [|x1 r1]; [|discriminate].
    assert (Hn1 : fnested f1 = false).
    { destruct C1 as [_ _ D _ _]. destruct D as [D1 _ _ _]. rewrite Hs1 in D1. cbn in D1. destruct D1 as [_ [_ [F3 _]]].
      destruct (fnested f1); auto. destruct F3 as [F3 _]. exfalso. apply (F3 eq_refl). reflexivity. }
    rewrite (commit_tail_root s1 f1 Hs1 Hn1 Hf1) in H2. inversion H2; subst r st'.
    destruct (root_final_core s1 g gs' f1 C1 Hs1 Hf1 Cl) as (R1 & R2 & R3 & R4 & R5 & R6 & R7 & R8 & R9).
    split; [congruence|]. split; [congruence|]. split; [congruence|].
    right. split; [reflexivity|]. exists []. split; [exact R1|]. split; [exact R3|exact R2].
  - (* a savepoint *)
    destruct rest1 as [|p1 rest1']; [discriminate|].
    cbn [map] in A7. injection A7 as Q1 Q2 Q3 Q4 Q5 Q6 Q7 Q8 Q9.
    destruct (nested_final_core s1 g gs' f1 p1 rest1' C1 Hs1 Hf1 Cl) as [CF [Hn1 Hsv]].
    rewrite (commit_tail_nested s1 f1 p1 rest1' Hs1 Hn1 Hf1 Hsv) in H2. inversion H2; subst r st'.
    assert (E : nobj (nested_final s1 f1 p1 rest1') = nobj s1 /\ handles (nested_final s1 f1 p1 rest1') = handles s1 /\
                eoc (nested_final s1 f1 p1 rest1') = eoc s1 /\ stack (nested_final s1 f1 p1 rest1') = merge_into p1 f1 :: rest1' /\
                is_clean (nested_final s1 f1 p1 rest1') = is_clean s1 /\ committed (nested_final s1 f1 p1 rest1') = committed s1).
    { unfold nested_final. destruct (fconn f1); cbn; repeat split; reflexivity. }
    destruct E as (E1 & E2 & E3 & E4 & E5 & E6).
    split; [congruence|]. split; [congruence|]. split; [congruence|].
    right. split; [reflexivity|]. exists gs'. split; [exact CF|]. split; [congruence|].
    exists (merge_into p1 f1), rest1'. split; [exact E4|]. split; [exact Q9|].
    split; [apply (f_equal (@length _)) in Q9; rewrite !map_length in Q9; exact Q9|].
    split; [cbn; destruct C1 as [_ _ D _ _]; destruct D as [D1 _ _ _]; rewrite Hs1 in D1; cbn in D1;
            destruct D1 as [_ [_ [_ [_ F5]]]]; apply F5; left; reflexivity|].
    split; [cbn; congruence|congruence].
Qed.

(* Session.commit(): every frame, innermost first *)
Lemma commit_all_core : forall fuel st gs r st', Core st gs ->
  length (stack st) < fuel -> commit_all fuel st = (r, st') -> r <> Unmodelled ->
  exists gs', Core st' gs' /\ (r = Ok -> stack st' = [] /\ is_clean st' = true).
Proof.
  induction fuel as [|fuel IH]; intros st gs r st' C Hl H Hr; [lia|].
  cbn [commit_all] in H. destruct (stack st) as [|f rest] eqn:Hs.
  { inversion H; subst. exists gs. split; [exact C|]. intros _. split; [exact Hs|]. exact (c_empty _ _ C Hs). }
  apply bind_inv in H. destruct H as [[s1 [H1 H2]]|[H1 Hn]].
  - destruct (commit_head_core st gs f rest Ok s1 C Hs H1) as (_ & _ & _ & [[X _]|[_ [gs1 [C1 [Cl1 CD]]]]]);
      [discriminate|congruence|].
    destruct rest as [|p rest'].
    + destruct fuel as [|fuel']; [cbn in Hl; lia|]. cbn [commit_all] in H2. rewrite CD in H2. inversion H2; subst.
      exists gs1. split; [exact C1|]. auto.
    + destruct CD as (m & rest2 & S1 & K1 & L1 & M1 & I1 & _).
      apply (IH s1 gs1 r st' C1); auto. rewrite S1. cbn in *. lia.
  - destruct (commit_head_core st gs f rest r st' C Hs H1 Hr) as (_ & _ & _ & [[X [C1 _]]|[X _]]); [|congruence].
    exists gs. split; [exact C1|]. intros Y. congruence.
Qed.

(* handle.commit(): the frames above the handle's frame, innermost first, then the frame itself *)
Lemma commit_upto_core : forall fuel n st gs r st', Core st gs ->
  commit_upto fuel n st = (r, st') -> r <> Unmodelled ->
  exists gs', Core st' gs' /\ (r = Ok -> is_clean st' = true) /\
    (committed st' = committed st \/ (r = Ok /\ stack st' = [])).
Proof.
  induction fuel as [|fuel IH]; intros n st gs r st' C H Hr; [inversion H; subst; congruence|].
  cbn [commit_upto] in H. unfold head_is in H.
  destruct (stack st) as [|f rest] eqn:Hs.
  { (* no transaction: commit_head is outside the model *)
    apply bind_inv in H. unfold commit_head in H. rewrite Hs in H. destruct H as [[s1 [H1 _]]|[H1 _]]; inversion H1; subst; congruence. }
  destruct (Nat.eqb (fid f) n) eqn:En.
  - destruct (commit_head_core st gs f rest r st' C Hs H Hr) as (_ & _ & _ & [[X [C1 [K1 _]]]|[X [gs1 [C1 [Cl1 CD]]]]]).
    + exists gs. split; [exact C1|]. split; [intros Y; congruence|left; exact K1].
    + exists gs1. split; [exact C1|]. split; [auto|].
      destruct rest as [|p rest']; [right; auto|]. destruct CD as (m & rest2 & _ & _ & _ & _ & _ & K). left; exact K.
  - apply bind_inv in H. destruct H as [[s1 [H1 H2]]|[H1 Hn]].
    + destruct (commit_head_core st gs f rest Ok s1 C Hs H1) as (_ & _ & _ & [[X _]|[_ [gs1 [C1 [Cl1 CD]]]]]);
        [discriminate|congruence|].
      destruct rest as [|p rest'].
      * (* the outermost transaction was committed and the handle's frame was not found: outside the model *)
        destruct fuel; cbn [commit_upto] in H2; [inversion H2; subst; congruence|].
        unfold head_is in H2. rewrite CD in H2. apply bind_inv in H2. unfold commit_head in H2. rewrite CD in H2.
        destruct H2 as [[s2 [X _]]|[X _]]; inversion X; subst; congruence.
      * destruct CD as (m & rest2 & S1 & K1 & L1 & M1 & I1 & Kc).
        destruct (IH n s1 gs1 r st' C1 H2 Hr) as [gs2 [G1 [G2 [G3|G3]]]]; exists gs2; split; auto; split; auto.
        left. congruence.
    + destruct (commit_head_core st gs f rest r st' C Hs H1 Hr) as (_ & _ & _ & [[X [C1 [K1 _]]]|[X _]]); [|congruence].
      exists gs. split; [exact C1|]. split; [intros Y; congruence|left; exact K1].
Qed.

Lemma t_commit_core : forall st gs n r st', Core st gs -> t_commit n st = (r, st') -> r <> Unmodelled ->
  exists gs', Core st' gs' /\ (r = Ok -> is_clean st' = true) /\
    (committed st' = committed st \/ (r = Ok /\ stack st' = [])).
Proof.
  intros st gs n r st' C H Hr. unfold t_commit in H.
  destruct (find_frame n st) as [fr|] eqn:Ef; [|inversion H; subst; exists gs; split; [exact C|split; [intros X; discriminate|left; reflexivity]]].
  destruct (check_prereq fr M_commit); [inversion H; subst; exists gs; split; [exact C|split; [intros X; discriminate|left; reflexivity]]|].
  destruct (tstate_eqb (fstate fr) PREPARED).
  - eapply commit_upto_core; eauto.
  - destruct (check_prereq fr M_prepare); [inversion H; subst; exists gs; split; [exact C|split; [intros X; discriminate|left; reflexivity]]|].
    eapply commit_upto_core; eauto.
Qed.
