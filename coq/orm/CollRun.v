(* C38 - executable entry point for the correspondence check.

   input   L [I kind; init; L ops]        kind 0 = list, 1 = set, 2 = dict
   output  L [ L [result; contents; events] ; ... ]   one entry per operation, the events being
           those fired by that operation.
   result    L [I 0; ret]  |  L [I 1; I exn]     exn: 0 IndexError 1 ValueError 2 KeyError
                                                      3 TypeError 4 RuntimeError
   ret       L [I 0] None | L [I 1; I x] item | L [I 2] self | L [I 3; L items] list
             | L [I 4] NotImplemented | L [I 5; I k; I x] (key, item)
   events    L [I t; I x]   t: 0 append 1 remove 2 append_wo_mutation
   For a set the contents and the events are sorted (order is not observable).          *)
From Coq Require Import List ZArith Bool.
Import ListNotations.
From SAV.base Require Import Tree PySlice.
From SAV.orm Require Import CollBase CollList CollSet CollDict.
Open Scope Z_scope.

Definition of_Z (z : Z) : tree := I z.
Definition of_exn (e : pyexn) : tree :=
  I (match e with IndexError => 0 | ValueError => 1 | KeyError => 2 | TypeError => 3 | RuntimeError => 4 end).
Definition of_ret (r : retv) : tree :=
  match r with
  | RNone => L [I 0]
  | RItem x => L [I 1; I x]
  | RSelf => L [I 2]
  | RList l => L [I 3; of_list of_Z l]
  | RNotImpl => L [I 4]
  | RPair k x => L [I 5; I k; I x]
  end.
Definition of_res (r : res retv) : tree :=
  match r with Ok v => L [I 0; of_ret v] | Raise e => L [I 1; of_exn e] end.
Definition ev_code (e : ev) : Z * Z :=
  match e with EAdd x => (0, x) | ERem x => (1, x) | ESame x => (2, x) end.
Definition of_ev (e : ev) : tree := let '(t, x) := ev_code e in L [I t; I x].

Fixpoint insert_by {T} (k : T -> Z) (x : T) (l : list T) : list T :=
  match l with [] => [x] | y :: r => if k x <=? k y then x :: l else y :: insert_by k x r end.
Definition sort_by {T} (k : T -> Z) (l : list T) : list T := fold_right (insert_by k) [] l.
Definition ev_key (e : ev) : Z := let '(t, x) := ev_code e in 3 * x + t.

(* ---- decoding ---- *)
Definition as_slice (t : tree) : option pyslice :=
  match t with
  | L [a; b; c] => match as_optZ a, as_optZ b, as_optZ c with
                   | Some a', Some b', Some c' => Some (mkslice a' b' c')
                   | _, _, _ => None
                   end
  | _ => None
  end.
Definition as_items (t : tree) : option (list item) := as_list_of as_Z t.
Definition as_value (t : tree) : option value :=
  match t with
  | L [I 0; v] => option_map VList (as_items v)
  | L [I 1; v] => option_map VIter (as_items v)
  | L [I 2] => Some VSelf
  | L [I 3] => Some VNonIter
  | _ => None
  end.
Definition as_lop (t : tree) : option lop :=
  match t with
  | L [I 0; I x] => Some (LAppend x)
  | L [I 1; I x] => Some (LRemove x)
  | L [I 2; I i; I x] => Some (LInsert i x)
  | L [I 3; I i; I x] => Some (LSetItem i x)
  | L [I 4; sl; v] => match as_slice sl, as_value v with
                      | Some s, Some w => Some (LSetSlice s w) | _, _ => None end
  | L [I 5; I i] => Some (LDelItem i)
  | L [I 6; sl] => option_map LDelSlice (as_slice sl)
  | L [I 7; v] => option_map LExtend (as_value v)
  | L [I 8; v] => option_map LIAdd (as_value v)
  | L [I 9; oi] => option_map LPop (as_optZ oi)
  | L [I 10] => Some LClear
  | L [I 11; I n] => Some (LIMul n)
  | L [I 12] => Some LReverse
  | L [I 13; sl] => option_map LGetSlice (as_slice sl)
  | _ => None
  end.

Definition as_sarg (t : tree) : option sarg :=
  match t with
  | L [I 0; v] => option_map (fun l => ASet (dedup l)) (as_items v)
  | L [I 1; v] => option_map AList (as_items v)
  | L [I 2] => Some ASelf
  | L [I 3] => Some ANonIter
  | _ => None
  end.
Definition as_sop (t : tree) : option sop :=
  match t with
  | L [I 0; I x] => Some (SAdd x)
  | L [I 1; I x] => Some (SDiscard x)
  | L [I 2; I x] => Some (SRemove x)
  | L [I 3] => Some SPop
  | L [I 4] => Some SClear
  | L [I 5; a] => option_map SUpdate (as_sarg a)
  | L [I 6; a] => option_map SDiffUpdate (as_sarg a)
  | L [I 7; a] => option_map SInterUpdate (as_sarg a)
  | L [I 8; a] => option_map SSymDiffUpdate (as_sarg a)
  | L [I 9; a] => option_map SIor (as_sarg a)
  | L [I 10; a] => option_map SIsub (as_sarg a)
  | L [I 11; a] => option_map SIand (as_sarg a)
  | L [I 12; a] => option_map SIxor (as_sarg a)
  | _ => None
  end.

Definition as_pairs (t : tree) : option (list (key * item)) := as_list_of (as_pair_of as_Z as_Z) t.
(* dict(pairs) *)
Definition as_dict (t : tree) : option pydict := option_map (d_update []) (as_pairs t).
Definition as_dupd (t : tree) : option dupd :=
  match t with
  | L [I 0] => Some UNone
  | L [I 1; m] => option_map UMap (as_dict m)
  | L [I 2; p] => option_map UPairs (as_pairs p)
  | _ => None
  end.
Definition as_dop (t : tree) : option dop :=
  match t with
  | L [I 0; I k; I v] => Some (DSetItem k v)
  | L [I 1; I k] => Some (DDelItem k)
  | L [I 2] => Some DClear
  | L [I 3; I k; od] => option_map (DPop k) (as_optZ od)
  | L [I 4] => Some DPopItem
  | L [I 5; I k; I v] => Some (DSetDefault k v)
  | L [I 6; u; kw] => match as_dupd u, as_dict kw with
                      | Some u', Some kw' => Some (DUpdate u' kw') | _, _ => None end
  | L [I 7; m] => option_map DIor (as_dict m)
  | _ => None
  end.

(* ---- running ---- *)
Section Run.
Context {C O : Type}.
Variable step : O -> st C -> res retv * st C.
Variable show : C -> tree.
Variable canon : list ev -> list ev.
Fixpoint run_ops (ops : list O) (c : C) : list tree :=
  match ops with
  | [] => []
  | op :: r =>
      match step op (c, []) with
      | (x, (c', g)) => L [of_res x; show c'; of_list of_ev (canon g)] :: run_ops r c'
      end
  end.
End Run.

Definition ord_id (l : list item) : list item := l.
Definition of_dict (d : pydict) : tree := of_list (fun kv => L [I (fst kv); I (snd kv)]) d.

Definition run_case (t : tree) : tree :=
  match t with
  | L [I 0; init; ops] =>
      match as_items init, as_list_of as_lop ops with
      | Some l, Some os => L (run_ops sa_list_op (of_list of_Z) (fun g => g) os l)
      | _, _ => bad_input
      end
  | L [I 1; init; ops] =>
      match as_items init, as_list_of as_sop ops with
      | Some l, Some os =>
          L (run_ops (sa_set_op ord_id) (fun s => of_list of_Z (sort_by (fun x => x) s))
                     (sort_by ev_key) os (dedup l))
      | _, _ => bad_input
      end
  | L [I 2; init; ops] =>
      match as_dict init, as_list_of as_dop ops with
      | Some d, Some os => L (run_ops sa_dict_op of_dict (fun g => g) os d)
      | _, _ => bad_input
      end
  | _ => bad_input
  end.
