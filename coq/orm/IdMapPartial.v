(* C34 - pass-level results about the two directions of key_consistent that fail in general:
   every per-object step of the model keeps "persistent => mapped" and "mapped => attached", except
   (a) an identity_map.replace() that evicts another object, (b) the key-switch restore of a detached
   object, (c) the detach of a transaction._deleted member that is still in the map *)
From Coq Require Import List ZArith Bool Arith Lia.
Import ListNotations.
From SAV.orm Require Import IdMap IdMapSpec IdMapLemmas IdMapProofs.
Open Scope Z_scope.

Definition pb (o : obj) : bool := implb (persistent o) (iimap o).     (* persistent => mapped *)
Definition ab (o : obj) : bool := implb (iimap o) (osess o).          (* mapped => attached *)
Definition keeps (p : obj -> bool) (g : obj -> obj) : Prop := forall o, jb o = true -> p o = true -> p (g o) = true.

Ltac kcase := unfold keeps, pb, ab, persistent; ocase.

Lemma keeps_pb_expunge : forall h t, keeps pb (expunge_obj h t). Proof. intros [] []; kcase. Qed.
Lemma keeps_pb_restore_expunge : forall h, keeps pb (restore_expunge_obj h). Proof. intros []; kcase. Qed.
Lemma keeps_pb_newly_deleted : forall h, keeps pb (newly_deleted_obj h). Proof. intros []; kcase. Qed.
Lemma keeps_pb_expire : keeps pb expire_obj. Proof. kcase. Qed.
Lemma keeps_pb_end_tx : keeps pb end_tx_obj. Proof. kcase. Qed.
Lemma keeps_pb_set_pk : forall v, keeps pb (set_pk v). Proof. kcase. Qed.
Lemma keeps_pb_commit : keeps pb (fun o => let o1 := if iimap o then expire_obj o else o in if itdel o1 then detach_obj false o1 else o1).
Proof. kcase. Qed.
Lemma keeps_pb_save : forall o, okey o = None -> pb (set_sess true (set_inew true o)) = true.
Proof. unfold pb, persistent; ocase. Qed.
Lemma keeps_pb_update : keeps pb (fun o => set_sess true (set_iimap true (set_isdel false o))). Proof. kcase. Qed.
Lemma keeps_pb_delete : keeps pb (fun o => set_isdel true (set_sess true (set_iimap true o))). Proof. kcase. Qed.
Lemma keeps_pb_revert : keeps pb revert_obj. Proof. kcase. Qed.
Lemma keeps_pb_register : forall h k, keeps pb (register_obj h k).
Proof. intros [] k; unfold keeps, pb, persistent, register_obj; intros o; destruct (okey o) as [k0|] eqn:E;
  try destruct (key_eqb k0 k); revert E; ocase. Qed.
Lemma keeps_pb_unswitch_new : forall old o, osess o = false -> pb (set_key (Some old) (set_iimap false o)) = true.
Proof. unfold pb, persistent; ocase. Qed.
Lemma keeps_pb_unswitch : forall old, keeps pb (fun o => set_iimap true (set_key (Some old) o)). Proof. kcase. Qed.

(* WeakInstanceDict.replace that evicts nobody: only the claimed state changes *)
Lemma claiming_without_eviction : forall (p : obj -> bool) i k g st,
  Inv st -> (holder k st = None \/ holder k st = Some i) ->
  keeps p g -> SP (fun _ => p) st -> SP (fun _ => p) (app_all (claiming i k g) st).
Proof.
  intros p i k g st [HJ HU] Hh Hg HP j o' Hj. apply app_all_inv_nth in Hj as [o [Hj ->]]. unfold claiming.
  destruct (Nat.eqb_spec j i); [subst; apply Hg; [apply (HJ i o Hj)|apply (HP i o Hj)]|].
  destruct (iimap o && okey_eqb (okey o) (Some k)) eqn:E; [|apply (HP j o Hj)].
  exfalso. apply andb_prop in E as [E1 E2]. apply okey_eqb_some in E2.
  assert (Hm : imap st k j) by (exists o; auto).
  destruct Hh as [Hn|Hs]; [eapply holder_none; eauto|]. apply holder_some in Hs. apply n. apply (HU k j i); auto.
Qed.

Lemma keeps_pass : forall (p : obj -> bool) (c : nat -> bool) g st, Inv st -> keeps p g -> SP (fun _ => p) st ->
  SP (fun _ => p) (app_all (fun i o => if c i then g o else o) st).
Proof. intros p c g st [HJ _] Hg HP j o' Hj. apply app_all_inv_nth in Hj as [o [Hj ->]].
  destruct (c j); [apply Hg; [apply (HJ j o Hj)|apply (HP j o Hj)]|apply (HP j o Hj)]. Qed.

(* mapped => attached *)
Lemma keeps_ab_expunge : forall h t, keeps ab (expunge_obj h t). Proof. intros [] []; kcase. Qed.
Lemma keeps_ab_restore_expunge : forall h, keeps ab (restore_expunge_obj h). Proof. intros []; kcase. Qed.
Lemma keeps_ab_newly_deleted : forall h, keeps ab (newly_deleted_obj h). Proof. intros []; kcase. Qed.
Lemma keeps_ab_expire : keeps ab expire_obj. Proof. kcase. Qed.
Lemma keeps_ab_end_tx : keeps ab end_tx_obj. Proof. kcase. Qed.
Lemma keeps_ab_set_pk : forall v, keeps ab (set_pk v). Proof. kcase. Qed.
Lemma keeps_ab_save : keeps ab (fun o => set_sess true (set_inew true o)). Proof. kcase. Qed.
Lemma keeps_ab_update : keeps ab (fun o => set_sess true (set_iimap true (set_isdel false o))). Proof. kcase. Qed.
Lemma keeps_ab_delete : keeps ab (fun o => set_isdel true (set_sess true (set_iimap true o))). Proof. kcase. Qed.
Lemma keeps_ab_revert : keeps ab revert_obj. Proof. kcase. Qed.
Lemma keeps_ab_evict : keeps ab (set_iimap false). Proof. kcase. Qed.
(* the two exceptions, with the side condition under which they are harmless *)
Lemma keeps_ab_register : forall h k o, jb o = true -> ab o = true -> implb (inew o) (osess o) = true ->
  inew o || iimap o = true -> ab (register_obj h k o) = true.
Proof. intros [] k o; unfold ab, register_obj; destruct (okey o) as [k0|] eqn:E; try destruct (key_eqb k0 k); revert E; ocase. Qed.
Lemma keeps_ab_unswitch : forall old o, osess o = true -> ab (set_iimap true (set_key (Some old) o)) = true.
Proof. unfold ab; ocase. Qed.
Lemma keeps_ab_commit : forall o, ab o = true -> implb (itdel o) (negb (iimap o)) = true ->
  ab (let o1 := if iimap o then expire_obj o else o in if itdel o1 then detach_obj false o1 else o1) = true.
Proof. unfold ab; ocase. Qed.
