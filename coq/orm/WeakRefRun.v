(* executable entry point for the correspondence check of C48 *)
From Coq Require Import List ZArith NArith Bool Arith.
Import ListNotations.
From SAV.base Require Import Tree.
From SAV.orm Require Import WeakRef.

Definition as_row (t : tree) : option (N * row) :=
  match t with L [k; I v; I w] => match as_N k with Some k' => Some (k', (v, w)) | None => None end | _ => None end.

Definition as_op (ns : nat) (t : tree) : option op :=
  match t with
  | L [I c; a; b] =>
      match as_nat a with
      | Some i =>
          if negb (i <? ns) then None
          else if (c =? 0)%Z then match as_N b with Some k => Some (Load i k) | None => None end
          else if (c =? 10)%Z then
            match as_nat b with Some j => if j <? ns then Some (Link i j) else None | None => None end
          else if (c =? 13)%Z then
            match as_bool b with Some w => Some (ExpireAttr i w) | None => None end
          else None
      | None => None
      end
  | L [I c; a] =>
      match as_nat a with
      | Some i =>
          if negb (i <? ns) then None
          else if (c =? 1)%Z then Some (New i) else if (c =? 2)%Z then Some (SetV i)
          else if (c =? 3)%Z then Some (Drop i) else if (c =? 7)%Z then Some (Expire i)
          else if (c =? 9)%Z then Some (Delete i) else if (c =? 11)%Z then Some (SetW i)
          else if (c =? 12)%Z then Some (Mut i) else None
      | None => None
      end
  | L [I c] =>
      if (c =? 4)%Z then Some Gc else if (c =? 5)%Z then Some Flush else if (c =? 6)%Z then Some Commit
      else if (c =? 8)%Z then Some ExpireAll else None
  | _ => None
  end.

Fixpoint insert_row (p : N * row) (l : list (N * row)) : list (N * row) :=
  match l with [] => [p] | q :: r => if N.leb (fst p) (fst q) then p :: l else q :: insert_row p r end.
Definition sort_rows (l : list (N * row)) : list (N * row) := fold_right insert_row [] l.
Fixpoint insert_N (x : N) (l : list N) : list N :=
  match l with [] => [x] | y :: r => if N.leb x y then x :: l else y :: insert_N x r end.

Definition count (f : obj -> bool) (s : st) : nat := length (filter (fun o => f (heap s o)) (oids s)).

(* per operation: [rc; bit mask of the live objects (bit i = object i, creation order); slot contents (-1 = None); sorted primary
   keys of identity_map.keys(); len(session.new); len(session.dirty); len(session.deleted);
   rows of t if they differ from the rows before the operation, else 0; failed] *)
Definition db_tree (s : st) : tree := L (map (fun p : N * row => L [of_N (fst p); I (fst (snd p)); I (snd (snd p))]) (sort_rows (db s))).
Definition observe (rc : Z) (prev : tree) (s : st) : tree :=
  L [ I rc;
      of_N (fold_right (fun o m => N.add (if alive (heap s o) then 1 else 0) (N.double m)) 0%N (oids s));
      L (map (fun x => match x with Some o => of_nat o | None => I (-1)%Z end) (slots s));
      L (map of_N (fold_right insert_N [] (map (fun o => pk (heap s o)) (filter (fun o => in_map (heap s o)) (oids s)))));
      of_nat (count in_new s);
      of_nat (count (fun ob => in_mod ob && negb (in_del ob)) s);
      of_nat (count in_del s);
      (if tree_eqb prev (db_tree s) then I 0 else db_tree s);
      of_bool (failed s) ].

Fixpoint run (ops : list op) (s : st) : list tree :=
  match ops with
  | [] => []
  | o :: r => let (s1, rc) := step_cpy o s in observe rc (db_tree s) s1 :: run r s1
  end.

(* input  L [L rows; I nslots; L ops]      output L [observation per operation] *)
Definition run_case (t : tree) : tree :=
  match t with
  | L [tr; tn; tops] =>
      match as_list_of as_row tr, as_nat tn with
      | Some rows, Some ns =>
          match as_list_of (as_op ns) tops with
          | Some ops => L (run ops (start rows ns))
          | None => bad_input
          end
      | _, _ => bad_input
      end
  | _ => bad_input
  end.
