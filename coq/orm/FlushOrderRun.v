(* C31 - executable entry point for the correspondence check *)
From Coq Require Import List NArith ZArith Bool.
Import ListNotations.
From SAV.base Require Import Tree.
From SAV.util Require Import Topo Cycles TopoRun.
From SAV.orm Require Import FlushOrder FlushOrderSpec.
Local Open Scope N_scope.

Definition as_trip (t : tree) : option trip :=
  match t with
  | L [a; b; c] => match as_N a, as_N b, as_N c with Some x, Some y, Some z => Some (x, y, z) | _, _, _ => None end
  | _ => None end.
Definition as_optN (t : tree) : option (option N) :=
  match t with L [] => Some None | _ => match as_N t with Some n => Some (Some n) | None => None end end.
Definition as_dep (t : tree) : option dep :=
  match t with
  | L [i; k; p; c; po; ac; co; rv] =>
      match as_N i, as_N k, as_N p, as_N c, as_bool po, as_bool ac, as_N co, as_bool rv with
      | Some i, Some k, Some p, Some c, Some po, Some ac, Some co, Some rv =>
          Some {| d_id := i; d_kind := k; d_parent := p; d_child := c; d_post := po; d_active := ac; d_col := co; d_rev := rv |}
      | _, _, _, _, _, _, _, _ => None end
  | _ => None end.
Definition as_st (t : tree) : option st :=
  match t with
  | L [i; m; k; r] =>
      match as_N i, as_N m, as_bool k, as_N r with
      | Some i, Some m, Some k, Some r => Some {| s_id := i; s_map := m; s_key := k; s_role := r |}
      | _, _, _, _ => None end
  | _ => None end.
Definition as_link (t : tree) : option (N * N * option N) :=
  match t with
  | L [d; o; r] => match as_N d, as_N o, as_optN r with Some d, Some o, Some r => Some (d, o, r) | _, _, _ => None end
  | _ => None end.
Definition as_nn (t : tree) : option (N * N) := as_pair_of as_N as_N t.

Definition as_stmt (t : tree) : option stmt :=
  match t with
  | L [I 0; r; m; vs] =>
      match as_N r, as_N m, as_list_of (as_pair_of as_N as_N) vs with
      | Some r, Some m, Some vs => Some (Insert r m vs) | _, _, _ => None end
  | L [I 1; r; ss] =>
      match as_N r, as_list_of (as_pair_of as_N as_optN) ss with
      | Some r, Some ss => Some (Update r ss) | _, _ => None end
  | L [I 2; r] => match as_N r with Some r => Some (Delete r) | None => None end
  | L [I 3; x] => match as_trip x with Some x => Some (SecInsert x) | None => None end
  | L [I 4; x] => match as_trip x with Some x => Some (SecDelete x) | None => None end
  | _ => None end.
Definition as_ev (t : tree) : option ev :=
  match t with
  | L [I 0; s] => match as_N s with Some s => Some (ESave s) | None => None end
  | L [I 1; s] => match as_N s with Some s => Some (EPost s) | None => None end
  | L [I 2; s] => match as_N s with Some s => Some (EDel s) | None => None end
  | L [I 3; x] => match as_trip x with Some x => Some (ESecIns x) | None => None end
  | L [I 4; x] => match as_trip x with Some x => Some (ESecDel x) | None => None end
  | _ => None end.
Definition as_item (t : tree) : option (ev * stmt) := as_pair_of as_ev as_stmt t.

(* canonical output: sorted, duplicate free *)
Fixpoint ins_pair (x : N * N) (l : list (N * N)) : list (N * N) :=
  match l with
  | [] => [x]
  | y :: r => if N.ltb (fst x) (fst y) || (N.eqb (fst x) (fst y) && N.leb (snd x) (snd y))
              then (if N.eqb (fst x) (fst y) && N.eqb (snd x) (snd y) then l else x :: l)
              else y :: ins_pair x r
  end.
Definition sort_pairs (l : list (N * N)) : list (N * N) := fold_right ins_pair [] l.
Definition of_pair (p : N * N) : tree := L [of_N (fst p); of_N (snd p)].

(* trace acceptance: the events can be attributed to emitting actions with non-decreasing layer index *)
Fixpoint min_ge (cur : nat) (l : list (option nat)) : option nat :=
  match l with
  | [] => None
  | Some k :: r => if Nat.leb cur k
                   then match min_ge cur r with Some k' => Some (Nat.min k k') | None => Some k end
                   else min_ge cur r
  | None :: r => min_ge cur r
  end.
Fixpoint accept (layers : list (list N)) (hs : ev -> list action) (cur : nat) (tr : list ev) : bool :=
  match tr with
  | [] => true
  | e :: r => match min_ge cur (map (fun h => lidx layers (code h)) (hs e)) with
              | Some k => accept layers hs k r
              | None => false end
  end.

Definition incl_b {A} (eqb : A -> A -> bool) (a b : list A) : bool := forallb (fun x => existsb (eqb x) b) a.
Definition pair_eqb (x y : N * N) : bool := N.eqb (fst x) (fst y) && N.eqb (snd x) (snd y).
Definition set_eqb (x y : N * option N) : bool := N.eqb (fst x) (fst y) && opt_eqb (snd x) (snd y).
Definition stmt_eqb (a b : stmt) : bool :=
  match a, b with
  | Insert r m v, Insert r' m' v' => N.eqb r r' && N.eqb m m' && incl_b pair_eqb v v' && incl_b pair_eqb v' v
  | Update r s, Update r' s' => N.eqb r r' && incl_b set_eqb s s' && incl_b set_eqb s' s
  | Delete r, Delete r' => N.eqb r r'
  | SecInsert x, SecInsert y => t3eqb x y
  | SecDelete x, SecDelete y => t3eqb x y
  | _, _ => false
  end.
Definition ev_eqb (a b : ev) : bool :=
  match a, b with
  | ESave s, ESave s' | EPost s, EPost s' | EDel s, EDel s' => N.eqb s s'
  | ESecIns x, ESecIns y | ESecDel x, ESecDel y => t3eqb x y
  | _, _ => false
  end.
(* the emitted statement against the static one.  Tolerated: an INSERT / a regular UPDATE that also carries a
   post_update column (the process step set the attribute before the row was saved, possibly to a value that the
   separate post_update UPDATE, which follows anyway, replaces), and any content of the UPDATE of post_update
   columns of a row that is deleted in the same flush; what is written there is checked by executing the trace *)
Definition extra_ins (g : graph) (r : N) (x : N * N) : bool := postcol g (fst x).
Definition extra_upd (g : graph) (r : N) (x : N * option N) : bool := postcol g (fst x).
Definition stmt_matches (g : graph) (e : ev) (b : stmt) : bool :=
  match e, stmt_of g e, b with
  | EPost s, Update r u, Update r' u' =>
      if N.eqb (role_of g s) 2 then N.eqb r r' else stmt_eqb (Update r u) (Update r' u')
  | _, Insert r m v, Insert r' m' v' =>
      N.eqb r r' && N.eqb m m' && incl_b pair_eqb v v' &&
      forallb (fun x => existsb (pair_eqb x) v || extra_ins g r x) v'
  | ESave _, Update r u, Update r' u' =>
      N.eqb r r' && incl_b set_eqb u u' && forallb (fun x => existsb (set_eqb x) u || extra_upd g r x) u'
  | _, a, _ => stmt_eqb a b
  end.
Definition counted (g : graph) (e : ev) : bool :=
  match e with EPost s => negb (N.eqb (role_of g s) 2) | _ => true end.
Definition trivial_stmt (s : stmt) : bool := match s with Update _ [] => true | _ => false end.

(* input  L [deps; states; links; ref0; ref1; sec0; sec1; notnull; trace; I mode]
     mode 0: unit-of-work level only (CircularDependencyError: no final state, no trace)
     mode 3: as 0, the flush failed in an early layer: the outcome of the sort is not compared
     mode 1: + trace acceptance, the trace executed on the reference database, the static statement
             contents compared with the emitted ones
     mode 2: as 1, and the hypotheses of the theorems are expected to hold
   output L [I status; cycles; items; edges; accepted; executed; content mismatches; missing events; hypotheses] *)
Definition run_with (T : tables) (t : tree) : tree :=
  match t with
  | L [td; ts; tl; r0; r1; s0; s1; tn; ttr; I mode] =>
    match as_list_of as_dep td, as_list_of as_st ts, as_list_of as_link tl, as_list_of as_trip r0,
          as_list_of as_trip r1, as_list_of as_trip s0, as_list_of as_trip s1, as_list_of as_nn tn,
          as_list_of as_item ttr with
    | Some ds, Some ss, Some ls, Some r0, Some r1, Some s0, Some s1, Some nn, Some tr =>
      let g := {| g_deps := ds; g_sts := ss; g_links := ls; g_ref0 := r0; g_ref1 := r1;
                  g_sec0 := s0; g_sec1 := s1; g_notnull := nn |} in
      match cycles T g with
      | None => L [I 2]
      | Some cy =>
        let items := sort_nodes (dedup (map code (final_items g cy))) in
        let edges := sort_pairs (cedges (final_edges T g cy)) in
        let head := [of_list of_N (sort_nodes (dedup cy)); of_list of_N items; of_list of_pair edges] in
        match plan T g with
        | Layers layers =>
          if Z.eqb mode 0 || Z.eqb mode 3 then L (I 0 :: head)
          else
            let evs := map fst tr in
            (* an UPDATE of post_update columns may also come from the regular save, when the process
               step happened to run first *)
            let hs := fun e => homes g cy e ++ match e with EPost s => homes g cy (ESave s) | _ => [] end in
            let acc := accept layers hs O evs in
            let ex := match exec nn (db0 g) (map snd tr) with Some _ => true | None => false end in
            let mism := length (filter (fun it => negb (stmt_matches g (fst it) (snd it))) tr) in
            let missing := length (filter (fun e => counted g e && negb (trivial_stmt (stmt_of g e)) && negb (existsb (ev_eqb e) evs))
                                          (events g)) in
            let hyp := wf g && consistent g && cyc_ok g cy && managed g cy in
            L (I 0 :: head ++ [of_bool acc; of_bool ex;
                               if hyp then of_nat mism else I 0; if hyp then of_nat missing else I 0;
                               if Z.eqb mode 2 then of_bool hyp else I 0])
        | PCircular => if Z.eqb mode 3 then L (I 0 :: head) else L (I 1 :: head)
        | PFuel => L [I 2]
        | PAssert => L (I 3 :: head)
        end
      end
    | _, _, _, _, _, _, _, _, _ => bad_input
    end
  | _ => bad_input
  end.

Definition run_case := run_with std_tables.
