(* C31 - the other outcomes of the plan: the fuel of the model always suffices; CircularDependencyError is
   raised exactly when the final dependency set has a cycle among the final records (C19) *)
From Coq Require Import List NArith Bool Lia Permutation Arith.
Import ListNotations.
From SAV.util Require Import Topo Cycles TopoRun TopoProofs TopoCycle TopoExtra CyclesSound CyclesComplete CyclesExact.
From SAV.orm Require Import FlushOrder FlushOrderSpec FlushOrderBase.
Local Open Scope N_scope.

Lemma ord_of_spec ts a b : In b (ord_of ts a) <-> In (a, b) ts.
Proof. unfold ord_of. rewrite In_dedup, in_map_iff. split.
  - intros [[x y] [H1 H2]]. simpl in H1; subst. apply filter_In in H2. destruct H2 as [H2 H3].
    simpl in H3. apply N.eqb_eq in H3. subst. exact H2.
  - intros H. exists (a, b). split; [reflexivity|]. apply filter_In. split; [exact H|]. simpl. apply N.eqb_refl. Qed.
Lemma starts_of_spec ts a : In a (starts_of ts) <-> exists b, In (a, b) ts.
Proof. unfold starts_of. rewrite In_dedup, in_map_iff. split.
  - intros [[x y] [H1 H2]]. simpl in H1; subst. exists y. exact H2.
  - intros [b H]. exists (a, b). split; [reflexivity|exact H]. Qed.

(* find_cycles: exactly the records on a cycle of the per-mapper dependency set *)
Theorem cycles_exact T g : exists cy, cycles T g = Some cy /\ forall x, In x cy <-> on_cycle (cedges (edges0 T g)) x.
Proof. unfold cycles, cycles_of.
  exact (find_cycles_exact _ (ord_of _) (ord_of_spec _) (starts_of _) (starts_of_spec _)). Qed.

Theorem plan_never_out_of_fuel T g : plan T g <> PFuel.
Proof. unfold plan. destruct (cycles_exact T g) as [cy [-> _]]. destruct (forallb _ _); [|discriminate].
  destruct (sort_as_subsets _ _) eqn:E; try discriminate. exfalso. unfold sort_as_subsets in E.
  exact (subsets_fuel_ok _ _ _ (le_n _) E). Qed.

Theorem plan_circular_iff T g cy : cycles T g = Some cy ->
  forallb (expand_assert g cy) (cyc_actions g cy) = true ->
  (plan T g = PCircular <->
   exists w, cycle (cedges (final_edges T g cy)) w /\ incl w (dedup (map code (final_items g cy)))).
Proof. intros Hc Ha. unfold plan. rewrite Hc, Ha. rewrite <- sort_fails_iff_cycle.
  destruct (sort_as_subsets _ _); split; intros; try discriminate; reflexivity. Qed.
