(* C41: the criteria the ORM compiles (any / has / contains / of_type / EXISTS / IN) have their relational meaning *)
From Coq Require Import List ZArith Bool Arith Lia.
Import ListNotations.
From SAV.sql Require Import Val3.
From SAV.orm Require Import Query.

Lemma filter_map_swap : forall (A B : Type) (f : A -> B) (P : B -> bool) (l : list A),
  filter P (map f l) = map f (filter (fun x => P (f x)) l).
Proof.
  intros. induction l as [|x l IH]; [reflexivity|]. cbn [map filter].
  destruct (P (f x)); cbn [map]; rewrite IH; reflexivity.
Qed.

Lemma existsb_map : forall (A B : Type) (f : A -> B) (P : B -> bool) (l : list A),
  existsb P (map f l) = existsb (fun x => P (f x)) l.
Proof. intros. induction l as [|x l IH]; [reflexivity|]. cbn [map existsb]. rewrite IH. reflexivity. Qed.

Lemma existsb_ext' : forall (A : Type) (P Q : A -> bool) (l : list A),
  (forall x, P x = Q x) -> existsb P l = existsb Q l.
Proof. intros A P Q l H. induction l as [|x l IH]; [reflexivity|]. cbn [existsb]. rewrite H, IH. reflexivity. Qed.

Lemma filter_ext' : forall (A : Type) (P Q : A -> bool) (l : list A),
  (forall x, P x = Q x) -> filter P l = filter Q l.
Proof. intros A P Q l H. induction l as [|x l IH]; [reflexivity|]. cbn [filter]. rewrite H, IH. reflexivity. Qed.

Lemma is_true_and3 : forall a b, is_true (and3 a b) = is_true a && is_true b.
Proof. intros [] []; reflexivity. Qed.

Lemma is_true_tv_of_bool : forall b, is_true (tv_of_bool b) = b.
Proof. intros []; reflexivity. Qed.

(* column criteria *)
Lemma sx_tr : forall d e a c s, beval d e (tr_sx a c s) = sxeval s (gcol (lookup e a) c).
Proof.
  intros d e a c s. induction s as [|o k| |x IHx y IHy|x IHx y IHy|x IHx]; cbn [tr_sx beval sxeval eeval].
  - reflexivity.
  - reflexivity.
  - reflexivity.
  - rewrite IHx, IHy. reflexivity.
  - rewrite IHx, IHy. reflexivity.
  - rewrite IHx. reflexivity.
Qed.

(* primaryjoin  p.id = c.pid  : true exactly for the children of p; a NULL foreign key never matches *)
Lemma pj_child : forall (p : prow) (c : crow),
  is_true (cmp3 OEq (Some (p_id p)) (c_pid c)) = child_of c p.
Proof.
  intros p c. unfold child_of. destruct (c_pid c) as [v|]; [|reflexivity].
  cbn [cmp3 cmpZ]. rewrite is_true_tv_of_bool. apply Z.eqb_sym.
Qed.
Lemma pj_child' : forall (p : prow) (c : crow),
  is_true (cmp3 OEq (c_pid c) (Some (p_id p))) = child_of c p.
Proof.
  intros p c. unfold child_of. destruct (c_pid c) as [v|]; [|reflexivity].
  cbn [cmp3 cmpZ]. rewrite is_true_tv_of_bool. reflexivity.
Qed.

Lemma sub_crit_is_sub : forall (c : crow), is_true (in3 (Some (c_kind c)) [Some 1%Z]) = is_sub c.
Proof.
  intros c. unfold in3, is_sub. cbn [existsb]. destruct (Z.eqb (c_kind c) 1); reflexivity.
Qed.

Section Crit.
Variable d : db.

(* ---- any() / of_type().any() / explicit EXISTS ---- *)
Lemma any_semantics : forall e pa p s, lookup e pa = grow_p p -> pa <> sub_alias ->
  beval d e (tr_pcrit d pa (PAny s)) =
  tv_of_bool (existsb (fun c => child_of c p && is_true (sxeval s (c_y c))) (cs d)).
Proof.
  intros e pa p s Hl Hne. cbn [tr_pcrit beval rows_of]. f_equal. rewrite existsb_map.
  apply existsb_ext'. intros c. unfold pj. cbn [beval]. rewrite is_true_and3, sx_tr.
  cbn [eeval lookup]. rewrite Nat.eqb_refl.
  assert (Hn : Nat.eqb pa sub_alias = false) by (apply Nat.eqb_neq; exact Hne). rewrite Hn, Hl.
  cbn [gcol grow_p grow_c g_id g_pid g_y]. rewrite pj_child. reflexivity.
Qed.

Lemma any_sub_semantics : forall e pa p s, lookup e pa = grow_p p -> pa <> sub_alias ->
  beval d e (tr_pcrit d pa (PAnySub s)) =
  tv_of_bool (existsb (fun c => child_of c p && (is_sub c && is_true (sxeval s (c_y c)))) (cs d)).
Proof.
  intros e pa p s Hl Hne. cbn [tr_pcrit beval rows_of]. f_equal. rewrite existsb_map.
  apply existsb_ext'. intros c. unfold pj, sub_crit. cbn [beval]. rewrite !is_true_and3, sx_tr.
  cbn [eeval lookup map]. rewrite Nat.eqb_refl.
  assert (Hn : Nat.eqb pa sub_alias = false) by (apply Nat.eqb_neq; exact Hne). rewrite Hn, Hl.
  cbn [gcol grow_p grow_c g_id g_pid g_y g_kind]. rewrite pj_child, sub_crit_is_sub. reflexivity.
Qed.

Lemma exists_semantics : forall e pa p s, lookup e pa = grow_p p -> pa <> sub_alias ->
  beval d e (tr_pcrit d pa (PExists s)) =
  tv_of_bool (existsb (fun c => child_of c p && is_true (sxeval s (c_y c))) (cs d)).
Proof.
  intros e pa p s Hl Hne. cbn [tr_pcrit beval rows_of]. f_equal. rewrite existsb_map.
  apply existsb_ext'. intros c. cbn [beval]. rewrite is_true_and3, sx_tr.
  cbn [eeval lookup]. rewrite Nat.eqb_refl.
  assert (Hn : Nat.eqb pa sub_alias = false) by (apply Nat.eqb_neq; exact Hne). rewrite Hn, Hl.
  cbn [gcol grow_p grow_c g_id g_pid g_y]. rewrite pj_child'. reflexivity.
Qed.

(* ---- has() ---- *)
Lemma has_semantics : forall e ca c s, lookup e ca = grow_c c -> ca <> sub_alias ->
  beval d e (tr_ccrit ca (CHas s)) =
  tv_of_bool (existsb (fun p => child_of c p && is_true (sxeval s (p_x p))) (ps d)).
Proof.
  intros e ca c s Hl Hne. cbn [tr_ccrit beval rows_of]. f_equal. rewrite existsb_map.
  apply existsb_ext'. intros p. cbn [beval]. rewrite is_true_and3, sx_tr.
  cbn [eeval lookup]. rewrite Nat.eqb_refl.
  assert (Hn : Nat.eqb ca sub_alias = false) by (apply Nat.eqb_neq; exact Hne). rewrite Hn, Hl.
  cbn [gcol grow_p grow_c g_id g_pid g_x]. rewrite pj_child. reflexivity.
Qed.

(* ---- the whole criterion language on P ---- *)
Lemma link_aj : forall (p : prow) (n : crow) (a : Z * Z) e pa na aa,
  lookup e pa = grow_p p -> lookup e na = grow_c n -> lookup e aa = grow_a a ->
  is_true (beval d e (aj pa na aa)) = link a p n.
Proof.
  intros p n a e pa na aa Hp Hn Ha. unfold aj, link. cbn [beval eeval]. rewrite is_true_and3, Hp, Hn, Ha.
  cbn [gcol grow_p grow_c grow_a g_id g_pid cmp3 cmpZ]. rewrite !is_true_tv_of_bool. reflexivity.
Qed.

Lemma pcrit_tr : forall e pa p c, lookup e pa = grow_p p -> pa < sub_alias -> contains_ok d c = true ->
  beval d e (tr_pcrit d pa c) = peval d p c.
Proof.
  intros e pa p c Hl Hlt.
  assert (Hne : pa <> sub_alias) by lia.
  assert (Hpa : pa = 0 \/ pa = 1) by (unfold sub_alias in Hlt; lia).
  induction c as [s|s|s|cid|s|s|s|s|a IHa b IHb|a IHa b IHb|a IHa]; intros Hok.
  - cbn [tr_pcrit peval]. rewrite sx_tr, Hl. reflexivity.
  - rewrite (any_semantics e pa p s Hl Hne). reflexivity.
  - rewrite (any_sub_semantics e pa p s Hl Hne). reflexivity.
  - cbn [tr_pcrit beval peval eeval contains_ok] in *. rewrite Hl. cbn [gcol grow_p g_id]. unfold fk_of.
    destruct (find_child d cid) as [c|]; [|discriminate].
    destruct (c_pid c) as [v|] eqn:Ev; [|discriminate].
    unfold child_of. rewrite Ev. cbn [cmp3 cmpZ]. f_equal. apply Z.eqb_sym.
  - rewrite (exists_semantics e pa p s Hl Hne). reflexivity.
  - cbn [tr_pcrit beval peval eeval rows_of]. rewrite Hl. cbn [gcol grow_p g_id]. f_equal.
    rewrite filter_map_swap, map_map. cbn [gcol grow_c g_pid].
    f_equal. apply filter_ext'. intros c. rewrite sx_tr. cbn [lookup]. rewrite Nat.eqb_refl. reflexivity.
  - (* many-to-many any() *)
    cbn [tr_pcrit beval peval rows_of]. f_equal. rewrite existsb_map. apply existsb_ext'. intros n.
    rewrite is_true_tv_of_bool, existsb_map. apply existsb_ext'. intros a.
    cbn [beval]. rewrite is_true_and3, sx_tr.
    rewrite (link_aj p n a); [cbn [lookup Nat.eqb gcol grow_c g_y]; reflexivity | | reflexivity | reflexivity].
    destruct Hpa; subst pa; cbn [lookup Nat.eqb]; exact Hl.
  - (* nested any() across the shared association table *)
    cbn [tr_pcrit beval peval rows_of]. f_equal. rewrite existsb_map. apply existsb_ext'. intros n.
    rewrite is_true_tv_of_bool, existsb_map. apply existsb_ext'. intros a.
    cbn [beval]. rewrite is_true_and3.
    rewrite (link_aj p n a); [ | | reflexivity | reflexivity].
    2:{ destruct Hpa; subst pa; cbn [lookup Nat.eqb]; exact Hl. }
    f_equal. rewrite is_true_tv_of_bool, existsb_map. apply existsb_ext'. intros p'.
    rewrite is_true_tv_of_bool, existsb_map. apply existsb_ext'. intros a'.
    cbn [beval]. rewrite is_true_and3, sx_tr.
    rewrite (link_aj p' n a'); [cbn [lookup Nat.eqb gcol grow_p g_x]; reflexivity | reflexivity | reflexivity | reflexivity].
  - cbn [contains_ok] in Hok. apply andb_true_iff in Hok. destruct Hok as [H1 H2].
    cbn [tr_pcrit beval peval]. rewrite (IHa H1), (IHb H2). reflexivity.
  - cbn [contains_ok] in Hok. apply andb_true_iff in Hok. destruct Hok as [H1 H2].
    cbn [tr_pcrit beval peval]. rewrite (IHa H1), (IHb H2). reflexivity.
  - cbn [contains_ok] in Hok. cbn [tr_pcrit beval peval]. rewrite (IHa Hok). reflexivity.
Qed.

Lemma ccrit_tr : forall e ca c k, lookup e ca = grow_c c -> ca < sub_alias ->
  beval d e (tr_ccrit ca k) = ceval d c k.
Proof.
  intros e ca c k Hl Hlt.
  assert (Hne : ca <> sub_alias) by lia.
  assert (Hca : ca = 0 \/ ca = 1) by (unfold sub_alias in Hlt; lia).
  induction k as [s|s| |s|a IHa b IHb|a IHa b IHb|a IHa].
  - cbn [tr_ccrit ceval]. rewrite sx_tr, Hl. reflexivity.
  - rewrite (has_semantics e ca c s Hl Hne). reflexivity.
  - (* == None on the many-to-one *)
    cbn [tr_ccrit beval ceval eeval]. rewrite Hl. cbn [gcol grow_c g_pid]. reflexivity.
  - (* has(any()) coming back to C *)
    cbn [tr_ccrit beval ceval rows_of]. f_equal. rewrite existsb_map. apply existsb_ext'. intros p.
    cbn [beval]. rewrite is_true_and3, is_true_tv_of_bool, existsb_map.
    assert (Hc : lookup ((2, grow_p p) :: e) ca = grow_c c).
    { destruct Hca; subst ca; cbn [lookup Nat.eqb]; exact Hl. }
    cbn [eeval]. rewrite Hc. cbn [lookup Nat.eqb gcol grow_p grow_c g_id g_pid]. rewrite pj_child. f_equal.
    apply existsb_ext'. intros c'. cbn [beval]. rewrite is_true_and3, sx_tr.
    cbn [eeval lookup Nat.eqb gcol grow_p grow_c g_id g_pid g_y]. rewrite pj_child. reflexivity.
  - cbn [tr_ccrit beval ceval]. rewrite IHa, IHb. reflexivity.
  - cbn [tr_ccrit beval ceval]. rewrite IHa, IHb. reflexivity.
  - cbn [tr_ccrit beval ceval]. rewrite IHa. reflexivity.
Qed.

(* ---- self-referential any() / has() : the criterion is evaluated on the related row (alias), not on the outer row ---- *)
Lemma nchild_pj : forall (m n : crow), is_true (cmp3 OEq (Some (c_id n)) (c_pid m)) = nchild m n.
Proof.
  intros m n. unfold nchild. destruct (c_pid m) as [v|]; [|reflexivity].
  cbn [cmp3 cmpZ]. rewrite is_true_tv_of_bool. apply Z.eqb_sym.
Qed.

Lemma ncrit_tr : forall e na n c, lookup e na = grow_c n -> na <> sub_alias ->
  beval d e (tr_ncrit na c) = neval d n c.
Proof.
  intros e na n c Hl Hne.
  assert (Hn : Nat.eqb na sub_alias = false) by (apply Nat.eqb_neq; exact Hne).
  induction c as [s|s|s|a IHa b IHb|a IHa b IHb|a IHa].
  - cbn [tr_ncrit neval]. rewrite sx_tr, Hl. reflexivity.
  - cbn [tr_ncrit beval neval rows_of]. f_equal. rewrite existsb_map. apply existsb_ext'. intros m.
    cbn [beval]. rewrite is_true_and3, sx_tr. cbn [eeval lookup]. rewrite Nat.eqb_refl, Hn, Hl.
    cbn [gcol grow_c g_id g_pid g_y]. rewrite nchild_pj. reflexivity.
  - cbn [tr_ncrit beval neval rows_of]. f_equal. rewrite existsb_map. apply existsb_ext'. intros m.
    cbn [beval]. rewrite is_true_and3, sx_tr. cbn [eeval lookup]. rewrite Nat.eqb_refl, Hn, Hl.
    cbn [gcol grow_c g_id g_pid g_y]. rewrite nchild_pj. reflexivity.
  - cbn [tr_ncrit beval neval]. rewrite IHa, IHb. reflexivity.
  - cbn [tr_ncrit beval neval]. rewrite IHa, IHb. reflexivity.
  - cbn [tr_ncrit beval neval]. rewrite IHa. reflexivity.
Qed.

(* contains() of a child without parent: the compiled comparison is UNKNOWN, the meaning is FALSE *)
Lemma contains_orphan_unknown : forall e pa p cid c, lookup e pa = grow_p p ->
  find_child d cid = Some c -> c_pid c = None ->
  beval d e (tr_pcrit d pa (PContains cid)) = TU /\ peval d p (PContains cid) = TF.
Proof.
  intros e pa p cid c Hl Hf Hn. cbn [tr_pcrit beval peval eeval]. unfold fk_of. rewrite Hf, Hn, Hl.
  unfold child_of. rewrite Hn. split; reflexivity.
Qed.

End Crit.
