(* C48 - the global invariant and its preservation by every operation and every collector run *)
From Coq Require Import List ZArith NArith Bool Arith Lia.
Import ListNotations.
From SAV.orm Require Import WeakRef WeakRefBase.

Record Inv (s : st) : Prop := mkInv {
  i_dead : forall o, nobj s <= o -> heap s o = dead0;
  i_ok : forall o, okb (heap s o) = true;
  i_map_row : forall o, in_map (heap s o) = true -> db_get (pk (heap s o)) (db s) <> None;
  i_map_inj : forall o1 o2, in_map (heap s o1) = true -> in_map (heap s o2) = true ->
                            pk (heap s o1) = pk (heap s o2) -> o1 = o2;
  i_new_row : forall o, in_new (heap s o) = true -> db_get (pk (heap s o)) (db s) = None;
  i_new_inj : forall o1 o2, in_new (heap s o1) = true -> in_new (heap s o2) = true ->
                            pk (heap s o1) = pk (heap s o2) -> o1 = o2;
  i_pk : forall o, alive (heap s o) = true -> (pk (heap s o) < next_pk s)%N;
  i_db : forall k v, db_get k (db s) = Some v -> (k < next_pk s)%N;
  i_slots : forall o, In (Some o) (slots s) -> alive (heap s o) = true;
  i_local : forall o, local s = Some o -> alive (heap s o) = true;
  i_failed : failed s = false
}.

Lemma alive_lt : forall s o, Inv s -> alive (heap s o) = true -> o < nobj s.
Proof.
  intros s o I H. destruct (le_lt_dec (nobj s) o) as [L|L]; auto.
  rewrite (i_dead s I o L) in H. discriminate.
Qed.

(* ---------------------------------------------------------------- generic: per-object transformers *)
Lemma inv_local : forall s s', Inv s ->
  nobj s' = nobj s -> db s' = db s -> next_pk s' = next_pk s -> failed s' = failed s ->
  (forall o, tr (heap s o) (heap s' o)) ->
  (forall o, nobj s <= o -> heap s' o = dead0) ->
  (forall o, In (Some o) (slots s') -> alive (heap s' o) = true) ->
  (forall o, local s' = Some o -> alive (heap s' o) = true) ->
  Inv s'.
Proof.
  intros s s' I En Ed Ep Ef T D Sl Lo.
  constructor.
  - intros o L. apply D. rewrite <- En. exact L.
  - intros o. apply (T o).
  - intros o H. destruct (T o) as (_ & P & M & _). rewrite Ed, P. apply (i_map_row s I). auto.
  - intros o1 o2 H1 H2 E. destruct (T o1) as (_ & P1 & M1 & _). destruct (T o2) as (_ & P2 & M2 & _).
    apply (i_map_inj s I); auto. congruence.
  - intros o H. destruct (T o) as (_ & P & _ & N & _). rewrite Ed, P. apply (i_new_row s I). auto.
  - intros o1 o2 H1 H2 E. destruct (T o1) as (_ & P1 & _ & N1 & _). destruct (T o2) as (_ & P2 & _ & N2 & _).
    apply (i_new_inj s I); auto. congruence.
  - intros o H. destruct (T o) as (_ & P & _ & _ & A). rewrite Ep, P. apply (i_pk s I). auto.
  - intros k v H. rewrite Ep. rewrite Ed in H. apply (i_db s I k v H).
  - exact Sl.
  - exact Lo.
  - rewrite Ef. apply (i_failed s I).
Qed.

(* updating one live object *)
Lemma inv_upd : forall s o f, Inv s -> alive (heap s o) = true ->
  (okb (heap s o) = true -> tr (heap s o) (f (heap s o)) /\ alive (f (heap s o)) = true) ->
  Inv (upd o f s).
Proof.
  intros s o f I A F0.
  assert (F := F0 (i_ok s I o)). clear F0.
  assert (Lt := alive_lt s o I A).
  apply (inv_local s); auto.
  - intros x. cbn. destruct (Nat.eqb x o) eqn:E.
    + apply Nat.eqb_eq in E. subst x. apply F.
    + apply tr_refl. apply (i_ok s I).
  - intros x L. cbn. destruct (Nat.eqb x o) eqn:E.
    + apply Nat.eqb_eq in E. subst x. lia.
    + apply (i_dead s I). exact L.
  - intros x H. cbn. destruct (Nat.eqb x o) eqn:E.
    + apply Nat.eqb_eq in E. subst x. apply F.
    + apply (i_slots s I). exact H.
  - intros x H. cbn. destruct (Nat.eqb x o) eqn:E.
    + apply Nat.eqb_eq in E. subst x. apply F.
    + apply (i_local s I). exact H.
Qed.

(* the same transformer on every object *)
Lemma inv_hmap : forall s f, Inv s ->
  (forall ob, okb ob = true -> tr ob (f ob) /\ alive (f ob) = alive ob) -> f dead0 = dead0 ->
  Inv (hmap f s).
Proof.
  intros s f I F D.
  apply (inv_local s); auto.
  - intros x. cbn. apply F. apply (i_ok s I).
  - intros x L. cbn. rewrite (i_dead s I x L). exact D.
  - intros x H. cbn. destruct (F (heap s x) (i_ok s I x)) as [_ E]. rewrite E. apply (i_slots s I). exact H.
  - intros x H. cbn. destruct (F (heap s x) (i_ok s I x)) as [_ E]. rewrite E. apply (i_local s I). exact H.
Qed.

(* slots *)
Lemma In_set_nth : forall {A} i (v : A) l x, In x (set_nth i v l) -> x = v \/ In x l.
Proof.
  intros A i v l. revert i. induction l as [|y l IH]; intros i x H; simpl in *; [destruct i; contradiction|].
  destruct i; simpl in H.
  - destruct H; auto.
  - destruct H as [H|H]; auto. destruct (IH _ _ H); auto.
Qed.
Lemma slot_get_In : forall s i o, slot_get s i = Some o -> In (Some o) (slots s).
Proof.
  intros s i o H. unfold slot_get in H.
  destruct (le_lt_dec (length (slots s)) i) as [L|L].
  - rewrite nth_overflow in H; [discriminate|exact L].
  - rewrite <- H. apply nth_In. exact L.
Qed.
Lemma inv_slot_set : forall s i v, Inv s ->
  (forall o, v = Some o -> alive (heap s o) = true) -> Inv (slot_set i v s).
Proof.
  intros s i v I V. apply (inv_local s); auto.
  - intros o. apply tr_refl. apply (i_ok s I).
  - apply (i_dead s I).
  - intros o H. cbn in H. apply In_set_nth in H. destruct H as [H|H]; [apply V; auto|apply (i_slots s I); auto].
  - apply (i_local s I).
Qed.
Lemma inv_set_local : forall s v, Inv s ->
  (forall o, v = Some o -> alive (heap s o) = true) -> Inv (set_local v s).
Proof.
  intros s v I V. apply (inv_local s); auto.
  - intros o. apply tr_refl. apply (i_ok s I).
  - apply (i_dead s I).
  - apply (i_slots s I).
Qed.
Lemma inv_bump_val : forall s, Inv s -> Inv (bump_val s).
Proof.
  intros s I. apply (inv_local s); auto.
  - intros o. apply tr_refl. apply (i_ok s I).
  - apply (i_dead s I).
  - apply (i_slots s I).
  - apply (i_local s I).
Qed.

(* ---------------------------------------------------------------- reachability *)
Lemma memb_In : forall o l, memb o l = true <-> In o l.
Proof.
  intros o l. unfold memb. rewrite existsb_exists. split.
  - intros [x [H E]]. apply Nat.eqb_eq in E. subst. exact H.
  - intros H. exists o. split; auto. apply Nat.eqb_refl.
Qed.
Lemma add_new_incl : forall X R x, In x R -> In x (add_new R X).
Proof.
  unfold add_new. induction X as [|y X IH]; intros R x H; simpl; auto.
  apply IH. destruct (memb y R); auto. apply in_or_app; auto.
Qed.
Lemma add_new_inv : forall X R x, In x (add_new R X) -> In x R \/ In x X.
Proof.
  unfold add_new. induction X as [|y X IH]; intros R x H; simpl in *; auto.
  apply IH in H. destruct H as [H|H]; auto.
  destruct (memb y R); auto. apply in_app_or in H. destruct H as [H|[H|[]]]; auto.
Qed.
Lemma closure_incl : forall s n R x, In x R -> In x (closure s n R).
Proof. induction n; intros R x H; simpl; auto. apply IHn. apply add_new_incl. exact H. Qed.
Lemma closure_inv : forall s n R x, In x (closure s n R) -> In x R \/ exists p, In x (succ_of s p).
Proof.
  induction n; intros R x H; simpl in *; auto.
  apply IHn in H. destruct H as [H|H]; auto.
  apply add_new_inv in H. destruct H as [H|H]; auto.
  apply in_flat_map in H. destruct H as [p [_ H]]. right. exists p. exact H.
Qed.
Lemma rooted_reach : forall s o, Inv s -> rooted s o = true -> In o (reach s).
Proof.
  intros s o I H. unfold reach. apply closure_incl. apply filter_In. split; auto.
  apply in_seq. split; [lia|]. simpl. apply (alive_lt s o I).
  unfold rooted in H. apply andb_prop in H. apply H.
Qed.
(* an object in the reachable set is held by a root or by a live object *)
Lemma reach_inv : forall s o, Inv s -> In o (reach s) ->
  rooted s o = true \/ exists p, alive (heap s p) = true /\ link (heap s p) = Some o.
Proof.
  intros s o I H. unfold reach in H. apply closure_inv in H. destruct H as [H|[p H]].
  - apply filter_In in H. left. apply H.
  - right. exists p. unfold succ_of in H. destruct (link (heap s p)) as [t|] eqn:E; [|destruct H].
    destruct (alive (heap s t)) eqn:A; [|destruct H]. destruct H as [H|[]]. subst t.
    split; auto. apply (okb_link_alive _ o (i_ok s I p) E).
Qed.

(* ---------------------------------------------------------------- any collector run *)
Lemma unrooted_local_of : forall s o, rooted s o = false -> alive (heap s o) = true ->
  unrooted_local (heap s o) = true /\ app_ref s o = false.
Proof.
  intros s o H A. unfold rooted in H. rewrite A in H. simpl in H.
  unfold unrooted_local.
  destruct (app_ref s o), (in_new (heap s o)), (in_del (heap s o)); simpl in *; try discriminate.
  rewrite H. auto.
Qed.
Lemma app_ref_slots : forall s o, In (Some o) (slots s) -> app_ref s o = true.
Proof.
  intros s o H. unfold app_ref. apply orb_true_iff. left. apply existsb_exists.
  exists (Some o). split; auto. simpl. apply Nat.eqb_refl.
Qed.
Lemma app_ref_local : forall s o, local s = Some o -> app_ref s o = true.
Proof. intros s o H. unfold app_ref. rewrite H. simpl. rewrite Nat.eqb_refl. apply orb_true_r. Qed.

Lemma collect_heap : forall l s o, heap (collect l s) o =
  (let ob := heap s o in if memb o l && alive ob && negb (memb o (reach s)) then free_obj ob else ob).
Proof. reflexivity. Qed.

(* a rooted object is never freed *)
Lemma collect_keeps_rooted : forall l s o, Inv s -> rooted s o = true -> heap (collect l s) o = heap s o.
Proof.
  intros l s o I R. rewrite collect_heap. cbv zeta.
  assert (M : memb o (reach s) = true) by (apply memb_In; apply rooted_reach; auto).
  rewrite M. rewrite andb_false_r. reflexivity.
Qed.

Lemma inv_collect : forall l s, Inv s -> Inv (collect l s).
Proof.
  intros l s I.
  assert (T : forall o, tr (heap s o) (heap (collect l s) o) /\
                        (rooted s o = true -> heap (collect l s) o = heap s o)).
  { intros o. split; [|apply collect_keeps_rooted; auto].
    rewrite collect_heap. cbv zeta.
    destruct (memb o l && alive (heap s o) && negb (memb o (reach s))) eqn:C.
    - apply andb_prop in C. destruct C as [C C3]. apply andb_prop in C. destruct C as [C1 C2].
      apply negb_true_iff in C3.
      assert (R : rooted s o = false).
      { destruct (rooted s o) eqn:R; auto. apply (rooted_reach s o I) in R. apply memb_In in R. congruence. }
      apply tr_free_obj; [apply (i_ok s I)|apply (unrooted_local_of s o R C2)].
    - apply tr_refl. apply (i_ok s I). }
  apply (inv_local s); auto.
  - intros o. apply T.
  - intros o L. rewrite collect_heap. cbv zeta. rewrite (i_dead s I o L). simpl.
    rewrite andb_false_r. reflexivity.
  - intros o H. cbn [slots collect set_heap] in H.
    assert (A := i_slots s I o H).
    destruct (T o) as [_ K]. rewrite K; auto.
    unfold rooted. rewrite A. rewrite (app_ref_slots s o H). reflexivity.
  - intros o H. cbn [local collect set_heap] in H.
    assert (A := i_local s I o H).
    destruct (T o) as [_ K]. rewrite K; auto.
    unfold rooted. rewrite A. rewrite (app_ref_local s o H). reflexivity.
Qed.

Lemma inv_rc_iter : forall n s, Inv s -> Inv (rc_iter n s).
Proof.
  induction n; intros s I; simpl; auto.
  destruct (rc_zero s); auto. apply IHn. apply inv_collect. exact I.
Qed.
Lemma inv_rc_collect : forall s, Inv s -> Inv (rc_collect s).
Proof. intros. apply inv_rc_iter. auto. Qed.

(* fields other than the heap are untouched by collection *)
Lemma collect_fields : forall l s, nobj (collect l s) = nobj s /\ slots (collect l s) = slots s /\
  local (collect l s) = local s /\ db (collect l s) = db s /\ next_pk (collect l s) = next_pk s /\
  next_val (collect l s) = next_val s /\ failed (collect l s) = failed s.
Proof. intros. repeat split. Qed.
Lemma rc_iter_fields : forall n s, nobj (rc_iter n s) = nobj s /\ slots (rc_iter n s) = slots s /\
  local (rc_iter n s) = local s /\ db (rc_iter n s) = db s /\ next_pk (rc_iter n s) = next_pk s /\
  next_val (rc_iter n s) = next_val s /\ failed (rc_iter n s) = failed s.
Proof.
  induction n; intros s; simpl; [repeat split|].
  destruct (rc_zero s); [repeat split|]. destruct (IHn (collect (n0 :: l) s)) as (A & B & C & D & E & F & G).
  rewrite A, B, C, D, E, F, G. repeat split.
Qed.

(* compact *)
Lemma compact_heap : forall s, Inv s -> forall o, heap (compact s) o = heap s o.
Proof.
  intros s I o. cbn. destruct (le_lt_dec (nobj s) o) as [L|L].
  - rewrite nth_overflow; [symmetry; apply (i_dead s I o L)|]. rewrite map_length. unfold oids. rewrite seq_length. exact L.
  - rewrite (nth_indep _ dead0 (heap s 0)); [|rewrite map_length; unfold oids; rewrite seq_length; exact L].
    rewrite (map_nth (heap s) (oids s) 0 o). unfold oids. rewrite seq_nth; auto.
Qed.
Lemma inv_compact : forall s, Inv s -> Inv (compact s).
Proof.
  intros s I. assert (E := compact_heap s I).
  apply (inv_local s); auto.
  - intros o. rewrite E. apply tr_refl. apply (i_ok s I).
  - intros o L. rewrite E. apply (i_dead s I o L).
  - intros o H. rewrite E. apply (i_slots s I). exact H.
  - intros o H. rewrite E. apply (i_local s I). exact H.
Qed.
