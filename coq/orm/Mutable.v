(* C49 - model of ext/mutable.py (Mutable, MutableDict, MutableList, MutableSet) together with the
   parts of the attribute system that carry a mutation to the database:

     MutableBase._parents            value object -> parents (InstanceState -> key), insertion order
     Mutable.changed()               for parent, key in self._parents.items(): flag_modified(parent.obj(), key)
     attributes.flag_modified        raises InvalidRequestError when the key is not in the parent's dict;
                                     committed_state[key] = NO_VALUE (overwrites); state.modified = True
     the listeners of _listen_on_attribute: load / refresh (coerce + _parents[state] = key),
                                     set (identity shortcut, coerce, add parent, pop parent of the old value),
                                     pickle / unpickle (parents of the CURRENT value re-established)
     ScalarAttributeImpl.set         old = dict_.get(key, NO_VALUE); set listeners; _modified_event(old)
     InstanceState._modified_event   committed_state[key] = previous only if there is no entry yet
     persistence._collect_update_commands
                                     for key in committed_state: UPDATE unless is_equal(current, original)
     Session.flush/commit/rollback/expire/refresh/merge and pickle.loads(pickle.dumps(obj))

   A mapped class with one mutable column, two persistent rows (session instances = pids 0 and 1),
   detached unpickled copies (pids >= 2), one saved reference to a value object (the "handle").
   Which methods of a Mutable class notify is a PARAMETER [ov : kind -> list meth] (the table
   regenerated from the source on every run); the contents semantics of a method is the builtin's
   (reference semantics of C38, coq/orm/Coll*.v).  Definitions only. *)
From Coq Require Import List ZArith Bool Arith.
Import ListNotations.
From SAV.base Require Import PySlice.
From SAV.orm Require Import CollBase CollList CollSet CollDict.
Local Open Scope nat_scope.

(* ---------------------------------------------------------------- method names *)
Inductive meth :=
| M_setitem | M_delitem | M_clear | M_pop | M_popitem | M_setdefault | M_update | M_ior
| M_append | M_extend | M_insert | M_remove | M_sort | M_reverse | M_iadd | M_imul
| M_add | M_discard | M_difference_update | M_intersection_update | M_symmetric_difference_update
| M_iand | M_isub | M_ixor
| M_getitem | M_get | M_contains.
Scheme Equality for meth.
Definition memb (m : meth) (l : list meth) : bool := existsb (meth_beq m) l.

Inductive kind := KDict | KList | KSet.

(* the in-place mutators of the builtin types (Python data model; trusted, 33 names) *)
Definition in_place_mutators (k : kind) : list meth :=
  match k with
  | KDict => [M_setitem; M_delitem; M_clear; M_pop; M_popitem; M_setdefault; M_update; M_ior]
  | KList => [M_setitem; M_delitem; M_append; M_extend; M_insert; M_pop; M_remove; M_clear; M_sort;
              M_reverse; M_iadd; M_imul]
  | KSet => [M_add; M_discard; M_remove; M_pop; M_clear; M_update; M_difference_update;
             M_intersection_update; M_symmetric_difference_update; M_ior; M_iand; M_isub; M_ixor]
  end.

(* the T1 side condition: every in-place mutator of the builtin is overridden by a method that
   calls self.changed() *)
Definition covers (k : kind) (overrides : list meth) : bool :=
  forallb (fun m => memb m overrides) (in_place_mutators k).
Definition covers_all (ov : kind -> list meth) : bool :=
  covers KDict (ov KDict) && covers KList (ov KList) && covers KSet (ov KSet).

(* ---------------------------------------------------------------- values and operations *)
Inductive cont := CD (d : pydict) | CL (l : list Z) | CS (s : list Z).
Definition kind_of (c : cont) : kind := match c with CD _ => KDict | CL _ => KList | CS _ => KSet end.

Inductive cop :=
| OD (op : dop) | ODGet (k : Z)
| OL (op : lop) | OLSort (reverse : bool)
| OS (op : sop) | OSContains (x : Z).

Definition meth_of (op : cop) : meth :=
  match op with
  | OD (DSetItem _ _) => M_setitem | OD (DDelItem _) => M_delitem | OD DClear => M_clear
  | OD (DPop _ _) => M_pop | OD DPopItem => M_popitem | OD (DSetDefault _ _) => M_setdefault
  | OD (DUpdate _ _) => M_update | OD (DIor _) => M_ior
  | ODGet _ => M_get
  | OL (LAppend _) => M_append | OL (LRemove _) => M_remove | OL (LInsert _ _) => M_insert
  | OL (LSetItem _ _) | OL (LSetSlice _ _) => M_setitem
  | OL (LDelItem _) | OL (LDelSlice _) => M_delitem
  | OL (LExtend _) => M_extend | OL (LIAdd _) => M_iadd | OL (LPop _) => M_pop
  | OL LClear => M_clear | OL (LIMul _) => M_imul | OL LReverse => M_reverse
  | OL (LGetSlice _) => M_getitem
  | OLSort _ => M_sort
  | OS (SAdd _) => M_add | OS (SDiscard _) => M_discard | OS (SRemove _) => M_remove
  | OS SPop => M_pop | OS SClear => M_clear | OS (SUpdate _) => M_update
  | OS (SDiffUpdate _) => M_difference_update | OS (SInterUpdate _) => M_intersection_update
  | OS (SSymDiffUpdate _) => M_symmetric_difference_update
  | OS (SIor _) => M_ior | OS (SIsub _) => M_isub | OS (SIand _) => M_iand | OS (SIxor _) => M_ixor
  | OSContains _ => M_contains
  end.

Fixpoint zinsert (x : Z) (l : list Z) : list Z :=
  match l with [] => [x] | y :: r => if (x <=? y)%Z then x :: l else y :: zinsert x r end.
Definition zsort (l : list Z) : list Z := fold_right zinsert [] l.
Fixpoint kinsert (x : Z * Z) (l : list (Z * Z)) : list (Z * Z) :=
  match l with [] => [x] | y :: r => if (fst x <=? fst y)%Z then x :: l else y :: kinsert x r end.
Definition ksort (l : list (Z * Z)) : list (Z * Z) := fold_right kinsert [] l.

Section Ord.
Variable ord : list Z -> list Z.       (* iteration order of a builtin set (set.pop) *)

(* the contents semantics of the Mutable* methods as they are NOW:
     every override is  <builtin>.<method>(self, ...)  followed by self.changed(), except
     MutableDict.__ior__ = self.update(other); MutableList.__iadd__ = self.extend(x);
     MutableSet.__ior__/__iand__/__ixor__/__isub__ = self.update / intersection_update /
     symmetric_difference_update / difference_update (other)  - any iterable accepted.
   An exception leaves the contents unchanged. *)
Definition mut_sem (c : cont) (op : cop) : res unit * cont :=
  let fin {T} (rc : res T * cont) :=
      match rc with (Ok _, c') => (Ok tt, c') | (Raise e, _) => (Raise e, c) end in
  match c, op with
  | CD d, OD o => fin (let '(r, d') := py_dict_op d o in (r, CD d'))
  | CD d, ODGet _ => (Ok tt, c)
  | CL l, OL o => fin (let '(r, l') := py_list_op l o in (r, CL l'))
  | CL l, OLSort rv => (Ok tt, CL (if rv then rev (zsort l) else zsort l))
  | CS s, OS o =>
      let o' := match o with
                | SIor a => SUpdate a | SIsub a => SDiffUpdate a
                | SIand a => SInterUpdate a | SIxor a => SSymDiffUpdate a
                | _ => o end in
      fin (let '(r, s') := py_set_op ord s o' in (r, CS s'))
  | CS s, OSContains _ => (Ok tt, c)
  | _, _ => (Raise TypeError, c)
  end.
End Ord.

(* Python == on the values: dicts and sets compare regardless of order *)
Definition canon (c : cont) : cont :=
  match c with CD d => CD (ksort d) | CL l => CL l | CS s => CS (zsort s) end.
Definition cont_eq_dec (a b : cont) : {a = b} + {a <> b}.
Proof.
  decide equality; try (apply (list_eq_dec Z.eq_dec)).
  apply list_eq_dec. decide equality; apply Z.eq_dec.
Defined.
Definition ceq (a b : cont) : bool := if cont_eq_dec (canon a) (canon b) then true else false.
Definition ceq_opt (a b : option cont) : bool :=
  match a, b with
  | None, None => true
  | Some x, Some y => ceq x y
  | _, _ => false
  end.

(* ---------------------------------------------------------------- the world *)
(* state.dict.get(key): absent (expired / never loaded), None, or a value object *)
Inductive slotv := Absent | Pres (v : option nat).
(* state.committed_state[key] *)
Inductive orig := ONoValue | OVal (v : option nat).
(* idp: the primary-key attribute is loaded (it is whenever the instance was loaded since its last
   expiry; an assignment to the expired instance leaves it unloaded) *)
Record pstate := mkP { slot : slotv; cst : option orig; pmod : bool; idp : bool }.
Record vobj := mkV { vcont : cont; vpar : list nat }.

Record world := mkW {
  objs : nat -> pstate;            (* pid -> parent object; pids 0,1 = the session's instances *)
  heap : nat -> vobj;              (* oid -> value object *)
  nexto : nat; nextp : nat;
  copies : nat -> option nat;      (* row -> the latest unpickled copy *)
  hdl : option nat;                (* the saved reference *)
  db : nat -> option cont;         (* row -> column value as the session's connection sees it *)
  dbc : nat -> option cont;        (* row -> committed column value *)
  intrans : bool                   (* Session.in_transaction() *)
}.

Definition upd {A} (f : nat -> A) (k : nat) (v : A) : nat -> A :=
  fun j => if Nat.eqb j k then v else f j.

Definition set_objs (w : world) (f : nat -> pstate) : world :=
  mkW f (heap w) (nexto w) (nextp w) (copies w) (hdl w) (db w) (dbc w) (intrans w).
Definition set_heap (w : world) (f : nat -> vobj) : world :=
  mkW (objs w) f (nexto w) (nextp w) (copies w) (hdl w) (db w) (dbc w) (intrans w).
Definition set_hdl (w : world) (h : option nat) : world :=
  mkW (objs w) (heap w) (nexto w) (nextp w) (copies w) h (db w) (dbc w) (intrans w).
Definition set_db (w : world) (f : nat -> option cont) : world :=
  mkW (objs w) (heap w) (nexto w) (nextp w) (copies w) (hdl w) f (dbc w) (intrans w).
Definition set_intrans (w : world) (b : bool) : world :=
  mkW (objs w) (heap w) (nexto w) (nextp w) (copies w) (hdl w) (db w) (dbc w) b.

Definition rows : list nat := [0; 1].
Definition is_session (p : nat) : bool := p <? 2.

Definition val (w : world) (v : option nat) : option cont :=
  match v with Some o => Some (vcont (heap w o)) | None => None end.

(* a new value object *)
Definition alloc (w : world) (c : cont) (pars : list nat) : world * nat :=
  (mkW (objs w) (upd (heap w) (nexto w) (mkV c pars)) (S (nexto w)) (nextp w) (copies w) (hdl w)
       (db w) (dbc w) (intrans w), nexto w).

(* loading row r into the session instance (expired attribute access, refresh):
   the `load` / `refresh` listener coerces the loaded value into a NEW Mutable object and
   sets  val._parents[state] = key *)
Definition load (w : world) (r : nat) : world * option nat :=
  let w1 := set_intrans w true in
  let ps := objs w1 r in
  match slot ps with
  | Pres v =>    (* assigned while expired: only the remaining (primary key) attributes are loaded *)
      (set_objs w1 (upd (objs w1) r (mkP (slot ps) (cst ps) (pmod ps) true)), v)
  | Absent =>
      match db w1 r with
      | None => (set_objs w1 (upd (objs w1) r (mkP (Pres None) (cst ps) (pmod ps) true)), None)
      | Some c =>
          let '(w2, o) := alloc w1 c [r] in
          (set_objs w2 (upd (objs w2) r (mkP (Pres (Some o)) (cst ps) (pmod ps) true)), Some o)
      end
  end.

(* result codes: 0 ok; 10.. container exceptions; 5 InvalidRequestError (flag_modified on an
   attribute that is not loaded); 6 DetachedInstanceError; 7 AttributeError (method call on None);
   9 the addressed copy / handle does not exist (nothing happens) *)
Definition rc_ok : Z := 0%Z.
Definition rc_exn (e : pyexn) : Z :=
  match e with IndexError => 10 | ValueError => 11 | KeyError => 12 | TypeError => 13 | RuntimeError => 14 end%Z.
Definition rc_invalid : Z := 5%Z.
Definition rc_detached : Z := 6%Z.
Definition rc_attr : Z := 7%Z.
Definition rc_notarget : Z := 9%Z.

Inductive tgt := TSess (r : nat) | TCopy (r : nat) | THandle.

Definition tgt_pid (w : world) (t : tgt) : option nat :=
  match t with TSess r => Some r | TCopy r => copies w r | THandle => None end.

(* getattr(obj, key) *)
Definition getattr (w : world) (p : nat) : world * option (option nat) :=
  match slot (objs w p) with
  | Pres v => (w, Some v)
  | Absent => if is_session p then let '(w', v) := load w p in (w', Some v) else (w, None)
  end.

(* the value object an operation addresses: Some (Some o) | Some None (the attribute is None) *)
Definition get_value (w : world) (t : tgt) : world * Z * option (option nat) :=
  match t with
  | THandle => match hdl w with Some o => (w, rc_ok, Some (Some o)) | None => (w, rc_notarget, None) end
  | _ => match tgt_pid w t with
         | None => (w, rc_notarget, None)
         | Some p => match getattr w p with
                     | (w', Some v) => (w', rc_ok, Some v)
                     | (w', None) => (w', rc_detached, None)
                     end
         end
  end.

(* Mutable.changed(): flag_modified for every parent, in insertion order; the first parent whose
   attribute is not loaded raises and the remaining parents are not reached *)
(* InstanceState._modified_event on a session-attached state begins the session's transaction *)
Definition touch (w : world) (p : nat) : world :=
  if is_session p then set_intrans w true else w.
Definition flag_ps (ps : pstate) : pstate := mkP (slot ps) (Some ONoValue) true (idp ps).
Fixpoint changed_loop (ps : list nat) (w : world) : world * bool :=
  match ps with
  | [] => (w, true)
  | p :: r =>
      match slot (objs w p) with
      | Absent => (w, false)
      | Pres _ => changed_loop r (touch (set_objs w (upd (objs w) p (flag_ps (objs w p)))) p)
      end
  end.

Definition add_par (p : nat) (l : list nat) : list nat :=
  if existsb (Nat.eqb p) l then l else l ++ [p].
Definition remove_par (p : nat) (l : list nat) : list nat :=
  filter (fun q => negb (Nat.eqb p q)) l.

Definition same_val (old : slotv) (v : option nat) : bool :=
  match old, v with
  | Pres None, None => true
  | Pres (Some a), Some b => Nat.eqb a b
  | _, _ => false
  end.

(* obj.key = <value object or None>:  ScalarAttributeImpl.set with the Mutable `set` listener *)
Definition set_obj (w : world) (p : nat) (v : option nat) : world :=
  let ps := objs w p in
  let old := slot ps in
  let hp :=
      if same_val old v then heap w            (* if value is oldvalue: return value *)
      else
        let h1 := match v with
                  | Some o => upd (heap w) o (mkV (vcont (heap w o)) (add_par p (vpar (heap w o))))
                  | None => heap w
                  end in
        match old with
        | Pres (Some q) => upd h1 q (mkV (vcont (h1 q)) (remove_par p (vpar (h1 q))))
        | _ => h1
        end in
  let c := match cst ps with
           | Some x => Some x
           | None => Some (match old with Absent => ONoValue | Pres u => OVal u end)
           end in
  touch (set_objs (set_heap w hp) (upd (objs w) p (mkP (Pres v) c true (idp ps)))) p.

(* is_equal(current, committed_state[key]) *)
Definition orig_equal (w : world) (o : orig) (u : option nat) : bool :=
  match o, u with
  | ONoValue, _ => false
  | OVal None, None => true
  | OVal (Some q), Some x => ceq (vcont (heap w q)) (vcont (heap w x))
  | OVal _, _ => false
  end.

Definition flush_row (w : world) (r : nat) : world :=
  let ps := objs w r in
  if pmod ps then
    let w1 := match cst ps, slot ps with
              | Some og, Pres u => if orig_equal w og u then w else set_db w (upd (db w) r (val w u))
              | _, _ => w
              end in
    set_intrans (set_objs w1 (upd (objs w1) r (mkP (slot ps) None false true))) true
  else w.
Definition flush (w : world) : world := fold_left flush_row rows w.

Definition expire_row (w : world) (r : nat) : world :=
  set_objs w (upd (objs w) r (mkP Absent None false false)).
Definition expire_all (w : world) : world := fold_left expire_row rows w.

Definition commit (w : world) : world :=
  let w1 := flush w in
  expire_all (mkW (objs w1) (heap w1) (nexto w1) (nextp w1) (copies w1) (hdl w1) (db w1) (db w1) false).
Definition rollback (w : world) : world :=
  if intrans w then
    expire_all (mkW (objs w) (heap w) (nexto w) (nextp w) (copies w) (hdl w) (dbc w) (dbc w) false)
  else w.

(* pickle.loads(pickle.dumps(obj)): a detached copy with its own state; committed_state and the
   modified flag travel with it; the `unpickle` listener makes the copy's state the parent of the
   copy's CURRENT value only; the pickle memo keeps "original is current" identities *)
Definition pickle (w : world) (r : nat) : world :=
  let ps := objs w r in
  let n := nextp w in
  let '(w1, sl) := match slot ps with
                   | Pres (Some o) => let '(w1, o') := alloc w (vcont (heap w o)) [n] in (w1, Pres (Some o'))
                   | s => (w, s)
                   end in
  let '(w2, c) := match cst ps with
                  | Some (OVal (Some q)) =>
                      match slot ps, sl with
                      | Pres (Some o), Pres (Some o') =>
                          if Nat.eqb q o then (w1, Some (OVal (Some o')))
                          else let '(w2, q') := alloc w1 (vcont (heap w q)) [] in (w2, Some (OVal (Some q')))
                      | _, _ => let '(w2, q') := alloc w1 (vcont (heap w q)) [] in (w2, Some (OVal (Some q')))
                      end
                  | c => (w1, c)
                  end in
  mkW (upd (objs w2) n (mkP sl c (pmod ps) (idp ps))) (heap w2) (nexto w2) (S n) (upd (copies w2) r (Some n))
      (hdl w2) (db w2) (dbc w2) (intrans w2).

Inductive op :=
| Mut (t : tgt) (o : cop)            (* getattr(t).<method>(...) *)
| SetPlain (t : tgt) (c : option cont)   (* t.key = <plain dict/list/set> | None *)
| Save (t : tgt)                     (* h = t.key *)
| SetH (t : tgt)                     (* t.key = h *)
| Flush | Commit | Rollback
| Expire (r : nat) | Refresh (r : nat)
| Pickle (r : nat)                   (* copy[r] = pickle.loads(pickle.dumps(session instance r)) *)
| Merge (r : nat).                   (* session.merge(copy[r]) *)

Section Step.
Variable ord : list Z -> list Z.
Variable ov : kind -> list meth.     (* per class: the methods that call self.changed() *)

Definition notifies (c : cont) (o : cop) : bool := memb (meth_of o) (ov (kind_of c)).

(* value.<method>(...) on the value object [x] *)
Definition mutate (w : world) (x : nat) (o : cop) : world * Z :=
  let vo := heap w x in
  match mut_sem ord (vcont vo) o with
  | (Raise e, _) => (w, rc_exn e)
  | (Ok _, c') =>
      let w1 := set_heap w (upd (heap w) x (mkV c' (vpar vo))) in
      if notifies (vcont vo) o then
        let '(w2, ok) := changed_loop (vpar vo) w1 in
        (w2, if ok then rc_ok else rc_invalid)
      else (w1, rc_ok)
  end.

Definition step (w : world) (o : op) : world * Z :=
  match o with
  | Mut t c =>
      match get_value w t with
      | (w1, _, Some (Some x)) => mutate w1 x c
      | (w1, _, Some None) => (w1, rc_attr)
      | (w1, rc, None) => (w1, rc)
      end
  | SetPlain t c =>
      match tgt_pid w t with
      | None => (w, rc_notarget)
      | Some p =>
          match c with
          | None => (set_obj w p None, rc_ok)
          | Some c' => let '(w1, x) := alloc w c' [] in (set_obj w1 p (Some x), rc_ok)
          end
      end
  | Save t =>
      match get_value w t with
      | (w1, _, Some v) => (set_hdl w1 v, rc_ok)
      | (w1, rc, None) => (w1, rc)
      end
  | SetH t =>
      match tgt_pid w t, hdl w with
      | Some p, Some x => (set_obj w p (Some x), rc_ok)
      | _, _ => (w, rc_notarget)
      end
  | Flush => (flush w, rc_ok)
  | Commit => (commit w, rc_ok)
  | Rollback => (rollback w, rc_ok)
  | Expire r => (expire_row w r, rc_ok)
  | Refresh r => (fst (load (expire_row w r) r), rc_ok)
  | Pickle r => (pickle w r, rc_ok)
  | Merge r =>
      match copies w r with
      | None => (w, rc_notarget)
      | Some p =>
          let cp := objs w p in
          (* ColumnProperty.merge, primary key first: the attribute has active history, so assigning it
             loads the expired target; the assignment itself is a _modified_event *)
          let w1 := if idp cp then
                      let w0 := if idp (objs w r) then w else fst (load w r) in
                      let ps := objs w0 r in
                      touch (set_objs w0 (upd (objs w0) r (mkP (slot ps) (cst ps) true (idp ps)))) r
                    else w in
          match slot cp with
          | Pres v => (set_obj w1 r v, rc_ok)
          | Absent => (w1, rc_ok)
          end
      end
  end.

Fixpoint run (ops : list op) (w : world) : world :=
  match ops with
  | [] => w
  | o :: r => run r (fst (step w o))
  end.

(* ------------- the two regions where the code is known to lose a change (see MutableWitness.v) *)
(* (a) the mutated object is recorded as the ORIGINAL value in some session instance's
       committed_state (it was replaced or taken out of the attribute since the last flush)
   (b) self.changed() reaches a parent whose attribute is not loaded (raises InvalidRequestError
       after the mutation was applied; the remaining parents are not flagged) *)
Definition recorded (w : world) (x : nat) : bool :=
  existsb (fun r => match cst (objs w r) with
                    | Some (OVal (Some q)) => Nat.eqb q x
                    | _ => false end) rows.
Definition parents_loaded (w : world) (x : nat) : bool :=
  forallb (fun p => match slot (objs w p) with Absent => false | Pres _ => true end) (vpar (heap w x)).

Definition guard (w : world) (o : op) : bool :=
  match o with
  | Mut t c =>
      match get_value w t with
      | (w1, _, Some (Some x)) =>
          match mut_sem ord (vcont (heap w1 x)) c with
          | (Raise _, _) => true
          | (Ok _, c') =>
              (negb (recorded w1 x) || (if cont_eq_dec c' (vcont (heap w1 x)) then true else false))
              && (negb (notifies (vcont (heap w1 x)) c) || parents_loaded w1 x)
          end
      | _ => true
      end
  | _ => true
  end.

Fixpoint guarded (ops : list op) (w : world) : bool :=
  match ops with
  | [] => true
  | o :: r => guard w o && guarded r (fst (step w o))
  end.
End Step.

(* a fresh session over two committed rows *)
Definition init_world (d0 d1 : option cont) : world :=
  let dbf := fun r => match r with 0 => d0 | 1 => d1 | _ => None end in
  mkW (fun _ => mkP Absent None false false) (fun _ => mkV (CL []) []) 0 2 (fun _ => None) None dbf dbf false.

(* the property, per session row: an instance that is not flagged modified holds the database's value *)
Definition in_sync (w : world) (r : nat) : Prop :=
  pmod (objs w r) = false ->
  forall v, slot (objs w r) = Pres v -> ceq_opt (val w v) (db w r) = true.
(* after a flush: what is in memory is what is stored *)
Definition stored (w : world) (r : nat) : Prop :=
  forall v, slot (objs w r) = Pres v -> ceq_opt (val w v) (db w r) = true.
