(* C39 - Session.add / delete / expunge / expire reach exactly the closure of the configured cascade. *)
From Coq Require Import List Bool Arith Lia.
From SAV.orm Require Import Cascade CascadeIterProofs.
Import ListNotations.

(* ---------- pointwise description of the folds over a cascade ---------- *)
Definition promote (x : status) : status :=
  match x with Transient => Pending | Detached => Persistent | y => y end.
Definition expunged (x : status) : status :=
  match x with Pending => Transient | Persistent => Detached | Deleted => DetDel | y => y end.

Lemma upd_same : forall A (f : nat -> A) k v, upd f k v k = v.
Proof. intros. unfold upd. rewrite Nat.eqb_refl. reflexivity. Qed.
Lemma upd_other : forall A (f : nat -> A) k v x, x <> k -> upd f k v x = f x.
Proof. intros. unfold upd. destruct (Nat.eqb x k) eqn:E; auto. apply Nat.eqb_eq in E. contradiction. Qed.

Definition no_deleted (s : state) (l : list nat) : Prop := forall x, In x l -> was_deleted s x = false.

Lemma st_sou_impl : forall s o x, was_deleted s o = false ->
  st (sou_impl s o) x = if Nat.eqb x o then promote (st s o) else st s x.
Proof.
  intros s o x Hd. unfold sou_impl, was_deleted in *.
  destruct (st s o) eqn:E; try discriminate; cbn [st set_st set_marked];
    destruct (Nat.eqb x o) eqn:Ex; try (apply Nat.eqb_eq in Ex; subst); cbn [promote];
    rewrite ?upd_same; try reflexivity; try assumption; unfold upd; rewrite Ex; reflexivity.
Qed.

Lemma poison_sou_impl : forall s o, was_deleted s o = false -> poison (sou_impl s o) = poison s.
Proof. intros s o Hd. unfold sou_impl, was_deleted in *. destruct (st s o); try discriminate; reflexivity. Qed.

Lemma was_deleted_promote : forall s o x, was_deleted s o = false ->
  was_deleted (sou_impl s o) x = was_deleted s x.
Proof.
  intros s o x Hd. unfold was_deleted at 1. rewrite st_sou_impl by exact Hd.
  destruct (Nat.eqb x o) eqn:E.
  - apply Nat.eqb_eq in E. subst. unfold was_deleted in *. destruct (st s o); try discriminate; reflexivity.
  - reflexivity.
Qed.

Lemma promote_idem : forall x, promote (promote x) = promote x.
Proof. destruct x; reflexivity. Qed.

Lemma fold_sou_impl : forall l s, no_deleted s l ->
  let s' := fold_left sou_impl l s in
  poison s' = poison s /\
  (forall x, st s' x = if mem x l then promote (st s x) else st s x) /\
  (forall x, was_deleted s' x = was_deleted s x).
Proof.
  induction l as [|c l IH]; intros s Hnd; cbn [fold_left].
  - split; [reflexivity|]. split; intros; reflexivity.
  - assert (Hc : was_deleted s c = false) by (apply Hnd; left; reflexivity).
    assert (Hnd' : no_deleted (sou_impl s c) l).
    { intros x Hx. rewrite was_deleted_promote by exact Hc. apply Hnd. right. exact Hx. }
    specialize (IH (sou_impl s c) Hnd'). cbv zeta in IH. destruct IH as [I1 [I2 I3]].
    split; [rewrite I1; apply poison_sou_impl; exact Hc|]. split.
    + intros x. rewrite I2, st_sou_impl by exact Hc. unfold mem. cbn [existsb].
      destruct (Nat.eqb x c) eqn:E; cbn [orb].
      * apply Nat.eqb_eq in E. subst. destruct (existsb (Nat.eqb c) l); [apply promote_idem|reflexivity].
      * reflexivity.
    + intros x. rewrite I3. apply was_deleted_promote. exact Hc.
Qed.

Lemma in_session_promote : forall x, match promote x with Pending | Persistent => true | _ => false end
                                     = match x with Deleted | DetDel => false | _ => true end.
Proof. destruct x; reflexivity. Qed.

(* ---------- Session.add ---------- *)
(* the state in which the cascade runs: the lead object has been saved *)
Definition add_lead (s : state) (o : nat) : state := sou_impl (set_oos s o false) o.

Theorem add_closure : forall cfg s o,
  was_deleted s o = false ->
  (forall x, creach cfg (add_lead s o) TSU (in_session (add_lead s o)) o x -> was_deleted s x = false) ->
  let s' := fst (op_add cfg s o) in
  snd (op_add cfg s o) = 0 /\ poison s' = poison s /\
  (forall x, in_session s' x = true <->
             in_session s x = true \/ x = o \/ creach cfg (add_lead s o) TSU (in_session (add_lead s o)) o x) /\
  (forall x, x <> o -> ~ creach cfg (add_lead s o) TSU (in_session (add_lead s o)) o x -> st s' x = st s x).
Proof.
  intros cfg s o Hd Hr. unfold op_add. rewrite Hd. cbn [fst snd]. unfold sou_state. fold (add_lead s o).
  set (s1 := add_lead s o) in *.
  set (L := cascade_iter cfg s1 TSU (in_session s1) o).
  assert (Hd1 : was_deleted (set_oos s o false) o = false) by exact Hd.
  assert (Hwd : forall x, was_deleted s1 x = was_deleted s x).
  { intros x. unfold s1, add_lead. rewrite was_deleted_promote by exact Hd1. reflexivity. }
  assert (Hst1 : forall x, st s1 x = if Nat.eqb x o then promote (st s o) else st s x).
  { intros x. unfold s1, add_lead. rewrite st_sou_impl by exact Hd1. reflexivity. }
  assert (HL : no_deleted s1 L).
  { intros x Hx. rewrite Hwd. apply Hr. apply cascade_iter_reach. exact Hx. }
  destruct (fold_sou_impl L s1 HL) as [P [S _]]. fold L in P, S.
  split; [reflexivity|]. split.
  { rewrite P. unfold s1, add_lead. rewrite poison_sou_impl by exact Hd1. reflexivity. }
  split.
  - intros x. unfold in_session at 1. rewrite S, Hst1.
    destruct (mem x L) eqn:ML.
    + apply mem_In in ML. pose proof ML as ML'. apply cascade_iter_reach in ML'.
      split; [intros _; right; right; exact ML'|]. intros _.
      assert (Hx : was_deleted s x = false) by (apply Hr; exact ML').
      destruct (Nat.eqb x o) eqn:E.
      * apply Nat.eqb_eq in E. subst. rewrite promote_idem, in_session_promote. unfold was_deleted in Hd.
        destruct (st s o); try discriminate; reflexivity.
      * rewrite in_session_promote. unfold was_deleted in Hx. destruct (st s x); try discriminate; reflexivity.
    + apply mem_false_notIn in ML.
      destruct (Nat.eqb x o) eqn:E.
      * apply Nat.eqb_eq in E. subst. rewrite in_session_promote. unfold was_deleted in Hd.
        split; [intros _; right; left; reflexivity|]. intros _. destruct (st s o); try discriminate; reflexivity.
      * apply Nat.eqb_neq in E. unfold in_session. split; [intros H; left; exact H|].
        intros [H|[H|H]]; [exact H|contradiction|]. exfalso. apply ML. apply cascade_iter_reach. exact H.
  - intros x Hxo Hnr. rewrite S, Hst1.
    assert (mem x L = false) as ->.
    { apply mem_false_notIn. intros H. apply Hnr. apply cascade_iter_reach. exact H. }
    apply Nat.eqb_neq in Hxo. rewrite Hxo. reflexivity.
Qed.

(* ---------- Session.expunge ---------- *)
Lemma st_expunge1 : forall s o x, st (expunge1 s o) x = if Nat.eqb x o then expunged (st s o) else st s x.
Proof.
  intros s o x. unfold expunge1. destruct (st s o) eqn:E; cbn [st set_st set_marked expunged];
    destruct (Nat.eqb x o) eqn:Ex; try (apply Nat.eqb_eq in Ex; subst); rewrite ?upd_same; try reflexivity;
    try assumption; unfold upd; rewrite Ex; reflexivity.
Qed.
Lemma expunged_idem : forall x, expunged (expunged x) = expunged x.
Proof. destruct x; reflexivity. Qed.
Lemma poison_expunge1 : forall s o, poison (expunge1 s o) = poison s.
Proof. intros. unfold expunge1. destruct (st s o); reflexivity. Qed.

Lemma fold_expunge1 : forall l s,
  poison (fold_left expunge1 l s) = poison s /\
  forall x, st (fold_left expunge1 l s) x = if mem x l then expunged (st s x) else st s x.
Proof.
  induction l as [|c l IH]; intros s; cbn [fold_left].
  - split; intros; reflexivity.
  - destruct (IH (expunge1 s c)) as [I1 I2]. split; [rewrite I1; apply poison_expunge1|].
    intros x. rewrite I2, st_expunge1. unfold mem. cbn [existsb].
    destruct (Nat.eqb x c) eqn:E; cbn [orb].
    + apply Nat.eqb_eq in E. subst. destruct (existsb (Nat.eqb c) l); [apply expunged_idem|reflexivity].
    + reflexivity.
Qed.

Theorem expunge_closure : forall cfg s o, attached s o = true ->
  let s' := fst (op_expunge cfg s o) in
  snd (op_expunge cfg s o) = 0 /\ poison s' = poison s /\
  (forall x, (x = o \/ creach cfg s TEX no_halt o x) -> st s' x = expunged (st s x)) /\
  (forall x, x <> o -> ~ creach cfg s TEX no_halt o x -> st s' x = st s x) /\
  (forall x, attached s' x = true <-> attached s x = true /\ x <> o /\ ~ creach cfg s TEX no_halt o x).
Proof.
  intros cfg s o Ha. unfold op_expunge. rewrite Ha. cbn [negb fst snd]. unfold expunge_all.
  set (L := o :: cascade_iter cfg s TEX no_halt o).
  destruct (fold_expunge1 L s) as [P S].
  assert (HL : forall x, In x L <-> x = o \/ creach cfg s TEX no_halt o x).
  { intros x. unfold L. simpl. rewrite cascade_iter_reach. split; intros [H|H]; auto. }
  split; [reflexivity|]. split; [exact P|]. split; [|split].
  - intros x Hx. rewrite S. apply HL, mem_In in Hx. rewrite Hx. reflexivity.
  - intros x H1 H2. rewrite S. assert (mem x L = false) as ->; [|reflexivity].
    apply mem_false_notIn. rewrite HL. tauto.
  - intros x. unfold attached at 1. rewrite S. destruct (mem x L) eqn:M.
    + apply mem_In, HL in M. split.
      * intros H. exfalso. destruct (st s x); discriminate.
      * intros [_ [H1 H2]]. tauto.
    + apply mem_false_notIn in M. rewrite HL in M. unfold attached. split; [intros H; tauto|tauto].
Qed.


(* ---------- the cascade only reads the relationship attributes ---------- *)
Lemma edge_ext : forall cfg s1 s2 t halt n c,
  (forall a b, coll s1 a b = coll s2 a b) -> (forall a b, ccomm s1 a b = ccomm s2 a b) ->
  (forall a b, par s1 a b = par s2 a b) -> (forall a b, pcomm s1 a b = pcomm s2 a b) ->
  (forall x, has_key s1 x = has_key s2 x) ->
  edge cfg s1 t halt n c -> edge cfg s2 t halt n c.
Proof.
  intros cfg s1 s2 t halt n c H1 H2 H3 H4 H5 [p [Hp [Hh [Hc Ha]]]].
  exists p. split; [exact Hp|]. split; [exact Hh|]. split.
  - destruct p as [ri|ri]; unfold children in *; rewrite <- ?H1, <- ?H2, <- ?H3, <- ?H4; exact Hc.
  - unfold admissible in *. rewrite <- H5. exact Ha.
Qed.
Lemma creach_ext : forall cfg s1 s2 t halt n c,
  (forall a b, coll s1 a b = coll s2 a b) -> (forall a b, ccomm s1 a b = ccomm s2 a b) ->
  (forall a b, par s1 a b = par s2 a b) -> (forall a b, pcomm s1 a b = pcomm s2 a b) ->
  (forall x, has_key s1 x = has_key s2 x) ->
  creach cfg s1 t halt n c -> creach cfg s2 t halt n c.
Proof.
  intros cfg s1 s2 t halt n c H1 H2 H3 H4 H5 H. induction H.
  - apply cr_one. eapply edge_ext; eauto.
  - eapply cr_step; [exact IHcreach|]. eapply edge_ext; eauto.
Qed.

(* ---------- Session.delete ---------- *)
Definition reattach (x : status) : status := match x with Detached => Persistent | y => y end.

Lemma delete_impl_casc_spec : forall s c, was_deleted s c = false ->
  poison (delete_impl_casc s c) = poison s /\
  (forall x, marked (delete_impl_casc s c) x = if Nat.eqb x c then marked s c || has_key s c else marked s x) /\
  (forall x, st (delete_impl_casc s c) x =
             if Nat.eqb x c && has_key s c && negb (marked s c) then reattach (st s c) else st s x).
Proof.
  intros s c Hd. unfold delete_impl_casc. rewrite Hd.
  destruct (has_key s c) eqn:K; cbn [negb].
  - destruct (marked s c) eqn:Mk.
    + split; [reflexivity|]. split; intros x; destruct (Nat.eqb x c) eqn:E; try reflexivity.
      apply Nat.eqb_eq in E. subst. rewrite Mk. reflexivity.
    + split; [destruct (st s c); reflexivity|]. split; intros x.
      * destruct (st s c); cbn [marked set_marked set_st]; unfold upd; destruct (Nat.eqb x c); reflexivity.
      * destruct (Nat.eqb x c) eqn:E; cbn [andb negb].
        { apply Nat.eqb_eq in E. subst. destruct (st s c) eqn:S; cbn [st set_marked set_st reattach]; rewrite ?upd_same; auto. }
        { destruct (st s c); cbn [st set_marked set_st]; unfold upd; rewrite ?E; reflexivity. }
  - split; [reflexivity|]. split; intros x; destruct (Nat.eqb x c) eqn:E; try reflexivity;
      try (apply Nat.eqb_eq in E; subst; rewrite ?orb_false_r; reflexivity); rewrite ?andb_false_r; reflexivity.
Qed.

Lemma has_key_reattach : forall x, match reattach x with Transient | Pending => false | _ => true end
                                   = match x with Transient | Pending => false | _ => true end.
Proof. destruct x; reflexivity. Qed.

Lemma fold_delete_impl : forall l s, no_deleted s l ->
  let s' := fold_left delete_impl_casc l s in
  poison s' = poison s /\
  (forall x, marked s' x = marked s x || (mem x l && has_key s x)) /\
  (forall x, has_key s' x = has_key s x) /\ (forall x, was_deleted s' x = was_deleted s x).
Proof.
  induction l as [|c l IH]; intros s Hnd; cbn [fold_left].
  - split; [reflexivity|]. split; [intros; rewrite orb_false_r; reflexivity|]. split; intros; reflexivity.
  - assert (Hc : was_deleted s c = false) by (apply Hnd; left; reflexivity).
    destruct (delete_impl_casc_spec s c Hc) as [D1 [D2 D3]].
    assert (HK : forall x, has_key (delete_impl_casc s c) x = has_key s x).
    { intros x. unfold has_key. rewrite D3. destruct (Nat.eqb x c && has_key s c && negb (marked s c)) eqn:E; auto.
      apply andb_true_iff in E. destruct E as [E _]. apply andb_true_iff in E. destruct E as [E _].
      apply Nat.eqb_eq in E. subst. apply has_key_reattach. }
    assert (HW : forall x, was_deleted (delete_impl_casc s c) x = was_deleted s x).
    { intros x. unfold was_deleted. rewrite D3. destruct (Nat.eqb x c && has_key s c && negb (marked s c)) eqn:E; auto.
      apply andb_true_iff in E. destruct E as [E _]. apply andb_true_iff in E. destruct E as [E _].
      apply Nat.eqb_eq in E. subst. destruct (st s c); reflexivity. }
    assert (Hnd' : no_deleted (delete_impl_casc s c) l).
    { intros x Hx. rewrite HW. apply Hnd. right. exact Hx. }
    specialize (IH _ Hnd'). cbv zeta in IH. destruct IH as [I1 [I2 [I3 I4]]].
    split; [rewrite I1; exact D1|]. split; [|split].
    + intros x. rewrite I2, D2, HK. unfold mem. cbn [existsb].
      destruct (Nat.eqb x c) eqn:E; cbn [orb andb].
      * apply Nat.eqb_eq in E. subst. destruct (marked s c), (has_key s c), (existsb (Nat.eqb c) l); reflexivity.
      * reflexivity.
    + intros x. rewrite I3. apply HK.
    + intros x. rewrite I4. apply HW.
Qed.

Theorem delete_closure : forall cfg s o,
  has_key s o = true -> was_deleted s o = false -> marked s o = false ->
  (forall x, creach cfg s TDL no_halt o x -> was_deleted s x = false) ->
  let s' := fst (op_delete cfg s o) in
  snd (op_delete cfg s o) = 0 /\ poison s' = poison s /\
  (forall x, marked s' x = true <->
             marked s x = true \/ x = o \/ (creach cfg s TDL no_halt o x /\ has_key s x = true)).
Proof.
  intros cfg s o Hk Hd Hm Hr. unfold op_delete. rewrite Hk, Hd, Hm. cbn [negb fst snd].
  set (s1 := match st s o with Detached => set_st s o Persistent | _ => s end).
  assert (Hst : forall x, st s1 x = if Nat.eqb x o then reattach (st s o) else st s x).
  { intros x. unfold s1. destruct (st s o) eqn:E; cbn [st set_st reattach];
      destruct (Nat.eqb x o) eqn:Ex; try (apply Nat.eqb_eq in Ex; subst); rewrite ?upd_same; auto;
      unfold upd; rewrite Ex; reflexivity. }
  assert (HK : forall x, has_key s1 x = has_key s x).
  { intros x. unfold has_key. rewrite Hst. destruct (Nat.eqb x o) eqn:E; auto. apply Nat.eqb_eq in E. subst.
    apply has_key_reattach. }
  assert (HW : forall x, was_deleted s1 x = was_deleted s x).
  { intros x. unfold was_deleted. rewrite Hst. destruct (Nat.eqb x o) eqn:E; auto. apply Nat.eqb_eq in E. subst.
    destruct (st s o); reflexivity. }
  assert (Hattr : (forall a b, coll s1 a b = coll s a b) /\ (forall a b, ccomm s1 a b = ccomm s a b) /\
                  (forall a b, par s1 a b = par s a b) /\ (forall a b, pcomm s1 a b = pcomm s a b) /\
                  (forall x, marked s1 x = marked s x) /\ poison s1 = poison s).
  { unfold s1. destruct (st s o); repeat split; reflexivity. }
  destruct Hattr as [A1 [A2 [A3 [A4 [A5 A6]]]]].
  assert (Hreach : forall x, creach cfg s1 TDL no_halt o x <-> creach cfg s TDL no_halt o x).
  { intros x. split; intros H.
    - apply (creach_ext cfg s1 s); auto.
    - apply (creach_ext cfg s s1); auto; intros; symmetry; auto. }
  set (L := cascade_iter cfg s1 TDL no_halt o).
  set (s2 := set_marked s1 o true).
  assert (HL : no_deleted s2 L).
  { intros x Hx. change (was_deleted s1 x = false). rewrite HW. apply Hr, Hreach, cascade_iter_reach. exact Hx. }
  destruct (fold_delete_impl L s2 HL) as [P [M _]].
  split; [reflexivity|]. split; [rewrite P; exact A6|].
  intros x. rewrite M. change (marked s2 x) with (upd (marked s1) o true x). change (has_key s2 x) with (has_key s1 x).
  rewrite HK. unfold upd. rewrite A5.
  destruct (Nat.eqb x o) eqn:E.
  - apply Nat.eqb_eq in E. subst. cbn [orb]. split; auto.
  - apply Nat.eqb_neq in E. rewrite orb_true_iff, andb_true_iff, mem_In. unfold L. rewrite cascade_iter_reach, Hreach. tauto.
Qed.

(* ---------- Session.expire ---------- *)
Lemma cond_expire_spec : forall s c,
  poison (cond_expire s c) = poison s /\
  (forall x, expired (cond_expire s c) x = expired s x || (Nat.eqb x c && has_key s c)) /\
  (forall x, st (cond_expire s c) x = if Nat.eqb x c && is_pending s c then Transient else st s x).
Proof.
  intros s c. unfold cond_expire. destruct (has_key s c) eqn:K.
  - split; [reflexivity|]. split; intros x.
    + cbn [expired set_expired]. unfold upd. destruct (Nat.eqb x c); cbn [andb]; [rewrite orb_true_r|rewrite orb_false_r]; reflexivity.
    + assert (is_pending s c = false) as ->.
      { unfold has_key, is_pending in *. destruct (st s c); try discriminate; reflexivity. }
      rewrite andb_false_r. reflexivity.
  - split; [destruct (is_pending s c); reflexivity|]. split; intros x.
    + rewrite andb_false_r, orb_false_r. destruct (is_pending s c); reflexivity.
    + destruct (is_pending s c) eqn:P; [|rewrite andb_false_r; reflexivity].
      cbn [st set_st]. unfold upd. destruct (Nat.eqb x c); reflexivity.
Qed.

Lemma fold_cond_expire : forall l s,
  let s' := fold_left cond_expire l s in
  poison s' = poison s /\
  (forall x, expired s' x = expired s x || (mem x l && has_key s x)) /\
  (forall x, st s' x = if mem x l && is_pending s x then Transient else st s x).
Proof.
  induction l as [|c l IH]; intros s; cbn [fold_left].
  - split; [reflexivity|]. split; intros; [rewrite orb_false_r|]; reflexivity.
  - destruct (cond_expire_spec s c) as [C1 [C2 C3]].
    specialize (IH (cond_expire s c)). cbv zeta in IH. destruct IH as [I1 [I2 I3]].
    assert (HK : forall x, has_key (cond_expire s c) x = has_key s x).
    { intros x. unfold has_key. rewrite C3. destruct (Nat.eqb x c && is_pending s c) eqn:E; auto.
      apply andb_true_iff in E. destruct E as [E1 E2]. apply Nat.eqb_eq in E1. subst.
      unfold is_pending in E2. destruct (st s c); try discriminate; reflexivity. }
    assert (HP : forall x, is_pending (cond_expire s c) x = is_pending s x && negb (Nat.eqb x c)).
    { intros x. unfold is_pending at 1. rewrite C3. destruct (Nat.eqb x c) eqn:E; cbn [andb negb].
      - apply Nat.eqb_eq in E. subst. destruct (is_pending s c) eqn:P; [reflexivity|].
        unfold is_pending in P. rewrite andb_false_r. destruct (st s c); try discriminate; reflexivity.
      - unfold is_pending. rewrite andb_true_r. reflexivity. }
    split; [rewrite I1; exact C1|]. split; intros x.
    + rewrite I2, C2, HK. unfold mem. cbn [existsb]. destruct (Nat.eqb x c) eqn:E; cbn [orb andb].
      * apply Nat.eqb_eq in E. subst. destruct (expired s c), (has_key s c), (existsb (Nat.eqb c) l); reflexivity.
      * rewrite orb_false_r. reflexivity.
    + rewrite I3, C3, HP. unfold mem. cbn [existsb]. destruct (Nat.eqb x c) eqn:E; cbn [orb andb negb].
      * apply Nat.eqb_eq in E. subst. rewrite !andb_false_r. reflexivity.
      * rewrite andb_true_r. reflexivity.
Qed.

Theorem expire_closure : forall cfg s o, st s o = Persistent ->
  let s' := fst (op_expire cfg s o) in
  snd (op_expire cfg s o) = 0 /\ poison s' = poison s /\
  (forall x, expired s' x = true <->
             expired s x = true \/ ((x = o \/ creach cfg s TRE no_halt o x) /\ has_key s x = true)) /\
  (forall x, st s' x = if is_pending s x then
                         (if mem x (cascade_iter cfg s TRE no_halt o) then Transient else Pending)
                       else st s x).
Proof.
  intros cfg s o Hp. unfold op_expire. rewrite Hp. cbn [fst snd].
  set (L := o :: cascade_iter cfg s TRE no_halt o).
  destruct (fold_cond_expire L s) as [P [E S]].
  split; [reflexivity|]. split; [exact P|]. split.
  - intros x. rewrite E, orb_true_iff, andb_true_iff, mem_In. unfold L. simpl. rewrite cascade_iter_reach.
    split; intros [H|[H1 H2]]; auto; right; split; auto; destruct H1; auto.
  - intros x. rewrite S. unfold L, mem. cbn [existsb]. destruct (Nat.eqb x o) eqn:Ex; cbn [orb].
    + apply Nat.eqb_eq in Ex. subst. unfold is_pending. rewrite Hp. reflexivity.
    + fold (mem x (cascade_iter cfg s TRE no_halt o)).
      destruct (is_pending s x) eqn:Pd; [|rewrite andb_false_r; reflexivity]. rewrite andb_true_r.
      destruct (mem x (cascade_iter cfg s TRE no_halt o)); [reflexivity|].
      unfold is_pending in Pd. destruct (st s x); try discriminate; reflexivity.
Qed.
