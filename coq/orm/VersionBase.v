(* C44: list / association-list lemmas and the order relations used by the invariants *)
From Coq Require Import List ZArith Bool Arith Lia.
Import ListNotations.
From SAV.orm Require Import Version.
Open Scope Z_scope.

(* ---------- lookup / rset / rdel ---------- *)
Lemma lookup_rset_same : forall k r l,
  lookup k (rset k r l) = match lookup k l with Some _ => Some r | None => None end.
Proof.
  induction l as [|[k' a] t IH]; cbn [rset map lookup fst]; [reflexivity|].
  fold (rset k r t). destruct (Z.eqb_spec k' k) as [->|N].
  - cbn [lookup]. rewrite Z.eqb_refl. reflexivity.
  - cbn [lookup]. destruct (Z.eqb_spec k' k); [contradiction|]. exact IH.
Qed.

Lemma lookup_rset_other : forall k k' r l, k' <> k -> lookup k' (rset k r l) = lookup k' l.
Proof.
  induction l as [|[k0 a] t IH]; intros N; cbn [rset map lookup fst]; [reflexivity|].
  fold (rset k r t). destruct (Z.eqb_spec k0 k) as [->|N0]; cbn [lookup].
  - destruct (Z.eqb_spec k k'); [congruence|]. apply IH, N.
  - destruct (Z.eqb_spec k0 k'); [reflexivity|]. apply IH, N.
Qed.

Lemma lookup_rdel_same : forall A k (l : list (Z * A)), lookup k (rdel k l) = None.
Proof.
  induction l as [|[k0 a] t IH]; cbn [rdel filter lookup fst]; [reflexivity|].
  fold (rdel k t). destruct (Z.eqb_spec k0 k) as [->|N]; cbn [negb]; [exact IH|].
  cbn [lookup]. destruct (Z.eqb_spec k0 k); [contradiction|]. exact IH.
Qed.

Lemma lookup_rdel_other : forall A k k' (l : list (Z * A)), k' <> k -> lookup k' (rdel k l) = lookup k' l.
Proof.
  induction l as [|[k0 a] t IH]; intros N; cbn [rdel filter lookup fst]; [reflexivity|].
  fold (rdel k t). destruct (Z.eqb_spec k0 k) as [->|N0]; cbn [negb lookup].
  - destruct (Z.eqb_spec k k'); [congruence|]. apply IH, N.
  - destruct (Z.eqb_spec k0 k'); [reflexivity|]. apply IH, N.
Qed.

Lemma lookup_In : forall A k (a : A) l, lookup k l = Some a -> In (k, a) l.
Proof.
  induction l as [|[k0 b] t IH]; cbn [lookup]; [discriminate|].
  destruct (Z.eqb_spec k0 k) as [->|N]; intros H.
  - injection H as ->. left. reflexivity.
  - right. apply IH, H.
Qed.

(* ---------- distinct keys ---------- *)
Fixpoint distinct {A} (l : list (Z * A)) : Prop :=
  match l with [] => True | (k, _) :: r => lookup k r = None /\ distinct r end.

Lemma lookup_filter_none : forall A (f : Z * A -> bool) k l, lookup k l = None -> lookup k (filter f l) = None.
Proof.
  induction l as [|[k0 b] t IH]; cbn [lookup filter]; [reflexivity|].
  destruct (Z.eqb_spec k0 k) as [->|N]; [discriminate|]. intros H.
  destruct (f (k0, b)); cbn [lookup]; [destruct (Z.eqb_spec k0 k); [contradiction|]|]; apply IH, H.
Qed.

Lemma distinct_filter : forall A (f : Z * A -> bool) l, distinct l -> distinct (filter f l).
Proof.
  induction l as [|[k0 b] t IH]; cbn [distinct filter]; [trivial|].
  intros [H1 H2]. destruct (f (k0, b)); cbn [distinct]; [split; [apply lookup_filter_none, H1|]|]; apply IH, H2.
Qed.

Lemma distinct_In_lookup : forall A k (a : A) l, distinct l -> In (k, a) l -> lookup k l = Some a.
Proof.
  induction l as [|[k0 b] t IH]; cbn [distinct In lookup]; [tauto|].
  intros [H1 H2] [E|H].
  - injection E as -> ->. rewrite Z.eqb_refl. reflexivity.
  - destruct (Z.eqb_spec k0 k) as [->|N]; [|apply IH; assumption].
    apply IH in H; [|assumption]. congruence.
Qed.

Lemma lookup_filter : forall A (f : Z * A -> bool) k (a : A) l, distinct l -> lookup k l = Some a ->
  lookup k (filter f l) = if f (k, a) then Some a else None.
Proof.
  induction l as [|[k0 b] t IH]; cbn [distinct lookup filter]; [discriminate|].
  intros [H1 H2]. destruct (Z.eqb_spec k0 k) as [->|N]; intros H.
  - injection H as ->. destruct (f (k, a)); cbn [lookup]; [rewrite Z.eqb_refl; reflexivity|].
    apply lookup_filter_none, H1.
  - destruct (f (k0, b)); cbn [lookup]; [destruct (Z.eqb_spec k0 k); [contradiction|]|]; apply IH; assumption.
Qed.

(* ---------- sorted keys (the identity map of a session, in flush order) ---------- *)
Fixpoint sorted (l : ents) : Prop :=
  match l with [] => True | (k, _) :: r => Forall (fun p => k < fst p) r /\ sorted r end.

Lemma Forall_lt_lookup : forall k (l : ents), Forall (fun p => k < fst p) l -> lookup k l = None.
Proof.
  induction l as [|[k0 b] t IH]; cbn [lookup]; [reflexivity|]. intros HF. inversion HF as [|? ? H1 H2]; subst.
  cbn [fst] in H1. destruct (Z.eqb_spec k0 k); [lia|]. apply IH, H2.
Qed.

Lemma sorted_distinct : forall l, sorted l -> distinct l.
Proof.
  induction l as [|[k e] t IH]; cbn [sorted distinct]; [trivial|]. intros [H1 H2]. split; [apply Forall_lt_lookup, H1|apply IH, H2].
Qed.

Lemma eins_In : forall k e k' e' l, In (k', e') (eins k e l) -> (k', e') = (k, e) \/ In (k', e') l.
Proof.
  induction l as [|[k0 e0] t IH]; cbn [eins].
  - intros [H|[]]. left. symmetry. exact H.
  - destruct (Z.ltb_spec k k0) as [Hlt|Hge].
    + intros [H|H]; [left; symmetry; exact H|right; exact H].
    + destruct (Z.eqb_spec k k0) as [->|N].
      * intros [H|H]; [left; symmetry; exact H|right; right; exact H].
      * intros [H|H]; [right; left; exact H|]. destruct (IH H) as [E|E]; [left; exact E|right; right; exact E].
Qed.

Lemma eins_Forall : forall j k e l, j < k -> Forall (fun p => j < fst p) l -> Forall (fun p : Z * ent => j < fst p) (eins k e l).
Proof.
  intros j k e l Hj H. apply Forall_forall. intros [k' e'] Hin. cbn [fst].
  apply eins_In in Hin. destruct Hin as [E|Hin]; [injection E as -> ->; exact Hj|].
  rewrite Forall_forall in H. apply (H _ Hin).
Qed.

Lemma sorted_eins : forall k e l, sorted l -> sorted (eins k e l).
Proof.
  induction l as [|[k0 e0] t IH]; cbn [eins sorted]; [intros _; split; [constructor|trivial]|].
  intros [H1 H2]. destruct (Z.ltb_spec k k0) as [Hlt|Hge].
  - cbn [sorted]. split; [|split; assumption]. constructor; [cbn [fst]; lia|].
    eapply Forall_impl; [|exact H1]. cbn. intros; lia.
  - destruct (Z.eqb_spec k k0) as [->|N]; cbn [sorted]; [split; assumption|].
    split; [apply eins_Forall; [lia|exact H1]|apply IH, H2].
Qed.

Lemma lookup_eins_same : forall k e l, lookup k (eins k e l) = Some e.
Proof.
  induction l as [|[k0 e0] t IH]; cbn [eins lookup]; [rewrite Z.eqb_refl; reflexivity|].
  destruct (Z.ltb_spec k k0) as [Hlt|Hge]; [cbn [lookup]; rewrite Z.eqb_refl; reflexivity|].
  destruct (Z.eqb_spec k k0) as [->|N]; cbn [lookup]; [rewrite Z.eqb_refl; reflexivity|].
  destruct (Z.eqb_spec k0 k); [congruence|]. exact IH.
Qed.

(* ---------- order relations ---------- *)
(* r2 evolved from r1: no row re-created, versions do not go backwards, equal version = equal content *)
Definition rows_le (r1 r2 : rows) : Prop :=
  forall k b, lookup k r2 = Some b ->
  exists a, lookup k r1 = Some a /\ rv a <= rv b /\ (rv a = rv b -> rx a = rx b).
(* what a session has loaded is a (possibly old) state of the row *)
Definition ent_le (es : ents) (r : rows) : Prop :=
  forall k e b, In (k, e) es -> lookup k r = Some b -> ev e <= rv b /\ (ev e = rv b -> ex e = rx b).

Lemma rows_le_refl : forall r, rows_le r r.
Proof. intros r k b H. exists b. split; [exact H|split; [lia|trivial]]. Qed.

Lemma rows_le_trans : forall r1 r2 r3, rows_le r1 r2 -> rows_le r2 r3 -> rows_le r1 r3.
Proof.
  intros r1 r2 r3 H12 H23 k c Hc. destruct (H23 _ _ Hc) as [b [Hb [L1 E1]]].
  destruct (H12 _ _ Hb) as [a [Ha [L2 E2]]]. exists a. split; [exact Ha|]. split; [lia|].
  intros E. assert (rv a = rv b) by lia. assert (rv b = rv c) by lia. rewrite E2, E1; auto.
Qed.

Lemma ent_le_rows_le : forall es r1 r2, ent_le es r1 -> rows_le r1 r2 -> ent_le es r2.
Proof.
  intros es r1 r2 H1 H12 k e c Hin Hc. destruct (H12 _ _ Hc) as [b [Hb [L1 E1]]].
  destruct (H1 _ _ _ Hin Hb) as [L2 E2]. split; [lia|]. intros E.
  assert (ev e = rv b) by lia. assert (rv b = rv c) by lia. rewrite E2, E1; auto.
Qed.

Lemma ent_le_nil : forall r, ent_le [] r.
Proof. intros r k e b []. Qed.
