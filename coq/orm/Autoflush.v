(* C47 - model of Session autoflush (definitions only).

   Two mapped classes  P(id)  and  C(id, val, pid -> p.id)  with  C.parent (many-to-one, lazy)  and
   P.children (one-to-many, lazy, ordered by id); no backref.  A Session holds child objects (persistent /
   pending / marked deleted, with their in-memory val, pid and a dirty flag) and parent objects
   (persistent / pending).  The database is what the Session's connection sees.

   Transcribes  orm/session.py  Session._autoflush (guard [autoflush and not _flushing]), no_autoflush,
   _execute_internal (ORM statements: compile_state_cls.orm_pre_session_exec; Core statements: unconditional
   _autoflush), get/_get_impl (identity-map hit: no SQL; miss: loading._load_on_pk_identity -> execute),
   refresh (expire the object, _autoflush, SELECT with no_autoflush);  orm/context.py  orm_pre_session_exec
   (the "autoflush" execution option / load option, then session._autoflush());  orm/strategies.py
   _LazyLoader._load_for_state (pending parent object: ATTR_EMPTY without SQL; many-to-one: identity-map
   hit without SQL; else _emit_lazyload -> execute);  orm/loading.py  (rows are matched against the identity
   map: an object already present is returned as it is in memory). *)
From Coq Require Import List ZArith NArith Bool Arith.
Import ListNotations.

Inductive status := Pers | Pend | Del.
Definition status_eqb (a b : status) : bool :=
  match a, b with Pers, Pers | Pend, Pend | Del, Del => true | _, _ => false end.

Record cobj := mkC { c_id : N; c_st : status; c_val : Z; c_pid : N (* 0 = NULL *); c_dirty : bool }.

Definition rows := list (N * (Z * N)).
Fixpoint row_get (k : N) (d : rows) : option (Z * N) :=
  match d with [] => None | (i, r) :: t => if N.eqb i k then Some r else row_get k t end.
(* insertion keeps the table ordered by id (ORDER BY id is then the list order) *)
Fixpoint row_set (k : N) (r : Z * N) (d : rows) : rows :=
  match d with
  | [] => [(k, r)]
  | (i, x) :: t => if N.eqb i k then (k, r) :: t else if N.ltb k i then (k, r) :: d else (i, x) :: row_set k r t
  end.
Definition row_del (k : N) (d : rows) : rows := filter (fun p : N * (Z * N) => negb (N.eqb (fst p) k)) d.
Fixpoint ins_N (k : N) (l : list N) : list N :=
  match l with [] => [k] | i :: t => if N.eqb i k then l else if N.ltb k i then k :: l else i :: ins_N k t end.
Definition memN (k : N) (l : list N) : bool := existsb (N.eqb k) l.

Record st := mkSt {
  dbc : rows;                 (* table c *)
  dbp : list N;               (* table p *)
  cs : list cobj;             (* child objects of the session *)
  ps : list (N * bool);       (* parent objects of the session: (id, pending?) *)
  nc : N; np : N;             (* next fresh ids *)
  saf : bool;                 (* Session.autoflush *)
  flushing : bool             (* Session._flushing *)
}.
Definition set_db (d : rows) (p : list N) (s : st) : st := mkSt d p (cs s) (ps s) (nc s) (np s) (saf s) (flushing s).
Definition set_cs (l : list cobj) (s : st) : st := mkSt (dbc s) (dbp s) l (ps s) (nc s) (np s) (saf s) (flushing s).
Definition set_ps (l : list (N * bool)) (s : st) : st := mkSt (dbc s) (dbp s) (cs s) l (nc s) (np s) (saf s) (flushing s).

Definition find_c (k : N) (l : list cobj) : option cobj := find (fun o => N.eqb (c_id o) k) l.
Definition find_p (k : N) (l : list (N * bool)) : option (N * bool) := find (fun p => N.eqb (fst p) k) l.
Definition upd_c (k : N) (f : cobj -> cobj) (l : list cobj) : list cobj :=
  map (fun o => if N.eqb (c_id o) k then f o else o) l.

(* ---------------------------------------------------------------- flush *)
Definition clean (o : cobj) : cobj := mkC (c_id o) Pers (c_val o) (c_pid o) false.
Definition flush_row (d : rows) (o : cobj) : rows :=
  match c_st o with
  | Pend => row_set (c_id o) (c_val o, c_pid o) d
  | Del => row_del (c_id o) d
  | Pers => if c_dirty o then
              match row_get (c_id o) d with Some _ => row_set (c_id o) (c_val o, c_pid o) d | None => d end
            else d
  end.
Definition not_del (o : cobj) : bool := negb (status_eqb (c_st o) Del).
Definition flush (s : st) : st :=
  mkSt (fold_left flush_row (cs s) (dbc s))
       (fold_left (fun d (p : N * bool) => if snd p then ins_N (fst p) d else d) (ps s) (dbp s))
       (map clean (filter not_del (cs s)))
       (map (fun p : N * bool => (fst p, false)) (ps s))
       (nc s) (np s) (saf s) (flushing s).

(* ---------------------------------------------------------------- queries *)
Inductive qkind := SelEnt | SelCol | Count | Core | Get | LazyP | Children | GetP | Refresh | Legacy | Scalars
  | ScalarCore    (* Session.scalar(select(count()).select_from(<Table>)) : Core statement, scalar fast path *)
  | ScalarText    (* Session.scalar(text("select count(*) from c")) *)
  | ExecText      (* Session.execute(text("select id from c where val >= :a order by id")) *)
  | ScalarOrm     (* Session.scalar(select(count()).select_from(C)) : ORM statement *)
  | ScalarsCore   (* Session.scalars(<Core select of c.id>) *)
  | ConnExec.     (* Session.connection().execute(<Core select>) : not a Session execution, never autoflushes *)
Inductive qmode := MDefault | MNoAutoflushBlock | MExecOption.

(* Session._autoflush: `if self.autoflush and not self._flushing` *)
Definition af_guard (autoflush flushing_ : bool) : bool := autoflush && negb flushing_.
(* does the entry point reach an effective session._autoflush()?  no_autoflush sets Session.autoflush to
   False for the block; the "autoflush" execution option is consumed by orm_pre_session_exec - ORM
   statements only: a Core statement autoflushes unconditionally (issue 9809) *)
Definition is_core (k : qkind) : bool :=
  match k with Core | ScalarCore | ScalarText | ExecText | ScalarsCore => true | _ => false end.
Definition is_conn (k : qkind) : bool := match k with ConnExec => true | _ => false end.
Definition enabled (k : qkind) (m : qmode) (s : st) : bool :=
  if is_conn k then false else
  match m with
  | MDefault => af_guard (saf s) (flushing s)
  | MNoAutoflushBlock => af_guard false (flushing s)
  | MExecOption => if is_core k then af_guard (saf s) (flushing s) else false
  end.
Definition autoflush_then (k : qkind) (m : qmode) (s : st) : st := if enabled k m s then flush s else s.

Definition res := list (list Z).
Definition zN (k : N) : Z := Z.of_N k.

(* loading._instance: the row's identity is looked up in the identity map (pending objects have no
   identity); a hit is returned as it is in memory, a miss becomes a new persistent object *)
Definition has_identity (o : cobj) : bool := negb (status_eqb (c_st o) Pend).
Definition find_ident (k : N) (l : list cobj) : option cobj :=
  find (fun o => N.eqb (c_id o) k && has_identity o) l.
Definition resolve (acc : st * list cobj) (row : N * (Z * N)) : st * list cobj :=
  let (s, out) := acc in
  match find_ident (fst row) (cs s) with
  | Some o => (s, out ++ [o])
  | None => let o := mkC (fst row) Pers (fst (snd row)) (snd (snd row)) false in
            (set_cs (cs s ++ [o]) s, out ++ [o])
  end.
Definition load_rows (rs : rows) (s : st) : st * list cobj := fold_left resolve rs (s, []).
Definition ent (o : cobj) : list Z := [zN (c_id o); c_val o; zN (c_pid o)].

Definition sel_val (a : Z) (d : rows) : rows := filter (fun p : N * (Z * N) => Z.leb a (fst (snd p))) d.
Definition sel_pid (k : N) (d : rows) : rows := filter (fun p : N * (Z * N) => N.eqb (snd (snd p)) k) d.

Definition load_parent (k : N) (s : st) : st * res :=
  (* after the (auto)flush: identity map again, then the row *)
  match find_p k (ps s) with
  | Some (_, false) => (s, [[zN k]])
  | _ => if memN k (dbp s) then (set_ps (ps s ++ [(k, false)]) s, [[zN k]]) else (s, [])
  end.

Definition exec (k : qkind) (m : qmode) (a : Z) (s : st) : st * res :=
  let an := Z.to_N a in
  match k with
  | SelEnt | Legacy =>
      let s1 := autoflush_then k m s in
      let (s2, os) := load_rows (sel_val a (dbc s1)) s1 in (s2, map ent os)
  | SelCol =>
      let s1 := autoflush_then k m s in (s1, map (fun p : N * (Z * N) => [zN (fst p); fst (snd p)]) (sel_pid an (dbc s1)))
  | Count | ScalarCore | ScalarText | ScalarOrm =>
      let s1 := autoflush_then k m s in (s1, [[Z.of_nat (length (dbc s1))]])
  | Core | Scalars | ExecText | ScalarsCore | ConnExec =>
      let s1 := autoflush_then k m s in (s1, map (fun p : N * (Z * N) => [zN (fst p)]) (sel_val a (dbc s1)))
  | Get =>
      match find_ident an (cs s) with
      | Some o => (s, [ent o])                      (* identity-map hit: no SQL, no autoflush (objects are never
                                                       fully expired in this model, so the un-expire refresh of
                                                       get_from_identity - with its own autoflush and the row-switch
                                                       re-lookup - does not occur) *)
      | None =>
          let s1 := autoflush_then k m s in
          match find_ident an (cs s1) with
          | Some o => (s1, [ent o])
          | None => match row_get an (dbc s1) with
                    | Some r => let (s2, os) := load_rows [(an, r)] s1 in (s2, map ent os)
                    | None => (s1, [])
                    end
          end
      end
  | GetP =>
      match find_p an (ps s) with
      | Some (_, false) => (s, [[zN an]])
      | _ => load_parent an (autoflush_then k m s)
      end
  | LazyP =>
      match find_c an (cs s) with
      | None => (s, [])
      | Some o =>
          match c_st o with
          | Pend => (s, [])                           (* ATTR_EMPTY: a pending object does not lazy load *)
          | _ =>
              if N.eqb (c_pid o) 0 then (s, [])
              else match find_p (c_pid o) (ps s) with
                   | Some (_, false) => (s, [[zN (c_pid o)]])        (* identity-map hit *)
                   | _ => load_parent (c_pid o) (autoflush_then k m s)
                   end
          end
      end
  | Children =>
      match find_p an (ps s) with
      | Some (_, false) =>
          let s1 := autoflush_then k m s in
          let (s2, os) := load_rows (sel_pid an (dbc s1)) s1 in (s2, map (fun o => [zN (c_id o)]) os)
      | _ => (s, [])                                  (* unknown or pending parent: no SQL *)
      end
  | Refresh =>
      (* _expire_state discards the object's own pending changes, then _autoflush, then SELECT *)
      let s0 := set_cs (upd_c an (fun o => mkC (c_id o) (c_st o) (c_val o) (c_pid o) false) (cs s)) s in
      let s1 := autoflush_then k m s0 in
      match row_get an (dbc s1) with
      | Some r => (set_cs (upd_c an (fun o => mkC (c_id o) (c_st o) (fst r) (snd r) false) (cs s1)) s1,
                   [[zN an; fst r; zN (snd r)]])
      | None => (s1, [])
      end
  end.

(* ---------------------------------------------------------------- the other operations *)
Inductive op :=
| AddC (v : Z) (p : N) | AddP | SetVal (k : N) (v : Z) | SetPid (k : N) (p : N) | DelC (k : N) | Flush
| Query (k : qkind) (m : qmode) (a : Z).

(* result codes of the harness guards (decided through inspect() / session.dirty / session.deleted) *)
Definition guard (o : op) (s : st) : Z :=
  match o with
  | SetVal k _ | SetPid k _ =>
      match find_c k (cs s) with Some _ => 0 | None => 1 end
  | DelC k =>
      match find_c k (cs s) with Some x => if status_eqb (c_st x) Pers then 0 else 2 | None => 1 end
  | Query LazyP _ a =>
      match find_c (Z.to_N a) (cs s) with
      | None => 1
      | Some x => match c_st x with Del => 2 | Pend => 4 | Pers => 0 end
      end
  | Query Refresh _ a =>
      match find_c (Z.to_N a) (cs s) with
      | None => 1
      | Some x => match c_st x with Del => 2 | Pend => 3 | Pers => if c_dirty x then 3 else 0 end
      end
  | Query Children _ a =>
      match find_p (Z.to_N a) (ps s) with None => 1 | Some (_, true) => 4 | Some (_, false) => 0 end
  | Query Get _ a =>
      match find_ident (Z.to_N a) (cs s) with
      | Some x => if status_eqb (c_st x) Del then 5 else 6
      | None => 0
      end
  | _ => 0
  end%Z.
Definition skipped (rc : Z) : bool := (Z.eqb rc 1 || Z.eqb rc 2 || Z.eqb rc 3)%Z.

Definition mark_dirty (o : cobj) : bool := match c_st o with Pend => c_dirty o | _ => true end.
Definition step (o : op) (s : st) : st * res :=
  if skipped (guard o s) then (s, []) else
  match o with
  | AddC v p => (mkSt (dbc s) (dbp s) (cs s ++ [mkC (nc s) Pend v p false]) (ps s) (N.succ (nc s)) (np s) (saf s) (flushing s), [])
  | AddP => (mkSt (dbc s) (dbp s) (cs s) (ps s ++ [(np s, true)]) (nc s) (N.succ (np s)) (saf s) (flushing s), [])
  | SetVal k v => (set_cs (upd_c k (fun x => mkC (c_id x) (c_st x) v (c_pid x) (mark_dirty x)) (cs s)) s, [])
  | SetPid k p => (set_cs (upd_c k (fun x => mkC (c_id x) (c_st x) (c_val x) p (mark_dirty x)) (cs s)) s, [])
  | DelC k => (set_cs (upd_c k (fun x => mkC (c_id x) Del (c_val x) (c_pid x) (c_dirty x)) (cs s)) s, [])
  | Flush => (flush s, [])
  | Query k m a => exec k m a s
  end.

Definition init (pr : list N) (cr : rows) (autoflush : bool) (nc0 np0 : N) : st :=
  mkSt cr pr [] [] nc0 np0 autoflush false.
