(* C44: the invariant of the interleaving model and its preservation by every operation of every session *)
From Coq Require Import List ZArith NArith Bool Arith Lia.
Import ListNotations.
From SAV.orm Require Import Version VersionBase VersionStmts.
Open Scope Z_scope.

(* the write transaction of session i, if it holds one *)
Definition writer_is (d : db) (i : nat) : option (rows * bool) :=
  match wr d with Some (j, w, b) => if Nat.eqb j i then Some (w, b) else None | None => None end.
(* the rows a write statement of session i works on *)
Definition cur_rows (d : db) (i : nat) : rows :=
  match writer_is d i with Some (w, _) => w | None => com d end.

Definition snap_ok (d : db) (sn : option (N * rows)) : Prop :=
  match sn with
  | None => True
  | Some (gn, r) => rows_le r (com d) /\ (gn <= gen d)%N /\ (gn = gen d -> r = com d)
  end.
Definition sess_ok (d : db) (i : nat) (se : sess) : Prop :=
  sorted (sents se) /\ ent_le (sents se) (cur_rows d i) /\
  (writer_is d i = None -> snap_ok d (snap se)).
Definition db_ok (d : db) : Prop :=
  match wr d with Some (_, w, dirty) => rows_le (com d) w /\ (dirty = false -> w = com d) | None => True end.
Definition Inv (s : state) : Prop := db_ok (sdb s) /\ forall i, sess_ok (sdb s) i (sget i (sss s)).

Lemma sget_sput_same : forall i x l, sget i (sput i x l) = x.
Proof. intros. unfold sput. cbn [sget]. rewrite Nat.eqb_refl. reflexivity. Qed.
Lemma sget_sput_other : forall i j x l, j <> i -> sget j (sput i x l) = sget j l.
Proof. intros. unfold sput. cbn [sget]. destruct (Nat.eqb_spec i j); [congruence|reflexivity]. Qed.

Lemma sess_ok_empty : forall d i, sess_ok d i empty_sess.
Proof.
  intros. unfold sess_ok, empty_sess. cbn [sents snap]. split; [exact I|]. split; [apply ent_le_nil|]. intros _. exact I.
Qed.

Lemma Inv_init : forall r0, Inv (init r0).
Proof. intros r0. split; [exact I|]. intros i. cbn [init sss sget]. apply sess_ok_empty. Qed.

(* ---------- post_ents ---------- *)
Lemma post_ents_In : forall server g w k e' es, In (k, e') (post_ents server g w es) ->
  exists e, In (k, e) es /\ post_ent server g w (k, e) = Some (k, e').
Proof.
  induction es as [|[k0 e0] t IH]; cbn [post_ents In]; [tauto|].
  destruct (post_ent server g w (k0, e0)) as [[k1 e1]|] eqn:P.
  - intros [E|H].
    + injection E as -> ->. exists e0. split; [left|].
      * unfold post_ent in P. destruct (edel e0); [discriminate|]. destruct (is_upd e0); injection P as <- _; reflexivity.
      * assert (k0 = k) as <-; [|exact P].
        unfold post_ent in P. destruct (edel e0); [discriminate|]. destruct (is_upd e0); injection P as <- _; reflexivity.
    + destruct (IH H) as [e [H1 H2]]. exists e. split; [right; exact H1|exact H2].
  - intros H. destruct (IH H) as [e [H1 H2]]. exists e. split; [right; exact H1|exact H2].
Qed.

Lemma post_ents_Forall : forall server g w j es, Forall (fun p : Z * ent => j < fst p) es ->
  Forall (fun p : Z * ent => j < fst p) (post_ents server g w es).
Proof.
  intros server g w j es H. apply Forall_forall. intros [k e'] Hin. apply post_ents_In in Hin.
  destruct Hin as [e [Hin _]]. rewrite Forall_forall in H. apply (H _ Hin).
Qed.

Lemma post_ents_sorted : forall server g w es, sorted es -> sorted (post_ents server g w es).
Proof.
  induction es as [|[k0 e0] t IH]; cbn [post_ents sorted]; [trivial|]. intros [H1 H2].
  destruct (post_ent server g w (k0, e0)) as [[k1 e1]|] eqn:P; [|apply IH, H2].
  assert (k1 = k0) as ->.
  { unfold post_ent in P. destruct (edel e0); [discriminate|]. destruct (is_upd e0); injection P as <- _; reflexivity. }
  cbn [sorted]. split; [apply post_ents_Forall, H1|apply IH, H2].
Qed.

(* ---------- small facts about the reference database ---------- *)
Lemma begin_write_cur : forall d i sn w dirty, begin_write d i sn = Some (w, dirty) -> w = cur_rows d i.
Proof.
  unfold begin_write, cur_rows, writer_is. intros d i sn w dirty. destruct (wr d) as [[[j w0] b]|].
  - destruct (Nat.eqb j i); [|discriminate]. intros H; injection H as -> _. reflexivity.
  - destruct sn as [[gn r]|]; [destruct (N.eqb gn (gen d)); [|discriminate]|]; intros H; injection H as <- _; reflexivity.
Qed.

Lemma begin_write_writer : forall d i sn w dirty, begin_write d i sn = Some (w, dirty) ->
  wr d = None \/ wr d = Some (i, w, dirty).
Proof.
  unfold begin_write. intros d i sn w dirty. destruct (wr d) as [[[j w0] b]|]; [|left; reflexivity].
  destruct (Nat.eqb_spec j i) as [->|]; [|discriminate]. intros H; injection H as -> ->. right. reflexivity.
Qed.

Lemma begin_write_clean : forall d i sn w, db_ok d -> begin_write d i sn = Some (w, false) -> w = com d.
Proof.
  unfold begin_write, db_ok. intros d i sn w. destruct (wr d) as [[[j w0] b]|].
  - intros [_ H]. destruct (Nat.eqb j i); [|discriminate]. intros E; injection E as -> ->. apply H. reflexivity.
  - intros _. destruct sn as [[gn r]|]; [destruct (N.eqb gn (gen d)); [|discriminate]|]; intros H; injection H as <-; reflexivity.
Qed.

(* ---------- frames: what one session's step means for the invariant of the others ---------- *)
Definition others_frame (d d' : db) (i : nat) : Prop := forall j se, j <> i -> sess_ok d j se -> sess_ok d' j se.

Lemma Inv_change : forall s d' i se',
  Inv s -> db_ok d' -> sess_ok d' i se' -> others_frame (sdb s) d' i ->
  Inv {| sdb := d'; sss := sput i se' (sss s) |}.
Proof.
  intros s d' i se' [Hd Hs] Hd' Hi Hf. split; [exact Hd'|]. cbn [sdb sss]. intros j.
  destruct (Nat.eq_dec j i) as [->|N].
  - rewrite sget_sput_same. exact Hi.
  - rewrite sget_sput_other by exact N. apply Hf; [exact N|apply Hs].
Qed.

Lemma others_frame_refl : forall d i, others_frame d d i.
Proof. intros d i j se _ H. exact H. Qed.

Lemma frame_flush_ok : forall d i w2 b, (wr d = None \/ exists w b0, wr d = Some (i, w, b0)) ->
  others_frame d {| gen := gen d; com := com d; wr := Some (i, w2, b) |} i.
Proof.
  intros d i w2 b Hw j se N [H1 [H2 H3]].
  assert (W : writer_is d j = None).
  { unfold writer_is. destruct Hw as [->|[w [b0 ->]]]; [reflexivity|]. destruct (Nat.eqb_spec i j); [congruence|reflexivity]. }
  assert (W' : writer_is {| gen := gen d; com := com d; wr := Some (i, w2, b) |} j = None).
  { unfold writer_is. cbn [wr]. destruct (Nat.eqb_spec i j); [congruence|reflexivity]. }
  unfold sess_ok, cur_rows in *. rewrite W in H2. rewrite W'. cbn [com].
  split; [exact H1|]. split; [exact H2|]. intros _. apply (H3 W).
Qed.

Lemma frame_end_rollback : forall d i, others_frame d (end_txn d i false) i.
Proof.
  intros d i j se N H. unfold end_txn. destruct (wr d) as [[[j0 w] b]|] eqn:W; [|exact H].
  destruct (Nat.eqb_spec j0 i) as [->|]; [|exact H]. cbn [andb].
  destruct H as [H1 [H2 H3]].
  assert (Wj : writer_is d j = None).
  { unfold writer_is. rewrite W. destruct (Nat.eqb_spec i j); [congruence|reflexivity]. }
  unfold sess_ok, cur_rows, writer_is in *. rewrite W in H2, H3. cbn [wr com gen].
  destruct (Nat.eqb_spec i j); [congruence|]. split; [exact H1|]. split; [exact H2|]. exact H3.
Qed.

Lemma frame_end_commit : forall d i, db_ok d -> others_frame d (end_txn d i true) i.
Proof.
  intros d i Hd j se N H. unfold end_txn. destruct (wr d) as [[[j0 w] b]|] eqn:W; [|exact H].
  destruct (Nat.eqb_spec j0 i) as [->|]; [|exact H]. cbn [andb].
  unfold db_ok in Hd. rewrite W in Hd. destruct Hd as [Hle Hcl].
  destruct H as [H1 [H2 H3]].
  unfold sess_ok, cur_rows, writer_is in *. rewrite W in H2, H3.
  destruct (Nat.eqb_spec i j) as [|_]; [congruence|].
  destruct b; cbn [wr com gen].
  - split; [exact H1|]. split; [eapply ent_le_rows_le; eassumption|]. intros _.
    specialize (H3 eq_refl). unfold snap_ok in *. destruct (snap se) as [[gn r]|]; [|exact I].
    cbn [com gen]. destruct H3 as [A [B C]]. split; [eapply rows_le_trans; eassumption|]. split; [lia|]. intros E. lia.
  - split; [exact H1|]. split; [exact H2|]. exact H3.
Qed.

Lemma db_ok_end : forall d i c, db_ok d -> db_ok (end_txn d i c).
Proof.
  intros d i c H. unfold end_txn. destruct (wr d) as [[[j0 w] b]|] eqn:W; [|exact H].
  destruct (Nat.eqb_spec j0 i); [|exact H]. destruct (c && b); exact I.
Qed.

Lemma rolled_back_inv : forall s i, Inv s -> Inv (rolled_back s i).
Proof.
  intros s i H. unfold rolled_back. apply Inv_change; [exact H|apply db_ok_end, H|apply sess_ok_empty|apply frame_end_rollback].
Qed.

(* ---------- get / set / delete ---------- *)
Lemma ent_le_eins : forall k e l r, ent_le l r ->
  (forall b, lookup k r = Some b -> ev e <= rv b /\ (ev e = rv b -> ex e = rx b)) -> ent_le (eins k e l) r.
Proof.
  intros k e l r H He k' e' b Hin Hb. apply eins_In in Hin. destruct Hin as [E|Hin].
  - injection E as -> ->. apply He, Hb.
  - eapply H; eassumption.
Qed.

Section P.
Variables (server sane_multi : bool) (eoc : nat -> bool) (g : Z -> Z).
Hypothesis Hg : forall v, v < g v.
Notation stepT := (step server true sane_multi eoc g).
Notation flushT := (flush server true sane_multi g).

Lemma load_inv : forall i k s, Inv s ->
  Inv (fst (load i k s)) /\ sdb (fst (load i k s)) = sdb s /\
  (forall j, j <> i -> sget j (sss (fst (load i k s))) = sget j (sss s)) /\
  (forall e, snd (load i k s) = Some e -> lookup k (sents (sget i (sss (fst (load i k s))))) = Some e).
Proof.
  intros i k s HI. unfold load. destruct (lookup k (sents (sget i (sss s)))) as [e|] eqn:L.
  - cbn [fst snd]. split; [exact HI|]. split; [reflexivity|]. split; [reflexivity|]. intros e0 E. injection E as <-. exact L.
  - destruct (view (sdb s) i (snap (sget i (sss s)))) as [vw sn] eqn:V.
    pose proof (proj2 HI i) as [S1 [S2 S3]].
    (* facts about the view *)
    assert (HV : ent_le (sents (sget i (sss s))) (cur_rows (sdb s) i) /\
                 (forall a b, lookup k vw = Some a -> lookup k (cur_rows (sdb s) i) = Some b ->
                              rv a <= rv b /\ (rv a = rv b -> rx a = rx b)) /\
                 (writer_is (sdb s) i = None -> snap_ok (sdb s) sn)).
    { split; [exact S2|]. unfold view in V. unfold cur_rows, writer_is in *.
      destruct (wr (sdb s)) as [[[j w] bw]|] eqn:W.
      - destruct (Nat.eqb_spec j i) as [->|N].
        + injection V as <- <-. split; [|discriminate]. intros a b Ha Hb. rewrite Ha in Hb. injection Hb as <-. split; [lia|trivial].
        + specialize (S3 eq_refl). destruct (snap (sget i (sss s))) as [[gn r]|].
          * injection V as <- <-. split; [|intros _; exact S3]. intros a b Ha Hb.
            destruct S3 as [A _]. destruct (A _ _ Hb) as [a' [Ha' Hle]]. rewrite Ha in Ha'. injection Ha' as <-. exact Hle.
          * injection V as <- <-. split.
            -- intros a b Ha Hb. rewrite Ha in Hb. injection Hb as <-. split; [lia|trivial].
            -- intros _. cbn [snap_ok]. split; [apply rows_le_refl|]. split; [lia|trivial].
      - specialize (S3 eq_refl). destruct (snap (sget i (sss s))) as [[gn r]|].
        + injection V as <- <-. split; [|intros _; exact S3]. intros a b Ha Hb.
          destruct S3 as [A _]. destruct (A _ _ Hb) as [a' [Ha' Hle]]. rewrite Ha in Ha'. injection Ha' as <-. exact Hle.
        + injection V as <- <-. split.
          * intros a b Ha Hb. rewrite Ha in Hb. injection Hb as <-. split; [lia|trivial].
          * intros _. cbn [snap_ok]. split; [apply rows_le_refl|]. split; [lia|trivial]. }
    destruct HV as [V1 [V2 V3]].
    destruct (lookup k vw) as [a|] eqn:La; cbn [fst snd sdb sss].
    + split.
      * apply Inv_change; [exact HI|apply HI| |apply others_frame_refl].
        unfold sess_ok. cbn [sents snap]. split; [apply sorted_eins, S1|]. split; [|exact V3].
        apply ent_le_eins; [exact V1|]. intros b Hb. cbn [ev ex]. apply (V2 a b eq_refl Hb).
      * split; [reflexivity|]. split; [intros j N; apply sget_sput_other, N|].
        intros e E. injection E as <-. rewrite sget_sput_same. cbn [sents]. apply lookup_eins_same.
    + split.
      * apply Inv_change; [exact HI|apply HI| |apply others_frame_refl].
        unfold sess_ok. cbn [sents snap]. split; [exact S1|]. split; [exact V1|exact V3].
      * split; [reflexivity|]. split; [intros j N; apply sget_sput_other, N|]. discriminate.
Qed.

(* changing the pending value / the deleted mark of a loaded instance *)
Lemma touch_inv : forall i k e e' s, Inv s -> lookup k (sents (sget i (sss s))) = Some e ->
  ex e' = ex e -> ev e' = ev e ->
  Inv {| sdb := sdb s;
         sss := sput i {| snap := snap (sget i (sss s)); sents := eins k e' (sents (sget i (sss s))); stx := true |} (sss s) |}.
Proof.
  intros i k e e' s HI L Ex Ev. pose proof (proj2 HI i) as [S1 [S2 S3]].
  apply Inv_change; [exact HI|apply HI| |apply others_frame_refl].
  unfold sess_ok. cbn [sents snap]. split; [apply sorted_eins, S1|]. split; [|exact S3].
  apply ent_le_eins; [exact S2|]. intros b Hb. rewrite Ex, Ev. apply (S2 k e b); [apply lookup_In, L|exact Hb].
Qed.
End P.
