(* C38 - generic lemmas: the event-accounting invariant and its composition through the monad *)
From Coq Require Import List ZArith Bool Lia ZifyBool Permutation.
Import ListNotations.
From SAV.base Require Import PySlice.
From SAV.orm Require Import CollBase.
Open Scope Z_scope.

(* lia does not look under [if] *)
Ltac liaif :=
  repeat match goal with
         | |- context [if ?a =? ?b then _ else _] => destruct (Z.eqb_spec a b)
         | H : context [if ?a =? ?b then _ else _] |- _ => destruct (Z.eqb_spec a b)
         | |- context [if ?c then _ else _] => destruct c eqn:?
         | H : context [if ?c then _ else _] |- _ => destruct c eqn:?
         end; subst; lia.

Lemma net_app : forall x g h, net x (g ++ h) = net x g + net x h.
Proof. induction g; intros; cbn [net app]; [lia|]. rewrite IHg. lia. Qed.

Lemma net_map_rem : forall x l, net x (map ERem l) = - countZ x l.
Proof.
  unfold countZ. induction l; cbn [map net count_occ ev_delta]; [reflexivity|].
  rewrite IHl. destruct (Z.eq_dec a x); destruct (Z.eqb_spec x a); try congruence; lia.
Qed.

Lemma countZ_cons : forall x y l, countZ x (y :: l) = (if Z.eqb x y then 1 else 0) + countZ x l.
Proof.
  intros. unfold countZ. cbn [count_occ].
  destruct (Z.eq_dec y x); destruct (Z.eqb_spec x y); try congruence; lia.
Qed.

Lemma countZ_app : forall x l1 l2, countZ x (l1 ++ l2) = countZ x l1 + countZ x l2.
Proof. intros. unfold countZ. rewrite count_occ_app. lia. Qed.

Lemma countZ_nil : forall x, countZ x [] = 0.
Proof. reflexivity. Qed.

Lemma countZ_perm : forall x l1 l2, Permutation l1 l2 -> countZ x l1 = countZ x l2.
Proof.
  intros x l1 l2 H. unfold countZ. f_equal.
  pose proof (proj1 (Permutation_count_occ Z.eq_dec l1 l2) H x). assumption.
Qed.

Lemma countZ_nonneg : forall x l, 0 <= countZ x l.
Proof. intros. unfold countZ. lia. Qed.

Lemma countZ_pos_In : forall x l, 0 < countZ x l <-> In x l.
Proof. intros. unfold countZ. rewrite (count_occ_In Z.eq_dec). lia. Qed.

Lemma mem_In : forall x l, mem x l = true <-> In x l.
Proof.
  intros. unfold mem. rewrite existsb_exists. split.
  - intros [y [H1 H2]]. apply Z.eqb_eq in H2. subst; auto.
  - intro. exists x. split; auto. apply Z.eqb_refl.
Qed.

Lemma mem_false_count : forall x l, mem x l = false -> countZ x l = 0.
Proof.
  intros x l H. pose proof (countZ_nonneg x l). pose proof (countZ_pos_In x l).
  destruct (Z.eq_dec (countZ x l) 0); auto.
  assert (In x l) by (apply H1; lia). apply mem_In in H2. congruence.
Qed.

Section Acct.
Variable S : Type.
Variable members : S -> list item.
Variable Inv : S -> Prop.       (* representation invariant of the contents (NoDup for sets, ...) *)

(* (multiset of members) - (net events): every accounted computation preserves it *)
Definition bal (x : item) (s : st S) : Z := countZ x (members (fst s)) - net x (snd s).

Definition accounted {T} (m : M S T) : Prop :=
  forall s r s', Inv (fst s) -> m s = (r, s') ->
                 Inv (fst s') /\ forall x, bal x s' = bal x s.

Lemma acc_ret : forall T (t : T), accounted (ret t).
Proof. intros T t s r s' I H. inversion H. subst. auto. Qed.

Lemma acc_raise : forall T e, accounted (@raise S T e).
Proof. intros T e s r s' I H. inversion H. subst. auto. Qed.

Lemma acc_get : accounted get.
Proof. intros s r s' I H. inversion H. subst. auto. Qed.

Lemma acc_bind : forall T U (m : M S T) (f : T -> M S U),
  accounted m -> (forall t, accounted (f t)) -> accounted (bind m f).
Proof.
  intros T U m f Hm Hf s r s' I H. unfold bind in H.
  destruct (m s) as [[t|e] s1] eqn:E.
  - destruct (Hm _ _ _ I E) as [I1 B1]. destruct (Hf t _ _ _ I1 H) as [I2 B2].
    split; [assumption|]. intro x. rewrite B2. apply B1.
  - inversion H. subst. apply (Hm _ _ _ I E).
Qed.

(* reading the contents first: the continuation may rely on the invariant of what was read *)
Lemma acc_get_bind : forall U (f : S -> M S U),
  (forall c, Inv c -> forall g r s', f c (c, g) = (r, s') ->
             Inv (fst s') /\ forall x, bal x s' = bal x (c, g)) ->
  accounted (bind get f).
Proof.
  intros U f Hf [c g] r s' I H. unfold bind, get in H. cbn [fst snd] in H, I.
  apply (Hf c I g r s' H).
Qed.

Lemma acc_for_each : forall T (xs : list T) (body : T -> M S unit),
  (forall t, accounted (body t)) -> accounted (for_each xs body).
Proof.
  induction xs; intros body Hb; cbn [for_each].
  - apply acc_ret.
  - apply acc_bind; [apply Hb|]. intros _. apply IHxs. assumption.
Qed.

(* a read-only builtin *)
Lemma acc_lift_ro : forall T (f : S -> res T),
  accounted (lift (fun c => match f c with Ok t => Ok (t, c) | Raise e => Raise e end)).
Proof.
  intros T f [c g] r s' I H. unfold lift in H. cbn [fst snd] in H.
  destruct (f c); inversion H; subst; auto.
Qed.

(* a builtin that only permutes the members *)
Lemma acc_lift_perm : forall T (f : S -> res (T * S)),
  (forall c t c', Inv c -> f c = Ok (t, c') -> Inv c' /\ Permutation (members c) (members c')) ->
  accounted (lift f).
Proof.
  intros T f Hf [c g] r s' I H. unfold lift in H. cbn [fst snd] in H, I.
  destruct (f c) as [[t c']|e] eqn:E; inversion H; subst; [|auto].
  destruct (Hf _ _ _ I E) as [I' P]. split; [assumption|]. intro x.
  unfold bal. cbn [fst snd]. rewrite (countZ_perm x _ _ P). reflexivity.
Qed.

(* fire a list of events: contents unchanged, log extended *)
Lemma for_each_fire : forall (es : list ev) (c : S) (g : list ev),
  for_each es (fun e => fire e) (c, g) = (Ok tt, (c, g ++ es)).
Proof.
  induction es; intros; cbn [for_each].
  - unfold ret. rewrite app_nil_r. reflexivity.
  - unfold bind, fire at 1. cbn [fst snd]. rewrite IHes. rewrite <- app_assoc. reflexivity.
Qed.

Lemma for_each_fire_map : forall T (k : T -> ev) (xs : list T) (c : S) (g : list ev),
  for_each xs (fun t => fire (k t)) (c, g) = (Ok tt, (c, g ++ map k xs)).
Proof.
  induction xs; intros; cbn [for_each map].
  - unfold ret. rewrite app_nil_r. reflexivity.
  - unfold bind, fire at 1. cbn [fst snd]. rewrite IHxs. rewrite <- app_assoc. reflexivity.
Qed.
End Acct.

Arguments bal {S} members x s.
Arguments accounted {S} members Inv {T} m.
