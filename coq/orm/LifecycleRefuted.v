(* C35 - histories on which the faithful model (and the implementation) leaves the documented machine *)
From Coq Require Import List ZArith Bool Arith.
Import ListNotations.
From SAV.orm Require Import Lifecycle LifecycleSpec LifecycleLemmas.
Open Scope Z_scope.

(* an environment: the rows visible, and (for every object) expired? / pk expired? / pk loaded? *)
Definition env_of (rws : list Z) (expired : bool) : env :=
  mkEnv rws false (fun _ => expired) (fun _ => expired) (fun _ => true).
Definition quiet_env (rws : list Z) : env := env_of rws false.

Lemma not_wf : forall l, wfb l = false -> ~ wf l.
Proof. intros l H Hw. apply wfb_complete in Hw. congruence. Qed.

(* s.add(o); s.commit(); s.delete(o); s.rollback()   - used to fire deleted_to_persistent although o never left
   persistent (repaired in /repo 93a87c1): now inside the guard, no event *)
Definition h_delete_rollback : list (env * op) :=
  [(quiet_env [], Add 0); (quiet_env [], Commit); (quiet_env [1], Delete 0); (quiet_env [1], Rollback)].
Lemma delete_rollback_log : slog (run h_delete_rollback (init true [1])) =
  [Chg 0 Transient Pending; Ev 0 T2P Pending; Chg 0 Pending Persistent; Ev 0 P2S Persistent].
Proof. vm_compute. reflexivity. Qed.
Lemma delete_rollback_guarded : guarded h_delete_rollback (init true [1]) = true.
Proof. vm_compute. reflexivity. Qed.

(* s.add(o); s.flush(); s.expunge(o); s.rollback()   - detached -> transient announced as persistent_to_transient *)
Definition h_expunge_rollback : list (env * op) :=
  [(quiet_env [], Add 0); (quiet_env [], Flush); (quiet_env [1], Expunge 0); (quiet_env [1], Rollback)].
Lemma expunge_rollback_not_wf : ~ wf (slog (run h_expunge_rollback (init true [1]))).
Proof. apply not_wf. vm_compute. reflexivity. Qed.

(* s.add(o); s.flush(); s.delete(o); s.flush(); s.rollback()   - deleted -> transient, announced as deleted_to_detached *)
Definition h_flush_delete_rollback : list (env * op) :=
  [(quiet_env [], Add 0); (quiet_env [], Flush); (quiet_env [1], Delete 0); (quiet_env [1], Flush); (quiet_env [], Rollback)].
Lemma flush_delete_rollback_undocumented :
  In (Chg 0 Deleted Transient) (slog (run h_flush_delete_rollback (init true [1]))) /\
  forall e, documented Deleted Transient e = false.
Proof. split; [vm_compute; tauto|]. intros [[]|]; reflexivity. Qed.

(* ... s.delete(o); s.flush(); s.delete(o); s.flush()   - persistent_to_deleted twice *)
Definition h_redelete : list (env * op) :=
  [(quiet_env [], Add 0); (quiet_env [], Commit); (quiet_env [1], Delete 0); (quiet_env [1], Flush);
   (quiet_env [], Delete 0); (quiet_env [], Flush)].
Lemma redelete_not_wf : ~ wf (slog (run h_redelete (init true [1]))).
Proof. apply not_wf. vm_compute. reflexivity. Qed.

(* ... s.delete(o); s.commit(); s.delete(o)   - a detached, once deleted object is re-attached straight into
   "deleted" and announced as detached_to_persistent *)
Definition h_delete_was_deleted : list (env * op) :=
  [(quiet_env [], Add 0); (quiet_env [], Commit); (quiet_env [1], Delete 0); (quiet_env [1], Commit);
   (quiet_env [], Delete 0)].
Lemma delete_was_deleted_not_wf : ~ wf (slog (run h_delete_was_deleted (init true [1]))).
Proof. apply not_wf. vm_compute. reflexivity. Qed.

(* a persistent, expired object whose row has vanished is marked deleted, a pending object with the same
   primary key is flushed: was_already_deleted() and the flush itself both announce persistent_to_deleted *)
Definition h_was_already_deleted : list (env * op) :=
  [(quiet_env [], MakeTransientToDetached 0); (quiet_env [], Add 0); (quiet_env [], Commit);
   (env_of [] true, Delete 0); (env_of [] true, Add 1); (env_of [] true, Flush)].
Lemma was_already_deleted_not_wf : ~ wf (slog (run h_was_already_deleted (init true [1; 1]))).
Proof. apply not_wf. vm_compute. reflexivity. Qed.

(* a flush fails (the row exists), the session is used again, then rolled back: the snapshot is
   restored a second time and pending_to_transient fires for an object that is already transient *)
Definition h_second_restore : list (env * op) :=
  [(quiet_env [], Add 0); (quiet_env [], Flush); (quiet_env [1], Add 1); (quiet_env [1; 2], Flush);
   (quiet_env [2], Add 1); (quiet_env [2], Rollback)].
Lemma second_restore_not_wf : ~ wf (slog (run h_second_restore (init true [1; 2]))).
Proof. apply not_wf. vm_compute. reflexivity. Qed.

(* a guarded history through every operation *)
Definition h_good : list (env * op) :=
  [(quiet_env [2], Add 0); (quiet_env [2], Flush); (quiet_env [1; 2], Commit);
   (quiet_env [1; 2], Delete 0); (quiet_env [1; 2], Flush); (quiet_env [2], Rollback);
   (quiet_env [1; 2], Merge 1); (quiet_env [1; 2], Expunge 0); (quiet_env [1; 2], MakeTransient 0);
   (quiet_env [1; 2], MakeTransientToDetached 0); (quiet_env [1; 2], Add 0); (quiet_env [1; 2], Delete 0);
   (quiet_env [1; 2], Commit); (quiet_env [2], Add 1); (quiet_env [2], Close)].
Lemma good_guarded : guarded h_good (init true [1; 2]) = true /\
  length (slog (run h_good (init true [1; 2]))) = 26%nat.
Proof. vm_compute. split; reflexivity. Qed.
