(* C40 - relationship loader strategies: executable model (definitions only).

   Data: a relationship PATH  T0 -s1-> T1 -s2-> ... -sn-> Tn  over tables of rows.  A step is either
   [Down] (one-to-many: the rows of the next table carry a foreign key [rup] to the previous table's id;
   the attribute is a collection ordered by the relationship's order_by) or [Up] (many-to-one: the rows of
   the previous table carry a foreign key [rdn] to the next table's id; the attribute is a scalar, modelled
   as a list of length <= 1).

   Spec side: [load_spec] - the relational meaning of "the entities the query selects, each with its
   related objects along the path".

   Implementation side: [load_wave] - what orm/strategies.py + orm/context.py + orm/loading.py do for an
   assignment of one loader strategy per step: which SELECT statements are emitted (source of the primary
   entity rows, LEFT OUTER JOINed eager chain, subquery wrapping under LIMIT/OFFSET/DISTINCT/GROUP BY),
   how each is evaluated (relational operators on lists) and how its rows are turned into objects
   (identity uniquing, collection append in row order, grouping by parent key, IN chunks). *)
From Coq Require Import List ZArith Bool.
Import ListNotations.
Open Scope Z_scope.

(* ------------------------------------------------------------------------------------------------ *)
(** * Rows, steps, keys *)

Record row := mkRow { rid : Z; rup : option Z; rdn : option Z; rval : Z }.

Inductive kind := Down | Up.
Inductive rorder := OId | OIdDesc | OValId | OValDescId | ONone.

Record step := mkStep { st_kind : kind; st_order : rorder; st_lvl : Z; st_table : list row }.

Definition parent_key (k : kind) (p : row) : option Z :=
  match k with Down => Some (rid p) | Up => rdn p end.
Definition child_key (k : kind) (c : row) : option Z :=
  match k with Down => rup c | Up => Some (rid c) end.

(* SQL equality of two nullable integers used as a join / WHERE condition: NULL matches nothing *)
Definition okey_eqb (a b : option Z) : bool :=
  match a, b with Some x, Some y => x =? y | _, _ => false end.

Definition linked (s : step) (p c : row) : bool :=
  okey_eqb (parent_key (st_kind s) p) (child_key (st_kind s) c).

Definition is_down (s : step) : bool := match st_kind s with Down => true | Up => false end.

(* ------------------------------------------------------------------------------------------------ *)
(** * Generic list programs: lexicographic keys, sort, first-occurrence uniquing, slice, chunks *)

Fixpoint lex_le (a b : list Z) : bool :=
  match a, b with
  | [], _ => true
  | _ :: _, [] => false
  | x :: a', y :: b' => (x <? y) || ((x =? y) && lex_le a' b')
  end.

Fixpoint lz_eqb (a b : list Z) : bool :=
  match a, b with
  | [], [] => true
  | x :: a', y :: b' => (x =? y) && lz_eqb a' b'
  | _, _ => false
  end.

Section ListProgs.
  Context {A : Type}.
  Variable key : A -> list Z.

  Fixpoint insert_by (x : A) (l : list A) : list A :=
    match l with
    | [] => [x]
    | y :: r => if lex_le (key x) (key y) then x :: l else y :: insert_by x r
    end.
  (* ORDER BY: any sorting algorithm would do (the theorems use only "sorted permutation") *)
  Definition sort_by (l : list A) : list A := fold_right insert_by [] l.

  (* identity uniquing: keep the first occurrence of every key, in order *)
  Fixpoint uniq_by (l : list A) : list A :=
    match l with
    | [] => []
    | x :: r => x :: filter (fun y => negb (lz_eqb (key y) (key x))) (uniq_by r)
    end.
End ListProgs.

Definition slice {A} (lim off : option nat) (l : list A) : list A :=
  let l' := match off with Some n => skipn n l | None => l end in
  match lim with Some n => firstn n l' | None => l' end.

(* [chunks n l]: l[0:n], l[n:2n], ...   (fuel = length l suffices for n >= 1) *)
Fixpoint chunks_fuel {A} (fuel n : nat) (l : list A) : list (list A) :=
  match fuel with
  | O => []
  | S f => match l with [] => [] | _ => firstn n l :: chunks_fuel f n (skipn n l) end
  end.
Definition chunks {A} (n : nat) (l : list A) : list (list A) := chunks_fuel (length l) n l.

Fixpoint somes {A} (l : list (option A)) : list A :=
  match l with [] => [] | Some x :: r => x :: somes r | None :: r => somes r end.

Definition memZ (x : Z) (l : list Z) : bool := existsb (Z.eqb x) l.
Definition dedupeZ (l : list Z) : list Z := uniq_by (fun z => [z]) l.

Definition is_nil {A} (l : list A) : bool := match l with [] => true | _ => false end.
Definition is_some {A} (o : option A) : bool := match o with Some _ => true | None => false end.

(* ------------------------------------------------------------------------------------------------ *)
(** * ORDER BY keys *)

Definition rkey (o : rorder) (r : row) : list Z :=
  match o with
  | OId => [rid r]
  | OIdDesc => [- rid r]
  | OValId => [rval r; rid r]
  | OValDescId => [- rval r; rid r]
  | ONone => []
  end.

(* key of a possibly-NULL (outer-joined) row; NULLs sort first, all keys of one order have one length *)
Definition okey (o : rorder) (x : option row) : list Z :=
  match o with
  | ONone => []
  | OId | OIdDesc => match x with Some r => 1 :: rkey o r | None => [0; 0] end
  | OValId | OValDescId => match x with Some r => 1 :: rkey o r | None => [0; 0; 0] end
  end.

Definition idkey (r : row) : list Z := [rid r].
Definition tagkey (t : option Z) : list Z := match t with Some k => [1; k] | None => [0; 0] end.

(* ------------------------------------------------------------------------------------------------ *)
(** * Spec side: the relational meaning *)

Definition related (s : step) (p : row) : list row :=
  sort_by (rkey (st_order s)) (filter (linked s p) (st_table s)).

Inductive graph := Node (r : row) (kids : list graph).

Fixpoint graph_of (path : list step) (r : row) : graph :=
  match path with
  | [] => Node r []
  | s :: rest => Node r (map (graph_of rest) (related s r))
  end.

(* the user's query on the root entity *)
Inductive upred :=
| PAll
| PVal (k : Z)        (* WHERE root.v >= k *)
| PJoin (k : Z)       (* JOIN <a relationship of the root> WHERE target.v >= k   (duplicates the root rows) *)
| PAny (k : Z).       (* WHERE EXISTS (related target with v = k)   [rel.any() / rel.has()] *)
(* the relationship PJoin / PAny go through is given separately ([jstep]): the first relationship of the
   loaded path or any other relationship of the root entity *)

Record uquery := mkU {
  u_pred : upred; u_distinct : bool; u_group : bool; u_order : rorder;
  u_limit : option nat; u_offset : option nat }.

Definition u_base (u : uquery) (t0 : list row) (jstep : option step) : list row :=
  match u_pred u, jstep with
  | PVal k, _ => filter (fun p => k <=? rval p) t0
  | PJoin k, Some s =>
      flat_map (fun p => map (fun _ => p) (filter (fun c => linked s p c && (k <=? rval c)) (st_table s))) t0
  | PAny k, Some s => filter (fun p => existsb (fun c => linked s p c && (rval c =? k)) (st_table s)) t0
  | _, _ => t0
  end.

Definition u_dedup (u : uquery) : bool := u_distinct u || u_group u.

(* FROM/WHERE -> DISTINCT / GROUP BY root.id -> ORDER BY -> LIMIT/OFFSET *)
Definition run_user (u : uquery) (t0 : list row) (jstep : option step) : list row :=
  let b := u_base u t0 jstep in
  slice (u_limit u) (u_offset u)
        (sort_by (rkey (u_order u)) (if u_dedup u then uniq_by idkey b else b)).

(* Result.unique() on the primary entities, then the object graph of each *)
Definition load_spec (u : uquery) (t0 : list row) (jstep : option step) (path : list step) : list graph :=
  map (graph_of path) (uniq_by idkey (run_user u t0 jstep)).

(* ------------------------------------------------------------------------------------------------ *)
(** * Implementation side: statements *)

(* where the rows of a statement's primary entity come from *)
Inductive source :=
| SrcUser (u : uquery) (t0 : list row) (jstep : option step)  (* the user's statement *)
| SrcLazy (s : step) (key : Z)            (* lazy / immediate load: WHERE :key = target.<child key> *)
| SrcIn (s : step) (keys : list Z)        (* selectin load: WHERE target.<child key> IN (keys) *)
| SrcSubq (orig : source) (first : step) (rest : list step).
    (* subquery load: (orig re-issued, projected on the key of [first]) AS anon JOIN first JOIN rest...;
       the primary entity is the target of the last step *)

Definition tagged := (option Z * row)%type.

Definition set_distinct (u : uquery) : uquery :=
  mkU (u_pred u) true (u_group u) (u_order u) (u_limit u) (u_offset u).
Definition u_rowlimit (u : uquery) : bool := is_some (u_limit u) || is_some (u_offset u).

Definition last_step (first : step) (rest : list step) : step := last rest first.

Definition match_key (s : step) (k : Z) (c : row) : bool := okey_eqb (Some k) (child_key (st_kind s) c).

(* FROM + WHERE of a source, before DISTINCT / ORDER BY / LIMIT: (group tag, row) in table order.
   The tag is the value the loader groups the rows by (selectin: the IN column, subquery: the parent's
   local column); None where the loader does not group. *)
Fixpoint src_base (src : source) : list tagged :=
  match src with
  | SrcUser u t0 first => map (fun r => (None, r)) (u_base u t0 first)
  | SrcLazy s k => map (fun r => (None, r)) (filter (match_key s k) (st_table s))
  | SrcIn s ks =>
      map (fun r => (child_key (st_kind s) r, r))
          (filter (fun c => match child_key (st_kind s) c with Some x => memZ x ks | None => false end)
                  (st_table s))
  | SrcSubq orig first rest =>
      let up_first := negb (is_down first) in
      (* the original statement as a subquery: DISTINCT when the projected column is not the primary key
         (many-to-one), ORDER BY kept only with LIMIT/OFFSET (then the ORDER BY columns join the
         projection, so DISTINCT is per row) *)
      let rows0 :=
        match orig with
        | SrcUser u t0 f => run_user (if up_first then set_distinct u else u) t0 f
        | _ => map snd (src_base orig)
        end in
      let limited := match orig with SrcUser u _ _ => u_rowlimit u | _ => false end in
      let ks := somes (map (parent_key (st_kind first)) rows0) in
      let keys := if up_first && negb limited then dedupeZ ks else ks in
      let rows1 := flat_map (fun k => filter (match_key first k) (st_table first)) keys in
      let reach := fold_left (fun ls s => flat_map (fun l => filter (linked s l) (st_table s)) ls) rest rows1 in
      let tgt := last_step first rest in
      map (fun r => (child_key (st_kind tgt) r, r)) reach
  end.

Definition src_order (src : source) : rorder :=
  match src with
  | SrcUser u _ _ => u_order u
  | SrcLazy s _ | SrcIn s _ => st_order s
  | SrcSubq _ first rest => st_order (last_step first rest)
  end.
Definition src_limit (src : source) : option nat := match src with SrcUser u _ _ => u_limit u | _ => None end.
Definition src_offset (src : source) : option nat := match src with SrcUser u _ _ => u_offset u | _ => None end.
Definition src_distinct (src : source) : bool := match src with SrcUser u _ _ => u_distinct u | _ => false end.
Definition src_group (src : source) : bool := match src with SrcUser u _ _ => u_group u | _ => false end.

(* a result row of a statement with [n] LEFT OUTER JOINed eager levels *)
Definition jrow := (tagged * list (option row))%type.
Definition jtag (j : jrow) : option Z := fst (fst j).
Definition jhead (j : jrow) : row := snd (fst j).
Definition jtail (j : jrow) : list (option row) := snd j.

Definition ljoin1 (s : step) (l : option row) : list (option row) :=
  match l with
  | None => [None]
  | Some p => match filter (linked s p) (st_table s) with
              | [] => [None]
              | ms => map Some ms
              end
  end.

(* ((l LEFT OUTER JOIN s1) LEFT OUTER JOIN s2) ... : the joined tails of one left row *)
Fixpoint ljoin_chain (chain : list step) (l : option row) : list (list (option row)) :=
  match chain with
  | [] => [[]]
  | s :: rest => flat_map (fun m => map (cons m) (ljoin_chain rest m)) (ljoin1 s l)
  end.

Definition ljoin_rows (chain : list step) (heads : list tagged) : list jrow :=
  flat_map (fun h => map (fun t => (h, t)) (ljoin_chain chain (Some (snd h)))) heads.

Fixpoint tail_key (chain : list step) (t : list (option row)) : list Z :=
  match chain, t with
  | s :: rest, x :: t' => okey (st_order s) x ++ tail_key rest t'
  | _, _ => []
  end.
(* ORDER BY <primary order>, <order_by of every eager-joined relationship> *)
Definition jkey (o0 : rorder) (chain : list step) (j : jrow) : list Z :=
  rkey o0 (jhead j) ++ tail_key chain (jtail j).
Definition hkey (o0 : rorder) (h : tagged) : list Z := rkey o0 (snd h).

Fixpoint tail_id (t : list (option row)) : list Z :=
  match t with [] => [] | Some r :: t' => 1 :: rid r :: tail_id t' | None :: t' => 0 :: 0 :: tail_id t' end.
Definition tagged_id (h : tagged) : list Z := tagkey (fst h) ++ idkey (snd h).
Definition jrow_id (j : jrow) : list Z := tagged_id (fst j) ++ tail_id (jtail j).

(* context.py _ORMSelectCompileState._should_nest_selectable *)
Definition should_nest (eager_adding_joins multi_row has_limit has_offset distinct distinct_on group_by : bool) : bool :=
  if negb eager_adding_joins then false
  else (has_limit && multi_row) || (has_offset && multi_row) || distinct || distinct_on || group_by.

Definition nest_fn := bool -> bool -> bool -> bool -> bool -> bool -> bool -> bool.

Definition stmt_nests (nestf : nest_fn) (src : source) (chain : list step) : bool :=
  nestf (negb (is_nil chain)) (existsb is_down chain)
        (is_some (src_limit src)) (is_some (src_offset src)) (src_distinct src) false (src_group src).

(* the rows a statement returns.
   _compound_eager_statement: the primary query (with its DISTINCT/ORDER BY/LIMIT) is wrapped in a
   subquery, the eager joins are applied to it, and the outer statement is ordered again;
   _simple_statement: eager joins, DISTINCT, ORDER BY and LIMIT all in one SELECT. *)
Definition eval_stmt (nestf : nest_fn) (src : source) (chain : list step) : list jrow :=
  let o0 := src_order src in
  let lim := src_limit src in
  let off := src_offset src in
  let b := src_base src in
  if stmt_nests nestf src chain then
    let inner := slice lim off (sort_by (hkey o0)
                   (if src_distinct src || src_group src then uniq_by tagged_id b else b)) in
    sort_by (jkey o0 chain) (ljoin_rows chain inner)
  else
    let j := ljoin_rows chain b in
    let j1 := if src_distinct src then uniq_by jrow_id j else j in
    let j2 := if src_group src then uniq_by (fun x => tagged_id (fst x)) j1 else j1 in
    slice lim off (sort_by (jkey o0 chain) j2).

(* ------------------------------------------------------------------------------------------------ *)
(** * Implementation side: rows -> objects (loading.py _instance_processor, _JoinedLoader row processors) *)

Definition head_is (h : row) (t : list (option row)) : bool :=
  match t with Some x :: _ => rid x =? rid h | _ => false end.

(* the object for entity [e] given the joined tails of all rows in which it is the parent: the next
   level's entities are the distinct non-NULL first components in row order (UniqueAppender), each built
   from the rows in which it occurs; at the end of the chain the attribute comes from [attach] *)
Fixpoint build (chain : list step) (attach : row -> list graph) (e : row) (tails : list (list (option row))) : graph :=
  match chain with
  | [] => Node e (attach e)
  | _ :: rest =>
      let ents := uniq_by idkey (somes (map (hd None) tails)) in
      Node e (map (fun h => build rest attach h (map (@tl _) (filter (head_is h) tails))) ents)
  end.

Definition same_entity (h : tagged) (j : jrow) : bool := lz_eqb (tagged_id h) (tagged_id (fst j)).

Definition proc (chain : list step) (attach : row -> list graph) (rows : list jrow) : list (option Z * graph) :=
  map (fun h => (fst h, build chain attach (snd h) (map jtail (filter (same_entity h) rows))))
      (uniq_by tagged_id (map fst rows)).

(* the entities at the end of the eager chain, in order of first appearance *)
Definition frontier (chain : list step) (rows : list jrow) : list row :=
  uniq_by idkey
    (match chain with
     | [] => map jhead rows
     | _ => somes (map (fun j => last (jtail j) None) rows)
     end).

(* ------------------------------------------------------------------------------------------------ *)
(** * Implementation side: the loader strategies *)

Inductive strategy :=
| SLazy | SJoined | SSubquery | SImmediate
| SSelectin (chunk_minus_1 : nat).     (* IN-lists of at most [S chunk_minus_1] keys *)

Definition default_chunksize : nat := 500.     (* _SelectInLoader._chunksize *)

Definition mk_subq (src : source) (chain : list step) (s : step) : source :=
  match src with
  | SrcSubq orig first rest => SrcSubq orig first (rest ++ chain ++ [s])
  | _ => match chain with
         | [] => SrcSubq src s []
         | c1 :: cr => SrcSubq src c1 (cr ++ [s])
         end
  end.

Definition lookup_key {B} (assoc : list (Z * list B)) (k : option Z) : list B :=
  match k with
  | Some z => match find (fun p => fst p =? z) assoc with Some p => snd p | None => [] end
  | None => []
  end.

Definition with_tag {B} (k : Z) (r : list (option Z * B)) : list B :=
  map snd (filter (fun tg => okey_eqb (fst tg) (Some k)) r).

(* keys of the parents whose attribute is to be loaded: distinct, NULL excluded *)
Definition load_keys (s : step) (parents : list row) : list Z :=
  dedupeZ (somes (map (parent_key (st_kind s)) parents)).

(* is the statement the user's own, or a subquery load re-issuing the user's statement? *)
Definition user_rooted (src : source) : bool :=
  match src with
  | SrcUser _ _ _ => true
  | SrcSubq (SrcUser _ _ _) _ _ => true
  | _ => false
  end.

(* [load_wave nestf degraded asg steps srcs chain]: [srcs] are the sources of sibling statements loading
   the same level within one top-level load; [chain] the eager-joined steps accumulated so far; the result
   is, per source, the (group tag, object) list its statement yields.
   [degraded]: the loader options for the remaining steps have been lost, every remaining relationship is
   loaded by its mapped default (lazy).  This happens beneath a subquery load that is not rooted at the
   user's statement: _SubqueryLoader._setup_options re-applies the options relative to the path inside the
   statement it re-issues, ignoring that statement's own _current_path, so they no longer match.
   - joined: extend the chain (the statement is emitted when the chain ends)
   - lazy: one statement per parent, each its own top-level load
   - immediate: one statement per parent key, all in this top-level load (their post-loads are merged)
   - selectin: the parents of ALL sibling statements are merged (loading._PostLoad), their keys chunked
   - subquery: one statement per sibling statement, re-issuing that statement's source *)
Definition effective (degraded : bool) (a : strategy) : strategy := if degraded then SLazy else a.

Fixpoint load_wave (nestf : nest_fn) (degraded : bool) (asg : list strategy) (steps : list step)
         (srcs : list source) (chain : list step) {struct asg} : list (list (option Z * graph)) :=
  match asg, steps with
  | a0 :: asg', s :: steps' =>
    match effective degraded a0 with
    | SJoined => load_wave nestf degraded asg' steps' srcs (chain ++ [s])
    | a =>
      let rowss := map (fun src => eval_stmt nestf src chain) srcs in
      let parents := uniq_by idkey (concat (map (frontier chain) rowss)) in
      let keys := load_keys s parents in
      let attaches : list (row -> list graph) :=
        match a with
        | SLazy =>
            map (fun _ => fun e =>
                   match parent_key (st_kind s) e with
                   | Some k => map snd (concat (load_wave nestf degraded asg' steps' [SrcLazy s k] []))
                   | None => []
                   end) srcs
        | SImmediate =>
            let res := load_wave nestf degraded asg' steps' (map (SrcLazy s) keys) [] in
            let assoc := combine keys (map (map snd) res) in
            map (fun _ => fun e => lookup_key assoc (parent_key (st_kind s) e)) srcs
        | SSelectin c =>
            let chs := chunks (S c) keys in
            let res := load_wave nestf degraded asg' steps' (map (SrcIn s) chs) [] in
            let assoc := concat (map (fun cr => map (fun k => (k, with_tag k (snd cr))) (fst cr)) (combine chs res)) in
            map (fun _ => fun e => lookup_key assoc (parent_key (st_kind s) e)) srcs
        | SSubquery =>
            let res := load_wave nestf (degraded || negb (forallb user_rooted srcs)) asg' steps'
                                 (map (fun src => mk_subq src chain s) srcs) [] in
            map (fun r => fun e =>
                   match parent_key (st_kind s) e with Some k => with_tag k r | None => [] end) res
        | SJoined => []
        end in
      map (fun ra => proc chain (snd ra) (fst ra)) (combine rowss attaches)
    end
  | _, _ => map (fun src => proc chain (fun _ => []) (eval_stmt nestf src chain)) srcs
  end.

Definition load (nestf : nest_fn) (asg : list strategy) (u : uquery) (t0 : list row) (jstep : option step)
           (path : list step) : list graph :=
  map snd (concat (load_wave nestf false asg path [SrcUser u t0 jstep] [])).

(* ------------------------------------------------------------------------------------------------ *)
(** * The emitted statements (plan) *)

Definition pstmt := (source * list step)%type.

Fixpoint plan_wave (nestf : nest_fn) (degraded : bool) (asg : list strategy) (steps : list step)
         (srcs : list source) (chain : list step) {struct asg} : list pstmt :=
  match asg, steps with
  | a0 :: asg', s :: steps' =>
    match effective degraded a0 with
    | SJoined => plan_wave nestf degraded asg' steps' srcs (chain ++ [s])
    | a =>
      let fronts := map (fun src => frontier chain (eval_stmt nestf src chain)) srcs in
      let keys := load_keys s (uniq_by idkey (concat fronts)) in
      map (fun src => (src, chain)) srcs ++
      match a with
      | SLazy => flat_map (fun k => plan_wave nestf degraded asg' steps' [SrcLazy s k] []) keys
      | SImmediate => plan_wave nestf degraded asg' steps' (map (SrcLazy s) keys) []
      | SSelectin c => plan_wave nestf degraded asg' steps' (map (SrcIn s) (chunks (S c) keys)) []
      | SSubquery =>
          (* emitted on the first entity at the end of the chain: not at all for an empty frontier *)
          plan_wave nestf (degraded || negb (forallb user_rooted srcs)) asg' steps'
            (map (fun sf => mk_subq (fst sf) chain s)
                 (filter (fun sf => negb (is_nil (snd sf))) (combine srcs fronts))) []
      | SJoined => []
      end
    end
  | _, _ => map (fun src => (src, chain)) srcs
  end.

Definition plan (nestf : nest_fn) (asg : list strategy) (u : uquery) (t0 : list row) (jstep : option step)
           (path : list step) : list pstmt :=
  plan_wave nestf false asg path [SrcUser u t0 jstep] [].
