(* C31 - theorem A: the layers of the topological sort respect every path of the final dependency set *)
From Coq Require Import List NArith Bool Lia Permutation Arith.
Import ListNotations.
From SAV.util Require Import Topo Cycles TopoRun TopoProofs TopoCycle TopoExtra CyclesSound CyclesComplete CyclesExact.
From SAV.orm Require Import FlushOrder FlushOrderSpec FlushOrderBase.
Local Open Scope N_scope.

Lemma plan_inv T g r : plan T g = Layers r -> exists cy, cycles T g = Some cy /\
  forallb (expand_assert g cy) (cyc_actions g cy) = true /\
  sort_as_subsets (cedges (final_edges T g cy)) (dedup (map code (final_items g cy))) = Ok r.
Proof. unfold plan. destruct (cycles T g) as [cy|]; [|discriminate].
  destruct (forallb _ _) eqn:F; [|discriminate]. destruct (sort_as_subsets _ _) eqn:E; try discriminate.
  intros H; inversion H; subst. exists cy. split; [reflexivity|]. split; [exact F|exact E]. Qed.

Section Order.
Variables (T : tables) (g : graph) (cy : list N) (r : list (list N)).
Hypothesis Hs : sort_as_subsets (cedges (final_edges T g cy)) (dedup (map code (final_items g cy))) = Ok r.

Lemma layers_perm : Permutation (concat r) (dedup (map code (final_items g cy))).
Proof. unfold sort_as_subsets in Hs. eapply subsets_perm; exact Hs. Qed.

Lemma layers_nodup : NoDup (concat r).
Proof. eapply Permutation_NoDup; [apply Permutation_sym, layers_perm|apply NoDup_dedup]. Qed.

Definition edge_ok (a b : action) : Prop :=
  In (a, b) (final_edges T g cy) /\ In a (final_items g cy) /\ In b (final_items g cy).

Definition rank_lt (a b : action) : Prop :=
  exists i j, lidx r (code a) = Some i /\ lidx r (code b) = Some j /\ (i < j)%nat.

Lemma edge_rank a b : edge_ok a b -> rank_lt a b.
Proof. intros [He [Ha Hb]]. apply earlier_lidx; [apply layers_nodup|].
  unfold sort_as_subsets in Hs. eapply subsets_order; [exact Hs| | |].
  - unfold cedges. apply in_map_iff. exists (a, b). split; [reflexivity|exact He].
  - apply In_dedup, in_map, Ha.
  - apply In_dedup, in_map, Hb. Qed.

Inductive fpath : action -> action -> Prop :=
| fp1 a b : edge_ok a b -> fpath a b
| fpS a x b : edge_ok a x -> fpath x b -> fpath a b.

Lemma fpath_rank a b : fpath a b -> rank_lt a b.
Proof. induction 1 as [a b H|a x b H _ IH]; [apply edge_rank, H|].
  destruct (edge_rank _ _ H) as [i [j [H1 [H2 H3]]]]. destruct IH as [j' [k [H4 [H5 H6]]]].
  rewrite H2 in H4. inversion H4; subst. exists i, k. repeat split; try assumption. lia. Qed.

Lemma fp2 a x b : edge_ok a x -> edge_ok x b -> fpath a b.
Proof. intros H1 H2. eapply fpS; [exact H1|apply fp1, H2]. Qed.
End Order.
