(* C40 - executable entry point for the correspondence check: decode a case, run every strategy
   assignment through the model, encode (graph hash, plan hash) per assignment + the first graph. *)
From Coq Require Import List ZArith Bool.
Import ListNotations.
From SAV.base Require Import Tree.
From SAV.orm Require Import Loaders LoadersKeys LoadersIdent.
Open Scope Z_scope.

(* ---------- shape of an emitted statement (compared with the shape parsed from the compiled SQL) ---------- *)
Definition ord_shape (tbl : Z) (o : rorder) : list tree :=
  match o with
  | OId => [L [I tbl; I 0; I 0]]
  | OIdDesc => [L [I tbl; I 0; I 1]]
  | OValId => [L [I tbl; I 1; I 0]; L [I tbl; I 0; I 0]]
  | OValDescId => [L [I tbl; I 1; I 1]; L [I tbl; I 0; I 0]]
  | ONone => []
  end.

Definition b2t (b : bool) : tree := I (if b then 1 else 0).

Fixpoint insZ (x : Z) (l : list Z) : list Z :=
  match l with [] => [x] | y :: r => if x <=? y then x :: l else y :: insZ x r end.
Definition sortZ (l : list Z) : list Z := fold_right insZ [] l.

Definition src_lvl (src : source) : Z :=
  match src with
  | SrcUser _ _ _ => 0
  | SrcLazy s _ | SrcIn s _ => st_lvl s
  | SrcSubq _ first rest => st_lvl (last_step first rest)
  end.

Definition user_joins (u : uquery) (first : option step) : list tree :=
  match u_pred u, first with PJoin _, Some s => [L [I 0; I (st_lvl s)]] | _, _ => [] end.
Definition user_where (u : uquery) : tree := match u_pred u with PAll => L [I 0] | _ => L [I 1] end.

(* the original statement re-issued as the inner SELECT of a subquery load *)
Definition inner_shape (orig : source) (up_first : bool) : tree :=
  match orig with
  | SrcUser u t0 first =>
      L [b2t (u_distinct u || up_first); b2t (u_group u); L [I 0; I 0]; L (user_joins u first); user_where u;
         L (if u_rowlimit u then ord_shape 0 (u_order u) else []); b2t (u_rowlimit u)]
  | SrcLazy s k => L [b2t up_first; I 0; L [I 0; I (st_lvl s)]; L []; L [I 2; I k]; L []; I 0]
  | SrcIn s ks => L [b2t up_first; I 0; L [I 0; I (st_lvl s)]; L []; L (I 3 :: map I (sortZ ks)); L []; I 0]
  | SrcSubq _ _ _ => L []
  end.

(* SELECT of a source with extra (eager) joins and ORDER BY entries appended *)
Definition core_shape (src : source) (xjoins xorder : list tree) : tree :=
  match src with
  | SrcUser u t0 first =>
      L [b2t (u_distinct u); b2t (u_group u); L [I 0; I 0]; L (user_joins u first ++ xjoins); user_where u;
         L (ord_shape 0 (u_order u) ++ xorder); b2t (u_rowlimit u)]
  | SrcLazy s k =>
      L [I 0; I 0; L [I 0; I (st_lvl s)]; L xjoins; L [I 2; I k]; L (ord_shape (st_lvl s) (st_order s) ++ xorder); I 0]
  | SrcIn s ks =>
      L [I 0; I 0; L [I 0; I (st_lvl s)]; L xjoins; L (I 3 :: map I (sortZ ks));
         L (ord_shape (st_lvl s) (st_order s) ++ xorder); I 0]
  | SrcSubq orig first rest =>
      let tgt := last_step first rest in
      L [I 0; I 0; L [I 1; inner_shape orig (negb (is_down first))];
         L (map (fun s => L [I 0; I (st_lvl s)]) (first :: rest) ++ xjoins); L [I 0];
         L (ord_shape (st_lvl tgt) (st_order tgt) ++ xorder); I 0]
  end.

Definition stmt_shape (nestf : nest_fn) (p : pstmt) : tree :=
  let (src, chain) := p in
  let cj := map (fun s => L [I 1; I (st_lvl s)]) chain in
  let co := flat_map (fun s => ord_shape (st_lvl s) (st_order s)) chain in
  if stmt_nests nestf src chain then
    L [I 0; I 0; L [I 1; core_shape src [] []]; L cj; L [I 0]; L (ord_shape 100 (src_order src) ++ co); I 0]
  else core_shape src cj co.

(* ---------- hashing ---------- *)
Fixpoint flatten (t : tree) : list Z :=
  match t with
  | I z => [z + 10]
  | L l => 1 :: (fix go (l : list tree) : list Z := match l with [] => [2] | x :: r => flatten x ++ go r end) l
  end.
Definition hstep (h x : Z) : Z := (h * 1009 + x) mod 1000003.
Definition hash_list (l : list Z) : Z := fold_left hstep l 7.
Definition hash_tree (t : tree) : Z := hash_list (flatten t).

Fixpoint dedup_sorted (l : list Z) : list Z :=
  match l with
  | x :: ((y :: _) as r) => if x =? y then dedup_sorted r else x :: dedup_sorted r
  | _ => l
  end.
(* the plan is observed as the SET of emitted statements *)
Definition plan_hash (nestf : nest_fn) (ps : list pstmt) : Z :=
  hash_list (dedup_sorted (sortZ (map (fun p => hash_tree (stmt_shape nestf p)) ps))).

Fixpoint graph_tree (g : graph) : tree :=
  match g with Node r kids => L [I (rid r); I (rval r); L (map graph_tree kids)] end.

(* ---------- decoding ---------- *)
Definition as_row (t : tree) : option row :=
  match t with
  | L [I i; u; d; I v] =>
      match as_optZ u, as_optZ d with Some u', Some d' => Some (mkRow i u' d' v) | _, _ => None end
  | _ => None
  end.
Definition as_order (z : Z) : option rorder :=
  if z =? 0 then Some OId else if z =? 1 then Some OIdDesc else if z =? 2 then Some OValId
  else if z =? 3 then Some OValDescId else if z =? 4 then Some ONone else None.
Definition as_step (t : tree) : option step :=
  match t with
  | L [I k; I o; I lv; rs] =>
      match as_order o, as_list_of as_row rs with
      | Some o', Some rs' =>
          if k =? 0 then Some (mkStep Down o' lv rs') else if k =? 1 then Some (mkStep Up o' lv rs') else None
      | _, _ => None
      end
  | _ => None
  end.
Definition as_optnat (t : tree) : option (option nat) :=
  match as_optZ t with
  | Some (Some z) => if 0 <=? z then Some (Some (Z.to_nat z)) else None
  | Some None => Some None
  | None => None
  end.
(* the relationship a PJoin/PAny root query goes through: L [] = the first relationship of the path *)
Definition as_jstep (path : list step) (t : tree) : option (option step) :=
  match t with
  | L [] => Some (hd_error path)
  | _ => match as_step t with Some s => Some (Some s) | None => None end
  end.
Definition as_uquery (t : tree) : option uquery :=
  match t with
  | L [I pk; I k; d; g; I o; lim; off; _] =>
      match as_bool d, as_bool g, as_order o, as_optnat lim, as_optnat off with
      | Some d', Some g', Some o', Some l', Some f' =>
          let p := if pk =? 0 then Some PAll else if pk =? 1 then Some (PVal k) else if pk =? 2 then Some (PJoin k)
                   else if pk =? 3 then Some (PAny k) else None in
          match p with Some p' => Some (mkU p' d' g' o' l' f') | None => None end
      | _, _, _, _, _ => None
      end
  | _ => None
  end.
Definition as_strategy (t : tree) : option strategy :=
  match t with
  | I c => if c =? 0 then Some SLazy else if c =? 1 then Some SJoined else if c =? 2 then Some SSubquery
           else if c =? 3 then Some SImmediate else if c =? 4 then Some (SSelectin (pred default_chunksize))
           else if 11 <=? c then Some (SSelectin (Z.to_nat (c - 11))) else None
  | _ => None
  end.

Definition uq_jstep (path : list step) (t : tree) : option (option step) :=
  match t with L [_; _; _; _; _; _; _; js] => as_jstep path js | _ => None end.

Definition run_one (cmp_plan : bool) (u : uquery) (t0 : list row) (js : option step) (path : list step) (asg : list strategy) : tree :=
  L [I (hash_tree (L (map graph_tree (load should_nest asg u t0 js path))));
     I (if cmp_plan then plan_hash should_nest (plan should_nest asg u t0 js path) else 0)].

(* ---------- composite keys (family 77): selectin key-tuple extraction ---------- *)
Definition as_krow (t : tree) : option krow := as_list_of as_optZ t.
Definition as_natpair (t : tree) : option (nat * nat) := as_pair_of as_nat as_nat t.
Definition krow_tree (r : krow) : list tree := map of_optZ r.
Definition keys_tree (dir : Z) (pk : list nat) (res : list (krow * list krow)) : tree :=
  if dir =? 0 then
    L (map (fun pc => L (map (fun c => of_optZ (colval (fst pc) c)) pk ++ [L (map (fun c => of_optZ (colval c 0)) (snd pc))])) res)
  else
    L (map (fun cp => L [of_optZ (colval (fst cp) 0);
                         L (map (fun p => L (map (fun c => of_optZ (colval p c)) pk)) (snd cp))]) res).
Definition is_selectin_code (c : Z) : bool := (c =? 4) || (10 <=? c).
(* input L [I 77; L pairs; L pk; L parents; L children; I dir; L [I strategy code ...]; I relationship (ignored)]: selectin through the key
   tuples, every other strategy through the join condition (the composite-key models of those are the spec) *)
Definition run_keys (t : tree) : tree :=
  match t with
  | L [I _; tp; tk; tpa; tch; I dir; tas; _] =>
      match as_list_of as_natpair tp, as_list_of as_nat tk, as_list_of as_krow tpa, as_list_of as_krow tch,
            as_list_of as_Z tas with
      | Some pairs, Some pk, Some parents, Some children, Some codes =>
          let spec := keys_tree dir pk (if dir =? 0 then spec_down pairs parents children else spec_up pairs parents children) in
          let sel := keys_tree dir pk (if dir =? 0 then selectin_down (fk_cols pairs pk) pk parents children
                                        else selectin_up (fk_cols pairs pk) pk parents children) in
          let one := fun c => if is_selectin_code c then sel else spec in
          L [L (map (fun c => L [I (hash_tree (one c)); I 0]) codes);
             match codes with c :: _ => if tree_eqb (one c) spec then L [] else one c | [] => L [] end]
      | _, _, _, _, _ => bad_input
      end
  | _ => bad_input
  end.

(* ---------- polymorphic many-to-one + pre-loaded identity map (family 78) ---------- *)
Definition as_prow (t : tree) : option prow :=
  match t with L [I i; c] => match as_nat c with Some c' => Some (mkP i c') | None => None end | _ => None end.
Definition as_other (t : tree) : option (Z * option Z) := as_pair_of as_Z as_optZ t.
Definition hier_of (ps : list (option Z)) : hierarchy :=
  fun c => match nth c ps None with Some z => Some (Z.to_nat z) | None => None end.
(* input L [I 78; L class parents (I parent | L []); L rows [id; class]; L others [id; fk]; I target class;
            L ids already in the Session; L [I strategy code ...]; _] *)
Definition run_ident (t : tree) : tree :=
  match t with
  | L [I _; th; trows; tothers; ttgt; tpre; tas; _] =>
      match as_list_of as_optZ th, as_list_of as_prow trows, as_list_of as_other tothers, as_nat ttgt,
            as_list_of as_Z tpre, as_list_of as_Z tas with
      | Some ps, Some db, Some others, Some target, Some pre, Some codes =>
          let isa := isa_fuel (hier_of ps) (length ps) in
          let idmap := filter (fun r => memZ (pid r) pre) db in
          let enc := fun (f : option Z -> option prow) =>
            L (map (fun o => L [I (fst o); match f (snd o) with
                                           | Some r => L [I (Z.of_nat (pcls r)); I (pid r)]
                                           | None => L [] end]) others) in
          let spec := enc (m2o_spec isa db target) in
          let lazy := enc (m2o_lazy isa isa idmap db target) in
          let one := fun c => if (c =? 0) || (c =? 3) then lazy else spec in
          L [L (map (fun c => L [I (hash_tree (one c)); I 0]) codes);
             match codes with c :: _ => if tree_eqb (one c) spec then L [] else one c | [] => L [] end]
      | _, _, _, _, _, _ => bad_input
      end
  | _ => bad_input
  end.

(* input  L [L rows0; L steps; uquery; L assignments; L [I cmp_plan]; walk (ignored: names the mapped relationships)]
     row = L [I id; up; dn; I v] (up / dn: I fk or L [] for NULL)      step = L [I kind(0 Down,1 Up); I order; I level; L rows]
     uquery = L [I pred; I k; distinct; group; I order; limit; offset; jstep]   (jstep: L [] = first step of the path, or a step)
     assignment = L [I code ...]: 0 lazy, 1 joined, 2 subquery, 3 immediate, 4 selectin (default chunk), 10+n selectin chunk n
   output L [L [L [I graph_hash; I plan_hash] per assignment]; L graphs of the first assignment, or L [] when
   they are the query's meaning] *)
Definition run_case (t : tree) : tree :=
  match t with
  | L (I 77 :: _) => run_keys t
  | L (I 78 :: _) => run_ident t
  | L [r0; ss; uq; asgs; L [cp]; _] =>
      match as_list_of as_row r0, as_list_of as_step ss, as_uquery uq,
            as_list_of (as_list_of as_strategy) asgs, as_bool cp with
      | Some t0, Some path, Some u, Some al, Some cmp =>
          match uq_jstep path uq with
          | Some js =>
              L [L (map (run_one cmp u t0 js path) al);
                 (* the first assignment's graph in full only when it is not the query's meaning *)
                 match al with
                 | a :: _ =>
                     let g := L (map graph_tree (load should_nest a u t0 js path)) in
                     if tree_eqb g (L (map graph_tree (load_spec u t0 js path))) then L [] else g
                 | [] => L []
                 end]
          | None => bad_input
          end
      | _, _, _, _, _ => bad_input
      end
  | _ => bad_input
  end.

(* debugging aid: the un-hashed plan of one assignment *)
Definition dbg_plan (t : tree) : tree :=
  match t with
  | L [r0; ss; uq; asgs; L [cp]; _] =>
      match as_list_of as_row r0, as_list_of as_step ss, as_uquery uq,
            as_list_of (as_list_of as_strategy) asgs with
      | Some t0, Some path, Some u, Some al =>
          match uq_jstep path uq with
          | Some js =>
              L (map (fun a => L [L (map (stmt_shape should_nest) (plan should_nest a u t0 js path));
                                  L (map graph_tree (load should_nest a u t0 js path))]) al)
          | None => bad_input
          end
      | _, _, _, _ => bad_input
      end
  | _ => bad_input
  end.
