(* C53 - the session/database invariant and its preservation by the unit of work and the loaders *)
From Coq Require Import List ZArith NArith Bool Lia Permutation.
Import ListNotations.
From SAV.orm Require Import Shard ShardDb.
Open Scope Z_scope.

(* identity keys (pk, token) of the persistent objects, in object order *)
Definition key_of (i : inst) : list (Z * N) :=
  match i_life i, i_tok i with
  | Persistent, Some t => [(r_pk (i_cur i), t)]
  | _, _ => []
  end.
Definition keys (l : list inst) : list (Z * N) := flat_map key_of l.

Record Inv (l : list inst) (d : dbs) : Prop := mkInv {
  inv_pk : forall s, NoDup (pks (d s));
  inv_row : forall i, In i l -> i_life i = Persistent ->
            exists t, i_tok i = Some t /\ In (i_old i) (d t) /\ r_pk (i_old i) = r_pk (i_cur i);
  inv_key : NoDup (keys l)
}.

(* after a flush: nothing pending, no unflushed change *)
Definition clean (i : inst) : Prop :=
  i_life i <> Pending /\ (i_life i = Persistent -> i_cur i = i_old i).

Lemma row_eqb_eq : forall a b, row_eqb a b = true -> a = b.
Proof.
  intros [a1 a2 a3] [b1 b2 b3]. unfold row_eqb. simpl. rewrite !andb_true_iff, !Z.eqb_eq.
  intros [[? ?] ?]. congruence.
Qed.

Lemma keys_app : forall a b, keys (a ++ b) = keys a ++ keys b.
Proof. intros. unfold keys. apply flat_map_app. Qed.
Lemma keys_mid : forall pre i post, keys (pre ++ i :: post) = keys pre ++ key_of i ++ keys post.
Proof. intros. rewrite keys_app. reflexivity. Qed.

Lemma in_keys : forall l k t, In (k, t) (keys l) <->
  exists i, In i l /\ i_life i = Persistent /\ i_tok i = Some t /\ r_pk (i_cur i) = k.
Proof.
  intros l k t. unfold keys. rewrite in_flat_map. split.
  - intros [i [Hi Hk]]. exists i. unfold key_of in Hk.
    destruct (i_life i); try (inversion Hk; fail). destruct (i_tok i); [|inversion Hk].
    destruct Hk as [Hk|[]]. inversion Hk; subst. auto.
  - intros [i [Hi [Hl [Ht Hk]]]]. exists i. split; auto. unfold key_of. rewrite Hl, Ht, Hk. now left.
Qed.

Lemma is_key_true : forall k t i, is_key k t i = true <->
  i_life i = Persistent /\ i_tok i = Some t /\ r_pk (i_cur i) = k.
Proof.
  intros. unfold is_key. destruct (i_life i); try (split; [discriminate | intros [? _]; discriminate]).
  destruct (i_tok i) as [t'|]; [|split; [discriminate | intros [_ [? _]]; discriminate]].
  rewrite andb_true_iff, Z.eqb_eq, N.eqb_eq. split.
  - intros [? ?]; subst; auto.
  - intros [_ [H ?]]. inversion H. auto.
Qed.

Lemma key_in_db : forall l d k t, Inv l d -> In (k, t) (keys l) -> In k (pks (d t)).
Proof.
  intros l d k t HI Hk. apply in_keys in Hk. destruct Hk as [i [Hi [Hl [Ht Hk]]]].
  destruct (inv_row _ _ HI i Hi Hl) as [t' [Ht' [Hin Hpk]]]. rewrite Ht in Ht'. inversion Ht'; subst t'.
  subst k. rewrite <- Hpk. unfold pks. now apply in_map.
Qed.

(* two different objects of a state satisfying the invariant never share an identity key *)
Lemma other_key_differs : forall pre i post j k,
  NoDup (keys (pre ++ i :: post)) -> In j pre \/ In j post -> key_of i = [k] -> key_of j = [k] -> False.
Proof.
  intros pre i post j k Hn Hj Hi Hk. rewrite keys_mid, Hi in Hn. simpl in Hn.
  apply NoDup_remove_2 in Hn. apply Hn. rewrite in_app_iff.
  destruct Hj as [Hj|Hj]; [left|right]; unfold keys; apply in_flat_map; exists j; rewrite Hk; simpl; auto.
Qed.

Lemma in_mid : forall {A} (pre post : list A) i j, In j (pre ++ i :: post) <-> j = i \/ In j pre \/ In j post.
Proof. intros. rewrite in_app_iff. simpl. intuition. Qed.

(* ---- replacing one object without touching the database ---- *)
Lemma inv_replace : forall pre i post d i',
  Inv (pre ++ i :: post) d -> key_of i' = key_of i ->
  (i_life i' = Persistent -> exists t, i_tok i' = Some t /\ In (i_old i') (d t) /\ r_pk (i_old i') = r_pk (i_cur i')) ->
  Inv (pre ++ i' :: post) d.
Proof.
  intros pre i post d i' HI Hk Hr. constructor.
  - apply (inv_pk _ _ HI).
  - intros j Hj Hl. apply in_mid in Hj. destruct Hj as [Hj|Hj]; [subst; auto|].
    apply (inv_row _ _ HI); auto. apply in_mid. auto.
  - rewrite keys_mid, Hk, <- keys_mid. apply (inv_key _ _ HI).
Qed.

(* ---- UPDATE of one persistent object on the shard of its token ---- *)
Lemma inv_update : forall pre i post d t,
  Inv (pre ++ i :: post) d -> i_life i = Persistent -> i_tok i = Some t ->
  Inv (pre ++ mkInst (i_cur i) (i_cur i) Persistent (Some t) :: post) (upd d t (sql_update (i_cur i) (d t))).
Proof.
  intros pre i post d t HI Hl Ht.
  assert (Hki : key_of i = [(r_pk (i_cur i), t)]) by (unfold key_of; now rewrite Hl, Ht).
  destruct (inv_row _ _ HI i) as [t0 [Ht0 [Hin Hpk]]]; [apply in_mid; auto | auto |].
  rewrite Ht in Ht0. inversion Ht0; subst t0. constructor.
  - intros s. destruct (N.eq_dec s t) as [->|Hs].
    + rewrite upd_same, pks_update. apply (inv_pk _ _ HI).
    + rewrite upd_other by auto. apply (inv_pk _ _ HI).
  - intros j Hj Hlj. apply in_mid in Hj. destruct Hj as [Hj|Hj].
    + subst j. simpl. exists t. split; auto. split; auto. rewrite upd_same. eapply in_update_hit; eauto.
    + destruct (inv_row _ _ HI j) as [tj [Htj [Hinj Hpkj]]]; [apply in_mid; auto | auto |].
      exists tj. split; auto. split; auto.
      destruct (N.eq_dec tj t) as [->|Hs]; [|now rewrite upd_other].
      rewrite upd_same. apply in_update_other; auto. intros He.
      eapply other_key_differs with (j := j); [apply (inv_key _ _ HI) | exact Hj | exact Hki |].
      unfold key_of. rewrite Hlj, Htj. now rewrite <- Hpkj, He.
  - rewrite keys_mid. replace (key_of (mkInst (i_cur i) (i_cur i) Persistent (Some t))) with (key_of i)
      by (rewrite Hki; reflexivity).
    rewrite <- keys_mid. apply (inv_key _ _ HI).
Qed.

(* ---- INSERT of one pending object on shard s ---- *)
Lemma inv_insert : forall pre i post d s t',
  Inv (pre ++ i :: post) d -> i_life i = Pending -> sql_insert (i_cur i) (d s) = Some t' ->
  Inv (pre ++ mkInst (i_cur i) (i_cur i) Persistent (Some s) :: post) (upd d s t').
Proof.
  intros pre i post d s t' HI Hl Hs. apply sql_insert_spec in Hs. destruct Hs as [-> Hnew].
  assert (Hki : key_of i = []) by (unfold key_of; now rewrite Hl).
  constructor.
  - intros s'. destruct (N.eq_dec s' s) as [->|Hs].
    + rewrite upd_same, pks_app. apply NoDup_snoc; auto. apply (inv_pk _ _ HI).
    + rewrite upd_other by auto. apply (inv_pk _ _ HI).
  - intros j Hj Hlj. apply in_mid in Hj. destruct Hj as [Hj|Hj].
    + subst j. simpl. exists s. rewrite upd_same. split; auto. split; auto. apply in_or_app. right. now left.
    + destruct (inv_row _ _ HI j) as [tj [Htj [Hinj Hpkj]]]; [apply in_mid; auto | auto |].
      exists tj. split; auto. split; auto.
      destruct (N.eq_dec tj s) as [->|Hs']; [|now rewrite upd_other].
      rewrite upd_same. apply in_or_app. now left.
  - pose proof (inv_key _ _ HI) as Hn. rewrite keys_mid, Hki in Hn. simpl in Hn.
    rewrite keys_mid. unfold key_of at 1. simpl.
    apply (NoDup_Add (a := (r_pk (i_cur i), s)) (l := keys pre ++ keys post)); [apply Add_app|].
    split; auto. intros Hin. apply Hnew. apply (key_in_db _ _ _ _ HI).
    rewrite keys_mid, Hki. exact Hin.
Qed.

(* ---- DELETE of one persistent object on the shard of its token ---- *)
Lemma inv_gone : forall pre i post d t,
  Inv (pre ++ i :: post) d -> i_life i = Persistent -> i_tok i = Some t ->
  Inv (pre ++ mkInst (i_cur i) (i_old i) Gone (i_tok i) :: post)
      (upd d t (sql_delete (r_pk (i_cur i)) (d t))).
Proof.
  intros pre i post d t HI Hl Ht.
  assert (Hki : key_of i = [(r_pk (i_cur i), t)]) by (unfold key_of; now rewrite Hl, Ht).
  constructor.
  - intros s. destruct (N.eq_dec s t) as [->|Hs].
    + rewrite upd_same. apply NoDup_pks_delete. apply (inv_pk _ _ HI).
    + rewrite upd_other by auto. apply (inv_pk _ _ HI).
  - intros j Hj Hlj. apply in_mid in Hj. destruct Hj as [Hj|Hj]; [subst j; simpl in Hlj; discriminate|].
    destruct (inv_row _ _ HI j) as [tj [Htj [Hinj Hpkj]]]; [apply in_mid; auto | auto |].
    exists tj. split; auto. split; auto.
    destruct (N.eq_dec tj t) as [->|Hs]; [|now rewrite upd_other].
    rewrite upd_same. apply in_delete. split; auto. intros He.
    eapply other_key_differs with (j := j); [apply (inv_key _ _ HI) | exact Hj | exact Hki |].
    unfold key_of. rewrite Hlj, Htj. now rewrite <- Hpkj, He.
  - pose proof (inv_key _ _ HI) as Hn. rewrite keys_mid, Hki in Hn. simpl in Hn.
    rewrite keys_mid. unfold key_of at 1. simpl. eapply NoDup_remove_1. exact Hn.
Qed.

(* ---- a new object: pending (add) or loaded from a row that has no identity yet ---- *)
Lemma inv_add : forall l d r pre, Inv l d -> Inv (l ++ [mkInst r r Pending pre]) d.
Proof.
  intros l d r pre HI. constructor.
  - apply (inv_pk _ _ HI).
  - intros j Hj Hl. apply in_app_iff in Hj. destruct Hj as [Hj|[Hj|[]]]; [|subst j; discriminate].
    apply (inv_row _ _ HI); auto.
  - rewrite keys_app. simpl. rewrite app_nil_r. apply (inv_key _ _ HI).
Qed.

Lemma inv_load : forall l d r t, Inv l d -> In r (d t) -> lookup l (r_pk r) t = None ->
  Inv (l ++ [mkInst r r Persistent (Some t)]) d.
Proof.
  intros l d r t HI Hr Hm. constructor.
  - apply (inv_pk _ _ HI).
  - intros j Hj Hl. apply in_app_iff in Hj. destruct Hj as [Hj|[Hj|[]]].
    + apply (inv_row _ _ HI); auto.
    + subst j. simpl. eauto.
  - rewrite keys_app. simpl. apply NoDup_snoc; [apply (inv_key _ _ HI)|].
    intros Hin. apply in_keys in Hin. destruct Hin as [i [Hi Hk]].
    assert (is_key (r_pk r) t i = false) by (eapply find_idx_none; eauto).
    assert (is_key (r_pk r) t i = true) by (now apply is_key_true). congruence.
Qed.

(* ---- one pass of the unit of work ---- *)
Lemma pass_inv : forall (P : list inst -> dbs -> Prop) (f : step_fn),
  (forall pre i post d i' d' w, P (pre ++ i :: post) d -> f i d = Ok (i', d', w) -> P (pre ++ i' :: post) d') ->
  forall l pre d l' d' w, P (pre ++ l) d -> pass f l d = Ok (l', d', w) -> P (pre ++ l') d'.
Proof.
  intros P f Hf. induction l as [|i r IH]; simpl; intros pre d l' d' w HP H.
  - inversion H; subst. exact HP.
  - destruct (f i d) as [[[i' d1] w1]|] eqn:E; [|discriminate].
    destruct (pass f r d1) as [[[r' d2] w2]|] eqn:E2; [|discriminate].
    inversion H; subst. pose proof (Hf _ _ _ _ _ _ _ HP E) as HP1.
    replace (pre ++ i' :: r') with ((pre ++ [i']) ++ r') by (rewrite <- app_assoc; reflexivity).
    apply IH with (d := d1) (w := w2); auto. rewrite <- app_assoc. exact HP1.
Qed.

Lemma pass_rel : forall (R : inst -> inst -> Prop) (f : step_fn),
  (forall i d i' d' w, f i d = Ok (i', d', w) -> R i i') ->
  forall l d l' d' w, pass f l d = Ok (l', d', w) -> Forall2 R l l'.
Proof.
  intros R f Hf. induction l as [|i r IH]; simpl; intros d l' d' w H.
  - inversion H. constructor.
  - destruct (f i d) as [[[i' d1] w1]|] eqn:E; [|discriminate].
    destruct (pass f r d1) as [[[r' d2] w2]|] eqn:E2; [|discriminate].
    inversion H; subst. constructor; eauto.
Qed.

Lemma apply_writes_app : forall a b d d1, apply_writes a d = Ok d1 -> apply_writes (a ++ b) d = apply_writes b d1.
Proof.
  induction a as [|w a IH]; simpl; intros b d d1 H.
  - inversion H. reflexivity.
  - destruct (apply_write d w); [|discriminate]. eauto.
Qed.

Lemma pass_writes : forall (f : step_fn),
  (forall i d i' d' w, f i d = Ok (i', d', w) -> apply_writes w d = Ok d') ->
  forall l d l' d' w, pass f l d = Ok (l', d', w) -> apply_writes w d = Ok d'.
Proof.
  intros f Hf. induction l as [|i r IH]; simpl; intros d l' d' w H.
  - inversion H. reflexivity.
  - destruct (f i d) as [[[i' d1] w1]|] eqn:E; [|discriminate].
    destruct (pass f r d1) as [[[r' d2] w2]|] eqn:E2; [|discriminate].
    inversion H; subst. rewrite (apply_writes_app _ _ _ _ (Hf _ _ _ _ _ E)). eauto.
Qed.

Lemma pass_just : forall (J : inst -> write -> Prop) (f : step_fn),
  (forall i d i' d' w, f i d = Ok (i', d', w) -> Forall (J i) w) ->
  forall l d l' d' w, pass f l d = Ok (l', d', w) -> Forall (fun x => exists i, In i l /\ J i x) w.
Proof.
  intros J f Hf. induction l as [|i r IH]; simpl; intros d l' d' w H.
  - inversion H. constructor.
  - destruct (f i d) as [[[i' d1] w1]|] eqn:E; [|discriminate].
    destruct (pass f r d1) as [[[r' d2] w2]|] eqn:E2; [|discriminate].
    inversion H; subst. apply Forall_app. split.
    + eapply Forall_impl; [|eapply Hf; eauto]. intros x Hx. exists i. simpl. auto.
    + eapply Forall_impl; [|eapply IH; eauto]. intros x [j [Hj Hx]]. exists j. simpl. auto.
Qed.
