(* C45 - load=False: no SQL, nothing flagged; the merge result is the identity-map instance. *)
From Coq Require Import List Bool Arith ZArith Lia.
From SAV.orm Require Import Merge.
Import ListNotations.

(* sources a real program can build: a detached object has a primary key *)
Definition srcsB_ok (sbs : list srcB) : Prop := forall j b, nth_error sbs j = Some b -> sb_detached b = true -> sb_pk b <> None.
Definition srcA_ok (a : srcA) : Prop := sa_detached a = true -> sa_pk a <> None.

(* ---------- "quiet" steps: no statement, no new pending object, no new modified flag ---------- *)
Definition quiet (s s' : mstate) : Prop :=
  sql s' = sql s /\ pendings s' = pendings s /\ (forall x, modf s' x = true -> modf s x = true).
Lemma quiet_refl : forall s, quiet s s.
Proof. intros. repeat split; auto. Qed.
Lemma quiet_trans : forall a b c, quiet a b -> quiet b c -> quiet a c.
Proof. intros a b c [A1 [A2 A3]] [B1 [B2 B3]]. repeat split; try congruence. auto. Qed.

Definition clean (s : mstate) (x : nat) : Prop :=
  modf s x = false /\ (forall k, ccomm s x k = None) /\ bscomm s x = None /\ pcomm s x = None.
(* a step that never creates history *)
Definition keeps_clean (s s' : mstate) : Prop := forall x, clean s x -> clean s' x.
Lemma keeps_clean_refl : forall s, keeps_clean s s.
Proof. intros s x H. exact H. Qed.
Lemma keeps_clean_trans : forall a b c, keeps_clean a b -> keeps_clean b c -> keeps_clean a c.
Proof. intros a b c H1 H2 x H. auto. Qed.

Definition silent (s s' : mstate) : Prop := quiet s s' /\ keeps_clean s s'.
Lemma silent_refl : forall s, silent s s.
Proof. intros. split; [apply quiet_refl|apply keeps_clean_refl]. Qed.
Lemma silent_trans : forall a b c, silent a b -> silent b c -> silent a c.
Proof. intros a b c [A1 A2] [B1 B2]. split; [eapply quiet_trans|eapply keeps_clean_trans]; eauto. Qed.

Ltac silent_setter := split; [repeat split; auto|intros x H; exact H].

Lemma silent_alloc : forall s, silent s (fst (alloc s)).
Proof. intros. unfold alloc. cbn [fst]. silent_setter. Qed.
Lemma silent_set_tkey : forall s t v, silent s (set_tkey s t v).
Proof. intros. silent_setter. Qed.
Lemma silent_set_idA : forall s k v, silent s (set_idA s k v).
Proof. intros. silent_setter. Qed.
Lemma silent_set_idB : forall s k v, silent s (set_idB s k v).
Proof. intros. silent_setter. Qed.
Lemma silent_set_cols : forall s t k v, silent s (set_cols s t k v).
Proof. intros. silent_setter. Qed.
Lemma silent_set_par : forall s t v, silent s (set_par s t v).
Proof. intros. silent_setter. Qed.
Lemma silent_set_bs : forall s t v, silent s (set_bs s t v).
Proof. intros. silent_setter. Qed.
Lemma silent_set_poison : forall s, silent s (set_poison s).
Proof. intros. silent_setter. Qed.

Lemma silent_commit_all : forall s t, silent s (commit_all s t).
Proof.
  intros s t. split.
  - repeat split; auto. intros x. cbn [modf commit_all]. unfold upd. destruct (Nat.eqb x t); [discriminate|auto].
  - intros x [C1 [C2 [C3 C4]]]. unfold clean. cbn [modf ccomm bscomm pcomm commit_all]. unfold upd.
    destruct (Nat.eqb x t); repeat split; auto.
Qed.
Lemma clean_commit_all : forall s t, clean (commit_all s t) t.
Proof.
  intros s t. unfold clean. cbn [modf ccomm bscomm pcomm commit_all]. unfold upd. rewrite Nat.eqb_refl. repeat split; auto.
Qed.

Lemma silent_merge_col_false : forall s t k v, silent s (merge_col false s t k v).
Proof. intros s t k v. destruct v; cbn [merge_col]; [apply silent_refl|apply silent_set_cols]. Qed.

(* ---------- one child, load=False ---------- *)
Definition acc_inv (acc : mstate * mctx * list nat) : Prop :=
  let '(s, ctx, dest) := acc in
  (forall c, In c dest -> clean s c) /\ (forall j t, assoc j (memo ctx) = Some t -> clean s t).

Lemma assoc_cons : forall A (k k' : nat) (v : A) l, assoc k ((k', v) :: l) = if Nat.eqb k k' then Some v else assoc k l.
Proof. reflexivity. Qed.

Lemma merge_B_false : forall cfg root sbs s ctx dest j s' ctx' dest',
  srcsB_ok sbs ->
  merge_B cfg false root sbs (Some (s, ctx, dest)) j = Some (s', ctx', dest') ->
  silent s s' /\ (acc_inv (s, ctx, dest) -> acc_inv (s', ctx', dest')).
Proof.
  intros cfg root sbs s ctx dest j s' ctx' dest' Hok H. cbn [merge_B] in H.
  destruct (assoc j (memo ctx)) as [t|] eqn:Hm.
  - inversion H; subst. split; [apply silent_refl|]. intros [I1 I2]. split; [|exact I2].
    intros c Hc. apply in_app_iff in Hc. destruct Hc as [Hc|[Hc|[]]]; [apply I1; exact Hc|subst; eapply I2; eauto].
  - destruct (nth_error sbs j) as [src|] eqn:Hn.
    2:{ inversion H; subst. split; [apply silent_set_poison|]. intros [I1 I2].
        split; [intros c Hc; apply (proj2 (silent_set_poison s)), I1, Hc
               |intros j' t' Ha; eapply (proj2 (silent_set_poison s)), I2; eauto]. }
    destruct (negb (sb_detached src) && negb false) eqn:Hd; [discriminate|].
    cbn [negb] in Hd. rewrite andb_true_r in Hd. apply negb_false_iff in Hd.
    destruct (sb_pk src) as [pk|] eqn:Hpk; [|exfalso; eapply Hok; eauto].
    (* target resolution *)
    set (res := match idB s pk with
                | Some t => (s, Some t)
                | None => match assoc pk (cmap ctx) with
                          | Some t => (s, Some t)
                          | None => if negb false then
                                      let '(sa, t) := alloc s in (set_idB (set_tkey sa t (Some pk)) pk (Some t), Some t)
                                    else get_B cfg s pk
                          end
                end) in *.
    assert (R : silent s (fst res) /\ exists t, snd res = Some t).
    { unfold res. destruct (idB s pk) as [t1|]; [cbn [fst snd]; split; [apply silent_refl|exists t1; reflexivity]|].
      destruct (assoc pk (cmap ctx)) as [t1|]; [cbn [fst snd]; split; [apply silent_refl|exists t1; reflexivity]|]. cbn [negb alloc fst snd].
      split; [|eexists; reflexivity]. eapply silent_trans; [|apply silent_set_idB].
      eapply silent_trans; [|apply silent_set_tkey]. apply (silent_alloc s). }
    destruct R as [R1 [t Rt]]. destruct res as [s1 tgt] eqn:Eres. cbn [fst snd] in R1, Rt. subst tgt.
    cbn [negb] in H. inversion H; subst; clear H.
    set (s3 := merge_col false s1 t 0 (SV (zpk pk))).
    set (s4 := merge_col false s3 t 1 (sb_v src)).
    set (s5 := if hb cfg && mb cfg && true then
                 match sb_a src with BPunloaded => s4 | BPnone => set_par s4 t (Some None) | BPparent => set_par s4 t (Some (Some root)) end
               else s4).
    assert (S5 : silent s s5).
    { eapply silent_trans; [exact R1|]. eapply silent_trans; [apply silent_merge_col_false|].
      eapply silent_trans; [apply silent_merge_col_false|]. unfold s5.
      destruct (hb cfg && mb cfg && true); [|apply silent_refl].
      destruct (sb_a src); [apply silent_refl|apply silent_set_par|apply silent_set_par]. }
    split; [eapply silent_trans; [exact S5|apply silent_commit_all]|].
    intros [I1 I2].
    assert (K : keeps_clean s (commit_all s5 t)).
    { eapply keeps_clean_trans; [apply S5|apply silent_commit_all]. }
    split.
    + intros c Hc. apply in_app_iff in Hc. destruct Hc as [Hc|[Hc|[]]]; [apply K, I1, Hc|subst; apply clean_commit_all].
    + intros j' t' Ha. cbn [memo] in Ha. rewrite assoc_cons in Ha. destruct (Nat.eqb j' j).
      * inversion Ha; subst. apply clean_commit_all.
      * eapply K, I2; eauto.
Qed.

Lemma fold_merge_B_false : forall cfg root sbs js s ctx dest s' ctx' dest',
  srcsB_ok sbs ->
  fold_left (merge_B cfg false root sbs) js (Some (s, ctx, dest)) = Some (s', ctx', dest') ->
  silent s s' /\ (acc_inv (s, ctx, dest) -> acc_inv (s', ctx', dest')).
Proof.
  intros cfg root sbs. induction js as [|j js IH]; intros s ctx dest s' ctx' dest' Hok H; cbn [fold_left] in H.
  - inversion H; subst. split; [apply silent_refl|auto].
  - destruct (merge_B cfg false root sbs (Some (s, ctx, dest)) j) as [[[s1 ctx1] dest1]|] eqn:E.
    + destruct (merge_B_false _ _ _ _ _ _ _ _ _ _ Hok E) as [A1 A2].
      destruct (IH _ _ _ _ _ _ Hok H) as [B1 B2]. split; [eapply silent_trans; eauto|auto].
    + exfalso. clear -H. induction js; cbn [fold_left] in H; [discriminate|auto].
Qed.

(* ---------- load_false_no_sql_no_dirty ---------- *)
Theorem merge_load_false_no_sql_no_dirty : forall cfg sbs s src s' t,
  srcsB_ok sbs -> srcA_ok src ->
  merge_A cfg false sbs s src = Some (s', t) ->
  sql s' = sql s /\ pendings s' = pendings s /\
  (forall x, modf s' x = true -> modf s x = true) /\
  clean s' t /\
  (mf cfg = true -> forall js, sa_bs src = SV js -> exists dest, bs s' t = Some dest /\ forall c, In c dest -> clean s' c).
Proof.
  intros cfg sbs s src s' t Hokb Hoka H. unfold merge_A in H.
  destruct (negb (sa_detached src) && negb false) eqn:Hd; [discriminate|].
  cbn [negb] in Hd. rewrite andb_true_r in Hd. apply negb_false_iff in Hd.
  destruct (sa_pk src) as [pk|] eqn:Hpk; [|exfalso; apply Hoka; auto].
  set (res := match idA s pk with
              | Some t0 => (s, Some t0)
              | None => if negb false then let '(sa, t0) := alloc s in (set_idA (set_tkey sa t0 (Some pk)) pk (Some t0), Some t0)
                        else get_A cfg s pk
              end) in *.
  assert (R : silent s (fst res) /\ exists t0, snd res = Some t0).
  { unfold res. destruct (idA s pk) as [t1|]; [cbn [fst snd]; split; [apply silent_refl|exists t1; reflexivity]|]. cbn [negb alloc fst snd].
    split; [|eexists; reflexivity]. eapply silent_trans; [|apply silent_set_idA].
    eapply silent_trans; [|apply silent_set_tkey]. apply (silent_alloc s). }
  destruct R as [R1 [t0 Rt]]. destruct res as [s1 tgt] eqn:Eres. cbn [fst snd] in R1, Rt. subst tgt.
  cbn [negb] in H.
  set (s4 := merge_col false (merge_col false (merge_col false s1 t0 0 (SV (zpk pk))) t0 1 (sa_x src)) t0 2 (sa_y src)) in *.
  assert (S4 : silent s s4).
  { eapply silent_trans; [exact R1|]. unfold s4. eapply silent_trans; [apply silent_merge_col_false|].
    eapply silent_trans; apply silent_merge_col_false. }
  destruct (sa_bs src) as [|js] eqn:Hbs.
  - inversion H; subst. destruct S4 as [[Q1 [Q2 Q3]] K].
    destruct (silent_commit_all s4 t) as [[C1 [C2 C3]] _].
    split; [congruence|]. split; [congruence|]. split; [auto|]. split; [apply clean_commit_all|]. intros _ js0 Hj. discriminate.
  - destruct (mf cfg) eqn:Hmf.
    + destruct (fold_left (merge_B cfg false t0 sbs) js (Some (s4, mkCtx [] [], []))) as [[[s6 ctx6] dest]|] eqn:F; [|discriminate].
      inversion H; subst; clear H.
      destruct (fold_merge_B_false _ _ _ _ _ _ _ _ _ _ Hokb F) as [A1 A2].
      assert (AI : acc_inv (s6, ctx6, dest)).
      { apply A2. split; [intros c []|]. intros j t1 Ha. discriminate. }
      destruct AI as [I1 _].
      assert (S7 : silent s (commit_all (set_bs s6 t (Some dest)) t)).
      { eapply silent_trans; [exact S4|]. eapply silent_trans; [exact A1|].
        eapply silent_trans; [apply silent_set_bs|apply silent_commit_all]. }
      destruct S7 as [[Q1 [Q2 Q3]] _].
      split; [exact Q1|]. split; [exact Q2|]. split; [exact Q3|]. split; [apply clean_commit_all|].
      intros _ js0 Hj. exists dest. split.
      * cbn [bs commit_all set_bs]. unfold upd. rewrite Nat.eqb_refl. reflexivity.
      * intros c Hc. apply silent_commit_all, silent_set_bs, I1, Hc.
    + inversion H; subst. destruct S4 as [[Q1 [Q2 Q3]] K].
      destruct (silent_commit_all s4 t) as [[C1 [C2 C3]] _].
      split; [congruence|]. split; [congruence|]. split; [auto|]. split; [apply clean_commit_all|]. intros Hc. discriminate.
Qed.
