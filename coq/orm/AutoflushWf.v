(* C47 - flush applies every pending change (pointwise characterisation of table c), and the
   well-formedness invariant (object ids unique, pending ids have no row) over all histories *)
From Coq Require Import List ZArith NArith Bool Arith Lia.
Import ListNotations.
From SAV.orm Require Import Autoflush AutoflushProofs.

(* ---------------------------------------------------------------- table lemmas *)
Lemma row_get_set_same : forall k r d, row_get k (row_set k r d) = Some r.
Proof.
  intros k r d. induction d as [|[i x] d IH]; simpl; [rewrite N.eqb_refl; reflexivity|].
  destruct (N.eqb i k) eqn:E; simpl; [rewrite N.eqb_refl; reflexivity|].
  destruct (N.ltb k i); simpl; [rewrite N.eqb_refl; reflexivity|]. rewrite E. exact IH.
Qed.
Lemma row_get_set_other : forall k k' r d, k <> k' -> row_get k' (row_set k r d) = row_get k' d.
Proof.
  intros k k' r d Hn. induction d as [|[i x] d IH]; simpl.
  - destruct (N.eqb k k') eqn:E; [apply N.eqb_eq in E; contradiction|reflexivity].
  - destruct (N.eqb i k) eqn:E; simpl.
    + apply N.eqb_eq in E. subst i. destruct (N.eqb k k') eqn:E2; [apply N.eqb_eq in E2; contradiction|reflexivity].
    + destruct (N.ltb k i); simpl.
      * destruct (N.eqb k k') eqn:E2; [apply N.eqb_eq in E2; contradiction|reflexivity].
      * destruct (N.eqb i k'); auto.
Qed.
Lemma row_get_del_same : forall k d, row_get k (row_del k d) = None.
Proof.
  intros k d. unfold row_del. induction d as [|[i x] d IH]; simpl; auto.
  destruct (N.eqb i k) eqn:E; simpl; auto. rewrite E. exact IH.
Qed.
Lemma row_get_del_other : forall k k' d, k <> k' -> row_get k' (row_del k d) = row_get k' d.
Proof.
  intros k k' d Hn. unfold row_del. induction d as [|[i x] d IH]; simpl; auto.
  destruct (N.eqb i k) eqn:E; simpl.
  - apply N.eqb_eq in E. subst i. destruct (N.eqb k k') eqn:E2; [apply N.eqb_eq in E2; contradiction|exact IH].
  - destruct (N.eqb i k'); auto.
Qed.

(* what the flush of one object does to the row with its id *)
Definition effect (o : cobj) (old : option (Z * N)) : option (Z * N) :=
  match c_st o with
  | Pend => Some (c_val o, c_pid o)
  | Del => None
  | Pers => if c_dirty o then match old with Some _ => Some (c_val o, c_pid o) | None => None end else old
  end.
Lemma flush_row_same : forall d o, row_get (c_id o) (flush_row d o) = effect o (row_get (c_id o) d).
Proof.
  intros d o. unfold flush_row, effect. destruct (c_st o).
  - destruct (c_dirty o); auto. destruct (row_get (c_id o) d) eqn:E; [apply row_get_set_same|exact E].
  - apply row_get_set_same.
  - apply row_get_del_same.
Qed.
Lemma flush_row_other : forall d o k, c_id o <> k -> row_get k (flush_row d o) = row_get k d.
Proof.
  intros d o k H. unfold flush_row. destruct (c_st o).
  - destruct (c_dirty o); auto. destruct (row_get (c_id o) d); auto. apply row_get_set_other; auto.
  - apply row_get_set_other; auto.
  - apply row_get_del_other; auto.
Qed.

(* the session's logical view of row i: what the application has said about it *)
Definition logical (s : st) (i : N) : option (Z * N) :=
  match find_c i (cs s) with Some o => effect o (row_get i (dbc s)) | None => row_get i (dbc s) end.

Lemma fold_flush_rows : forall l d i, NoDup (map c_id l) ->
  row_get i (fold_left flush_row l d) =
  match find_c i l with Some o => effect o (row_get i d) | None => row_get i d end.
Proof.
  unfold find_c. induction l as [|o l IH]; intros d i ND; [reflexivity|]. cbn [fold_left find].
  inversion ND as [|? ? Hx ND']. subst. rewrite (IH _ i ND').
  destruct (N.eqb (c_id o) i) eqn:E.
  - apply N.eqb_eq in E. subst i.
    destruct (find (fun o0 : cobj => N.eqb (c_id o0) (c_id o)) l) as [o'|] eqn:F.
    + exfalso. apply find_some in F. destruct F as [F1 F2]. apply N.eqb_eq in F2.
      apply Hx. rewrite <- F2. apply in_map. exact F1.
    + apply flush_row_same.
  - assert (Ne : c_id o <> i) by (intro X; subst; rewrite N.eqb_refl in E; discriminate).
    rewrite (flush_row_other d o i Ne). reflexivity.
Qed.

Theorem flush_applies_pending : forall s i, NoDup (map c_id (cs s)) ->
  row_get i (dbc (flush s)) = logical s i.
Proof. intros s i ND. unfold logical. cbn [dbc flush]. apply fold_flush_rows. exact ND. Qed.

(* ---------------------------------------------------------------- well-formed sessions *)
Record WF (s : st) : Prop := mkWF {
  wf_nodup : NoDup (map c_id (cs s));
  wf_ids : forall o, In o (cs s) -> (c_id o < nc s)%N;
  wf_rows : forall i r, row_get i (dbc s) = Some r -> (i < nc s)%N;
  wf_pend : forall o, In o (cs s) -> c_st o = Pend -> row_get (c_id o) (dbc s) = None
}.

Lemma In_row_get : forall i r (d : rows), In (i, r) d -> row_get i d <> None.
Proof.
  intros i r d. induction d as [|[j x] d IH]; intros H; [destruct H|]. simpl.
  destruct (N.eqb j i) eqn:E; [discriminate|]. destruct H as [H|H]; [inversion H; subst; rewrite N.eqb_refl in E; discriminate|auto].
Qed.

Lemma upd_c_ids : forall k f l, (forall o, c_id (f o) = c_id o) -> map c_id (upd_c k f l) = map c_id l.
Proof.
  intros k f l H. unfold upd_c. rewrite map_map. apply map_ext. intros o. destruct (N.eqb (c_id o) k); auto.
Qed.
Lemma In_upd_c : forall k f l x, In x (upd_c k f l) -> exists o, In o l /\ (x = o \/ x = f o).
Proof.
  intros k f l x H. unfold upd_c in H. apply in_map_iff in H. destruct H as [o [E H]].
  exists o. split; auto. destruct (N.eqb (c_id o) k); auto.
Qed.

Lemma wf_upd : forall s k f, WF s -> (forall o, c_id (f o) = c_id o) ->
  (forall o, c_st (f o) = Pend -> c_st o = Pend) -> WF (set_cs (upd_c k f (cs s)) s).
Proof.
  intros s k f W Hid Hst. constructor; cbn [cs dbc nc set_cs].
  - rewrite upd_c_ids; auto. apply (wf_nodup s W).
  - intros x H. apply In_upd_c in H. destruct H as [o [Ho [E|E]]]; subst x; [|rewrite Hid]; apply (wf_ids s W); auto.
  - apply (wf_rows s W).
  - intros x H P. apply In_upd_c in H. destruct H as [o [Ho [E|E]]]; subst x.
    + apply (wf_pend s W); auto.
    + rewrite Hid. apply (wf_pend s W); auto.
Qed.

Lemma wf_flush : forall s, WF s -> WF (flush s).
Proof.
  intros s W. constructor; cbn [cs dbc nc flush].
  - assert (X : forall l, NoDup (map c_id l) -> NoDup (map c_id (map clean (filter not_del l)))).
    { induction l as [|o l IH]; intros ND; [constructor|]. inversion ND as [|? ? Hx ND']. subst. cbn [filter].
      destruct (not_del o); [|auto]. cbn [map]. constructor; [|auto].
      intro H. apply Hx. rewrite map_map in H. apply in_map_iff in H. destruct H as [x [E Hin]].
      apply filter_In in Hin. destruct Hin as [Hin _]. destruct x, o; simpl in *. subst. apply in_map_iff.
      eexists; split; [|exact Hin]; reflexivity. }
    apply X. apply (wf_nodup s W).
  - intros x H. apply in_map_iff in H. destruct H as [o [E H]]. apply filter_In in H. destruct H as [H _].
    subst x. destruct o; simpl. apply (wf_ids s W _ H).
  - intros i r H. change (fold_left flush_row (cs s) (dbc s)) with (dbc (flush s)) in H.
    rewrite (flush_applies_pending s i (wf_nodup s W)) in H. unfold logical in H.
    destruct (find_c i (cs s)) as [o|] eqn:F.
    + apply find_c_In in F. destruct F as [F1 F2]. subst i. apply (wf_ids s W _ F1).
    + apply (wf_rows s W i r H).
  - intros x H P. apply in_map_iff in H. destruct H as [o [E H]]. subst x. destruct o; discriminate.
Qed.

Lemma NoDup_app_one : forall (l : list N) x, NoDup l -> ~ In x l -> NoDup (l ++ [x]).
Proof.
  induction l as [|y l IH]; intros x ND H; simpl; [constructor; auto; constructor|].
  inversion ND as [|? ? Hy ND']. subst. constructor.
  - intro Hin. apply in_app_or in Hin. destruct Hin as [Hin|[Hin|[]]]; [contradiction|]. subst. apply H. left. reflexivity.
  - apply IH; auto. intro Hin. apply H. right. exact Hin.
Qed.

Lemma wf_resolve : forall s out row, WF s -> In row (dbc s) ->
  WF (fst (resolve (s, out) row)) /\ dbc (fst (resolve (s, out) row)) = dbc s.
Proof.
  intros s out [i r] W Hin. unfold resolve. cbn [fst snd].
  destruct (find_ident i (cs s)) as [o|] eqn:F; [simpl; auto|]. cbn [fst dbc set_cs]. split; auto.
  assert (Row := In_row_get i r (dbc s) Hin).
  assert (Fresh : ~ In i (map c_id (cs s))).
  { intro H. apply in_map_iff in H. destruct H as [o [E Ho]].
    destruct (has_identity o) eqn:Hi.
    - unfold find_ident in F. apply (find_none _ _ F) in Ho. rewrite E, N.eqb_refl, Hi in Ho. discriminate.
    - apply Row. rewrite <- E. apply (wf_pend s W o Ho). unfold has_identity in Hi. destruct (c_st o); simpl in *; auto; discriminate. }
  constructor; cbn [cs dbc nc set_cs].
  - rewrite map_app. simpl. apply NoDup_app_one; auto. apply (wf_nodup s W).
  - intros x H. apply in_app_or in H. destruct H as [H|[H|[]]]; [apply (wf_ids s W); auto|].
    subst x. simpl. destruct (row_get i (dbc s)) eqn:G; [apply (wf_rows s W i _ G)|contradiction].
  - apply (wf_rows s W).
  - intros x H P. apply in_app_or in H. destruct H as [H|[H|[]]]; [apply (wf_pend s W); auto|].
    subst x. discriminate.
Qed.

Lemma wf_fold_resolve : forall rs s out, WF s -> (forall row, In row rs -> In row (dbc s)) ->
  WF (fst (fold_left resolve rs (s, out))) /\ dbc (fst (fold_left resolve rs (s, out))) = dbc s.
Proof.
  induction rs as [|row rs IH]; intros s out W Sub; [simpl; auto|]. cbn [fold_left].
  destruct (wf_resolve s out row W (Sub row (or_introl eq_refl))) as [W1 D1].
  destruct (resolve (s, out) row) as [s1 out1] eqn:E. cbn [fst] in *.
  destruct (IH s1 out1 W1) as [W2 D2].
  - intros r Hr. rewrite D1. apply Sub. right. exact Hr.
  - split; auto. congruence.
Qed.
Lemma wf_load_rows : forall rs s, WF s -> (forall row, In row rs -> In row (dbc s)) -> WF (fst (load_rows rs s)).
Proof. intros rs s W Sub. apply (wf_fold_resolve rs s [] W Sub). Qed.

Lemma row_get_In : forall i r (d : rows), row_get i d = Some r -> In (i, r) d.
Proof.
  intros i r d. induction d as [|[j x] d IH]; intros H; [discriminate|]. simpl in H.
  destruct (N.eqb j i) eqn:E; [apply N.eqb_eq in E; inversion H; subst; left; reflexivity|right; auto].
Qed.

Lemma wf_set_ps : forall s l, WF s -> WF (set_ps l s).
Proof. intros s l [A B C D]. constructor; auto. Qed.
Lemma wf_load_parent : forall k s, WF s -> WF (fst (load_parent k s)).
Proof.
  intros k s W. unfold load_parent.
  destruct (find_p k (ps s)) as [[i [|]]|]; destruct (memN k (dbp s)); cbn [fst]; auto using wf_set_ps.
Qed.
Lemma wf_aft : forall k m s, WF s -> WF (autoflush_then k m s).
Proof. intros k m s W. unfold autoflush_then. destruct (enabled k m s); auto using wf_flush. Qed.

Lemma wf_exec : forall k m a s, WF s -> WF (fst (exec k m a s)).
Proof.
  intros k m a s W. assert (W1 := wf_aft k m s W).
  destruct k; unfold exec; cbv zeta.
  - assert (X := wf_load_rows (sel_val a (dbc (autoflush_then SelEnt m s))) _ W1).
    destruct (load_rows _ _). apply X. intros row H. apply filter_In in H. apply H.
  - exact W1.
  - exact W1.
  - exact W1.
  - destruct (find_ident (Z.to_N a) (cs s)); [exact W|].
    destruct (find_ident (Z.to_N a) (cs (autoflush_then Get m s))); [exact W1|].
    destruct (row_get (Z.to_N a) (dbc (autoflush_then Get m s))) as [r|] eqn:G; [|exact W1].
    assert (X := wf_load_rows [(Z.to_N a, r)] _ W1). destruct (load_rows _ _). apply X.
    intros row [H|[]]. subst row. apply row_get_In. exact G.
  - destruct (find_c (Z.to_N a) (cs s)) as [o|]; [|exact W].
    destruct (c_st o); try exact W;
    (destruct (N.eqb (c_pid o) 0); [exact W|]);
    (destruct (find_p (c_pid o) (ps s)) as [[i [|]]|]; try (apply wf_load_parent; exact W1); exact W).
  - destruct (find_p (Z.to_N a) (ps s)) as [[i [|]]|]; try exact W.
    assert (X := wf_load_rows (sel_pid (Z.to_N a) (dbc (autoflush_then Children m s))) _ W1).
    destruct (load_rows _ _). apply X. intros row H. apply filter_In in H. apply H.
  - destruct (find_p (Z.to_N a) (ps s)) as [[i [|]]|]; try (apply wf_load_parent; exact W1); exact W.
  - assert (W0 : WF (set_cs (upd_c (Z.to_N a) (fun o : cobj => mkC (c_id o) (c_st o) (c_val o) (c_pid o) false) (cs s)) s))
      by (apply wf_upd; auto).
    assert (W2 := wf_aft Refresh m _ W0).
    destruct (row_get (Z.to_N a) (dbc (autoflush_then Refresh m _))) as [r|]; [|exact W2].
    cbn [fst]. apply wf_upd; auto.
  - assert (X := wf_load_rows (sel_val a (dbc (autoflush_then Legacy m s))) _ W1).
    destruct (load_rows _ _). apply X. intros row H. apply filter_In in H. apply H.
  - exact W1.
  - exact W1.
  - exact W1.
  - exact W1.
  - exact W1.
  - exact W1.
  - exact W1.
Qed.

Lemma wf_step : forall o s, WF s -> WF (fst (step o s)).
Proof.
  intros o s W. unfold step. destruct (skipped (guard o s)); [exact W|].
  destruct o as [v p| |k v|k p|k| |k m a]; cbn [fst].
  - destruct W as [A B C D]. constructor; cbn [cs dbc nc].
    + rewrite map_app. simpl. apply NoDup_app_one; auto.
      intro H. apply in_map_iff in H. destruct H as [x [E Hx]]. specialize (B x Hx). lia.
    + intros x H. apply in_app_or in H. destruct H as [H|[H|[]]]; [specialize (B x H); lia|subst x; simpl; lia].
    + intros i r H. specialize (C i r H). lia.
    + intros x H P. apply in_app_or in H. destruct H as [H|[H|[]]]; [auto|]. subst x. simpl.
      destruct (row_get (nc s) (dbc s)) eqn:G; auto. specialize (C _ _ G). lia.
  - destruct W as [A B C D]. constructor; auto.
  - apply wf_upd; auto.
  - apply wf_upd; auto.
  - apply wf_upd; auto. intros x H. simpl in H. discriminate.
  - apply wf_flush. exact W.
  - apply wf_exec. exact W.
Qed.

Lemma wf_init : forall pr cr af nc0 np0, (forall i r, row_get i cr = Some r -> (i < nc0)%N) -> WF (init pr cr af nc0 np0).
Proof. intros. constructor; cbn; auto; try constructor; intros; contradiction. Qed.

Fixpoint run (ops : list op) (s : st) : st :=
  match ops with [] => s | o :: r => run r (fst (step o s)) end.
Lemma wf_run : forall ops s, WF s -> WF (run ops s).
Proof. induction ops; intros s W; simpl; auto. apply IHops. apply wf_step. exact W. Qed.
