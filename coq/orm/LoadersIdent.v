(* C40 - the identity-map shortcut of lazy / immediate many-to-one loading against a polymorphic target.
   _LazyLoader._load_for_state (use_get) first asks the Session for the identity
   (loading.get_from_identity); an object found under the key is used only if its class IS-A the
   relationship's target class, otherwise the attribute is None (PASSIVE_CLASS_MISMATCH); only when nothing
   is found the row is SELECTed (restricted to the target class).  What is loaded must not depend on what
   happens to be in the Session already. *)
From Coq Require Import List ZArith Bool Lia.
Import ListNotations.
Open Scope Z_scope.

(* a class hierarchy: class -> its parent class (None for the base); [fuel] bounds the depth *)
Definition hierarchy := nat -> option nat.
Fixpoint isa_fuel (h : hierarchy) (fuel : nat) (c target : nat) : bool :=
  Nat.eqb c target ||
  match fuel with
  | O => false
  | S f => match h c with Some p => isa_fuel h f p target | None => false end
  end.

Record prow := mkP { pid : Z; pcls : nat }.          (* a row of the base table with its actual class *)

Definition find_row (db : list prow) (k : Z) : option prow := find (fun r => pid r =? k) db.

(* the relational meaning of a many-to-one whose target is class [target] *)
Definition m2o_spec (isa : nat -> nat -> bool) (db : list prow) (target : nat) (fk : option Z) : option prow :=
  match fk with
  | None => None
  | Some k => match find_row db k with
              | Some r => if isa (pcls r) target then Some r else None
              | None => None
              end
  end.

(* lazy / immediate load with the identity map [idmap] (the objects already in the Session) *)
Definition m2o_lazy (accept : nat -> nat -> bool) (isa : nat -> nat -> bool) (idmap db : list prow) (target : nat)
           (fk : option Z) : option prow :=
  match fk with
  | None => None
  | Some k => match find_row idmap k with
              | Some o => if accept (pcls o) target then Some o else None      (* PASSIVE_CLASS_MISMATCH -> None *)
              | None => m2o_spec isa db target (Some k)                          (* SELECT ... WHERE pk = :k *)
              end
  end.

(* the Session holds rows of the database, as what they are *)
Definition idmap_ok (idmap db : list prow) : Prop := forall k o, find_row idmap k = Some o -> find_row db k = Some o.

(* with the guard "found object IS-A target" the result is the relational meaning, whatever the history *)
Theorem m2o_lazy_history_independent : forall isa idmap db target fk, idmap_ok idmap db ->
  m2o_lazy isa isa idmap db target fk = m2o_spec isa db target fk.
Proof.
  intros isa idmap db target [k|] OK; cbn; auto.
  destruct (find_row idmap k) as [o|] eqn:E; auto. rewrite (OK k o E). reflexivity.
Qed.

(* the seeded guard: also accept an object whose class is an ANCESTOR of the target *)
Definition accept_ancestors (isa : nat -> nat -> bool) (c target : nat) : bool := isa c target || isa target c.

Theorem m2o_lazy_accept_ancestors_refuted : exists (h : hierarchy) idmap db target fk,
  idmap_ok idmap db /\
  m2o_lazy (accept_ancestors (isa_fuel h 3)) (isa_fuel h 3) idmap db target fk <> m2o_spec (isa_fuel h 3) db target fk /\
  m2o_lazy (accept_ancestors (isa_fuel h 3)) (isa_fuel h 3) [] db target fk = m2o_spec (isa_fuel h 3) db target fk.
Proof.
  exists (fun c => match c with 1%nat | 2%nat => Some 0%nat | _ => None end),
         [mkP 1 0], [mkP 1 0], 2%nat, (Some 1).
  split; [intros k o H; exact H|]. split; [vm_compute; discriminate|reflexivity].
Qed.
