(* C33 - executable model of orm/session.py  SessionTransaction / Session transaction control over one
   mapped class  T(id PRIMARY KEY, v)  on one database connection.  Definitions only.

   What is transcribed (file orm/session.py unless said otherwise):
     SessionTransaction.__init__/_take_snapshot/_restore_snapshot/_remove_snapshot/_connection_for_bind/
       _prepare_impl/commit/rollback/close/_raise_for_prerequisite_state,
     the declare_states table (orm/state_changes.py decorator; table [declared], regenerated and compared
       on every run),
     Session._autobegin_t/begin_nested/commit/rollback/close/expunge_all/_expunge_states/_save_impl/
       _update_impl/_delete_impl/flush/_flush/_is_clean/_register_persistent/_register_altered/
       _remove_newly_deleted,
     InstanceState._expire/_detach_states/_modified_event/_load_expired (orm/state.py),
     WeakInstanceDict.add/replace/safe_discard/contains_state (orm/identity.py) - the dictionary
       key -> state is represented by the flag [oin] on the object that is stored under its own key
       (a state's key is only ever changed after the state was discarded from the dictionary),
     persistence._save_obj/_delete_obj as a statement list: UPDATEs (persistent states by identity key),
       INSERTs (pending states by insert order), DELETEs (by identity key) with the primary-key
       uniqueness check of the database and the rowcount check of UPDATE (StaleDataError),
     UOWTransaction.was_already_deleted (orm/unitofwork.py), the autoflush before an attribute refresh.
   The database is the snapshot-stack reference database (same semantics as engine/RefDb.v, see
   SessTxnDb.v) over tables  pk -> v. *)
From Coq Require Import List ZArith Bool Arith.
Import ListNotations.
Open Scope Z_scope.

(* ------------------------------------------------------------------ state machine table (T1) *)
Inductive tstate := ACTIVE | PREPARED | COMMITTED | DEACTIVE | CLOSED.
Definition tstate_code (s : tstate) : Z :=
  match s with ACTIVE => 1 | PREPARED => 2 | COMMITTED => 3 | DEACTIVE => 4 | CLOSED => 5 end.
Definition tstate_eqb (a b : tstate) : bool := Z.eqb (tstate_code a) (tstate_code b).

(* decorated methods of SessionTransaction *)
Inductive meth := M_connection | M_begin | M_conn_for_bind | M_prepare | M_commit | M_rollback | M_close.
Definition meth_code (m : meth) : Z :=
  match m with M_connection => 0 | M_begin => 1 | M_conn_for_bind => 2 | M_prepare => 3
             | M_commit => 4 | M_rollback => 5 | M_close => 6 end.

(* one row: method, prerequisite states ([] = _StateChangeStates.ANY), moves_to (0 = NO_CHANGE) *)
Definition smrow := (Z * list Z * Z)%type.
Definition declared : list smrow :=
  [ (0, [1], 0); (1, [1], 0); (2, [1], 0); (3, [1], 2); (4, [1; 2], 5); (5, [1; 4; 2], 5); (6, [], 5) ].

Fixpoint sm_lookup (t : list smrow) (m : Z) : option (list Z * Z) :=
  match t with
  | [] => None
  | (m', pre, mv) :: r => if Z.eqb m' m then Some (pre, mv) else sm_lookup r m
  end.
Definition prereq_ok (m : meth) (s : tstate) : bool :=
  match sm_lookup declared (meth_code m) with
  | Some ([], _) => true
  | Some (pre, _) => existsb (Z.eqb (tstate_code s)) pre
  | None => false
  end.
Definition moves_to (m : meth) : Z :=
  match sm_lookup declared (meth_code m) with Some (_, mv) => mv | None => -1 end.

(* ------------------------------------------------------------------ results *)
Definition E_INV := 1.      (* InvalidRequestError *)
Definition E_PENDING := 2.  (* PendingRollbackError *)
Definition E_CLOSED := 3.   (* ResourceClosedError *)
Definition E_INTEG := 4.    (* IntegrityError *)
Definition E_OBJDEL := 5.   (* ObjectDeletedError *)
Definition E_FLUSH := 6.    (* FlushError *)
Definition E_ILLEGAL := 7.  (* IllegalStateChangeError *)
Definition E_NOHANDLE := 9. (* harness: begin_nested of that handle failed *)
Definition E_STALE := 10.   (* StaleDataError *)
Definition E_DETACHED := 11. (* DetachedInstanceError *)

Inductive res := Ok | Err (c : Z) | Unmodelled.

(* ------------------------------------------------------------------ data *)
Definition tbl := Z -> option Z.                         (* pk -> v *)
Definition tbl_empty : tbl := fun _ => None.
Definition updZ {A} (f : Z -> A) (k : Z) (v : A) : Z -> A := fun x => if Z.eqb x k then v else f x.
Definition updN {A} (f : nat -> A) (k : nat) (v : A) : nat -> A := fun x => if Nat.eqb x k then v else f x.

Record obj := mkObj {
  okey : option Z;          (* state.key (the primary key in it) *)
  oatt : bool;              (* state.session_id is this session *)
  odelf : bool;             (* state._deleted *)
  odid : option Z;          (* state.dict['id'] *)
  odv : option Z;           (* state.dict['v'] *)
  omod : bool;              (* state.modified *)
  ocid : option Z;          (* committed_state['id'] (old value) *)
  ocv : option (option Z);  (* committed_state['v']: Some None = NO_VALUE *)
  oexp : bool;              (* state.expired *)
  oin : bool                (* the state is the value stored in session.identity_map under its key *)
}.
Definition obj0 : obj := mkObj None false false None None false None None false false.
Definition o_key ob x := mkObj x (oatt ob) (odelf ob) (odid ob) (odv ob) (omod ob) (ocid ob) (ocv ob) (oexp ob) (oin ob).
Definition o_att ob x := mkObj (okey ob) x (odelf ob) (odid ob) (odv ob) (omod ob) (ocid ob) (ocv ob) (oexp ob) (oin ob).
Definition o_delf ob x := mkObj (okey ob) (oatt ob) x (odid ob) (odv ob) (omod ob) (ocid ob) (ocv ob) (oexp ob) (oin ob).
Definition o_did ob x := mkObj (okey ob) (oatt ob) (odelf ob) x (odv ob) (omod ob) (ocid ob) (ocv ob) (oexp ob) (oin ob).
Definition o_dv ob x := mkObj (okey ob) (oatt ob) (odelf ob) (odid ob) x (omod ob) (ocid ob) (ocv ob) (oexp ob) (oin ob).
Definition o_mod ob x := mkObj (okey ob) (oatt ob) (odelf ob) (odid ob) (odv ob) x (ocid ob) (ocv ob) (oexp ob) (oin ob).
Definition o_cid ob x := mkObj (okey ob) (oatt ob) (odelf ob) (odid ob) (odv ob) (omod ob) x (ocv ob) (oexp ob) (oin ob).
Definition o_cv ob x := mkObj (okey ob) (oatt ob) (odelf ob) (odid ob) (odv ob) (omod ob) (ocid ob) x (oexp ob) (oin ob).
Definition o_exp ob x := mkObj (okey ob) (oatt ob) (odelf ob) (odid ob) (odv ob) (omod ob) (ocid ob) (ocv ob) x (oin ob).
Definition o_in ob x := mkObj (okey ob) (oatt ob) (odelf ob) (odid ob) (odv ob) (omod ob) (ocid ob) (ocv ob) (oexp ob) x.

Record frame := mkFrame {
  fid : nat; fnested : bool; fstate : tstate;
  fnew : list nat; fdel : list nat; fdirty : list nat;
  fks : list (nat * (Z * Z));     (* _key_switches: object -> (original key, new key) *)
  frbexc : bool;                  (* _rollback_exception is set *)
  fconn : bool                    (* a connection / (savepoint) transaction is registered in _connections *)
}.

Record sess := mkSess {
  eoc : bool;                     (* expire_on_commit *)
  nobj : nat; objs : nat -> obj;
  snew : list nat;                (* session._new, insertion order *)
  sdel : list nat;                (* session._deleted *)
  stack : list frame;             (* session._transaction and its parents, innermost first; boundaries only *)
  handles : list (option nat);    (* harness: fid returned by the i-th begin_nested *)
  committed : tbl; work : tbl; saves : list (nat * tbl);
  nfid : nat
}.
Definition sess0 (e : bool) : sess :=
  mkSess e 0 (fun _ => obj0) [] [] [] [] tbl_empty tbl_empty [] 0.

(* field updates *)
Definition set_objs st x := mkSess (eoc st) (nobj st) x (snew st) (sdel st) (stack st) (handles st) (committed st) (work st) (saves st) (nfid st).
Definition set_nobj st x := mkSess (eoc st) x (objs st) (snew st) (sdel st) (stack st) (handles st) (committed st) (work st) (saves st) (nfid st).
Definition set_snew st x := mkSess (eoc st) (nobj st) (objs st) x (sdel st) (stack st) (handles st) (committed st) (work st) (saves st) (nfid st).
Definition set_sdel st x := mkSess (eoc st) (nobj st) (objs st) (snew st) x (stack st) (handles st) (committed st) (work st) (saves st) (nfid st).
Definition set_stack st x := mkSess (eoc st) (nobj st) (objs st) (snew st) (sdel st) x (handles st) (committed st) (work st) (saves st) (nfid st).
Definition set_handles st x := mkSess (eoc st) (nobj st) (objs st) (snew st) (sdel st) (stack st) x (committed st) (work st) (saves st) (nfid st).
Definition set_db st c w s := mkSess (eoc st) (nobj st) (objs st) (snew st) (sdel st) (stack st) (handles st) c w s (nfid st).
Definition set_nfid st x := mkSess (eoc st) (nobj st) (objs st) (snew st) (sdel st) (stack st) (handles st) (committed st) (work st) (saves st) x.
Definition set_obj st o ob := set_objs st (updN (objs st) o ob).
Definition mod_obj st o (g : obj -> obj) := set_obj st o (g (objs st o)).

Definition f_state f s := mkFrame (fid f) (fnested f) s (fnew f) (fdel f) (fdirty f) (fks f) (frbexc f) (fconn f).
Definition f_new f x := mkFrame (fid f) (fnested f) (fstate f) x (fdel f) (fdirty f) (fks f) (frbexc f) (fconn f).
Definition f_del f x := mkFrame (fid f) (fnested f) (fstate f) (fnew f) x (fdirty f) (fks f) (frbexc f) (fconn f).
Definition f_dirty f x := mkFrame (fid f) (fnested f) (fstate f) (fnew f) (fdel f) x (fks f) (frbexc f) (fconn f).
Definition f_ks f x := mkFrame (fid f) (fnested f) (fstate f) (fnew f) (fdel f) (fdirty f) x (frbexc f) (fconn f).
Definition f_rbexc f x := mkFrame (fid f) (fnested f) (fstate f) (fnew f) (fdel f) (fdirty f) (fks f) x (fconn f).
Definition f_conn f x := mkFrame (fid f) (fnested f) (fstate f) (fnew f) (fdel f) (fdirty f) (fks f) (frbexc f) x.

(* sets of object indices as lists *)
Definition mem (x : nat) (l : list nat) : bool := existsb (Nat.eqb x) l.
Definition addm (x : nat) (l : list nat) : list nat := if mem x l then l else l ++ [x].
Definition remm (x : nat) (l : list nat) : list nat := filter (fun y => negb (Nat.eqb x y)) l.
Definition isnil {A} (l : list A) : bool := match l with [] => true | _ => false end.

Fixpoint ks_find (o : nat) (l : list (nat * (Z * Z))) : option (Z * Z) :=
  match l with
  | [] => None
  | (o', p) :: r => if Nat.eqb o' o then Some p else ks_find o r
  end.
Definition ks_rem (o : nat) (l : list (nat * (Z * Z))) := filter (fun e => negb (Nat.eqb (fst e) o)) l.
Definition ks_set (o : nat) (p : Z * Z) (l : list (nat * (Z * Z))) := ks_rem o l ++ [(o, p)].

Definition all_objs (st : sess) : list nat := seq 0 (nobj st).

(* the head frame (session._transaction) *)
Definition upd_head (st : sess) (g : frame -> frame) : sess :=
  match stack st with
  | [] => st
  | f :: r => set_stack st (g f :: r)
  end.

(* ------------------------------------------------------------------ monad *)
Definition M := sess -> res * sess.
Definition ret : M := fun st => (Ok, st).
Definition raise (c : Z) : M := fun st => (Err c, st).
Definition unmodelled : M := fun st => (Unmodelled, st).
Definition lift (g : sess -> sess) : M := fun st => (Ok, g st).
Definition bind (a b : M) : M := fun st => match a st with (Ok, st') => b st' | r => r end.
Notation "a ;; b" := (bind a b) (at level 61, right associativity).
Fixpoint foldM {A} (f : A -> M) (l : list A) : M :=
  match l with
  | [] => ret
  | x :: r => f x ;; foldM f r
  end.
(* read the state *)
Definition withst (k : sess -> M) : M := fun st => k st st.

(* ------------------------------------------------------------------ identity map *)
Definition key_is (k : Z) (ob : obj) : bool := match okey ob with Some k' => Z.eqb k' k | None => false end.
(* identity_map[key] *)
Definition im_lookup (st : sess) (k : Z) : option nat :=
  find (fun o => oin (objs st o) && key_is k (objs st o)) (all_objs st).
Definition contains_state (st : sess) (o : nat) : bool := oin (objs st o).
Definition safe_discard (o : nat) (st : sess) : sess := mod_obj st o (fun ob => o_in ob false).
(* another state stored under the key of [o] *)
Definition im_other (st : sess) (o : nat) : option nat :=
  match okey (objs st o) with
  | Some k => find (fun o' => negb (Nat.eqb o' o) && oin (objs st o') && key_is k (objs st o')) (all_objs st)
  | None => None
  end.
Definition im_replace (o : nat) (st : sess) : sess :=
  let st1 := match im_other st o with Some o' => mod_obj st o' (fun ob => o_in ob false) | None => st end in
  mod_obj st1 o (fun ob => o_in ob true).
(* WeakInstanceDict.add: another live object under the same key raises *)
Definition im_add (o : nat) : M := fun st =>
  match okey (objs st o) with
  | Some _ => match im_other st o with
              | Some _ => (Err E_INV, st)
              | None => (Ok, mod_obj st o (fun ob => o_in ob true))
              end
  | None => (Unmodelled, st)
  end.

Definition any_modified (st : sess) : bool :=
  existsb (fun o => oin (objs st o) && omod (objs st o)) (all_objs st).
Definition is_clean (st : sess) : bool :=
  negb (any_modified st) && isnil (sdel st) && isnil (snew st).

(* ------------------------------------------------------------------ transactions *)
Definition new_frame (st : sess) (nested : bool) : frame :=
  mkFrame (nfid st) nested ACTIVE [] [] [] [] false false.
Definition autobegin (st : sess) : sess :=
  match stack st with
  | [] => set_nfid (set_stack st [new_frame st false]) (S (nfid st))
  | _ => st
  end.

(* _raise_for_prerequisite_state *)
Definition prereq_error (f : frame) : Z :=
  match fstate f with
  | DEACTIVE => if frbexc f then E_PENDING else E_INV
  | CLOSED => E_CLOSED
  | _ => E_INV
  end.
Definition check_prereq (f : frame) (m : meth) : option Z :=
  if prereq_ok m (fstate f) then None else Some (prereq_error f).

(* SessionTransaction._connection_for_bind on the innermost frame: the parents first *)
Fixpoint provision_fs (fs : list frame) (wk : tbl) (sv : list (nat * tbl)) : option Z * list frame * list (nat * tbl) :=
  match fs with
  | [] => (None, [], sv)
  | f :: rest =>
      match check_prereq f M_conn_for_bind with
      | Some c => (Some c, fs, sv)
      | None =>
          if fconn f then (None, fs, sv)
          else match provision_fs rest wk sv with
               | (Some c, rest', sv') => (Some c, f :: rest', sv')
               | (None, rest', sv') =>
                   (None, f_conn f true :: rest', if fnested f then (fid f, wk) :: sv' else sv')
               end
      end
  end.
Definition provision : M := fun st =>
  match provision_fs (stack st) (work st) (saves st) with
  | (Some c, fs, sv) => (Err c, set_db (set_stack st fs) (committed st) (work st) sv)
  | (None, fs, sv) => (Ok, set_db (set_stack st fs) (committed st) (work st) sv)
  end.
Definition connection : M := lift autobegin ;; provision.

(* database commands *)
Fixpoint drop_to (n : nat) (s : list (nat * tbl)) : option (list (nat * tbl)) :=
  match s with
  | [] => None
  | (m, snap) :: r => if Nat.eqb m n then Some s else drop_to n r
  end.
(* ROLLBACK TO SAVEPOINT n.  The savepoint itself survives in the database, but the only transaction that
   knows its name is DEACTIVE or closed from here on and never names it again (ids are not reused), so
   the model forgets it at once (as if RELEASE followed) *)
Definition db_rollback_to (n : nat) : M := fun st =>
  match drop_to n (saves st) with
  | Some ((m, snap) :: r) => (Ok, set_db st (committed st) snap r)
  | _ => (Unmodelled, st)
  end.
Definition db_release (n : nat) : M := fun st =>
  match drop_to n (saves st) with
  | Some (_ :: r) => (Ok, set_db st (committed st) (work st) r)
  | _ => (Unmodelled, st)
  end.
Definition db_rollback (st : sess) : sess := set_db st (committed st) (committed st) [].
Definition db_commit (st : sess) : sess := set_db st (work st) (work st) [].
Definition set_work (st : sess) (w : tbl) : sess := set_db st (committed st) w (saves st).

(* InstanceState._expire *)
Definition expire_obj (ob : obj) : obj :=
  mkObj (okey ob) (oatt ob) (odelf ob) None None false None None true (oin ob).
Definition expire (o : nat) (st : sess) : sess := mod_obj st o expire_obj.
(* InstanceState._detach_states *)
Definition detach_obj (to_transient : bool) (ob : obj) : obj :=
  o_att (if to_transient then o_delf (o_key ob None) false else ob) false.   (* to_transient: key and _deleted go *)
Definition detach (to_transient : bool) (o : nat) (st : sess) : sess := mod_obj st o (detach_obj to_transient).

(* the same change applied to every object: a Python loop over a set of states whose body touches only
   the state at hand *)
Definition map_objs (st : sess) (g : nat -> obj -> obj) : sess := set_objs st (fun x => g x (objs st x)).

(* Session._expunge_states(states): a pending state leaves session._new; a state of the identity map
   is discarded from it and from session._deleted; any other state leaves the _deleted collection of the
   current transaction; then all of them are detached *)
Definition expunge_states (l : list nat) (to_transient : bool) (st : sess) : sess :=
  let sn := snew st in
  let ob := objs st in
  let hit x := mem x l && negb (mem x sn) in
  let st1 := map_objs st (fun x o =>
               if mem x l then detach_obj to_transient (if mem x sn then o else o_in o false) else o) in
  let st2 := set_snew st1 (filter (fun x => negb (mem x l)) sn) in
  let st3 := set_sdel st2 (filter (fun x => negb (hit x && oin (ob x))) (sdel st2)) in
  upd_head st3 (fun f => f_del f (filter (fun x => negb (hit x && negb (oin (ob x)))) (fdel f))).

(* Session._update_impl(state, revert_deletion=True) *)
Definition update_impl_revert (o : nat) : M := fun st =>
  let ob := objs st o in
  match okey ob with
  | None => (Unmodelled, st)      (* the implementation raises from inside _restore_snapshot *)
  | Some _ =>
      if odelf ob && negb (oatt ob) then (Ok, st)
      else if negb (oatt ob) then (Unmodelled, st)   (* would re-attach a detached object *)
      else
        let st1 := mod_obj st o (fun ob => o_delf ob false) in
        let st2 := set_sdel st1 (remm o (sdel st1)) in
        (Ok, im_replace o st2)
  end.

(* Session._update_impl(state) from add() of an object that has an identity key *)
Definition update_impl (o : nat) : M := fun st =>
  let ob := objs st o in
  if odelf ob then (Err E_INV, st)
  else if negb (oatt ob) then (Unmodelled, st)       (* re-attaching a detached object: not modelled *)
  else
    let st1 := autobegin st in
    let st2 := set_sdel st1 (remm o (sdel st1)) in
    im_add o st2.

(* SessionTransaction._restore_snapshot on the innermost frame *)
Definition restore_ks_one (to_expunge : list nat) (ks : list (nat * (Z * Z))) (o : nat) (st : sess) : sess :=
  match ks_find o ks with
  | None => st
  | Some (old, _) =>
      if mem o to_expunge then st          (* transient again: no identity key to restore *)
      else
        let st1 := safe_discard o st in
        let st2 := mod_obj st1 o (fun ob => o_key ob (Some old)) in
        im_replace o st2
  end.
Definition restore_snapshot (dirty_only : bool) : M := fun st =>
  match stack st with
  | [] => (Unmodelled, st)
  | f :: _ =>
      let to_expunge := filter (fun o => mem o (fnew f) || mem o (snew st)) (all_objs st) in
      let st1 := expunge_states to_expunge true st in
      let st2 := fold_left (fun s o => restore_ks_one to_expunge (fks f) o s) (all_objs st1) st1 in
      let fdel2 := match stack st2 with f2 :: _ => fdel f2 | [] => [] end in
      let todel := filter (fun o => mem o fdel2 || mem o (sdel st2)) (all_objs st2) in
      match foldM update_impl_revert todel st2 with
      | (Ok, st3) =>
          if negb (isnil (sdel st3)) then (Unmodelled, st3)   (* assert not self.session._deleted *)
          else (Ok, map_objs st3 (fun x o =>
                      if oin o && (negb dirty_only || omod o || mem x (fdirty f)) then expire_obj o else o))
      | r => r
      end
  end.

(* SessionTransaction._remove_snapshot on the innermost frame (state COMMITTED) *)
Definition merge_into (p f : frame) : frame :=
  let p1 := f_new p (fold_left (fun l o => addm o l) (fnew f) (fnew p)) in
  let p2 := f_dirty p1 (fold_left (fun l o => addm o l) (fdirty f) (fdirty p1)) in
  let p3 := f_del p2 (fold_left (fun l o => addm o l) (fdel f) (fdel p2)) in
  (* the key the state had when the parent began is kept *)
  f_ks p3 (fold_left (fun l e =>
                        let old := match ks_find (fst e) l with Some (po, _) => po | None => fst (snd e) end in
                        ks_set (fst e) (old, snd (snd e)) l) (fks f) (fks p3)).
Definition remove_snapshot (st : sess) : sess :=
  match stack st with
  | [] => st
  | f :: rest =>
      if negb (fnested f) && eoc st then
        let st1 := map_objs st (fun x o =>
                     let o1 := if oin o then expire_obj o else o in
                     if mem x (fdel f) then detach_obj false o1 else o1) in
        set_stack st1 (f_del f [] :: rest)
      else if fnested f then
        match rest with
        | p :: rest' => set_stack st (f :: merge_into p f :: rest')
        | [] => st
        end
      else st
  end.

(* SessionTransaction.close on the innermost frame *)
Definition live_state (s : tstate) : bool :=
  match s with ACTIVE | PREPARED => true | _ => false end.
Definition close_head : M := fun st =>
  match stack st with
  | [] => (Unmodelled, st)
  | f :: rest =>
      let st1 := set_stack st rest in
      if fconn f && live_state (fstate f) then
        if fnested f then db_rollback_to (fid f) st1 else (Ok, db_rollback st1)
      else (Ok, st1)
  end.
Definition set_head_state (s : tstate) (st : sess) : sess := upd_head st (fun f => f_state f s).

(* ------------------------------------------------------------------ loading *)
(* InstanceState._load_expired -> loading.load_scalar_attributes: SELECT by identity key on the session's
   connection, preceded by autoflush unless called from inside the flush *)
Definition load_row (o : nat) : M := fun st =>
  let ob := objs st o in
  match okey ob with
  | None => (Unmodelled, st)
  | Some k =>
      match work st k with
      | None => (Err E_OBJDEL, st)
      | Some v =>
          let did' := match ocid ob, odid ob with None, None => Some k | _, d => d end in
          let dv' := match ocv ob, odv ob with None, None => Some v | _, d => d end in
          (Ok, set_obj st o (o_exp (o_dv (o_did ob did') dv') false))
      end
  end.

(* Session._remove_newly_deleted for one state *)
Definition remove_newly_deleted (o : nat) (st : sess) : sess :=
  let st1 := upd_head st (fun f => f_del f (addm o (fdel f))) in
  let st2 := safe_discard o st1 in
  let st3 := set_sdel st2 (remm o (sdel st2)) in
  mod_obj st3 o (fun ob => o_delf ob true).

(* ------------------------------------------------------------------ flush *)
Definition keyZ (st : sess) (o : nat) : Z := match okey (objs st o) with Some k => k | None => 0 end.
Fixpoint insert_by (st : sess) (o : nat) (l : list nat) : list nat :=
  match l with
  | [] => [o]
  | x :: r => if Z.leb (keyZ st o) (keyZ st x) then o :: l else x :: insert_by st o r
  end.
Definition sort_by_key (st : sess) (l : list nat) : list nat := fold_right (insert_by st) [] l.

Definition load_in_flush (o : nat) : M := fun st =>
  if negb (oatt (objs st o)) then (Err E_DETACHED, st) else load_row o st.

(* persistence._organize_states_for_save for one pending state: the identity-map conflict check with
   UOWTransaction.was_already_deleted *)
Definition organize_pending (deleted : list nat) (o : nat) : M := fun st =>
  match odid (objs st o) with
  | None => (Unmodelled, st)                 (* a pending object without a primary key value *)
  | Some pk =>
      match im_lookup st pk with
      | None => (Ok, st)
      | Some ex =>
          if oexp (objs st ex) then
            match load_in_flush ex st with
            | (Ok, st1) => if mem ex deleted then (Unmodelled, st1) else (Ok, st1)     (* row switch *)
            | (Err c, st1) =>
                if Z.eqb c E_OBJDEL then (Ok, remove_newly_deleted ex st1) else (Err c, st1)
            | r => r
            end
          else if mem ex deleted then (Unmodelled, st) else (Ok, st)
      end
  end.

(* the SET clause of the UPDATE of one state (persistence._collect_update_commands) *)
Definition upd_sets_id (ob : obj) : bool :=
  match ocid ob, odid ob with Some old, Some new => negb (Z.eqb old new) | _, _ => false end.
Definition upd_sets_v (ob : obj) : bool :=
  match ocv ob with
  | Some old => negb (match old, odv ob with Some a, Some b => Z.eqb a b | _, _ => false end)
  | None => false
  end.
(* the primary key that locates the row: the committed value *)
Definition where_pk (ob : obj) : option Z := match ocid ob with Some old => Some old | None => odid ob end.
Definition needs_pk_load (ob : obj) : bool := match ocid ob, odid ob with None, None => true | _, _ => false end.

(* one UPDATE (persistence._collect_update_commands + _emit_update_statements for one state) *)
Definition do_update (o : nat) : M := fun st =>
  let ob := objs st o in
  let set_id := upd_sets_id ob in
  let set_v := upd_sets_v ob in
  if negb (set_id || set_v) then (Ok, st)
  else
    (* the row is located by the committed primary key; an expired one is loaded (PASSIVE_OFF) *)
    match (if needs_pk_load ob then load_in_flush o st else (Ok, st)) with
    | (Ok, st1) =>
        let ob1 := objs st1 o in
        match where_pk ob1 with
        | None => (Unmodelled, st1)
        | Some wh =>
            match work st1 wh with
            | None => (Err E_STALE, st1)
            | Some oldv =>
                let newpk := if set_id then match odid ob1 with Some n => n | None => wh end else wh in
                let newv := if set_v then match odv ob1 with Some v => v | None => oldv end else oldv in
                if set_v && match odv ob1 with None => true | _ => false end then (Unmodelled, st1)
                else if negb (Z.eqb newpk wh) && match work st1 newpk with Some _ => true | None => false end
                then (Err E_INTEG, st1)
                else (Ok, set_work st1 (updZ (updZ (work st1) wh None) newpk (Some newv)))
            end
        end
    | r => r
    end.

Definition do_insert (o : nat) : M := fun st =>
  let ob := objs st o in
  match odid ob, odv ob with
  | Some pk, Some v =>
      match work st pk with
      | Some _ => (Err E_INTEG, st)
      | None => (Ok, set_work st (updZ (work st) pk (Some v)))
      end
  | _, _ => (Unmodelled, st)
  end.

Definition do_delete (o : nat) : M := fun st =>
  let ob := objs st o in
  match (if needs_pk_load ob then load_in_flush o st else (Ok, st)) with
  | (Ok, st1) =>
      match where_pk (objs st1 o) with
      | None => (Unmodelled, st1)
      | Some pk => (Ok, set_work st1 (updZ (work st1) pk None))   (* 0 rows matched: only a warning *)
      end
  | r => r
  end.

(* the statements of one flush, in emission order *)
Inductive stmt := SUpd (o : nat) | SIns (o : nat) | SDel (o : nat).
Definition do_stmt (s : stmt) : M :=
  match s with SUpd o => do_update o | SIns o => do_insert o | SDel o => do_delete o end.
Definition stmts_of (st : sess) (new dirty deleted : list nat) : list stmt :=
  map SUpd (sort_by_key st dirty) ++ map SIns new ++ map SDel (sort_by_key st deleted).

(* Session._register_persistent for one state (identity key, key switch, identity map) *)
Definition register_one (o : nat) : M := fun st =>
  let ob := objs st o in
  match odid ob with
  | None => (Unmodelled, st)
  | Some ik =>
      match okey ob with
      | None => (Ok, im_replace o (mod_obj st o (fun ob => o_key ob (Some ik))))
      | Some k =>
          if Z.eqb k ik then (Ok, im_replace o st)
          else
            let st1 := safe_discard o st in
            let st2 := upd_head st1 (fun f =>
                         let orig := match ks_find o (fks f) with Some (old, _) => old | None => k end in
                         f_ks f (ks_set o (orig, ik) (fks f))) in
            (Ok, im_replace o (mod_obj st2 o (fun ob => o_key ob (Some ik))))
      end
  end.
(* InstanceState._commit_all_states + _register_altered + removal from session._new *)
Definition commit_obj (ob : obj) : obj :=
  mkObj (okey ob) (oatt ob) (odelf ob) (odid ob) (odv ob) false None None false (oin ob).
Definition commit_one (o : nat) (st : sess) : sess :=
  let st1 := mod_obj st o commit_obj in
  if mem o (snew st1) then upd_head st1 (fun f => f_new f (addm o (fnew f)))
  else upd_head st1 (fun f => f_dirty f (addm o (fdirty f))).

Definition optZ_eqb (x y : option Z) : bool :=
  match x, y with Some a, Some b => Z.eqb a b | None, None => true | _, _ => false end.
Fixpoint nodupZ (l : list (option Z)) : bool :=
  match l with
  | [] => true
  | x :: r => negb (existsb (optZ_eqb x) r) && nodupZ r
  end.

(* UOWTransaction.finalize_flush_changes *)
Definition finalize (new dirty deleted : list nat) : M :=
  lift (fun st => fold_left (fun s o => remove_newly_deleted o s) deleted st) ;;
  withst (fun st0 =>
    let other := filter (fun o => mem o new || mem o dirty) (all_objs st0) in
    if negb (nodupZ (map (fun o => odid (objs st0 o)) other)) then unmodelled
    else foldM register_one other ;;
         lift (fun st => fold_left (fun s o => commit_one o s) other st) ;;
         lift (fun st => set_snew st (filter (fun o => negb (mem o other)) (snew st)))).

Definition head_nested (st : sess) : bool := match stack st with f :: _ => fnested f | [] => false end.

(* does the unit of work emit a statement for this entry: an UPDATE only with a net change *)
Definition emits (s : stmt) (st : sess) : bool :=
  match s with
  | SUpd o => upd_sets_id (objs st o) || upd_sets_v (objs st o)
  | _ => true
  end.
(* will this entry first SELECT the primary key of an expired object *)
Definition needs_load (st : sess) (s : stmt) : bool :=
  match s with
  | SUpd o => emits s st && needs_pk_load (objs st o)
  | SDel o => needs_pk_load (objs st o)
  | SIns _ => false
  end.
(* persistence collects the parameters of a whole batch (all DELETEs; the UPDATEs with the same SET clause,
   and one more) before it executes the batch, so the primary-key SELECTs of later entries may come
   BEFORE a failing statement.  After a failure inside a savepoint (where unflushed objects are not
   expired) that order would be visible: not modelled. *)
Definition fail_at (c : Z) (rest : list stmt) : M := fun st =>
  if head_nested st && existsb (needs_load st) rest then (Unmodelled, st) else (Err c, st).

(* the statements of a flush with a crash oracle (C32; [k] = None: no injected failure).  [k] = Some n:
   n more INSERT/UPDATE/DELETE succeed, the next one is reported as failed by the driver (error [c]) after
   it ran.  The rowcount check (StaleDataError) comes after the driver call. *)
Fixpoint exec_f (k : option nat) (c : Z) (l : list stmt) : M := fun st =>
  match l with
  | [] => (Ok, st)
  | s :: r =>
      let e := emits s st in
      match do_stmt s st with
      | (Ok, st') =>
          if e then match k with
                    | Some O => fail_at c r st'
                    | Some (S k') => exec_f (Some k') c r st'
                    | None => exec_f None c r st'
                    end
          else exec_f k c r st'
      | (Err c', st') =>
          if e && Z.eqb c' E_STALE && match k with Some O => true | _ => false end then fail_at c r st'
          else fail_at c' r st'
      | x => x
      end
  end.

(* UOWTransaction.execute + finalize inside the subtransaction *)
Definition flush_exec (new dirty deleted : list nat) : M :=
  provision ;;
  foldM (organize_pending deleted) new ;;
  withst (fun st0 => exec_f None 0 (stmts_of st0 new dirty deleted)) ;;
  finalize new dirty deleted.

(* the error path of Session._flush: transaction.rollback(_capture_exception=True) of the subtransaction *)
Definition head_db_rollback : M := fun st =>
  match stack st with
  | [] => (Unmodelled, st)
  | f :: _ => if fconn f then (if fnested f then db_rollback_to (fid f) st else (Ok, db_rollback st)) else (Ok, st)
  end.
Definition flush_fail : M :=
  head_db_rollback ;;
  lift (set_head_state DEACTIVE) ;;
  withst (fun st => restore_snapshot (head_nested st)) ;;
  withst (fun st => if is_clean st then ret else restore_snapshot (head_nested st)) ;;
  lift (fun st => upd_head st (fun f => f_rbexc f true)).

(* Session.flush / _flush; [body] is what runs inside the subtransaction (flush_exec; a fault-injecting
   variant for C32) *)
Definition flush_with (body : list nat -> list nat -> list nat -> M) : M := fun st =>
  if is_clean st then (Ok, st)
  else
    let dirty0 := filter (fun o => oin (objs st o) && omod (objs st o)) (all_objs st) in
    let deleted := sdel st in
    let new := snew st in
    let dirty := filter (fun o => negb (mem o deleted)) dirty0 in
    let st1 := autobegin st in
    match stack st1 with
    | [] => (Unmodelled, st1)
    | f :: _ =>
        match check_prereq f M_begin with
        | Some c => (Err c, st1)
        | None =>
            match body new dirty deleted st1 with
            | (Ok, st2) => (Ok, st2)
            | (Err c, st2) =>
                match flush_fail st2 with
                | (Ok, st3) => (Err c, st3)
                | r => r
                end
            | r => r
            end
        end
    end.
Definition flush : M := flush_with flush_exec.

(* refresh of expired attributes outside the flush: autoflush, connection, SELECT *)
Definition load_row_attached (o : nat) : M := fun st =>
  if oatt (objs st o) then load_row o st else (Unmodelled, st).   (* the autoflush does not detach objects *)
Definition load_expired (o : nat) : M := fun st =>
  if negb (oatt (objs st o)) then (Err E_DETACHED, st)
  else (flush ;; connection ;; load_row_attached o) st.

(* ------------------------------------------------------------------ commit / rollback *)
Fixpoint flush_loop (n : nat) : M := fun st =>
  match n with
  | O => (Err E_FLUSH, st)
  | S n' => if is_clean st then (Ok, st) else (flush ;; flush_loop n') st
  end.

Definition check_moves (m : meth) (s : tstate) : M :=
  if Z.eqb (moves_to m) (tstate_code s) then ret else raise E_ILLEGAL.

(* SessionTransaction._prepare_impl on the innermost frame *)
Definition prepare_head : M := fun st =>
  match stack st with
  | [] => (Unmodelled, st)
  | f :: _ =>
      if tstate_eqb (fstate f) PREPARED then (Ok, st)
      else match check_prereq f M_prepare with
           | Some c => (Err c, st)
           | None => (flush_loop 100 ;; lift (set_head_state PREPARED) ;; check_moves M_prepare PREPARED) st
           end
  end.
Definition head_db_commit : M := fun st =>
  match stack st with
  | [] => (Unmodelled, st)
  | f :: _ => if fconn f then (if fnested f then db_release (fid f) st else (Ok, db_commit st)) else (Ok, st)
  end.
(* SessionTransaction.commit of the innermost frame (not _to_root) *)
Definition commit_head : M := fun st =>
  match stack st with
  | [] => (Unmodelled, st)
  | f :: _ =>
      match check_prereq f M_commit with
      | Some c => (Err c, st)
      | None =>
          (prepare_head ;; head_db_commit ;; lift (set_head_state COMMITTED) ;; lift remove_snapshot ;;
           close_head ;; check_moves M_commit CLOSED) st
      end
  end.

Definition head_is (n : nat) (st : sess) : bool :=
  match stack st with f :: _ => Nat.eqb (fid f) n | [] => false end.
Definition find_frame (n : nat) (st : sess) : option frame := find (fun f => Nat.eqb (fid f) n) (stack st).

(* commit the frames above [n], innermost first, then [n] *)
Fixpoint commit_upto (fuel : nat) (n : nat) : M := fun st =>
  match fuel with
  | O => (Unmodelled, st)
  | S fuel' => if head_is n st then commit_head st else (commit_head ;; commit_upto fuel' n) st
  end.
(* handle.commit() *)
Definition t_commit (n : nat) : M := fun st =>
  match find_frame n st with
  | None => (Err E_CLOSED, st)                            (* a frame that left the stack is CLOSED *)
  | Some f =>
      match check_prereq f M_commit with
      | Some c => (Err c, st)
      | None =>
          if tstate_eqb (fstate f) PREPARED then commit_upto (S (length (stack st))) n st
          else match check_prereq f M_prepare with
               | Some c => (Err c, st)
               | None => commit_upto (S (length (stack st))) n st
               end
      end
  end.
(* Session.commit(): commit(_to_root=True) from the innermost frame *)
Fixpoint commit_all (fuel : nat) : M := fun st =>
  match fuel with
  | O => (Unmodelled, st)
  | S fuel' => match stack st with [] => (Ok, st) | _ => (commit_head ;; commit_all fuel') st end
  end.

(* SessionTransaction.rollback of frame [n] (the frames above it are only closed) *)
Fixpoint close_above (fuel : nat) (n : nat) : M := fun st =>
  match fuel with
  | O => (Unmodelled, st)
  | S fuel' => if head_is n st then (Ok, st) else (close_head ;; close_above fuel' n) st
  end.
Definition rollback_head : M := fun st =>
  match stack st with
  | [] => (Unmodelled, st)
  | f :: _ =>
      ((if live_state (fstate f) then
          head_db_rollback ;; lift (set_head_state DEACTIVE) ;; restore_snapshot (fnested f)
        else ret) ;;
       withst (fun st1 => if is_clean st1 then ret else restore_snapshot (fnested f)) ;;
       close_head ;; check_moves M_rollback CLOSED) st
  end.
Definition t_rollback (n : nat) : M := fun st =>
  match find_frame n st with
  | None => (Err E_CLOSED, st)
  | Some f =>
      match check_prereq f M_rollback with
      | Some c => (Err c, st)
      | None => (close_above (S (length (stack st))) n ;; rollback_head) st
      end
  end.
(* Session.rollback(): rollback(_to_root=True) from the innermost frame *)
Fixpoint rollback_all (fuel : nat) : M := fun st =>
  match fuel with
  | O => (Unmodelled, st)
  | S fuel' =>
      match stack st with
      | [] => (Ok, st)
      | f :: _ =>
          match check_prereq f M_rollback with
          | Some c => (Err c, st)
          | None => (rollback_head ;; rollback_all fuel') st
          end
      end
  end.
Fixpoint close_all (fuel : nat) : M := fun st =>
  match fuel with
  | O => (Unmodelled, st)
  | S fuel' => match stack st with [] => (Ok, st) | _ => (close_head ;; close_all fuel') st end
  end.

(* ------------------------------------------------------------------ operations *)
Inductive op :=
  | ONew (pk v : Z) | OAdd (o : nat) | OSetV (o : nat) (v : Z) | OSetPK (o : nat) (pk : Z) | ODel (o : nat)
  | OFlush | ONested | OCommit | ORollback | OTCommit (h : nat) | OTRollback (h : nat) | OClose | OLoad (o : nat).

(* InstanceState._modified_event: the first modification of an attached object autobegins *)
Definition modified_event (o : nat) (st : sess) : sess :=
  let ob := objs st o in
  if omod ob then st
  else
    let has_modified := oin ob && any_modified st in
    let st1 := mod_obj st o (fun ob => o_mod ob true) in
    if oatt ob && negb has_modified then autobegin st1 else st1.

Definition save_or_update (o : nat) : M := fun st =>
  match okey (objs st o) with
  | None =>
      let st1 := autobegin st in
      let st2 := if mem o (snew st1) then st1 else set_snew st1 (snew st1 ++ [o]) in
      (Ok, mod_obj st2 o (fun ob => o_att ob true))
  | Some _ => update_impl o st
  end.

Definition new_obj (pk v : Z) : obj := mkObj None false false (Some pk) (Some v) true None None false false.

Definition do_op (p : op) : M := fun st =>
  match p with
  | ONew pk v =>
      let o := nobj st in
      save_or_update o (set_nobj (set_obj st o (new_obj pk v)) (S o))
  | OAdd o => if Nat.ltb o (nobj st) then save_or_update o st else (Unmodelled, st)
  | OSetV o v =>
      if negb (Nat.ltb o (nobj st)) then (Unmodelled, st) else
      let st1 := mod_obj st o (fun ob =>
                   o_dv (o_cv ob (match ocv ob with None => Some (odv ob) | c => c end)) (Some v)) in
      (Ok, modified_event o st1)
  | OSetPK o pk =>
      if negb (Nat.ltb o (nobj st)) then (Unmodelled, st) else
      ((if needs_pk_load (objs st o) then load_expired o else ret) ;;    (* active history: old value loaded *)
       lift (fun st1 =>
         modified_event o (mod_obj st1 o (fun ob =>
           o_did (o_cid ob (match ocid ob with None => odid ob | c => c end)) (Some pk))))) st
  | ODel o =>
      if negb (Nat.ltb o (nobj st)) then (Unmodelled, st) else
      let ob := objs st o in
      match okey ob with
      | None => (Err E_INV, st)
      | Some _ =>
          if negb (oatt ob) then (Unmodelled, st)       (* delete() of a detached object re-attaches it *)
          else
            let st1 := autobegin st in
            if mem o (sdel st1) then (Ok, st1)
            else (im_add o ;; lift (fun s => set_sdel s (sdel s ++ [o]))) st1
      end
  | OFlush => flush st
  | ONested =>
      let st0 := set_handles st (handles st ++ [None]) in
      let st1 := autobegin st0 in
      match stack st1 with
      | [] => (Unmodelled, st1)
      | p :: _ =>
          match check_prereq p M_begin with
          | Some c => (Err c, st1)
          | None =>
              (flush ;;
               lift (fun s =>
                 let f := new_frame s true in
                 set_handles (set_nfid (set_stack s (f :: stack s)) (S (nfid s)))
                             (removelast (handles s) ++ [Some (fid f)]))) st1
          end
      end
  | OCommit => commit_all (S (S (length (stack st)))) (autobegin st)
  | ORollback => rollback_all (S (length (stack st))) st
  | OTCommit h =>
      match nth_error (handles st) h with
      | Some (Some n) => t_commit n st
      | Some None => (Err E_NOHANDLE, st)
      | None => (Unmodelled, st)
      end
  | OTRollback h =>
      match nth_error (handles st) h with
      | Some (Some n) => t_rollback n st
      | Some None => (Err E_NOHANDLE, st)
      | None => (Unmodelled, st)
      end
  | OClose =>
      (* Session.close -> expunge_all, then close every transaction innermost first *)
      let sn := snew st in
      (* expunge_all: the identity map, session._new and the attached objects in the deleted state that the
         open transactions refer to *)
      let dl x o := existsb (fun f => mem x (fdel f)) (stack st) && odelf o && oatt o in
      let st1 := map_objs st (fun x o => if oin o || mem x sn || dl x o then detach_obj false (o_in o false) else o) in
      let st2 := set_sdel (set_snew st1 []) [] in
      close_all (S (length (stack st2))) st2
  | OLoad o =>
      if negb (Nat.ltb o (nobj st)) then (Unmodelled, st) else
      match odv (objs st o) with
      | Some _ => (Ok, st)
      | None => load_expired o st
      end
  end.

(* a history: the result of every operation and the state after it; the run stops at the first
   operation the model does not cover *)
Fixpoint run (st : sess) (ps : list op) : list (res * sess) :=
  match ps with
  | [] => []
  | p :: r => match do_op p st with
              | (Unmodelled, st') => [(Unmodelled, st')]
              | (x, st') => (x, st') :: run st' r
              end
  end.
