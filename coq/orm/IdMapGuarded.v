(* C34 - key_consistent in both directions on the guarded region: as long as the ghost flag [bad] has
   not been raised (no identity_map.replace() evicted another object, _restore_snapshot re-mapped no
   unattached state, was_already_deleted() never fired, Session.delete() was never given a state carrying
   the _deleted flag), every persistent object is the mapped one and everything mapped is attached *)
From Coq Require Import List ZArith Bool Arith Lia.
Import ListNotations.
From SAV.orm Require Import IdMap IdMapSpec IdMapLemmas IdMapProofs.
Open Scope Z_scope.

Definition act (t : option bool) : bool := match t with Some true => false | _ => true end.
Definition kb (active : bool) (o : obj) : bool :=
  implb (persistent o) (iimap o) && implb (iimap o) (osess o) && implb (inew o) (osess o) &&
  implb (isdel o) (iimap o) &&
  implb (active && itdel o) (negb (iimap o) && odel o && is_some (okey o)).
Definition jk (t : option bool) (o : obj) : bool := jb o && kb (act t) o.
Definition G (st : state) : Prop := bad st = false -> SP (fun _ => jk (tx st)) st.

Ltac kcase := unfold jk, kb, jb, persistent; ocase.
Ltac kcase2 := unfold jk, kb, jb, persistent; ocase2.
(* the transaction status matters only through [act] *)
Ltac tcase := intros; unfold jk; repeat match goal with t : option bool |- _ => generalize (act t); clear t; intros [] end; kcase.

Lemma jk_deact : forall t o, jk t o = true -> jk (Some true) o = true.
Proof. intros t; unfold jk; generalize (act t); clear t; intros []; kcase. Qed.
Lemma jk_begin : forall o, jk None o = true -> jk (Some false) o = true.
Proof. kcase. Qed.

Lemma G_pass : forall f st, Inv st -> G st ->
  (forall k o, nth_error (objs st) k = Some o -> jk (tx st) o = true -> jk (tx st) (f k o) = true) ->
  G (app_all f st).
Proof.
  intros f st HI HG Hf Hb k o' Hk. simpl in Hb. apply app_all_inv_nth in Hk as [o [Hk ->]].
  simpl. apply Hf; auto. apply (HG Hb k o Hk).
Qed.
Lemma G_pass_all : forall g st, Inv st -> G st -> (forall o, jk (tx st) o = true -> jk (tx st) (g o) = true) ->
  G (app_all (fun _ => g) st).
Proof. intros. apply G_pass; auto. Qed.
Lemma G_flag_bad : forall b st, G st -> G (flag_bad b st).
Proof. intros b st HG Hb. simpl in Hb. apply orb_false_elim in Hb as [Hb _]. exact (HG Hb). Qed.
Lemma G_set_flushed : forall b st, G (set_flushed b st) <-> G st.
Proof. intros. unfold G, SP. simpl. tauto. Qed.
Lemma G_deact : forall st, G st -> G (set_tx (Some true) st).
Proof. intros st HG Hb k o Hk. simpl in *. eapply jk_deact. apply (HG Hb k o Hk). Qed.
Lemma G_autobegin : forall st, G st -> G (autobegin st).
Proof. intros st HG. unfold autobegin. destruct (tx st) eqn:E; auto.
  intros Hb k o Hk. simpl in *. apply jk_begin. specialize (HG Hb k o Hk). simpl in HG. rewrite E in HG. exact HG. Qed.

Lemma evicts_false : forall i k st j o, evicts i k st = false -> nth_error (objs st) j = Some o -> j <> i ->
  iimap o && okey_eqb (okey o) (Some k) = false.
Proof.
  intros i k st j o He Hj Hn. destruct (iimap o && okey_eqb (okey o) (Some k)) eqn:E; auto.
  exfalso. unfold evicts in He. assert (Hin : In j (all_idx st)).
  { apply in_seq. split; [lia|]. simpl. apply nth_error_Some. congruence. }
  assert (Ht : existsb (fun j0 => negb (Nat.eqb j0 i) && iimap (get st j0) && okey_eqb (okey (get st j0)) (Some k)) (all_idx st) = true).
  { apply existsb_exists. exists j. split; auto. rewrite (get_nth _ _ _ Hj).
    rewrite (proj2 (Nat.eqb_neq j i) Hn). simpl. exact E. }
  congruence.
Qed.

Lemma G_claim : forall i k g st, Inv st -> G st ->
  (forall o, nth_error (objs st) i = Some o -> jk (tx st) o = true -> jk (tx st) (g o) = true) ->
  G (app_claim i k g st).
Proof.
  intros i k g st HI HG Hg Hb j o' Hj. unfold app_claim in *. simpl in Hb. apply orb_false_elim in Hb as [Hb He].
  simpl in Hj. apply app_all_inv_nth in Hj as [o [Hj ->]]. simpl. unfold claiming.
  destruct (Nat.eqb_spec j i); [subst; apply Hg; auto; apply (HG Hb i o Hj)|].
  rewrite (evicts_false i k st j o He Hj n). apply (HG Hb j o Hj).
Qed.

Lemma G_add_obj : forall o st, G st -> jk (tx st) o = true -> G (add_obj o st).
Proof. intros o st HG Ho Hb k x Hk. simpl in Hb. apply add_obj_nth in Hk as [[Hk _]|[_ ->]]; auto. apply (HG Hb k x Hk). Qed.

(* ---- add / delete --------------------------------------------------------------------------------- *)
Lemma autobegin_tx : forall st, tx (autobegin st) = match tx st with None => Some false | t => t end.
Proof. intros. unfold autobegin. destruct (tx st) eqn:E; simpl; auto. Qed.

Lemma save_impl_G : forall i st, Inv st -> G st -> G (fst (save_impl i st)).
Proof.
  intros i st HI HG. unfold save_impl. destruct (okey (get st i)) eqn:E; simpl; auto.
  apply G_pass; [apply autobegin_inv; auto|apply G_autobegin; auto|].
  intros k o Hk Hj. unfold only. destruct (Nat.eqb_spec k i); [subst|auto].
  assert (Ko : okey o = None) by (rewrite <- (get_nth _ _ _ Hk), autobegin_get; exact E).
  revert Hj Ko. generalize (tx (autobegin st)). intros t0; unfold jk; generalize (act t0); clear t0; intros []; kcase.
Qed.

Lemma update_impl_G : forall i st, Inv st -> G st -> G (fst (update_impl i st)).
Proof.
  intros i st HI HG. unfold update_impl. destruct (okey (get st i)) as [k|] eqn:E; simpl; auto.
  destruct (odel (get st i)) eqn:Ed; simpl; auto.
  destruct (conflict i (autobegin st)); simpl; [apply G_autobegin; auto|].
  apply G_pass; [apply autobegin_inv; auto|apply G_autobegin; auto|].
  intros j o Hj Hjk. unfold only. destruct (Nat.eqb_spec j i); [subst|auto].
  assert (Ko : okey o = Some k /\ odel o = false).
  { rewrite <- (get_nth _ _ _ Hj), autobegin_get. auto. }
  destruct Ko as [K1 K2]. revert Hjk K1 K2. generalize (tx (autobegin st)). intros t0; unfold jk; generalize (act t0); clear t0; intros []; kcase.
Qed.

Lemma delete_impl_G : forall i st, Inv st -> G st -> G (fst (delete_impl i st)).
Proof.
  intros i st HI HG. unfold delete_impl. destruct (okey (get st i)) as [k|] eqn:E; simpl; auto.
  destruct (isdel (get st i)); simpl; [apply G_autobegin; auto|].
  destruct (conflict i (autobegin st)); simpl; [apply G_autobegin; auto|].
  intros Hb. simpl in Hb. apply orb_false_elim in Hb as [Hb Hd]. simpl.
  assert (HG' : G (app_all (only i (fun o => set_isdel true (set_sess true (set_iimap true o)))) (autobegin st))).
  { apply G_pass; [apply autobegin_inv; auto|apply G_autobegin; auto|].
    intros j o Hj Hjk. unfold only. destruct (Nat.eqb_spec j i); [subst|auto].
    assert (Ko : okey o = Some k /\ odel o = false).
    { rewrite <- (get_nth _ _ _ Hj), autobegin_get. auto. }
    destruct Ko as [K1 K2]. revert Hjk K1 K2. generalize (tx (autobegin st)). intros t0; unfold jk; generalize (act t0); clear t0; intros []; kcase. }
  exact (HG' Hb).
Qed.

Lemma revert_impl_G : forall i st, tx st = Some true -> Inv st -> G st -> G (fst (revert_impl i st)).
Proof.
  intros i st Ht HI HG. unfold revert_impl. destruct (okey (get st i)) as [k|] eqn:E; simpl; auto.
  destruct (odel (get st i) && negb (osess (get st i))); simpl; auto.
  apply G_claim; auto. intros o Hk Hj.
  assert (Ko : okey o = Some k) by (rewrite <- (get_nth _ _ _ Hk); exact E).
  rewrite Ht in *. revert Hj Ko. kcase.
Qed.

(* ---- restore (the transaction has been marked deactive) ----------------------------------------------- *)
Definition detached_new (st : state) : Prop := SP (fun _ o => negb (inew o) && implb (itnew o) (negb (osess o))) st.

Lemma restore_pass1_G : forall o, jk (Some true) o = true ->
  jk (Some true) (restore_expunge_obj true o) = true.
Proof. kcase. Qed.
Lemma restore_pass1_dn : forall h st, detached_new (app_all (fun _ => restore_expunge_obj h) st).
Proof. intros h st k o' Hk. apply app_all_inv_nth in Hk as [o [Hk ->]]. destruct h; ocase. Qed.

Lemma unswitch_one_G : forall i st, tx st = Some true -> Inv st -> G st /\ detached_new st ->
  G (unswitch_one i st) /\ detached_new (unswitch_one i st).
Proof.
  intros i st Ht HI [HG HN]. unfold unswitch_one. destruct (oksw (get st i)) as [old|]; auto.
  destruct (itnew (get st i)) eqn:Etn; [split; auto|].
  split.
    + intros Hb. simpl in Hb. apply orb_false_elim in Hb as [Hb Hs]. apply negb_false_iff in Hs.
      assert (HG' : G (app_claim i old (fun o => set_iimap true (set_key (Some old) o)) st)).
      { apply G_claim; auto. intros o Hk Hj.
        assert (So : osess o = true) by (rewrite <- (get_nth _ _ _ Hk); exact Hs).
        pose proof (HN i o Hk) as Hn. simpl in Hn. rewrite Ht in *. revert Hj So Hn. kcase. }
      exact (HG' Hb).
    + intros k o' Hk. simpl in Hk. apply app_all_inv_nth in Hk as [o [Hk ->]]. unfold claiming.
      pose proof (HN k o Hk) as Hn. simpl in Hn. destruct (Nat.eqb_spec k i).
      * subst. assert (Tn : itnew o = false) by (rewrite <- (get_nth _ _ _ Hk); exact Etn). revert Hn Tn. ocase.
      * destruct (iimap o && okey_eqb (okey o) (Some old)); auto.
Qed.

Lemma unswitch_one_tx : forall i st, tx (unswitch_one i st) = tx st.
Proof. intros. unfold unswitch_one. destruct (oksw (get st i)); auto. destruct (itnew (get st i)); reflexivity. Qed.
Lemma revert_impl_tx : forall i st, tx (fst (revert_impl i st)) = tx st.
Proof. intros. unfold revert_impl. destruct (okey (get st i)); auto. destruct (odel (get st i) && _); reflexivity. Qed.

Lemma restore_snapshot_G : forall st, tx st = Some true -> Inv st -> G st -> G (fst (restore_snapshot st)).
Proof.
  intros st Ht HI HG. unfold restore_snapshot.
  assert (Hh : has_tx st = true) by (unfold has_tx; rewrite Ht; reflexivity). rewrite Hh.
  set (st1 := app_all (fun _ => restore_expunge_obj true) st).
  assert (I1 : Inv st1) by (apply pass_mono_all; auto; apply mono_restore_expunge).
  assert (G1 : G st1).
  { apply G_pass_all; auto. rewrite Ht. apply restore_pass1_G. }
  assert (N1 : detached_new st1) by apply restore_pass1_dn.
  set (P := fun s => tx s = Some true /\ Inv s /\ G s /\ detached_new s).
  set (st2 := fold_left (fun st i => unswitch_one i st) (all_idx st1) st1).
  assert (H2 : P st2).
  { apply (fold_left_inv P); [|unfold P; auto].
    intros i s [T [I [Gs N]]]. unfold P. rewrite unswitch_one_tx. split; auto. split.
    - apply (unswitch_one_inv i s (conj I (fun k o Hk => proj1 (andb_prop _ _ (N k o Hk))))).
    - apply unswitch_one_G; auto. }
  destruct H2 as [T2 [I2 [G2 _]]].
  set (Q := fun s => tx s = Some true /\ Inv s /\ G s).
  pose proof (fold_err_inv Q (fun i st => if itdel (get st i) || isdel (get st i) then revert_impl i st else (st, 0))
                (all_idx st2) st2) as H3.
  destruct (fold_err _ (all_idx st2) st2) as [st3 c]. simpl in H3.
  assert (H3' : Q st3).
  { apply H3; [|unfold Q; auto]. intros i s [T [I Gs]]. unfold Q.
    destruct (itdel (get s i) || isdel (get s i)); auto. rewrite revert_impl_tx.
    split; auto. split; [apply revert_impl_inv; auto|apply revert_impl_G; auto]. }
  destruct H3' as [T3 [I3 G3]].
  destruct (Z.eqb c 0); simpl; auto.
  apply G_pass_all; auto. rewrite T3. kcase.
Qed.

Lemma end_tx_G : forall st, Inv st -> G st -> G (end_tx st).
Proof.
  intros st HI HG Hb k o' Hk. simpl in *. apply app_all_inv_nth in Hk as [o [Hk ->]].
  specialize (HG Hb k o Hk). simpl in HG. revert HG. generalize (tx st). intros t0; unfold jk; generalize (act t0); clear t0; intros []; kcase.
Qed.

(* ---- flush ------------------------------------------------------------------------------------------------ *)
Lemma organize_one_same : forall e d rws st p,
  bad (fres_state (fst (organize_one e d rws st p))) = false ->
  objs (fres_state (fst (organize_one e d rws st p))) = objs st /\ bad st = false /\
  tx (fres_state (fst (organize_one e d rws st p))) = tx st.
Proof.
  intros e d rws st p. unfold organize_one. destruct (holder _ st); simpl; auto.
  destruct (eexp e n && eidexp e n && negb (osess (get st n))); simpl; auto.
  destruct (eexp e n && negb (memz (pk (get st p)) rws)); simpl; auto.
  intro H. apply orb_false_elim in H as [_ H]. discriminate.
Qed.

Lemma organize_one_G : forall e d rws st p, G st -> G (fres_state (fst (organize_one e d rws st p))).
Proof.
  intros. unfold organize_one. destruct (holder _ st); simpl; auto.
  destruct (eexp e n && eidexp e n && negb (osess (get st n))); simpl; auto.
  destruct (eexp e n && negb (memz (pk (get st p)) rws)); simpl; auto.
  intro Hb. simpl in Hb. apply orb_false_elim in Hb as [_ Hb]. discriminate.
Qed.
Lemma organize_G : forall e d rws ps st, G st -> G (fres_state (fst (organize e d rws st ps))).
Proof.
  induction ps as [|p r IH]; intros st HG; simpl; auto.
  destruct (inew (get st p)); auto.
  pose proof (organize_one_G e d rws st p HG) as H1.
  destruct (organize_one e d rws st p) as [[st1 rw1|st1 c] rs]; simpl in *; auto.
  specialize (IH st1 H1). destruct (organize e d rws st1 r) as [res rsw]. simpl in *. auto.
Qed.
Lemma organize_one_bad_mono : forall e d rws st p,
  bad (fres_state (fst (organize_one e d rws st p))) = false -> bad st = false.
Proof. intros e d rws st p H. apply organize_one_same in H. tauto. Qed.
Lemma organize_bad_mono : forall e d rws ps st,
  bad (fres_state (fst (organize e d rws st ps))) = false -> bad st = false.
Proof.
  induction ps as [|p r IH]; intros st Hb; simpl in *; auto.
  destruct (inew (get st p)); auto.
  pose proof (organize_one_bad_mono e d rws st p) as H1.
  destruct (organize_one e d rws st p) as [[st1 rw1|st1 c] rs]; simpl in *; auto.
  specialize (IH st1). destruct (organize e d rws st1 r) as [res rsw]. simpl in *. auto.
Qed.
Lemma organize_same : forall e d rws ps st,
  bad (fres_state (fst (organize e d rws st ps))) = false ->
  objs (fres_state (fst (organize e d rws st ps))) = objs st /\ tx (fres_state (fst (organize e d rws st ps))) = tx st.
Proof.
  induction ps as [|p r IH]; intros st Hb; simpl in *; auto.
  destruct (inew (get st p)); auto.
  pose proof (organize_one_same e d rws st p) as H1.
  destruct (organize_one e d rws st p) as [[st1 rw1|st1 c] rs] eqn:Eo; simpl in *.
  - pose proof (organize_bad_mono e d rws r st1) as Hm. specialize (IH st1).
    destruct (organize e d rws st1 r) as [res rsw]. simpl in *.
    destruct (IH Hb) as [A B]. destruct (H1 (Hm Hb)) as [C [_ D]]. split; congruence.
  - destruct (H1 Hb) as [C [_ D]]. auto.
Qed.

(* finalize_flush_changes *)
Lemma register_fold_bad_mono : forall (reg : nat -> bool) l st,
  bad (fold_left (fun st i => if reg i then register_one st i else st) l st) = false -> bad st = false.
Proof.
  induction l as [|i r IH]; intros st Hb; simpl in *; auto.
  apply IH in Hb. destruct (reg i); auto. unfold register_one, app_claim in Hb. simpl in Hb.
  apply orb_false_elim in Hb. tauto.
Qed.

Definition regfact (reg : nat -> bool) (k : nat) (o : obj) : bool :=
  implb (reg k) (osess o && negb (itdel o) && (inew o || is_some (okey o))).

Lemma register_obj_jk : forall newk o, jk (Some false) o = true ->
  osess o && negb (itdel o) && (inew o || is_some (okey o)) = true ->
  jk (Some false) (register_obj true newk o) = true.
Proof.
  intros newk o. unfold register_obj. destruct (okey o) as [k0|] eqn:E; try destruct (key_eqb k0 newk); revert E; kcase2.
Qed.

Lemma regfact_register : forall newk o, osess o && negb (itdel o) && (inew o || is_some (okey o)) = true ->
  let o' := register_obj true newk o in osess o' && negb (itdel o') && (inew o' || is_some (okey o')) = true.
Proof.
  intros newk o. unfold register_obj. destruct (okey o) as [k0|] eqn:E; try destruct (key_eqb k0 newk); revert E; ocase2.
Qed.

Lemma register_fold_K : forall (reg : nat -> bool) l st,
  bad (fold_left (fun st i => if reg i then register_one st i else st) l st) = false ->
  Inv st -> tx st = Some false -> SP (fun _ => jk (Some false)) st -> SP (regfact reg) st ->
  SP (fun _ => jk (Some false)) (fold_left (fun st i => if reg i then register_one st i else st) l st).
Proof.
  induction l as [|i r IH]; intros st Hb HI Ht HK HR; simpl in *; auto.
  destruct (reg i) eqn:Er.
  2: { apply IH; auto. }
  pose proof (register_fold_bad_mono reg r _ Hb) as Hb1.
  assert (Hh : has_tx st = true) by (unfold has_tx; rewrite Ht; reflexivity).
  set (newk := (pk (get st i), otok (get st i))) in *.
  assert (HG1 : G (register_one st i)).
  { unfold register_one. fold newk. rewrite Hh. apply G_claim; auto.
    - intros _. rewrite Ht. exact HK.
    - intros o Hk Hj. rewrite Ht in *. apply register_obj_jk; auto.
      pose proof (HR i o Hk) as Hr. unfold regfact in Hr. rewrite Er in Hr. exact Hr. }
  apply IH; [exact Hb| | | |].
  - apply register_one_inv; auto.
  - unfold register_one, app_claim. simpl. exact Ht.
  - specialize (HG1 Hb1). unfold register_one, app_claim in HG1 |- *. simpl in *. rewrite Ht in HG1. exact HG1.
  - (* the facts about the states still to be registered survive: sessions and itdel flags are untouched *)
    intros k o' Hk. unfold register_one, app_claim in Hk. simpl in Hk.
    apply app_all_inv_nth in Hk as [o [Hk ->]]. pose proof (HR k o Hk) as Hr. unfold regfact in *. unfold claiming.
    destruct (Nat.eqb k i).
    + destruct (reg k); auto. simpl in *. rewrite Hh. apply regfact_register. exact Hr.
    + match goal with |- context [if ?c then set_iimap false o else o] => destruct c end; exact Hr.
Qed.

Lemma finalize_passA_jk : forall o, jk (Some false) o = true ->
  jk (Some false) (if isdel o then newly_deleted_obj true o else o) = true.
Proof. kcase. Qed.
Lemma finalize_passA_regfact : forall (r : bool) o, jk (Some false) o = true ->
  implb r (inew o || (iimap o && negb (isdel o))) = true ->
  let o' := if isdel o then newly_deleted_obj true o else o in
  implb r (osess o' && negb (itdel o') && (inew o' || is_some (okey o'))) = true.
Proof. intros []; kcase. Qed.

Lemma finalize_K : forall st0 reg st,
  bad (finalize st0 reg st) = false -> Inv st -> tx st = Some false -> objs st = objs st0 ->
  SP (fun _ => jk (Some false)) st ->
  (forall i, reg i = true -> inew (get st0 i) || (iimap (get st0 i) && negb (isdel (get st0 i))) = true) ->
  SP (fun _ => jk (Some false)) (finalize st0 reg st).
Proof.
  intros st0 reg st Hb HI Ht Ho HK Hreg. unfold finalize in *.
  assert (Hh : has_tx st = true) by (unfold has_tx; rewrite Ht; reflexivity). rewrite Hh in *.
  set (fA := fun (i : nat) (o : obj) => if isdel (get st0 i) then newly_deleted_obj true o else o) in *.
  assert (Hget : forall k o, nth_error (objs st) k = Some o -> get st0 k = o).
  { intros k o Hk. unfold get. rewrite <- Ho. apply nth_error_nth. exact Hk. }
  apply register_fold_K; auto.
  - apply (pass_mono_cond (fun i => isdel (get st0 i))); auto. apply mono_newly_deleted.
  - intros k o' Hk. apply app_all_inv_nth in Hk as [o [Hk ->]]. unfold fA. rewrite (Hget k o Hk).
    apply finalize_passA_jk. apply (HK k o Hk).
  - intros k o' Hk. apply app_all_inv_nth in Hk as [o [Hk ->]]. unfold fA, regfact. rewrite (Hget k o Hk).
    apply finalize_passA_regfact; [apply (HK k o Hk)|].
    destruct (reg k) eqn:Er; auto. simpl. rewrite <- (Hget k o Hk). apply Hreg; auto.
Qed.

Lemma finalize_bad_mono : forall st0 reg st, bad (finalize st0 reg st) = false -> bad st = false.
Proof. intros st0 reg st H. unfold finalize in H. apply register_fold_bad_mono in H. exact H. Qed.

Lemma is_deact_false_tx : forall st, has_tx st = true -> is_deact st = false -> tx st = Some false.
Proof. intros st. unfold has_tx, is_deact. destruct (tx st) as [[]|]; auto; discriminate. Qed.
Lemma autobegin_has_tx : forall st, has_tx (autobegin st) = true.
Proof. intros. unfold has_tx. rewrite autobegin_tx. destruct (tx st); reflexivity. Qed.

Lemma filter_In_dirty : forall e st i, memn i (filter (is_dirty e st) (all_idx st)) = true -> is_dirty e st i = true.
Proof.
  intros e st i H. unfold memn in H. apply existsb_exists in H as [x [Hx Hx2]]. apply Nat.eqb_eq in Hx2. subst.
  apply filter_In in Hx. tauto.
Qed.

Lemma register_fold_tx : forall (reg : nat -> bool) l st,
  tx (fold_left (fun st i => if reg i then register_one st i else st) l st) = tx st.
Proof. induction l; intros; simpl; auto. rewrite IHl. destruct (reg a); auto. Qed.
Lemma finalize_tx_eq : forall st0 reg st, tx (finalize st0 reg st) = tx st.
Proof. intros. unfold finalize. rewrite register_fold_tx. reflexivity. Qed.

Lemma flush_G : forall e st, Inv st -> G st -> G (fst (fst (flush e st))).
Proof.
  intros e st HI HG. unfold flush. destruct (is_clean e st); simpl; auto.
  pose proof (autobegin_inv st HI) as I0. pose proof (G_autobegin st HG) as G0.
  destruct (is_deact (autobegin st)) eqn:Ed; simpl; auto.
  assert (T0 : tx (autobegin st) = Some false) by (apply is_deact_false_tx; auto; apply autobegin_has_tx).
  set (st0 := set_flushed true (autobegin st)).
  assert (I0' : Inv st0) by (apply Inv_set_flushed; auto).
  assert (G0' : G st0) by (apply G_set_flushed; auto).
  set (st0' := app_all (fun i o => if is_dirty e st0 i && negb (ehasid e i) then expire_obj o else o) st0).
  assert (I1 : Inv st0').
  { apply (pass_mono_cond (fun i => is_dirty e st0 i && negb (ehasid e i))); auto. apply mono_expire. }
  assert (G1 : G st0').
  { apply G_pass; auto. intros k o Hk Hj. destruct (is_dirty e st0 k && negb (ehasid e k)); auto.
    revert Hj. generalize (tx st0). intros t0; unfold jk; generalize (act t0); clear t0; intros []; kcase. }
  assert (T1 : tx st0' = Some false) by exact T0.
  pose proof (organize_inv e (fun d => isdel (get st0' d)) (rows e) (all_idx st0') st0' I1) as I2.
  pose proof (organize_G e (fun d => isdel (get st0' d)) (rows e) (all_idx st0') st0' G1) as G2.
  pose proof (organize_same e (fun d => isdel (get st0' d)) (rows e) (all_idx st0') st0') as S2.
  assert (Hfail : forall st1 c, Inv st1 -> G st1 ->
            G (fst (fst (let (st2, c2) := restore_snapshot (set_tx (Some true) st1) in
                         (st2, if Z.eqb c2 0 then c else c2, rows e))))).
  { intros st1 c A B. pose proof (restore_snapshot_G (set_tx (Some true) st1) eq_refl) as R.
    destruct (restore_snapshot (set_tx (Some true) st1)) as [s2 c2]. simpl in *.
    apply R; [apply Inv_set_tx; auto|apply G_deact; auto]. }
  destruct (organize e _ (rows e) st0' (all_idx st0')) as [[st1 rw|st1 c] rsw]; simpl in I2, G2, S2.
  - destruct (flush_db e st0' _ rsw (rows e)); [apply Hfail; auto|]. simpl.
    intros Hb. pose proof (finalize_bad_mono _ _ _ Hb) as Hb1. destruct (S2 Hb1) as [So St].
    assert (T2 : tx st1 = Some false) by (rewrite St; exact T1).
    rewrite finalize_tx_eq, T2.
    apply finalize_K; auto; try congruence.
    + specialize (G2 Hb1). rewrite T2 in G2. exact G2.
    + intros i Hr. apply orb_prop in Hr as [Hr|Hr]; [rewrite Hr; reflexivity|].
      apply filter_In_dirty in Hr. unfold is_dirty in Hr. apply andb_prop in Hr as [Hr _].
      rewrite Hr. apply orb_true_r.
  - apply Hfail; auto.
Qed.

(* ---- loads -------------------------------------------------------------------------------------------------- *)
Lemma loaded_jk : forall t k, jk t (mkObj (fst k) (Some k) (snd k) true false false true false false false None) = true.
Proof. intros [[]|] [a b]; reflexivity. Qed.
Lemma new_obj_jk : forall t k, jk t (new_obj k) = true.
Proof. intros [[]|] k; reflexivity. Qed.

Lemma load_row_G : forall k st, G st -> G (fst (load_row k st)).
Proof. intros k st HG. unfold load_row. destruct (holder k st); simpl; auto. apply G_add_obj; auto. apply loaded_jk. Qed.
Lemma load_rows_GI : forall tok pks st, Inv st /\ G st -> Inv (fst (load_rows tok pks st)) /\ G (fst (load_rows tok pks st)).
Proof.
  induction pks as [|k r IH]; intros st [HI HG]; simpl; auto.
  pose proof (load_row_inv (k, tok) st HI) as H1. pose proof (load_row_G (k, tok) st HG) as H2.
  destruct (load_row (k, tok) st) as [st1 h]. simpl in *.
  specialize (IH st1 (conj H1 H2)). destruct (load_rows tok r st1). simpl in *. auto.
Qed.

Lemma sql_G : forall e st, Inv st -> G st -> G (fst (fst (sql e st))).
Proof.
  intros e st HI HG. unfold sql. pose proof (flush_inv e st HI) as I1. pose proof (flush_G e st HI HG) as G1.
  destruct (flush e st) as [[st1 c] rws]. simpl in *. destruct (Z.eqb c 0); simpl; auto.
  pose proof (G_autobegin st1 G1). destruct (is_deact (autobegin st1)); simpl; auto.
Qed.

Lemma do_query_G : forall e tok st, Inv st -> G st -> G (rst (do_query e tok st)).
Proof.
  intros e tok st HI HG. unfold do_query. pose proof (sql_inv e st HI) as I1. pose proof (sql_G e st HI HG) as G1.
  destruct (sql e st) as [[st1 c] rws]. simpl in *. destruct (Z.eqb c 0); simpl; auto.
  pose proof (load_rows_GI tok (sort_z rws) st1 (conj I1 G1)) as [_ H]. destruct (load_rows tok (sort_z rws) st1). simpl in *. auto.
Qed.

Lemma get_miss_G : forall e k st, Inv st -> G st -> G (rst (get_miss e k st)).
Proof.
  intros e k st HI HG. unfold get_miss. pose proof (sql_G e st HI HG) as G1.
  destruct (sql e st) as [[st1 c] rws]. simpl in *. destruct (Z.eqb c 0); simpl; auto.
  destruct (memz (fst k) rws); simpl; auto.
  pose proof (load_row_G k st1 G1). destruct (load_row k st1). simpl in *. auto.
Qed.

Lemma G_bad_true : forall st, bad st = true -> G st.
Proof. intros st H Hb. congruence. Qed.

Lemma do_get_G : forall e k st, Inv st -> G st -> G (rst (do_get e k st)).
Proof.
  intros e k st HI HG. unfold do_get. destruct (holder k st) as [h|]; [|apply get_miss_G; auto].
  destruct (negb (eexp e h)); simpl; auto. destruct (negb (eidexp e h)); simpl; auto.
  destruct (negb (osess (get st h))); simpl; auto.
  pose proof (sql_inv e st HI) as I1. pose proof (sql_G e st HI HG) as G1.
  destruct (sql e st) as [[st1 c] rws]. simpl in *.
  assert (Hg : G (rst (get_miss (with_rows e rws) k (flag_bad true (app_all (only h (newly_deleted_obj (has_tx st1))) st1))))).
  { apply get_miss_G.
    - apply Inv_flag_bad. apply pass_mono_only; auto. apply mono_newly_deleted.
    - apply G_bad_true. simpl. apply orb_true_r. }
  destruct (Z.eqb c 5); auto. destruct (Z.eqb c 0); simpl; auto.
  destruct (negb (memz (key_pk (get st1 h)) rws)); simpl; auto.
  destruct (odel (get st1 h)); simpl; auto.
  destruct (holder k st1); simpl; auto. apply get_miss_G; auto.
Qed.

Lemma expire_jk : forall t o, jk t o = true -> jk t (expire_obj o) = true.
Proof. intros t; unfold jk; generalize (act t); clear t; intros []; kcase. Qed.
Lemma set_pk_jk : forall t v o, jk t o = true -> jk t (set_pk v o) = true.
Proof. intros t; unfold jk; generalize (act t); clear t; intros []; kcase. Qed.
Lemma G_only : forall i g st, Inv st -> G st -> (forall o, jk (tx st) o = true -> jk (tx st) (g o) = true) ->
  G (app_all (only i g) st).
Proof. intros. apply G_pass; auto. intros k o _ Hj. unfold only. destruct (Nat.eqb k i); auto. Qed.

Lemma do_refresh_G : forall e i st, Inv st -> G st -> G (rst (do_refresh e i st)).
Proof.
  intros e i st HI HG. unfold do_refresh. destruct (negb (iimap (get st i))); simpl; auto.
  assert (I0 : Inv (app_all (only i expire_obj) st)) by (apply pass_mono_only; auto; apply mono_expire).
  assert (G0 : G (app_all (only i expire_obj) st)) by (apply G_only; auto; intros; apply expire_jk; auto).
  pose proof (flush_inv (refresh_env e i) _ I0) as I1. pose proof (flush_G (refresh_env e i) _ I0 G0) as G1.
  destruct (flush (refresh_env e i) (app_all (only i expire_obj) st)) as [[st1 c] rws]. simpl in *.
  destruct (Z.eqb c 0); simpl; auto.
  pose proof (G_autobegin st1 G1). destruct (is_deact (autobegin st1)); simpl; auto.
  destruct (okey (get (autobegin st1) i)); simpl; auto. destruct (memz (fst k) rws); simpl; auto.
Qed.

Lemma do_merge_G : forall e i st, Inv st -> G st -> G (rst (do_merge e i st)).
Proof.
  intros e i st HI HG. unfold do_merge. pose proof (flush_inv e st HI) as I1. pose proof (flush_G e st HI HG) as G1.
  destruct (flush e st) as [[st1 c] rws]. simpl in *. destruct (Z.eqb c 0); simpl; auto.
  set (k := match okey (get st1 i) with Some k => k | None => (pk (get st1 i), otok (get st1 i)) end).
  destruct (holder k st1) as [m|].
  - destruct (Nat.eqb m i || negb (ehasid e i)); simpl; auto.
    assert (Hp : forall s, Inv s -> G s -> G (app_all (only m (set_pk (pk (get st1 i)))) s)).
    { intros. apply G_only; auto; intros; apply set_pk_jk; auto. }
    destruct (eidexp e m && _); simpl; auto.
    destruct (negb (osess (get st1 m))); simpl; auto.
    pose proof (autobegin_inv st1 I1). pose proof (G_autobegin st1 G1).
    destruct (is_deact (autobegin st1)); simpl; auto.
    destruct (negb (memz (key_pk (get (autobegin st1) m)) rws)); simpl; auto.
  - pose proof (autobegin_inv st1 I1) as IA. pose proof (G_autobegin st1 G1) as GA.
    destruct (is_deact (autobegin st1)); simpl; auto.
    destruct (memz (fst k) rws).
    + pose proof (load_row_inv k _ IA) as IL. pose proof (load_row_G k _ GA) as GL.
      destruct (load_row k (autobegin st1)) as [st2 m]. simpl in *.
      destruct (ehasid e i); auto. apply G_only; auto; intros; apply set_pk_jk; auto.
    + assert (I2 : Inv (add_obj (new_obj (pk (get st1 i))) (autobegin st1))).
      { apply add_obj_inv; auto. simpl. intros. discriminate. }
      assert (G2 : G (add_obj (new_obj (pk (get st1 i))) (autobegin st1))).
      { apply G_add_obj; auto. apply new_obj_jk. }
      pose proof (save_impl_G (length (objs (autobegin st1))) _ I2 G2) as HS.
      destruct (save_impl _ _). simpl in *. exact HS.
Qed.

(* ---- commit / rollback ---------------------------------------------------------------------------------------- *)
Lemma organize_one_tx : forall e d rws st p, tx (fres_state (fst (organize_one e d rws st p))) = tx st.
Proof. intros. unfold organize_one. destruct (holder _ st); auto.
  destruct (eexp e n && eidexp e n && negb (osess (get st n))); auto.
  destruct (eexp e n && negb (memz (pk (get st p)) rws)); reflexivity. Qed.
Lemma organize_tx : forall e d rws ps st, tx (fres_state (fst (organize e d rws st ps))) = tx st.
Proof.
  induction ps as [|p r IH]; intros st; simpl; auto. destruct (inew (get st p)); auto.
  pose proof (organize_one_tx e d rws st p) as H1.
  destruct (organize_one e d rws st p) as [[st1 rw1|st1 c] rs]; simpl in *; auto.
  specialize (IH st1). destruct (organize e d rws st1 r). simpl in *. congruence.
Qed.
Lemma flush_db_code : forall e st0 dirty rsw rws c, flush_db e st0 dirty rsw rws = inl c -> c <> 0.
Proof.
  intros e st0 dirty rsw rws c. unfold flush_db.
  assert (U : forall ds r c, do_updates st0 ds r = inl c -> c <> 0).
  { induction ds; simpl; intros r c0 H; [discriminate|].
    destruct (Z.eqb (key_pk (get st0 a)) (pk (get st0 a))); eauto.
    destruct (negb (memz (key_pk (get st0 a)) r)); [inversion H; lia|].
    destruct (memz (pk (get st0 a)) r); [inversion H; lia|eauto]. }
  assert (N : forall ps rs r c, do_inserts st0 rs ps r = inl c -> c <> 0).
  { induction ps; simpl; intros rs r c0 H; [discriminate|].
    destruct (inew (get st0 a) && negb (memn a rs)); eauto.
    destruct (memz (pk (get st0 a)) r); [inversion H; lia|eauto]. }
  destruct (do_updates st0 (sort_by_key st0 dirty) rws) eqn:E1; [intro H; inversion H; subst; eauto|].
  destruct (do_inserts st0 (map fst rsw) (all_idx st0) l) eqn:E2; [intro H; inversion H; subst; eauto|].
  destruct (delete_loads_ok e st0 (map snd rsw) l0); intro H; inversion H. lia.
Qed.

Lemma organize_one_fail : forall e d rws st p s c, fst (organize_one e d rws st p) = FFail s c -> c <> 0.
Proof.
  intros e d rws st p s c. unfold organize_one. destruct (holder _ st); simpl; [|discriminate].
  destruct (eexp e n && eidexp e n && negb (osess (get st n))); simpl; [intro H; inversion H; lia|].
  destruct (eexp e n && negb (memz (pk (get st p)) rws)); simpl; discriminate.
Qed.
Lemma organize_fail : forall e d rws ps st s c, fst (organize e d rws st ps) = FFail s c -> c <> 0.
Proof.
  induction ps as [|p r IH]; intros st s c; simpl; [discriminate|]. destruct (inew (get st p)); eauto.
  pose proof (organize_one_fail e d rws st p) as H1.
  destruct (organize_one e d rws st p) as [[st1 rw1|st1 c1] rs]; simpl in *.
  - specialize (IH st1 s c). destruct (organize e d rws st1 r). simpl in *. auto.
  - intro H. inversion H; subst. eapply H1; eauto.
Qed.

Lemma flush_code0_deact : forall e st, snd (fst (flush e st)) = 0 -> is_deact (fst (fst (flush e st))) = is_deact st.
Proof.
  intros e st. unfold flush. destruct (is_clean e st); auto.
  destruct (is_deact (autobegin st)) eqn:Ed; [simpl; intro; discriminate|].
  assert (Ed' : is_deact st = false).
  { revert Ed. unfold is_deact. rewrite autobegin_tx. destruct (tx st); auto. }
  set (st0' := app_all _ (set_flushed true (autobegin st))).
  assert (T : tx st0' = tx (autobegin st)) by reflexivity.
  pose proof (organize_tx e (fun d => isdel (get st0' d)) (rows e) (all_idx st0') st0') as OT.
  pose proof (organize_fail e (fun d => isdel (get st0' d)) (rows e) (all_idx st0') st0') as OF.
  assert (Hfail : forall st1 c, c <> 0 ->
            snd (fst (let (st2, c2) := restore_snapshot (set_tx (Some true) st1) in
                      (st2, if Z.eqb c2 0 then c else c2, rows e))) = 0 -> False).
  { intros st1 c Hc. destruct (restore_snapshot _) as [s2 c2]. simpl. destruct (Z.eqb_spec c2 0); congruence. }
  destruct (organize e _ (rows e) st0' (all_idx st0')) as [[st1 rw|st1 c] rsw]; simpl in OT, OF.
  - destruct (flush_db e st0' _ rsw (rows e)) eqn:Ef.
    + apply flush_db_code in Ef. intro H. exfalso. eapply Hfail; eauto.
    + simpl. intros _. unfold is_deact. rewrite finalize_tx_eq.
      replace (tx st1) with (tx (autobegin st)) by congruence.
      rewrite autobegin_tx. unfold is_deact in Ed'. destruct (tx st) as [[]|]; auto; discriminate.
  - intro H. exfalso. apply (Hfail st1 c); auto. eapply OF; eauto.
Qed.

Lemma commit_jk : forall t o, act t = true -> jk t o = true ->
  jk t (let o1 := if iimap o then expire_obj o else o in if itdel o1 then detach_obj false o1 else o1) = true.
Proof. intros t; unfold jk; generalize (act t); clear t; intros []; kcase. Qed.

Lemma do_commit_G : forall e st, Inv st -> G st -> G (rst (do_commit e st)).
Proof.
  intros e st HI HG. unfold do_commit. pose proof (autobegin_inv st HI) as I0. pose proof (G_autobegin st HG) as G0.
  destruct (is_deact (autobegin st)) eqn:Ed; simpl; auto.
  pose proof (flush_inv e _ I0) as I1. pose proof (flush_G e _ I0 G0) as G1.
  pose proof (flush_code0_deact e (autobegin st)) as HD.
  destruct (flush e (autobegin st)) as [[st1 c] rws]. simpl in *.
  destruct (Z.eqb_spec c 0); simpl; auto. subst c. specialize (HD eq_refl). rewrite Ed in HD.
  apply end_tx_G.
  - destruct (eoc st1); auto. apply pass_mono_all; auto. apply mono_commit.
  - destruct (eoc st1); auto. apply G_pass_all; auto. intros o Hj. apply commit_jk; auto.
    revert HD. unfold is_deact, act. destruct (tx st1) as [[]|]; auto; discriminate.
Qed.

Lemma do_rollback_G : forall e st, Inv st -> G st -> G (rst (do_rollback e st)).
Proof.
  intros e st HI HG. unfold do_rollback. destruct (tx st) as [[]|] eqn:Et; simpl; auto.
  - destruct (is_clean e st); simpl; [apply end_tx_G; auto|].
    pose proof (restore_snapshot_inv st HI) as IR. pose proof (restore_snapshot_G st Et HI HG) as GR.
    destruct (restore_snapshot st) as [s c]. simpl in *.
    destruct (Z.eqb c 0); simpl; auto. apply end_tx_G; auto.
  - pose proof (restore_snapshot_inv (set_tx (Some true) st)) as IR.
    pose proof (restore_snapshot_G (set_tx (Some true) st) eq_refl) as GR.
    destruct (restore_snapshot _) as [s c]. simpl in *.
    assert (Inv s) by (apply IR; apply Inv_set_tx; auto).
    assert (G s) by (apply GR; [apply Inv_set_tx; auto|apply G_deact; auto]).
    destruct (Z.eqb c 0); simpl; auto. apply end_tx_G; auto.
Qed.

Lemma expunge_jk : forall t o, jk t o = true ->
  jk t (expunge_obj (match t with None => false | _ => true end) false o) = true.
Proof. intros [[]|]; kcase. Qed.

Lemma step_G : forall e o st, Inv st -> G st -> G (rst (step e o st)).
Proof.
  intros e o st HI0 HG0.
  assert (HI : Inv (set_flushed false st)) by (apply Inv_set_flushed; auto).
  assert (HG : G (set_flushed false st)) by (apply G_set_flushed; auto).
  unfold step. destruct o; simpl.
  - apply do_query_G; auto.
  - apply do_get_G; auto.
  - apply do_refresh_G; auto.
  - apply do_merge_G; auto.
  - destruct (negb (osess (get (set_flushed false st) i))); simpl; auto.
    apply G_only; auto. intros o Hj. simpl in *.
    replace (has_tx (set_flushed false st)) with (match tx st with None => false | _ => true end)
      by (unfold has_tx; simpl; destruct (tx st); reflexivity).
    apply expunge_jk; auto.
  - destruct (okey (get (set_flushed false st) i)); [apply update_impl_G|apply save_impl_G]; auto.
  - destruct (_ && _); simpl; auto. apply G_only; auto; intros; apply set_pk_jk; auto.
  - pose proof (flush_G e _ HI HG). destruct (flush e (set_flushed false st)) as [[s c] r]. auto.
  - apply do_commit_G; auto.
  - apply do_rollback_G; auto.
  - apply delete_impl_G; auto.
  - auto.
Qed.

Lemma init_G : forall b pks, G (init b pks).
Proof.
  intros b pks _ k o Hk. simpl in *. rewrite nth_error_map in Hk. destruct (nth_error pks k); [|discriminate].
  inversion Hk. reflexivity.
Qed.

Lemma run_GI : forall h st, Inv st -> G st -> G (run h st).
Proof.
  induction h as [|[e o] r IH]; intros st HI HG; simpl; auto.
  destruct (stop e st); auto.
  pose proof (step_inv e o st HI) as I1. pose proof (step_G e o st HI HG) as G1.
  destruct o; auto. destruct (negb (Z.eqb (rerr (step e Rollback st)) 0)); auto.
Qed.

Lemma jk_pm : forall t o, jk t o = true -> implb (persistent o) (iimap o) = true.
Proof. intros t; unfold jk; generalize (act t); clear t; intros []; kcase. Qed.
Lemma jk_ma : forall t o, jk t o = true -> implb (iimap o) (osess o) = true.
Proof. intros t; unfold jk; generalize (act t); clear t; intros []; kcase. Qed.

(* while the ghost flag is down: persistent -> mapped, mapped -> attached, one persistent object per identity *)
Theorem guarded_consistent : forall b pks h, bad (run h (init b pks)) = false ->
  let st := run h (init b pks) in
  persistent_mapped st = true /\ mapped_attached st = true /\
  (forall i j oi oj, nth_error (objs st) i = Some oi -> nth_error (objs st) j = Some oj ->
     persistent oi = true -> persistent oj = true -> okey oi = okey oj -> i = j).
Proof.
  intros b pks h Hb st.
  pose proof (run_GI h (init b pks) (init_inv b pks) (init_G b pks) Hb) as HK. fold st in HK.
  pose proof (run_inv h (init b pks) (init_inv b pks)) as [_ HU]. fold st in HU.
  clearbody st. clear Hb.
  assert (Hall : forall o, In o (objs st) -> jk (tx st) o = true).
  { intros o Hin. apply In_nth_error in Hin as [k Hk]. apply (HK k o Hk). }
  split; [|split].
  - unfold persistent_mapped. apply forallb_forall. intros o Hin. eapply jk_pm; eauto.
  - unfold mapped_attached. apply forallb_forall. intros o Hin. eapply jk_ma; eauto.
  - intros i j oi oj Hi Hj Pi Pj Hk.
    pose proof (jk_pm _ _ (HK i oi Hi)) as Ai. rewrite Pi in Ai. simpl in Ai.
    pose proof (jk_pm _ _ (HK j oj Hj)) as Aj. rewrite Pj in Aj. simpl in Aj.
    destruct (okey oi) as [k|] eqn:Ek; [|unfold persistent in Pi; rewrite Ek in Pi; discriminate].
    apply (HU k i j); [exists oi|exists oj]; auto.
Qed.
