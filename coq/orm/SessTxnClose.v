(* C33 - Session.close() under the invariant (guard g6: every object in the deleted state is referred to by
   an open transaction). *)
From Coq Require Import List ZArith Bool Arith Lia.
Import ListNotations.
From SAV.orm Require Import SessTxn SessTxnBase SessTxnSpec SessTxnInv SessTxnOps SessTxnRestore SessTxnRestore2
  SessTxnShift SessTxnStmts SessTxnFlush SessTxnDbInv SessTxnCore SessTxnFlushCore SessTxnTx.
Open Scope nat_scope.

(* the database side of the invariant, with what the chain knows about a DEACTIVE innermost frame *)
Definition DbOk' (st : sess) (gs : list ghost) : Prop :=
  DbOk st gs /\
  (forall f rest g gs', stack st = f :: rest -> gs = g :: gs' -> fstate f = DEACTIVE -> work st = gW g).

Lemma Core_DbOk' : forall st gs, Core st gs -> DbOk' st gs.
Proof.
  intros st gs C. split; [exact (c_db _ _ C)|]. intros f rest g gs' Hs Hg Hf.
  destruct C as [_ _ _ Ch _]. unfold Chain in Ch. rewrite Hs, Hg, Hf in Ch. tauto.
Qed.

Definition same_objs (st st' : sess) : Prop :=
  objs st' = objs st /\ nobj st' = nobj st /\ snew st' = snew st /\ sdel st' = sdel st /\ handles st' = handles st /\
  eoc st' = eoc st /\ committed st' = committed st /\ nfid st' = nfid st.

Lemma close_head_db : forall st g gs' f rest, DbOk' st (g :: gs') -> stack st = f :: rest ->
  exists st', close_head st = (Ok, st') /\ DbOk' st' gs' /\ stack st' = rest /\ same_objs st st'.
Proof.
  intros st g gs' f rest [D Hde] Hs. destruct D as [D1 D2 D4 D5]. rewrite Hs in *. destruct D5 as [D5 D6].
  cbn [FramesOk] in D1. destruct D1 as [F1 [F2 [F3 [F4 F5]]]].
  cbn [SnapOk] in D6. destruct D6 as [Q1 Q2].
  assert (Hhead : head_ok rest). { unfold head_ok. destruct rest as [|p r]; auto. left. apply F5. left; reflexivity. }
  assert (Hnd : forall st', stack st' = rest -> forall f0 rest0 g0 gs0, stack st' = f0 :: rest0 -> gs' = g0 :: gs0 -> fstate f0 = DEACTIVE -> work st' = gW g0).
  { intros st' S f0 rest0 g0 gs0 S0 _ Hf0. rewrite S in S0. rewrite (F5 f0) in Hf0; [discriminate|]. rewrite S0. left; reflexivity. }
  unfold close_head. rewrite Hs.
  destruct (fconn f && live_state (fstate f)) eqn:Ecl.
  - apply andb_prop in Ecl. destruct Ecl as [Ec El].
    assert (Hlc : live_conn f = fnested f) by (unfold live_conn; rewrite Ec, El; cbn; rewrite andb_true_r; reflexivity).
    destruct (fnested f) eqn:En.
    + (* ROLLBACK TO SAVEPOINT *)
      assert (Hsv : saves st = (fid f, gW g) :: entries rest gs').
      { rewrite D5. cbn [entries]. rewrite Hlc. reflexivity. }
      unfold db_rollback_to. cbn [saves set_stack]. rewrite Hsv. cbn [drop_to]. rewrite Nat.eqb_refl.
      eexists. split; [reflexivity|]. split; [|split; [reflexivity|repeat split; reflexivity]].
      split; [|apply Hnd; reflexivity].
      constructor; cbn [stack nfid work committed saves set_db set_stack].
      * eapply FramesOk_weaken; [exact F2|lia].
      * exact Hhead.
      * intros Hn. exfalso. destruct rest as [|p r]; [destruct F3 as [F3 _]; apply (F3 eq_refl); reflexivity|].
        specialize (Hn p (or_introl eq_refl)). rewrite (F4 Ec p (or_introl eq_refl)) in Hn. discriminate.
      * split; [reflexivity|exact Q2].
    + (* ROLLBACK *)
      assert (Hr : rest = []). { destruct rest; auto. destruct F3 as [_ F3]. assert (X : false = true) by (apply F3; discriminate). discriminate. }
      subst rest. assert (Hg : gs' = []) by (destruct gs'; [reflexivity|destruct Q2]). subst gs'.
      eexists. split; [reflexivity|]. split; [|split; [reflexivity|repeat split; reflexivity]].
      split; [|apply Hnd; reflexivity].
      constructor; cbn; auto. split; [reflexivity|exact I].
  - eexists. split; [reflexivity|]. split; [|split; [reflexivity|repeat split; reflexivity]].
    split; [|apply Hnd; reflexivity].
    assert (Hlc : live_conn f = false).
    { unfold live_conn. apply andb_false_iff in Ecl. destruct Ecl as [E|E]; rewrite E; cbn; auto.
      rewrite andb_false_r. reflexivity. }
    constructor; cbn [stack nfid work committed saves set_stack].
    + eapply FramesOk_weaken; [exact F2|lia].
    + exact Hhead.
    + intros Hn. destruct (fconn f) eqn:Ec.
      * destruct rest as [|p r].
        -- (* the outermost frame with a connection, not live: it was rolled back *)
           assert (Hfd : fstate f = DEACTIVE).
           { cbn in Ecl. destruct D2 as [X|X]; [rewrite X in Ecl; discriminate|exact X]. }
           rewrite (Hde f [] g gs' eq_refl eq_refl Hfd).
           destruct (fnested f) eqn:En; [destruct F3 as [F3 _]; exfalso; apply (F3 eq_refl); reflexivity|]. symmetry. exact Q1.
        -- specialize (Hn p (or_introl eq_refl)). rewrite (F4 eq_refl p (or_introl eq_refl)) in Hn. discriminate.
      * apply D4. intros f' [X|X]; [subst; exact Ec|auto].
    + split; [rewrite D5; cbn [entries]; rewrite Hlc; reflexivity|].
      destruct (fconn f) eqn:Ec.
      * destruct rest as [|p r]; [destruct gs'; [exact I|destruct Q2]|].
        destruct gs' as [|gp gs'']; [destruct Q2|]. cbn [SnapOk] in *.
        rewrite (F4 eq_refl p (or_introl eq_refl)) in *. exact Q2.
      * rewrite <- Q1. exact Q2.
Qed.

Lemma close_all_db : forall fuel st gs, DbOk' st gs -> length (stack st) < fuel ->
  exists st', close_all fuel st = (Ok, st') /\ stack st' = [] /\ same_objs st st' /\ work st' = committed st' /\ saves st' = [].
Proof.
  induction fuel as [|fuel IH]; intros st gs D Hl; [lia|].
  cbn [close_all]. destruct (stack st) as [|f rest] eqn:Hs.
  - exists st. split; [reflexivity|]. split; [exact Hs|]. split; [repeat split; reflexivity|].
    destruct D as [[D1 D2 D4 D5] _]. rewrite Hs in *. split; [apply D4; intros f []|].
    destruct D5 as [D5 _]. rewrite D5. destruct gs; reflexivity.
  - destruct gs as [|g gs'].
    { destruct D as [[_ _ _ [_ X]] _]. rewrite Hs in X. destruct X. }
    destruct (close_head_db st g gs' f rest D Hs) as (s1 & E1 & D1 & S1 & O1).
    rewrite (bind_ok _ _ _ _ E1).
    destruct (IH s1 gs' D1) as (s2 & E2 & S2 & O2 & W2 & V2); [rewrite S1; cbn in Hl; lia|].
    exists s2. split; [exact E2|]. split; [exact S2|]. split; [|auto].
    destruct O1 as (a1 & a2 & a3 & a4 & a5 & a6 & a7 & a8). destruct O2 as (b1 & b2 & b3 & b4 & b5 & b6 & b7 & b8).
    repeat split; congruence.
Qed.

Lemma op_close_core : forall st gs r st', Core st gs -> guard st OClose = true -> do_op OClose st = (r, st') ->
  r <> Unmodelled -> r = Ok /\ Core st' [] /\ stack st' = [] /\ is_clean st' = true /\ committed st' = committed st.
Proof.
  intros st gs r st' C Hg H Hr. unfold guard in Hg. cbn in Hg. apply negb_true_iff in Hg.
  cbn [do_op] in H.
  set (F := fun (x : nat) (o : obj) =>
              if oin o || mem x (snew st) || (existsb (fun f => mem x (fdel f)) (stack st) && odelf o && oatt o)
              then detach_obj false (o_in o false) else o) in *.
  set (st2 := set_sdel (set_snew (map_objs st F) []) []) in *.
  assert (D2 : DbOk' st2 gs).
  { destruct (Core_DbOk' st gs C) as [D Hde]. split.
    - eapply (DbOk_ext st st2); eauto.
    - intros f rest g gs' S1 S2 S3. apply (Hde f rest g gs'); auto. }
  destruct (close_all_db (S (length (stack st2))) st2 gs D2) as (s3 & E3 & S3 & O3 & W3 & V3); [lia|].
  rewrite E3 in H. inversion H; subst r st'. clear H.
  destruct O3 as (a1 & a2 & a3 & a4 & a5 & a6 & a7 & a8).
  cbn [objs nobj snew sdel st2 set_sdel set_snew map_objs set_objs] in a1, a2, a3, a4.
  pose proof (c_good _ _ C) as G. pose proof (c_j _ _ C) as Jh.
  assert (HA : forall x, oin (objs s3 x) = false).
  { intros x. rewrite a1. unfold F. destruct (oin (objs st x)) eqn:Ei; cbn; auto.
    destruct (mem x (snew st) || _); cbn; auto. }
  assert (HB : forall x, x < nobj st -> oatt (objs s3 x) = false).
  { intros x Hx. rewrite a1. unfold F.
    destruct (oin (objs st x) || mem x (snew st) || (existsb (fun f => mem x (fdel f)) (stack st) && odelf (objs st x) && oatt (objs st x))) eqn:Ec;
      [reflexivity|].
    apply orb_false_iff in Ec. destruct Ec as [Ec Edl]. apply orb_false_iff in Ec. destruct Ec as [Ei Em].
    destruct (oatt (objs st x)) eqn:Ea; auto. exfalso.
    destruct (okey (objs st x)) as [k|] eqn:Ek.
    - destruct (odelf (objs st x)) eqn:Ed.
      + rewrite !andb_true_r in Edl.
        assert (X : existsb (fun o => is_deleted_state (objs st o) && negb (existsb (fun f => mem o (fdel f)) (stack st))) (all_objs st) = true).
        { apply existsb_exists. exists x. split; [apply in_seq; cbn; lia|]. unfold is_deleted_state. rewrite Ek, Ea, Ed, Edl. reflexivity. }
        congruence.
      + rewrite (g_pers _ _ _ _ _ G x k Hx Ek Ea Ed) in Ei. discriminate.
    - assert (X : In x (snew st)) by (apply (g_new _ _ _ _ _ G); auto). apply mem_In in X. congruence. }
  assert (Hcl : is_clean s3 = true).
  { apply is_clean_spec. rewrite a3, a4. repeat split; auto. intros o _ Hi. rewrite HA in Hi. discriminate. }
  split; [reflexivity|]. split; [|split; [exact S3|split; [exact Hcl|exact a7]]].
  constructor.
  - unfold GoodS. rewrite a2, a3, a4. constructor.
    + intros o Hi. rewrite HA in Hi. discriminate.
    + intros o1 o2 k Hi. rewrite HA in Hi. discriminate.
    + intros o k Ho _ Ha. rewrite (HB o Ho) in Ha. discriminate.
    + intros o k Hi. rewrite HA in Hi. discriminate.
    + intros o. split; [intros []|]. intros [Ho [_ Ha]]. rewrite (HB o Ho) in Ha. discriminate.
    + intros o Ho Hk. rewrite a1 in *. unfold F in *.
      destruct (oin (objs st o) || mem o (snew st) || _); cbn in *; apply (g_newd _ _ _ _ _ G o Ho Hk).
    + intros o [].
    + split; constructor.
    + intros o k Ho _ Ha. rewrite (HB o Ho) in Ha. discriminate.
    + intros o Ho _ Ha. rewrite (HB o Ho) in Ha. discriminate.
  - rewrite a2. intros o Ho. rewrite a1. specialize (Jh o Ho). unfold F.
    destruct (oin (objs st o) || mem o (snew st) || _); cbn; exact Jh.
  - constructor; rewrite ?S3; cbn; auto. split; [rewrite V3; reflexivity|exact I].
  - unfold Chain. rewrite S3. exact I.
  - intros _. exact Hcl.
Qed.
