(* C53 - the three clauses of the property, for all chooser functions, data sets and programs *)
From Coq Require Import List ZArith NArith Bool Lia Permutation.
Import ListNotations.
From SAV.orm Require Import Shard ShardDb ShardInv ShardFlush ShardLoad ShardOps ShardDelete.
Open Scope Z_scope.

Lemma dedup_nil : forall l, dedup l = [] -> l = [].
Proof. destruct l; simpl; auto; discriminate. Qed.

Lemma in_expected : forall q ss d s r,
  In (s, r) (expected q ss d) <-> In s ss /\ In r (d s) /\ qmatch q r = true.
Proof.
  intros. unfold expected. rewrite in_flat_map. split.
  - intros [s' [Hs Hi]]. apply in_map_iff in Hi. destruct Hi as [r' [He Hr]]. inversion He; subst.
    apply in_select in Hr. tauto.
  - intros [Hs [Hr Hq]]. exists s. split; auto. apply in_map. apply in_select. auto.
Qed.

Lemma NoDup_app_r : forall {A} (a b : list A), NoDup (a ++ b) -> NoDup b.
Proof. induction a; simpl; intros b H; auto. inversion H; auto. Qed.

Lemma keys_distinct : forall l o1 o2 i1 i2 k,
  NoDup (keys l) -> nth_error l o1 = Some i1 -> nth_error l o2 = Some i2 -> o1 <> o2 ->
  key_of i1 = [k] -> key_of i2 = [k] -> False.
Proof.
  induction l as [|a l IH]; intros o1 o2 i1 i2 k Hn H1 H2 Hne K1 K2.
  - destruct o1; discriminate.
  - change (keys (a :: l)) with (key_of a ++ keys l) in Hn.
    assert (Hin : forall o i, nth_error l o = Some i -> key_of i = [k] -> In k (keys l)).
    { intros o i Ho Hk. unfold keys. apply in_flat_map. exists i. split; [eapply nth_error_In; eauto|].
      rewrite Hk. now left. }
    destruct o1 as [|o1], o2 as [|o2]; simpl in *; try congruence.
    + injection H1 as ->. rewrite K1 in Hn. simpl in Hn. inversion Hn; subst. eauto.
    + injection H2 as ->. rewrite K2 in Hn. simpl in Hn. inversion Hn; subst. eauto.
    + eapply IH with (o1 := o1) (o2 := o2); eauto. eapply NoDup_app_r; eauto.
Qed.

Lemma in_upd_nth : forall {A} (f : A -> A) l o y x,
  nth_error l o = Some y -> In x (upd_nth o f l) -> In x l \/ x = f y.
Proof.
  induction l as [|a l IH]; intros [|o] y x Hn Hx; simpl in *; try discriminate; try tauto.
  - injection Hn as ->. destruct Hx; auto.
  - destruct Hx as [Hx|Hx]; auto. destruct (IH _ _ _ Hn Hx); auto.
Qed.


Lemma row_eqb_refl : forall a, row_eqb a a = true.
Proof. intros [a b c]. unfold row_eqb. simpl. now rewrite !Z.eqb_refl. Qed.

(* a flush of a state without pending objects and without unflushed changes emits nothing *)
Lemma pass_upd_clean : forall l d, Forall clean l -> pass flush_upd l d = Ok (l, d, []).
Proof.
  induction l as [|i l IH]; intros d Hc; simpl; auto. inversion Hc as [|? ? [Hp Hcl] Hc']; subst.
  assert (E : flush_upd i d = Ok (i, d, [])).
  { unfold flush_upd. destruct (i_life i) eqn:El; auto. destruct (i_tok i); auto.
    rewrite (Hcl eq_refl). now rewrite row_eqb_refl. }
  rewrite E. now rewrite IH.
Qed.
Lemma pass_ins_clean : forall sc l d, Forall clean l -> pass (flush_ins sc) l d = Ok (l, d, []).
Proof.
  induction l as [|i l IH]; intros d Hc; simpl; auto. inversion Hc as [|? ? [Hp Hcl] Hc']; subst.
  assert (E : flush_ins sc i d = Ok (i, d, [])).
  { unfold flush_ins. destruct (i_life i); auto. congruence. }
  rewrite E. now rewrite IH.
Qed.
Lemma flush_clean_id : forall sc st st', Forall clean (insts st) -> flush sc st = Ok st' ->
  insts st' = insts st /\ db st' = db st /\ wlog st' = wlog st /\ rlog st' = rlog st /\ committed st' = committed st.
Proof.
  intros sc st st' Hc H. unfold flush in H. rewrite (pass_upd_clean _ _ Hc), (pass_ins_clean sc _ _ Hc) in H.
  injection H as <-. simpl. rewrite !app_nil_r. auto.
Qed.

Section Thm.
  Variable sc : row -> N.
  Variable ic : Z -> list N.
  Variable ec : qry -> list N.
  Variable d0 : dbs.
  Hypothesis Hwf : wf_db d0.

  Notation reach := (reachable sc ic ec d0).

  (* ===== clause 1: writes ===== *)

  (* every pending object is inserted by the flush, on the shard chosen for it (its preset identity
     token if it has one, otherwise shard_chooser applied to its attributes at flush time); it becomes
     persistent with that shard as identity token and its row is in that shard's table *)
  Theorem write_goes_to_chosen_shard : forall st st', reach st -> flush sc st = Ok st' ->
    forall o i, nth_error (insts st) o = Some i -> i_life i = Pending ->
    let s := match i_tok i with Some t => t | None => sc (i_cur i) end in
    exists i', nth_error (insts st') o = Some i' /\ i_life i' = Persistent /\ i_tok i' = Some s /\
               i_cur i' = i_cur i /\ In (i_cur i) (db st' s).
  Proof.
    intros st st' HR Hf o i Hn Hl s. pose proof (proj1 (reachable_good _ _ _ _ _ Hwf HR)) as HI.
    destruct (Forall2_nth _ _ _ _ _ (flush_frel _ _ _ Hf) Hn) as [i' [Hn' Hr]].
    unfold frel in Hr. rewrite Hl in Hr. exists i'. subst i'. simpl. repeat split; auto.
    destruct (inv_row _ _ (flush_inv _ _ _ Hf HI) _ (nth_error_In _ _ Hn') eq_refl) as [t [Ht [Hin _]]].
    simpl in *. injection Ht as <-. exact Hin.
  Qed.

  (* the statements emitted by one operation, each justified by an object of the state before it *)
  Definition routed (l : list inst) (w : write) : Prop :=
    match w with
    | WIns pre s r =>
        s = match pre with Some t => t | None => sc r end /\
        exists i, In i l /\ i_life i = Pending /\ i_cur i = r /\ i_tok i = pre
    | WUpd s r => exists i, In i l /\ i_life i = Persistent /\ i_tok i = Some s /\ r_pk (i_cur i) = r_pk r
    | WDel s k => exists i, In i l /\ i_life i = Persistent /\ i_tok i = Some s /\ r_pk (i_cur i) = k
    end.

  Lemma justified_routed : forall l w, justified sc l w -> routed l w.
  Proof.
    intros l w [i [Hi J]]. destruct w; simpl in *.
    - destruct J as [? [? [? ?]]]. split; auto. exists i. auto.
    - destruct J as [? [? ?]]. exists i. repeat split; auto. congruence.
    - destruct J as [? [? ?]]. exists i. auto.
  Qed.

  Lemma flush_routed : forall st st', flush sc st = Ok st' ->
    exists delta, wlog st' = wlog st ++ delta /\ Forall (routed (insts st)) delta.
  Proof.
    intros st st' H. destruct (flush_log _ _ _ H) as [delta [Hw [_ HJ]]]. exists delta. split; auto.
    eapply Forall_impl; [|exact HJ]. apply justified_routed.
  Qed.

  Lemma query_routed : forall st q tgt st' os, reach st -> do_query sc ec st q tgt = Ok (st', os) ->
    exists delta, wlog st' = wlog st ++ delta /\ Forall (routed (insts st)) delta.
  Proof.
    intros st q tgt st' os HR H. pose proof (proj1 (reachable_good _ _ _ _ _ Hwf HR)) as HI.
    destruct (do_query_spec _ _ _ _ _ _ _ HI H) as [_ [st1 [Ef [_ [_ [Hw _]]]]]].
    rewrite Hw. now apply flush_routed.
  Qed.

  Lemma get_clean_frame : forall st k t st' ro, Inv (insts st) (db st) -> Forall clean (insts st) ->
    do_get sc ic ec st k t = Ok (st', ro) -> wlog st' = wlog st /\ db st' = db st /\ exists x, insts st' = insts st ++ x.
  Proof.
    intros st k t st' ro HI Hc H. destruct (do_get_cases _ _ _ _ _ _ _ _ H) as [[-> _]|[os [Eq _]]].
    - repeat split; auto. exists []. now rewrite app_nil_r.
    - destruct (do_query_spec _ _ _ _ _ _ _ HI Eq) as [_ [st1 [Ef [Hd [_ [Hw [_ [_ [_ [[x Hx] _]]]]]]]]]].
      destruct (flush_clean_id _ _ _ Hc Ef) as [Hi [Hd1 [Hw1 _]]]. repeat split; try congruence.
      exists x. congruence.
  Qed.

  Lemma do_set_frame : forall st o g v st', do_set st o g v = Ok st' ->
    wlog st' = wlog st /\ db st' = db st /\ rlog st' = rlog st /\
    insts st' = upd_nth o (fun i => mkInst (mkRow (r_pk (i_cur i)) g v) (i_old i) (i_life i) (i_tok i)) (insts st).
  Proof.
    intros st o g v st' H. unfold do_set in H. destruct (nth_error (insts st) o) as [i0|]; [|discriminate].
    destruct (i_life i0); try discriminate; injection H as <-; simpl; auto.
  Qed.

  (* INSERT goes to the preset token / shard_chooser(row); UPDATE and DELETE go to the identity token
     of the persistent object with that primary key; nothing else is written *)
  Theorem writes_are_routed : forall st o st' r, reach st -> step sc ic ec st o = Ok (st', r) ->
    exists delta, wlog st' = wlog st ++ delta /\ Forall (routed (insts st)) delta.
  Proof.
    intros st o st' r HR H. pose proof (proj1 (reachable_good _ _ _ _ _ Hwf HR)) as HI.
    assert (Hnil : forall s, wlog s = wlog st -> exists delta, wlog s = wlog st ++ delta /\ Forall (routed (insts st)) delta)
      by (intros s Hs; exists []; rewrite app_nil_r; auto).
    destruct o; simpl in H.
    - injection H as <- <-. now apply Hnil.
    - unfold do_set in H. destruct (nth_error (insts st) o) as [i0|]; [|discriminate].
      destruct (i_life i0); try discriminate; injection H as <- <-; now apply Hnil.
    - destruct (flush sc st) as [s|] eqn:E; [|discriminate]. injection H as <- <-. now apply flush_routed.
    - unfold do_commit in H. destruct (flush sc st) as [s|] eqn:E; [|discriminate]. injection H as <- <-. simpl.
      now apply flush_routed.
    - unfold do_delete in H. destruct (forallb (valid_del st) os) eqn:Ev; [|discriminate].
      destruct (flush sc st) as [st1|] eqn:Ef; [|discriminate].
      destruct (delete_all st1 (dedup os)) as [s2|] eqn:Ed; [|discriminate]. injection H as <- <-.
      destruct (delete_all_spec _ _ _ Ed) as [Hw2 _].
      destruct (flush_routed _ _ Ef) as [delta [Hw HF]]. exists (delta ++ flat_map (del_of st1) (dedup os)).
      split; [rewrite Hw2, Hw; now rewrite app_assoc|]. apply Forall_app. split; auto.
      apply Forall_forall. intros w Hin. apply in_flat_map in Hin. destruct Hin as [o [Ho Hw']].
      apply (proj1 (in_dedup _ _)) in Ho. rewrite forallb_forall in Ev. specialize (Ev _ Ho). unfold valid_del in Ev.
      destruct (nth_error (insts st) o) as [i0|] eqn:En; [|discriminate].
      destruct (i_life i0) eqn:El; try discriminate. destruct (i_tok i0) as [t|] eqn:Et; [|discriminate].
      destruct (Forall2_nth _ _ _ _ _ (flush_frel _ _ _ Ef) En) as [i1 [En1 Hr]].
      unfold frel in Hr. rewrite El in Hr. destruct Hr as [_ [Ht1 Hc1]].
      unfold del_of in Hw'. rewrite En1, Ht1, Et in Hw'. destruct Hw' as [<-|[]]. simpl.
      exists i0. repeat split; auto; [eapply nth_error_In; eauto | congruence].
    - destruct (do_query sc ec st q tgt) as [[s os]|] eqn:E; [|discriminate]. injection H as <- <-.
      eapply query_routed; eauto.
    - destruct (do_get sc ic ec st k t) as [[s ro]|] eqn:E; [|discriminate]. injection H as <- <-.
      destruct (do_get_cases _ _ _ _ _ _ _ _ E) as [[-> _]|[os [Eq _]]]; [now apply Hnil | eapply query_routed; eauto].
    - unfold do_refresh in H. destruct (nth_error (insts st) o) as [i0|] eqn:En; [|discriminate].
      destruct (i_life i0) eqn:El; try discriminate. destruct (i_tok i0) as [t|] eqn:Et; [|discriminate].
      match type of H with context [flush sc ?s0] => destruct (flush sc s0) as [st1|] eqn:Ef; [|discriminate] end.
      destruct (find_pk (r_pk (i_cur i0)) (db st1 t)) as [rw|]; [|discriminate]. injection H as <- <-. simpl.
      destruct (flush_log _ _ _ Ef) as [delta [Hw [_ HJ]]]. simpl in *. exists delta. split; auto.
      eapply Forall_impl; [|exact HJ]. intros w [i [Hi J]].
      destruct (in_upd_nth _ _ _ _ _ En Hi) as [Hi' | ->]; [apply justified_routed; exists i; auto|].
      destruct (inv_row _ _ HI i0 (nth_error_In _ _ En) El) as [t0 [_ [_ Hpk]]].
      destruct w; simpl in *.
      + destruct J as [J _]. congruence.
      + destruct J as [? [? ?]]. exists i0. repeat split; auto; try congruence. eapply nth_error_In; eauto.
      + destruct J as [? [? ?]]. exists i0. repeat split; auto; try congruence. eapply nth_error_In; eauto.
    - unfold do_merge in H. destruct (flush sc st) as [st1|] eqn:Ef; [|discriminate].
      pose proof (flush_inv _ _ _ Ef HI) as HI1. pose proof (flush_clean _ _ _ Ef HI) as Hc1.
      destruct (do_get sc ic ec st1 (r_pk r0) (Some t)) as [[st2 ro]|] eqn:Eg; [|discriminate].
      destruct (get_clean_frame _ _ _ _ _ HI1 Hc1 Eg) as [Hw2 _].
      destruct ro as [o|].
      + destruct (do_set st2 o (r_grp r0) (r_val r0)) as [st3|] eqn:Es; [|discriminate]. injection H as <- <-.
        destruct (do_set_frame _ _ _ _ _ Es) as [Hw3 _]. rewrite Hw3, Hw2. now apply flush_routed.
      + injection H as <- <-. simpl. rewrite Hw2. now apply flush_routed.
  Qed.

  (* the data the session sees is exactly the replay of the emitted statements on the initial data,
     and every persistent object's last flushed row is stored in the shard named by its token *)
  Theorem db_is_replay_of_log : forall st, reach st -> apply_writes (wlog st) d0 = Ok (db st).
  Proof. intros st HR. exact (proj2 (reachable_good _ _ _ _ _ Hwf HR)). Qed.

  Theorem persistent_row_in_token_shard : forall st i, reach st -> In i (insts st) -> i_life i = Persistent ->
    exists t, i_tok i = Some t /\ In (i_old i) (db st t) /\ r_pk (i_old i) = r_pk (i_cur i).
  Proof. intros st i HR. exact (inv_row _ _ (proj1 (reachable_good _ _ _ _ _ Hwf HR)) i). Qed.

  (* ===== clause 2: queries ===== *)

  (* after the autoflush, the objects returned are, in this order, one per row matching the query in
     each shard of [execute_chooser q] (or of the single shard given explicitly), rows of a shard in
     primary key order; every object carries the shard it was read from as identity token and shows
     exactly the attribute values of that row.  The legacy Query API removes repeated objects. *)
  Theorem query_is_union_of_chosen_shards : forall st q tgt legacy st' r,
    reach st -> step sc ic ec st (OQuery q tgt legacy) = Ok (st', r) ->
    exists os st1,
      r = ROids (if legacy then dedup os else os) /\
      flush sc st = Ok st1 /\ db st' = db st1 /\
      rlog st' = rlog st ++ shards_for ec q tgt /\
      map (view (insts st')) os = map Some (expected q (shards_for ec q tgt) (db st')).
  Proof.
    intros st q tgt legacy st' r HR H. pose proof (proj1 (reachable_good _ _ _ _ _ Hwf HR)) as HI.
    simpl in H. destruct (do_query sc ec st q tgt) as [[s os]|] eqn:E; [|discriminate]. injection H as <- <-.
    destruct (do_query_spec _ _ _ _ _ _ _ HI E) as [_ [st1 [Ef [Hd [_ [_ [Hr [_ [_ [_ Hv]]]]]]]]]].
    exists os, st1. repeat split; auto.
    destruct (flush_parts _ _ _ Ef) as [? [? [? [? [_ [_ [_ [_ Hr1]]]]]]]]. now rewrite Hr, Hr1.
  Qed.

  (* as a multiset: the union of the matching rows of the chosen shards *)
  Theorem query_union_as_multiset : forall q ss d,
    Permutation (expected q ss d) (flat_map (fun s => map (pair s) (filter (qmatch q) (d s))) ss).
  Proof. exact expected_perm. Qed.

  Theorem legacy_query_same_objects : forall os, NoDup (dedup os) /\ forall o, In o (dedup os) <-> In o os.
  Proof. intros. split; [apply NoDup_dedup | intros; apply in_dedup]. Qed.

  (* ===== clause 3: identity ===== *)

  (* the identity map is keyed by (pk, token): two different objects never share both *)
  Theorem identity_keys_distinct : forall st o1 o2 i1 i2 t1 t2,
    reach st -> nth_error (insts st) o1 = Some i1 -> nth_error (insts st) o2 = Some i2 -> o1 <> o2 ->
    i_life i1 = Persistent -> i_life i2 = Persistent -> i_tok i1 = Some t1 -> i_tok i2 = Some t2 ->
    (r_pk (i_cur i1), t1) <> (r_pk (i_cur i2), t2).
  Proof.
    intros st o1 o2 i1 i2 t1 t2 HR H1 H2 Hne L1 L2 T1 T2 He.
    pose proof (proj1 (reachable_good _ _ _ _ _ Hwf HR)) as HI.
    eapply (keys_distinct _ _ _ _ _ (r_pk (i_cur i1), t1) (inv_key _ _ HI) H1 H2 Hne).
    - unfold key_of. now rewrite L1, T1.
    - unfold key_of. now rewrite L2, T2, He.
  Qed.

  (* rows matching the query in two different chosen shards come back as two different objects -
     in particular when they have the same primary key *)
  Theorem same_pk_different_shards_distinct : forall st q tgt st' os s1 s2 r1 r2,
    reach st -> do_query sc ec st q tgt = Ok (st', os) ->
    In s1 (shards_for ec q tgt) -> In s2 (shards_for ec q tgt) -> s1 <> s2 ->
    In r1 (db st' s1) -> qmatch q r1 = true -> In r2 (db st' s2) -> qmatch q r2 = true ->
    exists o1 o2, In o1 os /\ In o2 os /\ o1 <> o2 /\
                  view (insts st') o1 = Some (s1, r1) /\ view (insts st') o2 = Some (s2, r2).
  Proof.
    intros st q tgt st' os s1 s2 r1 r2 HR H S1 S2 Hne R1 Q1 R2 Q2.
    pose proof (proj1 (reachable_good _ _ _ _ _ Hwf HR)) as HI.
    destruct (do_query_spec _ _ _ _ _ _ _ HI H) as [_ [st1 [_ [_ [_ [_ [_ [_ [_ [_ Hv]]]]]]]]]].
    assert (Hfind : forall s r, In (s, r) (expected q (shards_for ec q tgt) (db st')) ->
                    exists o, In o os /\ view (insts st') o = Some (s, r)).
    { intros s r Hin. assert (Hm : In (Some (s, r)) (map (view (insts st')) os)) by (rewrite Hv; now apply in_map).
      apply in_map_iff in Hm. destruct Hm as [o [? ?]]. eauto. }
    destruct (Hfind s1 r1) as [o1 [I1 V1]]; [apply in_expected; auto|].
    destruct (Hfind s2 r2) as [o2 [I2 V2]]; [apply in_expected; auto|].
    exists o1, o2. repeat split; auto. intros ->. rewrite V1 in V2. congruence.
  Qed.

  (* get with an identity token consults only that shard: the identity map under (pk, token), then at
     most one SELECT, on that shard; the answer is an object of that shard with that primary key, or
     None exactly when the shard has no such row *)
  Lemma get_with_token_inv : forall st k t st' res,
    Inv (insts st) (db st) -> do_get sc ic ec st k (Some t) = Ok (st', res) ->
    (rlog st' = rlog st \/ rlog st' = rlog st ++ [t]) /\
    match res with
    | Some o => exists i, nth_error (insts st') o = Some i /\ i_tok i = Some t /\ r_pk (i_cur i) = k /\
                          has_pk k (db st' t) = true
    | None => has_pk k (db st' t) = false
    end.
  Proof.
    intros st k t st' res HI H.
    destruct (do_get_cases _ _ _ _ _ _ _ _ H) as [[-> [o [t' [-> [Hl ->]]]]]|[os [Eq Hres]]].
    - split; auto. destruct (lookup_some _ _ _ _ Hl) as [i [Hn [Hlf [Ht Hk]]]]. exists i. repeat split; auto.
      destruct (inv_row _ _ HI i (nth_error_In _ _ Hn) Hlf) as [t0 [Ht0 [Hin Hpk]]].
      rewrite Ht in Ht0. injection Ht0 as <-. apply has_pk_true. rewrite <- Hk, <- Hpk. unfold pks. now apply in_map.
    - destruct (do_query_spec _ _ _ _ _ _ _ HI Eq) as [_ [st1 [Ef [_ [_ [_ [Hr [_ [_ [_ Hv]]]]]]]]]].
      simpl in Hr, Hv. unfold expected in Hv. simpl in Hv. rewrite app_nil_r in Hv. split.
      + right. destruct (flush_parts _ _ _ Ef) as [? [? [? [? [_ [_ [_ [_ Hr1]]]]]]]]. now rewrite Hr, Hr1.
      + destruct Hres as [[-> Hd]|[o [-> Hd]]].
        * apply dedup_nil in Hd. subst os. simpl in Hv. apply select_pk_nil.
          destruct (sql_select (QPk k) (db st' t)); [auto | discriminate].
        * assert (Ho : In o os) by (apply in_dedup; rewrite Hd; now left).
          assert (Hm : In (view (insts st') o) (map (view (insts st')) os)) by now apply in_map.
          rewrite Hv in Hm. apply in_map_iff in Hm. destruct Hm as [[t' r] [Hvo Hm]].
          apply in_map_iff in Hm. destruct Hm as [r' [He Hsel]]. injection He as <- <-.
          apply in_select in Hsel. destruct Hsel as [Hin Hq]. simpl in Hq. apply Z.eqb_eq in Hq.
          unfold view in Hvo. destruct (nth_error (insts st') o) as [i|] eqn:En; [|discriminate].
          destruct (i_tok i) as [ti|] eqn:Eti; [|discriminate]. injection Hvo as E1 E2.
          exists i. repeat split; try congruence. apply has_pk_true. rewrite <- Hq. unfold pks. now apply in_map.
  Qed.

  Theorem get_with_token_hits_only_that_shard : forall st k t st' res,
    reach st -> do_get sc ic ec st k (Some t) = Ok (st', res) ->
    (rlog st' = rlog st \/ rlog st' = rlog st ++ [t]) /\
    match res with
    | Some o => exists i, nth_error (insts st') o = Some i /\ i_tok i = Some t /\ r_pk (i_cur i) = k /\
                          has_pk k (db st' t) = true
    | None => has_pk k (db st' t) = false
    end.
  Proof. intros st k t st' res HR. exact (get_with_token_inv _ _ _ _ _ (proj1 (reachable_good _ _ _ _ _ Hwf HR))). Qed.

  (* ===== several deletes in one flush ===== *)

  (* deleting any set of persistent objects in ONE flush removes exactly the rows of their identities
     (pk, token), each from the shard named by the token: a row of shard s survives iff no deleted object
     has token s and that primary key - in particular a row with the same primary key in ANOTHER shard is
     deleted only if its own object is deleted too, and then it is.  One DELETE per object is emitted. *)
  Theorem flush_deletes_exactly_the_deleted_identities : forall st os st',
    reach st -> do_delete sc st os = Ok st' ->
    exists st1, flush sc st = Ok st1 /\
      wlog st' = wlog st1 ++ flat_map (del_of st1) (dedup os) /\
      (forall o, In o os -> exists i, nth_error (insts st) o = Some i /\ i_life i = Persistent /\
                            del_of st1 o = match i_tok i with Some t => [WDel t (r_pk (i_cur i))] | None => [] end) /\
      (forall s x, In x (db st' s) <->
                   In x (db st1 s) /\ ~ exists o, In o os /\ is_identity st1 o s (r_pk x)).
  Proof.
    intros st os st' HR H. unfold do_delete in H. destruct (forallb (valid_del st) os) eqn:Ev; [|discriminate].
    destruct (flush sc st) as [st1|] eqn:Ef; [|discriminate]. exists st1. split; auto.
    destruct (delete_all_spec _ _ _ H) as [Hw [_ [_ [_ Hdb]]]]. split; auto. split.
    - intros o Ho. rewrite forallb_forall in Ev. specialize (Ev _ Ho). unfold valid_del in Ev.
      destruct (nth_error (insts st) o) as [i0|] eqn:En; [|discriminate].
      destruct (i_life i0) eqn:El; try discriminate. destruct (i_tok i0) as [t|] eqn:Et; [|discriminate].
      destruct (Forall2_nth _ _ _ _ _ (flush_frel _ _ _ Ef) En) as [i1 [En1 Hr]].
      unfold frel in Hr. rewrite El in Hr. destruct Hr as [_ [Ht1 Hc1]].
      exists i0. repeat split; auto. unfold del_of. now rewrite En1, Ht1, Et, Hc1.
    - intros s x. rewrite Hdb. split; intros [Hx Hn]; split; auto; intros [o [Ho Hi]]; apply Hn; exists o; split; auto;
        [now apply in_dedup | now apply (proj1 (in_dedup _ _))].
  Qed.

  (* ===== merge ===== *)

  (* merge of a detached object whose identity key is (pk, t): after the autoflush the target is looked
     up under (pk, t) only - identity map, then at most one SELECT on shard t.  The returned object shows
     the given values and either carries token t (and shard t has that primary key), or is a NEW pending
     object (no token yet) and shard t has no such row.  No other object changes. *)
  Theorem merge_targets_pk_and_token : forall st r t st' ro,
    reach st -> do_merge sc ic ec st r t = Ok (st', ro) ->
    exists st1 o i, flush sc st = Ok st1 /\ ro = Some o /\ db st' = db st1 /\
      (rlog st' = rlog st \/ rlog st' = rlog st ++ [t]) /\
      nth_error (insts st') o = Some i /\ i_cur i = r /\
      ((i_tok i = Some t /\ has_pk (r_pk r) (db st' t) = true) \/
       (i_life i = Pending /\ i_tok i = None /\ has_pk (r_pk r) (db st' t) = false /\ (length (insts st1) <= o)%nat)) /\
      (forall o' i', o' <> o -> nth_error (insts st1) o' = Some i' -> nth_error (insts st') o' = Some i').
  Proof.
    intros st r t st' ro HR H. pose proof (proj1 (reachable_good _ _ _ _ _ Hwf HR)) as HI.
    unfold do_merge in H. destruct (flush sc st) as [st1|] eqn:Ef; [|discriminate].
    pose proof (flush_inv _ _ _ Ef HI) as HI1. pose proof (flush_clean _ _ _ Ef HI) as Hc1.
    destruct (flush_parts _ _ _ Ef) as [? [? [? [? [_ [_ [_ [_ Hr1]]]]]]]].
    destruct (do_get sc ic ec st1 (r_pk r) (Some t)) as [[st2 ro2]|] eqn:Eg; [|discriminate].
    destruct (get_clean_frame _ _ _ _ _ HI1 Hc1 Eg) as [_ [Hd2 [xx Hx2]]].
    destruct (get_with_token_inv _ _ _ _ _ HI1 Eg) as [Hrl Hres].
    assert (Hkeep : forall o' i', nth_error (insts st1) o' = Some i' -> nth_error (insts st2) o' = Some i').
    { intros o' i' Hn. rewrite Hx2. rewrite nth_error_app1; auto. apply nth_error_Some. congruence. }
    destruct ro2 as [o|].
    - destruct (do_set st2 o (r_grp r) (r_val r)) as [st3|] eqn:Es; [|discriminate]. injection H as <- <-.
      destruct (do_set_frame _ _ _ _ _ Es) as [_ [Hd3 [Hr3 Hi3]]].
      destruct Hres as [i [Hn [Ht [Hk Hp]]]].
      exists st1, o, (mkInst (mkRow (r_pk (i_cur i)) (r_grp r) (r_val r)) (i_old i) (i_life i) (i_tok i)).
      split; auto. split; auto. split; [congruence|]. split; [rewrite Hr3, <- Hr1; exact Hrl|].
      split; [rewrite Hi3; exact (nth_upd_same _ _ _ _ Hn)|]. split; [simpl; rewrite Hk; now destruct r|].
      split; [left; simpl; split; auto; rewrite Hd3; exact Hp|].
      intros o' i' Hne Hn'. rewrite Hi3. rewrite nth_upd_other by auto. auto.
    - injection H as <- <-. simpl.
      exists st1, (length (insts st2)), (mkInst r r Pending None).
      split; auto. split; auto. split; auto. split; [rewrite <- Hr1; exact Hrl|].
      split; [rewrite nth_error_app2 by lia; now rewrite Nat.sub_diag|]. split; auto. split.
      + right. repeat split; auto. rewrite Hx2, app_length. lia.
      + intros o' i' _ Hn'. rewrite nth_error_app1; [now apply Hkeep|]. apply nth_error_Some. rewrite (Hkeep _ _ Hn'). discriminate.
  Qed.
End Thm.
