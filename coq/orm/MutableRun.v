(* C49 - executable entry point for the correspondence check.

   input   L [I kind; L [init0; init1]; L ops]     kind 0 dict, 1 list, 2 set (of the column)
           init  = L [] (NULL) | cont
           cont  = L [I 0; L pairs] | L [I 1; L items] | L [I 2; L items]
           tgt   = L [I 0; I r] session instance r | L [I 1; I r] unpickled copy r | L [I 2] the handle
           ops   = L [I 0; tgt; cop]   getattr(tgt).<method>
                   L [I 1; tgt; init]  tgt.data = <plain value> | None
                   L [I 2; tgt] h = tgt.data     L [I 3; tgt] tgt.data = h
                   L [I 4] flush  L [I 5] commit  L [I 6] rollback  L [I 7; I r] expire  L [I 8; I r] refresh
                   L [I 9; I r] copy[r] = loads(dumps(obj r))    L [I 10; I r] session.merge(copy[r])
           cop   = L [I 0; <dict op of C38>] | L [I 0; L [I 8; I k]] d.get(k)
                 | L [I 1; <list op of C38>] | L [I 1; L [I 14; I rev]] l.sort(reverse=rev)
                 | L [I 2; <set op of C38>]  | L [I 2; L [I 13; I x]] x in s
   output  one entry per operation; after a flush, a commit and the last operation the full form
           L [I rc; L [sess0; sess1]; L [copy0; copy1]; handle; L [db0; db1]; I in_transaction]
           otherwise the compact form (slot / cst reduced to their tags, no contents, no database)
           L [I rc; L [s0; s1]; L [c0; c1]; I has_handle; I in_transaction]
           sess  = L [slot; I modified; cst; I pk_loaded]       copy = L [] | L [same as sess]
           slot  = L [] absent | L [I 0] None | L [I 1; cont; L parents]
           cst   = L [I 0] no entry | L [I 1] NO_VALUE | L [I 2] None | L [I 3] the current value object
                 | L [I 4; cont] another value object
           handle = L [] | L [cont; L parents]        db = L [] | cont
   Sets are printed sorted. *)
From Coq Require Import List ZArith Bool Arith.
Import ListNotations.
From SAV.base Require Import Tree PySlice.
From SAV.orm Require Import CollBase CollList CollSet CollDict CollRun Mutable.
Local Open Scope nat_scope.

Definition of_cont (c : cont) : tree :=
  match c with
  | CD d => L [I 0; of_dict d]
  | CL l => L [I 1; of_list of_Z l]
  | CS s => L [I 2; of_list of_Z (zsort s)]
  end.
Definition of_ocont (c : option cont) : tree := match c with None => L [] | Some c' => of_cont c' end.

Definition as_cont (t : tree) : option cont :=
  match t with
  | L [I 0%Z; p] => option_map CD (as_dict p)
  | L [I 1%Z; l] => option_map CL (as_items l)
  | L [I 2%Z; l] => option_map (fun x => CS (dedup x)) (as_items l)
  | _ => None
  end.
Definition as_ocont (t : tree) : option (option cont) :=
  match t with L [] => Some None | _ => option_map Some (as_cont t) end.

Definition as_tgt (t : tree) : option tgt :=
  match t with
  | L [I 0%Z; r] => option_map TSess (as_nat r)
  | L [I 1%Z; r] => option_map TCopy (as_nat r)
  | L [I 2%Z] => Some THandle
  | _ => None
  end.

Definition as_cop (t : tree) : option cop :=
  match t with
  | L [I 0%Z; L [I 8%Z; I k]] => Some (ODGet k)
  | L [I 0%Z; o] => option_map OD (as_dop o)
  | L [I 1%Z; L [I 14%Z; b]] => option_map OLSort (as_bool b)
  | L [I 1%Z; o] => option_map OL (as_lop o)
  | L [I 2%Z; L [I 13%Z; I x]] => Some (OSContains x)
  | L [I 2%Z; o] => option_map OS (as_sop o)
  | _ => None
  end.

Definition as_op (t : tree) : option op :=
  match t with
  | L [I 0%Z; g; c] => match as_tgt g, as_cop c with Some g', Some c' => Some (Mut g' c') | _, _ => None end
  | L [I 1%Z; g; c] => match as_tgt g, as_ocont c with Some g', Some c' => Some (SetPlain g' c') | _, _ => None end
  | L [I 2%Z; g] => option_map Save (as_tgt g)
  | L [I 3%Z; g] => option_map SetH (as_tgt g)
  | L [I 4%Z] => Some Flush
  | L [I 5%Z] => Some Commit
  | L [I 6%Z] => Some Rollback
  | L [I 7%Z; r] => option_map Expire (as_nat r)
  | L [I 8%Z; r] => option_map Refresh (as_nat r)
  | L [I 9%Z; r] => option_map Pickle (as_nat r)
  | L [I 10%Z; r] => option_map Merge (as_nat r)
  | _ => None
  end.

Definition of_slot (w : world) (s : slotv) : tree :=
  match s with
  | Absent => L []
  | Pres None => L [I 0]
  | Pres (Some o) => L [I 1; of_cont (vcont (heap w o)); of_list of_nat (vpar (heap w o))]
  end.
Definition of_cst (w : world) (ps : pstate) : tree :=
  match cst ps with
  | None => L [I 0]
  | Some ONoValue => L [I 1]
  | Some (OVal None) => L [I 2]
  | Some (OVal (Some q)) =>
      match slot ps with
      | Pres (Some o) => if Nat.eqb q o then L [I 3] else L [I 4; of_cont (vcont (heap w q))]
      | _ => L [I 4; of_cont (vcont (heap w q))]
      end
  end.
Definition of_pstate (w : world) (p : nat) : tree :=
  let ps := objs w p in L [of_slot w (slot ps); of_bool (pmod ps); of_cst w ps; of_bool (idp ps)].

Definition observe (w : world) (rc : Z) : tree :=
  L [I rc;
     L (map (of_pstate w) rows);
     L (map (fun r => match copies w r with None => L [] | Some p => of_pstate w p end) rows);
     match hdl w with
     | None => L []
     | Some o => L [of_cont (vcont (heap w o)); of_list of_nat (vpar (heap w o))]
     end;
     L (map (fun r => of_ocont (db w r)) rows);
     of_bool (intrans w)].

(* the compact form, for the operations that are neither a flush / commit nor the last one *)
Definition of_pstate_small (w : world) (p : nat) : tree :=
  let ps := objs w p in
  L [I (match slot ps with Absent => 0 | Pres None => 1 | Pres (Some _) => 2 end)%Z;
     of_bool (pmod ps);
     I (match cst ps with
        | None => 0 | Some ONoValue => 1 | Some (OVal None) => 2
        | Some (OVal (Some q)) =>
            match slot ps with Pres (Some o) => if Nat.eqb q o then 3 else 4 | _ => 4 end
        end)%Z;
     of_bool (idp ps)].
Definition observe_small (w : world) (rc : Z) : tree :=
  L [I rc;
     L (map (of_pstate_small w) rows);
     L (map (fun r => match copies w r with None => L [] | Some p => of_pstate_small w p end) rows);
     of_bool (match hdl w with None => false | Some _ => true end);
     of_bool (intrans w)].

Definition ord_id (l : list Z) : list Z := l.

Section Run.
Variable ov : kind -> list meth.
Fixpoint run_obs (ops : list op) (w : world) : list tree :=
  match ops with
  | [] => []
  | o :: r =>
      let '(w', rc) := step ord_id ov w o in
      let full := match o, r with
                  | Flush, _ | Commit, _ => true
                  | _, [] => true
                  | _, _ => false
                  end in
      (if full then observe w' rc else observe_small w' rc) :: run_obs r w'
  end.

Definition run_with (t : tree) : tree :=
  match t with
  | L [I _; L [i0; i1]; ops] =>
      match as_ocont i0, as_ocont i1, as_list_of as_op ops with
      | Some d0, Some d1, Some os => L (run_obs os (init_world d0 d1))
      | _, _, _ => bad_input
      end
  | _ => bad_input
  end.
End Run.

(* the override tables as they are in the source NOW (the per-run generated file Gen_C49.v carries
   the regenerated ones; the check runs the model with those) *)
Definition ov_now (k : kind) : list meth := in_place_mutators k.
Definition run_case : tree -> tree := run_with ov_now.
