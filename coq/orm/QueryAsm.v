(* C41: row -> entity assembly through the identity map; legacy de-duplication; count / exists *)
From Coq Require Import List ZArith Bool Arith Lia.
Import ListNotations.
From SAV.sql Require Import Val3.
From SAV.orm Require Import Query QueryCrit QueryShapes.

(* ---------- assembly is one-to-one and keeps every value ---------- *)
Lemma asm_item_val : forall m k v, item_val (snd (asm_item m k v)) = v.
Proof.
  intros m k v. unfold asm_item. destruct k as [t|]; [|reflexivity].
  destruct v as [pk|]; [|reflexivity]. destruct (im_find m t pk); reflexivity.
Qed.

Lemma asm_row_val : forall ks r m, length r = length ks -> map item_val (snd (asm_row m ks r)) = r.
Proof.
  induction ks as [|k ks IH]; intros r m Hl.
  - destruct r; [reflexivity | discriminate].
  - destruct r as [|v r]; [discriminate|]. cbn [asm_row].
    pose proof (asm_item_val m k v) as Hv. destruct (asm_item m k v) as [m1 i]. cbn [snd] in Hv.
    specialize (IH r m1 (f_equal pred Hl)). destruct (asm_row m1 ks r) as [m2 is]. cbn [snd map] in *.
    rewrite Hv, IH. reflexivity.
Qed.

Lemma assemble_val : forall ks rows m, Forall (fun r => length r = length ks) rows ->
  map (map item_val) (assemble m ks rows) = rows.
Proof.
  intros ks rows. induction rows as [|r rows IH]; intros m H; [reflexivity|].
  inversion H as [|? ? Hr Hrest]; subst. cbn [assemble].
  pose proof (asm_row_val ks r m Hr) as Hv. destruct (asm_row m ks r) as [m1 is]. cbn [snd] in Hv.
  cbn [map]. rewrite Hv, (IH m1 Hrest). reflexivity.
Qed.

Lemma assemble_length : forall ks rows m, length (assemble m ks rows) = length rows.
Proof.
  intros ks rows. induction rows as [|r rows IH]; intros m; [reflexivity|].
  cbn [assemble]. destruct (asm_row m ks r) as [m1 is]. cbn [length]. rewrite IH. reflexivity.
Qed.

(* ---------- the rows of a compiled query have one value per result column ---------- *)
Lemma insert_k_forall : forall (P : krow -> Prop) r l, P r -> Forall P l -> Forall P (insert_k r l).
Proof.
  intros P r l Hr Hl. induction Hl as [|x l Hx Hl IH]; cbn [insert_k].
  - constructor; [exact Hr | constructor].
  - destruct (key_leb (fst r) (fst x)); constructor; auto.
Qed.

Lemma order_rows_forall : forall (P : list val -> Prop) l,
  Forall (fun kr => P (snd kr)) l -> Forall P (order_rows l).
Proof.
  intros P l H. unfold order_rows.
  assert (Hs : Forall (fun kr => P (snd kr)) (fold_right insert_k [] l)).
  { induction H as [|x l Hx Hl IH]; cbn [fold_right]; [constructor|]. apply insert_k_forall; assumption. }
  induction Hs; cbn [map]; constructor; assumption.
Qed.

Lemma sel_rows_len : forall d s, Forall (fun kr => length (snd kr) = length (s_cols s)) (sel_rows d s).
Proof.
  intros d s. unfold sel_rows. apply Forall_forall. intros kr Hin. apply in_map_iff in Hin.
  destruct Hin as [e [He _]]. subst kr. cbn [snd]. apply map_length.
Qed.

Lemma core_rows_len : forall d q,
  Forall (fun kr => length (snd kr) = length (col_kinds q)) (core_rows d (orm_to_core d q)).
Proof.
  intros d q. destruct q as [c|k|outer t sp sc m|outer sc sp|sc|a b|c|a b post|vals sc]; cbn [orm_to_core core_rows col_kinds].
  - exact (sel_rows_len d (sel_p (tr_pcrit d 0 c) [ECol 0 ColId])).
  - exact (sel_rows_len d {| s_tab := TabC; s_alias := 0; s_joins := []; s_where := tr_ccrit 0 k;
                             s_cols := [ECol 0 ColId]; s_order := [ECol 0 ColId] |}).
  - pose proof (sel_rows_len d (sel_pc outer (on_pc t) (BAnd (tr_sx 0 ColX sp) (tr_sx 1 ColY sc)) (cols_pc m))) as H.
    destruct m; exact H.
  - exact (sel_rows_len d (sel_cp outer (BAnd (tr_sx 0 ColY sc) (tr_sx 1 ColX sp)))).
  - unfold group_count. apply Forall_forall. intros kr Hin. apply in_map_iff in Hin.
    destruct Hin as [k [Hk _]]. subst kr. reflexivity.
  - apply Forall_forall. intros kr Hin. apply in_map_iff in Hin. destruct Hin as [r [Hr Hin]]. subst kr.
    cbn [snd]. apply dedup_rows_in in Hin. apply in_app_or in Hin.
    assert (Hl : length r = 2).
    { destruct Hin as [Hin|Hin]; apply in_map_iff in Hin; destruct Hin as [kr [Hkr Hin]]; subst r.
      - pose proof (sel_rows_len d (sel_p (tr_pcrit d 0 a) [ECol 0 ColId; ECol 0 ColX])) as H.
        rewrite Forall_forall in H. exact (H kr Hin).
      - pose proof (sel_rows_len d (sel_p (tr_pcrit d 0 b) [ECol 0 ColId; ECol 0 ColX])) as H.
        rewrite Forall_forall in H. exact (H kr Hin). }
    destruct r as [|x [|y r]]; try discriminate. reflexivity.
  - exact (sel_rows_len d (sel_n (tr_ncrit 0 c))).
  - apply Forall_forall. intros kr Hin. apply in_map_iff in Hin. destruct Hin as [r [Hr Hin]]. subst kr.
    cbn [snd]. apply filter_In in Hin. destruct Hin as [Hin _]. apply dedup_rows_in in Hin. apply in_app_or in Hin.
    assert (Hl : length r = 4).
    { destruct Hin as [Hin|Hin]; apply in_map_iff in Hin; destruct Hin as [kr [Hkr Hin]]; subst r.
      - pose proof (sel_rows_len d (sel_call (tr_sx 0 ColY a))) as H. rewrite Forall_forall in H. exact (H kr Hin).
      - pose proof (sel_rows_len d (sel_call (tr_sx 0 ColY b))) as H. rewrite Forall_forall in H. exact (H kr Hin). }
    destruct r as [|x r]; [discriminate | reflexivity].
  - pose proof (sel_rows_len d (sel_sibs sc)) as H. destruct vals; exact H.
Qed.

Lemma core_exec_len : forall d q,
  Forall (fun r => length r = length (col_kinds q)) (core_exec d (orm_to_core d q)).
Proof. intros d q. unfold core_exec. apply order_rows_forall. apply core_rows_len. Qed.

(* ---------- the clause of the property: entities / values correspond one-to-one with the Core rows ---------- *)
Theorem orm_rows_biject_core_rows : forall d q,
  map (map item_val) (orm_exec d q false) = core_exec d (orm_to_core d q).
Proof. intros d q. unfold orm_exec. apply assemble_val. apply core_exec_len. Qed.

Theorem orm_rows_meaning : forall d q, query_ok d q = true ->
  map (map item_val) (orm_exec d q false) = meaning d q.
Proof. intros d q H. rewrite orm_rows_biject_core_rows. apply core_exec_meaning. exact H. Qed.

(* ---------- count / exists ---------- *)
Theorem count_exists_agree : forall d q,
  orm_count d q = length (orm_exec d q false) /\
  orm_exists d q = negb (Nat.eqb (length (orm_exec d q false)) 0).
Proof.
  intros d q. unfold orm_count, orm_exists, orm_exec. rewrite assemble_length.
  split; [reflexivity|]. destruct (core_exec d (orm_to_core d q)); reflexivity.
Qed.

(* the same with LIMIT / OFFSET on the statement *)
Lemma in_firstn : forall (A : Type) n (l : list A) x, In x (firstn n l) -> In x l.
Proof.
  intros A n. induction n as [|n IH]; intros l x H; [destruct H|]. destruct l as [|y l]; [destruct H|].
  cbn [firstn] in H. destruct H as [H|H]; [left; exact H | right; exact (IH _ _ H)].
Qed.
Lemma in_skipn : forall (A : Type) n (l : list A) x, In x (skipn n l) -> In x l.
Proof.
  intros A n. induction n as [|n IH]; intros l x H; [exact H|]. destruct l as [|y l]; [destruct H|].
  cbn [skipn] in H. right. exact (IH _ _ H).
Qed.
Lemma slice_forall : forall (A : Type) (P : A -> Prop) off lim (l : list A), Forall P l -> Forall P (slice off lim l).
Proof.
  intros A P off lim l H. rewrite Forall_forall in *. unfold slice.
  destruct lim as [n|]; intros x Hx.
  - apply in_firstn in Hx. apply in_skipn in Hx. exact (H x Hx).
  - apply in_skipn in Hx. exact (H x Hx).
Qed.

Theorem orm_rows_biject_core_rows_sl : forall d q off lim,
  map (map item_val) (orm_exec_sl d q off lim false) = slice off lim (core_exec d (orm_to_core d q)).
Proof. intros. unfold orm_exec_sl. apply assemble_val. apply slice_forall. apply core_exec_len. Qed.

Theorem orm_rows_meaning_sl : forall d q off lim, query_ok d q = true ->
  map (map item_val) (orm_exec_sl d q off lim false) = slice off lim (meaning d q).
Proof. intros d q off lim H. rewrite orm_rows_biject_core_rows_sl, (core_exec_meaning d q H). reflexivity. Qed.

Theorem count_exists_agree_sl : forall d q off lim,
  orm_count_sl d q off lim = length (orm_exec_sl d q off lim false) /\
  orm_exists_sl d q off lim = negb (Nat.eqb (length (orm_exec_sl d q off lim false)) 0).
Proof.
  intros. unfold orm_count_sl, orm_exists_sl, orm_exec_sl. rewrite assemble_length.
  split; [reflexivity|]. destruct (slice off lim (core_exec d (orm_to_core d q))); reflexivity.
Qed.

(* legacy Query: Result.unique() drops repeated rows; harmless exactly when there is nothing to drop *)
Fixpoint distinct_items (l seen : list (list item)) : bool :=
  match l with
  | [] => true
  | r :: l' => negb (existsb (items_eqb r) seen) && distinct_items l' (r :: seen)
  end.

Lemma unique_items_distinct : forall l seen, distinct_items l seen = true -> unique_items l seen = l.
Proof.
  induction l as [|r l IH]; intros seen H; [reflexivity|]. cbn [distinct_items] in H.
  apply andb_true_iff in H. destruct H as [H1 H2]. apply negb_true_iff in H1.
  cbn [unique_items]. rewrite H1. f_equal. apply IH. exact H2.
Qed.

Theorem count_agree_legacy_guarded : forall d q,
  distinct_items (orm_exec d q false) [] = true ->
  orm_exec d q true = orm_exec d q false /\ orm_count d q = length (orm_exec d q true).
Proof.
  intros d q H. assert (E : orm_exec d q true = orm_exec d q false).
  { unfold orm_exec in *. apply unique_items_distinct. exact H. }
  split; [exact E|]. rewrite E. apply count_exists_agree.
Qed.

Lemma unique_items_length : forall l seen, length (unique_items l seen) <= length l.
Proof.
  induction l as [|r l IH]; intros seen; [apply le_n|]. cbn [unique_items].
  destruct (existsb (items_eqb r) seen); cbn [length].
  - specialize (IH seen). lia.
  - specialize (IH (r :: seen)). lia.
Qed.

(* in every case the legacy result is a sub-multiset: never more rows than count() *)
Theorem legacy_rows_le_count : forall d q, length (orm_exec d q true) <= orm_count d q.
Proof.
  intros d q. destruct (count_exists_agree d q) as [Hc _]. rewrite Hc.
  unfold orm_exec. apply unique_items_length.
Qed.

Theorem legacy_rows_le_count_sl : forall d q off lim,
  length (orm_exec_sl d q off lim true) <= orm_count_sl d q off lim.
Proof.
  intros. destruct (count_exists_agree_sl d q off lim) as [Hc _]. rewrite Hc.
  unfold orm_exec_sl. apply unique_items_length.
Qed.

(* ---------- the identity map: one object per (identity class, primary key) ---------- *)
Definition wf_im (m : idmap) : Prop :=
  (forall i k o, nth_error m i = Some (k, o) -> o = i) /\ NoDup (map fst m).

Definition ent_ok (M : idmap) (k : ckind) (i : item) : Prop :=
  match k, i with
  | KEnt t, IEnt o pk => nth_error M o = Some ((t, pk), o)
  | KEnt _, INone => True
  | KVal, IVal _ => True
  | _, _ => False
  end.
Fixpoint items_ok (M : idmap) (ks : list ckind) (is : list item) : Prop :=
  match ks, is with
  | k :: ks', i :: is' => ent_ok M k i /\ items_ok M ks' is'
  | _, [] => True
  | [], _ :: _ => False
  end.

Definition extends (m M : idmap) : Prop := exists tl, M = m ++ tl.

Lemma extends_refl : forall m, extends m m.
Proof. intros m. exists []. symmetry. apply app_nil_r. Qed.
Lemma extends_trans : forall a b c, extends a b -> extends b c -> extends a c.
Proof. intros a b c [t1 H1] [t2 H2]. exists (t1 ++ t2). subst. rewrite app_assoc. reflexivity. Qed.

Lemma nth_extends : forall m M i x, extends m M -> nth_error m i = Some x -> nth_error M i = Some x.
Proof.
  intros m M i x [tl H] Hn. subst M. rewrite nth_error_app1; [exact Hn|].
  apply nth_error_Some. congruence.
Qed.

Lemma ent_ok_extends : forall m M k i, extends m M -> ent_ok m k i -> ent_ok M k i.
Proof.
  intros m M k i He H. destruct k as [t|], i as [o pk| |v]; cbn [ent_ok] in *; try exact H.
  apply (nth_extends m M); assumption.
Qed.
Lemma items_ok_extends : forall m M ks is, extends m M -> items_ok m ks is -> items_ok M ks is.
Proof.
  intros m M ks. induction ks as [|k ks IH]; intros is He H; destruct is as [|i is]; cbn [items_ok] in *; try exact H.
  destruct H as [H1 H2]. split; [apply (ent_ok_extends m M); assumption | apply IH; assumption].
Qed.

Lemma im_find_some : forall m t pk o, wf_im m -> im_find m t pk = Some o -> nth_error m o = Some ((t, pk), o).
Proof.
  intros m t pk o [Hpos _] H. unfold im_find in H.
  destruct (find (fun e => tab_eqb (fst (fst e)) t && Z.eqb (snd (fst e)) pk) m) as [[[t' pk'] o']|] eqn:E; [|discriminate].
  inversion H; subst o'. apply find_some in E. destruct E as [Hin Hb]. cbn [fst snd] in Hb.
  apply andb_true_iff in Hb. destruct Hb as [Ht Hk]. apply Z.eqb_eq in Hk. subst pk'.
  assert (t' = t) by (destruct t', t; try discriminate; reflexivity). subst t'.
  apply In_nth_error in Hin. destruct Hin as [i Hi]. pose proof (Hpos _ _ _ Hi). subst i. exact Hi.
Qed.

Lemma im_find_none : forall m t pk, im_find m t pk = None -> ~ In (t, pk) (map fst m).
Proof.
  intros m t pk H Hin. unfold im_find in H.
  destruct (find (fun e => tab_eqb (fst (fst e)) t && Z.eqb (snd (fst e)) pk) m) eqn:E; [discriminate|].
  apply in_map_iff in Hin. destruct Hin as [[k o] [Hk Hin]]. cbn [fst] in Hk. subst k.
  pose proof (find_none _ _ E _ Hin) as Hn. cbn [fst snd] in Hn. rewrite Z.eqb_refl in Hn.
  destruct t; discriminate.
Qed.

Lemma NoDup_snoc : forall (A : Type) (l : list A) (x : A), NoDup l -> ~ In x l -> NoDup (l ++ [x]).
Proof.
  intros A l x Hnd Hx. induction Hnd as [|y l Hy Hnd IH]; cbn [app].
  - constructor; [intros [] | constructor].
  - constructor.
    + intros Hin. apply in_app_or in Hin. destruct Hin as [Hin|[Hin|[]]]; [exact (Hy Hin)|].
      subst. apply Hx. left. reflexivity.
    + apply IH. intros Hin. apply Hx. right. exact Hin.
Qed.

Lemma asm_item_ok : forall m k v, wf_im m ->
  let '(m1, i) := asm_item m k v in wf_im m1 /\ extends m m1 /\ ent_ok m1 k i.
Proof.
  intros m k v Hwf. unfold asm_item. destruct k as [t|].
  2:{ split; [exact Hwf|]. split; [apply extends_refl | exact I]. }
  destruct v as [pk|].
  2:{ split; [exact Hwf|]. split; [apply extends_refl | exact I]. }
  destruct (im_find m t pk) as [o|] eqn:E.
  - split; [exact Hwf|]. split; [apply extends_refl|]. cbn [ent_ok]. apply im_find_some; assumption.
  - destruct Hwf as [Hpos Hnd]. split; [split|split].
    + intros i k o Hn. destruct (Nat.lt_ge_cases i (length m)) as [Hlt|Hge].
      * rewrite nth_error_app1 in Hn by exact Hlt. exact (Hpos _ _ _ Hn).
      * rewrite nth_error_app2 in Hn by exact Hge.
        destruct (i - length m) as [|j] eqn:Ej; cbn [nth_error] in Hn.
        -- inversion Hn; subst. lia.
        -- destruct j; discriminate.
    + rewrite map_app. cbn [map fst]. apply NoDup_snoc.
      * exact Hnd.
      * apply im_find_none. exact E.
    + exists [((t, pk), length m)]. reflexivity.
    + cbn [ent_ok]. rewrite nth_error_app2 by apply le_n. rewrite Nat.sub_diag. reflexivity.
Qed.

Lemma asm_row_ok : forall ks r m, wf_im m ->
  let '(m2, is) := asm_row m ks r in wf_im m2 /\ extends m m2 /\ items_ok m2 ks is.
Proof.
  induction ks as [|k ks IH]; intros r m Hwf.
  - cbn [asm_row]. split; [exact Hwf|]. split; [apply extends_refl | exact I].
  - destruct r as [|v r]; cbn [asm_row].
    + split; [exact Hwf|]. split; [apply extends_refl | exact I].
    + pose proof (asm_item_ok m k v Hwf) as H1. destruct (asm_item m k v) as [m1 i].
      destruct H1 as (Hwf1 & He1 & Hi).
      pose proof (IH r m1 Hwf1) as H2. destruct (asm_row m1 ks r) as [m2 is].
      destruct H2 as (Hwf2 & He2 & His).
      split; [exact Hwf2|]. split; [exact (extends_trans _ _ _ He1 He2)|].
      cbn [items_ok]. split; [exact (ent_ok_extends _ _ _ _ He2 Hi) | exact His].
Qed.

(* the identity map of the Session after the rows have been processed *)
Fixpoint final_im (m : idmap) (ks : list ckind) (rows : list (list val)) : idmap :=
  match rows with [] => m | r :: rows' => final_im (fst (asm_row m ks r)) ks rows' end.

Lemma assemble_ok : forall ks rows m, wf_im m ->
  wf_im (final_im m ks rows) /\ extends m (final_im m ks rows) /\
  Forall (items_ok (final_im m ks rows) ks) (assemble m ks rows).
Proof.
  intros ks rows. induction rows as [|r rows IH]; intros m Hwf.
  - cbn [final_im assemble]. split; [exact Hwf|]. split; [apply extends_refl | constructor].
  - cbn [final_im assemble]. pose proof (asm_row_ok ks r m Hwf) as H1.
    destruct (asm_row m ks r) as [m1 is]. cbn [fst]. destruct H1 as (Hwf1 & He1 & His).
    destruct (IH m1 Hwf1) as (HwfF & HeF & Hall).
    split; [exact HwfF|]. split; [exact (extends_trans _ _ _ He1 HeF)|].
    constructor; [exact (items_ok_extends _ _ _ _ HeF His) | exact Hall].
Qed.

Lemma wf_im_nil : wf_im [].
Proof. split; [intros [|i] k o H; discriminate | constructor]. Qed.

Lemma wf_im_identity : forall M t o pk t' o' pk', wf_im M ->
  nth_error M o = Some ((t, pk), o) -> nth_error M o' = Some ((t', pk'), o') ->
  (o = o' <-> (t = t' /\ pk = pk')).
Proof.
  intros M t o pk t' o' pk' [_ Hnd] H1 H2. split.
  - intros E. subst o'. rewrite H1 in H2. inversion H2. split; reflexivity.
  - intros [Et Ek]. subst t' pk'.
    rewrite NoDup_nth_error in Hnd. apply Hnd.
    + rewrite map_length. apply nth_error_Some. congruence.
    + rewrite !nth_error_map, H1, H2. reflexivity.
Qed.

(* objects are in bijection with (identity class, primary key): the same key gives the same object in every
   row and column, different keys give different objects *)
Theorem identity_map_one_object_per_key : forall d q, exists M,
  Forall (items_ok M (col_kinds q)) (orm_exec d q false) /\
  forall t o pk t' o' pk', nth_error M o = Some ((t, pk), o) -> nth_error M o' = Some ((t', pk'), o') ->
    (o = o' <-> (t = t' /\ pk = pk')).
Proof.
  intros d q. exists (final_im [] (col_kinds q) (core_exec d (orm_to_core d q))).
  destruct (assemble_ok (col_kinds q) (core_exec d (orm_to_core d q)) [] wf_im_nil) as (Hwf & _ & Hall).
  split; [exact Hall|]. intros. apply (wf_im_identity _ _ _ _ _ _ _ Hwf); assumption.
Qed.
