(* C31 - the main theorem without the side conditions on the cycle set: they are theorems *)
From Coq Require Import List NArith Bool.
Import ListNotations.
From SAV.util Require Import Topo Cycles TopoRun.
From SAV.orm Require Import FlushOrder FlushOrderSpec FlushOrderBase FlushOrderCover FlushOrderCovered FlushOrderMain FlushOrderCyc.

Theorem cyc_ok_always : forall g cy, wf g = true -> cycles std_tables g = Some cy -> cyc_ok g cy = true.
Proof. intros g cy Hwf Hc. apply cycles_ok; [apply wf_nd, Hwf|exact Hc]. Qed.

Theorem plan_respects_fk_guarded_final : forall g cy layers tr,
  wf g = true -> consistent g = true ->
  cycles std_tables g = Some cy -> managed g cy = true ->
  plan std_tables g = Layers layers -> linearizes layers g cy tr ->
  exists d', exec (g_notnull g) (db0 g) (map (stmt_of g) tr) = Some d'.
Proof. intros g cy layers tr Hwf Hcons Hc Hm Hp Hl.
  apply (plan_respects_fk_guarded_main g cy layers tr Hwf Hcons Hc (cyc_ok_always g cy Hwf Hc) Hm Hp Hl). Qed.

(* the assertion in per_state_flush_actions never fires *)
Theorem plan_never_asserts : forall g, wf g = true -> plan std_tables g <> PAssert.
Proof. intros g Hwf. unfold plan. destruct (cycles std_tables g) as [cy|] eqn:Hc; [|discriminate].
  assert (A : forallb (expand_assert g cy) (cyc_actions g cy) = true).
  { apply forallb_forall. intros a Ha. pose proof (cyc_ok_always g cy Hwf Hc) as Hok.
    assert (Hp : forall m, In m (all_mappers g) -> incyc cy (DelAll m) = incyc cy (SaveAll m)) by (apply (ok_pair g cy Hok)).
    assert (X : forall m, forallb (fun d => incyc cy (SaveAll (d_child d)) || negb (incyc cy (DelAll (d_child d)))) (deps_of g m) = true).
    { intros m. apply forallb_forall. intros d Hd. apply deps_of_in in Hd. destruct Hd as [Hd _].
      rewrite (Hp (d_child d)); [destruct (incyc cy (SaveAll (d_child d))); reflexivity|].
      unfold all_mappers. apply in_or_app. right. apply in_or_app. right. apply in_map, Hd. }
    destruct a; simpl; try reflexivity; apply X. }
  rewrite A. destruct (sort_as_subsets _ _); discriminate. Qed.
