(* executable entry point for the correspondence check of C46 *)
From Coq Require Import List ZArith NArith Bool Arith.
Import ListNotations.
From SAV.base Require Import Tree.
From SAV.orm Require Import Expire.
Open Scope Z_scope.

Definition as_names (t : tree) : option (list nat) := as_list_of as_nat t.
Definition as_op (t : tree) : option op :=
  match t with
  | L [I o; I k; tn; I v] =>
      match as_names tn with
      | Some ns =>
          let a := match ns with a :: _ => a | [] => 0%nat end in
          if o =? 0 then Some (Read k a) else if o =? 1 then Some (SetA k a v)
          else if o =? 2 then Some (Expire k ns) else if o =? 3 then Some ExpireAll
          else if o =? 4 then Some (Refresh k ns) else if o =? 5 then Some Commit
          else if o =? 6 then Some Rollback else if o =? 7 then Some PopEx
          else if o =? 8 then Some (Ext k a v) else if o =? 9 then Some (PopExCols ns)
          else if o =? 10 then Some (Expunge k) else if o =? 11 then Some (Add k) else None
      | None => None
      end
  | _ => None
  end.
Definition as_rowl (t : tree) : option (Z * list Z) :=
  match as_list_of as_Z t with Some (k :: r) => Some (k, k :: r) | _ => None end.

Fixpoint lookupl (k : Z) (l : list (Z * list Z)) : list Z :=
  match l with [] => [] | (k', r) :: t => if Z.eqb k' k then r else lookupl k t end.
Definition rows_of (l : list (Z * list Z)) : rowsf := fun k a => nth a (lookupl k l) 0.

Definition of_res (r : res) : tree :=
  match r with RUnit => L [I 0] | RVal v => L [I 1; of_optZ v] | RBusy => L [I 2] | RErr => L [I 3] end.
Definition of_obj (attrs : list nat) (o : obj) : tree :=
  L [L (map (fun a => of_optZ (oval o a)) attrs);
     L (map (fun a => of_bool (negb (isnone (orig o a)))) attrs);
     L (map (fun a => of_bool (oexp o a)) attrs);
     of_bool (omod o); of_bool (oatt o)].

Section R.
Variables (eoc : bool) (pks : list Z) (attrs : list nat).
Fixpoint observe (l : list op) (s : state) : list tree :=
  match l with
  | [] => []
  | o :: r =>
      let (s1, rs) := step eoc pks attrs o s in
      L [of_res rs; of_nat (selects pks attrs o s rs);
         L (map (fun k => of_obj attrs (objs s1 k)) pks);
         L (map (fun k => L (map (fun a => I (com s1 k a)) attrs)) pks)]
      :: observe r s1
  end.
End R.

(* input  L [I expire_on_commit; L rows (L [id; x; y; z]); L ops (L [I op; I pk; L attribute-indices; I value])]
   output per operation  L [result; number of SELECTs; per instance L [dict values; pending flags; expired flags;
   modified]; committed rows] *)
Definition run_case (t : tree) : tree :=
  match t with
  | L [I e; tr; tops] =>
      match as_list_of as_rowl tr, as_list_of as_op tops with
      | Some rl, Some ops =>
          let pks := map fst rl in
          let attrs := seq 0 (match rl with (_, r) :: _ => length r | [] => 0%nat end) in
          L (observe (e =? 1) pks attrs ops (init (rows_of rl)))
      | _, _ => bad_input
      end
  | _ => bad_input
  end.
