(* C32 - a flush that fails part-way.

   The flush of SessTxn.v (Session._flush -> UOWTransaction.execute -> persistence.save_obj/delete_obj,
   finalize_flush_changes, inside a subtransaction; on any exception transaction.rollback(
   _capture_exception=True)) is run with a crash oracle that picks where and how it fails:

     FPre      the before_flush event raises (before the subtransaction exists)
     FStmt k   the database driver reports an error for the (k+1)-th INSERT/UPDATE/DELETE of this flush,
               after the statement took effect on the connection (the more demanding variant: the partial
               effects are really in the transaction and have to be undone)
     FAfter    the after_flush event raises (all statements done, nothing registered yet)
     FPost     the after_flush_postexec event raises (identity map, keys and snapshots already updated)

   A failure of the statement itself (IntegrityError on a duplicate primary key, StaleDataError) is the
   error path that SessTxn.do_update/do_insert already have; the crash oracle itself is SessTxn.exec_f.  The error path taken is the SAME flush_with
   as in C33: the body of the subtransaction is the only thing that changes. *)
From Coq Require Import List ZArith Bool Arith.
Import ListNotations.
From SAV.orm Require Import SessTxn.
Open Scope Z_scope.

Definition E_FAULT : Z := 12.    (* injected driver error (sqlalchemy.exc.OperationalError) *)
Definition E_EVENT : Z := 13.    (* exception raised by a SessionEvents listener *)

Inductive fault := FPre | FStmt (k : nat) | FAfter | FPost.

(* what runs inside the subtransaction after the connection is there *)
Definition fault_inner (ft : fault) (new dirty deleted : list nat) : M :=
  match ft with
  | FStmt k =>
      foldM (organize_pending deleted) new ;;
      withst (fun st0 => exec_f (Some k) E_FAULT (stmts_of st0 new dirty deleted)) ;;
      finalize new dirty deleted
  | FAfter =>
      foldM (organize_pending deleted) new ;;
      withst (fun st0 => exec_f None 0 (stmts_of st0 new dirty deleted)) ;;
      raise E_EVENT
  | _ =>
      foldM (organize_pending deleted) new ;;
      withst (fun st0 => exec_f None 0 (stmts_of st0 new dirty deleted)) ;;
      finalize new dirty deleted ;;
      raise E_EVENT
  end.

Definition flush_fault (ft : fault) : M := fun st =>
  match ft with
  | FPre => if is_clean st then (Ok, st) else (Err E_EVENT, st)
  | _ => flush_with (fun n d e => provision ;; fault_inner ft n d e) st
  end.

(* histories: the operations of C33 plus faulty flushes *)
Inductive fop := Plain (p : op) | Faulty (ft : fault).
Definition do_fop (p : fop) : M :=
  match p with Plain q => do_op q | Faulty ft => flush_fault ft end.

Fixpoint runf (st : sess) (ps : list fop) : list (res * sess) :=
  match ps with
  | [] => []
  | p :: r => match do_fop p st with
              | (Unmodelled, st') => [(Unmodelled, st')]
              | (x, st') => (x, st') :: runf st' r
              end
  end.
