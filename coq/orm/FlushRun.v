(* C30 - executable entry point for the correspondence check *)
From Coq Require Import List NArith ZArith Bool.
Import ListNotations.
From SAV.base Require Import Tree.
From SAV.orm Require Import Flush FlushSync.
Local Open Scope N_scope.

Definition as_rel (t : tree) : option rel :=
  match t with
  | L [i; k; a; b; o; _] => match as_N i, as_N k, as_N a, as_N b, as_bool o with
      | Some i, Some k, Some a, Some b, Some o => Some {| r_id := i; r_kind := k; r_a := a; r_b := b; r_o2m := o |}
      | _, _, _, _, _ => None end
  | _ => None end.
Definition as_optN (t : tree) : option (option N) :=
  match t with L [] => Some None | _ => match as_N t with Some n => Some (Some n) | None => None end end.
Definition as_op (t : tree) : option op :=
  match t with
  | L [I 0; o; c; v] => match as_N o, as_N c, as_Z v with Some o, Some c, Some v => Some (ONew o c v) | _, _, _ => None end
  | L [I 1; o; v] => match as_N o, as_Z v with Some o, Some v => Some (OData o v) | _, _ => None end
  | L [I 2; r; c; p] => match as_N r, as_N c, as_optN p with Some r, Some c, Some p => Some (OPar r c p) | _, _, _ => None end
  | L [I 3; r; a; b] => match as_N r, as_N a, as_N b with Some r, Some a, Some b => Some (OAdd r a b) | _, _, _ => None end
  | L [I 4; r; a; b] => match as_N r, as_N a, as_N b with Some r, Some a, Some b => Some (ORem r a b) | _, _, _ => None end
  | L [I 5; o] => match as_N o with Some o => Some (ODel o) | None => None end
  | L [I 6] => Some OFlush
  | _ => None end.

Fixpoint ins_by {A} (key : A -> N) (x : A) (l : list A) : list A :=
  match l with [] => [x] | y :: r => if N.leb (key x) (key y) then x :: l else y :: ins_by key x r end.
Definition sort_by {A} (key : A -> N) (l : list A) : list A := fold_right (ins_by key) [] l.
Definition trip_leb (x y : trip) : bool :=
  N.ltb (fst (fst x)) (fst (fst y)) || (N.eqb (fst (fst x)) (fst (fst y)) &&
    (N.ltb (snd (fst x)) (snd (fst y)) || (N.eqb (snd (fst x)) (snd (fst y)) && N.leb (snd x) (snd y)))).
Fixpoint ins_trip (x : trip) (l : list trip) : list trip :=
  match l with [] => [x] | y :: r => if trip_leb x y then x :: l else y :: ins_trip x r end.
Definition sort_trips (l : list trip) : list trip := fold_right ins_trip [] l.

Definition of_fk (e : N * N) : tree := L [of_N (fst e); of_N (snd e)].
Definition of_row (e : N * row) : tree :=
  L [of_N (fst e); of_N (w_cls (snd e)); I (w_data (snd e)); of_list of_fk (sort_by fst (w_fk (snd e)))].
Definition of_trip (x : trip) : tree := L [of_N (fst (fst x)); of_N (snd (fst x)); of_N (snd x)].
Definition snapshot (s : state) : tree :=
  L [of_list of_row (sort_by fst (rows s)); of_list of_trip (sort_trips (secs s))].

(* the database after every flush of the history, then the graph a new session would load *)
Fixpoint run (rs : list rel) (s : state) (h : list op) : list tree * state :=
  match h with
  | [] => ([], s)
  | o :: r => let s' := apply1 rs s o in
              let (t, sf) := run rs s' r in
              (match o with OFlush => snapshot s' :: t | _ => t end, sf)
  end.

Definition of_gobj (e : N * N * Z * list (N * N)) : tree :=
  match e with (i, c, v, fk) => L [of_N i; of_N c; I v; of_list of_fk (sort_by fst fk)] end.

(* ---- composite natural keys (FlushSync.v): input L [I 7; I n; ops] *)
Definition as_nop (t : tree) : option nop :=
  match t with
  | L [I 0; i; k] => match as_N i, as_list_of as_Z k with Some i, Some k => Some (NewP i k) | _, _ => None end
  | L [I 1; i] => match as_N i with Some i => Some (NewC i) | None => None end
  | L [I 2; c; p] => match as_N c, as_optN p with Some c, Some p => Some (SetPar c p) | _, _ => None end
  | L [I 3; p; j; v] => match as_N p, as_nat j, as_Z v with Some p, Some j, Some v => Some (SetKey p j v) | _, _, _ => None end
  | L [I 6] => Some NFlush
  | _ => None end.
Definition nsnapshot (s : nstate) : tree :=
  L [of_list (fun e : N * list Z => L (of_N (fst e) :: map I (snd e))) (sort_by fst (prow s));
     of_list (fun e : N * option (list Z) => L [of_N (fst e); match snd e with Some k => L (map I k) | None => L [] end])
             (sort_by fst (crow s))].
Fixpoint nrun (n : nat) (s : nstate) (h : list nop) : list tree :=
  match h with
  | [] => []
  | o :: r => let s' := napply1 n s o in match o with NFlush => nsnapshot s' :: nrun n s' r | _ => nrun n s' r end
  end.

(* input L [rels; ops] (rel = [id; kind; a; b; has collection side; flags for the harness only]); output L [snapshots; loaded graph; (id, state) of every object] *)
Definition run_case (t : tree) : tree :=
  match t with
  | L [I 7; tn; tops] =>
    match as_nat tn, as_list_of as_nop tops with
    | Some n, Some h => L (nrun n nempty h)
    | _, _ => bad_input end
  | L [trs; tops] =>
    match as_list_of as_rel trs, as_list_of as_op tops with
    | Some rs, Some h =>
        let (snaps, sf) := run rs empty h in
        L [L snaps; of_list of_gobj (sort_by (fun e => fst (fst (fst e))) (load (rows sf)));
           of_list (fun o => L [of_N (o_id o); of_N (o_st o)]) (sort_by o_id (objs sf))]
    | _, _ => bad_input end
  | _ => bad_input end.
