(* C33 - run_case for the correspondence: tree -> run the session model -> tree. *)
From Coq Require Import List ZArith Bool Arith.
Import ListNotations.
From SAV.base Require Import Tree.
From SAV.orm Require Import SessTxn.
Open Scope Z_scope.

Definition dec_op (t : tree) : option op :=
  match t with
  | L [I 0; _; I pk; I v] => Some (ONew pk v)
  | L [I 1; o] => option_map OAdd (as_nat o)
  | L [I 2; o; I v] => option_map (fun o => OSetV o v) (as_nat o)
  | L [I 3; o; I pk] => option_map (fun o => OSetPK o pk) (as_nat o)
  | L [I 4; o] => option_map ODel (as_nat o)
  | L [I 5] => Some OFlush
  | L [I 6] => Some ONested
  | L [I 7] => Some OCommit
  | L [I 8] => Some ORollback
  | L [I 9; h] => option_map OTCommit (as_nat h)
  | L [I 10; h] => option_map OTRollback (as_nat h)
  | L [I 11] => Some OClose
  | L [I 12; o] => option_map OLoad (as_nat o)
  | _ => None
  end.

Definition lifecycle (ob : obj) : Z :=
  match okey ob with
  | None => if oatt ob then 1 else 0
  | Some _ => if negb (oatt ob) then 4 else if odelf ob then 3 else 2
  end.

Definition enc_obj (st : sess) (o : nat) : tree :=
  let ob := objs st o in
  L [I (lifecycle ob); of_optZ (okey ob); of_optZ (odid ob); of_optZ (odv ob);
     of_bool (omod ob); of_bool (mem o (sdel st)); of_bool (oexp ob)].

(* primary keys used by the harness lie in 0..9 *)
Definition pk_range : list Z := map Z.of_nat (seq 0 10).
Definition enc_tbl (t : tbl) : tree :=
  L (flat_map (fun k => match t k with Some v => [L [I k; I v]] | None => [] end) pk_range).

Definition handle_flag (st : sess) (h : option nat) : tree :=
  match h with
  | None => I (-1)
  | Some n => match find_frame n st with
              | Some f => of_bool (tstate_eqb (fstate f) ACTIVE)
              | None => I 0
              end
  end.

Definition res_code (r : res) : Z := match r with Ok => 0 | Err c => c | Unmodelled => -998 end.

Definition enc_obs (r : res) (st : sess) : tree :=
  let conn := match rev (stack st) with root :: _ => fconn root | [] => false end in
  L [I (res_code r);
     L (map (enc_obj st) (all_objs st));
     L [of_bool (negb (isnil (stack st))); of_bool (existsb fnested (stack st)); L (map (handle_flag st) (handles st))];
     enc_tbl (committed st);
     if conn then L [I 1; enc_tbl (work st)] else L [I 0]].

Definition has_unmodelled (l : list (res * sess)) : bool :=
  existsb (fun p => match fst p with Unmodelled => true | _ => false end) l.

Definition run_case (t : tree) : tree :=
  match t with
  | L [e; L ops] =>
      match as_bool e, all_some (map dec_op ops) with
      | Some eo, Some ps =>
          let out := run (sess0 eo) ps in
          if has_unmodelled out then L [I (-998)] else L (map (fun p => enc_obs (fst p) (snd p)) out)
      | _, _ => bad_input
      end
  | _ => bad_input
  end.
