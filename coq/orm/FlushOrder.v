(* C31 - model of the unit of work's ordering machinery (lib/sqlalchemy/orm/unitofwork.py,
   dependency.py), from the point where the presort phase has finished:

     UOWTransaction._generate_actions (cycle detection, break-up of per-mapper actions into per-state
     actions, rewrite of the dependency set), _SaveUpdateAll/_DeleteAll.per_state_flush_actions,
     _DependencyProcessor.per_property_flush_actions / per_state_flush_actions, and the dependency
     tuples registered by per_property_dependencies / per_state_dependencies of _OneToManyDP,
     _ManyToOneDP, _ManyToManyDP (a TABLE, regenerated from the source on every run), and
     UOWTransaction.execute (topological.sort / sort_as_subsets; C19 model).

   Definitions only.  The spec side (reference database with immediate FK / NOT NULL checks, the
   statements of a flush, the ordering needs) is in FlushOrderSpec.v. *)
From Coq Require Import List NArith Bool.
Import ListNotations.
From SAV.util Require Import Topo Cycles TopoRun.
Local Open Scope N_scope.

(* ------------------------------------------------------------------ actions (PostSortRec) *)
Inductive action :=
| SaveAll (m : N)                       (* _SaveUpdateAll(base mapper) *)
| DelAll (m : N)                        (* _DeleteAll(base mapper) *)
| ProcAll (d : N) (isdel : bool)        (* _ProcessAll(dependency processor, isdelete) *)
| PostAll (m : N) (isdel : bool)        (* _PostUpdateAll(base mapper, isdelete) *)
| SaveSt (s : N)                        (* _SaveUpdateState(state) *)
| DelSt (s : N)                         (* _DeleteState(state) *)
| ProcSt (d : N) (isdel : bool) (s : N) (* _ProcessState(dependency processor, isdelete, state) *).

(* injective numbering (for dep ids < K), so that the C19 model (nodes are N) can be used *)
Definition K : N := 1048576.
Definition b2n (b : bool) : N := if b then 1 else 0.
Definition code (a : action) : N :=
  match a with
  | SaveAll m => 7 * m
  | DelAll m => 7 * m + 1
  | ProcAll d b => 7 * (2 * d + b2n b) + 2
  | PostAll m b => 7 * (2 * m + b2n b) + 3
  | SaveSt s => 7 * s + 4
  | DelSt s => 7 * s + 5
  | ProcSt d b s => 7 * (2 * (K * s + d) + b2n b) + 6
  end.
Definition amemb (a : action) (l : list action) : bool := memb (code a) (map code l).

(* ------------------------------------------------------------------ the dependency tables *)
(* names used by per_property_dependencies *)
Inductive role := PSaves | CSaves | PDels | CDels | AfterSave | BeforeDel | CPost | CPre | PPost | PPre.
(* names used by per_state_dependencies *)
Inductive srole := SSaveP | SDelP | SChild | SAfter | SBefore | SCPost | SCPre | SPPost | SPPre.

(* kind: 0 one-to-many, 1 many-to-one, 2 many-to-many *)
Record tables := {
  t_prop : list (N * bool * list (role * role));                        (* (kind, post_update) *)
  t_state : list (N * bool * bool * bool * list (srole * srole))        (* (kind, post_update, isdelete, childisdelete) *)
}.

Definition prop_edges (T : tables) (k : N) (post : bool) : list (role * role) :=
  match find (fun e => N.eqb (fst (fst e)) k && Bool.eqb (snd (fst e)) post) (t_prop T) with
  | Some e => snd e | None => [] end.
Definition state_edges (T : tables) (k : N) (post isdel cdel : bool) : list (srole * srole) :=
  match find (fun e => match fst e with (k', p', i', c') =>
                 N.eqb k' k && Bool.eqb p' post && Bool.eqb i' isdel && Bool.eqb c' cdel end) (t_state T) with
  | Some e => snd e | None => [] end.

(* the tables of the unmodified source (dependency.py); the translator regenerates them from the AST
   on every run and the per-run obligation is [gen_tables = std_tables] *)
Definition std_tables : tables := {|
  t_prop := [
    (0, false, [(PSaves, AfterSave); (AfterSave, CSaves); (AfterSave, CDels); (CSaves, PDels);
                (CDels, PDels); (BeforeDel, CSaves); (BeforeDel, CDels)]);
    (0, true,  [(CSaves, AfterSave); (PSaves, AfterSave); (AfterSave, CPost); (BeforeDel, CPre);
                (CPre, PDels); (CPre, CDels)]);
    (1, false, [(CSaves, AfterSave); (AfterSave, PSaves); (PSaves, CDels); (PDels, CDels)]);
    (1, true,  [(CSaves, AfterSave); (PSaves, AfterSave); (AfterSave, PPost); (AfterSave, PPre);
                (BeforeDel, PPre); (PPre, CDels); (PPre, PDels)]);
    (2, false, [(PSaves, AfterSave); (CSaves, AfterSave); (AfterSave, CDels); (BeforeDel, PSaves);
                (BeforeDel, PDels); (BeforeDel, CDels); (BeforeDel, CSaves)]);
    (2, true,  [(PSaves, AfterSave); (CSaves, AfterSave); (AfterSave, CDels); (BeforeDel, PSaves);
                (BeforeDel, PDels); (BeforeDel, CDels); (BeforeDel, CSaves)]) ];
  t_state := [
    (0, false, false, false, [(SSaveP, SAfter); (SAfter, SChild); (SSaveP, SChild)]);
    (0, false, false, true,  [(SSaveP, SAfter); (SAfter, SChild); (SSaveP, SChild)]);
    (0, false, true, false,  [(SBefore, SChild); (SChild, SDelP)]);
    (0, false, true, true,   [(SBefore, SChild); (SChild, SDelP)]);
    (0, true, false, false,  [(SSaveP, SAfter); (SChild, SAfter); (SAfter, SCPost)]);
    (0, true, false, true,   [(SChild, SAfter); (SAfter, SCPost)]);
    (0, true, true, false,   [(SBefore, SCPre); (SCPre, SDelP)]);
    (0, true, true, true,    [(SBefore, SCPre); (SCPre, SDelP)]);
    (1, false, false, false, [(SChild, SAfter); (SAfter, SSaveP)]);
    (1, false, false, true,  [(SAfter, SSaveP); (SSaveP, SChild)]);
    (1, false, true, false,  []);
    (1, false, true, true,   [(SDelP, SChild)]);
    (1, true, false, false,  [(SSaveP, SAfter); (SChild, SAfter); (SAfter, SPPost)]);
    (1, true, false, true,   [(SAfter, SPPost); (SPPost, SChild)]);
    (1, true, true, false,   [(SBefore, SPPre); (SPPre, SDelP); (SPPre, SChild)]);
    (1, true, true, true,    [(SBefore, SPPre); (SPPre, SDelP); (SPPre, SChild)]);
    (2, false, false, false, [(SSaveP, SAfter); (SChild, SAfter)]);
    (2, false, false, true,  [(SSaveP, SAfter); (SAfter, SChild)]);
    (2, false, true, false,  [(SBefore, SChild); (SBefore, SDelP)]);
    (2, false, true, true,   [(SBefore, SChild); (SBefore, SDelP)]);
    (2, true, false, false,  [(SSaveP, SAfter); (SChild, SAfter)]);
    (2, true, false, true,   [(SSaveP, SAfter); (SAfter, SChild)]);
    (2, true, true, false,   [(SBefore, SChild); (SBefore, SDelP)]);
    (2, true, true, true,    [(SBefore, SChild); (SBefore, SDelP)]) ]
|}.

(* ------------------------------------------------------------------ the unit of work after presort *)
(* a dependency processor (one per relationship): [d_parent] = base mapper of the class that owns the
   relationship attribute, [d_child] = base mapper of the related class, [d_active] = its
   per_property_flush_actions has run (prop_has_changes was true in some presort round),
   [d_col] = the foreign key column it synchronises (secondary table for many-to-many), [d_rev]
   (many-to-many only) = the owner's key is stored in the RIGHT column of the secondary row *)
Record dep := { d_id : N; d_kind : N; d_parent : N; d_child : N; d_post : bool; d_active : bool; d_col : N;
                d_rev : bool }.
(* an object known to the session: [s_map] base mapper, [s_key] has a row (persistent),
   [s_role] 0 = not registered in uow.states, 1 = registered (isdelete=False), 2 = (isdelete=True) *)
Record st := { s_id : N; s_map : N; s_key : bool; s_role : N }.

Record graph := {
  g_deps : list dep;
  g_sts : list st;
  (* (dep, owner, related): the entries of get_all_pending(owner, dep.key); None = the (None, None) entry *)
  g_links : list (N * N * option N);
  (* database level: foreign key references (row, column, referenced row) before / after the flush *)
  g_ref0 : list (N * N * N);
  g_ref1 : list (N * N * N);
  (* secondary rows (table, left row, right row) before / after *)
  g_sec0 : list (N * N * N);
  g_sec1 : list (N * N * N);
  (* NOT NULL foreign key columns: (column, mapper whose table holds it) *)
  g_notnull : list (N * N)
}.

Definition in_uow (s : st) : bool := negb (N.eqb (s_role s) 0).
Definition reg_mappers (g : graph) : list N := dedup (map s_map (filter in_uow (g_sts g))).
Definition active (g : graph) : list dep := filter d_active (g_deps g).

Definition role_act (d : dep) (r : role) : action :=
  match r with
  | PSaves => SaveAll (d_parent d) | CSaves => SaveAll (d_child d)
  | PDels => DelAll (d_parent d) | CDels => DelAll (d_child d)
  | AfterSave => ProcAll (d_id d) false | BeforeDel => ProcAll (d_id d) true
  | CPost => PostAll (d_child d) false | CPre => PostAll (d_child d) true
  | PPost => PostAll (d_parent d) false | PPre => PostAll (d_parent d) true
  end.

(* PostUpdateAll records constructed by per_property_dependencies *)
Definition post_acts (d : dep) : list action :=
  if d_post d then
    if N.eqb (d_kind d) 0 then [PostAll (d_child d) false; PostAll (d_child d) true]
    else if N.eqb (d_kind d) 1 then [PostAll (d_parent d) false; PostAll (d_parent d) true]
    else []
  else [].

(* UOWTransaction._per_mapper_flush_actions + per_property_flush_actions of every active processor *)
Definition dep_actions0 (d : dep) : list action :=
  [ProcAll (d_id d) false; ProcAll (d_id d) true; SaveAll (d_parent d); SaveAll (d_child d);
   DelAll (d_parent d); DelAll (d_child d)] ++ post_acts d.
Definition actions0 (g : graph) : list action :=
  flat_map (fun m => [SaveAll m; DelAll m]) (reg_mappers g) ++ flat_map dep_actions0 (active g).
Definition dep_edges0 (T : tables) (d : dep) : list (action * action) :=
  map (fun e => (role_act d (fst e), role_act d (snd e))) (prop_edges T (d_kind d) (d_post d)).
Definition edges0 (T : tables) (g : graph) : list (action * action) :=
  map (fun m => (SaveAll m, DelAll m)) (reg_mappers g) ++ flat_map (dep_edges0 T) (active g).

Definition cedges (l : list (action * action)) : list edge := map (fun e => (code (fst e), code (snd e))) l.

(* topological.find_cycles(self.dependencies, ...): C19 model with one canonical set order; the result
   as a set does not depend on the order (c19_find_cycles_exact) *)
Definition cycles (T : tables) (g : graph) : option (list N) := cycles_of (cedges (edges0 T g)).

(* ------------------------------------------------------------------ per-state break-up *)
Definition saves_of (g : graph) (m : N) : list N :=
  map s_id (filter (fun s => N.eqb (s_map s) m && N.eqb (s_role s) 1) (g_sts g)).
Definition dels_of (g : graph) (m : N) : list N :=
  map s_id (filter (fun s => N.eqb (s_map s) m && N.eqb (s_role s) 2) (g_sts g)).
Definition role_of (g : graph) (s : N) : N :=
  match find (fun x => N.eqb (s_id x) s) (g_sts g) with Some x => s_role x | None => 0 end.
Definition sum_of (g : graph) (d s : N) : list (option N) :=
  map snd (filter (fun l => N.eqb (fst (fst l)) d && N.eqb (snd (fst l)) s) (g_links g)).

Definition incyc (cy : list N) (a : action) : bool := memb (code a) cy.

Definition srole_act (d : dep) (isdel : bool) (s : N) (child : option action) (r : srole) : option action :=
  match r with
  | SSaveP => if isdel then None else Some (SaveSt s)
  | SDelP => if isdel then Some (DelSt s) else None
  | SChild => child
  | SAfter => if isdel then None else Some (ProcSt (d_id d) false s)
  | SBefore => if isdel then Some (ProcSt (d_id d) true s) else None
  | SCPost => Some (PostAll (d_child d) false) | SCPre => Some (PostAll (d_child d) true)
  | SPPost => Some (PostAll (d_parent d) false) | SPPre => Some (PostAll (d_parent d) true)
  end.

Definition child_action (g : graph) (c : option N) : option action * bool :=
  match c with
  | None => (None, false)
  | Some c => if N.eqb (role_of g c) 1 then (Some (SaveSt c), false)
              else if N.eqb (role_of g c) 2 then (Some (DelSt c), true)
              else (None, false)
  end.
(* _DependencyProcessor.per_state_flush_actions: the child side *)
Definition child_actions (g : graph) (cy : list N) (d : dep) (s : N) : list (option action * bool) :=
  if incyc cy (SaveAll (d_child d)) then map (child_action g) (sum_of g (d_id d) s)
  else [(Some (SaveAll (d_child d)), false); (Some (DelAll (d_child d)), true)].

Definition oedge := (option action * option action)%type.

Definition state_dep_edges (T : tables) (g : graph) (cy : list N) (d : dep) (isdel : bool) (s : N) : list oedge :=
  match sum_of g (d_id d) s with
  | [] => []
  | _ => flat_map (fun ca =>
           map (fun e => (srole_act d isdel s (fst ca) (fst e), srole_act d isdel s (fst ca) (snd e)))
               (state_edges T (d_kind d) (d_post d) isdel (snd ca)))
         (child_actions g cy d s)
  end.
Definition opt_list {A} (o : option A) : list A := match o with Some a => [a] | None => [] end.
Definition state_dep_acts (g : graph) (cy : list N) (d : dep) (isdel : bool) (s : N) : list action :=
  match sum_of g (d_id d) s with
  | [] => []
  | _ => ProcSt (d_id d) isdel s :: flat_map (fun ca => opt_list (fst ca)) (child_actions g cy d s)
  end.

(* uow.deps[mapper] *)
Definition deps_of (g : graph) (m : N) : list dep := filter (fun d => N.eqb (d_parent d) m) (active g).

(* rec.per_state_flush_actions(uow) for a rec in cycles: (new actions, new dependencies, disabled) *)
Definition expand_acts (g : graph) (cy : list N) (a : action) : list action :=
  match a with
  | SaveAll m => map SaveSt (saves_of g m) ++
      flat_map (fun d => flat_map (state_dep_acts g cy d false) (saves_of g m)) (deps_of g m)
  | DelAll m => map DelSt (dels_of g m) ++
      flat_map (fun d => flat_map (state_dep_acts g cy d true) (dels_of g m)) (deps_of g m)
  | _ => []
  end.
Definition expand_edges (T : tables) (g : graph) (cy : list N) (a : action) : list oedge :=
  match a with
  | SaveAll m => map (fun s => (Some (SaveSt s), Some (DelAll m))) (saves_of g m) ++
      flat_map (fun d => flat_map (state_dep_edges T g cy d false) (saves_of g m)) (deps_of g m)
  | DelAll m => map (fun s => (Some (SaveAll m), Some (DelSt s))) (dels_of g m) ++
      flat_map (fun d => flat_map (state_dep_edges T g cy d true) (dels_of g m)) (deps_of g m)
  | _ => []
  end.
Definition expand_disabled (g : graph) (a : action) : list action :=
  match a with
  | SaveAll m => map (fun d => ProcAll (d_id d) false) (deps_of g m)
  | DelAll m => map (fun d => ProcAll (d_id d) true) (deps_of g m)
  | _ => []
  end.
(* "assert child_deletes not in uow.cycles" *)
Definition expand_assert (g : graph) (cy : list N) (a : action) : bool :=
  match a with
  | SaveAll m | DelAll m =>
      forallb (fun d => incyc cy (SaveAll (d_child d)) || negb (incyc cy (DelAll (d_child d)))) (deps_of g m)
  | _ => true
  end.

Definition cyc_actions (g : graph) (cy : list N) : list action := filter (incyc cy) (actions0 g).

(* convert[rec] *)
Definition convert (g : graph) (a : action) : list action :=
  match a with SaveAll m => map SaveSt (saves_of g m) | DelAll m => map DelSt (dels_of g m) | _ => [] end.

(* the rewrite loop of _generate_actions, for one edge *)
Definition rewrite1 (g : graph) (cy : list N) (dis : list action) (e : oedge) : list (action * action) :=
  match e with
  | (Some a, Some b) =>
      if amemb a dis || amemb b dis || (incyc cy a && incyc cy b) then []
      else if incyc cy a then map (fun x => (x, b)) (convert g a)
      else if incyc cy b then map (fun x => (a, x)) (convert g b)
      else [(a, b)]
  | _ => []
  end.

Definition disabled (g : graph) (cy : list N) : list action := flat_map (expand_disabled g) (cyc_actions g cy).
Definition all_edges (T : tables) (g : graph) (cy : list N) : list oedge :=
  map (fun e => (Some (fst e), Some (snd e))) (edges0 T g) ++ flat_map (expand_edges T g cy) (cyc_actions g cy).
Definition final_edges (T : tables) (g : graph) (cy : list N) : list (action * action) :=
  flat_map (rewrite1 g cy (disabled g cy)) (all_edges T g cy).
Definition final_items (g : graph) (cy : list N) : list action :=
  filter (fun a => negb (amemb a (disabled g cy)) && negb (incyc cy a))
         (actions0 g ++ flat_map (expand_acts g cy) (cyc_actions g cy)).

Inductive planres := Layers (r : list (list N)) | PCircular | PFuel | PAssert.

(* _generate_actions + the topological sort of execute(): the layers of action codes.  Without cycles
   execute() uses topological.sort, i.e. the concatenation of the same layers *)
Definition plan (T : tables) (g : graph) : planres :=
  match cycles T g with
  | None => PFuel
  | Some cy =>
      if forallb (expand_assert g cy) (cyc_actions g cy) then
        match sort_as_subsets (cedges (final_edges T g cy)) (dedup (map code (final_items g cy))) with
        | Ok r => Layers r | Circular => PCircular | OutOfFuel => PFuel
        end
      else PAssert
  end.
