(* C42: facts about the class tree of Poly.v (ancestor chains, table owners, polymorphic_map) *)
From Coq Require Import List ZArith Bool Arith Lia.
Import ListNotations.
From SAV.orm Require Import Poly.

Definition wf_hier (h : hier) : Prop :=
  0 < length h /\ joined h 0 = true /\ parent h 0 = None /\
  (forall i p, parent h i = Some p -> p < i) /\
  (forall i, 0 < i -> i < length h -> exists p, parent h i = Some p) /\
  (forall i j x, ident h i = Some x -> ident h j = Some x -> i = j).

Lemma memn_In : forall x l, memn x l = true <-> In x l.
Proof.
  intros x l. unfold memn. rewrite existsb_exists. split.
  - intros [y [Hy He]]. apply Nat.eqb_eq in He. subst. exact Hy.
  - intros H. exists x. split; [exact H | apply Nat.eqb_refl].
Qed.

Lemma nodupZ_nth : forall l i j x, nodupZ l = true ->
  nth_error l i = Some x -> nth_error l j = Some x -> i = j.
Proof.
  induction l as [|y l IH]; intros i j x Hn Hi Hj.
  - destruct i; discriminate.
  - cbn [nodupZ] in Hn. apply andb_true_iff in Hn. destruct Hn as [Hy Hn].
    apply negb_true_iff in Hy.
    destruct i as [|i], j as [|j]; cbn [nth_error] in *.
    + reflexivity.
    + inversion Hi; subst. exfalso. apply nth_error_In in Hj.
      assert (existsb (Z.eqb x) l = true) by (apply existsb_exists; exists x; split; [exact Hj | apply Z.eqb_refl]).
      congruence.
    + inversion Hj; subst. exfalso. apply nth_error_In in Hi.
      assert (existsb (Z.eqb x) l = true) by (apply existsb_exists; exists x; split; [exact Hi | apply Z.eqb_refl]).
      congruence.
    + f_equal. exact (IH i j x Hn Hi Hj).
Qed.

Lemma wf_hierb_ok : forall h, wf_hierb h = true -> wf_hier h.
Proof.
  intros h H. unfold wf_hierb in H.
  repeat (apply andb_true_iff in H; destruct H as [H ?]).
  rename H0 into Hnd, H1 into Hpar, H2 into Hj.
  apply negb_true_iff in H. apply Nat.eqb_neq in H.
  assert (Hlen : 0 < length h) by lia.
  unfold parents_ok in Hpar. rewrite forallb_forall in Hpar.
  assert (Hp : forall i p, parent h i = Some p -> p < i).
  { intros i p Hip. destruct (Nat.lt_ge_cases i (length h)) as [Hlt|Hge].
    - specialize (Hpar i). rewrite Hip in Hpar. apply Nat.ltb_lt. apply Hpar.
      apply in_seq. lia.
    - unfold parent in Hip. apply nth_error_None in Hge. rewrite Hge in Hip. discriminate. }
  repeat split.
  - exact Hlen.
  - exact Hj.
  - destruct (parent h 0) as [p|] eqn:E; [|reflexivity]. apply Hp in E. lia.
  - exact Hp.
  - intros i Hi Hl. specialize (Hpar i). destruct (parent h i) as [p|].
    + exists p. reflexivity.
    + assert (Nat.eqb i 0 = true) by (apply Hpar; apply in_seq; lia). apply Nat.eqb_eq in H0. lia.
  - intros i j x Hi Hj'. unfold ident in *.
    destruct (nth_error h i) as [ci|] eqn:Ei; [|discriminate].
    destruct (nth_error h j) as [cj|] eqn:Ej; [|discriminate].
    injection Hi as Hi. injection Hj' as Hj'.
    apply (nodupZ_nth (map cident h) i j x Hnd).
    + rewrite nth_error_map, Ei. cbn. f_equal. exact Hi.
    + rewrite nth_error_map, Ej. cbn. f_equal. exact Hj'.
Qed.

Section Tree.
Variable h : hier.
Hypothesis Hwf : wf_hier h.

Let Hpar : forall i p, parent h i = Some p -> p < i.
Proof. destruct Hwf as (_ & _ & _ & H & _). exact H. Qed.

Lemma path_up_fuel : forall n m i, i < n -> i < m -> path_up h n i = path_up h m i.
Proof.
  induction n as [|n IH]; intros m i Hn Hm; [lia|].
  destruct m as [|m]; [lia|]. cbn [path_up].
  destruct (parent h i) as [p|] eqn:E; [|reflexivity].
  f_equal. apply Hpar in E. apply IH; lia.
Qed.

Lemma up_unfold : forall i,
  up h i = i :: match parent h i with Some p => up h p | None => [] end.
Proof.
  intros i. unfold up at 1. cbn [path_up]. destruct (parent h i) as [p|] eqn:E; [|reflexivity].
  f_equal. unfold up. apply Hpar in E. apply path_up_fuel; lia.
Qed.

Lemma isa_unfold : forall m c,
  isa h m c = Nat.eqb c m || match parent h m with Some p => isa h p c | None => false end.
Proof.
  intros m c. unfold isa. rewrite up_unfold. unfold memn. cbn [existsb].
  destruct (parent h m); reflexivity.
Qed.

Lemma isa_refl : forall i, isa h i i = true.
Proof. intros i. rewrite isa_unfold, Nat.eqb_refl. reflexivity. Qed.

Lemma isa_le : forall m c, isa h m c = true -> c <= m.
Proof.
  induction m as [m IH] using lt_wf_ind. intros c H. rewrite isa_unfold in H.
  apply orb_true_iff in H. destruct H as [H|H].
  - apply Nat.eqb_eq in H. lia.
  - destruct (parent h m) as [p|] eqn:E; [|discriminate].
    pose proof (Hpar _ _ E). pose proof (IH p H0 c H). lia.
Qed.

Lemma isa_trans : forall a b c, isa h a b = true -> isa h b c = true -> isa h a c = true.
Proof.
  induction a as [a IH] using lt_wf_ind. intros b c Hab Hbc.
  rewrite isa_unfold in Hab. apply orb_true_iff in Hab. destruct Hab as [Hab|Hab].
  - apply Nat.eqb_eq in Hab. subst. exact Hbc.
  - destruct (parent h a) as [p|] eqn:E; [|discriminate].
    rewrite isa_unfold, E. apply orb_true_iff. right.
    exact (IH p (Hpar _ _ E) b c Hab Hbc).
Qed.

Lemma isa_antisym : forall a b, isa h a b = true -> isa h b a = true -> a = b.
Proof. intros a b H1 H2. apply isa_le in H1. apply isa_le in H2. lia. Qed.

(* the ancestors of a class form a chain *)
Lemma isa_chain : forall m a b, isa h m a = true -> isa h m b = true ->
  isa h a b = true \/ isa h b a = true.
Proof.
  induction m as [m IH] using lt_wf_ind. intros a b Ha Hb.
  rewrite isa_unfold in Ha. rewrite isa_unfold in Hb.
  apply orb_true_iff in Ha. apply orb_true_iff in Hb.
  destruct Ha as [Ha|Ha].
  - apply Nat.eqb_eq in Ha. subst a. left. rewrite isa_unfold. apply orb_true_iff. exact Hb.
  - destruct Hb as [Hb|Hb].
    + apply Nat.eqb_eq in Hb. subst b. right. rewrite isa_unfold. apply orb_true_iff. right. exact Ha.
    + destruct (parent h m) as [p|] eqn:E; [|discriminate].
      exact (IH p (Hpar _ _ E) a b Ha Hb).
Qed.

Lemma isa_root : forall m, m < length h -> isa h m 0 = true.
Proof.
  induction m as [m IH] using lt_wf_ind. intros Hm. rewrite isa_unfold.
  destruct m as [|m]; [reflexivity|].
  destruct Hwf as (_ & _ & _ & _ & Hex & _).
  destruct (Hex (S m)) as [p Hp]; [lia|exact Hm|]. rewrite Hp.
  apply orb_true_iff. right. apply IH; [exact (Hpar _ _ Hp)|]. pose proof (Hpar _ _ Hp). lia.
Qed.

Lemma isa_parent : forall m p, parent h m = Some p -> isa h m p = true.
Proof. intros m p E. rewrite isa_unfold, E, isa_refl. apply orb_true_r. Qed.

Lemma in_path_isa : forall K a, In a (path h K) <-> isa h K a = true.
Proof. intros K a. unfold path. rewrite <- in_rev. unfold isa. symmetry. apply memn_In. Qed.

(* ---- owner ---- *)
Lemma owner_f_fuel : forall n m i, i < n -> i < m -> owner_f h n i = owner_f h m i.
Proof.
  induction n as [|n IH]; intros m i Hn Hm; [lia|].
  destruct m as [|m]; [lia|]. cbn [owner_f].
  destruct (joined h i); [reflexivity|].
  destruct (parent h i) as [p|] eqn:E; [|reflexivity].
  apply Hpar in E. apply IH; lia.
Qed.

Lemma owner_unfold : forall i,
  owner h i = if joined h i then i else match parent h i with Some p => owner h p | None => i end.
Proof.
  intros i. unfold owner at 1. cbn [owner_f]. destruct (joined h i); [reflexivity|].
  destruct (parent h i) as [p|] eqn:E; [|reflexivity].
  unfold owner. apply Hpar in E. apply owner_f_fuel; lia.
Qed.

Lemma owner_joined_id : forall t, joined h t = true -> owner h t = t.
Proof. intros t H. rewrite owner_unfold, H. reflexivity. Qed.

Lemma isa_owner : forall i, isa h i (owner h i) = true.
Proof.
  induction i as [i IH] using lt_wf_ind. rewrite owner_unfold.
  destruct (joined h i); [apply isa_refl|].
  destruct (parent h i) as [p|] eqn:E; [|apply isa_refl].
  apply isa_trans with p; [apply isa_parent; exact E | apply IH; exact (Hpar _ _ E)].
Qed.

Lemma owner_is_joined : forall i, joined h (owner h i) = true.
Proof.
  induction i as [i IH] using lt_wf_ind. rewrite owner_unfold.
  destruct (joined h i) eqn:Ej; [exact Ej|].
  destruct (parent h i) as [p|] eqn:E.
  - apply IH. exact (Hpar _ _ E).
  - (* no parent: the root (joined) or an index outside the hierarchy (joined by default) *)
    destruct i as [|i].
    + destruct Hwf as (_ & H0 & _). congruence.
    + destruct (Nat.lt_ge_cases (S i) (length h)) as [Hlt|Hge].
      * destruct Hwf as (_ & _ & _ & _ & Hex & _). destruct (Hex (S i)) as [p Hp]; [lia|exact Hlt|congruence].
      * unfold joined in Ej. apply nth_error_None in Hge. rewrite Hge in Ej. discriminate.
Qed.

Lemma owner_idem : forall i, owner h (owner h i) = owner h i.
Proof. intros i. apply owner_joined_id, owner_is_joined. Qed.

(* a joined-table ancestor of [a] that is not above the owner of [a]... : the owner is the nearest one *)
Lemma owner_nearest : forall a t, isa h a t = true -> joined h t = true -> isa h (owner h a) t = true.
Proof.
  induction a as [a IH] using lt_wf_ind. intros t Hat Hj. rewrite owner_unfold.
  destruct (joined h a) eqn:Ej; [exact Hat|].
  rewrite isa_unfold in Hat. apply orb_true_iff in Hat. destruct Hat as [Hat|Hat].
  - apply Nat.eqb_eq in Hat. subst. congruence.
  - destruct (parent h a) as [p|] eqn:E; [|discriminate].
    exact (IH p (Hpar _ _ E) t Hat Hj).
Qed.

(* ---- polymorphic_map ---- *)
Lemma pmap_ident : forall K x, K < length h -> ident h K = Some x -> pmap h x = Some K.
Proof.
  intros K x HK Hi. unfold pmap.
  destruct (find (ident_is h x) (rev (seq 0 (length h)))) as [j|] eqn:E.
  - apply find_some in E. destruct E as [_ Hj]. unfold ident_is in Hj.
    destruct (ident h j) as [y|] eqn:Ey; [|discriminate]. apply Z.eqb_eq in Hj. subst y.
    destruct Hwf as (_ & _ & _ & _ & _ & Hu). f_equal. exact (Hu j K x Ey Hi).
  - exfalso. assert (Hin : In K (rev (seq 0 (length h)))) by (rewrite <- in_rev; apply in_seq; lia).
    pose proof (find_none _ _ E K Hin) as Hn. unfold ident_is in Hn. rewrite Hi, Z.eqb_refl in Hn. discriminate.
Qed.

Lemma pmap_some : forall x K, pmap h x = Some K -> K < length h /\ ident h K = Some x.
Proof.
  intros x K E. unfold pmap in E. apply find_some in E. destruct E as [Hin Hj].
  rewrite <- in_rev in Hin. apply in_seq in Hin. split; [lia|].
  unfold ident_is in Hj. destruct (ident h K) as [y|]; [|discriminate]. apply Z.eqb_eq in Hj. congruence.
Qed.

Lemma ident_some : forall K, K < length h -> exists x, ident h K = Some x.
Proof.
  intros K HK. unfold ident. destruct (nth_error h K) eqn:E.
  - eexists. reflexivity.
  - apply nth_error_None in E. lia.
Qed.

Lemma in_desc : forall C m, In m (desc h C) <-> m < length h /\ isa h m C = true.
Proof.
  intros C m. unfold desc. rewrite filter_In, in_seq. split; intros [H1 H2]; split; auto; lia.
Qed.

End Tree.
