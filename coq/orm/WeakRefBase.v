(* C48 - basic lemmas: database table, the per-object local invariant and its preservation by every
   per-object transformer (checked by enumeration of the 2^11 flag combinations, by reflection) *)
From Coq Require Import List ZArith NArith Bool Arith Lia.
Import ListNotations.
From SAV.orm Require Import WeakRef.

(* ---------------------------------------------------------------- database *)
Lemma db_get_del_same : forall k d, db_get k (db_del k d) = None.
Proof.
  intros k d. unfold db_get, db_del. induction d as [|[a b] d IH]; simpl; auto.
  destruct (N.eqb a k) eqn:E; simpl; auto. rewrite E. exact IH.
Qed.
Lemma db_get_del_other : forall k k' d, k <> k' -> db_get k' (db_del k d) = db_get k' d.
Proof.
  intros k k' d Hn. unfold db_get, db_del. induction d as [|[a b] d IH]; simpl; auto.
  destruct (N.eqb a k) eqn:E; simpl.
  - apply N.eqb_eq in E. subst a. destruct (N.eqb k k') eqn:E2; [apply N.eqb_eq in E2; contradiction|]. exact IH.
  - destruct (N.eqb a k'); auto.
Qed.
Lemma db_get_set_same : forall k v d, db_get k (db_set k v d) = Some v.
Proof. intros. unfold db_get, db_set. simpl. rewrite N.eqb_refl. reflexivity. Qed.
Lemma db_get_set_other : forall k k' v d, k <> k' -> db_get k' (db_set k v d) = db_get k' d.
Proof.
  intros k k' v d Hn. unfold db_set. unfold db_get at 1. simpl.
  destruct (N.eqb k k') eqn:E; [apply N.eqb_eq in E; contradiction|].
  apply (db_get_del_other k k' d Hn).
Qed.

(* ---------------------------------------------------------------- the local invariant of one object *)
Definition imp (a b : bool) : bool := negb a || b.
Definition has_pend (ob : obj) : bool :=
  match pend ob with Some _ => true | None => match pendw ob with Some _ => true | None => false end end.
Definition has_link (ob : obj) : bool := match link ob with Some _ => true | None => false end.
Definition okb (ob : obj) : bool :=
  imp (in_map ob) (alive ob && haskey ob && sess ob && negb (delflag ob) && negb (in_new ob))
  && imp (in_new ob) (alive ob && negb (haskey ob) && sess ob && negb (in_del ob))
  && imp (in_del ob) (in_map ob)
  && imp (in_mod ob) (in_map ob && modified ob)
  && imp (alive ob && sess ob && modified ob) (strong ob)
  && imp (in_map ob && modified ob) (in_mod ob)
  && imp (has_pend ob) (modified ob)
  && imp (alive ob && haskey ob && sess ob && negb (delflag ob)) (in_map ob)
  && imp (strong ob) (modified ob)
  && imp (delflag ob) (haskey ob)
  && imp (has_link ob) (alive ob).

Definition trb (ob ob' : obj) : bool :=
  okb ob' && imp (in_map ob') (in_map ob) && imp (in_new ob') (in_new ob) && imp (alive ob') (alive ob).

(* what every transformer of a live state guarantees *)
Definition tr (ob ob' : obj) : Prop :=
  okb ob' = true /\ pk ob' = pk ob /\ (in_map ob' = true -> in_map ob = true) /\
  (in_new ob' = true -> in_new ob = true) /\ (alive ob' = true -> alive ob = true).

Lemma imp_true : forall a b, imp a b = true -> a = true -> b = true.
Proof. intros [] []; simpl; auto; discriminate. Qed.

Lemma trb_tr : forall ob ob', trb ob ob' = true -> pk ob' = pk ob -> tr ob ob'.
Proof.
  intros ob ob' H Hp. unfold trb in H. do 3 (apply andb_prop in H; destruct H as [H ?]).
  repeat split; auto; intro X; eapply imp_true; eauto.
Qed.

(* enumeration of the flags *)
Definition mk (k : N) (lk : option nat) (pe pw : option Z) (b : list bool) : obj :=
  match b with
  | [a; hk; se; inw; idl; im; imd; md; sg; ex; iv; df] => mkObj a k hk se inw idl im imd md sg ex pe pw iv df lk
  | _ => dead0
  end.
Fixpoint allb (n : nat) (f : list bool -> bool) : bool :=
  match n with O => f [] | S n' => allb n' (fun l => f (l ++ [true])) && allb n' (fun l => f (l ++ [false])) end.
Lemma allb_spec : forall n f, allb n f = true -> forall l, length l = n -> f l = true.
Proof.
  induction n; intros f H l Hl.
  - destruct l; [exact H|discriminate].
  - simpl in H. apply andb_prop in H. destruct H as [H1 H2].
    destruct (exists_last (l:=l)) as [l' [x E]]; [intro; subst; discriminate|]. subst l.
    rewrite app_length in Hl. simpl in Hl.
    destruct x; [apply (IHn _ H1)|apply (IHn _ H2)]; lia.
Qed.
Lemma check_sound : forall Q : obj -> bool,
  (forall k lk pe pw, allb 12 (fun b => Q (mk k lk pe pw b)) = true) -> forall ob, Q ob = true.
Proof.
  intros Q H [a k hk se inw idl im imd md sg ex pe pw iv df lk].
  exact (allb_spec 12 _ (H k lk pe pw) [a; hk; se; inw; idl; im; imd; md; sg; ex; iv; df] eq_refl).
Qed.
Ltac by_enum := apply check_sound; intros ? [?|] [?|] [?|]; vm_compute; reflexivity.
Ltac pk_eq := repeat match goal with |- context [if ?c then _ else _] => destruct c end; reflexivity.

Lemma okb_dead0 : okb dead0 = true. Proof. reflexivity. Qed.
Lemma tr_refl : forall ob, okb ob = true -> tr ob ob.
Proof. intros ob H. repeat split; auto. Qed.

Lemma trb_modified_event : forall w v ob, imp (okb ob) (trb ob (modified_event w v ob)) = true.
Proof. intros [] v; by_enum. Qed.
Lemma tr_modified_event : forall w v ob, okb ob = true -> tr ob (modified_event w v ob).
Proof.
  intros w v ob H. apply trb_tr; [exact (imp_true _ _ (trb_modified_event w v ob) H)|].
  unfold modified_event. destruct w, ob; cbn; pk_eq.
Qed.
(* partial expire: state.modified => _strong_obj is kept (the object stays pinned) *)
Lemma trb_expire_attr : forall w ob, imp (okb ob) (trb ob (expire_attr w ob)) = true.
Proof. intros []; by_enum. Qed.
Lemma tr_expire_attr : forall w ob, okb ob = true -> tr ob (expire_attr w ob).
Proof.
  intros w ob H. apply trb_tr; [exact (imp_true _ _ (trb_expire_attr w ob) H)|].
  unfold expire_attr. destruct w, ob; reflexivity.
Qed.
Lemma trb_unexpire : forall ob, imp (okb ob) (trb ob (set_in_val true (set_expired false ob))) = true.
Proof. by_enum. Qed.
Lemma tr_unexpire : forall ob, okb ob = true -> tr ob (set_in_val true (set_expired false ob)).
Proof. intros ob H. apply trb_tr; [exact (imp_true _ _ (trb_unexpire ob) H)|destruct ob; reflexivity]. Qed.
Lemma trb_commit_all : forall ob, imp (okb ob) (trb ob (commit_all ob)) = true.
Proof. by_enum. Qed.
Lemma tr_commit_all : forall ob, okb ob = true -> tr ob (commit_all ob).
Proof.
  intros ob H. apply trb_tr; [exact (imp_true _ _ (trb_commit_all ob) H)|].
  unfold commit_all. destruct ob; cbn. pk_eq.
Qed.
Lemma trb_expire_obj : forall ob, imp (okb ob) (trb ob (expire_obj ob)) = true.
Proof. by_enum. Qed.
Lemma tr_expire_obj : forall ob, okb ob = true -> tr ob (expire_obj ob).
Proof.
  intros ob H. apply trb_tr; [exact (imp_true _ _ (trb_expire_obj ob) H)|].
  unfold expire_obj. destruct ob; cbn. pk_eq.
Qed.
Lemma tr_expire_if : forall ob, okb ob = true -> tr ob (if in_map ob then expire_obj ob else ob).
Proof. intros ob H. destruct (in_map ob); [apply tr_expire_obj|apply tr_refl]; auto. Qed.
Lemma trb_commit_obj : forall ob, imp (okb ob) (trb ob (commit_obj ob)) = true.
Proof. by_enum. Qed.
Lemma tr_commit_obj : forall ob, okb ob = true -> tr ob (commit_obj ob).
Proof.
  intros ob H. apply trb_tr; [exact (imp_true _ _ (trb_commit_obj ob) H)|].
  unfold commit_obj, expire_obj. destruct ob; cbn. pk_eq.
Qed.
Lemma trb_set_in_del : forall ob, imp (okb ob && alive ob && persistent ob) (trb ob (set_in_del true ob)) = true.
Proof. by_enum. Qed.
Lemma tr_set_in_del : forall ob, okb ob = true -> alive ob = true -> persistent ob = true -> tr ob (set_in_del true ob).
Proof.
  intros ob H Ha Hp. apply trb_tr; [|destruct ob; reflexivity].
  apply (imp_true _ _ (trb_set_in_del ob)). rewrite H, Ha, Hp. reflexivity.
Qed.
Lemma trb_set_link : forall x ob, imp (okb ob && alive ob) (trb ob (set_link x ob)) = true.
Proof. intros [x|]; by_enum. Qed.
Lemma tr_set_link : forall x ob, okb ob = true -> alive ob = true -> tr ob (set_link x ob).
Proof.
  intros x ob H Ha. apply trb_tr; [|destruct ob; reflexivity].
  apply (imp_true _ _ (trb_set_link x ob)). rewrite H, Ha. reflexivity.
Qed.
Lemma okb_link_alive : forall ob t, okb ob = true -> link ob = Some t -> alive ob = true.
Proof.
  intros ob t H E.
  assert (Q : forall ob, imp (okb ob && has_link ob) (alive ob) = true) by by_enum.
  apply (imp_true _ _ (Q ob)). rewrite H. unfold has_link. rewrite E. reflexivity.
Qed.
Lemma trb_set_expired : forall x ob, imp (okb ob) (trb ob (set_expired x ob)) = true.
Proof. intro x. by_enum. Qed.
Lemma tr_set_expired : forall x ob, okb ob = true -> tr ob (set_expired x ob).
Proof. intros x ob H. apply trb_tr; [exact (imp_true _ _ (trb_set_expired x ob) H)|destruct ob; reflexivity]. Qed.

(* an object that no root holds can be freed *)
Definition unrooted_local (ob : obj) : bool :=
  negb (in_new ob) && negb (in_del ob) && negb (strong ob && (in_map ob || in_mod ob)).
Lemma trb_free_obj : forall ob, imp (okb ob && unrooted_local ob) (trb ob (free_obj ob)) = true.
Proof. by_enum. Qed.
Lemma tr_free_obj : forall ob, okb ob = true -> unrooted_local ob = true -> tr ob (free_obj ob).
Proof.
  intros ob H H1. apply trb_tr; [|destruct ob; reflexivity].
  apply (imp_true _ _ (trb_free_obj ob)). rewrite H, H1. reflexivity.
Qed.

Definition flush_obj_spec (ob : obj) : bool :=
  let ob' := flush_obj ob in
  okb ob' && eqb (alive ob') (alive ob) && negb (in_new ob') && negb (in_del ob') && negb (in_mod ob')
  && imp (in_map ob') ((in_map ob && negb (in_del ob)) || in_new ob)
  && imp ((in_map ob && negb (in_del ob)) || in_new ob) (in_map ob')
  && negb (has_pend ob' && (in_map ob' || in_new ob')).
Lemma flush_obj_ok : forall ob, imp (okb ob) (flush_obj_spec ob) = true.
Proof. by_enum. Qed.
Lemma flush_obj_pk : forall ob, pk (flush_obj ob) = pk ob.
Proof. intros ob. unfold flush_obj, commit_all. destruct ob; cbn. pk_eq. Qed.

Lemma ok_new_obj : forall s, let ob := new_obj s in
  okb ob = true /\ alive ob = true /\ pk ob = next_pk s /\ in_map ob = false /\ in_new ob = true /\
  pend ob = Some (next_val s) /\ in_del ob = false /\ pendw ob = None.
Proof. intros s. cbn. repeat split. Qed.
Lemma ok_loaded_obj : forall k, let ob := loaded_obj k in
  okb ob = true /\ alive ob = true /\ pk ob = k /\ in_map ob = true /\ in_new ob = false.
Proof. intros k. cbn. repeat split. Qed.

(* consequences of the local invariant used by the theorems *)
Lemma okb_pending_rooted : forall ob, okb ob = true -> alive ob = true -> has_pend ob = true ->
  (in_new ob || in_map ob) = true -> (in_new ob || (strong ob && in_map ob && in_mod ob)) = true.
Proof.
  intros ob H1 H2 H3 H4.
  assert (Q : forall ob, imp (okb ob && alive ob && has_pend ob && (in_new ob || in_map ob))
                             (in_new ob || (strong ob && in_map ob && in_mod ob)) = true) by by_enum.
  apply (imp_true _ _ (Q ob)). rewrite H1, H2, H3, H4. reflexivity.
Qed.
Lemma okb_clean_unrooted : forall ob, okb ob = true -> in_map ob = true -> modified ob = false -> in_del ob = false ->
  unrooted_local ob = true.
Proof.
  intros ob H1 H2 H3 H4.
  assert (Q : forall ob, imp (okb ob && in_map ob && negb (modified ob) && negb (in_del ob)) (unrooted_local ob) = true) by by_enum.
  apply (imp_true _ _ (Q ob)). rewrite H1, H2, H3, H4. reflexivity.
Qed.
Lemma okb_fields : forall ob, okb ob = true ->
  (in_map ob = true -> alive ob = true /\ haskey ob = true /\ sess ob = true /\ delflag ob = false /\ in_new ob = false) /\
  (in_new ob = true -> alive ob = true /\ haskey ob = false /\ sess ob = true /\ in_del ob = false /\ in_map ob = false) /\
  (in_del ob = true -> in_map ob = true) /\ (in_mod ob = true -> in_map ob = true /\ modified ob = true).
Proof.
  intros ob H.
  assert (Q : forall ob, imp (okb ob)
     (imp (in_map ob) (alive ob && haskey ob && sess ob && negb (delflag ob) && negb (in_new ob))
      && imp (in_new ob) (alive ob && negb (haskey ob) && sess ob && negb (in_del ob) && negb (in_map ob))
      && imp (in_del ob) (in_map ob) && imp (in_mod ob) (in_map ob && modified ob)) = true) by by_enum.
  pose proof (imp_true _ _ (Q ob) H) as P.
  repeat (apply andb_prop in P; destruct P as [P ?]).
  repeat split; intros;
    repeat match goal with
    | X : imp ?a _ = true, Y : ?a = true |- _ => apply (fun X => imp_true _ _ X Y) in X
    | X : _ && _ = true |- _ => apply andb_prop in X; destruct X
    | X : negb _ = true |- _ => apply negb_true_iff in X
    end; auto.
Qed.
Lemma okb_modified_strong : forall ob, okb ob = true -> alive ob = true -> sess ob = true -> modified ob = true ->
  strong ob = true.
Proof.
  intros ob H A S M.
  assert (Q : forall ob, imp (okb ob && alive ob && sess ob && modified ob) (strong ob) = true) by by_enum.
  apply (imp_true _ _ (Q ob)). rewrite H, A, S, M. reflexivity.
Qed.
