(* C49 - proofs about the model of coq/orm/Mutable.v.

   Inv is an invariant of every guarded history started from a fresh session:
     iI   parent tracking: whoever holds a value object is among its _parents
     iF*  freshness: every referenced value object was allocated
     iPM  an unflagged parent has no committed_state entry
     iJ   a session instance without committed_state entry holds the database's value
     iK   a recorded original value equals the database's value
   from which the two clauses of the property follow. *)
From Coq Require Import List ZArith Bool Arith Lia.
Import ListNotations.
From SAV.base Require Import PySlice.
From SAV.orm Require Import CollBase CollList CollSet CollDict Mutable.
Local Open Scope nat_scope.

(* ------------------------------------------------------------------ == on values *)
Lemma ceq_refl : forall a, ceq a a = true.
Proof. intros; unfold ceq; destruct (cont_eq_dec (canon a) (canon a)); congruence. Qed.
Lemma ceq_true : forall a b, ceq a b = true <-> canon a = canon b.
Proof. intros; unfold ceq; destruct (cont_eq_dec (canon a) (canon b)); split; congruence. Qed.
Lemma ceq_sym : forall a b, ceq a b = true -> ceq b a = true.
Proof. intros a b; rewrite !ceq_true; congruence. Qed.
Lemma ceq_trans : forall a b c, ceq a b = true -> ceq b c = true -> ceq a c = true.
Proof. intros a b c; rewrite !ceq_true; congruence. Qed.
Lemma ceq_opt_refl : forall a, ceq_opt a a = true.
Proof. destruct a; simpl; auto using ceq_refl. Qed.
Lemma ceq_opt_sym : forall a b, ceq_opt a b = true -> ceq_opt b a = true.
Proof. destruct a, b; simpl; auto using ceq_sym. Qed.
Lemma ceq_opt_trans : forall a b c, ceq_opt a b = true -> ceq_opt b c = true -> ceq_opt a c = true.
Proof. intros a b c; destruct a, b, c; simpl; intros; try congruence; eapply ceq_trans; eauto. Qed.

(* ------------------------------------------------------------------ T1 side condition *)
Lemma memb_In : forall m l, memb m l = true <-> In m l.
Proof.
  intros m l; unfold memb; rewrite existsb_exists; split.
  - intros [x [Hx E]]. apply internal_meth_dec_bl in E; subst; auto.
  - intros H; exists m; split; auto. apply internal_meth_dec_lb; auto.
Qed.

Lemma covers_spec : forall k ovl, covers k ovl = true ->
  forall m, In m (in_place_mutators k) -> memb m ovl = true.
Proof. intros k ovl H m Hm; unfold covers in H; rewrite forallb_forall in H; auto. Qed.

Lemma covers_all_spec : forall ov, covers_all ov = true -> forall k, covers k (ov k) = true.
Proof.
  intros ov H k; unfold covers_all in H.
  apply andb_prop in H; destruct H as [H H3]; apply andb_prop in H; destruct H as [H1 H2].
  destruct k; auto.
Qed.

(* the Python data model, as used: an operation whose method is not an in-place mutator of the
   value's type leaves the contents unchanged (by inspection of the reference semantics) *)
Lemma nonmutator_unchanged : forall ord c o,
  ~ In (meth_of o) (in_place_mutators (kind_of c)) -> snd (mut_sem ord c o) = c.
Proof.
  intros ord c o H.
  destruct c as [d|l|s]; destruct o as [o|k|o|rv|o|x]; simpl in *; auto;
    try (destruct o; simpl in H; try (exfalso; apply H; tauto)).
  - simpl. destruct (py_getslice l sl); reflexivity.
  - exfalso; apply H; simpl; tauto.
Qed.

Lemma raise_unchanged : forall ord c o e c', mut_sem ord c o = (Raise e, c') -> c' = c.
Proof.
  intros ord c o e c' H.
  destruct c as [d|l|s]; destruct o as [o|k|o|rv|o|x]; simpl in H; try (inversion H; subst; reflexivity).
  - destruct (py_dict_op d o) as [[?|?] ?]; inversion H; reflexivity.
  - destruct (py_list_op l o) as [[?|?] ?]; inversion H; reflexivity.
  - match type of H with context [py_set_op ord s ?o'] => destruct (py_set_op ord s o') as [[?|?] ?] end;
      inversion H; reflexivity.
Qed.

(* ------------------------------------------------------------------ the invariant *)
Record Inv (w : world) : Prop := mkInv {
  iI : forall p o, slot (objs w p) = Pres (Some o) -> In p (vpar (heap w o));
  iF1 : forall p o, slot (objs w p) = Pres (Some o) -> o < nexto w;
  iF2 : forall p q, cst (objs w p) = Some (OVal (Some q)) -> q < nexto w;
  iF3 : forall o, hdl w = Some o -> o < nexto w;
  iPM : forall p, pmod (objs w p) = false -> cst (objs w p) = None;
  iJ : forall r, r < 2 -> cst (objs w r) = None ->
       forall v, slot (objs w r) = Pres v -> ceq_opt (val w v) (db w r) = true;
  iK : forall r, r < 2 -> forall u, cst (objs w r) = Some (OVal u) -> ceq_opt (val w u) (db w r) = true;
  iNP : 2 <= nextp w
}.

Ltac upd_cases :=
  repeat match goal with
         | H : context [upd _ _ _ _] |- _ => unfold upd in H
         | |- context [upd _ _ _ _] => unfold upd
         end;
  repeat match goal with
         | H : context [Nat.eqb ?a ?b] |- _ => destruct (Nat.eqb_spec a b); subst
         | |- context [Nat.eqb ?a ?b] => destruct (Nat.eqb_spec a b); subst
         end.

Lemma inv_init : forall d0 d1, Inv (init_world d0 d1).
Proof.
  intros; constructor; simpl; intros; try discriminate; auto.
Qed.

(* changes that never hurt: other components (copies, dbc, intrans) *)
Lemma inv_ext : forall w w',
  objs w' = objs w -> heap w' = heap w -> nexto w' = nexto w -> 2 <= nextp w' ->
  hdl w' = hdl w -> db w' = db w -> Inv w -> Inv w'.
Proof.
  intros w w' Ho Hh Hn Hp Hd Hb [I F1 F2 F3 PM J K NP].
  constructor; unfold val in *; rewrite ?Ho, ?Hh, ?Hn, ?Hd, ?Hb; auto.
Qed.

Lemma inv_set_intrans : forall w b, Inv w -> Inv (set_intrans w b).
Proof. intros w b H; apply (inv_ext w); auto. apply (iNP _ H). Qed.
Lemma inv_touch : forall w p, Inv w -> Inv (touch w p).
Proof. intros; unfold touch; destruct (is_session p); auto using inv_set_intrans. Qed.

(* allocation *)
Lemma inv_alloc : forall w c pars, Inv w -> Inv (fst (alloc w c pars)).
Proof.
  intros w c pars [I F1 F2 F3 PM J K NP]; constructor; simpl; auto.
  - intros p o H. specialize (F1 _ _ H). specialize (I _ _ H). upd_cases; auto. lia.
  - intros p o H. specialize (F1 _ _ H). lia.
  - intros p q H. specialize (F2 _ _ H). lia.
  - intros o H. specialize (F3 _ H). lia.
  - intros r Hr Hc v Hs. specialize (J r Hr Hc v Hs). destruct v as [o|]; simpl in *; auto.
    specialize (F1 _ _ Hs). upd_cases; auto. lia.
  - intros r Hr u Hc. specialize (K r Hr u Hc). destruct u as [o|]; simpl in *; auto.
    specialize (F2 _ _ Hc). upd_cases; auto. lia.
Qed.

Lemma alloc_facts : forall w c pars,
  let w' := fst (alloc w c pars) in
  snd (alloc w c pars) = nexto w /\ objs w' = objs w /\ nexto w' = S (nexto w) /\ nextp w' = nextp w /\
  hdl w' = hdl w /\ db w' = db w /\ copies w' = copies w /\
  heap w' (nexto w) = mkV c pars /\ (forall o, o <> nexto w -> heap w' o = heap w o).
Proof.
  intros; simpl; repeat split; auto.
  - unfold upd; rewrite Nat.eqb_refl; auto.
  - intros o Ho; unfold upd. destruct (Nat.eqb_spec o (nexto w)); congruence.
Qed.

(* flagging: committed_state := NO_VALUE, modified := True on some parents *)
Definition flag_ext (w w' : world) : Prop :=
  heap w' = heap w /\ nexto w' = nexto w /\ nextp w' = nextp w /\ hdl w' = hdl w /\ db w' = db w /\
  copies w' = copies w /\
  forall p, slot (objs w' p) = slot (objs w p) /\
            ((cst (objs w' p) = cst (objs w p) /\ pmod (objs w' p) = pmod (objs w p)) \/
             (cst (objs w' p) = Some ONoValue /\ pmod (objs w' p) = true)).

Lemma flag_ext_refl : forall w, flag_ext w w.
Proof. intros; repeat split; auto. Qed.
Lemma flag_ext_trans : forall a b c, flag_ext a b -> flag_ext b c -> flag_ext a c.
Proof.
  intros a b c (H1 & H2 & H3 & H4 & H5 & H6 & H7) (G1 & G2 & G3 & G4 & G5 & G6 & G7).
  repeat split; try congruence.
  - destruct (H7 p) as [S _], (G7 p) as [S' _]; congruence.
  - destruct (H7 p) as [_ A], (G7 p) as [_ B].
    destruct B as [[B1 B2]|[B1 B2]]; [|right; auto].
    destruct A as [[A1 A2]|[A1 A2]]; [left|right]; split; congruence.
Qed.

Lemma inv_flag_ext : forall w w', flag_ext w w' -> Inv w -> Inv w'.
Proof.
  intros w w' (Hh & Hn & Hp & Hd & Hb & _ & Ho) [I F1 F2 F3 PM J K NP].
  constructor; unfold val; rewrite ?Hh, ?Hn, ?Hp, ?Hd, ?Hb; auto.
  - intros p o H. destruct (Ho p) as [S _]. rewrite S in H; auto.
  - intros p o H. destruct (Ho p) as [S _]. rewrite S in H; eauto.
  - intros p q H. destruct (Ho p) as [_ [[C _]|[C _]]]; rewrite C in H; eauto; discriminate.
  - intros p H. destruct (Ho p) as [_ [[C M]|[C M]]]; rewrite M in H; try discriminate. rewrite C; auto.
  - intros r Hr Hc v Hs. destruct (Ho r) as [S [[C _]|[C _]]]; rewrite C in Hc; try discriminate.
    rewrite S in Hs. apply (J r Hr Hc v Hs).
  - intros r Hr u Hc. destruct (Ho r) as [_ [[C _]|[C _]]]; rewrite C in Hc; try discriminate.
    apply (K r Hr u Hc).
Qed.

Lemma flag_ext_touch : forall w p, flag_ext w (touch w p).
Proof. intros; unfold touch; destruct (is_session p); repeat split; auto. Qed.

Lemma flag_ext_flag1 : forall w p,
  flag_ext w (touch (set_objs w (upd (objs w) p (flag_ps (objs w p)))) p).
Proof.
  intros. eapply flag_ext_trans; [|apply flag_ext_touch].
  repeat split; simpl; auto; upd_cases; simpl; auto.
Qed.

Lemma changed_loop_ext : forall ps w, flag_ext w (fst (changed_loop ps w)).
Proof.
  induction ps as [|p r IH]; intros w; simpl; [apply flag_ext_refl|].
  destruct (slot (objs w p)); simpl; [apply flag_ext_refl|].
  eapply flag_ext_trans; [apply flag_ext_flag1|apply IH].
Qed.

(* when every parent is loaded, changed() completes and every parent ends up flagged *)
Lemma changed_loop_all : forall ps w,
  forallb (fun p => match slot (objs w p) with Absent => false | Pres _ => true end) ps = true ->
  snd (changed_loop ps w) = true /\
  forall p, In p ps -> cst (objs (fst (changed_loop ps w)) p) = Some ONoValue.
Proof.
  induction ps as [|p r IH]; intros w H; simpl in *; [split; auto; intros ? []|].
  apply andb_prop in H; destruct H as [Hp Hr].
  destruct (slot (objs w p)) eqn:Sp; [discriminate|].
  set (w1 := touch (set_objs w (upd (objs w) p (flag_ps (objs w p)))) p).
  assert (E : flag_ext w w1) by apply flag_ext_flag1.
  assert (Hr' : forallb (fun q => match slot (objs w1 q) with Absent => false | Pres _ => true end) r = true).
  { rewrite forallb_forall in *. intros q Hq. destruct E as (_ & _ & _ & _ & _ & _ & Ho).
    destruct (Ho q) as [S _]. rewrite S. auto. }
  destruct (IH w1 Hr') as [A B]. split; auto.
  intros q [->|Hq]; auto.
  (* p itself: flagged in w1, and flags persist *)
  assert (C1 : cst (objs w1 q) = Some ONoValue).
  { unfold w1, touch. destruct (is_session q); simpl; unfold upd; rewrite Nat.eqb_refl; reflexivity. }
  destruct (changed_loop_ext r w1) as (_ & _ & _ & _ & _ & _ & Ho).
  destruct (Ho q) as [_ [[C _]|[C _]]]; congruence.
Qed.

(* assignment *)
Lemma In_add_par : forall p q l, In q l \/ q = p -> In q (add_par p l).
Proof.
  intros p q l H; unfold add_par. destruct (existsb (Nat.eqb p) l) eqn:E.
  - destruct H as [H| ->]; auto. apply existsb_exists in E. destruct E as [x [Hx E]].
    apply Nat.eqb_eq in E; subst; auto.
  - apply in_or_app. destruct H; [left|right]; simpl; auto.
Qed.
Lemma In_remove_par : forall p q l, In q l -> q <> p -> In q (remove_par p l).
Proof.
  intros p q l H N; unfold remove_par; apply filter_In; split; auto.
  destruct (Nat.eqb_spec p q); simpl; congruence.
Qed.

Lemma set_obj_vcont : forall w p v o, vcont (heap (set_obj w p v) o) = vcont (heap w o).
Proof.
  intros; unfold set_obj, touch. destruct (is_session p); simpl;
  (destruct (same_val (slot (objs w p)) v); [reflexivity|]);
  destruct (slot (objs w p)) as [|[q|]]; destruct v as [x|]; simpl; upd_cases; simpl; upd_cases; auto.
Qed.

Lemma set_obj_frame : forall w p v,
  nexto (set_obj w p v) = nexto w /\ nextp (set_obj w p v) = nextp w /\ hdl (set_obj w p v) = hdl w /\
  db (set_obj w p v) = db w /\ copies (set_obj w p v) = copies w /\
  (forall p', p' <> p -> objs (set_obj w p v) p' = objs w p') /\
  slot (objs (set_obj w p v) p) = Pres v /\ pmod (objs (set_obj w p v) p) = true /\
  cst (objs (set_obj w p v) p) =
    match cst (objs w p) with
    | Some x => Some x
    | None => Some (match slot (objs w p) with Absent => ONoValue | Pres u => OVal u end)
    end.
Proof.
  intros; unfold set_obj, touch; destruct (is_session p); simpl; repeat split; auto;
    try (intros; unfold upd; destruct (Nat.eqb_spec p' p); congruence);
    unfold upd; rewrite Nat.eqb_refl; reflexivity.
Qed.

Lemma set_obj_parents : forall w p v p' o,
  In p' (vpar (heap w o)) -> p' <> p -> In p' (vpar (heap (set_obj w p v) o)).
Proof.
  intros w p v p' o H N; unfold set_obj, touch. destruct (is_session p); simpl;
  (destruct (same_val (slot (objs w p)) v); [assumption|]);
  destruct (slot (objs w p)) as [|[q|]]; destruct v as [x|]; simpl; upd_cases; simpl; upd_cases; simpl;
    auto using In_add_par, In_remove_par.
Qed.

Lemma set_obj_holder : forall w p o, Inv w -> In p (vpar (heap (set_obj w p (Some o)) o)).
Proof.
  intros w p o HI; unfold set_obj, touch.
  assert (G : forall hp,
     hp = (if same_val (slot (objs w p)) (Some o) then heap w
           else match slot (objs w p) with
                | Pres (Some q) =>
                    upd (upd (heap w) o (mkV (vcont (heap w o)) (add_par p (vpar (heap w o))))) q
                        (mkV (vcont (upd (heap w) o (mkV (vcont (heap w o)) (add_par p (vpar (heap w o)))) q))
                             (remove_par p (vpar (upd (heap w) o (mkV (vcont (heap w o)) (add_par p (vpar (heap w o)))) q))))
                | _ => upd (heap w) o (mkV (vcont (heap w o)) (add_par p (vpar (heap w o))))
                end) -> In p (vpar (hp o))).
  { intros hp ->. destruct (slot (objs w p)) as [|[q|]] eqn:S; simpl.
    - unfold upd; rewrite Nat.eqb_refl; simpl. apply In_add_par; auto.
    - destruct (Nat.eqb_spec q o).
      + subst. apply (iI _ HI _ _ S).
      + unfold upd. destruct (Nat.eqb_spec o q); [congruence|]. rewrite Nat.eqb_refl; simpl.
        apply In_add_par; auto.
    - unfold upd; rewrite Nat.eqb_refl; simpl. apply In_add_par; auto. }
  destruct (is_session p); simpl; apply G; reflexivity.
Qed.

Lemma inv_set_obj : forall w p v,
  Inv w -> (forall o, v = Some o -> o < nexto w) -> Inv (set_obj w p v).
Proof.
  intros w p v HI Hv.
  destruct (set_obj_frame w p v) as (En & Ep & Eh & Eb & _ & Eo & Es & Em & Ec).
  pose proof HI as [I F1 F2 F3 PM J K NP].
  constructor; rewrite ?En, ?Ep, ?Eh, ?Eb; auto.
  - intros p' o H. destruct (Nat.eq_dec p' p) as [->|N].
    + rewrite Es in H. inversion H; subst. apply set_obj_holder; auto.
    + rewrite (Eo _ N) in H. apply set_obj_parents; auto.
  - intros p' o H. destruct (Nat.eq_dec p' p) as [->|N].
    + rewrite Es in H. inversion H; subst. auto.
    + rewrite (Eo _ N) in H. eauto.
  - intros p' q H. destruct (Nat.eq_dec p' p) as [->|N].
    + rewrite Ec in H. destruct (cst (objs w p)) eqn:C; [inversion H; subst; eauto|].
      destruct (slot (objs w p)) eqn:S; inversion H; subst. eauto.
    + rewrite (Eo _ N) in H. eauto.
  - intros p' H. destruct (Nat.eq_dec p' p) as [->|N]; [congruence|]. rewrite (Eo _ N) in *. auto.
  - intros r Hr Hc u Hs. destruct (Nat.eq_dec r p) as [->|N].
    + rewrite Ec in Hc. destruct (cst (objs w p)); discriminate.
    + rewrite (Eo _ N) in *. specialize (J r Hr Hc u Hs).
      destruct u; simpl in *; auto. rewrite set_obj_vcont; auto.
  - intros r Hr u Hc. destruct (Nat.eq_dec r p) as [->|N].
    + rewrite Ec in Hc.
      assert (G : ceq_opt (val w u) (db w p) = true).
      { destruct (cst (objs w p)) eqn:C.
        - inversion Hc; subst. apply K; auto.
        - destruct (slot (objs w p)) eqn:S; inversion Hc; subst. apply (J p Hr C _ S). }
      destruct u; simpl in *; auto. rewrite set_obj_vcont; auto.
    + rewrite (Eo _ N) in *. specialize (K r Hr u Hc).
      destruct u; simpl in *; auto. rewrite set_obj_vcont; auto.
Qed.

(* generic: replacing one parent record *)
Lemma inv_set_pstate : forall w p ps',
  Inv w ->
  (forall o, slot ps' = Pres (Some o) -> In p (vpar (heap w o)) /\ o < nexto w) ->
  (forall q, cst ps' = Some (OVal (Some q)) -> q < nexto w) ->
  (pmod ps' = false -> cst ps' = None) ->
  (p < 2 -> cst ps' = None -> forall v, slot ps' = Pres v -> ceq_opt (val w v) (db w p) = true) ->
  (p < 2 -> forall u, cst ps' = Some (OVal u) -> ceq_opt (val w u) (db w p) = true) ->
  Inv (set_objs w (upd (objs w) p ps')).
Proof.
  intros w p ps' [I F1 F2 F3 PM J K NP] H1 H2 H3 H4 H5.
  constructor; unfold val in *; simpl; auto.
  - intros p' o H; upd_cases; auto. apply H1; auto.
  - intros p' o H; upd_cases; eauto. apply H1; auto.
  - intros p' q H; upd_cases; eauto.
  - intros p' H; upd_cases; auto.
  - intros r Hr Hc v Hs; upd_cases; auto.
  - intros r Hr u Hc; upd_cases; auto.
Qed.

(* expiry *)
Lemma inv_expire_row : forall w r, Inv w -> Inv (expire_row w r).
Proof.
  intros; unfold expire_row; apply inv_set_pstate; simpl; auto; intros; discriminate.
Qed.

(* loading *)
Lemma inv_load : forall w r, Inv w -> Inv (fst (load w r)).
Proof.
  intros w r HI. unfold load.
  assert (HI1 : Inv (set_intrans w true)) by auto using inv_set_intrans.
  set (w1 := set_intrans w true) in *.
  destruct (slot (objs w1 r)) as [|v] eqn:S.
  - destruct (db w1 r) as [c|] eqn:D.
    + destruct (alloc w1 c [r]) as [w2 o] eqn:A.
      pose proof (alloc_facts w1 c [r]) as AF. rewrite A in AF; simpl in AF.
      destruct AF as (Eo & Eobj & En & Ep & Eh & Eb & _ & Ehp & Ehf).
      assert (HI2 : Inv w2). { pose proof (inv_alloc w1 c [r] HI1) as G; rewrite A in G; exact G. }
      simpl. subst o. apply inv_set_pstate; simpl; auto.
      * intros o' E; inversion E; subst. rewrite Ehp; simpl. split; auto. lia.
      * intros q E. rewrite En. pose proof (iF2 _ HI1 r q E) as G. simpl in G. lia.
      * apply (iPM _ HI1).
      * intros Hr Hc v E; inversion E; subst. unfold val. rewrite Ehp, Eb. simpl in D. rewrite D; simpl.
        apply ceq_refl.
      * intros Hr u Hc. rewrite Eb. pose proof (iK _ HI1 r Hr u Hc) as G.
        destruct u as [q|]; simpl in *; auto. rewrite Ehf; auto.
        pose proof (iF2 _ HI1 r q Hc) as G2. simpl in G2. lia.
    + apply (inv_set_pstate w1 r _ HI1); simpl; auto.
      * intros o E; discriminate.
      * apply (iF2 _ HI1).
      * apply (iPM _ HI1).
      * intros Hr Hc v E; inversion E; subst; simpl. simpl in D. rewrite D; reflexivity.
      * intros Hr u Hc. apply (iK _ HI1 r Hr u Hc).
  - apply (inv_set_pstate w1 r _ HI1); simpl; auto.
    + intros o E. split; [apply (iI _ HI1)|apply (iF1 _ HI1 r)]; congruence.
    + apply (iF2 _ HI1).
    + apply (iPM _ HI1).
    + intros Hr Hc v' E. apply (iJ _ HI1 r Hr Hc). congruence.
    + intros Hr u Hc. apply (iK _ HI1 r Hr u Hc).
Qed.

Lemma load_result : forall w r, slot (objs (fst (load w r)) r) = Pres (snd (load w r)).
Proof.
  intros; unfold load. destruct (slot (objs (set_intrans w true) r)) eqn:S.
  - destruct (db (set_intrans w true) r); simpl; unfold upd; rewrite Nat.eqb_refl; reflexivity.
  - simpl; unfold upd; rewrite Nat.eqb_refl; simpl. simpl in S. auto.
Qed.

Lemma get_value_inv : forall w t w1 rc v,
  get_value w t = (w1, rc, v) -> Inv w -> Inv w1 /\ forall x, v = Some (Some x) -> x < nexto w1.
Proof.
  intros w t w1 rc v H HI. unfold get_value in H.
  assert (G : forall p, match getattr w p with
                        | (w', Some v') => Inv w' /\ forall x, v' = Some x -> x < nexto w'
                        | (w', None) => w' = w end).
  { intros p; unfold getattr. destruct (slot (objs w p)) as [|v'] eqn:S.
    - destruct (is_session p); auto.
      destruct (load w p) as [w' v'] eqn:L. split.
      + pose proof (inv_load w p HI) as G; rewrite L in G; exact G.
      + intros x ->. pose proof (load_result w p) as R; rewrite L in R; simpl in R.
        pose proof (inv_load w p HI) as G; rewrite L in G; simpl in G. apply (iF1 _ G p); auto.
    - split; auto. intros x ->. apply (iF1 _ HI p); auto. }
  destruct t as [r|r|].
  - simpl in H. specialize (G r). destruct (getattr w r) as [w' [v'|]]; inversion H; subst.
    + destruct G as [G1 G2]; split; auto. intros x E; inversion E; subst; auto.
    + split; auto. intros; discriminate.
  - simpl in H. destruct (copies w r) as [p|].
    + specialize (G p). destruct (getattr w p) as [w' [v'|]]; inversion H; subst.
      * destruct G as [G1 G2]; split; auto. intros x E; inversion E; subst; auto.
      * split; auto. intros; discriminate.
    + inversion H; subst; split; auto; intros; discriminate.
  - destruct (hdl w) as [o|] eqn:Hh; inversion H; subst; split; auto.
    + intros x E; inversion E; subst. apply (iF3 _ HI); auto.
    + intros; discriminate.
Qed.

(* flush *)
Lemma inv_flush_row : forall w r, r < 2 -> Inv w -> Inv (flush_row w r).
Proof.
  intros w r Hr HI. unfold flush_row. destruct (pmod (objs w r)) eqn:M; auto.
  apply inv_set_intrans.
  set (w1 := match cst (objs w r), slot (objs w r) with
             | Some og, Pres u => if orig_equal w og u then w else set_db w (upd (db w) r (val w u))
             | _, _ => w end).
  (* the value now in the row equals the in-memory value; other rows and everything else unchanged *)
  assert (E : objs w1 = objs w /\ heap w1 = heap w /\ nexto w1 = nexto w /\ nextp w1 = nextp w /\
              hdl w1 = hdl w /\ (forall r', r' <> r -> db w1 r' = db w r') /\
              (forall v, slot (objs w r) = Pres v -> ceq_opt (val w v) (db w1 r) = true)).
  { unfold w1. destruct (cst (objs w r)) as [og|] eqn:C.
    - destruct (slot (objs w r)) as [|u] eqn:S.
      + repeat split; auto. intros; discriminate.
      + destruct (orig_equal w og u) eqn:OE.
        * repeat split; auto. intros v E; inversion E; subst.
          destruct og as [|[q|]]; destruct v as [x|]; simpl in OE; try discriminate.
          -- pose proof (iK _ HI r Hr _ C) as G. simpl in G. simpl.
             destruct (db w r); try discriminate. eapply ceq_trans; [apply ceq_sym; exact OE|exact G].
          -- apply (iK _ HI r Hr _ C).
        * simpl; repeat split; auto.
          -- intros r' N; unfold upd. destruct (Nat.eqb_spec r' r); congruence.
          -- intros v E; inversion E; subst. unfold upd; rewrite Nat.eqb_refl. apply ceq_opt_refl.
    - repeat split; auto. intros v S. apply (iJ _ HI r Hr C v S). }
  destruct E as (Eo & Eh & En & Ep & Ehd & Edb & Erow).
  pose proof HI as [I F1 F2 F3 PM J K NP].
  constructor; unfold val; simpl; rewrite ?Eo, ?Eh, ?En, ?Ep, ?Ehd; auto.
  - intros p o H; upd_cases; simpl in *; auto.
  - intros p o H; upd_cases; simpl in *; eauto.
  - intros p q H; upd_cases; simpl in *; eauto; discriminate.
  - intros p H; upd_cases; simpl in *; auto.
  - intros r' Hr' Hc v Hs; upd_cases; simpl in *.
    + apply (Erow v Hs).
    + rewrite Edb; auto. apply (J r' Hr' Hc v Hs).
  - intros r' Hr' u Hc; upd_cases; simpl in *; [discriminate|].
    rewrite Edb; auto. apply (K r' Hr' u Hc).
Qed.

Lemma inv_flush : forall w, Inv w -> Inv (flush w).
Proof. intros; unfold flush, rows; simpl. apply inv_flush_row; auto. apply inv_flush_row; auto. Qed.

Lemma flush_row_unflagged : forall w r, pmod (objs (flush_row w r) r) = false.
Proof.
  intros; unfold flush_row. destruct (pmod (objs w r)) eqn:M; auto.
  simpl. unfold upd; rewrite Nat.eqb_refl; reflexivity.
Qed.
Lemma flush_row_other : forall w r r', r' <> r -> objs (flush_row w r) r' = objs w r'.
Proof.
  intros; unfold flush_row. destruct (pmod (objs w r)); auto.
  simpl. unfold upd. destruct (Nat.eqb_spec r' r); [congruence|].
  destruct (cst (objs w r)); auto. destruct (slot (objs w r)); auto. destruct (orig_equal w o v); auto.
Qed.
Lemma flush_unflagged : forall w r, r < 2 -> pmod (objs (flush w) r) = false.
Proof.
  intros w r Hr; unfold flush, rows; simpl.
  destruct r as [|[|r]]; [|apply flush_row_unflagged|lia].
  rewrite flush_row_other by lia. apply flush_row_unflagged.
Qed.

(* commit / rollback: whatever the database now holds, every session instance is expired *)
Lemma inv_expire_all_db : forall w dbn dbcn b,
  Inv w ->
  Inv (expire_all (mkW (objs w) (heap w) (nexto w) (nextp w) (copies w) (hdl w) dbn dbcn b)).
Proof.
  intros w dbn dbcn b [I F1 F2 F3 PM J K NP].
  unfold expire_all, rows, expire_row; simpl.
  constructor; simpl; auto.
  - intros p o H; upd_cases; simpl in *; try discriminate; auto.
  - intros p o H; upd_cases; simpl in *; try discriminate; eauto.
  - intros p q H; upd_cases; simpl in *; try discriminate; eauto.
  - intros p H; upd_cases; simpl in *; auto.
  - intros r Hr Hc v Hs. destruct r as [|[|r]]; [| |lia]; simpl in Hs; discriminate.
  - intros r Hr u Hc. destruct r as [|[|r]]; [| |lia]; simpl in Hc; discriminate.
Qed.

Lemma inv_commit : forall w, Inv w -> Inv (commit w).
Proof. intros; unfold commit. apply inv_expire_all_db. apply inv_flush; auto. Qed.
Lemma inv_rollback : forall w, Inv w -> Inv (rollback w).
Proof. intros; unfold rollback. destruct (intrans w); auto. apply inv_expire_all_db; auto. Qed.

(* ------------------------------------------------------------------ in-place mutation *)
Lemma recorded_false : forall w x, recorded w x = false ->
  forall r, r < 2 -> cst (objs w r) <> Some (OVal (Some x)).
Proof.
  intros w x H r Hr E. unfold recorded, rows in H. simpl in H.
  apply orb_false_elim in H; destruct H as [H0 H1]. apply orb_false_elim in H1; destruct H1 as [H1 _].
  destruct r as [|[|r]]; [| |lia].
  - rewrite E in H0. rewrite Nat.eqb_refl in H0; discriminate.
  - rewrite E in H1. rewrite Nat.eqb_refl in H1; discriminate.
Qed.

Lemma inv_content_change : forall w x c' w2,
  Inv w ->
  flag_ext (set_heap w (upd (heap w) x (mkV c' (vpar (heap w x))))) w2 ->
  (c' <> vcont (heap w x) ->
     recorded w x = false /\
     forall r, r < 2 -> slot (objs w r) = Pres (Some x) -> cst (objs w2 r) <> None) ->
  Inv w2.
Proof.
  intros w x c' w2 HI (Hh & Hn & Hp & Hd & Hb & _ & Ho) HC.
  simpl in *.
  pose proof HI as [I F1 F2 F3 PM J K NP].
  assert (VP : forall o, vpar (heap w2 o) = vpar (heap w o)).
  { intros o; rewrite Hh; unfold upd. destruct (Nat.eqb_spec o x); subst; auto. }
  assert (VC : forall o, o <> x -> vcont (heap w2 o) = vcont (heap w o)).
  { intros o N; rewrite Hh; unfold upd. destruct (Nat.eqb_spec o x); congruence. }
  assert (VX : vcont (heap w2 x) = c').
  { rewrite Hh; unfold upd; rewrite Nat.eqb_refl; reflexivity. }
  constructor; rewrite ?Hn, ?Hp, ?Hd, ?Hb; auto.
  - intros p o H. destruct (Ho p) as [S _]. rewrite S in H. rewrite VP; auto.
  - intros p o H. destruct (Ho p) as [S _]. rewrite S in H; eauto.
  - intros p q H. destruct (Ho p) as [_ [[C _]|[C _]]]; rewrite C in H; eauto; discriminate.
  - intros p H. destruct (Ho p) as [_ [[C M]|[C M]]]; rewrite M in H; try discriminate. rewrite C; auto.
  - intros r Hr Hc v Hs. destruct (Ho r) as [S [[C _]|[C _]]]; [|rewrite C in Hc; discriminate].
    rewrite S in Hs. pose proof Hc as Hc'. rewrite C in Hc'. specialize (J r Hr Hc' v Hs).
    destruct v as [o|]; simpl in *; auto.
    destruct (Nat.eq_dec o x) as [->|N]; [|rewrite VC; auto].
    rewrite VX. destruct (cont_eq_dec c' (vcont (heap w x))) as [E|E]; [rewrite E; auto|].
    exfalso. destruct (HC E) as [_ G]. apply (G r Hr Hs Hc).
  - intros r Hr u Hc. destruct (Ho r) as [_ [[C _]|[C _]]]; rewrite C in Hc; [|discriminate].
    specialize (K r Hr u Hc).
    destruct u as [o|]; simpl in *; auto.
    destruct (Nat.eq_dec o x) as [->|N]; [|rewrite VC; auto].
    rewrite VX. destruct (cont_eq_dec c' (vcont (heap w x))) as [E|E]; [rewrite E; auto|].
    exfalso. destruct (HC E) as [G _]. apply (recorded_false _ _ G r Hr Hc).
Qed.

Section WithTables.
Variable ord : list Z -> list Z.
Variable ov : kind -> list meth.
Hypothesis COV : covers_all ov = true.

Lemma unnotified_unchanged : forall c o,
  notifies ov c o = false -> snd (mut_sem ord c o) = c.
Proof.
  intros c o H. apply nonmutator_unchanged. intros Hin.
  pose proof (covers_spec _ _ (covers_all_spec ov COV (kind_of c)) _ Hin) as G.
  unfold notifies in H. congruence.
Qed.

Lemma inv_mutate : forall w x o,
  Inv w ->
  match mut_sem ord (vcont (heap w x)) o with
  | (Raise _, _) => True
  | (Ok _, c') =>
      (negb (recorded w x) || (if cont_eq_dec c' (vcont (heap w x)) then true else false)) = true /\
      (negb (notifies ov (vcont (heap w x)) o) || parents_loaded w x) = true
  end ->
  Inv (fst (mutate ord ov w x o)).
Proof.
  intros w x o HI G. unfold mutate.
  destruct (mut_sem ord (vcont (heap w x)) o) as [[u|e] c'] eqn:MS; [|exact HI].
  destruct G as [G1 G2].
  set (w1 := set_heap w (upd (heap w) x (mkV c' (vpar (heap w x))))).
  assert (C' : c' = snd (mut_sem ord (vcont (heap w x)) o)) by (rewrite MS; reflexivity).
  destruct (notifies ov (vcont (heap w x)) o) eqn:N.
  - destruct (changed_loop (vpar (heap w x)) w1) as [w2 ok] eqn:CL. simpl.
    apply (inv_content_change w x c' w2 HI).
    + pose proof (changed_loop_ext (vpar (heap w x)) w1) as E. rewrite CL in E; exact E.
    + intros NE. simpl in G2.
      destruct (cont_eq_dec c' (vcont (heap w x))) as [E|_]; [congruence|].
      rewrite orb_false_r in G1. apply negb_true_iff in G1. split; auto.
      intros r Hr Hs. pose proof (changed_loop_all (vpar (heap w x)) w1 G2) as [_ A].
      rewrite CL in A; simpl in A. rewrite (A r); [discriminate|]. apply (iI _ HI); auto.
  - simpl. apply (inv_content_change w x c' w1 HI); [apply flag_ext_refl|].
    intros NE. exfalso; apply NE. rewrite C'. apply unnotified_unchanged; auto.
Qed.

(* ------------------------------------------------------------------ pickling *)
Lemma inv_newpid : forall w n ps' cps np,
  Inv w -> 2 <= n -> 2 <= np ->
  (forall o, slot ps' = Pres (Some o) -> In n (vpar (heap w o)) /\ o < nexto w) ->
  (forall q, cst ps' = Some (OVal (Some q)) -> q < nexto w) ->
  (pmod ps' = false -> cst ps' = None) ->
  Inv (mkW (upd (objs w) n ps') (heap w) (nexto w) np cps (hdl w) (db w) (dbc w) (intrans w)).
Proof.
  intros w n ps' cps np HI Hn Hnp H1 H2 H3.
  apply (inv_ext (set_objs w (upd (objs w) n ps'))); auto.
  apply inv_set_pstate; auto; intros; lia.
Qed.

Lemma inv_pickle : forall w r, Inv w -> Inv (pickle w r).
Proof.
  intros w r HI. unfold pickle.
  pose proof (iNP _ HI) as NP.
  set (ps := objs w r). set (n := nextp w).
  assert (PMr : pmod ps = false -> cst ps = None) by (apply (iPM _ HI)).
  Ltac pk PMr C :=
    apply inv_newpid; simpl; auto; try lia; try (intros; discriminate);
    try (let M := fresh in intros M; apply PMr in M; try rewrite C in M; discriminate).
  destruct (slot ps) as [|[o|]] eqn:S.
  - (* absent *)
    destruct (cst ps) as [[|[q|]]|] eqn:C.
    + pk PMr C.
    + destruct (alloc w (vcont (heap w q)) []) as [w2 q'] eqn:A.
      pose proof (alloc_facts w (vcont (heap w q)) []) as AF; rewrite A in AF; simpl in AF.
      destruct AF as (Eq & Eobj & En & Ep & Eh & Eb & Ec & Ehp & Ehf).
      pose proof (inv_alloc w (vcont (heap w q)) [] HI) as HI2; rewrite A in HI2; simpl in HI2.
      replace n with (nextp w2) by (unfold n; congruence).
      pk PMr C. intros q0 E; inversion E; subst. lia.
    + pk PMr C.
    + pk PMr C.
  - (* a value object *)
    destruct (alloc w (vcont (heap w o)) [n]) as [w1 o'] eqn:A1.
    pose proof (alloc_facts w (vcont (heap w o)) [n]) as AF; rewrite A1 in AF; simpl in AF.
    destruct AF as (Eo & Eobj & En & Ep & Eh & Eb & Ec & Ehp & Ehf).
    pose proof (inv_alloc w (vcont (heap w o)) [n] HI) as HI1; rewrite A1 in HI1; simpl in HI1.
    destruct (cst ps) as [[|[q|]]|] eqn:C.
    + replace n with (nextp w1) by (unfold n; congruence). pk PMr C.
      intros x E; inversion E; subst. rewrite Ehp; simpl. split; [left; unfold n; congruence|lia].
    + destruct (Nat.eqb q o) eqn:Q.
      * replace n with (nextp w1) by (unfold n; congruence). pk PMr C.
        -- intros x E; inversion E; subst. rewrite Ehp; simpl. split; [left; unfold n; congruence|lia].
        -- intros x E; inversion E; subst. lia.
      * destruct (alloc w1 (vcont (heap w q)) []) as [w2 q'] eqn:A2.
        pose proof (alloc_facts w1 (vcont (heap w q)) []) as AF; rewrite A2 in AF; simpl in AF.
        destruct AF as (Eq2 & Eobj2 & En2 & Ep2 & Eh2 & Eb2 & Ec2 & Ehp2 & Ehf2).
        pose proof (inv_alloc w1 (vcont (heap w q)) [] HI1) as HI2; rewrite A2 in HI2; simpl in HI2.
        replace n with (nextp w2) by (unfold n; congruence).
        pk PMr C.
        -- intros x E; inversion E; subst. rewrite Ehf2 by lia. rewrite Ehp; simpl.
           split; [left; unfold n; congruence|lia].
        -- intros x E; inversion E; subst. lia.
    + replace n with (nextp w1) by (unfold n; congruence). pk PMr C.
      intros x E; inversion E; subst. rewrite Ehp; simpl. split; [left; unfold n; congruence|lia].
    + replace n with (nextp w1) by (unfold n; congruence). pk PMr C.
      intros x E; inversion E; subst. rewrite Ehp; simpl. split; [left; unfold n; congruence|lia].
  - (* None *)
    destruct (cst ps) as [[|[q|]]|] eqn:C.
    + pk PMr C.
    + destruct (alloc w (vcont (heap w q)) []) as [w2 q'] eqn:A.
      pose proof (alloc_facts w (vcont (heap w q)) []) as AF; rewrite A in AF; simpl in AF.
      destruct AF as (Eq & Eobj & En & Ep & Eh & Eb & Ec & Ehp & Ehf).
      pose proof (inv_alloc w (vcont (heap w q)) [] HI) as HI2; rewrite A in HI2; simpl in HI2.
      replace n with (nextp w2) by (unfold n; congruence).
      pk PMr C. intros q0 E; inversion E; subst. lia.
    + pk PMr C.
    + pk PMr C.
Qed.
End WithTables.

(* ------------------------------------------------------------------ every operation *)
Section Main.
Variable ord : list Z -> list Z.
Variable ov : kind -> list meth.
Hypothesis COV : covers_all ov = true.

Lemma inv_mark_modified : forall w r, Inv w ->
  Inv (touch (set_objs w (upd (objs w) r
         (mkP (slot (objs w r)) (cst (objs w r)) true (idp (objs w r))))) r).
Proof.
  intros w r HI. apply inv_touch. apply inv_set_pstate; simpl; auto.
  - intros o E. split; [apply (iI _ HI)|apply (iF1 _ HI r)]; auto.
  - apply (iF2 _ HI).
  - intros; discriminate.
  - intros Hr Hc v E. apply (iJ _ HI r Hr Hc v E).
  - intros Hr u Hc. apply (iK _ HI r Hr u Hc).
Qed.

Lemma inv_step : forall w o, Inv w -> guard ord ov w o = true -> Inv (fst (step ord ov w o)).
Proof.
  intros w o HI G. destruct o as [t c|t c|t|t| | | |r|r|r|r]; cbn [step guard] in *.
  - (* Mut *)
    destruct (get_value w t) as [[w1 rc] v] eqn:GV.
    destruct (get_value_inv _ _ _ _ _ GV HI) as [HI1 _].
    destruct v as [[x|]|]; simpl; auto.
    apply (inv_mutate ord ov COV); auto.
    destruct (mut_sem ord (vcont (heap w1 x)) c) as [[u|e] c']; auto.
    apply andb_prop in G; auto.
  - (* SetPlain *)
    destruct (tgt_pid w t) as [p|]; cbn [fst]; auto.
    destruct c as [c'|]; cbn [fst].
    + destruct (alloc w c' []) as [w1 x] eqn:A.
      pose proof (alloc_facts w c' []) as AF; rewrite A in AF; simpl in AF.
      destruct AF as (Ex & _ & En & _).
      pose proof (inv_alloc w c' [] HI) as HI1; rewrite A in HI1; simpl in HI1.
      cbn [fst]. apply inv_set_obj; auto. intros o E; inversion E; subst. lia.
    + apply inv_set_obj; auto. intros; discriminate.
  - (* Save *)
    destruct (get_value w t) as [[w1 rc] v] eqn:GV.
    destruct (get_value_inv _ _ _ _ _ GV HI) as [HI1 B].
    destruct v as [v|]; simpl; auto.
    pose proof HI1 as [I F1 F2 F3 PM J K NP].
    constructor; simpl; auto.
    intros o E; subst. apply B; auto.
  - (* SetH *)
    destruct (tgt_pid w t) as [p|]; simpl; auto.
    destruct (hdl w) as [x|] eqn:Hh; simpl; auto.
    apply inv_set_obj; auto. intros o E; inversion E; subst. apply (iF3 _ HI); auto.
  - apply inv_flush; auto.
  - apply inv_commit; auto.
  - apply inv_rollback; auto.
  - apply inv_expire_row; auto.
  - apply inv_load. apply inv_expire_row; auto.
  - apply inv_pickle; auto.
  - (* Merge *)
    destruct (copies w r) as [p|]; simpl; auto.
    set (w1 := if idp (objs w p) then _ else w).
    assert (HI1 : Inv w1).
    { unfold w1. destruct (idp (objs w p)); auto.
      destruct (idp (objs w r)).
      - apply inv_mark_modified; auto.
      - apply inv_mark_modified. apply inv_load; auto. }
    assert (SL : slot (objs w1 p) = slot (objs w p) \/ p = r).
    { destruct (Nat.eq_dec p r); auto. left. unfold w1.
      destruct (idp (objs w p)); auto.
      assert (L : forall w0, objs (touch (set_objs w0 (upd (objs w0) r
                    (mkP (slot (objs w0 r)) (cst (objs w0 r)) true (idp (objs w0 r))))) r) p = objs w0 p).
      { intros w0. unfold touch. destruct (is_session r); simpl; unfold upd;
          destruct (Nat.eqb_spec p r); congruence. }
      destruct (idp (objs w r)); rewrite L; auto.
      unfold load. destruct (slot (objs (set_intrans w true) r)); [destruct (db (set_intrans w true) r)|];
        simpl; unfold upd; destruct (Nat.eqb_spec p r); congruence. }
    destruct (slot (objs w p)) as [|v] eqn:S; simpl; auto.
    apply inv_set_obj; auto. intros o E; subst.
    destruct SL as [SL|SL].
    + apply (iF1 _ HI1 p). congruence.
    + (* the copy is the session instance itself: impossible in practice, harmless *)
      subst p.
      assert (Mono : nexto w <= nexto w1).
      { unfold w1. destruct (idp (objs w r)); [unfold touch; destruct (is_session r); simpl; lia|]. lia. }
      pose proof (iF1 _ HI r o S). lia.
Qed.

(* value_changed -> parent flagged modified, along every guarded history *)
Theorem inv_run : forall ops w, Inv w -> guarded ord ov ops w = true -> Inv (run ord ov ops w).
Proof.
  induction ops as [|o r IH]; intros w HI G; simpl in *; auto.
  apply andb_prop in G; destruct G as [G1 G2].
  apply IH; auto. apply inv_step; auto.
Qed.

Lemma inv_in_sync : forall w r, Inv w -> r < 2 -> in_sync w r.
Proof.
  intros w r HI Hr M v S. apply (iJ _ HI r Hr); auto. apply (iPM _ HI); auto.
Qed.

Theorem covers_all_mutators : forall d0 d1 ops,
  guarded ord ov ops (init_world d0 d1) = true ->
  forall r, r < 2 -> in_sync (run ord ov ops (init_world d0 d1)) r.
Proof.
  intros d0 d1 ops G r Hr. apply inv_in_sync; auto. apply inv_run; auto. apply inv_init.
Qed.

Lemma run_app : forall a b w, run ord ov (a ++ b) w = run ord ov b (run ord ov a w).
Proof. induction a; simpl; auto. Qed.

Theorem flush_stores_in_memory_value : forall d0 d1 ops,
  guarded ord ov (ops ++ [Flush]) (init_world d0 d1) = true ->
  forall r, r < 2 -> stored (run ord ov (ops ++ [Flush]) (init_world d0 d1)) r.
Proof.
  intros d0 d1 ops G r Hr v S.
  pose proof (covers_all_mutators d0 d1 _ G r Hr) as IS.
  apply IS; auto.
  rewrite run_app. simpl. apply flush_unflagged; auto.
Qed.
End Main.
