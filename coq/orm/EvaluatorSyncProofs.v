(* C43: from the evaluator to the session: matched <-> selected, UPDATE / DELETE keep objects in sync;
   UnevaluatableError exactly when process() refuses the expression. *)
From Coq Require Import List ZArith NArith Bool Lia.
Import ListNotations.
From SAV.sql Require Import Val3 Val3Proofs InList.
From SAV.orm Require Import Evaluator EvaluatorProofs.
Open Scope Z_scope.

(* ---------------------------------------------------------------------------------------- *)
(** * the evaluator on the typed, guarded fragment *)
Lemma wt_check sc e t : wt sc e = Some t -> check sc e = true /\ wt' sc e = Some t.
Proof. unfold wt. destruct (check sc e); [now split|discriminate]. Qed.

Theorem ev_faithful sc e t r : wt sc e = Some t -> row_ok sc r -> guard e r = true ->
  exists v, ev sc e (obj_of r) = POk v /\ rel v (sem e r) /\ pv_has t v.
Proof.
  intros Hw Hr Hg. destruct (wt_check _ _ _ Hw) as [Hc Hw']. unfold ev. rewrite Hc.
  exact (faithful sc r Hr e t Hw' Hc Hg).
Qed.

Theorem matched_iff_selected sc crit r : wt sc crit = Some TyBool -> row_ok sc r -> guard crit r = true ->
  matched sc crit (obj_of r) = if selected crit r then Matched false else NotMatched.
Proof.
  intros Hw Hr Hg. destruct (ev_faithful sc crit TyBool r Hw Hr Hg) as (v & Hv & Hrel & Hp).
  unfold matched, selected. rewrite Hv.
  destruct (rel_sv_of_tv_cases _ _ Hrel Hp) as [[-> Ht]|[[-> Ht]|[-> Ht]]]; rewrite Ht; reflexivity.
Qed.

(* ---------------------------------------------------------------------------------------- *)
(** * UnevaluatableError <-> process() rejects the clause *)
Lemma py_binop_not_unev o a b : py_binop o a b <> PRaise Unevaluatable.
Proof.
  destruct o; cbn [py_binop]; unfold py_add, py_arith, py_mod, py_cmp, py_startswith, py_endswith;
    repeat match goal with
           | |- context [match ?x with _ => _ end] => destruct x
           end; discriminate.
Qed.

Lemma run_unev o : forall e sc, run e o = PRaise Unevaluatable -> check sc e = false.
Proof.
  apply (ex_ind' (fun e => forall sc, run e o = PRaise Unevaluatable -> check sc e = false)).
  - intros c sc H. cbn [run] in H. discriminate.
  - intros t v sc H. discriminate.
  - intros sc H; discriminate.
  - intros sc H; discriminate.
  - intros sc H; discriminate.
  - intros op a b IHa IHb sc H. cbn [run] in H. cbn [check].
    destruct (run a o) as [va|ea] eqn:Ea.
    + destruct (run b o) as [vb|eb] eqn:Eb.
      * cbn [pbind] in H. exfalso.
        destruct op; repeat match type of H with
                            | context [if ?x then _ else _] => destruct x
                            end; try discriminate; now apply py_binop_not_unev in H.
      * cbn [pbind] in H. inversion H; subst eb. rewrite (IHb sc eq_refl). now rewrite andb_false_r.
    + cbn [pbind] in H. inversion H; subst ea. now rewrite (IHa sc eq_refl).
  - intros n a vs IHa sc H. cbn [run] in H. cbn [check].
    destruct (run a o) as [va|ea] eqn:Ea.
    + cbn [pbind] in H. destruct (is_exp va); [discriminate|]. destruct (is_none va); discriminate.
    + cbn [pbind] in H. inversion H; subst ea. now apply IHa.
  - intros es IH sc H. rewrite run_and in H. cbn [check].
    revert H. generalize false at 1. induction IH as [|x es Hx IH IHes]; intros hn H.
    + cbn [and_go] in H. destruct hn; discriminate.
    + cbn [and_go] in H. destruct (run x o) as [v|ex] eqn:Ex.
      * cbn [pbind] in H. destruct (is_exp v); [discriminate|].
        destruct (truthy v); [rewrite (IHes _ H); apply andb_false_r|].
        destruct (is_none v); [rewrite (IHes _ H); apply andb_false_r|discriminate].
      * cbn [pbind] in H. inversion H; subst ex. now rewrite (Hx sc eq_refl).
  - intros es IH sc H. rewrite run_or in H. cbn [check].
    revert H. generalize false at 1. induction IH as [|x es Hx IH IHes]; intros hn H.
    + cbn [or_go] in H. destruct hn; discriminate.
    + cbn [or_go] in H. destruct (run x o) as [v|ex] eqn:Ex.
      * cbn [pbind] in H. destruct (is_exp v); [discriminate|].
        destruct (truthy v); [discriminate|]. rewrite (IHes _ H). apply andb_false_r.
      * cbn [pbind] in H. inversion H; subst ex. now rewrite (Hx sc eq_refl).
  - intros e IH sc H. cbn [run] in H. cbn [check]. destruct (run e o) as [v|ex] eqn:Ex.
    + cbn [pbind] in H. destruct (is_exp v); [discriminate|]. destruct (is_none v); discriminate.
    + cbn [pbind] in H. inversion H; subst ex. now apply IH.
  - intros e IH sc H. cbn [run] in H. cbn [check]. now apply IH.
  - intros sc _. reflexivity.
Qed.

Theorem unevaluatable_iff sc e o : ev sc e o = PRaise Unevaluatable <-> check sc e = false.
Proof.
  unfold ev. split.
  - destruct (check sc e) eqn:E; [|reflexivity]. intros H. apply (run_unev o e sc) in H. congruence.
  - intros ->. reflexivity.
Qed.

(* ---------------------------------------------------------------------------------------- *)
(** * evaluation only depends on the attributes an expression reads *)
Lemma run_agree o1 o2 : forall e, (forall c, reads e c = true -> o1 c = o2 c) -> run e o1 = run e o2.
Proof.
  apply (ex_ind' (fun e => (forall c, reads e c = true -> o1 c = o2 c) -> run e o1 = run e o2)).
  - intros c H. cbn [run]. rewrite (H c); [reflexivity|]. cbn [reads]. apply Nat.eqb_refl.
  - reflexivity.
  - reflexivity.
  - reflexivity.
  - reflexivity.
  - intros o a b IHa IHb H. cbn [run]. rewrite IHa, IHb; [reflexivity| |];
      intros c Hc; apply H; cbn [reads]; rewrite Hc; [apply orb_true_r|reflexivity].
  - intros n a vs IHa H. cbn [run]. rewrite IHa; [reflexivity|]. exact H.
  - intros es IH H. rewrite !run_and. generalize false.
    induction IH as [|x es Hx IH IHes]; intros hn; [reflexivity|].
    cbn [and_go]. rewrite Hx by (intros c Hc; apply H; cbn [reads]; now rewrite Hc).
    destruct (run x o2) as [v|]; [|reflexivity]. cbn [pbind].
    assert (Hes : forall c, reads (EAnd es) c = true -> o1 c = o2 c)
      by (intros c Hc; apply H; cbn [reads] in *; rewrite Hc; apply orb_true_r).
    now rewrite !(IHes Hes).
  - intros es IH H. rewrite !run_or. generalize false.
    induction IH as [|x es Hx IH IHes]; intros hn; [reflexivity|].
    cbn [or_go]. rewrite Hx by (intros c Hc; apply H; cbn [reads]; now rewrite Hc).
    destruct (run x o2) as [v|]; [|reflexivity]. cbn [pbind].
    assert (Hes : forall c, reads (EOr es) c = true -> o1 c = o2 c)
      by (intros c Hc; apply H; cbn [reads] in *; rewrite Hc; apply orb_true_r).
    now rewrite !(IHes Hes).
  - intros e IH H. cbn [run]. now rewrite IH.
  - intros e IH H. cbn [run]. now apply IH.
  - reflexivity.
Qed.

(* ---------------------------------------------------------------------------------------- *)
(** * UPDATE *)
Definition upd (r : row) (sets : list (nat * ex)) : row :=
  fun c => match find (fun cv => Nat.eqb (fst cv) c) sets with Some cv => sem (snd cv) r | None => r c end.

Lemma update_row_upd crit sets r : update_row crit sets r = if selected crit r then upd r sets else r.
Proof. reflexivity. Qed.

Definition is_target (sets : list (nat * ex)) (c : nat) : bool := existsb (fun cv => Nat.eqb (fst cv) c) sets.

Lemma upd_not_target r sets c : is_target sets c = false -> upd r sets c = r c.
Proof.
  unfold upd, is_target. induction sets as [|cv sets IH]; intros H; [reflexivity|].
  cbn [existsb find] in *. apply orb_false_iff in H as [H1 H2]. rewrite H1. now apply IH.
Qed.
Lemma upd_snoc r sets c v c' : is_target sets c = false ->
  upd r (sets ++ [(c, v)]) c' = if Nat.eqb c c' then sem v r else upd r sets c'.
Proof.
  unfold upd, is_target. intros H. induction sets as [|cv sets IH].
  - cbn [app find fst snd]. now destruct (Nat.eqb c c').
  - cbn [app find existsb] in *. apply orb_false_iff in H as [H1 H2].
    destruct (Nat.eqb (fst cv) c') eqn:E.
    + apply Nat.eqb_eq in E. destruct (Nat.eqb c c') eqn:E2; [|reflexivity].
      apply Nat.eqb_eq in E2. subst. rewrite Nat.eqb_refl in H1. discriminate.
    + now apply IH.
Qed.

Lemma targets_distinct_app done c v rest : targets_distinct (done ++ (c, v) :: rest) = true ->
  is_target done c = false /\ targets_distinct ((done ++ [(c, v)]) ++ rest) = true.
Proof.
  intros H. split.
  - induction done as [|[c0 v0] done IH]; [reflexivity|].
    cbn [app targets_distinct] in H. apply andb_true_iff in H as [H1 H2].
    unfold is_target. cbn [existsb fst]. apply orb_false_iff. split; [|exact (IH H2)].
    apply negb_true_iff in H1. rewrite existsb_app in H1. apply orb_false_iff in H1 as [_ H1].
    cbn [existsb fst] in H1. apply orb_false_iff in H1 as [H1 _]. now rewrite Nat.eqb_sym.
  - now rewrite <- app_assoc.
Qed.

Lemma apply_sets_ok sc r : row_ok sc r -> forall rest done o,
  (forall c, o c = Loaded (upd r done c)) ->
  targets_distinct (done ++ rest) = true ->
  sets_independent (done ++ rest) = true ->
  forallb (set_ok sc r) rest = true ->
  exists o', apply_sets sc rest o = OOk o' /\ forall c, o' c = Loaded (upd r (done ++ rest) c).
Proof.
  intros Hrow. induction rest as [|[c v] rest IH]; intros done o Ho Hd Hi Hs.
  - exists o. split; [reflexivity|]. now rewrite app_nil_r.
  - cbn [forallb] in Hs. apply andb_true_iff in Hs as [Hcv Hs].
    unfold set_ok in Hcv. cbn [fst snd] in Hcv.
    destruct (wt sc v) as [t|] eqn:Hw; [|discriminate].
    apply andb_true_iff in Hcv as [Hcv Hg]. apply andb_true_iff in Hcv as [Ht Hvt].
    destruct (wt_check _ _ _ Hw) as [Hck Hw'].
    destruct (targets_distinct_app done c v rest Hd) as [Hnt Hd'].
    cbn [apply_sets]. rewrite Hck. rewrite (Ho c).
    (* the right-hand side only reads attributes that still hold the row's values *)
    assert (Hrun : run v o = run v (obj_of r)).
    { apply run_agree. intros c' Hc'. rewrite (Ho c'). unfold obj_of. f_equal. apply upd_not_target.
      destruct (is_target done c') eqn:E; [|reflexivity]. exfalso.
      unfold is_target in E. apply existsb_exists in E as (cv' & Hin & Hc2). apply Nat.eqb_eq in Hc2.
      unfold sets_independent in Hi. rewrite forallb_forall in Hi.
      specialize (Hi (c, v) ltac:(apply in_or_app; right; now left)). rewrite forallb_forall in Hi.
      specialize (Hi cv' ltac:(apply in_or_app; now left)). cbn [fst snd] in Hi.
      rewrite Hc2, Hc' in Hi. cbn [negb] in Hi. rewrite orb_false_r in Hi. apply Nat.eqb_eq in Hi. subst c'.
      unfold is_target in Hnt. assert (existsb (fun cv => Nat.eqb (fst cv) c) done = true).
      { apply existsb_exists. exists cv'. split; [exact Hin|]. rewrite Hc2. apply Nat.eqb_refl. }
      congruence. }
    rewrite Hrun.
    destruct (faithful sc r Hrow v t Hw' Hck Hg) as (x & Hx & Hrel & _).
    rewrite Hx. rewrite (rel_to_attr _ _ Hrel).
    destruct (IH (done ++ [(c, v)]) (set_attr o c (Loaded (sem v r)))) as (o' & Ho' & Hfin).
    + intros c'. unfold set_attr. rewrite (upd_snoc r done c v c' Hnt). rewrite (Nat.eqb_sym c' c).
      destruct (Nat.eqb c c'); [reflexivity|apply Ho].
    + exact Hd'.
    + now rewrite <- app_assoc.
    + exact Hs.
    + exists o'. split; [exact Ho'|]. intros c'. rewrite (Hfin c'). now rewrite <- app_assoc.
Qed.

Theorem update_in_sync sc crit sets r :
  row_ok sc r -> wt sc crit = Some TyBool -> guard crit r = true ->
  targets_distinct sets = true -> sets_independent sets = true -> forallb (set_ok sc r) sets = true ->
  exists o', update_obj sc crit sets (obj_of r) = OOk o' /\
             forall c, o' c = obj_of (update_row crit sets r) c.
Proof.
  intros Hrow Hw Hg Hd Hi Hs. unfold update_obj. rewrite (matched_iff_selected sc crit r Hw Hrow Hg).
  rewrite update_row_upd. destruct (selected crit r).
  - destruct (apply_sets_ok sc r Hrow sets [] (obj_of r) (fun c => eq_refl) Hd Hi Hs) as (o' & Ho' & Hfin).
    exists o'. split; [exact Ho'|]. intros c. now rewrite (Hfin c).
  - exists (obj_of r). split; reflexivity.
Qed.

(* ---------------------------------------------------------------------------------------- *)
(** * DELETE *)
Theorem delete_in_sync sc crit r :
  row_ok sc r -> wt sc crit = Some TyBool -> guard crit r = true ->
  delete_obj sc crit (obj_of r) = if delete_row crit r then DRemoved else DKeep (obj_of r).
Proof.
  intros Hrow Hw Hg. unfold delete_obj, delete_row. rewrite (matched_iff_selected sc crit r Hw Hrow Hg).
  now destruct (selected crit r).
Qed.

(* an unevaluatable criterion stops the operation before anything is executed *)
Theorem unevaluatable_raises sc crit sets o : check sc crit = false ->
  update_obj sc crit sets o = ORaise Unevaluatable /\ delete_obj sc crit o = DRaise Unevaluatable.
Proof. intros H. unfold update_obj, delete_obj, matched, ev. rewrite H. split; reflexivity. Qed.
