(* C43: from the evaluator to the session: matched <-> selected, UPDATE / DELETE keep objects in sync;
   UnevaluatableError exactly when process() refuses the expression. *)
From Coq Require Import List ZArith NArith Bool Lia.
Import ListNotations.
From SAV.sql Require Import Val3 Val3Proofs InList.
From SAV.orm Require Import Evaluator EvaluatorProofs.
Open Scope Z_scope.

(* ---------------------------------------------------------------------------------------- *)
(** * the evaluator on the typed, guarded fragment *)
Lemma wt_check sc e t : wt sc e = Some t -> check sc e = true /\ wt' sc e = Some t.
Proof. unfold wt. destruct (check sc e); [now split|discriminate]. Qed.

Theorem ev_faithful sc e t r : wt sc e = Some t -> row_ok sc r -> guard e r = true ->
  exists v, ev sc e (obj_of r) = POk v /\ rel v (sem e r) /\ pv_has t v.
Proof.
  intros Hw Hr Hg. destruct (wt_check _ _ _ Hw) as [Hc Hw']. unfold ev. rewrite Hc.
  exact (faithful sc r Hr e t Hw' Hc Hg).
Qed.

Theorem matched_iff_selected sc crit r : wt sc crit = Some TyBool -> row_ok sc r -> guard crit r = true ->
  matched sc crit (obj_of r) = if selected crit r then Matched false else NotMatched.
Proof.
  intros Hw Hr Hg. destruct (ev_faithful sc crit TyBool r Hw Hr Hg) as (v & Hv & Hrel & Hp).
  unfold matched, selected. rewrite Hv.
  destruct (rel_sv_of_tv_cases _ _ Hrel Hp) as [[-> Ht]|[[-> Ht]|[-> Ht]]]; rewrite Ht; reflexivity.
Qed.

(* ---------------------------------------------------------------------------------------- *)
(** * UnevaluatableError <-> process() rejects the clause *)
Lemma py_binop_not_unev o a b : py_binop o a b <> PRaise Unevaluatable.
Proof.
  destruct o; cbn [py_binop]; unfold py_add, py_arith, py_mod, py_cmp, py_startswith, py_endswith;
    repeat match goal with
           | |- context [match ?x with _ => _ end] => destruct x
           end; discriminate.
Qed.

Lemma run_unev o : forall e sc, run e o = PRaise Unevaluatable -> check sc e = false.
Proof.
  apply (ex_ind' (fun e => forall sc, run e o = PRaise Unevaluatable -> check sc e = false)).
  - intros c sc H. cbn [run] in H. discriminate.
  - intros t v sc H. discriminate.
  - intros sc H; discriminate.
  - intros sc H; discriminate.
  - intros sc H; discriminate.
  - intros op a b IHa IHb sc H. cbn [run] in H. cbn [check].
    destruct (run a o) as [va|ea] eqn:Ea.
    + destruct (run b o) as [vb|eb] eqn:Eb.
      * cbn [pbind] in H. exfalso.
        destruct op; repeat match type of H with
                            | context [if ?x then _ else _] => destruct x
                            end; try discriminate; now apply py_binop_not_unev in H.
      * cbn [pbind] in H. inversion H; subst eb. rewrite (IHb sc eq_refl). now rewrite andb_false_r.
    + cbn [pbind] in H. inversion H; subst ea. now rewrite (IHa sc eq_refl).
  - intros n a vs IHa sc H. cbn [run] in H. cbn [check].
    destruct (run a o) as [va|ea] eqn:Ea.
    + cbn [pbind] in H.
      repeat match type of H with context [if ?x then _ else _] => destruct x end; discriminate.
    + cbn [pbind] in H. inversion H; subst ea. now apply IHa.
  - intros es IH sc H. rewrite run_and in H. cbn [check].
    revert H. generalize false at 1. induction IH as [|x es Hx IH IHes]; intros hn H.
    + cbn [and_go] in H. destruct hn; discriminate.
    + cbn [and_go] in H. destruct (run x o) as [v|ex] eqn:Ex.
      * cbn [pbind] in H. destruct (is_exp v); [discriminate|].
        destruct (truthy v); [rewrite (IHes _ H); apply andb_false_r|].
        destruct (is_none v); [rewrite (IHes _ H); apply andb_false_r|discriminate].
      * cbn [pbind] in H. inversion H; subst ex. now rewrite (Hx sc eq_refl).
  - intros es IH sc H. rewrite run_or in H. cbn [check].
    revert H. generalize false at 1. induction IH as [|x es Hx IH IHes]; intros hn H.
    + cbn [or_go] in H. destruct hn; discriminate.
    + cbn [or_go] in H. destruct (run x o) as [v|ex] eqn:Ex.
      * cbn [pbind] in H. destruct (is_exp v); [discriminate|].
        destruct (truthy v); [discriminate|]. rewrite (IHes _ H). apply andb_false_r.
      * cbn [pbind] in H. inversion H; subst ex. now rewrite (Hx sc eq_refl).
  - intros e IH sc H. cbn [run] in H. cbn [check]. destruct (run e o) as [v|ex] eqn:Ex.
    + cbn [pbind] in H. destruct (is_exp v); [discriminate|]. destruct (is_none v); discriminate.
    + cbn [pbind] in H. inversion H; subst ex. now apply IH.
  - intros e IH sc H. cbn [run] in H. cbn [check]. now apply IH.
  - intros sc _. reflexivity.
Qed.

Theorem unevaluatable_iff sc e o : ev sc e o = PRaise Unevaluatable <-> check sc e = false.
Proof.
  unfold ev. split.
  - destruct (check sc e) eqn:E; [|reflexivity]. intros H. apply (run_unev o e sc) in H. congruence.
  - intros ->. reflexivity.
Qed.

(* ---------------------------------------------------------------------------------------- *)
(** * UPDATE *)
Definition upd (r : row) (sets : list (nat * ex)) : row :=
  fun c => match find (fun cv => Nat.eqb (fst cv) c) sets with Some cv => sem (snd cv) r | None => r c end.

Lemma update_row_upd crit sets r : update_row crit sets r = if selected crit r then upd r sets else r.
Proof. reflexivity. Qed.

Definition is_target {A} (l : list (nat * A)) (c : nat) : bool := existsb (fun cv => Nat.eqb (fst cv) c) l.

(* all right-hand sides are evaluated on the object as loaded from the row *)
Lemma eval_sets_ok sc r : row_ok sc r -> forall sets, forallb (set_ok sc r) sets = true ->
  eval_sets sc sets (obj_of r) = EvOk (map (fun cv => (fst cv, Loaded (sem (snd cv) r))) sets).
Proof.
  intros Hrow. induction sets as [|[c v] sets IH]; intros Hs; [reflexivity|].
  cbn [forallb] in Hs. apply andb_true_iff in Hs as [Hcv Hs].
  unfold set_ok in Hcv. cbn [fst snd] in Hcv.
  destruct (wt sc v) as [t|] eqn:Hw; [|discriminate].
  apply andb_true_iff in Hcv as [_ Hg]. destruct (wt_check _ _ _ Hw) as [Hck Hw'].
  cbn [eval_sets]. rewrite Hck. unfold obj_of at 1.
  destruct (faithful sc r Hrow v t Hw' Hck Hg) as (x & Hx & Hrel & _).
  rewrite Hx, (IH Hs), (rel_to_attr _ _ Hrel). reflexivity.
Qed.

Lemma uneval_none sc sets : forallb (fun cv => check sc (snd cv)) sets = true -> uneval_targets sc sets = [].
Proof.
  unfold uneval_targets. induction sets as [|cv sets IH]; intros H; [reflexivity|].
  cbn [forallb] in H. apply andb_true_iff in H as [H1 H2]. cbn [filter]. rewrite H1. cbn [negb]. now apply IH.
Qed.
Lemma expire_attrs_nil o : forall c, expire_attrs [] o c = o c.
Proof. reflexivity. Qed.

(* with evaluable SET clauses only, the variable carried across the matched objects stays empty: every
   matched object is treated like the first one *)
Lemma apply_sets_st_evaluable sc sets o : forallb (fun cv => check sc (snd cv)) sets = true ->
  snd (apply_sets_st sc sets [] o) = [] /\ fst (apply_sets_st sc sets [] o) = apply_sets sc sets o.
Proof.
  intros H. unfold apply_sets, apply_sets_st. rewrite (uneval_none sc sets H).
  destruct (eval_sets sc sets (expire_attrs [] o)); split; reflexivity.
Qed.

Lemma assign_find (l : list (nat * attr)) : forall o c,
  (fix dist (l : list (nat * attr)) : bool :=
     match l with [] => true | ca :: rest => negb (is_target rest (fst ca)) && dist rest end) l = true ->
  assign o l c = match find (fun ca => Nat.eqb (fst ca) c) l with Some ca => snd ca | None => o c end.
Proof.
  induction l as [|[c0 a0] l IH]; intros o c Hd; [reflexivity|].
  apply andb_true_iff in Hd as [Hn Hd]. apply negb_true_iff in Hn. cbn [fst] in Hn.
  unfold assign. cbn [fold_left fst snd]. fold (assign (set_attr o c0 a0) l). rewrite (IH _ c Hd).
  cbn [find fst]. destruct (Nat.eqb c0 c) eqn:E.
  - apply Nat.eqb_eq in E. subst c0.
    replace (find (fun ca => Nat.eqb (fst ca) c) l) with (@None (nat * attr)).
    + unfold set_attr. now rewrite Nat.eqb_refl.
    + symmetry. unfold is_target in Hn. clear -Hn. induction l as [|x l IHl]; [reflexivity|].
      cbn [existsb find] in *. apply orb_false_iff in Hn as [H1 H2]. rewrite H1. now apply IHl.
  - destruct (find _ l); [reflexivity|]. unfold set_attr. rewrite Nat.eqb_sym, E. reflexivity.
Qed.

Lemma apply_sets_ok sc r sets : row_ok sc r -> targets_distinct sets = true -> forallb (set_ok sc r) sets = true ->
  exists o', apply_sets sc sets (obj_of r) = OOk o' /\ forall c, o' c = Loaded (upd r sets c).
Proof.
  intros Hrow Hd Hs.
  assert (Hck : forallb (fun cv => check sc (snd cv)) sets = true).
  { apply forallb_forall. intros cv Hin. rewrite forallb_forall in Hs. specialize (Hs cv Hin).
    unfold set_ok in Hs. destruct (wt sc (snd cv)) eqn:Hw; [|discriminate]. now destruct (wt_check _ _ _ Hw). }
  unfold apply_sets, apply_sets_st. rewrite (uneval_none sc sets Hck).
  change (expire_attrs [] (obj_of r)) with (obj_of r). rewrite (eval_sets_ok sc r Hrow sets Hs). cbn [filter fst].
  eexists. split; [reflexivity|]. intros c. rewrite expire_attrs_nil.
  - rewrite assign_find.
    + unfold upd. clear. induction sets as [|[c0 v0] sets IH]; [reflexivity|].
      cbn [map find fst snd]. destruct (Nat.eqb c0 c); [reflexivity|exact IH].
    + clear -Hd. induction sets as [|[c0 v0] sets IH]; [reflexivity|].
      cbn [targets_distinct] in Hd. apply andb_true_iff in Hd as [H1 H2].
      cbn [map fst]. apply andb_true_iff. split; [|now apply IH].
      rewrite <- H1. f_equal. unfold is_target. clear. induction sets as [|x l IHl]; [reflexivity|].
      cbn [map existsb fst]. now rewrite IHl.
Qed.

Theorem update_in_sync sc crit sets r :
  row_ok sc r -> wt sc crit = Some TyBool -> guard crit r = true ->
  targets_distinct sets = true -> forallb (set_ok sc r) sets = true ->
  exists o', update_obj sc crit sets (obj_of r) = OOk o' /\
             forall c, o' c = obj_of (update_row crit sets r) c.
Proof.
  intros Hrow Hw Hg Hd Hs. unfold update_obj. rewrite (matched_iff_selected sc crit r Hw Hrow Hg).
  rewrite update_row_upd. destruct (selected crit r).
  - destruct (apply_sets_ok sc r sets Hrow Hd Hs) as (o' & Ho' & Hfin).
    exists o'. split; [exact Ho'|]. intros c. now rewrite (Hfin c).
  - exists (obj_of r). split; reflexivity.
Qed.

(* ---------------------------------------------------------------------------------------- *)
(** * DELETE *)
Theorem delete_in_sync sc crit r :
  row_ok sc r -> wt sc crit = Some TyBool -> guard crit r = true ->
  delete_obj sc crit (obj_of r) = if delete_row crit r then DRemoved else DKeep (obj_of r).
Proof.
  intros Hrow Hw Hg. unfold delete_obj, delete_row. rewrite (matched_iff_selected sc crit r Hw Hrow Hg).
  now destruct (selected crit r).
Qed.

(* an unevaluatable criterion stops the operation before anything is executed *)
Theorem unevaluatable_raises sc crit sets o : check sc crit = false ->
  update_obj sc crit sets o = ORaise Unevaluatable /\ delete_obj sc crit o = DRaise Unevaluatable.
Proof. intros H. unfold update_obj, delete_obj, matched, ev. rewrite H. split; reflexivity. Qed.
