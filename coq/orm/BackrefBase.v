(* C37 - proofs, part 1: list facts, state projections, closed forms of the listener chains. *)
From Coq Require Import List NArith Bool Lia Arith.
Import ListNotations.
From SAV.orm Require Import Backref BackrefSpec.
Open Scope N_scope.

(* ---------- lists ---------- *)
Lemma memb_In : forall x l, memb x l = true <-> In x l.
Proof.
  intros x l. unfold memb. rewrite existsb_exists. split.
  - intros [y [I E]]. apply N.eqb_eq in E. subst. exact I.
  - intros I. exists x. split; [exact I|apply N.eqb_refl].
Qed.
Lemma memb_false : forall x l, memb x l = false <-> ~ In x l.
Proof. intros. rewrite <- memb_In. destruct (memb x l); intuition congruence. Qed.

Lemma remove1_In : forall x y l, NoDup l -> (In x (remove1 y l) <-> In x l /\ x <> y).
Proof.
  intros x y l N. induction l as [|z t IH]; cbn [remove1]; [cbn; tauto|].
  inversion N as [|? ? NI ND]; subst.
  destruct (y =? z) eqn:E.
  - apply N.eqb_eq in E. subst. cbn. split; [intros I; split; [auto|intros ->; contradiction]|intros [[->|I] NE]; [congruence|exact I]].
  - apply N.eqb_neq in E. cbn. rewrite IH by exact ND. intuition congruence.
Qed.
Lemma remove1_incl : forall x y l, In x (remove1 y l) -> In x l.
Proof.
  intros x y l. induction l as [|z t IH]; cbn [remove1]; [auto|].
  destruct (y =? z); cbn; intuition.
Qed.
Lemma remove1_NoDup : forall y l, NoDup l -> NoDup (remove1 y l).
Proof.
  intros y l N. induction l as [|z t IH]; cbn [remove1]; [constructor|].
  inversion N as [|? ? NI ND]; subst. destruct (y =? z); [exact ND|].
  constructor; [intros I; apply NI; eapply remove1_incl; eauto|apply IH; exact ND].
Qed.
Lemma remove1_notin : forall y l, ~ In y l -> remove1 y l = l.
Proof.
  intros y l. induction l as [|z t IH]; cbn [remove1]; [auto|]. intros NI.
  destruct (y =? z) eqn:E; [apply N.eqb_eq in E; subst; exfalso; apply NI; left; reflexivity|].
  f_equal. apply IH. intros I. apply NI. right. exact I.
Qed.
Lemma NoDup_snoc : forall l (v : N), NoDup l -> ~ In v l -> NoDup (l ++ [v]).
Proof.
  intros l v N NI. induction l as [|z t IH]; cbn; [constructor; [intros []|constructor]|].
  inversion N as [|? ? NI' ND]; subst. constructor.
  - rewrite in_app_iff. cbn. intros [I|[E|[]]]; [contradiction|]. subst. apply NI. left. reflexivity.
  - apply IH; [exact ND|]. intros I. apply NI. right. exact I.
Qed.
Lemma count_notin : forall x l, ~ In x l -> count x l = O.
Proof.
  intros x l. induction l as [|z t IH]; cbn [count]; [auto|]. intros NI.
  destruct (x =? z) eqn:E; [apply N.eqb_eq in E; subst; exfalso; apply NI; left; reflexivity|].
  apply IH. intros I. apply NI. right. exact I.
Qed.
Lemma count_NoDup : forall x l, NoDup l -> (count x l <= 1)%nat.
Proof.
  intros x l N. induction l as [|z t IH]; cbn [count]; [lia|].
  inversion N as [|? ? NI ND]; subst. destruct (x =? z) eqn:E; [|apply IH; exact ND].
  apply N.eqb_eq in E. subst. rewrite count_notin by exact NI. lia.
Qed.
Lemma has_dupes_NoDup : forall x l, NoDup l -> has_dupes l x = false.
Proof.
  intros x l N. unfold has_dupes. pose proof (count_NoDup x l N).
  destruct (count x l) as [|[|k]]; cbn; try reflexivity; lia.
Qed.

Lemma insert_at_In : forall i v l (x : N), In x (insert_at i v l) <-> x = v \/ In x l.
Proof.
  induction i as [|j IH]; intros v l x; destruct l as [|y t]; cbn; try (intuition congruence).
  rewrite IH. intuition.
Qed.
Lemma insert_at_NoDup : forall i v l, NoDup l -> ~ In v l -> NoDup (insert_at i v l).
Proof.
  induction i as [|j IH]; intros v l N NI; destruct l as [|y t]; cbn.
  - constructor; [intros []|constructor].
  - constructor; assumption.
  - constructor; [intros []|constructor].
  - inversion N; subst. constructor.
    + rewrite insert_at_In. intros [E|I]; [subst; apply NI; left; reflexivity|contradiction].
    + apply IH; [assumption|]. intros I. apply NI. right. exact I.
Qed.
Lemma remove_at_remove1 : forall i l v, NoDup l -> nth_error l i = Some v -> remove_at i l = remove1 v l.
Proof.
  induction i as [|j IH]; intros l v N E; destruct l as [|y t]; cbn in *; try discriminate.
  - injection E as ->. rewrite N.eqb_refl. reflexivity.
  - inversion N as [|? ? NI ND]; subst. destruct (v =? y) eqn:Q.
    + apply N.eqb_eq in Q. subst. exfalso. apply NI. eapply nth_error_In; eauto.
    + f_equal. apply IH; assumption.
Qed.
Lemma set_at_In : forall i v l e (x : N), nth_error l i = Some e -> NoDup l ->
  (In x (set_at i v l) <-> x = v \/ (In x l /\ x <> e)).
Proof.
  induction i as [|j IH]; intros v l e x E N; destruct l as [|y t]; cbn in *; try discriminate.
  - injection E as ->. inversion N; subst. split.
    + intros [->|I]; [auto|]. right. split; [auto|]. intros ->. contradiction.
    + intros [->|[[->|I] NE]]; [auto|congruence|auto].
  - inversion N as [|? ? NI ND]; subst. rewrite (IH v t e x E ND). split.
    + intros [->|[->|[I NE]]]; [right; split; [auto|]|auto|right; split; auto].
      intros ->. apply NI. eapply nth_error_In; eauto.
    + intros [->|[[->|I] NE]]; auto.
Qed.
Lemma set_at_NoDup : forall i v l e, nth_error l i = Some e -> NoDup l -> (~ In v l \/ e = v) ->
  NoDup (set_at i v l).
Proof.
  induction i as [|j IH]; intros v l e E N H; destruct l as [|y t]; cbn in *; try discriminate.
  - injection E as ->. inversion N; subst. constructor; [|assumption].
    destruct H as [H| ->]; [intros I; apply H; right; exact I|assumption].
  - inversion N as [|? ? NI ND]; subst. constructor.
    + rewrite (set_at_In j v t e y E ND). intros [->|[I _]]; [|contradiction].
      destruct H as [H| ->]; [apply H; left; reflexivity|]. apply NI. eapply nth_error_In; eauto.
    + eapply IH; eauto. destruct H as [H|H]; [left; intros I; apply H; right; exact I|right; exact H].
Qed.
Lemma nodupb_NoDup : forall l, nodupb l = true <-> NoDup l.
Proof.
  induction l as [|y t IH]; cbn [nodupb]; [split; [constructor|reflexivity]|].
  rewrite andb_true_iff, negb_true_iff, memb_false, IH. split.
  - intros [A B]. constructor; assumption.
  - intros N. inversion N; subst. split; assumption.
Qed.

(* ---------- state projections ---------- *)
Lemma upd_eq : forall f o c, upd f o c o = c.
Proof. intros. unfold upd. rewrite N.eqb_refl. reflexivity. Qed.
Lemma upd_neq : forall f o c o', o' <> o -> upd f o c o' = f o'.
Proof. intros. unfold upd. apply N.eqb_neq in H. rewrite H. reflexivity. Qed.

Lemma cells_set_same : forall s sd o c, cells (set_cell s sd o c) sd o = c.
Proof. intros s [] o c; cbn; apply upd_eq. Qed.
Lemma cells_set_other_obj : forall s sd o c o', o' <> o -> cells (set_cell s sd o c) sd o' = cells s sd o'.
Proof. intros s [] o c o' H; cbn; apply upd_neq; exact H. Qed.
Lemma cells_set_other_side : forall s sd o c sd' o', sd' <> sd -> cells (set_cell s sd o c) sd' o' = cells s sd' o'.
Proof. intros s [] o c [] o' H; cbn; try reflexivity; congruence. Qed.
Lemma coll_set_same : forall s sd o l, coll_of (set_cell s sd o (CList l)) sd o = l.
Proof. intros. unfold coll_of. rewrite cells_set_same. reflexivity. Qed.
Lemma coll_set_other_obj : forall s sd o c o', o' <> o -> coll_of (set_cell s sd o c) sd o' = coll_of s sd o'.
Proof. intros. unfold coll_of. rewrite cells_set_other_obj by assumption. reflexivity. Qed.
Lemma coll_set_other_side : forall s sd o c sd' o', sd' <> sd -> coll_of (set_cell s sd o c) sd' o' = coll_of s sd' o'.
Proof. intros. unfold coll_of. rewrite cells_set_other_side by assumption. reflexivity. Qed.
Lemma persistent_set : forall s sd o c, persistent (set_cell s sd o c) = persistent s.
Proof. intros s [] o c; reflexivity. Qed.
