(* C18 - LIMIT / OFFSET / FETCH and their dialect emulations.

   MODEL ONLY (no proofs).  Three layers:

   1. the SPEC side: [slice], [with_ties_spec], [pct_count] - what the user asked for, as functions on
      the fully ordered result;
   2. the CODE side: [which_form] - a transcription of the decisions taken by
        sql/compiler.py        SQLCompiler._row_limit_clause / limit_clause / fetch_clause
        dialects/sqlite        SQLiteCompiler.limit_clause
        dialects/mysql         MySQLCompiler.limit_clause
        dialects/postgresql    PGCompiler.limit_clause / fetch_clause
        dialects/mssql         MSSQLCompiler._use_top / get_select_precolumns / _row_limit_clause /
                               _check_can_use_fetch_limit / translate_select_structure
        dialects/oracle        OracleCompiler._row_limit_clause / translate_select_structure
      producing a [plan] = the row limiting part of the SQL that is rendered;
   3. the DATABASE side: [exec] - what a database does with each plan (list programs).  SQLite's
      reading of LIMIT/OFFSET (negative LIMIT = no limit, negative OFFSET = 0) and of ROW_NUMBER() is
      validated against the live engine by the correspondence; the other forms are transcriptions of
      the vendors' documentation (trusted).

   Limit / offset values are data: [Z].  [nat] appears only through [length]. *)
From Coq Require Import List ZArith Bool.
Import ListNotations.
Open Scope Z_scope.

(* ------------------------------------------------------------------------------------------------ *)
(** * The statement as the compiler sees it                                                          *)

(* a LIMIT / OFFSET / FETCH clause: [c_simple] = isinstance(clause, _OffsetLimitParam), i.e. a plain
   Python int was given; [false] = a bound parameter / SQL expression.  [c_val] is its run-time value. *)
Record clause := Clause { c_simple : bool; c_val : Z }.

(* GenerativeSelect.limit() clears _fetch_clause, .fetch() clears _limit_clause: at most one is set *)
Inductive limiting :=
| NoLimit
| Limit (c : clause)
| Fetch (c : clause) (percent ties : bool).

Record sel := Sel {
  s_lim : limiting;
  s_off : option clause;
  s_ordered : bool;          (* select._order_by_clause.clauses is not empty *)
  s_distinct : bool          (* select._distinct *)
}.

Inductive dialect :=
| Default                           (* sql/compiler.py SQLCompiler *)
| SQLite
| MySQL
| PG
| MSSQL (offset_fetch : bool)       (* dialect._supports_offset_fetch: server >= 2012 *)
| Oracle (offset_fetch : bool).     (* dialect._supports_offset_fetch: server >= 12c *)

Definition limit_clause (s : sel) : option clause :=
  match s_lim s with Limit c => Some c | _ => None end.
Definition fetch_clause (s : sel) : option clause :=
  match s_lim s with Fetch c _ _ => Some c | _ => None end.
Definition fetch_percent (s : sel) : bool :=
  match s_lim s with Fetch _ p _ => p | _ => false end.
Definition fetch_ties (s : sel) : bool :=
  match s_lim s with Fetch _ _ t => t | _ => false end.
Definition is_some {X} (o : option X) : bool := match o with Some _ => true | None => false end.

(* GenerativeSelect._has_row_limiting_clause *)
Definition has_row_limiting (s : sel) : bool :=
  is_some (limit_clause s) || is_some (s_off s) || is_some (fetch_clause s).
(* GenerativeSelect._simple_int_clause *)
Definition simple_int (c : option clause) : bool :=
  match c with Some c => c_simple c | None => false end.
(* MSSQLCompiler._get_limit_or_fetch / OracleCompiler._get_limit_or_fetch *)
Definition get_limit_or_fetch (s : sel) : option clause :=
  match fetch_clause s with None => limit_clause s | Some f => Some f end.

Definition val (c : option clause) : option Z := option_map c_val c.

(* ------------------------------------------------------------------------------------------------ *)
(** * Plans: the row limiting part of the rendered statement                                         *)

(* the predicates the two translate_select_structure bodies put on the numbering column; this little
   syntax is what the T2 translator regenerates from the Python AST on every run *)
Inductive rncol := RowNum | OraRn | MssqlRn.          (* ROWNUM, ora_rn, mssql_rn *)
Inductive cmp := CLt | CLe | CGt | CGe | CEq | CNe.
Inductive arith := ALim | AOff | AAdd (a b : arith).
Definition pred := (cmp * arith)%type.                (* <numbering column> cmp arith *)
Definition tpred := (rncol * pred)%type.

(* MSSQLCompiler.translate_select_structure:
     if offset_clause is not None:
         where(mssql_rn > offset_clause)
         if limit_clause is not None: where(mssql_rn <= (limit_clause + offset_clause))
     else: where(mssql_rn <= (limit_clause)) *)
Definition mssql_tr (has_lim has_off : bool) : list tpred :=
  if has_off then
    (MssqlRn, (CGt, AOff)) :: (if has_lim then [(MssqlRn, (CLe, AAdd ALim AOff))] else [])
  else [(MssqlRn, (CLe, ALim))].

(* OracleCompiler.translate_select_structure:
     if limit_clause is not None:
         max_row = limit_clause; if offset_clause is not None: max_row = max_row + offset_clause
         limitselect.where(ROWNUM <= max_row)
     if offset_clause is not None: ... offsetselect.where(ora_rn > offset_clause) *)
Definition oracle_tr (has_lim has_off : bool) : list tpred :=
  (if has_lim then [(RowNum, (CLe, if has_off then AAdd ALim AOff else ALim))] else [])
  ++ (if has_off then [(OraRn, (CGt, AOff))] else []).

Definition rncol_eqb (a b : rncol) : bool :=
  match a, b with RowNum, RowNum | OraRn, OraRn | MssqlRn, MssqlRn => true | _, _ => false end.
Definition preds_on (c : rncol) (l : list tpred) : list pred :=
  map snd (filter (fun tp => rncol_eqb (fst tp) c) l).

(* the constants the native forms use for "no limit" *)
Definition sqlite_no_limit : Z := -1.                       (* LIMIT -1 OFFSET n *)
Definition sqlite_no_offset : Z := 0.                       (* LIMIT n OFFSET 0 *)
Definition mysql_no_limit : Z := 18446744073709551615.      (* LIMIT n, 18446744073709551615 *)

Inductive plan :=
| PNone                                                     (* no row limiting text at all *)
| PLimit (l : Z) (o : option Z)                             (* LIMIT l [OFFSET o] *)
| PLimitAll (o : Z)                                         (* LIMIT ALL OFFSET o        (PG) *)
| PMySQL (o : option Z) (l : Z)                             (* LIMIT [o,] l *)
| PFetch (o : option Z) (f : option Z) (percent ties : bool)
     (* [OFFSET o ROWS] [FETCH FIRST f [PERCENT] ROWS ONLY | WITH TIES] *)
| PTop (n : Z) (percent ties : bool)                        (* SELECT TOP n [PERCENT] [WITH TIES] *)
| PRowNumber (ps : list pred) (lim off : option Z)
     (* SELECT cols FROM (SELECT [DISTINCT] cols, ROW_NUMBER() OVER (ORDER BY ..) AS mssql_rn ..)
        WHERE ps *)
| PRowNum (inner : list pred) (outer : option (list pred)) (lim off : option Z)
     (* outer = None:    SELECT cols FROM (stmt) WHERE inner[ROWNUM]
        outer = Some ps: SELECT cols FROM (SELECT cols, ROWNUM AS ora_rn FROM (stmt) WHERE inner[ROWNUM])
                         WHERE ps[ora_rn] *)
| PError (code : Z).                                        (* CompileError: 1 = needs ORDER BY,
                                                               2 = PERCENT / WITH TIES need TOP *)

(* ------------------------------------------------------------------------------------------------ *)
(** * The decisions of the code                                                                      *)

(* limit_clause() of a dialect is only reached from _row_limit_clause when the statement has a row
   limiting clause and no FETCH, so LIMIT and OFFSET are not both absent; the (None, None) branch of
   those methods is dead and not represented. *)
Inductive lim_off := LO_limit (l : Z) (o : option Z) | LO_offset (o : Z).

(* SQLCompiler.limit_clause *)
Definition default_limit_clause (lo : lim_off) : plan :=
  match lo with
  | LO_limit l o => PLimit l o
  | LO_offset o => PLimit (-1) (Some o)
  end.
(* SQLiteCompiler.limit_clause: always renders OFFSET *)
Definition sqlite_limit_clause (lo : lim_off) : plan :=
  match lo with
  | LO_limit l (Some o) => PLimit l (Some o)
  | LO_limit l None => PLimit l (Some sqlite_no_offset)
  | LO_offset o => PLimit sqlite_no_limit (Some o)
  end.
(* MySQLCompiler.limit_clause *)
Definition mysql_limit_clause (lo : lim_off) : plan :=
  match lo with
  | LO_offset o => PMySQL (Some o) mysql_no_limit
  | LO_limit l (Some o) => PMySQL (Some o) l
  | LO_limit l None => PMySQL None l
  end.
(* PGCompiler.limit_clause *)
Definition pg_limit_clause (lo : lim_off) : plan :=
  match lo with
  | LO_limit l o => PLimit l o
  | LO_offset o => PLimitAll o
  end.

(* SQLCompiler._row_limit_clause (also PG: its fetch_clause override renders the same clauses) *)
Definition generic_row_limit (limit_fn : lim_off -> plan) (s : sel) : plan :=
  match fetch_clause s with
  | Some f => PFetch (val (s_off s)) (Some (c_val f)) (fetch_percent s) (fetch_ties s)
  | None =>
    match val (limit_clause s), val (s_off s) with
    | Some l, o => limit_fn (LO_limit l o)
    | None, Some o => limit_fn (LO_offset o)
    | None, None => PNone
    end
  end.

(* MSSQLCompiler._use_top *)
Definition use_top (s : sel) : bool :=
  negb (is_some (s_off s)) &&
  (simple_int (limit_clause s) ||
   (simple_int (fetch_clause s) && (fetch_percent s || fetch_ties s))).

(* MSSQLCompiler._check_can_use_fetch_limit *)
Definition check_can_use_fetch_limit (s : sel) : option Z :=
  if negb (s_ordered s) then Some 1
  else if fetch_percent s || fetch_ties s then Some 2
  else None.

Definition opt0 (o : option Z) : Z := match o with Some z => z | None => 0 end.

Definition mssql_form (offset_fetch : bool) (s : sel) : plan :=
  if negb (has_row_limiting s) then PNone
  else if use_top s then
    (* get_select_precolumns: TOP n [PERCENT] [WITH TIES] *)
    PTop (opt0 (val (get_limit_or_fetch s))) (fetch_percent s) (fetch_ties s)
  else
    match check_can_use_fetch_limit s with
    | Some e => PError e
    | None =>
      if offset_fetch then
        (* _row_limit_clause: fetch_clause(select, fetch_clause=_get_limit_or_fetch, require_offset=True) *)
        PFetch (Some (opt0 (val (s_off s)))) (val (get_limit_or_fetch s)) false false
      else
        (* translate_select_structure: ROW_NUMBER() wrapper *)
        PRowNumber
          (preds_on MssqlRn (mssql_tr (is_some (get_limit_or_fetch s)) (is_some (s_off s))))
          (val (get_limit_or_fetch s)) (val (s_off s))
    end.

Definition oracle_form (offset_fetch : bool) (s : sel) : plan :=
  if negb (has_row_limiting s) then PNone
  else
    match fetch_clause s with
    | Some f =>   (* _row_limit_clause -> SQLCompiler._row_limit_clause -> fetch_clause *)
      PFetch (val (s_off s)) (Some (c_val f)) (fetch_percent s) (fetch_ties s)
    | None =>
      if offset_fetch then   (* fetch_clause(select, fetch_clause=_get_limit_or_fetch(select)) *)
        PFetch (val (s_off s)) (val (limit_clause s)) false false
      else                   (* translate_select_structure: ROWNUM wrapper(s) *)
        let tr := oracle_tr (is_some (limit_clause s)) (is_some (s_off s)) in
        PRowNum (preds_on RowNum tr)
                (if is_some (s_off s) then Some (preds_on OraRn tr) else None)
                (val (limit_clause s)) (val (s_off s))
    end.

Definition which_form (d : dialect) (s : sel) : plan :=
  match d with
  | Default => generic_row_limit default_limit_clause s
  | SQLite => generic_row_limit sqlite_limit_clause s
  | MySQL => generic_row_limit mysql_limit_clause s
  | PG => generic_row_limit pg_limit_clause s
  | MSSQL offset_fetch => mssql_form offset_fetch s
  | Oracle offset_fetch => oracle_form offset_fetch s
  end.

(* ------------------------------------------------------------------------------------------------ *)
(** * Lists indexed by [Z] (no conversion to [nat]: the MySQL constant is 2^64-1)                     *)

Section Rows.
Variable A : Type.

Fixpoint takeZ (n : Z) (l : list A) : list A :=
  match l with
  | [] => []
  | x :: r => if n <=? 0 then [] else x :: takeZ (n - 1) r
  end.
Fixpoint dropZ (n : Z) (l : list A) : list A :=
  match l with
  | [] => []
  | x :: r => if n <=? 0 then l else dropZ (n - 1) r
  end.
Fixpoint take_while (p : A -> bool) (l : list A) : list A :=
  match l with
  | [] => []
  | x :: r => if p x then x :: take_while p r else []
  end.
Definition last_opt (l : list A) : option A :=
  match l with [] => None | x :: r => Some (last r x) end.
(* numbering from k: ROW_NUMBER() OVER (ORDER BY <the order of the list>), ROWNUM AS ora_rn *)
Fixpoint number (k : Z) (l : list A) : list (A * Z) :=
  match l with
  | [] => []
  | x :: r => (x, k) :: number (k + 1) r
  end.
(* Oracle ROWNUM: the counter is assigned tentatively to each candidate row and only advances when the
   row passes the WHERE clause *)
Fixpoint rownum_filter (p : Z -> bool) (k : Z) (l : list A) : list (A * Z) :=
  match l with
  | [] => []
  | x :: r => if p k then (x, k) :: rownum_filter p (k + 1) r else rownum_filter p k r
  end.
End Rows.
Arguments takeZ {A}. Arguments dropZ {A}. Arguments take_while {A}. Arguments last_opt {A}.
Arguments number {A}. Arguments rownum_filter {A}.

(* DISTINCT: first occurrences, in order *)
Fixpoint dedup {B} (eqB : B -> B -> bool) (l : list B) : list B :=
  match l with
  | [] => []
  | x :: r => x :: filter (fun y => negb (eqB x y)) (dedup eqB r)
  end.

(* ------------------------------------------------------------------------------------------------ *)
(** * SPEC: the requested slice of the fully ordered result                                          *)

Definition slice {A} (off : Z) (lim : option Z) (rows : list A) : list A :=
  match lim with
  | None => skipn (Z.to_nat off) rows
  | Some l => firstn (Z.to_nat l) (skipn (Z.to_nat off) rows)
  end.

(* FETCH FIRST p PERCENT: ceil(p * total / 100) rows *)
Definition pct_count (p total : Z) : Z := (p * total + 99) / 100.

(* positions 0 .. *)
Definition index {A} (l : list A) : list (A * Z) := number 0 l.

(* FETCH FIRST n ROWS WITH TIES, declaratively: the rows at positions < n together with every row
   whose ORDER BY key equals that of the n-th row *)
Definition with_ties_spec {A} (eqk : A -> A -> bool) (n : Z) (rows : list A) : list A :=
  match last_opt (firstn (Z.to_nat n) rows) with
  | None => []
  | Some pivot => map fst (filter (fun xi => (snd xi <? n) || eqk pivot (fst xi)) (index rows))
  end.

(* ------------------------------------------------------------------------------------------------ *)
(** * DATABASE side: what each plan returns                                                          *)

Definition cmp_eval (c : cmp) (a b : Z) : bool :=
  match c with
  | CLt => a <? b | CLe => a <=? b | CGt => b <? a | CGe => b <=? a
  | CEq => a =? b | CNe => negb (a =? b)
  end.
Fixpoint arith_eval (lim off : option Z) (a : arith) : Z :=
  match a with
  | ALim => opt0 lim
  | AOff => opt0 off
  | AAdd x y => arith_eval lim off x + arith_eval lim off y
  end.
Definition preds_hold (lim off : option Z) (ps : list pred) (rn : Z) : bool :=
  forallb (fun p => cmp_eval (fst p) rn (arith_eval lim off (snd p))) ps.

Section Exec.
Variable A : Type.
Variable eqA : A -> A -> bool.                 (* row equality (DISTINCT) *)
Variable eqk : A -> A -> bool.                 (* equality of ORDER BY keys (WITH TIES) *)
(* the order in which the outermost SELECT of a wrapper (which has no ORDER BY of its own) returns the
   rows of its derived table *)
Variable reorder : list A -> list A.

(* SQLite (and the generic form): LIMIT l OFFSET o; negative l = no limit, negative o = 0 *)
Definition limit_sem (l o : Z) (rows : list A) : list A :=
  let r := dropZ o rows in if l <? 0 then r else takeZ l r.

(* first n rows plus the following rows tied with the last of them *)
Definition ties_ext (n : Z) (rows : list A) : list A :=
  let h := takeZ n rows in
  match last_opt h with
  | None => []
  | Some x => h ++ take_while (eqk x) (dropZ n rows)
  end.

(* [OFFSET o ROWS] [FETCH FIRST f [PERCENT] ROWS ONLY|WITH TIES]; TOP is the o = None case.
   PERCENT is of the total number of rows of the ordered result. *)
Definition fetch_sem (o f : option Z) (percent ties : bool) (rows : list A) : list A :=
  let r := dropZ (opt0 o) rows in
  match f with
  | None => r
  | Some n =>
    let cnt := if percent then pct_count n (Z.of_nat (length rows)) else n in
    if ties then ties_ext cnt r else takeZ cnt r
  end.

Definition eqP (a b : A * Z) : bool := eqA (fst a) (fst b) && (snd a =? snd b).

(* [pre]: the projected rows in ORDER BY order BEFORE DISTINCT is applied *)
Definition result (distinct : bool) (pre : list A) : list A :=
  if distinct then dedup eqA pre else pre.

Definition exec (p : plan) (distinct : bool) (pre : list A) : list A :=
  let rows := result distinct pre in
  match p with
  | PNone => rows
  | PLimit l o => limit_sem l (opt0 o) rows
  | PLimitAll o => dropZ o rows
  | PMySQL o l => takeZ l (dropZ (opt0 o) rows)
  | PFetch o f percent ties => fetch_sem o f percent ties rows
  | PTop n percent ties => fetch_sem None (Some n) percent ties rows
  | PRowNumber ps lim off =>
    (* the numbering column is added to the columns of the ORIGINAL select, i.e. inside its DISTINCT *)
    let inner := if distinct then dedup eqP (number 1 pre) else number 1 pre in
    reorder (map fst (filter (fun xr => preds_hold lim off ps (snd xr)) inner))
  | PRowNum inner outer lim off =>
    (* the original select, DISTINCT and ORDER BY included, is the innermost derived table *)
    let lvl := rownum_filter (preds_hold lim off inner) 1 rows in
    match outer with
    | None => reorder (map fst lvl)
    | Some ps => reorder (map fst (filter (fun xr => preds_hold lim off ps (snd xr)) lvl))
    end
  | PError _ => []
  end.

(* FETCH FIRST n [PERCENT] ROWS ONLY | WITH TIES after OFFSET off, as the user means it *)
Definition fetch_spec (off n : Z) (percent ties : bool) (rows : list A) : list A :=
  let cnt := if percent then pct_count n (Z.of_nat (length rows)) else n in
  if ties then with_ties_spec eqk cnt (slice off None rows) else slice off (Some cnt) rows.

(* what the user asked for *)
Definition spec (s : sel) (pre : list A) : list A :=
  let rows := result (s_distinct s) pre in
  let off := opt0 (val (s_off s)) in
  match s_lim s with
  | NoLimit => slice off None rows
  | Limit c => slice off (Some (c_val c)) rows
  | Fetch c percent ties => fetch_spec off (c_val c) percent ties rows
  end.

(* no two equal rows before DISTINCT *)
Fixpoint nodupb (l : list A) : bool :=
  match l with
  | [] => true
  | x :: r => negb (existsb (eqA x) r) && nodupb r
  end.
End Exec.

(* the plan wraps the statement in an outer SELECT that has no ORDER BY of its own *)
Definition wrapped (p : plan) : bool :=
  match p with PRowNumber _ _ _ | PRowNum _ _ _ _ => true | _ => false end.
Definition is_error (p : plan) : bool := match p with PError _ => true | _ => false end.

(* the region in which the ROW_NUMBER() wrapper is right: it numbers the rows INSIDE the DISTINCT *)
Definition guard {A} (eqA : A -> A -> bool) (d : dialect) (s : sel) (pre : list A) : bool :=
  match which_form d s with
  | PRowNumber _ _ _ => negb (s_distinct s) || nodupb A eqA pre
  | _ => true
  end.

(* all limit / offset / fetch values are non-negative *)
Definition lim_val (s : sel) : Z :=
  match s_lim s with NoLimit => 0 | Limit c => c_val c | Fetch c _ _ => c_val c end.
Definition nonneg (s : sel) : bool := (0 <=? lim_val s) && (0 <=? opt0 (val (s_off s))).

(* ------------------------------------------------------------------------------------------------ *)
(** * The compiled-statement cache                                                                   *)

(* What the cache key of a statement retains of its row limiting clauses: their presence, whether each
   is a plain int (_OffsetLimitParam) or another bound parameter, the FETCH options - NOT the values,
   which are extracted and re-bound on every execution of the cached SQL. *)
Definition same_clause_key (a b : option clause) : bool :=
  match a, b with
  | None, None => true
  | Some x, Some y => Bool.eqb (c_simple x) (c_simple y)
  | _, _ => false
  end.
Definition same_key (s s' : sel) : bool :=
  match s_lim s, s_lim s' with
  | NoLimit, NoLimit => true
  | Limit a, Limit b => Bool.eqb (c_simple a) (c_simple b)
  | Fetch a p t, Fetch b p' t' => Bool.eqb (c_simple a) (c_simple b) && Bool.eqb p p' && Bool.eqb t t'
  | _, _ => false
  end
  && same_clause_key (s_off s) (s_off s')
  && Bool.eqb (s_ordered s) (s_ordered s') && Bool.eqb (s_distinct s) (s_distinct s').

(* the statement with its values replaced by two markers: it depends on the key only.  The plan chosen
   for it is the TEMPLATE that is cached; [subst] is the re-binding of the current values. *)
Definition mark_lim : Z := 1000003.
Definition mark_off : Z := 1000033.
Definition markers (s : sel) : sel :=
  Sel (match s_lim s with
       | NoLimit => NoLimit
       | Limit c => Limit (Clause (c_simple c) mark_lim)
       | Fetch c p t => Fetch (Clause (c_simple c) mark_lim) p t
       end)
      (option_map (fun c => Clause (c_simple c) mark_off) (s_off s))
      (s_ordered s) (s_distinct s).
Definition sv (lv ov z : Z) : Z := if z =? mark_lim then lv else if z =? mark_off then ov else z.
Definition subst (lv ov : Z) (p : plan) : plan :=
  let f := sv lv ov in
  match p with
  | PNone => PNone
  | PLimit l o => PLimit (f l) (option_map f o)
  | PLimitAll o => PLimitAll (f o)
  | PMySQL o l => PMySQL (option_map f o) (f l)
  | PFetch o n pc ti => PFetch (option_map f o) (option_map f n) pc ti
  | PTop n pc ti => PTop (f n) pc ti
  | PRowNumber ps lim off => PRowNumber ps (option_map f lim) (option_map f off)
  | PRowNum inner outer lim off => PRowNum inner outer (option_map f lim) (option_map f off)
  | PError c => PError c
  end.

(* ------------------------------------------------------------------------------------------------ *)
(** * Compound selects (UNION ...)                                                                   *)

(* SQLCompiler.visit_compound_select renders the row limiting part with self._row_limit_clause(cs)
   only: neither translate_select_structure (the wrappers) nor get_select_precolumns (TOP) is ever
   reached for a CompoundSelect.  Where the dialect's _row_limit_clause returns "" because it counts
   on one of those two, the LIMIT / OFFSET is silently not rendered. *)
Definition compound_form (d : dialect) (s : sel) : plan :=
  match d with
  | MSSQL offset_fetch =>
    if negb (has_row_limiting s) then PNone
    else if offset_fetch && negb (use_top s) then
      match check_can_use_fetch_limit s with
      | Some e => PError e
      | None => PFetch (Some (opt0 (val (s_off s)))) (val (get_limit_or_fetch s)) false false
      end
    else PNone                                   (* MSSQLCompiler._row_limit_clause: return "" *)
  | Oracle offset_fetch =>
    if negb (has_row_limiting s) then PNone
    else
      match fetch_clause s with
      | Some f => PFetch (val (s_off s)) (Some (c_val f)) (fetch_percent s) (fetch_ties s)
      | None =>
        if offset_fetch then PFetch (val (s_off s)) (val (limit_clause s)) false false
        else PNone                               (* OracleCompiler.limit_clause: return "" *)
      end
  | _ => which_form d s
  end.

(* the statement has a row limiting clause and nothing is rendered for it *)
Definition compound_dropped (d : dialect) (s : sel) : bool :=
  has_row_limiting s && match compound_form d s with PNone => true | _ => false end.
