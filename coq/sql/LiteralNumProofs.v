(* C05 - integers, numerics, booleans, dates and times: token lemmas, the numeric refutations. *)
From Coq Require Import List NArith ZArith Bool Lia DecimalN.
Import ListNotations.
From SAV.sql Require Import Literal LiteralStrProofs.
Open Scope N_scope.

(* ------------------------------------------------------------------ decimal digits *)

Lemma uint_chars_digits d : forallb is_digit (uint_chars d) = true.
Proof. induction d; cbn [uint_chars forallb]; try rewrite IHd; reflexivity. Qed.

Lemma chars_uint_chars d : chars_uint (uint_chars d) = Some d.
Proof. induction d; cbn [uint_chars chars_uint]; try rewrite IHd; reflexivity. Qed.

Lemma uint_chars_nonempty n : dec_of_N n <> [].
Proof.
  unfold dec_of_N. intros H. destruct (N.to_uint n) eqn:E; cbn [uint_chars] in H; try discriminate.
  pose proof (DecimalN.Unsigned.of_to n) as Ho. rewrite E in Ho. cbn in Ho. subst n. discriminate E.
Qed.

Lemma dec_digits n : forallb is_digit (dec_of_N n) = true.
Proof. apply uint_chars_digits. Qed.

Lemma digit_not_minus c : is_digit c = true -> c =? 45 = false.
Proof. unfold is_digit. intros H. apply andb_prop in H. destruct H as [H _].
  apply N.leb_le in H. apply N.eqb_neq. lia. Qed.

Lemma parse_dec n : uint_Z (chars_uint (dec_of_N n)) = Some (Z.of_N n).
Proof. unfold dec_of_N. rewrite chars_uint_chars. cbn [uint_Z]. rewrite DecimalN.Unsigned.of_to. reflexivity. Qed.

(* the rendered integer denotes the integer *)
Theorem int_literal_value : forall z, parse_int (render_int z) = Some z.
Proof.
  intros z. destruct z as [|p|p]; cbn [render_int].
  - reflexivity.
  - change (Z.to_N (Z.pos p)) with (N.pos p).
    pose proof (dec_digits (N.pos p)) as Hd. pose proof (uint_chars_nonempty (N.pos p)) as Hne.
    pose proof (parse_dec (N.pos p)) as Hp.
    destruct (dec_of_N (N.pos p)) as [|c r]; [contradiction|].
    cbn [forallb] in Hd. apply andb_prop in Hd. destruct Hd as [Hc _].
    unfold parse_int. rewrite (digit_not_minus c Hc). exact Hp.
  - pose proof (uint_chars_nonempty (N.pos p)) as Hne. pose proof (parse_dec (N.pos p)) as Hp.
    unfold parse_int. change (45 =? 45) with true. cbn iota.
    destruct (dec_of_N (N.pos p)) as [|c r]; [contradiction|].
    rewrite Hp. reflexivity.
Qed.

(* ------------------------------------------------------------------ span_digits *)

Definition head_not_digit (s : str) : bool :=
  match s with c :: _ => negb (is_digit c) | [] => true end.

Lemma span_digits_spec s : forall a b, span_digits s = (a, b) ->
  s = a ++ b /\ forallb is_digit a = true /\ head_not_digit b = true.
Proof.
  induction s as [|c s IH]; intros a b H.
  - cbn in H. inversion H. repeat split; reflexivity.
  - cbn [span_digits] in H. destruct (is_digit c) eqn:E.
    + destruct (span_digits s) as [a' b'] eqn:E2. inversion H; subst.
      destruct (IH a' b eq_refl) as (H1 & H2 & H3). subst s.
      split; [reflexivity|]. split; [|assumption]. cbn [forallb]. rewrite E, H2. reflexivity.
    + inversion H; subst. split; [reflexivity|]. split; [reflexivity|].
      cbn [head_not_digit]. rewrite E. reflexivity.
Qed.

Lemma span_digits_app a : forall b, forallb is_digit a = true -> head_not_digit b = true ->
  span_digits (a ++ b) = (a, b).
Proof.
  induction a as [|c a IH]; intros b Ha Hb.
  - cbn [app]. destruct b as [|c r]; [reflexivity|]. cbn [span_digits]. cbn [head_not_digit] in Hb.
    destruct (is_digit c); [discriminate|reflexivity].
  - cbn [forallb] in Ha. apply andb_prop in Ha. destruct Ha as [Hc Ha].
    cbn [app span_digits]. rewrite Hc, (IH b Ha Hb). reflexivity.
Qed.

Lemma follow_not_digit rest : num_follow_ok rest = true -> head_not_digit rest = true.
Proof.
  destruct rest as [|c r]; [reflexivity|]. cbn [num_follow_ok head_not_digit]. unfold is_idchar.
  destruct (is_digit c); [discriminate|reflexivity].
Qed.

Lemma head_not_digit_app b rest : head_not_digit rest = true ->
  head_not_digit b = true -> head_not_digit (b ++ rest) = true.
Proof. destruct b; intros; assumption. Qed.

Lemma span_digits_ext s a b rest : span_digits s = (a, b) -> num_follow_ok rest = true ->
  span_digits (s ++ rest) = (a, b ++ rest).
Proof.
  intros H Hr. destruct (span_digits_spec s a b H) as (-> & Ha & Hb).
  rewrite <- app_assoc. apply span_digits_app; [exact Ha|].
  apply head_not_digit_app; [apply follow_not_digit; exact Hr|exact Hb].
Qed.

(* ------------------------------------------------------------------ extension of a complete token *)

Lemma follow_not_e c r : num_follow_ok (c :: r) = true -> (c =? 101) || (c =? 69) = false.
Proof.
  cbn [num_follow_ok]. unfold is_idchar. intros H.
  destruct (N.eqb_spec c 101) as [->|]; [discriminate H|].
  destruct (N.eqb_spec c 69) as [->|]; [discriminate H|]. reflexivity.
Qed.
Lemma follow_not_dot c r : num_follow_ok (c :: r) = true -> c =? 46 = false.
Proof.
  cbn [num_follow_ok]. intros H. destruct (c =? 46); [|reflexivity].
  rewrite orb_true_r in H. discriminate.
Qed.

Lemma finish_nil tok r t : finish tok r = Some (t, []) -> r = [] /\ t = tok.
Proof. unfold finish. destruct (num_follow_ok r); intros H; inversion H. split; reflexivity. Qed.

Lemma lex_exp_fresh tok rest : num_follow_ok rest = true -> lex_exp tok rest = Some (tok, rest).
Proof.
  intros Hr. destruct rest as [|c r]; [reflexivity|]. unfold lex_exp.
  rewrite (follow_not_e c r Hr). unfold finish. rewrite Hr. reflexivity.
Qed.

Lemma lex_exp_ext tok r3 t rest : lex_exp tok r3 = Some (t, []) -> num_follow_ok rest = true ->
  lex_exp tok (r3 ++ rest) = Some (t, rest).
Proof.
  intros H Hr. destruct r3 as [|c r].
  - cbn in H. inversion H; subst. cbn [app]. apply lex_exp_fresh. exact Hr.
  - cbn [app]. unfold lex_exp in *. destruct ((c =? 101) || (c =? 69)).
    + destruct (span_digits (drop_sign r)) as [e r'] eqn:E.
      destruct (nonempty e) eqn:Ee; [|discriminate].
      apply finish_nil in H. destruct H as [-> ->].
      destruct (span_digits_spec _ _ _ E) as (Hd & He & _). rewrite app_nil_r in Hd.
      (* r is non-empty: its sign-less part is the non-empty digit string e *)
      destruct r as [|c2 r2]; [cbn in Hd; subst e; discriminate|].
      cbn [app].
      assert (Hds : drop_sign (c2 :: r2 ++ rest) = drop_sign (c2 :: r2) ++ rest).
      { cbn [drop_sign]. destruct (is_sign c2); reflexivity. }
      rewrite Hds, (span_digits_ext _ _ _ rest E Hr). cbn [app]. rewrite Ee.
      unfold finish. rewrite Hr. reflexivity.
    + apply finish_nil in H. destruct H as [H _]. discriminate.
Qed.

Lemma lex_num_ext s t rest : lex_num s = Some (t, []) -> num_follow_ok rest = true ->
  lex_num (s ++ rest) = Some (t, rest).
Proof.
  unfold lex_num. intros H Hr.
  destruct (span_digits s) as [ip r1] eqn:E1.
  rewrite (span_digits_ext s ip r1 rest E1 Hr).
  destruct r1 as [|c r2].
  - cbn [app]. destruct (nonempty ip) eqn:Ei; [|discriminate].
    cbn in H. inversion H; subst t.
    destruct rest as [|c r]; [reflexivity|].
    rewrite (follow_not_dot c r Hr). apply lex_exp_fresh. exact Hr.
  - cbn [app]. destruct (c =? 46).
    + destruct (span_digits r2) as [fp r3] eqn:E2.
      rewrite (span_digits_ext r2 fp r3 rest E2 Hr).
      destruct (nonempty ip || nonempty fp); [|discriminate].
      apply lex_exp_ext; assumption.
    + destruct (nonempty ip); [|discriminate].
      apply (lex_exp_ext ip (c :: r2) t rest H Hr).
Qed.

(* the token is the text consumed *)
Lemma finish_sound tok r t r' : finish tok r = Some (t, r') -> t = tok /\ r' = r.
Proof. unfold finish. destruct (num_follow_ok r); intros H; inversion H. split; reflexivity. Qed.

Lemma lex_exp_sound tok r t r' : lex_exp tok r = Some (t, r') -> tok ++ r = t ++ r'.
Proof.
  unfold lex_exp. destruct r as [|c r]; [intros H; inversion H; reflexivity|].
  destruct ((c =? 101) || (c =? 69)).
  - destruct (span_digits (drop_sign r)) as [e r2] eqn:E. destruct (nonempty e); [|discriminate].
    intros H. apply finish_sound in H. destruct H as [-> ->].
    destruct (span_digits_spec _ _ _ E) as (Hd & _ & _).
    rewrite <- !app_assoc. cbn [app]. f_equal. f_equal.
    destruct r as [|c2 r3]; [exact Hd|].
    cbn [drop_sign] in Hd. destruct (is_sign c2); cbn [app]; [rewrite Hd; reflexivity|exact Hd].
  - intros H. apply finish_sound in H. destruct H as [-> ->]. reflexivity.
Qed.

Lemma lex_num_sound s t r : lex_num s = Some (t, r) -> s = t ++ r.
Proof.
  unfold lex_num. destruct (span_digits s) as [ip r1] eqn:E1.
  destruct (span_digits_spec _ _ _ E1) as (-> & _ & _).
  destruct r1 as [|c r2].
  - destruct (nonempty ip); [|discriminate]. intros H. apply lex_exp_sound in H. exact H.
  - destruct (N.eqb_spec c 46) as [->|].
    + destruct (span_digits r2) as [fp r3] eqn:E2.
      destruct (span_digits_spec _ _ _ E2) as (-> & _ & _).
      destruct (nonempty ip || nonempty fp); [|discriminate].
      intros H. apply lex_exp_sound in H. rewrite <- H, <- !app_assoc. reflexivity.
    + destruct (nonempty ip); [|discriminate]. intros H. apply lex_exp_sound in H. exact H.
Qed.

Lemma lex_signed_ext s t rest : lex_signed s = Some (t, []) -> num_follow_ok rest = true ->
  lex_signed (s ++ rest) = Some (t, rest).
Proof.
  unfold lex_signed. destruct s as [|c r]; [discriminate|]. cbn [app]. intros H Hr.
  destruct (is_sign c).
  - destruct (lex_num r) as [[t' rest']|] eqn:E; [|discriminate]. inversion H; subst.
    rewrite (lex_num_ext r t' rest E Hr). reflexivity.
  - apply (lex_num_ext (c :: r) t rest H Hr).
Qed.

Lemma lex_signed_sound s t r : lex_signed s = Some (t, r) -> s = t ++ r.
Proof.
  unfold lex_signed. destruct s as [|c s']; [discriminate|]. destruct (is_sign c).
  - destruct (lex_num s') as [[t' r']|] eqn:E; [|discriminate]. intros H. inversion H; subst.
    apply lex_num_sound in E. subst s'. reflexivity.
  - apply lex_num_sound.
Qed.

(* a text that is one signed numeric literal stays exactly that token in front of any remainder
   that cannot continue a number *)
Theorem numeric_token : forall text rest,
  sql_numeric text = true -> num_follow_ok rest = true ->
  lex_signed (text ++ rest) = Some (text, rest).
Proof.
  intros text rest H Hr. unfold sql_numeric in H.
  destruct (lex_signed text) as [[t r]|] eqn:E; [|discriminate]. destruct r; [|discriminate].
  pose proof (lex_signed_sound _ _ _ E) as Hs. rewrite app_nil_r in Hs. subst t.
  apply lex_signed_ext; assumption.
Qed.

(* ------------------------------------------------------------------ integers *)

Lemma render_int_numeric z : sql_numeric (render_int z) = true.
Proof.
  assert (Hdig : forall n, lex_num (dec_of_N n) = Some (dec_of_N n, [])).
  { intros n. unfold lex_num.
    pose proof (span_digits_app (dec_of_N n) [] (dec_digits n) eq_refl) as Hs.
    rewrite app_nil_r in Hs. rewrite Hs.
    destruct (dec_of_N n) eqn:En; [exfalso; exact (uint_chars_nonempty n En)|]. reflexivity. }
  unfold sql_numeric, lex_signed. destruct z as [|p|p]; cbn [render_int].
  - reflexivity.
  - change (Z.to_N (Z.pos p)) with (N.pos p). pose proof (Hdig (N.pos p)) as H.
    pose proof (dec_digits (N.pos p)) as Hd.
    destruct (dec_of_N (N.pos p)) as [|c r] eqn:En; [discriminate H|].
    cbn [forallb] in Hd. apply andb_prop in Hd. destruct Hd as [Hc _].
    assert (Hs : is_sign c = false).
    { unfold is_sign, is_digit in *. apply andb_prop in Hc. destruct Hc as [H1 _]. apply N.leb_le in H1.
      destruct (N.eqb_spec c 43); [lia|]. destruct (N.eqb_spec c 45); [lia|]. reflexivity. }
    rewrite Hs, H. reflexivity.
  - change (is_sign 45) with true. cbn iota. rewrite (Hdig (N.pos p)). reflexivity.
Qed.

Theorem int_literal_token : forall z rest, num_follow_ok rest = true ->
  lex_signed (render_int z ++ rest) = Some (render_int z, rest).
Proof. intros z rest Hr. apply numeric_token; [apply render_int_numeric|exact Hr]. Qed.

(* "-" directly followed by a negative literal would be a comment ... *)
Theorem minus_then_negative : forall p rest,
  lex_minus (45 :: render_int (Zneg p) ++ rest) = Comment (render_int (Zpos p) ++ rest).
Proof. intros p rest. reflexivity. Qed.

(* ... the unary operator as rendered is an operator for EVERY operand text *)
Theorem neg_operand_is_operator : forall le lit rest, lit <> [] ->
  lex_minus (render_neg le lit ++ rest) = OpMinus (tl (render_neg le lit) ++ rest).
Proof.
  intros le lit rest Hne. destruct lit as [|c l]; [contradiction|]. unfold render_neg.
  destruct (le || starts_minus (c :: l)) eqn:E; cbn [app tl].
  - reflexivity.
  - apply orb_false_iff in E. destruct E as [_ E]. cbn [starts_minus] in E.
    unfold lex_minus. change (45 =? 45) with true. cbn iota. rewrite E. reflexivity.
Qed.

(* ------------------------------------------------------------------ Numeric / Float *)

(* whatever the processor lets through is rendered verbatim *)
Lemma numeric_process_text k text out : numeric_process k text = Ok out -> out = text.
Proof. unfold numeric_process. destruct k; try (intros H; inversion H; reflexivity).
  destruct (decimal_accepts text); intros H; inversion H; reflexivity. Qed.

Theorem numeric_literal_guarded : forall k text out rest,
  numeric_process k text = Ok out -> sql_numeric text = true -> num_follow_ok rest = true ->
  lex_signed (out ++ rest) = Some (text, rest).
Proof.
  intros k text out rest H Hn Hr. rewrite (numeric_process_text _ _ _ H). apply numeric_token; assumption.
Qed.

Definition s_NaN : str := [78; 97; 78].
Definition s_Infinity : str := [73; 110; 102; 105; 110; 105; 116; 121].
Definition s_1_0 : str := [49; 95; 48].
Definition s_inf : str := [105; 110; 102].
Definition s_nan : str := [110; 97; 110].
Definition s_arabic_12 : str := [1633; 1634].

(* strings Decimal() accepts that are not numeric literals: bare words / invalid tokens *)
Theorem numeric_literal_refuted :
  (numeric_process KStr s_NaN = Ok s_NaN /\ lex_signed (s_NaN ++ [32]) = None /\ is_identifier s_NaN = true) /\
  (numeric_process KStr s_Infinity = Ok s_Infinity /\ lex_signed (s_Infinity ++ [32]) = None
     /\ is_identifier s_Infinity = true) /\
  (numeric_process KStr s_1_0 = Ok s_1_0 /\ lex_signed (s_1_0 ++ [32]) = None) /\
  (numeric_process KStr s_arabic_12 = Ok s_arabic_12 /\ lex_signed (s_arabic_12 ++ [32]) = None
     /\ is_identifier s_arabic_12 = true) /\
  (numeric_process KDecimal s_NaN = Ok s_NaN).
Proof. vm_compute. repeat split; reflexivity. Qed.

(* float("inf") / float("nan"): str() gives a bare word *)
Theorem float_literal_refuted :
  (numeric_process KFloat s_inf = Ok s_inf /\ lex_signed (s_inf ++ [32]) = None /\ is_identifier s_inf = true) /\
  (numeric_process KFloat s_nan = Ok s_nan /\ lex_signed (s_nan ++ [32]) = None /\ is_identifier s_nan = true).
Proof. vm_compute. repeat split; reflexivity. Qed.

(* ------------------------------------------------------------------ dates and times *)

Lemma forallb_repeat {A} (f : A -> bool) x n : f x = true -> forallb f (repeat x n) = true.
Proof. intros H. induction n; [reflexivity|]. cbn [repeat forallb]. rewrite H, IHn. reflexivity. Qed.

Lemma digit_plain c : is_digit c = true -> plainc c = true.
Proof.
  unfold is_digit, plainc. intros H. apply andb_prop in H. destruct H as [H1 H2].
  apply N.leb_le in H1. apply N.leb_le in H2.
  destruct (N.eqb_spec c 39); [lia|]. destruct (N.eqb_spec c 37); [lia|].
  destruct (N.eqb_spec c 92); [lia|]. reflexivity.
Qed.

Lemma forallb_impl {A} (f g : A -> bool) l : (forall x, f x = true -> g x = true) ->
  forallb f l = true -> forallb g l = true.
Proof.
  intros Hi. induction l as [|x l IH]; [reflexivity|]. cbn [forallb]. intros H.
  apply andb_prop in H. destruct H as [H1 H2]. rewrite (Hi x H1), (IH H2). reflexivity.
Qed.

Lemma padN_plain w n : forallb plainc (padN w n) = true.
Proof.
  unfold padN, pad. rewrite forallb_app. rewrite forallb_repeat by reflexivity.
  cbn [andb]. exact (forallb_impl is_digit plainc _ digit_plain (dec_digits n)).
Qed.

Lemma iso_date_plain x : forallb plainc (iso_date x) = true.
Proof. unfold iso_date. rewrite !forallb_app, !padN_plain. reflexivity. Qed.
Lemma hms_plain t : forallb plainc (hms t) = true.
Proof. unfold hms. rewrite !forallb_app, !padN_plain. reflexivity. Qed.
Lemma iso_time_plain t : forallb plainc (iso_time t) = true.
Proof.
  unfold iso_time. rewrite forallb_app, hms_plain. destruct (t_us t =? 0); [reflexivity|].
  cbn [forallb]. rewrite padN_plain. reflexivity.
Qed.
Lemma sqlite_time_plain t : forallb plainc (sqlite_time t) = true.
Proof. unfold sqlite_time. rewrite forallb_app, hms_plain. cbn [forallb]. rewrite padN_plain. reflexivity. Qed.

Lemma temporal_text_plain d v : forallb plainc (temporal_text d v) = true.
Proof.
  destruct d, v; cbn [temporal_text]; rewrite ?forallb_app; cbn [forallb];
    rewrite ?iso_date_plain, ?iso_time_plain, ?sqlite_time_plain; reflexivity.
Qed.

Lemma plain_no_backslash s : forallb plainc s = true -> forallb nobs s = true.
Proof. apply forallb_impl. intros c. unfold plainc, nobs. destruct (c =? 92); [rewrite andb_false_r; discriminate|reflexivity]. Qed.

(* the dialect-level replace leaves a temporal literal alone: what reaches the statement is
   prefix ' text ' suffix *)
Theorem temporal_render : forall d fl v,
  render_value d fl (VTemporal v) =
  Ok (fst (temporal_wrap d v) ++ [39] ++ temporal_text d v ++ [39] ++ snd (temporal_wrap d v)).
Proof.
  intros d fl v. cbn [render_value]. f_equal. apply dialect_replaces_no_backslash.
  unfold temporal_process. rewrite !forallb_app.
  rewrite (plain_no_backslash _ (temporal_text_plain d v)).
  destruct d, v; cbn [temporal_wrap fst snd]; try reflexivity;
    destruct (t_us t =? 0); reflexivity.
Qed.

(* the quoted part is one string token denoting the ISO text, in every dialect's lexical mode *)
Theorem temporal_literal_token : forall d fl v rest, no_quote_prefix rest ->
  lex_str (server d fl) (driver fl (([39] ++ temporal_text d v ++ [39]) ++ rest))
  = Some (temporal_text d v, driver fl rest).
Proof.
  intros d fl v rest Hr.
  assert (E : [39] ++ temporal_text d v ++ [39] = render_string d fl false (temporal_text d v)).
  { rewrite render_string_charwise, (enc_plain _ _ _ (temporal_text_plain d v)). reflexivity. }
  rewrite E. apply string_literal_roundtrip; [discriminate|exact Hr].
Qed.

(* the fixed text Oracle puts after the quoted part starts with a comma *)
Lemma temporal_suffix_no_quote d v rest : no_quote_prefix rest ->
  no_quote_prefix (snd (temporal_wrap d v) ++ rest).
Proof.
  intros Hr. destruct d, v; cbn [temporal_wrap snd app]; try exact Hr; try discriminate.
  destruct (t_us t =? 0); cbn; discriminate.
Qed.

(* ------------------------------------------------------------------ booleans, NULL, ints *)

Definition s_true : str := [116; 114; 117; 101].
Definition s_false : str := [102; 97; 108; 115; 101].
Theorem bool_null_render : forall d fl b,
  render_value d fl VNone = Ok null_text /\
  render_value d fl (VBool b) = Ok (bool_text d b) /\
  In (bool_text d b) [[49]; [48]; s_true; s_false].
Proof.
  intros d fl b. split; [reflexivity|]. split.
  - cbn [render_value]. f_equal. apply dialect_replaces_no_backslash.
    unfold bool_text. destruct (native_bool_text d), b; reflexivity.
  - unfold bool_text. destruct (native_bool_text d), b; cbn; tauto.
Qed.

Theorem int_render : forall d fl z, render_value d fl (VInt z) = Ok (render_int z).
Proof.
  intros d fl z. cbn [render_value]. f_equal. apply dialect_replaces_no_backslash.
  destruct z as [|p|p]; cbn [render_int]; [reflexivity| |cbn [forallb]].
  all: apply (forallb_impl is_digit); [|apply dec_digits].
  all: intros c Hc; unfold is_digit in Hc; apply andb_prop in Hc; destruct Hc as [_ H2];
    apply N.leb_le in H2; unfold nobs; destruct (N.eqb_spec c 92); [lia|reflexivity].
Qed.
