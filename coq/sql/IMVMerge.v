(* Proofs about the dialect-level merge of IMV.v (sentinel sort / sentinel dictionary match). *)
From Coq Require Import List ZArith Bool Lia Arith Permutation Sorted ZifyBool.
Import ListNotations.
From SAV.sql Require Import IMV.
Open Scope Z_scope.

(* ---------------- generic list facts ---------------- *)
Lemma NoDup_app_l {A} (l1 l2 : list A) : NoDup (l1 ++ l2) -> NoDup l1.
Proof. induction l1 as [|a l IH]; intros H; [constructor|]. inversion H; subst. constructor; [|apply IH; assumption].
  intros Hin. apply H2. apply in_or_app. left. exact Hin. Qed.
Lemma NoDup_app_r {A} (l1 l2 : list A) : NoDup (l1 ++ l2) -> NoDup l2.
Proof. induction l1 as [|a l IH]; intros H; [exact H|]. inversion H; subst. apply IH. assumption. Qed.
Lemma NoDup_concat_in {A} (ls : list (list A)) l : NoDup (concat ls) -> In l ls -> NoDup l.
Proof.
  induction ls as [|x r IH]; intros Hn Hin; [destruct Hin|]. cbn in Hn. destruct Hin as [->|Hin].
  - eapply NoDup_app_l; exact Hn.
  - apply IH; [eapply NoDup_app_r; exact Hn|exact Hin].
Qed.
Lemma StronglySorted_app_l {A} (Rel : A -> A -> Prop) l1 l2 : StronglySorted Rel (l1 ++ l2) -> StronglySorted Rel l1.
Proof. induction l1 as [|a l IH]; intros H; [constructor|]. inversion H; subst. constructor; [apply IH; assumption|].
  apply Forall_forall. intros x Hx. eapply Forall_forall in H3; [exact H3|]. apply in_or_app. left. exact Hx. Qed.
Lemma StronglySorted_app_r {A} (Rel : A -> A -> Prop) l1 l2 : StronglySorted Rel (l1 ++ l2) -> StronglySorted Rel l2.
Proof. induction l1 as [|a l IH]; intros H; [exact H|]. inversion H; subst. apply IH. assumption. Qed.
Lemma StronglySorted_concat_in {A} (Rel : A -> A -> Prop) (ls : list (list A)) l :
  StronglySorted Rel (concat ls) -> In l ls -> StronglySorted Rel l.
Proof.
  induction ls as [|x r IH]; intros Hn Hin; [destruct Hin|]. cbn in Hn. destruct Hin as [->|Hin].
  - eapply StronglySorted_app_l; exact Hn.
  - apply IH; [eapply StronglySorted_app_r; exact Hn|exact Hin].
Qed.
Lemma StronglySorted_map {A B} (f : A -> B) (Rel : B -> B -> Prop) l :
  StronglySorted (fun a b => Rel (f a) (f b)) l -> StronglySorted Rel (map f l).
Proof. induction 1; cbn; constructor; [assumption|]. apply Forall_forall. intros y Hy.
  apply in_map_iff in Hy. destruct Hy as (z & <- & Hz). eapply Forall_forall in H0; [exact H0|exact Hz]. Qed.

Section MergeProofs.
Context {P K R : Type}.
Variable key_eqb : K -> K -> bool.
Hypothesis key_eqb_spec : forall a b, key_eqb a b = true <-> a = b.
Variable sent_of_param : P -> K.
Variable sent_of_row : R -> K.
Variable sort_key : R -> Z.

Local Notation sort_rows := (sort_rows sort_key).
Local Notation insert_row := (insert_row sort_key).
Local Notation dict_get := (dict_get key_eqb sent_of_row).
Local Notation dict_len := (dict_len key_eqb sent_of_row).
Local Notation lookup_all := (lookup_all key_eqb sent_of_row).
Local Notation merge_rows := (merge_rows key_eqb sent_of_param sent_of_row sort_key).

Definition key_le (a b : R) : Prop := sort_key a <= sort_key b.
Definition key_lt (a b : R) : Prop := sort_key a < sort_key b.

(* ---------------- the implicit-sentinel sort ---------------- *)
Lemma insert_row_perm r l : Permutation (insert_row r l) (r :: l).
Proof.
  induction l as [|x t IH]; cbn [IMV.insert_row]; [reflexivity|].
  destruct (sort_key r <=? sort_key x); [reflexivity|].
  rewrite IH. apply perm_swap.
Qed.
Lemma sort_rows_perm l : Permutation (sort_rows l) l.
Proof. induction l as [|x t IH]; cbn; [reflexivity|]. unfold IMV.sort_rows in IH. rewrite insert_row_perm, IH. reflexivity. Qed.

Lemma insert_row_sorted r l : StronglySorted key_le l -> StronglySorted key_le (insert_row r l).
Proof.
  induction 1 as [|x t Hs IH Hall]; cbn [IMV.insert_row]; [constructor; constructor|].
  destruct (sort_key r <=? sort_key x) eqn:E.
  - constructor; [constructor; assumption|]. constructor; [unfold key_le; lia|].
    eapply Forall_impl; [|exact Hall]. unfold key_le. intros; lia.
  - constructor; [exact IH|]. apply Forall_forall. intros y Hy.
    apply (Permutation_in _ (insert_row_perm r t)) in Hy. destruct Hy as [<-|Hy].
    + unfold key_le. lia.
    + eapply Forall_forall in Hall; [exact Hall|exact Hy].
Qed.
Lemma sort_rows_sorted l : StronglySorted key_le (sort_rows l).
Proof. induction l as [|x t IH]; cbn; [constructor|]. apply insert_row_sorted. exact IH. Qed.

(* a sorted permutation of a strictly sorted list is that list *)
Lemma sorted_perm_unique target : StronglySorted key_lt target ->
  forall s, StronglySorted key_le s -> Permutation s target -> s = target.
Proof.
  induction 1 as [|t tt Hs IH Hall]; intros s Hss Hp.
  - apply Permutation_nil. symmetry. exact Hp.
  - destruct s as [|x s']; [apply Permutation_nil in Hp; discriminate|].
    inversion Hss as [|? ? Hss' Hx]; subst.
    assert (x = t).
    { assert (Hxin : In x (t :: tt)) by (eapply Permutation_in; [exact Hp|left; reflexivity]).
      destruct Hxin as [->|Hxin]; [reflexivity|].
      eapply Forall_forall in Hall; [|exact Hxin]. unfold key_lt in Hall.
      assert (Htin : In t (x :: s')) by (eapply Permutation_in; [symmetry; exact Hp|left; reflexivity]).
      destruct Htin as [->|Htin]; [reflexivity|].
      eapply Forall_forall in Hx; [|exact Htin]. unfold key_le in Hx. lia. }
    subst x. f_equal. apply IH; [exact Hss'|]. eapply Permutation_cons_inv. exact Hp.
Qed.

Theorem sort_rows_restores target rows : StronglySorted key_lt target -> Permutation target rows ->
  sort_rows rows = target.
Proof.
  intros Hs Hp. apply sorted_perm_unique; [exact Hs|apply sort_rows_sorted|].
  rewrite sort_rows_perm. symmetry. exact Hp.
Qed.

(* ---------------- the sentinel dictionary ---------------- *)
Lemma key_eqb_refl k : key_eqb k k = true.
Proof. apply key_eqb_spec. reflexivity. Qed.

Lemma dict_get_some k rows r : dict_get k rows = Some r -> In r rows /\ sent_of_row r = k.
Proof.
  induction rows as [|x t IH]; cbn [IMV.dict_get]; [discriminate|].
  destruct (dict_get k t) eqn:E.
  - intros H; inversion H; subst. destruct (IH eq_refl). split; [right; assumption|assumption].
  - destruct (key_eqb (sent_of_row x) k) eqn:E2; [|discriminate].
    intros H; inversion H; subst. split; [left; reflexivity|apply key_eqb_spec; exact E2].
Qed.
Lemma dict_get_none k rows : (forall y, In y rows -> sent_of_row y <> k) -> dict_get k rows = None.
Proof.
  induction rows as [|x t IH]; intros H; cbn [IMV.dict_get]; [reflexivity|].
  rewrite IH by (intros y Hy; apply H; right; exact Hy).
  destruct (key_eqb (sent_of_row x) k) eqn:E; [|reflexivity].
  apply key_eqb_spec in E. exfalso. apply (H x); [left; reflexivity|exact E].
Qed.
Lemma dict_get_own rows r : NoDup (map sent_of_row rows) -> In r rows -> dict_get (sent_of_row r) rows = Some r.
Proof.
  induction rows as [|x t IH]; intros Hn Hin; [destruct Hin|]. cbn [map] in Hn. inversion Hn; subst.
  cbn [IMV.dict_get]. destruct Hin as [->|Hin].
  - rewrite dict_get_none.
    + rewrite key_eqb_refl. reflexivity.
    + intros y Hy Heq. apply H1. rewrite <- Heq. apply in_map. exact Hy.
  - rewrite IH by assumption. reflexivity.
Qed.

Lemma existsb_key_in k ks : existsb (key_eqb k) ks = true <-> In k ks.
Proof.
  rewrite existsb_exists. split.
  - intros (x & Hx & E). apply key_eqb_spec in E. subst. exact Hx.
  - intros H. exists k. split; [exact H|apply key_eqb_refl].
Qed.
Lemma distinct_keys_nodup ks : NoDup ks -> distinct_keys key_eqb ks = ks.
Proof.
  induction 1 as [|k t Hnin Hn IH]; cbn [distinct_keys]; [reflexivity|].
  destruct (existsb (key_eqb k) t) eqn:E.
  - apply existsb_key_in in E. contradiction.
  - rewrite IH. reflexivity.
Qed.

(* soundness, whatever the database returned: a successful match puts behind the n-th parameter
   set a fetched row that carries that parameter set's sentinel *)
Lemma lookup_all_sound keys rows out : lookup_all keys rows = Some out ->
  map sent_of_row out = keys /\ incl out rows.
Proof.
  revert out. induction keys as [|k t IH]; intros out; cbn [IMV.lookup_all].
  - intros H; inversion H; subst. split; [reflexivity|intros x []].
  - destruct (dict_get k rows) eqn:E; [|discriminate]. destruct (lookup_all t rows) eqn:E2; [|discriminate].
    intros H; inversion H; subst. destruct (IH _ eq_refl) as [H1 H2]. destruct (dict_get_some _ _ _ E) as [H3 H4].
    split; [cbn; rewrite H1, H4; reflexivity|]. intros x [<-|Hx]; [exact H3|apply H2; exact Hx].
Qed.

Section WithRows.
Variable row_of : P -> R.    (* the row the database produces for a parameter set *)
Hypothesis row_sentinel : forall p, sent_of_row (row_of p) = sent_of_param p.

Lemma lookup_all_complete items rows : NoDup (map sent_of_param items) -> Permutation (map row_of items) rows ->
  forall sub, incl sub items -> lookup_all (map sent_of_param sub) rows = Some (map row_of sub).
Proof.
  intros Hn Hp.
  assert (Hn' : NoDup (map sent_of_row rows)).
  { eapply Permutation_NoDup; [apply Permutation_map; exact Hp|].
    rewrite map_map. erewrite map_ext; [exact Hn|]. intros a. apply row_sentinel. }
  induction sub as [|p t IH]; intros Hi; [reflexivity|]. cbn [map IMV.lookup_all].
  rewrite <- row_sentinel. rewrite dict_get_own; [|exact Hn'|].
  - rewrite IH; [reflexivity|]. intros x Hx. apply Hi. right. exact Hx.
  - eapply Permutation_in; [exact Hp|]. apply in_map. apply Hi. left. reflexivity.
Qed.

Lemma dict_len_complete items rows : NoDup (map sent_of_param items) -> Permutation (map row_of items) rows ->
  dict_len rows = length items.
Proof.
  intros Hn Hp. unfold IMV.dict_len.
  assert (Hn' : NoDup (map sent_of_row rows)).
  { eapply Permutation_NoDup; [apply Permutation_map; exact Hp|].
    rewrite map_map. erewrite map_ext; [exact Hn|]. intros a. apply row_sentinel. }
  rewrite distinct_keys_nodup by exact Hn'. rewrite map_length.
  rewrite <- (Permutation_length Hp), map_length. reflexivity.
Qed.
End WithRows.

(* ---------------- merge_rows, branch by branch ---------------- *)
Lemma merge_passthrough c (b : batch P) rows :
  c_num_sentinel c = 0 \/ b_downgraded b = true -> merge_rows c b rows = Ok rows.
Proof.
  intros H. unfold IMV.merge_rows, merge_guard, composite_sentinel, rowcount_differs, truthy. destruct H as [->| ->]; [reflexivity|].
  rewrite andb_false_r. reflexivity.
Qed.

Lemma merge_implicit c (b : batch P) rows : c_num_sentinel c = 1 -> b_downgraded b = false ->
  c_implicit c = true -> merge_rows c b rows = Ok (sort_rows rows).
Proof. intros H1 H2 H3. unfold IMV.merge_rows, merge_guard, composite_sentinel, rowcount_differs, truthy. rewrite H1, H2, H3. reflexivity. Qed.

Lemma merge_implicit_composite c (b : batch P) rows : 1 < c_num_sentinel c -> b_downgraded b = false ->
  c_implicit c = true -> merge_rows c b rows = Raise AssertionError.
Proof.
  intros H1 H2 H3. unfold IMV.merge_rows, merge_guard, composite_sentinel, rowcount_differs, truthy. rewrite H2, H3.
  destruct (c_num_sentinel c =? 0) eqn:E; [lia|]. cbn [negb andb].
  destruct (c_num_sentinel c >? 1) eqn:E2; [reflexivity|lia].
Qed.

(* sentinel columns were selected but no client-side value reaches them and the dialect has no
   implicit sentinel support: `assert imv.sentinel_param_keys` *)
Lemma merge_no_keys c (b : batch P) rows : c_num_sentinel c <> 0 -> b_downgraded b = false ->
  c_implicit c = false -> c_has_keys c = false -> merge_rows c b rows = Raise AssertionError.
Proof.
  intros H1 H2 H3 H4. unfold IMV.merge_rows, merge_guard, composite_sentinel, rowcount_differs, truthy. rewrite H2, H3, H4.
  destruct (c_num_sentinel c =? 0) eqn:E; [lia|]. reflexivity.
Qed.

Lemma merge_explicit_sound c (b : batch P) rows out : c_num_sentinel c <> 0 -> b_downgraded b = false ->
  c_implicit c = false -> merge_rows c b rows = Ok out ->
  map sent_of_row out = map sent_of_param (b_items b) /\ incl out rows /\ length out = length (b_items b).
Proof.
  intros H1 H2 H3. unfold IMV.merge_rows, merge_guard, composite_sentinel, rowcount_differs, truthy. rewrite H2, H3.
  destruct (c_num_sentinel c =? 0) eqn:E; [lia|]. cbn [negb andb].
  destruct (c_has_keys c); cbn [negb]; [|discriminate].
  destruct (Nat.eqb (dict_len rows) (length (b_items b))); cbn [negb]; [|discriminate].
  destruct (lookup_all (map sent_of_param (b_items b)) rows) eqn:E2; [|discriminate].
  intros H; inversion H; subst. destruct (lookup_all_sound _ _ _ E2) as [Ha Hb].
  split; [exact Ha|]. split; [exact Hb|].
  rewrite <- (map_length sent_of_row), Ha, map_length. reflexivity.
Qed.

Lemma merge_explicit_complete c (b : batch P) rows (row_of : P -> R) :
  (forall p, sent_of_row (row_of p) = sent_of_param p) ->
  c_num_sentinel c <> 0 -> b_downgraded b = false -> c_implicit c = false -> c_has_keys c = true ->
  NoDup (map sent_of_param (b_items b)) -> Permutation (map row_of (b_items b)) rows ->
  merge_rows c b rows = Ok (map row_of (b_items b)).
Proof.
  intros Hrs H1 H2 H3 H4 Hn Hp. unfold IMV.merge_rows, merge_guard, composite_sentinel, rowcount_differs, truthy. rewrite H2, H3, H4.
  destruct (c_num_sentinel c =? 0) eqn:E; [lia|]. cbn [negb andb].
  rewrite (dict_len_complete row_of Hrs _ _ Hn Hp), Nat.eqb_refl. cbn [negb].
  rewrite (lookup_all_complete row_of Hrs _ _ Hn Hp _ (incl_refl _)). reflexivity.
Qed.

(* the two guards *)
Lemma merge_rowcount_guard c (b : batch P) rows : c_num_sentinel c <> 0 -> b_downgraded b = false ->
  c_implicit c = false -> c_has_keys c = true -> dict_len rows <> length (b_items b) ->
  merge_rows c b rows = Raise RowCountMismatch.
Proof.
  intros H1 H2 H3 H4 H5. unfold IMV.merge_rows, merge_guard, composite_sentinel, rowcount_differs, truthy. rewrite H2, H3, H4.
  destruct (c_num_sentinel c =? 0) eqn:E; [lia|]. cbn [negb andb].
  destruct (Nat.eqb (dict_len rows) (length (b_items b))) eqn:E2; [apply Nat.eqb_eq in E2; contradiction|reflexivity].
Qed.
Lemma merge_keyerror_guard c (b : batch P) rows p : c_num_sentinel c <> 0 -> b_downgraded b = false ->
  c_implicit c = false -> c_has_keys c = true -> dict_len rows = length (b_items b) ->
  In p (b_items b) -> (forall r, In r rows -> sent_of_row r <> sent_of_param p) ->
  merge_rows c b rows = Raise SentinelKeyError.
Proof.
  intros H1 H2 H3 H4 H5 Hin Hno. unfold IMV.merge_rows, merge_guard, composite_sentinel, rowcount_differs, truthy. rewrite H2, H3, H4.
  destruct (c_num_sentinel c =? 0) eqn:E; [lia|]. cbn [negb andb].
  rewrite H5, Nat.eqb_refl. cbn [negb].
  destruct (lookup_all (map sent_of_param (b_items b)) rows) eqn:E2; [|reflexivity].
  exfalso. destruct (lookup_all_sound _ _ _ E2) as [Ha Hb].
  apply (in_map sent_of_param) in Hin. rewrite <- Ha in Hin. apply in_map_iff in Hin.
  destruct Hin as (r & Hr & Hrin). apply (Hno r); [apply Hb; exact Hrin|exact Hr].
Qed.
End MergeProofs.
