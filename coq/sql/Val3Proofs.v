(* Lemmas about three-valued logic (Val3.v). *)
From Coq Require Import List ZArith NArith Bool.
Import ListNotations.
From SAV.sql Require Import Val3.

Lemma and3_comm a b : and3 a b = and3 b a.
Proof. destruct a, b; reflexivity. Qed.
Lemma or3_comm a b : or3 a b = or3 b a.
Proof. destruct a, b; reflexivity. Qed.
Lemma and3_assoc a b c : and3 a (and3 b c) = and3 (and3 a b) c.
Proof. destruct a, b, c; reflexivity. Qed.
Lemma or3_assoc a b c : or3 a (or3 b c) = or3 (or3 a b) c.
Proof. destruct a, b, c; reflexivity. Qed.
Lemma not3_invol a : not3 (not3 a) = a.
Proof. destruct a; reflexivity. Qed.
Lemma not3_and3 a b : not3 (and3 a b) = or3 (not3 a) (not3 b).
Proof. destruct a, b; reflexivity. Qed.
Lemma not3_or3 a b : not3 (or3 a b) = and3 (not3 a) (not3 b).
Proof. destruct a, b; reflexivity. Qed.
Lemma and3_TT_l a : and3 TT a = a.
Proof. destruct a; reflexivity. Qed.
Lemma and3_TT_r a : and3 a TT = a.
Proof. destruct a; reflexivity. Qed.
Lemma and3_TF_r a : and3 a TF = TF.
Proof. destruct a; reflexivity. Qed.
Lemma or3_TF_l a : or3 TF a = a.
Proof. destruct a; reflexivity. Qed.
Lemma or3_TF_r a : or3 a TF = a.
Proof. destruct a; reflexivity. Qed.
Lemma or3_TT_r a : or3 a TT = TT.
Proof. destruct a; reflexivity. Qed.

Lemma text_eqb_refl s : text_eqb s s = true.
Proof. induction s as [|x s IH]; cbn [text_eqb]; [reflexivity|]. now rewrite N.eqb_refl, IH. Qed.
Lemma text_eqb_eq a b : text_eqb a b = true <-> a = b.
Proof.
  revert b; induction a as [|x a IH]; intros [|y b]; cbn [text_eqb]; split; intro H; try reflexivity; try discriminate.
  - apply andb_true_iff in H as [H1 H2]. apply N.eqb_eq in H1. apply IH in H2. now subst.
  - inversion H; subst. now rewrite N.eqb_refl, text_eqb_refl.
Qed.

(* NULL on either side makes "=" unknown, never true or false *)
Lemma eq3_null_l b : eq3 SNull b = TU.
Proof. reflexivity. Qed.
Lemma eq3_null_r a : eq3 a SNull = TU.
Proof. destruct a; reflexivity. Qed.

Lemma and3_list_app l1 l2 : and3_list (l1 ++ l2) = and3 (and3_list l1) (and3_list l2).
Proof.
  unfold and3_list. induction l1 as [|a l1 IH]; cbn [app fold_right].
  - now rewrite and3_TT_l.
  - now rewrite IH, and3_assoc.
Qed.
