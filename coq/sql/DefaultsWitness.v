(* C13 - concrete tables and parameter sets used by the Examples and the _refuted theorems of props/C13.v *)
From Coq Require Import List ZArith Bool.
Import ListNotations.
From SAV.sql Require Import Defaults.
Open Scope Z_scope.

(* sample callables: the n-th call of f returns 1000(f+1)+n; the context callable adds the row's id *)
Definition w_cval (f n : nat) : Z := 1000 * (Z.of_nat f + 1) + Z.of_nat n.
Definition w_ctxval (f : nat) (p : pset) (n : nat) : Z :=
  50000 * (Z.of_nat f + 1) + Z.of_nat n + match get O p with Some (Some z) => z | _ => 0 end.
Definition w_sqlval (e : nat) : Z := 3000 + Z.of_nat e.
Definition w_srvval (e : nat) : Z := 4000 + Z.of_nat e.

Definition w_exec := core_exec w_cval w_ctxval w_sqlval w_srvval.

(* id, a (scalar 101), b (callable 2), c (context callable 3), d (SQL 4), e (server 5), f (no default) *)
Definition w_cols : list col :=
  [ {| ckey := 0; cdef := NoDefault |}; {| ckey := 1; cdef := Scalar 101 |}; {| ckey := 2; cdef := Callable 2 |};
    {| ckey := 3; cdef := CtxCallable 3 |}; {| ckey := 4; cdef := SqlExpr 4 |}; {| ckey := 5; cdef := ServerSide 5 |};
    {| ckey := 6; cdef := NoDefault |} ].
(* [{"id": 4}, {"id": 5, "a": 2, "b": 5}] *)
Definition w_p4 : pset := [(0%nat, Some 4)].
Definition w_p5 : pset := [(0%nat, Some 5); (1%nat, Some 2); (2%nat, Some 5)].
(* homogeneous: a supplied (None in the second row), the rest omitted *)
Definition w_h1 : pset := [(0%nat, Some 7); (1%nat, Some 9)].
Definition w_h2 : pset := [(0%nat, Some 8); (1%nat, None)].
(* ORM: Obj(id=5, a=None, f=None) *)
Definition w_attrs : pset := [(0%nat, Some 5); (1%nat, None); (6%nat, None)].

(* insert(t).values([{"id":5}, {"id":6, "a":None, "e":7, "f":8}, {"id":7}]) *)
Definition w_m0 : pset := [(0%nat, Some 5)].
Definition w_m1 : pset := [(0%nat, Some 6); (1%nat, None); (5%nat, Some 7); (6%nat, Some 8)].
Definition w_m2 : pset := [(0%nat, Some 7)].
Definition w_noctx : list col := filter (fun c => match cdef c with CtxCallable _ => false | _ => true end) w_cols.
(* update(t).ordered_values((f, 9), (a, None)) on the row with id 1 *)
Definition w_order : list nat := [6%nat; 1%nat].
Definition w_ord_p : pset := [(0%nat, Some 1); (6%nat, Some 9); (1%nat, None)].
Definition w_old : pset := [(0%nat, Some 1); (1%nat, Some 10); (2%nat, Some 20); (3%nat, Some 30); (4%nat, Some 40);
                            (5%nat, Some 50); (6%nat, Some 60)].
