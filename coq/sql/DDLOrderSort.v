(* C14 - what sort_tables_and_constraints returns: the final candidate sort is a topological sort of
   the fixed edges plus the mutable edges that survived; it fails a second time exactly when there is a
   cycle of fixed edges and edges that no removable constraint covers *)
From Coq Require Import List NArith Bool Lia Permutation.
Import ListNotations.
From SAV.util Require Import Topo Cycles TopoProofs TopoCycle TopoExtra CyclesSound CyclesComplete CyclesExact.
From SAV.sql Require Import DDLOrder DDLOrderBase.

Section SortSpec.
Variable filt : fk -> option bool.
Variable tables : list table.

Definition E0 : list edge := fixed tables ++ mutable0 filt tables.

(* edges of constraints that cannot be taken out: no removable constraint of the table refers to the
   same table *)
Definition unremovable (t : table) (f : fk) : bool :=
  dep_fk filt t f && negb (existsb (fun f' => N.eqb (fk_ref f') (fk_ref f)) (can_remove filt t)).
Definition stuck_edges : list edge :=
  flat_map (fun t => map (fk_edge t) (filter (unremovable t) (t_fks t))) tables.

Lemma In_stuck e : In e stuck_edges <->
  exists t f, In t tables /\ In f (t_fks t) /\ unremovable t f = true /\ e = fk_edge t f.
Proof. unfold stuck_edges. rewrite in_flat_map. split.
  - intros [t [Ht H]]. apply in_map_iff in H. destruct H as [f [<- Hf]]. apply filter_In in Hf. exists t, f. tauto.
  - intros [t [f [Ht [Hf [Hu ->]]]]]. exists t. split; [exact Ht|]. apply in_map_iff. exists f.
    split; [reflexivity|]. apply filter_In. tauto. Qed.

Lemma stuck_in_mutable1 cyc : incl stuck_edges (mutable1 filt tables cyc).
Proof. intros e H. apply In_stuck in H. destruct H as [t [f [Ht [Hf [Hu ->]]]]].
  unfold unremovable in Hu. apply andb_true_iff in Hu. destruct Hu as [Hd Hn]. apply negb_true_iff in Hn.
  apply In_mutable1. exists t, f. repeat split; try assumption. unfold discarded. rewrite Hn. apply andb_false_r. Qed.

Lemma E1_incl_E0 cyc : incl (fixed tables ++ mutable1 filt tables cyc) E0.
Proof. unfold E0. intros e H. apply in_app_or in H. apply in_or_app. destruct H as [H|H]; [left; exact H|right].
  apply (mutable1_incl filt tables cyc), H. Qed.

Theorem stc_never_fuel : sort_tables_and_constraints filt tables <> OutOfFuel.
Proof. unfold sort_tables_and_constraints.
  destruct (sort (fixed tables ++ mutable0 filt tables) (names tables)) eqn:S1; try discriminate.
  - destruct (cycles_of_exact (fixed tables ++ mutable0 filt tables)) as [cyc [-> _]].
    destruct (sort (fixed tables ++ mutable1 filt tables cyc) (names tables)) eqn:S2; try discriminate.
    exfalso. exact (sort_never_out_of_fuel _ _ S2).
  - exfalso. exact (sort_never_out_of_fuel _ _ S1). Qed.

Theorem stc_ok o cyc w : sort_tables_and_constraints filt tables = Ok (o, cyc, w) ->
  sort (fixed tables ++ mutable1 filt tables cyc) (names tables) = Ok o /\
  (forall x, In x cyc -> on_cycle E0 x) /\
  (w = false -> cyc = [] /\ sort E0 (names tables) = Ok o) /\
  (w = true -> sort E0 (names tables) = Circular /\ forall x, on_cycle E0 x -> In x cyc).
Proof. unfold sort_tables_and_constraints, E0.
  destruct (sort (fixed tables ++ mutable0 filt tables) (names tables)) eqn:S1; try discriminate.
  - intros H; inversion H; subst. rewrite mutable1_nil. split; [first [exact S1|reflexivity]|]. split; [intros x []|].
    split; [intros _; split; [reflexivity|first [exact S1|reflexivity]]|discriminate].
  - destruct (cycles_of_exact (fixed tables ++ mutable0 filt tables)) as [c [-> Hc]].
    destruct (sort (fixed tables ++ mutable1 filt tables c) (names tables)) eqn:S2; try discriminate.
    intros H; inversion H; subst. split; [exact S2|]. split; [intros x Hx; apply Hc, Hx|].
    split; [discriminate|]. intros _. split; [reflexivity|]. intros x Hx. apply Hc, Hx. Qed.

(* the sort fails for good only on a cycle of fixed and stuck edges *)
Theorem stc_circular : sort_tables_and_constraints filt tables = Circular ->
  exists w, cycle (fixed tables ++ stuck_edges) w /\ incl w (names tables).
Proof. unfold sort_tables_and_constraints.
  destruct (sort (fixed tables ++ mutable0 filt tables) (names tables)) eqn:S1; try discriminate.
  destruct (cycles_of_exact (fixed tables ++ mutable0 filt tables)) as [cyc [-> Hc]].
  destruct (sort (fixed tables ++ mutable1 filt tables cyc) (names tables)) eqn:S2; try discriminate.
  intros _. apply sort_circular_iff in S2. destruct S2 as [w [Hw Hi]]. exists w. split; [|exact Hi].
  pose proof (cycle_on_cycle _ _ (cycle_incl _ _ _ Hw (E1_incl_E0 cyc))) as Hon.
  destruct Hw as [x [m [E Hb]]]. exists x, m. split; [exact E|].
  eapply bwalk_mono; [exact Hb|]. intros y c He Hcw _. apply in_app_or in He. apply in_or_app.
  destruct He as [He|He]; [left; exact He|right].
  apply In_mutable1 in He. destruct He as [t [f [Ht [Hf [Hd [Hdis Hee]]]]]].
  apply In_stuck. exists t, f. repeat split; try assumption.
  unfold unremovable. rewrite Hd. simpl.
  assert (Hh : hit filt tables cyc t = true).
  { eapply hit_of_edge; try eassumption. apply Hc. apply Hon. inversion Hee; subst. exact Hcw. }
  unfold discarded in Hdis. rewrite Hh in Hdis. simpl in Hdis. rewrite Hdis. reflexivity. Qed.

Theorem stc_circular_conv : (exists w, cycle (fixed tables ++ stuck_edges) w /\ incl w (names tables)) ->
  sort_tables_and_constraints filt tables = Circular.
Proof. intros [w [Hw Hi]]. unfold sort_tables_and_constraints.
  assert (S1 : sort (fixed tables ++ mutable0 filt tables) (names tables) = Circular).
  { apply sort_circular_iff. exists w. split; [|exact Hi]. eapply cycle_incl; [exact Hw|].
    intros e H. apply in_app_or in H. apply in_or_app. destruct H as [H|H]; [left; exact H|right].
    apply (mutable1_incl filt tables []). apply stuck_in_mutable1, H. }
  rewrite S1. destruct (cycles_of_exact (fixed tables ++ mutable0 filt tables)) as [cyc [-> Hc]].
  assert (S2 : sort (fixed tables ++ mutable1 filt tables cyc) (names tables) = Circular).
  { apply sort_circular_iff. exists w. split; [|exact Hi]. eapply cycle_incl; [exact Hw|].
    intros e H. apply in_app_or in H. apply in_or_app. destruct H as [H|H]; [left; exact H|right].
    apply stuck_in_mutable1, H. }
  rewrite S2. reflexivity. Qed.
End SortSpec.

