(* C21 - constraint / index names: length bound, errors, per-dialect side condition *)
From Coq Require Import List NArith ZArith Bool Lia.
Import ListNotations.
From SAV.sql Require Import Trunc TruncDigits.

Local Open Scope Z_scope.

Lemma slen_app : forall a b : str, slen (a ++ b) = slen a + slen b.
Proof. intros. unfold slen. rewrite app_length. lia. Qed.
Lemma slen_nonneg : forall s, 0 <= slen s.
Proof. intros. unfold slen. lia. Qed.

(* the side condition every theorem below needs from a dialect (checked per run on the table the
   translator extracts from the dialect sources) *)
Definition dialect_ok (d : dialect) : bool :=
  (8 <=? max_for d true) && (8 <=? max_for d false)
  && (max_for d true <=? d_maxid d) && (max_for d false <=? d_maxid d).
Definition table_ok (tbl : list (N * dialect)) : bool := forallb (fun e => dialect_ok (snd e)) tbl.

(* the name goes through validate_identifier (it stays a plain str) *)
Definition plain_path (cv : option (list token)) (g : gname) : bool :=
  match g with
  | GPlain _ => match cv with Some tpl => negb (mentions_cname tpl) | None => true end
  | _ => false
  end.

Section Maxlen.
  Variable md5_hex : str -> str.
  Notation truncate_maxlen := (truncate_maxlen md5_hex).
  Notation render := (truncate_and_render_maxlen_name md5_hex).
  Notation format_constraint := (format_constraint md5_hex).
  Notation ddl_name := (ddl_name md5_hex).

  Lemma md5_tail_len : forall s, slen (slice_from (md5_hex s) md5_tail) <= 4.
  Proof. intros. unfold md5_tail. rewrite slice_from_len_neg by lia. lia. Qed.

  (* for every md5 function: a truncated name fits *)
  Lemma truncate_maxlen_bounded : forall name max_, 8 <= max_ -> slen (truncate_maxlen name max_) <= max_.
  Proof.
    intros name max_ H8. unfold Trunc.truncate_maxlen, maxlen_too_long, maxlen_cut.
    destruct (slen name >? max_) eqn:E.
    - apply Z.gtb_lt in E. rewrite !slen_app, slice_to_len_nonneg by lia.
      pose proof (md5_tail_len name). unfold underscore, slen at 2. cbn [length]. lia.
    - pose proof (Zgt_cases (slen name) max_) as G. rewrite E in G. lia.
  Qed.

  (* with a digest of at least 4 characters the truncated name has exactly max_ - 3 characters *)
  Lemma truncate_maxlen_exact : forall name max_, (forall s, 4 <= slen (md5_hex s)) ->
    8 <= max_ -> max_ < slen name -> slen (truncate_maxlen name max_) = max_ - 3.
  Proof.
    intros name max_ Hm H8 Hl. unfold Trunc.truncate_maxlen, maxlen_too_long, maxlen_cut.
    destruct (slen name >? max_) eqn:E.
    - rewrite !slen_app, slice_to_len_nonneg by lia. unfold md5_tail.
      rewrite slice_from_len_neg by lia. specialize (Hm name). unfold underscore, slen at 2. cbn [length]. lia.
    - pose proof (Zgt_cases (slen name) max_) as G. rewrite E in G. lia.
  Qed.

  (* a name that fits is never altered *)
  Lemma truncate_maxlen_id : forall name max_, slen name <= max_ -> truncate_maxlen name max_ = name.
  Proof.
    intros. unfold Trunc.truncate_maxlen, maxlen_too_long. destruct (slen name >? max_) eqn:E; auto.
    apply Z.gtb_lt in E. lia.
  Qed.

  (* what survives of the name is a prefix of it *)
  Lemma truncate_maxlen_prefix : forall name max_, 8 <= max_ -> max_ < slen name ->
    exists tail, truncate_maxlen name max_ = firstn (Z.to_nat (max_ - 8)) name ++ tail.
  Proof.
    intros name max_ H8 Hl. unfold Trunc.truncate_maxlen, maxlen_too_long, maxlen_cut, slice_to.
    destruct (slen name >? max_) eqn:E.
    - destruct (max_ - 8 <? 0) eqn:F; [apply Z.ltb_lt in F; lia|]. eexists. reflexivity.
    - pose proof (Zgt_cases (slen name) max_) as G. rewrite E in G. lia.
  Qed.

  Lemma render_bounded : forall tr name max_ maxid s,
    render tr name max_ maxid = Ok s -> 8 <= max_ -> tr = true \/ maxid <= max_ -> slen s <= max_.
  Proof.
    intros tr name max_ maxid s H H8 Hg. unfold truncate_and_render_maxlen_name in H.
    destruct tr.
    - inversion H. apply truncate_maxlen_bounded. exact H8.
    - unfold ident_too_long in H. destruct (slen name >? maxid) eqn:E; [discriminate|].
      inversion H. subst. pose proof (Zgt_cases (slen s) maxid) as G. rewrite E in G.
      destruct Hg; [discriminate|lia].
  Qed.

  Lemma render_within_maxid : forall tr name max_ maxid s,
    render tr name max_ maxid = Ok s -> 8 <= max_ -> max_ <= maxid -> slen s <= maxid.
  Proof.
    intros tr name max_ maxid s H H8 Hle. destruct tr.
    - pose proof (render_bounded true name max_ maxid s H H8 (or_introl eq_refl)). lia.
    - unfold truncate_and_render_maxlen_name, ident_too_long in H.
      destruct (slen name >? maxid) eqn:E; [discriminate|]. inversion H. subst.
      pose proof (Zgt_cases (slen s) maxid) as G. rewrite E in G. lia.
  Qed.

  (* the only error is IdentifierError, raised exactly for a plain name longer than max_identifier_length *)
  Lemma render_error_iff : forall tr name max_ maxid e,
    render tr name max_ maxid = Raise e <-> (tr = false /\ maxid < slen name /\ e = IdentifierError).
  Proof.
    intros. unfold truncate_and_render_maxlen_name, ident_too_long. destruct tr.
    - split; [discriminate|intros (H & _); discriminate].
    - destruct (slen name >? maxid) eqn:E.
      + apply Z.gtb_lt in E. split; [intro H; inversion H; auto|intros (_ & _ & ->); reflexivity].
      + pose proof (Zgt_cases (slen name) maxid) as G. rewrite E in G.
        split; [discriminate|intros (_ & H & _); lia].
  Qed.

  Lemma render_short_id : forall tr name max_ maxid,
    slen name <= max_ -> slen name <= maxid -> render tr name max_ maxid = Ok name.
  Proof.
    intros. unfold truncate_and_render_maxlen_name, ident_too_long. destruct tr.
    - rewrite truncate_maxlen_id by assumption. reflexivity.
    - destruct (slen name >? maxid) eqn:E; auto. apply Z.gtb_lt in E. lia.
  Qed.

  (* ---- the whole DDL pipeline ---- *)
  Lemma dialect_ok_spec : forall d, dialect_ok d = true -> forall ix,
    8 <= max_for d ix /\ max_for d ix <= d_maxid d.
  Proof.
    intros d H ix. unfold dialect_ok in H. rewrite !andb_true_iff, !Z.leb_le in H. destruct ix; lia.
  Qed.

  Lemma format_constraint_cases : forall d ix cv g env s,
    format_constraint d ix cv g env = Ok (Some s) ->
    exists tr nm, render tr nm (max_for d ix) (d_maxid d) = Ok s
                  /\ (tr = false -> g = GPlain nm).
  Proof.
    intros d ix cv g env s H. unfold Trunc.format_constraint in H. destruct g.
    - discriminate.
    - destruct (constraint_name_for_table cv GNoneName env) as [[nm|]|]; try discriminate.
      destruct (render true nm _ _) eqn:E; try discriminate. inversion H; subst.
      exists true, nm. split; [exact E|discriminate].
    - destruct (render false s0 _ _) eqn:E; try discriminate. inversion H; subst.
      exists false, s0. split; [exact E|reflexivity].
    - destruct (render true s0 _ _) eqn:E; try discriminate. inversion H; subst.
      exists true, s0. split; [exact E|discriminate].
  Qed.

  Lemma attach_plain : forall cv g env p, attach_name cv g env = Ok (GPlain p) ->
    g = GPlain p /\ plain_path cv g = true.
  Proof.
    intros cv g env p H. unfold attach_name in H. destruct g; try discriminate.
    - (* GNone *)
      unfold constraint_name_for_table in H. destruct cv as [tpl|]; [|discriminate].
      cbn [orb] in H. destruct (expand GNone env tpl); discriminate.
    - unfold constraint_name_for_table in H. destruct cv as [tpl|].
      + cbn [orb] in H. unfold plain_path. destruct (mentions_cname tpl).
        * destruct (expand (GPlain s) env tpl); discriminate.
        * inversion H. auto.
      + inversion H. auto.
  Qed.

  Lemma ddl_name_cases : forall d ix cv g env s, ddl_name d ix cv g env = Ok (Some s) ->
    exists tr nm, render tr nm (max_for d ix) (d_maxid d) = Ok s
                  /\ (tr = false -> plain_path cv g = true /\ g = GPlain nm).
  Proof.
    intros d ix cv g env s H. unfold Trunc.ddl_name in H.
    destruct (attach_name cv g env) as [g'|] eqn:A; [|discriminate].
    destruct (format_constraint d ix cv g' env) as [[r|]|] eqn:F; try discriminate.
    - inversion H; subst. destruct (format_constraint_cases _ _ _ _ _ _ F) as (tr & nm & Hr & Hp).
      exists tr, nm. split; [exact Hr|]. intro Ht. rewrite (Hp Ht) in A.
      apply attach_plain in A. destruct A as (-> & A). auto.
    - destruct ix; discriminate.
  Qed.

  (* every rendered constraint / index name is within the dialect's max_identifier_length *)
  Lemma ddl_name_within_maxid : forall d ix cv g env s, dialect_ok d = true ->
    ddl_name d ix cv g env = Ok (Some s) -> slen s <= d_maxid d.
  Proof.
    intros d ix cv g env s Hd H. destruct (ddl_name_cases _ _ _ _ _ _ H) as (tr & nm & Hr & _).
    destruct (dialect_ok_spec d Hd ix). eapply render_within_maxid; eauto.
  Qed.

  (* ... and within the more specific max_index_name_length / max_constraint_name_length unless it is a
     user-given plain name on a dialect whose specific limit is below max_identifier_length *)
  Definition specific_guard (d : dialect) (ix : bool) (cv : option (list token)) (g : gname) : bool :=
    negb (plain_path cv g) || (d_maxid d <=? max_for d ix)
    || match g with GPlain p => slen p <=? max_for d ix | _ => true end.

  Lemma ddl_name_within_specific : forall d ix cv g env s, dialect_ok d = true ->
    specific_guard d ix cv g = true ->
    ddl_name d ix cv g env = Ok (Some s) -> slen s <= max_for d ix.
  Proof.
    intros d ix cv g env s Hd Hg H. destruct (ddl_name_cases _ _ _ _ _ _ H) as (tr & nm & Hr & Hp).
    destruct (dialect_ok_spec d Hd ix).
    unfold specific_guard in Hg. rewrite !orb_true_iff in Hg. destruct Hg as [[Hg|Hg]|Hg].
    - eapply render_bounded; eauto. left. destruct tr; auto. destruct (Hp eq_refl) as (Hpp & _).
      rewrite Hpp in Hg. discriminate.
    - eapply render_bounded; eauto. right. apply Z.leb_le in Hg. exact Hg.
    - destruct tr.
      + eapply render_bounded; eauto.
      + destruct (Hp eq_refl) as (_ & ->). apply Z.leb_le in Hg.
        unfold truncate_and_render_maxlen_name in Hr. destruct (ident_too_long (slen nm) (d_maxid d)); [discriminate|].
        inversion Hr; subst. exact Hg.
  Qed.

  (* the guard excludes exactly the defective region *)
  Lemma specific_guard_exact : forall d ix cv p env, dialect_ok d = true ->
    specific_guard d ix cv (GPlain p) = false -> slen p <= d_maxid d ->
    ddl_name d ix cv (GPlain p) env = Ok (Some p) /\ max_for d ix < slen p.
  Proof.
    intros d ix cv p env Hd Hg Hl. unfold specific_guard in Hg. rewrite !orb_false_iff in Hg.
    destruct Hg as ((Hp & _) & Hs). apply negb_false_iff in Hp. apply Z.leb_gt in Hs. split; [|exact Hs].
    unfold Trunc.ddl_name, attach_name, constraint_name_for_table. unfold plain_path in Hp.
    assert (A : (match cv with
                 | Some tpl => if false || mentions_cname tpl
                               then match expand (GPlain p) env tpl with Raise e => Raise e | Ok s => Ok (Some s) end
                               else Ok None
                 | None => Ok None end) = Ok None).
    { destruct cv as [tpl|]; [|reflexivity]. apply negb_true_iff in Hp. cbn [orb]. rewrite Hp. reflexivity. }
    rewrite A. unfold Trunc.format_constraint, truncate_and_render_maxlen_name, ident_too_long.
    destruct (slen p >? d_maxid d) eqn:E; [apply Z.gtb_lt in E; lia|]. reflexivity.
  Qed.

  (* the errors of the pipeline are the documented ones, with their causes *)
  Lemma ddl_name_errors : forall d ix cv g env e, ddl_name d ix cv g env = Raise e ->
    (e = IdentifierError /\ plain_path cv g = true /\ exists p, g = GPlain p /\ d_maxid d < slen p)
    \/ (e = InvalidRequestError /\ exists tpl, cv = Some tpl /\ mentions_cname tpl = true
                                               /\ (g = GNone \/ g = GNoneName))
    \/ (e = CompileError /\ ix = true).
  Proof.
    assert (EX : forall g env tpl e, expand g env tpl = Raise e ->
                 e = InvalidRequestError /\ mentions_cname tpl = true /\ (g = GNone \/ g = GNoneName)).
    { intros g env. induction tpl as [|t r IH]; intros e H; cbn [expand] in H; [discriminate|].
      destruct (expand_token g env t) eqn:T.
      - destruct (expand g env r) eqn:R; [discriminate|]. inversion H; subst.
        destruct (IH _ eq_refl) as (? & ? & ?). repeat split; auto.
        unfold mentions_cname in *. cbn [existsb]. rewrite H1. apply orb_true_r.
      - inversion H; subst. destruct t; cbn in T; try discriminate.
        destruct g; try discriminate; inversion T; repeat split; auto. }
    assert (CN : forall cv g env e, constraint_name_for_table cv g env = Raise e ->
                 e = InvalidRequestError /\ exists tpl, cv = Some tpl /\ mentions_cname tpl = true
                                                        /\ (g = GNone \/ g = GNoneName)).
    { intros cv g env e H. unfold constraint_name_for_table in H.
      destruct g; try discriminate; destruct cv as [tpl|]; try discriminate;
      match type of H with context [if ?c then _ else _] => destruct c end; try discriminate;
      destruct (expand _ env tpl) eqn:X; try discriminate; inversion H; subst;
      destruct (EX _ _ _ _ X) as (? & ? & ?); split; auto; exists tpl; auto. }
    intros d ix cv g env e H. unfold Trunc.ddl_name in H.
    destruct (attach_name cv g env) as [g'|e1] eqn:A.
    - destruct (format_constraint d ix cv g' env) as [[r|]|e2] eqn:F; try discriminate.
      + destruct ix; [|discriminate]. inversion H. right. right. auto.
      + inversion H; subst. unfold Trunc.format_constraint in F. destruct g'.
        * discriminate.
        * (* GNoneName: attach returns it unchanged *)
          assert (g = GNoneName).
          { unfold attach_name in A. destruct g; try (inversion A; reflexivity);
            destruct (constraint_name_for_table cv _ env) as [[?|]|]; discriminate. }
          subst. destruct (constraint_name_for_table cv GNoneName env) as [[nm|]|e3] eqn:C; try discriminate.
          inversion F; subst. destruct (CN _ _ _ _ C) as (-> & tpl & ? & ? & ?). right. left.
          split; auto. exists tpl. auto.
        * destruct (render false s _ _) eqn:R; [discriminate|]. inversion F; subst.
          apply render_error_iff in R. destruct R as (_ & Hl & ->).
          apply attach_plain in A. destruct A as (-> & Hp). left. repeat split; auto. eauto.
        * destruct (render true s _ _) eqn:R; [discriminate|]. apply render_error_iff in R.
          destruct R as (R & _). discriminate.
    - inversion H; subst. unfold attach_name in A. destruct g; try discriminate.
      + destruct (constraint_name_for_table cv GNone env) as [[?|]|e3] eqn:C; try discriminate.
        inversion A; subst. destruct (CN _ _ _ _ C) as (-> & tpl & ? & ? & ?). right. left.
        split; auto. exists tpl. auto.
      + destruct (constraint_name_for_table cv (GPlain s) env) as [[?|]|e3] eqn:C; try discriminate.
        inversion A; subst. destruct (CN _ _ _ _ C) as (-> & tpl & ? & ? & [?|?]); discriminate.
  Qed.

  (* table form: the reflective check on the translated dialect table implies the bound for every
     dialect in it *)
  Lemma table_within_maxid : forall tbl, table_ok tbl = true ->
    forall id d, In (id, d) tbl -> forall ix cv g env s,
    ddl_name d ix cv g env = Ok (Some s) -> slen s <= d_maxid d.
  Proof.
    intros tbl Ht id d Hin ix cv g env s H. unfold table_ok in Ht. rewrite forallb_forall in Ht.
    apply (ddl_name_within_maxid d ix cv g env s); auto. apply (Ht (id, d) Hin).
  Qed.
  Lemma table_within_specific : forall tbl, table_ok tbl = true ->
    forall id d, In (id, d) tbl -> forall ix cv g env s, specific_guard d ix cv g = true ->
    ddl_name d ix cv g env = Ok (Some s) -> slen s <= max_for d ix.
  Proof.
    intros tbl Ht id d Hin ix cv g env s Hg H. unfold table_ok in Ht. rewrite forallb_forall in Ht.
    apply (ddl_name_within_specific d ix cv g env s); auto. apply (Ht (id, d) Hin).
  Qed.

  (* determinism: the name of a constraint does not depend on what was compiled before it, nor on the
     order in which a set of constraints is compiled (the model function has no state to depend on;
     that the implementation has none either is what the correspondence checks) *)
  Definition ddl_names (d : dialect) (l : list (bool * option (list token) * gname * cenv))
    : list (result (option str)) :=
    map (fun c => match c with (ix, cv, g, env) => ddl_name d ix cv g env end) l.
  Lemma ddl_names_order_independent : forall d pre post ix cv g env,
    nth (length pre) (ddl_names d (pre ++ (ix, cv, g, env) :: post)) (Raise CompileError)
    = ddl_name d ix cv g env.
  Proof.
    intros. unfold ddl_names. rewrite map_app. rewrite app_nth2; rewrite map_length; [|lia].
    rewrite Nat.sub_diag. reflexivity.
  Qed.
End Maxlen.
