(* C17 - proofs: under the guard every construction equals the directly built statement *)
From Coq Require Import List NArith ZArith Bool Lia.
Import ListNotations.
From SAV.sql Require Import Lambda LambdaBase.

Definition is_none (v : val) : bool := match v with VNone => true | _ => false end.

(* ---------------- the guard ---------------- *)
(* static, on the body of a lambda: function cells are not also used as values, no Python-level test of a cell's
   truth value (handled by a separate lemma / refutation) *)
Definition fn_cell_ok (us : list use) (u : use) : bool :=
  match u with
  | UCall i | UCallArg i _ => negb (has_param us i)
  | UIf _ _ _ _ _ => false
  | _ => true
  end.
Definition safe_body (us : list use) : bool := forallb (fn_cell_ok us) us.

(* dynamic, on the closure values of one construction: no None where None-ness changes the SQL structure,
   helper functions called without arguments have no closure of their own *)
Definition safe_use (e : list val) (u : use) : bool :=
  match u with
  | UCmp _ _ _ i | ULimit i => negb (is_none (cell e i))
  | UTabCmp _ _ _ j | UCallArg _ j => negb (is_none (cell e j))
  | UCall i => match cell e i with VFun _ (_ :: _) => false | _ => true end
  | UIndex _ _ _ i k => match cell e i with
                        | VList l => Nat.ltb k (length l) && negb (is_none (nth k l VNone))
                        | _ => true
                        end
  | _ => true
  end.
Definition safe_env (us : list use) (e : list val) : bool := forallb (safe_use e) us.

Section Proofs.
  Variable F : N -> fdesc.

  (* ---------------- filling a freshly built skeleton gives the direct statement ---------------- *)
  Lemma fill_fixed : forall e r l p, r = Ok l -> fixed r = Ok p -> fill e p = l.
  Proof.
    intros e r l p -> H. cbn in H. inversion H; subst. clear H. unfold fill. induction l as [|x l IH]; [reflexivity|].
    cbn. f_equal. exact IH.
  Qed.

  Lemma cmp_direct_ok : forall t c op v l, cmp_direct t c op v = Ok l -> is_none v = false -> l = [ICrit (CCmp t c op v)].
  Proof. intros t c op v l H Hn. destruct v; try discriminate; cbn in H; inversion H; reflexivity. Qed.

  Lemma build_fill_use : forall a e u its p,
    safe_use e u = true -> direct_use F e u = Ok its -> build_use F a e u = Ok p -> fill e p = its.
  Proof.
    intros a e u its p Hs Hd Hb. destruct u; cbn [build_use] in Hb.
    - eapply fill_fixed; eauto.
    - destruct (wrapped a i); [|eapply fill_fixed; eauto]. inversion Hb; subst. cbn in *.
      apply negb_true_iff in Hs. rewrite (cmp_direct_ok _ _ _ _ _ Hd Hs). reflexivity.
    - destruct (wrapped a i); [|eapply fill_fixed; eauto]. inversion Hb; subst. cbn in *.
      destruct (cell e i); try discriminate. destruct (forallb is_scalar l); [|discriminate]. inversion Hd. reflexivity.
    - eapply fill_fixed; eauto.
    - cbn [direct_use] in Hd. destruct (cell e i) eqn:Ei; try discriminate.
      destruct (wrapped a j).
      + inversion Hb; subst. cbn in *. apply negb_true_iff in Hs. rewrite (cmp_direct_ok _ _ _ _ _ Hd Hs). reflexivity.
      + eapply fill_fixed; [|exact Hb]. cbn [direct_use]. rewrite Ei. exact Hd.
    - eapply fill_fixed; eauto.
    - cbn [direct_use] in Hd. destruct (cell e i) eqn:Ei; try discriminate.
      destruct (wrapped a j).
      + inversion Hb; subst. cbn in *. apply negb_true_iff in Hs. rewrite (cmp_direct_ok _ _ _ _ _ Hd Hs). reflexivity.
      + eapply fill_fixed; [|exact Hb]. cbn [direct_use]. rewrite Ei. exact Hd.
    - destruct (wrapped a i); [|eapply fill_fixed; eauto]. inversion Hb; subst. cbn in *.
      destruct (cell e i); try discriminate. inversion Hd. reflexivity.
    - eapply fill_fixed; eauto.
    - destruct (wrapped a i); [|eapply fill_fixed; eauto]. cbn [direct_use] in Hd. cbn [safe_use] in Hs.
      destruct (cell e i) eqn:Ei; try discriminate.
      destruct (nth_error l k) as [v|] eqn:En; [|discriminate]. inversion Hb; subst. cbn. rewrite Ei.
      apply andb_true_iff in Hs. destruct Hs as [_ Hs]. apply negb_true_iff in Hs.
      rewrite (nth_error_nth l k VNone En) in *. rewrite (cmp_direct_ok _ _ _ _ _ Hd Hs). reflexivity.
  Qed.

  Lemma build_total_use : forall a e u its,
    direct_use F e u = Ok its -> exists p, build_use F a e u = Ok p.
  Proof.
    intros a e u its Hd. destruct u; cbn [build_use]; try (rewrite Hd; cbn; eauto; fail).
    - destruct (wrapped a i); [eauto|rewrite Hd; cbn; eauto].
    - destruct (wrapped a i); [eauto|rewrite Hd; cbn; eauto].
    - cbn [direct_use] in Hd. destruct (cell e i) eqn:Ei; try discriminate.
      destruct (wrapped a j); [eauto|]. cbn [direct_use]. rewrite Ei, Hd. cbn. eauto.
    - cbn [direct_use] in Hd. destruct (cell e i) eqn:Ei; try discriminate.
      destruct (wrapped a j); [eauto|]. cbn [direct_use]. rewrite Ei, Hd. cbn. eauto.
    - destruct (wrapped a i); [eauto|rewrite Hd; cbn; eauto].
    - destruct (wrapped a i); [|rewrite Hd; cbn; eauto]. cbn [direct_use] in Hd.
      destruct (cell e i); try discriminate. destruct (nth_error l k); [eauto|discriminate].
  Qed.

  Lemma build_fill_uses : forall a e us its,
    forallb (safe_use e) us = true -> direct_uses F e us = Ok its ->
    exists p, build_uses F a e us = Ok p /\ fill e p = its.
  Proof.
    intros a e us. induction us as [|u r IH]; intros its Hs Hd.
    - cbn in Hd. inversion Hd. exists []. split; reflexivity.
    - cbn in Hs, Hd. apply andb_true_iff in Hs. destruct Hs as [Hs1 Hs2].
      destruct (direct_use F e u) as [l1| | |] eqn:E1; try discriminate.
      destruct (direct_uses F e r) as [l2| | |] eqn:E2; try discriminate. inversion Hd; subst.
      destruct (build_total_use a e u l1 E1) as [p1 Hp1].
      destruct (IH l2 Hs2 eq_refl) as [p2 [Hp2 Hf2]].
      exists (p1 ++ p2). cbn. rewrite Hp1, Hp2. split; [reflexivity|].
      unfold fill in *. rewrite flat_map_app. f_equal; [|exact Hf2].
      exact (build_fill_use a e u l1 p1 Hs1 E1 Hp1).
  Qed.

  (* ---------------- the analysis sees only kinds ---------------- *)
  Lemma kind_nth : forall e e', map kind e = map kind e' -> forall i, kind (cell e i) = kind (cell e' i).
  Proof.
    intros e e' H i. unfold cell.
    rewrite <- (map_nth kind e VNone i), <- (map_nth kind e' VNone i), H. reflexivity.
  Qed.

  Ltac kill_list_kind H :=
    unfold kind in H;
    repeat match type of H with context [deep_is_literal (VList ?l)] => destruct (deep_is_literal (VList l)) end;
    discriminate.

  Lemma classify_kind : forall us i v v', kind v = kind v' -> classify us i v = classify us i v'.
  Proof.
    intros us i v v' H. pose proof (kind_literal _ _ H) as HL. unfold classify. rewrite <- HL.
    destruct (deep_is_literal v) eqn:E.
    - destruct (has_param us i); [reflexivity|].
      destruct v, v'; try reflexivity; try discriminate; kill_list_kind H.
    - destruct v, v'; try reflexivity; try discriminate; try (cbn in E; discriminate); kill_list_kind H.
  Qed.

  Lemma classify_cells_kind : forall us e e' k, map kind e = map kind e' -> classify_cells us k e = classify_cells us k e'.
  Proof.
    intros us. induction e as [|v r IH]; destruct e'; intros k H; try discriminate; [reflexivity|].
    cbn in H. inversion H. cbn. rewrite (kind_literal _ _ H1), (classify_kind us k _ _ H1), (IH _ _ H2). reflexivity.
  Qed.

  Lemma analyze_kind : forall us e e', map kind e = map kind e' -> analyze us e = analyze us e'.
  Proof. intros us e e' H. unfold analyze. rewrite (classify_cells_kind us e e' 0 H). reflexivity. Qed.

  Lemma classify_cells_nth : forall us e k i, i < length e ->
    nth i (classify_cells us k e) (false, Reject) = (deep_is_literal (cell e i), classify us (k + i) (cell e i)).
  Proof.
    intros us. induction e as [|v r IH]; intros k i Hi; [cbn in Hi; lia|].
    destruct i; cbn.
    - rewrite Nat.add_0_r. reflexivity.
    - cbn in Hi. rewrite (IH (S k) i ltac:(lia)). unfold cell. do 2 f_equal. lia.
  Qed.

  Lemma classify_cells_length : forall us e k, length (classify_cells us k e) = length e.
  Proof. intros us. induction e; intros; cbn; auto. Qed.

  Lemma keyparts_nth : forall a e e', length e = length a -> length e' = length a -> keyparts a e = keyparts a e' ->
    forall i, i < length a -> keypart (nth i a (false, Reject)) (cell e i) = keypart (nth i a (false, Reject)) (cell e' i).
  Proof.
    induction a as [|ci a IH]; intros e e' H1 H2 HK i Hi; [cbn in Hi; lia|].
    destruct e as [|v e]; [discriminate|]. destruct e' as [|v' e']; [discriminate|].
    cbn in HK. inversion HK. destruct i; [exact H0|]. cbn. apply IH; auto. cbn in Hi. lia.
  Qed.

  (* ---------------- cells that can influence the skeleton are in the key ---------------- *)
  Section SameKey.
    Variable us : list use.
    Variables e0 e e' : list val.
    Hypothesis K0 : map kind e = map kind e0.
    Hypothesis K0' : map kind e' = map kind e0.
    Let a := classify_cells us 0 e0.
    Hypothesis HK : keyparts a e = keyparts a e'.

    Lemma lens : length e = length a /\ length e' = length a /\ length e0 = length a.
    Proof.
      unfold a. rewrite classify_cells_length.
      assert (A : length (map kind e) = length (map kind e0)) by (rewrite K0; reflexivity).
      assert (B : length (map kind e') = length (map kind e0)) by (rewrite K0'; reflexivity).
      rewrite !map_length in A, B. auto.
    Qed.

    Lemma info_at : forall i, i < length e0 ->
      nth i a (false, Reject) = (deep_is_literal (cell e i), classify us i (cell e i)).
    Proof.
      intros i Hi. unfold a. rewrite classify_cells_nth by exact Hi. cbn [Nat.add].
      pose proof (kind_nth _ _ K0 i) as Hk. rewrite (kind_literal _ _ Hk), (classify_kind us i _ _ Hk). reflexivity.
    Qed.

    Lemma out_of_range : forall i, length e0 <= i -> cell e i = VNone /\ cell e' i = VNone /\ wrapped a i = false.
    Proof.
      intros i Hi. destruct lens as (L1 & L2 & L3). unfold cell, wrapped.
      rewrite !nth_overflow by lia. auto.
    Qed.

    (* an unwrapped (non-literal) cell is part of the key *)
    Lemma unwrapped_same : forall i, wrapped a i = false -> cell e i = cell e' i.
    Proof.
      intros i Hw. destruct (Nat.lt_ge_cases i (length e0)) as [Hi|Hi].
      - destruct lens as (L1 & L2 & L3).
        pose proof (keyparts_nth a e e' L1 L2 HK i ltac:(lia)) as Hp.
        unfold wrapped in Hw. rewrite (info_at i Hi) in Hw, Hp. cbn [fst] in Hw.
        assert (Hk' : kind (cell e' i) = kind (cell e i)).
        { rewrite (kind_nth _ _ K0' i), (kind_nth _ _ K0 i). reflexivity. }
        unfold keypart in Hp. cbn [snd] in Hp. unfold classify in Hp. rewrite Hw in Hp.
        destruct (cell e i) eqn:E; cbn in Hw; try discriminate; cbn in Hp; inversion Hp; reflexivity.
      - destruct (out_of_range i Hi) as (A & B & _). congruence.
    Qed.

    (* a function cell that is never coerced to a parameter contributes its code object to the key *)
    Lemma fun_code_same : forall i code cap, has_param us i = false -> cell e i = VFun code cap ->
      exists cap', cell e' i = VFun code cap'.
    Proof.
      intros i code cap Hp Hc. destruct (Nat.lt_ge_cases i (length e0)) as [Hi|Hi].
      - destruct lens as (L1 & L2 & L3).
        pose proof (keyparts_nth a e e' L1 L2 HK i ltac:(lia)) as Hq.
        rewrite (info_at i Hi) in Hq. unfold keypart in Hq. cbn [snd] in Hq. unfold classify in Hq.
        rewrite Hc in Hq. cbn [deep_is_literal] in Hq. rewrite Hp in Hq.
        assert (Hk' : kind (cell e' i) = kind (cell e i)).
        { rewrite (kind_nth _ _ K0' i), (kind_nth _ _ K0 i). reflexivity. }
        rewrite Hc in Hk'. destruct (cell e' i) eqn:E'; try discriminate; try (kill_list_kind Hk').
        inversion Hq. eauto.
      - destruct (out_of_range i Hi) as (A & _). congruence.
    Qed.

    Lemma wrapped_literal : forall i, wrapped a i = true -> deep_is_literal (cell e i) = true /\ deep_is_literal (cell e' i) = true.
    Proof.
      intros i Hw. destruct (Nat.lt_ge_cases i (length e0)) as [Hi|Hi].
      - unfold wrapped in Hw. rewrite (info_at i Hi) in Hw. cbn [fst] in Hw. split; [exact Hw|].
        assert (Hk' : kind (cell e' i) = kind (cell e i)).
        { rewrite (kind_nth _ _ K0' i), (kind_nth _ _ K0 i). reflexivity. }
        rewrite (kind_literal _ _ Hk'). exact Hw.
      - destruct (out_of_range i Hi) as (_ & _ & C). congruence.
    Qed.

    Lemma same_kind_cell : forall i, kind (cell e i) = kind (cell e' i).
    Proof. intros i. rewrite (kind_nth _ _ K0' i), (kind_nth _ _ K0 i). reflexivity. Qed.

    (* the skeleton a construction builds depends on its closure only through the key *)
    Lemma build_use_same_key : forall u, In u us -> fn_cell_ok us u = true -> safe_use e u = true -> safe_use e' u = true ->
      build_use F a e u = build_use F a e' u.
    Proof.
      intros u Hin Hb Hs Hs'. destruct u; cbn [build_use].
      - (* UFrom *) cbn [direct_use]. destruct (wrapped a i) eqn:W.
        + destruct (wrapped_literal i W) as [L1 L2].
          destruct (cell e i); cbn in L1; try discriminate; destruct (cell e' i); cbn in L2; try discriminate; reflexivity.
        + rewrite (unwrapped_same i W). reflexivity.
      - destruct (wrapped a i) eqn:W; [reflexivity|]. cbn [direct_use]. rewrite (unwrapped_same i W). reflexivity.
      - destruct (wrapped a i) eqn:W; [reflexivity|]. cbn [direct_use]. rewrite (unwrapped_same i W). reflexivity.
      - cbn [direct_use]. destruct (wrapped a i) eqn:W.
        + destruct (wrapped_literal i W) as [L1 L2].
          destruct (cell e i); cbn in L1; try discriminate; destruct (cell e' i); cbn in L2; try discriminate; reflexivity.
        + rewrite (unwrapped_same i W). reflexivity.
      - (* UTabCmp *) destruct (wrapped a i) eqn:W.
        + destruct (wrapped_literal i W) as [L1 L2].
          destruct (cell e i); cbn in L1; try discriminate; destruct (cell e' i); cbn in L2; try discriminate; reflexivity.
        + rewrite (unwrapped_same i W). destruct (cell e' i); try reflexivity.
          destruct (wrapped a j) eqn:Wj; [reflexivity|]. cbn [direct_use].
          rewrite (unwrapped_same i W), (unwrapped_same j Wj). reflexivity.
      - (* UCall *) cbn [direct_use]. cbn [fn_cell_ok] in Hb. apply negb_true_iff in Hb.
        destruct (cell e i) eqn:E.
        1-6: pose proof (same_kind_cell i) as Hk; rewrite E in Hk; destruct (cell e' i) eqn:E'; try reflexivity;
             try discriminate; kill_list_kind Hk.
        destruct (fun_code_same i code cap Hb E) as [cap' E']. rewrite E'.
        cbn [safe_use] in Hs, Hs'. rewrite E in Hs. rewrite E' in Hs'.
        destruct cap; [|discriminate]. destruct cap'; [|discriminate]. reflexivity.
      - (* UCallArg *) cbn [fn_cell_ok] in Hb. apply negb_true_iff in Hb.
        destruct (cell e i) eqn:E.
        1-6: pose proof (same_kind_cell i) as Hk; rewrite E in Hk; destruct (cell e' i) eqn:E'; try reflexivity;
             try discriminate; kill_list_kind Hk.
        destruct (fun_code_same i code cap Hb E) as [cap' E']. rewrite E'.
        destruct (wrapped a j) eqn:Wj; [reflexivity|]. cbn [direct_use]. rewrite E, E', (unwrapped_same j Wj). reflexivity.
      - destruct (wrapped a i) eqn:W; [reflexivity|]. cbn [direct_use]. rewrite (unwrapped_same i W). reflexivity.
      - discriminate.
      - (* UIndex *) destruct (wrapped a i) eqn:W; [|cbn [direct_use]; rewrite (unwrapped_same i W); reflexivity].
        cbn [safe_use] in Hs, Hs'. pose proof (same_kind_cell i) as Hk.
        destruct (cell e i) eqn:E; destruct (cell e' i) eqn:E'; try reflexivity; try discriminate; try (kill_list_kind Hk).
        apply andb_true_iff in Hs, Hs'. destruct Hs as [Hs _], Hs' as [Hs' _]. apply Nat.ltb_lt in Hs, Hs'.
        destruct (nth_error l k) eqn:N1; [|apply nth_error_None in N1; lia].
        destruct (nth_error l0 k) eqn:N2; [|apply nth_error_None in N2; lia]. reflexivity.
    Qed.

    Lemma build_uses_same_key : forall us', incl us' us -> forallb (fn_cell_ok us) us' = true ->
      forallb (safe_use e) us' = true -> forallb (safe_use e') us' = true ->
      build_uses F a e us' = build_uses F a e' us'.
    Proof.
      induction us' as [|u r IH]; intros Hi Hb Hs Hs'; [reflexivity|].
      cbn in Hb, Hs, Hs'. apply andb_true_iff in Hb, Hs, Hs'. destruct Hb as [Hb1 Hb2], Hs as [Hs1 Hs2], Hs' as [Hs1' Hs2'].
      cbn. rewrite (build_use_same_key u (Hi u (or_introl eq_refl)) Hb1 Hs1 Hs1').
      rewrite (IH (fun x Hx => Hi x (or_intror Hx)) Hb2 Hs2 Hs2'). reflexivity.
    Qed.
  End SameKey.
End Proofs.
