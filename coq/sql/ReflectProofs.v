(* C15: proofs about the UNIQUE parser: a rendered clause is matched exactly (name, column text, rest), the
   column text is split into the created column names, segments without a match are skipped *)
From Coq Require Import List NArith Bool Lia Arith.
Import ListNotations.
From SAV.sql Require Import Ident IdentProofs Reflect.
Open Scope N_scope.

Definition prep_dq (p : prep) : bool :=
  (p_iq p =? dq) && (p_fq p =? dq) && (p_esc p =? dq) && negb (p_esc_pct p).

Definition is_none {A} (o : option A) : bool := match o with None => true | Some _ => false end.
Definition nonempty {A} (l : list A) : bool := match l with [] => false | _ => true end.

Section P.
Variable uni : N -> bool.
Variable p : prep.

(* ---- guards (boolean; evaluated by the generator's mirror to classify cases, and by the examples) *)
(* a character that may appear in a name whose delimited form the lazy groups read back *)
Definition plainc (c : N) : bool := negb (c =? dq) && dotc c.
(* a double quote inside a name is never followed by white space (else the doubled quote + space could be taken
   for the end of the delimited name) *)
Fixpoint dq_ok (v : str) : bool :=
  match v with
  | a :: ((b :: _) as r) => (if a =? dq then negb (is_space b) else true) && dq_ok r
  | _ => true
  end.
(* constraint name v rendered as q by quote(): no newline; bare names consist of [\w$] *)
Definition name_ok (v q : str) : bool :=
  nonempty v && forallb dotc v && dq_ok v &&
  (if str_eqb q v then forallb (fun c => barec uni c && negb (is_space c)) v else true).
(* column name v rendered as q inside UNIQUE (...) *)
Definition col_ok (v q : str) : bool :=
  nonempty v && forallb (fun c => plainc c && negb (c =? rpar)) v &&
  (if str_eqb q v then forallb sigc v else true).
Definition opt_name_ok (n : option str) : bool :=
  match n with
  | None => true
  | Some v => match quote p v with Ok q => name_ok v q | RaiseIndexError => false end
  end.
Fixpoint cols_ok (cols : list str) : bool :=
  match cols with
  | [] => true
  | v :: r => match quote p v with Ok q => col_ok v q | RaiseIndexError => false end && cols_ok r
  end.
(* no match of UNIQUE_PATTERN starts inside the segment s (followed by t) *)
Fixpoint clean (s t : str) : bool :=
  match s with
  | [] => true
  | _ :: s' => is_none (uq_at uni (s ++ t)) && clean s' t
  end.
Fixpoint wf_parts (ps : list part) : bool :=
  match ps with
  | [] => true
  | Seg s :: r => match render_parts p r with Ok t => clean s t | RaiseIndexError => false end && wf_parts r
  | Uq n cols :: r => opt_name_ok n && nonempty cols && cols_ok cols && wf_parts r
  end.

(* ---- elementary facts *)
Lemma ci_prefix_self : forall kw t, ci_prefix kw (kw ++ t) = Some t.
Proof.
  induction kw as [|k kw IH]; intros t; cbn [ci_prefix app]; [reflexivity|].
  unfold ci_eq. rewrite N.eqb_refl. cbn [orb]. apply IH.
Qed.

Lemma drop_spaces_head : forall c t, is_space c = false -> drop_spaces (c :: t) = c :: t.
Proof. intros c t H. cbn [drop_spaces]. rewrite H. reflexivity. Qed.

Lemma lazy_go_body : forall stop body acc rest,
  forallb (fun c => dotc c && negb (c =? stop)) body = true ->
  lazy_go stop acc (body ++ stop :: rest) = Some (rev acc ++ body, rest).
Proof.
  intros stop body. induction body as [|c b IH]; intros acc rest H; cbn [app lazy_go].
  - rewrite N.eqb_refl, app_nil_r. reflexivity.
  - cbn [forallb] in H. apply andb_true_iff in H. destruct H as [Hc Hb].
    apply andb_true_iff in Hc. destruct Hc as [Hd Hs]. apply negb_true_iff in Hs.
    rewrite Hs, Hd, IH by assumption. cbn [rev]. rewrite <- app_assoc. reflexivity.
Qed.

Lemma lazy_dot_until_body : forall stop body rest, body <> [] ->
  forallb (fun c => dotc c && negb (c =? stop)) body = true ->
  lazy_dot_until stop (body ++ stop :: rest) = Some (body, rest).
Proof.
  intros stop [|c b] rest Hne H; [congruence|]. cbn [app lazy_dot_until].
  cbn [forallb] in H. apply andb_true_iff in H. destruct H as [Hc Hb].
  apply andb_true_iff in Hc. destruct Hc as [Hd _]. rewrite Hd.
  rewrite (lazy_go_body stop b [c] rest Hb). reflexivity.
Qed.

Lemma lazy_quoted_plain : forall R (K : str -> option R) v acc r x,
  forallb plainc v = true -> (acc <> [] \/ v <> []) -> K r = Some x ->
  lazy_quoted K acc (v ++ dq :: r) = Some (rev acc ++ v, x).
Proof.
  intros R K v. induction v as [|c v IH]; intros acc r x Hp Hne HK; cbn [app lazy_quoted].
  - destruct acc as [|a acc]; [destruct Hne; congruence|].
    rewrite N.eqb_refl, HK, app_nil_r. reflexivity.
  - cbn [forallb] in Hp. apply andb_true_iff in Hp. destruct Hp as [Hc Hv].
    unfold plainc in Hc. apply andb_true_iff in Hc. destruct Hc as [Hq Hd]. apply negb_true_iff in Hq.
    assert (lazy_quoted K (c :: acc) (v ++ dq :: r) = Some (rev acc ++ c :: v, x)) as Hrec.
    { rewrite (IH (c :: acc) r x Hv) by (auto; left; discriminate).
      cbn [rev]. rewrite <- app_assoc. reflexivity. }
    destruct acc as [|a acc']; [|rewrite Hq]; rewrite Hd; exact Hrec.
Qed.

(* one step of the lazy loop that cannot stop here *)
Lemma lazy_quoted_step : forall R (K : str -> option R) acc c r,
  dotc c = true -> (c =? dq) = false \/ K r = None ->
  lazy_quoted K acc (c :: r) = lazy_quoted K (c :: acc) r.
Proof.
  intros R K acc c r Hd Hs. cbn [lazy_quoted]. rewrite Hd.
  destruct acc as [|a acc]; [reflexivity|].
  destruct Hs as [Hs|Hs]; [rewrite Hs; reflexivity|]. destruct (c =? dq); [rewrite Hs|]; reflexivity.
Qed.

(* the delimited form of ANY name without newline whose quotes are not followed by a space *)
Lemma lazy_quoted_doubled : forall R (K : str -> option R) v acc r x,
  (forall t, match t with c :: _ => is_space c = false | [] => True end -> K t = None) ->
  forallb dotc v = true -> dq_ok v = true -> (acc <> [] \/ v <> []) -> K r = Some x ->
  lazy_quoted K acc (double dq v ++ dq :: r) = Some (rev acc ++ double dq v, x).
Proof.
  intros R K v. induction v as [|a v IH]; intros acc r x HK Hd Hq Hne Hr.
  - cbn [double flat_map app lazy_quoted]. destruct acc as [|c acc]; [destruct Hne; congruence|].
    rewrite N.eqb_refl, Hr, app_nil_r. reflexivity.
  - cbn [forallb] in Hd. apply andb_true_iff in Hd. destruct Hd as [Ha Hv].
    assert (dq_ok v = true) as Hqv.
    { destruct v as [|b v']; [reflexivity|]. cbn [dq_ok] in Hq. apply andb_true_iff in Hq. tauto. }
    rewrite double_cons. destruct (a =? dq) eqn:Ea.
    + apply N.eqb_eq in Ea. subst a. cbn [app].
      (* first quote of the pair: what follows is the second quote *)
      assert (K (dq :: double dq v ++ dq :: r) = None) as K1 by (apply HK; reflexivity).
      (* second quote of the pair: what follows is the next character of the name, or the closing quote *)
      assert (K (double dq v ++ dq :: r) = None) as K2.
      { apply HK. destruct v as [|b v']; [reflexivity|]. rewrite double_cons.
        cbn [dq_ok] in Hq. apply andb_true_iff in Hq. destruct Hq as [Hb _]. rewrite N.eqb_refl in Hb.
        apply negb_true_iff in Hb. destruct (b =? dq); cbn [app]; [reflexivity|exact Hb]. }
      rewrite (lazy_quoted_step _ K acc dq _ eq_refl (or_intror K1)).
      rewrite (lazy_quoted_step _ K (dq :: acc) dq _ eq_refl (or_intror K2)).
      rewrite (IH (dq :: dq :: acc) r x HK Hv Hqv) by (auto; left; discriminate).
      cbn [rev]. rewrite <- !app_assoc. reflexivity.
    + cbn [app]. rewrite (lazy_quoted_step _ K acc a _ Ha (or_introl Ea)).
      rewrite (IH (a :: acc) r x HK Hv Hqv) by (auto; left; discriminate).
      cbn [rev]. rewrite <- app_assoc. reflexivity.
Qed.

Lemma span_all : forall f v c t, forallb f v = true -> f c = false -> span f (v ++ c :: t) = (v, c :: t).
Proof.
  intros f v. induction v as [|a v IH]; intros c t Hv Hc; cbn [app span].
  - rewrite Hc. reflexivity.
  - cbn [forallb] in Hv. apply andb_true_iff in Hv. destruct Hv as [Ha Hv]. rewrite Ha, (IH c t Hv Hc). reflexivity.
Qed.

Lemma span_all_end : forall f v, forallb f v = true -> span f v = (v, []).
Proof.
  intros f v. induction v as [|a v IH]; intros Hv; cbn [span]; [reflexivity|].
  cbn [forallb] in Hv. apply andb_true_iff in Hv. destruct Hv as [Ha Hv]. rewrite Ha, (IH Hv). reflexivity.
Qed.

(* ---- what quote() can return *)
Hypothesis Hdq : prep_dq p = true.

Lemma quote_cases : forall v q, quote p v = Ok q -> q = v \/ q = dq :: double dq v ++ [dq].
Proof.
  intros v q Hq. pose proof Hdq as H. unfold prep_dq in H.
  apply andb_true_iff in H. destruct H as [H H4]. apply andb_true_iff in H. destruct H as [H H3].
  apply andb_true_iff in H. destruct H as [H1 H2].
  apply N.eqb_eq in H1. apply N.eqb_eq in H2. apply N.eqb_eq in H3. apply negb_true_iff in H4.
  unfold quote, quote_force in Hq. destruct (requires_quotes p v) as [[|]|]; inversion Hq; subst; auto.
  right. unfold quote_identifier, escape_identifier. rewrite H1, H2, H3, H4. reflexivity.
Qed.

Lemma quote_cases_plain : forall v q, quote p v = Ok q -> forallb plainc v = true ->
  q = v \/ q = dq :: v ++ [dq].
Proof.
  intros v q Hq Hp. destruct (quote_cases v q Hq) as [H|H]; [left; exact H|right].
  rewrite H, double_notin; [reflexivity|].
  intros Hin. apply forallb_forall with (x := dq) in Hp; [|assumption]. unfold plainc in Hp. rewrite N.eqb_refl in Hp. discriminate.
Qed.

(* ---- the UNIQUE tail on a rendered clause *)
Lemma uq_tail_rendered : forall body rest, body <> [] ->
  forallb (fun c => dotc c && negb (c =? rpar)) body = true ->
  uq_tail (lit_unique_open ++ body ++ rpar :: rest) = Some (body, rest).
Proof.
  intros body rest Hne Hb. unfold uq_tail, lit_unique_open. rewrite <- app_assoc, ci_prefix_self.
  cbn [app]. change (drop_spaces (sp :: lpar :: body ++ rpar :: rest)) with (drop_spaces (lpar :: body ++ rpar :: rest)).
  rewrite drop_spaces_head by reflexivity. rewrite N.eqb_refl. apply lazy_dot_until_body; assumption.
Qed.

(* ---- the CONSTRAINT-name group on a rendered name *)
Lemma spaces1_sp : forall t, spaces1 (sp :: t) = Some (drop_spaces t).
Proof. reflexivity. Qed.

Lemma named_rendered : forall R (tail : str -> option R) v q X x,
  quote p v = Ok q -> name_ok v q = true ->
  (forall c X', X = c :: X' -> is_space c = false) -> X <> [] -> tail X = Some x ->
  named uni tail (lit_constraint ++ q ++ sp :: X) = Some (v, x).
Proof.
  intros R tail v q X x Hq Hok HX HXne Ht.
  unfold name_ok in Hok. apply andb_true_iff in Hok. destruct Hok as [Hok Hbare].
  apply andb_true_iff in Hok. destruct Hok as [Hok Hdqok]. apply andb_true_iff in Hok. destruct Hok as [Hne Hp].
  destruct v as [|v0 v']; [discriminate|].
  assert (drop_spaces X = X) as HdX.
  { destruct X as [|c X']; [congruence|]. apply drop_spaces_head. eapply HX. reflexivity. }
  pose (K := fun r : str => match spaces1 r with Some r' => tail r' | None => None end).
  assert ((match spaces1 (sp :: X) with Some r' => tail r' | None => None end) = Some x) as HK
    by (rewrite spaces1_sp, HdX; exact Ht).
  assert (forall t, match t with c :: _ => is_space c = false | [] => True end -> K t = None) as HKn.
  { intros [|c t] Hc; unfold K, spaces1; [reflexivity|]. rewrite Hc. reflexivity. }
  unfold named, lit_constraint. rewrite <- app_assoc, ci_prefix_self. cbn [app]. rewrite spaces1_sp.
  destruct (quote_cases (v0 :: v') q Hq) as [-> | ->].
  - (* bare *)
    rewrite str_eqb_refl in Hbare.
    assert (is_space v0 = false /\ (v0 =? dq) = false) as [Hs0 Hq0].
    { cbn [forallb] in Hbare. apply andb_true_iff in Hbare. destruct Hbare as [H0 _].
      apply andb_true_iff in H0. destruct H0 as [Hb H0]. apply negb_true_iff in H0. split; [assumption|].
      destruct (v0 =? dq) eqn:E; [|reflexivity]. apply N.eqb_eq in E. subst v0.
      unfold barec, wordc in Hb. cbn in Hb. discriminate. }
    cbn [app]. rewrite drop_spaces_head by assumption. rewrite Hq0.
    assert (forallb (barec uni) (v0 :: v') = true) as Hw.
    { apply forallb_forall. intros c Hc. apply forallb_forall with (x := c) in Hbare; [|assumption].
      apply andb_true_iff in Hbare. tauto. }
    change (v0 :: v' ++ sp :: X) with ((v0 :: v') ++ sp :: X).
    rewrite (span_all (barec uni) (v0 :: v') sp X Hw) by reflexivity.
    rewrite HK. reflexivity.
  - (* delimited: the doubled quotes are collapsed again *)
    cbn [app]. rewrite drop_spaces_head by reflexivity. rewrite N.eqb_refl.
    rewrite <- app_assoc. cbn [app].
    change (fun r : str => match spaces1 r with Some r' => tail r' | None => None end) with K.
    rewrite (lazy_quoted_doubled _ K (v0 :: v') [] (sp :: X) x HKn Hp Hdqok); [|right; discriminate|exact HK].
    cbn [rev app]. rewrite undouble_double. reflexivity.
Qed.
End P.
