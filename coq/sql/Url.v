(* C20 - executable model of lib/sqlalchemy/engine/url.py: URL.create / URL.render_as_string
   (hide_password=False) / make_url / _parse_url.  Definitions only.  A transcription of what the code
   DOES, defects included. *)
From Coq Require Import List NArith ZArith Bool.
Import ListNotations.
From SAV.sql Require Import UrlCodec.
Open Scope N_scope.

(* a query value is a str or a tuple of str (URL.create / _str_dict turn every sequence into a tuple) *)
Inductive qval := QStr (s : str) | QSeq (l : list str).

(* URL(NamedTuple); [u_query] is the immutabledict in insertion order (keys are unique) *)
Record url := mkUrl {
  u_drv : str; u_user : option str; u_pass : option str; u_host : option str;
  u_port : option Z; u_db : option str; u_query : list (str * qval) }.

Inductive exn := UnicodeEncodeError | ArgumentError | ValueError.
Inductive result (A : Type) := Ok (a : A) | Raise (e : exn).
Arguments Ok {A} a. Arguments Raise {A} e.
Definition bind {A B} (r : result A) (f : A -> result B) : result B :=
  match r with Ok a => f a | Raise e => Raise e end.
Definition of_opt {A} (e : exn) (o : option A) : result A :=
  match o with Some a => Ok a | None => Raise e end.

(* util.to_list on a query value *)
Definition to_list (v : qval) : list str := match v with QStr s => [s] | QSeq l => l end.

Fixpoint lookup (k : str) (q : list (str * qval)) : option qval :=
  match q with
  | [] => None
  | (k', v) :: r => if str_eqb k k' then Some v else lookup k r
  end.

Definition SAFE_USER : list N := [32; 43].        (* quote(..., safe=" +")  username and password *)
Definition SAFE_DB : list N := [32; 43; 47].      (* quote(..., safe=" +/") database *)

(* ---------------- render_as_string(hide_password=False) ---------------- *)
(* the literal text of each component as it is written into the string *)
Record comps := mkComps {
  c_drv : str; c_user : option str; c_pass : option str; c_host : option str;
  c_port : option str; c_db : option str; c_query : option str }.

Definition quote_r (safe : list N) (s : str) : result str := of_opt UnicodeEncodeError (quote safe s).
Definition quote_plus_r (s : str) : result str := of_opt UnicodeEncodeError (quote_plus s).

Definition render_userinfo (u : url) : result str :=
  match u_user u with
  | None => Ok []                        (* the password is not looked at without a username *)
  | Some us =>
    bind (quote_r SAFE_USER us) (fun qu =>
    match u_pass u with
    | None => Ok (qu ++ [64])
    | Some p => bind (quote_r SAFE_USER p) (fun qp => Ok (qu ++ [58] ++ qp ++ [64]))
    end)
  end.

Definition render_host (u : url) : str :=
  match u_host u with
  | None => []
  | Some h => if mem 58 h then [91] ++ h ++ [93] else h
  end.

Definition render_port (u : url) : str :=
  match u_port u with None => [] | Some p => 58 :: str_of_Z p end.

Definition render_db (u : url) : result str :=
  match u_db u with
  | None => Ok []
  | Some d => bind (quote_r SAFE_DB d) (fun q => Ok (47 :: q))
  end.

Fixpoint seq_results {A} (l : list (result A)) : result (list A) :=
  match l with
  | [] => Ok []
  | r :: t => bind r (fun a => bind (seq_results t) (fun t' => Ok (a :: t')))
  end.

(* f"{quote_plus(k)}={quote_plus(element)}" for k in sorted keys for element in to_list(query[k]) *)
Definition render_pair (k v : str) : result str :=
  bind (quote_plus_r k) (fun qk => bind (quote_plus_r v) (fun qv => Ok (qk ++ 61 :: qv))).
Definition query_pairs (q : list (str * qval)) : list (str * str) :=
  flat_map (fun k => match lookup k q with Some v => map (pair k) (to_list v) | None => [] end)
           (sort_keys (map fst q)).
Definition render_query (u : url) : result str :=
  if is_nil (u_query u) then Ok []
  else bind (seq_results (map (fun kv => render_pair (fst kv) (snd kv)) (query_pairs (u_query u))))
            (fun ps => Ok (63 :: join 38 ps)).

Definition render (u : url) : result str :=
  bind (render_userinfo u) (fun ui =>
  bind (render_db u) (fun d =>
  bind (render_query u) (fun q =>
  Ok (u_drv u ++ [58; 47; 47] ++ ui ++ render_host u ++ render_port u ++ d ++ q)))).

(* ---------------- _parse_url ---------------- *)
(* [\w\+] : ASCII word characters and '+'; [uw] says which non-ASCII code points Python's \w accepts *)
Definition wordch (uw : N -> bool) (c : N) : bool :=
  ((65 <=? c) && (c <=? 90)) || ((97 <=? c) && (c <=? 122)) || ((48 <=? c) && (c <=? 57))
  || (c =? 95) || (c =? 43) || ((128 <=? c) && uw c).

(* regex:  (?: (?P<username>[^:/]* ) (?: :(?P<password>[^@]* ) )? @ )?
   The regex engine first tries the longest username (the whole run of non-':' non-'/' characters);
   only there can ':' follow, and then the password is everything up to the FIRST '@' (if there is an
   '@' at all).  Otherwise it backs off to the LAST '@' inside the run (no password).  Otherwise the
   whole group is skipped.  Whatever follows always matches (all optional, prefix match), so the first
   success is final. *)
Definition split_userinfo (r : str) : option str * option str * str :=
  let (run, after) := span (fun c => negb (c =? 58) && negb (c =? 47)) r in
  let no_password :=
    match rsplit 64 run with
    | Some (us, run') => (Some us, None, run' ++ after)
    | None => (None, None, r)
    end in
  match after with
  | c :: after' =>
    if c =? 58 then
      let (p, rest) := span (nb 64) after' in
      match rest with
      | _ :: tail => (Some run, Some p, tail)
      | [] => no_password
      end
    else no_password
  | [] => no_password
  end.

(* (?: \[(?P<ipv6host>[^/\?]+)\] | (?P<ipv4host>[^/:\?]+) )?
   ipv6: greedy, so up to the LAST ']' of the run of non-'/' non-'?' characters, at least one character
   inside the brackets.  components["host"] = ipv4host or ipv6host. *)
Definition split_host (r : str) : option str * str :=
  let ipv4 :=
    let (h, rest) := span (fun c => negb (c =? 47) && negb (c =? 58) && negb (c =? 63)) r in
    if is_nil h then (None, r) else (Some h, rest) in
  match r with
  | c :: r' =>
    if c =? 91 then
      let (run, rest) := span (fun c => negb (c =? 47) && negb (c =? 63)) r' in
      match rsplit 93 run with
      | Some (h, run') => if is_nil h then ipv4 else (Some h, run' ++ rest)
      | None => ipv4
      end
    else ipv4
  | [] => ipv4
  end.

(* regex:  (?: :(?P<port>[^/\?]* ) )? *)
Definition split_port (r : str) : option str * str :=
  match r with
  | c :: r' =>
    if c =? 58 then let (p, rest) := span (fun c => negb (c =? 47) && negb (c =? 63)) r' in (Some p, rest)
    else (None, r)
  | [] => (None, r)
  end.

(* regex:  (?: /(?P<database>[^\?]* ) )? *)
Definition split_db (r : str) : option str * str :=
  match r with
  | c :: r' => if c =? 47 then let (d, rest) := span (nb 63) r' in (Some d, rest) else (None, r)
  | [] => (None, r)
  end.

(* regex:  (?: \?(?P<query>.* ) )?   '.' does not match a newline; the rest of the string is ignored *)
Definition split_query (r : str) : option str :=
  match r with
  | c :: r' => if c =? 63 then Some (fst (span (nb 10) r')) else None
  | [] => None
  end.

(* pattern.match(name).groupdict(), or None when the pattern does not match *)
Definition split_url (uw : N -> bool) (s : str) : option comps :=
  let (name, r0) := span (wordch uw) s in
  if is_nil name then None
  else
    match r0 with
    | 58 :: 47 :: 47 :: r1 =>
      let '(us, pw, r2) := split_userinfo r1 in
      let (ho, r3) := split_host r2 in
      let (po, r4) := split_port r3 in
      let (db, r5) := split_db r4 in
      Some (mkComps name us pw ho po db (split_query r5))
    | _ => None
    end.

(* the query dict built from parse_qsl: a repeated key turns the value into a list and appends *)
Fixpoint dict_add (d : list (str * qval)) (k v : str) : list (str * qval) :=
  match d with
  | [] => [(k, QStr v)]
  | (k', old) :: r =>
    if str_eqb k k' then (k', QSeq (to_list old ++ [v])) :: r
    else (k', old) :: dict_add r k v
  end.
Definition accumulate (pairs : list (str * str)) : list (str * qval) :=
  fold_left (fun d kv => dict_add d (fst kv) (snd kv)) pairs [].

(* what _parse_url does with each regex group, separately *)
Definition dec_text (o : option str) : option str := option_map unquote o.
(* the host as a function of its literal text ("[...]" loses the brackets) *)
Definition dec_host (o : option str) : option str :=
  match o with
  | Some (91 :: r) => match rsplit 93 r with Some (h, _) => Some h | None => o end
  | _ => o
  end.
Definition dec_port (o : option str) : result (option Z) :=
  match o with
  | None => Ok None
  | Some p => match py_int p with Some z => Ok (Some z) | None => Raise ValueError end
      (* '' is falsy, stays '' and URL.create's int('') raises ValueError as well *)
  end.
(* keep_blank_values=True since 7ad97ba *)
Definition dec_query (o : option str) : list (str * qval) :=
  match o with None => [] | Some q => accumulate (parse_qsl true q) end.

(* split_host already strips the brackets, so [decode] takes the host as split *)
Definition decode (c : comps) : result url :=
  bind (dec_port (c_port c)) (fun po =>
  Ok (mkUrl (c_drv c) (dec_text (c_user c)) (dec_text (c_pass c)) (c_host c) po
            (dec_text (c_db c)) (dec_query (c_query c)))).

Definition parse (uw : N -> bool) (s : str) : result url :=
  match split_url uw s with
  | None => Raise ArgumentError
  | Some c => decode c
  end.

(* make_url(url.render_as_string(hide_password=False)) *)
Definition roundtrip (uw : N -> bool) (u : url) : result url := bind (render u) (parse uw).

(* ---------------- the region the property speaks about ---------------- *)
Definition opt_all (p : N -> bool) (o : option str) : bool :=
  match o with Some s => forallb p s | None => true end.
Definition has_some {A} (o : option A) : bool := match o with Some _ => true | None => false end.

(* "syntactically valid host": non-empty, free of the delimiters '/', '?' and '@'; a host without ':'
   is written bare and must not look like a bracketed literal *)
Definition host_ok (o : option str) : bool :=
  match o with
  | None => true
  | Some h =>
    negb (is_nil h)
    && forallb (fun c => negb (c =? 47) && negb (c =? 63) && negb (c =? 64)) h
    && (mem 58 h || match h with c :: _ => negb (c =? 91) | [] => false end)
  end.

Definition qval_all (p : N -> bool) (v : qval) : bool :=
  match v with QStr s => forallb p s | QSeq l => forallb (forallb p) l end.

Fixpoint nodup_keys (l : list str) : bool :=
  match l with
  | [] => true
  | k :: r => negb (existsb (fun k' => str_eqb k k') r) && nodup_keys r
  end.

(* the URLs the property speaks about: a driver name the pattern accepts, text components that can be
   UTF-8 encoded (Unicode scalar values, otherwise arbitrary), a syntactically valid host, any integer
   port, a query dict (unique keys) *)
Definition domain (uw : N -> bool) (u : url) : bool :=
  negb (is_nil (u_drv u)) && forallb (wordch uw) (u_drv u)
  && opt_all scalar (u_user u) && opt_all scalar (u_pass u) && opt_all scalar (u_db u)
  && forallb (fun kv => forallb scalar (fst kv) && qval_all scalar (snd kv)) (u_query u)
  && host_ok (u_host u)
  && nodup_keys (map fst (u_query u)).

(* guards excluding the defects of the unchanged code: a password without a username is not rendered;
   a sequence value of length 1 comes back as a plain string, one of length 0 loses its key *)
Definition seq_len_ok (v : qval) : bool :=
  match v with QStr _ => true | QSeq l => (2 <=? length l)%nat end.
Definition password_has_user (u : url) : bool := negb (has_some (u_pass u)) || has_some (u_user u).

Definition wf (uw : N -> bool) (u : url) : bool :=
  domain uw u && password_has_user u && forallb (fun kv => seq_len_ok (snd kv)) (u_query u).

(* dict equality does not look at the insertion order: the canonical representative lists the keys in
   sorted order (which is the order in which they are rendered and therefore parsed back) *)
Definition canon_query (q : list (str * qval)) : list (str * qval) :=
  flat_map (fun k => match lookup k q with Some v => [(k, v)] | None => [] end) (sort_keys (map fst q)).
Definition canon (u : url) : url :=
  mkUrl (u_drv u) (u_user u) (u_pass u) (u_host u) (u_port u) (u_db u) (canon_query (u_query u)).
