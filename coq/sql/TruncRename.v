(* C21 - the rendered names of a compilation do not depend on the identities (Python id()) that occur
   in anonymous names, only on which of them are equal: same names on every compilation *)
From Coq Require Import List NArith ZArith Bool Lia.
Import ListNotations.
From SAV.sql Require Import Trunc TruncLabels.

Lemma assoc_map_inj {K V} (eqb : K -> K -> bool) (g : K -> K) :
  (forall a b, eqb a b = true <-> a = b) -> (forall a b, g a = g b -> a = b) ->
  forall k (l : list (K * V)), assoc eqb (g k) (map (fun e => (g (fst e), snd e)) l) = assoc eqb k l.
Proof.
  intros Heq Hg k. induction l as [|[k' v] l IH]; cbn [map assoc fst snd]; [reflexivity|].
  destruct (eqb k k') eqn:E.
  - apply Heq in E. subst. rewrite (eqb_refl_of _ Heq). reflexivity.
  - assert (eqb (g k) (g k') = false).
    { apply (eqb_false_of _ Heq). intro H. apply Hg in H. apply (eqb_false_of _ Heq) in E. contradiction. }
    rewrite H. exact IH.
Qed.

Section Rename.
  Variable f : N -> N.
  Hypothesis f_inj : forall a b, f a = f b -> a = b.

  Definition rn_seg (s : seg) : seg := match s with Lit l => Lit l | Anon i b => Anon (f i) b end.
  Definition rn_name (n : tname) : tname := map rn_seg n.
  Definition rn_akey (k : akey) : akey := (f (fst k), snd k).
  Definition rn_ckey (k : ckey) : ckey := (fst k, rn_name (snd k)).
  Definition rn_am (am : amap) : amap :=
    {| am_keys := map (fun e => (rn_akey (fst e), snd e)) (am_keys am); am_ctr := am_ctr am |}.
  Definition rn_st (st : cstate) : cstate :=
    {| st_am := rn_am (st_am st);
       st_memo := map (fun e => (rn_ckey (fst e), snd e)) (st_memo st);
       st_tctr := st_tctr st; st_binds := st_binds st; st_bind_names := st_bind_names st |}.
  Definition rn_lname (n : lname) : lname := match n with LStr s => LStr s | LTrunc t => LTrunc (rn_name t) end.
  Definition rn_req (r : req) : req := match r with RName c n => RName c (rn_lname n) | RBind o => RBind o end.
  Definition rn_bkey (k : bkey) : bkey := match k with BPlain s => BPlain s | BTrunc t => BTrunc (rn_name t) end.

  Lemma rn_seg_inj : forall a b, rn_seg a = rn_seg b -> a = b.
  Proof. intros [l|i b] [l'|i' b'] H; cbn in H; inversion H; try reflexivity. apply f_inj in H1. congruence. Qed.
  Lemma rn_name_inj : forall a b, rn_name a = rn_name b -> a = b.
  Proof.
    induction a as [|x a IH]; intros [|y b] H; cbn in H; try discriminate; auto.
    inversion H. apply rn_seg_inj in H1. apply IH in H2. congruence.
  Qed.
  Lemma rn_akey_inj : forall a b, rn_akey a = rn_akey b -> a = b.
  Proof. intros [i s] [j t] H. unfold rn_akey in H. cbn in H. inversion H. apply f_inj in H1. congruence. Qed.
  Lemma rn_ckey_inj : forall a b, rn_ckey a = rn_ckey b -> a = b.
  Proof. intros [i s] [j t] H. unfold rn_ckey in H. cbn in H. inversion H. apply rn_name_inj in H2. congruence. Qed.

  Lemma am_get_rn : forall am i b,
    am_get (rn_am am) (f i, b) = (rn_am (fst (am_get am (i, b))), snd (am_get am (i, b))).
  Proof.
    intros am i b. unfold am_get. cbn [rn_am am_keys].
    change (f i, b) with (rn_akey (i, b)).
    rewrite (assoc_map_inj akey_eqb rn_akey akey_eqb_eq rn_akey_inj).
    destruct (assoc akey_eqb (i, b) (am_keys am)); reflexivity.
  Qed.

  Lemma apply_map_rn : forall n am,
    apply_map (rn_am am) (rn_name n) = (rn_am (fst (apply_map am n)), snd (apply_map am n)).
  Proof.
    induction n as [|[l|i b] r IH]; intros am; cbn [rn_name map rn_seg apply_map].
    - reflexivity.
    - fold (rn_name r). rewrite IH. destruct (apply_map am r). reflexivity.
    - fold (rn_name r). rewrite am_get_rn. destruct (am_get am (i, b)) as [am1 v]. cbn [fst snd].
      rewrite IH. destruct (apply_map am1 r). reflexivity.
  Qed.

  Lemma truncated_identifier_rn : forall ll st cls n,
    truncated_identifier ll (rn_st st) cls (rn_name n)
    = (rn_st (fst (truncated_identifier ll st cls n)), snd (truncated_identifier ll st cls n)).
  Proof.
    intros ll st cls n. unfold truncated_identifier. cbn [rn_st st_memo st_am].
    change (cls, rn_name n) with (rn_ckey (cls, n)).
    rewrite (assoc_map_inj ckey_eqb rn_ckey ckey_eqb_eq rn_ckey_inj).
    destruct (assoc ckey_eqb (cls, n) (st_memo st)); [reflexivity|].
    rewrite apply_map_rn. destruct (apply_map (st_am st) n) as [am' a]. cbn [fst snd].
    destruct (label_too_long (slen a) ll); reflexivity.
  Qed.

  Section WithBinds.
    Variables benv benv' : N -> bindrec.
    Hypothesis benv_rn : forall oid, b_key (benv' oid) = rn_bkey (b_key (benv oid))
                                     /\ b_unique (benv' oid) = b_unique (benv oid)
                                     /\ b_expanding (benv' oid) = b_expanding (benv oid).

    Lemma truncate_bindparam_rn : forall ll st oid,
      truncate_bindparam benv' ll (rn_st st) oid
      = (rn_st (fst (truncate_bindparam benv ll st oid)), snd (truncate_bindparam benv ll st oid)).
    Proof.
      intros ll st oid. unfold truncate_bindparam. cbn [rn_st st_bind_names].
      destruct (assoc N.eqb oid (st_bind_names st)); [reflexivity|].
      destruct (benv_rn oid) as (K & _). rewrite K. destruct (b_key (benv oid)) as [s|t]; cbn [rn_bkey].
      - reflexivity.
      - rewrite truncated_identifier_rn. destruct (truncated_identifier ll st cls_bindparam t). reflexivity.
    Qed.

    Definition rn_res (r : result (cstate * str)) : result (cstate * str) :=
      match r with Ok (st, o) => Ok (rn_st st, o) | Raise e => Raise e end.

    Lemma visit_bindparam_rn : forall ll st oid,
      visit_bindparam benv' ll (rn_st st) oid = rn_res (visit_bindparam benv ll st oid).
    Proof.
      intros ll st oid. unfold visit_bindparam. rewrite truncate_bindparam_rn.
      destruct (truncate_bindparam benv ll st oid) as [st1 nm]. cbn [fst snd rn_st st_binds].
      destruct (assoc str_eqb nm (st_binds st1)) as [ex|]; [|reflexivity].
      destruct (N.eqb ex oid); [reflexivity|].
      destruct (benv_rn ex) as (_ & U1 & X1). destruct (benv_rn oid) as (_ & U2 & X2).
      rewrite U1, U2, X1, X2.
      destruct (b_unique (benv ex) || b_unique (benv oid)); [reflexivity|].
      destruct (negb (eqb (b_expanding (benv ex)) (b_expanding (benv oid)))); reflexivity.
    Qed.

    Lemma step_rn : forall ll st r, step benv' ll (rn_st st) (rn_req r) = rn_res (step benv ll st r).
    Proof.
      intros ll st [cls [s|n]|oid]; cbn [rn_req rn_lname step element_name rn_res].
      - reflexivity.
      - rewrite truncated_identifier_rn. destruct (truncated_identifier ll st cls n). reflexivity.
      - apply visit_bindparam_rn.
    Qed.

    Lemma run_rn : forall ll rs st,
      run benv' ll (rn_st st) (map rn_req rs)
      = match run benv ll st rs with Ok (st', os) => Ok (rn_st st', os) | Raise e => Raise e end.
    Proof.
      intros ll. induction rs as [|r rs IH]; intros st; cbn [map run].
      - reflexivity.
      - rewrite step_rn. destruct (step benv ll st r) as [[st1 o]|e]; cbn [rn_res]; [|reflexivity].
        rewrite IH. destruct (run benv ll st1 rs) as [[st2 os]|e]; reflexivity.
    Qed.

    (* renaming the object identities injectively changes neither the rendered names nor whether the
       compilation succeeds *)
    Theorem names_independent_of_ids : forall ll rs,
      match run benv ll init_state rs, run benv' ll init_state (map rn_req rs) with
      | Ok (_, os), Ok (_, os') => os = os'
      | Raise e, Raise e' => e = e'
      | _, _ => False
      end.
    Proof.
      intros ll rs. pose proof (run_rn ll rs init_state) as H. change (rn_st init_state) with init_state in H. rewrite H.
      destruct (run benv ll init_state rs) as [[st os]|e]; reflexivity.
    Qed.
  End WithBinds.
End Rename.
