(* C14 - basic lemmas: canonical find_cycles is exact, cycles vs on_cycle, membership in the edge
   sets of the model, small list facts *)
From Coq Require Import List NArith Bool Lia Permutation.
Import ListNotations.
From SAV.util Require Import Topo Cycles TopoProofs TopoCycle TopoExtra CyclesSound CyclesComplete CyclesExact.
From SAV.sql Require Import DDLOrder.

(* ---------------------------------------------------------------- canonical iteration orders *)
Lemma In_dedup x l : In x (dedup l) <-> In x l.
Proof. induction l as [|a l IH]; simpl; [tauto|]. destruct (memb a (dedup l)) eqn:M.
  - apply memb_In in M. split; [intros H; right; apply IH, H|]. intros [->|H]; [exact M|apply IH, H].
  - simpl. rewrite IH. tauto. Qed.

Lemma ord_of_spec ts a b : In b (ord_of ts a) <-> In (a, b) ts.
Proof. unfold ord_of. rewrite In_dedup, in_map_iff. split.
  - intros [[x y] [H1 H2]]. simpl in H1; subst. apply filter_In in H2. destruct H2 as [H2 H3].
    simpl in H3. apply N.eqb_eq in H3. subst. exact H2.
  - intros H. exists (a, b). split; [reflexivity|]. apply filter_In. split; [exact H|]. simpl. apply N.eqb_refl. Qed.

Lemma starts_of_spec ts a : In a (starts_of ts) <-> exists b, In (a, b) ts.
Proof. unfold starts_of. rewrite In_dedup, in_map_iff. split.
  - intros [[x y] [H1 H2]]. simpl in H1; subst. exists y. exact H2.
  - intros [b H]. exists (a, b). split; [reflexivity|exact H]. Qed.

Theorem cycles_of_exact ts : exists out, cycles_of ts = Some out /\ forall x, In x out <-> on_cycle ts x.
Proof. unfold cycles_of. exact (find_cycles_exact ts (ord_of ts) (ord_of_spec ts) (starts_of ts) (starts_of_spec ts)). Qed.

(* ---------------------------------------------------------------- cycle (bwalk) vs on_cycle (reach) *)
Lemma bwalk_mono ts ts' w : bwalk ts w ->
  (forall y x, In (y, x) ts -> In x w -> In y w -> In (y, x) ts') -> bwalk ts' w.
Proof. induction 1 as [x|x y l He Hw IH]; intros Hm; [constructor|]. constructor.
  - apply Hm; [exact He|left; reflexivity|right; left; reflexivity].
  - apply IH. intros a b H1 H2 H3. apply Hm; [exact H1|right; exact H2|right; exact H3]. Qed.

Lemma bwalk_incl ts ts' w : bwalk ts w -> incl ts ts' -> bwalk ts' w.
Proof. intros H Hi. eapply bwalk_mono; [exact H|]. intros y x H1 _ _. apply Hi, H1. Qed.

Lemma cycle_incl ts ts' w : cycle ts w -> incl ts ts' -> cycle ts' w.
Proof. intros [x [m [E H]]] Hi. exists x, m. split; [exact E|eapply bwalk_incl; eassumption]. Qed.

(* a backward walk a :: ... ++ [b] gives a path b -> a *)
Lemma bwalk_reach ts : forall l a b, bwalk ts (a :: l ++ [b]) -> reach ts b a.
Proof. induction l as [|c l IH]; intros a b H; simpl in H.
  - inversion H; subst. apply r1. assumption.
  - inversion H; subst. eapply reach_trans; [apply IH; eassumption|apply r1; assumption]. Qed.

Lemma cycle_on_cycle ts w : cycle ts w -> forall x, In x w -> on_cycle ts x.
Proof.
  intros [x [m [-> Hw]]] y Hy. unfold on_cycle.
  assert (Hxx : reach ts x x) by (apply (bwalk_reach ts m x x Hw)).
  destruct Hy as [<-|Hy]; [exact Hxx|]. apply in_app_or in Hy. destruct Hy as [Hy|[<-|[]]]; [|exact Hxx].
  apply in_split in Hy. destruct Hy as [m1 [m2 ->]].
  (* w = x :: m1 ++ y :: m2 ++ [x] *)
  assert (H1 : reach ts y x).
  { apply (bwalk_reach ts m1 x y). change (x :: m1 ++ [y]) with ((x :: m1) ++ [y]).
    apply (bwalk_app_l ts (x :: m1) y (m2 ++ [x])). simpl. rewrite <- app_assoc in Hw. exact Hw. }
  assert (H2 : reach ts x y).
  { apply (bwalk_reach ts m2 y x). apply (bwalk_app_r ts (x :: m1) (y :: m2 ++ [x])); [|discriminate].
    simpl. rewrite <- app_assoc in Hw. exact Hw. }
  eapply reach_trans; eassumption. Qed.

Lemma reach_ext ts ts' a b : (forall e, In e ts -> In e ts') -> reach ts a b -> reach ts' a b.
Proof. intros H. induction 1; [apply r1; auto|eapply rS; [apply H; eassumption|assumption]]. Qed.

(* ---------------------------------------------------------------- order facts *)
Definition before (o : list node) (p c : node) : Prop := exists l1 l2, o = l1 ++ l2 /\ In p l1 /\ In c l2.

Lemma NoDup_app_disj {A} (a b : list A) x : NoDup (a ++ b) -> In x a -> In x b -> False.
Proof. induction a as [|y a IH]; simpl; [tauto|]. intros Hn [->|Ha] Hb.
  - inversion Hn; subst. apply H1. apply in_or_app. right. exact Hb.
  - inversion Hn; subst. apply IH; assumption. Qed.

Lemma before_prefix (o : list node) p c pre suf : NoDup o -> before o p c -> o = pre ++ c :: suf -> In p pre.
Proof.
  intros Hn [l1 [l2 [E [Hp Hc]]]] E2. rewrite E in E2. pose proof E2 as E2'. apply app_eq_app in E2.
  destruct E2 as [l [[E1 E3]|[E1 E3]]].
  - destruct l as [|x l].
    + rewrite app_nil_r in E1. subst l1. exact Hp.
    + simpl in E3. inversion E3; subst x. exfalso. rewrite E in Hn.
      apply (NoDup_app_disj l1 l2 c Hn); [|exact Hc]. rewrite E1. apply in_or_app. right. left. reflexivity.
  - rewrite E1. apply in_or_app. left. exact Hp. Qed.

Lemma before_rev o p c : before o p c -> before (rev o) c p.
Proof. intros [l1 [l2 [-> [Hp Hc]]]]. exists (rev l2), (rev l1). rewrite rev_app_distr. split; [reflexivity|].
  split; apply in_rev; rewrite rev_involutive; assumption. Qed.

(* ---------------------------------------------------------------- membership in the edge sets *)
Section Edges.
Variable filt : fk -> option bool.
Variable tables : list table.

Lemma In_fixed e : In e (fixed tables) <-> exists t, In t tables /\ In (fst e) (t_extra t) /\ snd e = t_name t.
Proof. unfold fixed. rewrite in_flat_map. split.
  - intros [t [Ht H]]. unfold fixed_of in H. apply in_map_iff in H. destruct H as [p [<- Hp]]. exists t. simpl. auto.
  - intros [t [Ht [H1 H2]]]. exists t. split; [exact Ht|]. unfold fixed_of. apply in_map_iff. exists (fst e).
    split; [|exact H1]. rewrite <- H2. destruct e; reflexivity. Qed.

Lemma In_mutable0 e : In e (mutable0 filt tables) <->
  exists t f, In t tables /\ In f (t_fks t) /\ dep_fk filt t f = true /\ e = fk_edge t f.
Proof. unfold mutable0. rewrite in_flat_map. split.
  - intros [t [Ht H]]. unfold mutable_of in H. apply in_map_iff in H. destruct H as [f [<- Hf]].
    apply filter_In in Hf. exists t, f. tauto.
  - intros [t [f [Ht [Hf [Hd ->]]]]]. exists t. split; [exact Ht|]. unfold mutable_of. apply in_map_iff.
    exists f. split; [reflexivity|]. apply filter_In. tauto. Qed.

Lemma In_mutable1 cyc e : In e (mutable1 filt tables cyc) <->
  exists t f, In t tables /\ In f (t_fks t) /\ dep_fk filt t f = true /\ discarded filt tables cyc t f = false
              /\ e = fk_edge t f.
Proof. unfold mutable1. rewrite in_flat_map. split.
  - intros [t [Ht H]]. unfold mutable1_of in H. apply in_map_iff in H. destruct H as [f [<- Hf]].
    apply filter_In in Hf. destruct Hf as [Hf Hb]. apply andb_true_iff in Hb. destruct Hb as [Hb1 Hb2].
    apply negb_true_iff in Hb2. exists t, f. tauto.
  - intros [t [f [Ht [Hf [Hd [Hdis ->]]]]]]. exists t. split; [exact Ht|]. unfold mutable1_of. apply in_map_iff.
    exists f. split; [reflexivity|]. apply filter_In. split; [exact Hf|]. rewrite Hd, Hdis. reflexivity. Qed.

Lemma mutable1_incl cyc : incl (mutable1 filt tables cyc) (mutable0 filt tables).
Proof. intros e H. apply In_mutable1 in H. destruct H as [t [f [H1 [H2 [H3 [_ H5]]]]]]. apply In_mutable0.
  exists t, f. tauto. Qed.

Lemma hit_nil t : hit filt tables [] t = false.
Proof. reflexivity. Qed.

Lemma mutable1_nil : mutable1 filt tables [] = mutable0 filt tables.
Proof. unfold mutable1, mutable0. apply flat_map_ext. intros t. unfold mutable1_of, mutable_of. f_equal.
  apply filter_ext. intros f. unfold discarded. rewrite hit_nil. simpl. apply andb_true_r. Qed.

(* the child of a mutable edge that is in [cyc] is hit *)
Lemma hit_of_edge cyc t f : In t tables -> In f (t_fks t) -> dep_fk filt t f = true ->
  In (t_name t) cyc -> hit filt tables cyc t = true.
Proof. intros Ht Hf Hd Hc. unfold hit. apply andb_true_iff. split; [apply memb_In; exact Hc|].
  apply existsb_exists. exists (fk_edge t f). split; [|simpl; apply N.eqb_refl].
  apply In_mutable0. exists t, f. tauto. Qed.

Lemma hit_in_cyc cyc t : hit filt tables cyc t = true -> In (t_name t) cyc.
Proof. unfold hit. intros H. apply andb_true_iff in H. apply memb_In. tauto. Qed.

(* find_table *)
Lemma find_table_some n t : find_table tables n = Some t -> In t tables /\ t_name t = n.
Proof. unfold find_table. intros H. apply find_some in H. destruct H as [H1 H2]. apply N.eqb_eq in H2. tauto. Qed.

Lemma find_table_in t : NoDup (names tables) -> In t tables -> find_table tables (t_name t) = Some t.
Proof. unfold find_table, names. induction tables as [|u l IH]; simpl; [tauto|]. intros Hn [->|Ht].
  - rewrite N.eqb_refl. reflexivity.
  - inversion Hn; subst. destruct (N.eqb (t_name u) (t_name t)) eqn:E.
    + apply N.eqb_eq in E. exfalso. apply H1. rewrite E. apply in_map. exact Ht.
    + apply IH; assumption. Qed.

Lemma names_unique t u : NoDup (names tables) -> In t tables -> In u tables -> t_name t = t_name u -> t = u.
Proof. intros Hn Ht Hu E. pose proof (find_table_in t Hn Ht) as H1. pose proof (find_table_in u Hn Hu) as H2.
  rewrite E in H1. congruence. Qed.
End Edges.

(* the model computes err.cycles with one canonical iteration order of the Python sets; any other
   order gives the same set *)
Theorem cycles_of_any_order ts (ord : node -> list node) (starts : list node) :
  (forall a b, In b (ord a) <-> In (a, b) ts) ->
  (forall a, In a starts <-> exists b, In (a, b) ts) ->
  exists out out', find_cycles ord starts = Some out /\ cycles_of ts = Some out' /\
                   forall x, In x out <-> In x out'.
Proof. intros H1 H2. destruct (find_cycles_exact ts ord H1 starts H2) as [out [Ho Hx]].
  destruct (cycles_of_exact ts) as [out' [Ho' Hx']]. exists out, out'. split; [exact Ho|]. split; [exact Ho'|].
  intros x. rewrite Hx, Hx'. tauto. Qed.
