(* C01: a concrete SQL value semantics (NULL / integer / text, Kleene logic, exact integers) for which
   the hypotheses of [construct_sound] follow from the finite per-run check [sem_side]. *)
From Coq Require Import List Arith ZArith NArith Bool Lia.
Import ListNotations.
From SAV.sql Require Import Prec SAExpr C01Tables C01Proofs C01Sem.

Inductive sv := SNull | SInt (z : Z) | SText (s : list N).

Definition b2v (b : bool) : sv := SInt (if b then 1 else 0)%Z.
Definition truth (v : sv) : option bool :=
  match v with SNull => None | SInt z => Some (negb (Z.eqb z 0)) | SText _ => Some false end.
Definition of_truth (t : option bool) : sv := match t with None => SNull | Some b => b2v b end.
Definition kand (a b : option bool) : option bool :=
  match a, b with
  | Some false, _ | _, Some false => Some false
  | Some true, Some true => Some true
  | _, _ => None
  end.
Definition kor (a b : option bool) : option bool :=
  match a, b with
  | Some true, _ | _, Some true => Some true
  | Some false, Some false => Some false
  | _, _ => None
  end.
Definition and3 a b := of_truth (kand (truth a) (truth b)).
Definition or3 a b := of_truth (kor (truth a) (truth b)).
Definition not3 a := of_truth (option_map negb (truth a)).

Definition arith2 (f : Z -> Z -> Z) (a b : sv) : sv :=
  match a, b with SInt x, SInt y => SInt (f x y) | _, _ => SNull end.
Definition divlike (f : Z -> Z -> Z) (a b : sv) : sv :=
  match a, b with SInt x, SInt y => if Z.eqb y 0 then SNull else SInt (f x y) | _, _ => SNull end.
Definition concat3 (a b : sv) : sv :=
  match a, b with SText x, SText y => SText (x ++ y) | _, _ => SNull end.

Fixpoint lcmp (a b : list N) : comparison :=
  match a, b with
  | [], [] => Eq | [], _ => Lt | _, [] => Gt
  | x :: a', y :: b' => match N.compare x y with Eq => lcmp a' b' | c => c end
  end.
Definition svcmp (a b : sv) : comparison :=
  match a, b with
  | SInt x, SInt y => Z.compare x y
  | SText x, SText y => lcmp x y
  | SInt _, SText _ => Lt
  | SText _, SInt _ => Gt
  | _, _ => Eq
  end.
Definition isnull (v : sv) : bool := match v with SNull => true | _ => false end.
Definition cmp3 (test : comparison -> bool) (a b : sv) : sv :=
  if isnull a || isnull b then SNull else b2v (test (svcmp a b)).
Definition is_eq c := match c with Eq => true | _ => false end.
Definition is_lt c := match c with Lt => true | _ => false end.
Definition is_gt c := match c with Gt => true | _ => false end.
Definition sveqb (a b : sv) : bool :=
  match a, b with
  | SNull, SNull => true
  | SNull, _ | _, SNull => false
  | _, _ => is_eq (svcmp a b)
  end.

Section Inst.
Variable likeb : list N -> list N -> bool.     (* the LIKE matcher: any function *)
Definition like3 (pos : bool) (a b : sv) : sv :=
  if isnull a || isnull b then SNull
  else match a, b with
       | SText s, SText p => b2v (if pos then likeb s p else negb (likeb s p))
       | _, _ => b2v (negb pos)
       end.

Definition bsem3 (o : nat) : sv -> sv -> sv :=
  if Nat.eqb o AND then and3 else if Nat.eqb o OR then or3
  else if Nat.eqb o ADD then arith2 Z.add else if Nat.eqb o SUB then arith2 Z.sub
  else if Nat.eqb o MUL then arith2 Z.mul else if Nat.eqb o MOD then divlike Z.rem
  else if Nat.eqb o FLOORDIV then divlike Z.quot else if Nat.eqb o CONCAT then concat3
  else if Nat.eqb o EQ then cmp3 is_eq else if Nat.eqb o NE then cmp3 (fun c => negb (is_eq c))
  else if Nat.eqb o LT then cmp3 is_lt else if Nat.eqb o GE then cmp3 (fun c => negb (is_lt c))
  else if Nat.eqb o GT then cmp3 is_gt else if Nat.eqb o LE then cmp3 (fun c => negb (is_gt c))
  else if Nat.eqb o LIKE then like3 true else if Nat.eqb o NOTLIKE then like3 false
  else if Nat.eqb o IS then (fun a b => b2v (sveqb a b))
  else if Nat.eqb o ISNOT then (fun a b => b2v (negb (sveqb a b)))
  else if Nat.eqb o BAND then arith2 Z.land else if Nat.eqb o BOR then arith2 Z.lor
  else if Nat.eqb o SHL then arith2 Z.shiftl else if Nat.eqb o SHR then arith2 Z.shiftr
  else fun _ _ => SNull.
Definition usem3 (u : nat) : sv -> sv :=
  if Nat.eqb u INV then not3
  else fun v => match v with SInt z => SInt (- z) | _ => SNull end.

Lemma truth_of_truth t : truth (of_truth t) = t.
Proof. destruct t as [[|]|]; reflexivity. Qed.
Lemma not3_b2v b : not3 (b2v b) = b2v (negb b).
Proof. destruct b; reflexivity. Qed.

Lemma and3_assoc a b c : and3 (and3 a b) c = and3 a (and3 b c).
Proof.
  unfold and3. rewrite !truth_of_truth.
  destruct (truth a) as [[|]|], (truth b) as [[|]|], (truth c) as [[|]|]; reflexivity.
Qed.
Lemma or3_assoc a b c : or3 (or3 a b) c = or3 a (or3 b c).
Proof.
  unfold or3. rewrite !truth_of_truth.
  destruct (truth a) as [[|]|], (truth b) as [[|]|], (truth c) as [[|]|]; reflexivity.
Qed.
Lemma arith2_assoc f : (forall x y z, f (f x y) z = f x (f y z)) ->
  forall a b c, arith2 f (arith2 f a b) c = arith2 f a (arith2 f b c).
Proof. intros H a b c. destruct a, b, c; cbn [arith2]; try reflexivity. rewrite H. reflexivity. Qed.
Lemma concat3_assoc a b c : concat3 (concat3 a b) c = concat3 a (concat3 b c).
Proof. destruct a, b, c; cbn [concat3]; try reflexivity. rewrite app_assoc. reflexivity. Qed.

Lemma assoc_sem_sound o : assoc_sem o = true ->
  forall a b c, bsem3 o (bsem3 o a b) c = bsem3 o a (bsem3 o b c).
Proof.
  intros H. unfold assoc_sem in H. cbn [existsb] in H.
  repeat (apply orb_true_iff in H; destruct H as [H|H];
          [apply Nat.eqb_eq in H; subst o; intros a b c|]); try discriminate.
  - apply (arith2_assoc Z.add). intros; lia.
  - apply (arith2_assoc Z.mul). intros; lia.
  - apply concat3_assoc.
  - apply and3_assoc.
  - apply or3_assoc.
  - apply (arith2_assoc Z.land). intros. symmetry. apply Z.land_assoc.
  - apply (arith2_assoc Z.lor). intros. symmetry. apply Z.lor_assoc.
Qed.

Lemma cmp3_neg test a b : not3 (cmp3 test a b) = cmp3 (fun c => negb (test c)) a b.
Proof. unfold cmp3. destruct (isnull a || isnull b); [reflexivity|]. apply not3_b2v. Qed.
Lemma cmp3_neg' test a b : not3 (cmp3 (fun c => negb (test c)) a b) = cmp3 test a b.
Proof.
  unfold cmp3. destruct (isnull a || isnull b); [reflexivity|]. rewrite not3_b2v, negb_involutive. reflexivity.
Qed.
Lemma like3_neg pos a b : not3 (like3 pos a b) = like3 (negb pos) a b.
Proof.
  unfold like3. destruct (isnull a || isnull b); [reflexivity|].
  destruct a, b; rewrite not3_b2v; destruct pos; cbn [negb]; rewrite ?negb_involutive; reflexivity.
Qed.

Lemma neg_sem_sound o n : neg_sem o n = true ->
  forall a b, usem3 INV (bsem3 o a b) = bsem3 n a b.
Proof.
  intros H. unfold neg_sem in H. cbn [existsb fst snd] in H.
  repeat (apply orb_true_iff in H; destruct H as [H|H];
          [apply andb_true_iff in H; destruct H as [H1 H2]; apply Nat.eqb_eq in H1, H2; subst o n; intros a b|]);
    try discriminate; change (usem3 INV) with not3.
  - apply (cmp3_neg is_eq).
  - apply (cmp3_neg' is_eq).
  - apply (cmp3_neg is_lt).
  - apply (cmp3_neg' is_lt).
  - apply (cmp3_neg is_gt).
  - apply (cmp3_neg' is_gt).
  - apply (like3_neg true).
  - apply (like3_neg false).
  - change (not3 (b2v (sveqb a b)) = b2v (negb (sveqb a b))). apply not3_b2v.
  - change (not3 (b2v (negb (sveqb a b))) = b2v (sveqb a b)). rewrite not3_b2v, negb_involutive. reflexivity.
Qed.

(* flattening by identity (and_/or_) is always sound; flattening by the table's associativity flag is
   sound when the flag is only set on semantically associative operators *)
Theorem inst_assoc (T : satab) : sem_side T = true ->
  forall o, In o binops -> flattens T o = true -> forall a b c, bsem3 o (bsem3 o a b) c = bsem3 o a (bsem3 o b c).
Proof.
  intros Hs o Ho Hf. unfold sem_side in Hs. rewrite forallb_forall in Hs. specialize (Hs o Ho).
  apply andb_true_iff in Hs. destruct Hs as [Ha _]. unfold flattens in Hf.
  apply orb_true_iff in Hf. destruct Hf as [Hf|Hf]; [apply orb_true_iff in Hf; destruct Hf as [Hf|Hf]|].
  - rewrite Hf in Ha. cbn in Ha. apply assoc_sem_sound. exact Ha.
  - apply Nat.eqb_eq in Hf. subst o. apply and3_assoc.
  - apply Nat.eqb_eq in Hf. subst o. apply or3_assoc.
Qed.
Theorem inst_neg (T : satab) : sem_side T = true ->
  forall o no, In o binops -> negate T o = Some no -> forall a b, usem3 INV (bsem3 o a b) = bsem3 no a b.
Proof.
  intros Hs o no Ho Hn. unfold sem_side in Hs. rewrite forallb_forall in Hs. specialize (Hs o Ho).
  apply andb_true_iff in Hs. destruct Hs as [_ Hb]. rewrite Hn in Hb. apply neg_sem_sound. exact Hb.
Qed.
End Inst.
