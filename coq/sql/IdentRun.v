(* executable entry point for the correspondence check of C06; the tables come from the generated
   file (Gen.C06_tables), which defines run_case := run_case_with tables *)
From Coq Require Import List NArith ZArith Bool.
Import ListNotations.
From SAV.base Require Import Tree.
From SAV.sql Require Import Ident.

Definition as_str (t : tree) : option str := as_list_of as_N t.
Definition of_str (s : str) : tree := of_list of_N s.

Definition err : tree := L [I 1].

Definition as_force (t : tree) : option (option bool) :=
  match t with
  | I 0%Z => Some None | I 1%Z => Some (Some true) | I 2%Z => Some (Some false)
  | _ => None
  end.
(* None is [L []], Some s is [L [s]] *)
Definition as_opt_str (t : tree) : option (option str) :=
  match t with
  | L [] => Some None
  | L [s] => match as_str s with Some s' => Some (Some s') | None => None end
  | _ => None
  end.

Definition unformat_tree (p : prep) (text : str) : tree :=
  match unformat p text with Some l => of_list of_str l | None => L [I (-2)%Z] end.

(* ops: 0 quote(name, force)                         -> [0; text] | [1] (IndexError)
        1 format_table / format_column with schema  -> [0; table text; column text; unformat(column text)] | [1]
        2 unformat_identifiers(text)                -> [0; components]
        3 backend lexer (spec side)                 -> [0; name] | [1]
        4 quote_identifier, _requires_quotes_illegal_chars, _unescape_identifier
        5 SQLite round trip prediction (table 0): the harness attaches a schema called exactly [name]; the
          statements refer to schema, table, column and index by what the backend reads from quote(name)
                                                    -> [0; schema; table; column; index; index in the schema] | [1]
        7, 8 see below *)
Definition res_tree (r : res str) : tree := match r with Ok x => L [I 0; of_str x] | RaiseIndexError => err end.

Definition run_op (op : Z) (pb : prep * backend) (args : list tree) : tree :=
  let '(p, b) := pb in
  match op, args with
  | 0%Z, [tn; tf] =>
      match as_str tn, as_force tf with
      | Some v, Some f => match quote_force p f v with Ok q => L [I 0; of_str q] | RaiseIndexError => err end
      | _, _ => bad_input
      end
  | 1%Z, [ts; ttb; tc] =>
      match as_opt_str ts, as_str ttb, as_str tc with
      | Some s, Some t, Some c =>
          match format_table p s t, format_column p s t c with
          | Ok ft, Ok fc => L [I 0; of_str ft; of_str fc; unformat_tree p fc]
          | _, _ => err
          end
      | _, _, _ => bad_input
      end
  | 2%Z, [tx] =>
      match as_str tx with Some x => L [I 0; unformat_tree p x] | None => bad_input end
  | 3%Z, [tx] =>
      match as_str tx with
      | Some x => match lex_ident b x with Some n => L [I 0; of_str n] | None => err end
      | None => bad_input
      end
  | 4%Z, [tn] =>
      match as_str tn with
      | Some v => L [I 0; of_str (quote_identifier p v); of_bool (requires_quotes_illegal_chars p v);
                     of_str (unescape_identifier p v)]
      | None => bad_input
      end
  | 5%Z, [tn] =>
      match as_str tn with
      | Some v => match quote p v with
                  | Ok q => match lex_sent b q with
                            | Some n => if str_eqb n v
                                        then L [I 0; of_str n; of_str n; of_str n; of_str n; of_str n]
                                        else err      (* refers to a schema that does not exist *)
                            | None => err
                            end
                  | RaiseIndexError => err
                  end
      | None => bad_input
      end
  | 7%Z, [ts; tn] =>      (* DDLCompiler._prepared_index_name with / without the schema *)
      match as_opt_str ts, as_str tn with
      | Some sc, Some i =>
          match prepared_index_name p true sc i, prepared_index_name p false sc i with
          | Ok a, Ok c => L [I 0; of_str a; of_str c]
          | _, _ => err
          end
      | _, _ => bad_input
      end
  | 8%Z, [ts; ttb; tn] => (* SQLite CREATE INDEX / DROP INDEX text *)
      match as_opt_str ts, as_str ttb, as_str tn with
      | Some sc, Some t, Some i =>
          match sqlite_create_index p sc t i, drop_index p sc i with
          | Ok a, Ok c => L [I 0; of_str a; of_str c]
          | _, _ => err
          end
      | _, _, _ => bad_input
      end
  | _, _ => bad_input
  end.

Definition run_case_with (tables : list (prep * backend)) (t : tree) : tree :=
  match t with
  | L (I op :: I d :: args) =>
      if (d <? 0)%Z then bad_input else
      match nth_error tables (Z.to_nat d) with
      | Some pb => run_op op pb args
      | None => bad_input
      end
  | _ => bad_input
  end.
