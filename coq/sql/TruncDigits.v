(* C21 - lemmas on the positional rendering of counters (hex(n)[2:], str(n)) and on slicing *)
From Coq Require Import List NArith ZArith Bool Lia.
Import ListNotations.
From SAV.sql Require Import Trunc.

Local Open Scope N_scope.

(* ---------- value of a digit list ---------- *)
Definition dval (b : N) (l : list N) : N := fold_left (fun a d => a * b + d) l 0.

Lemma dval_app1 : forall b l d, dval b (l ++ [d]) = dval b l * b + d.
Proof. intros. unfold dval. rewrite fold_left_app. reflexivity. Qed.

Lemma digits_fuel_acc : forall b f n acc, digits_fuel b f n acc = digits_fuel b f n [] ++ acc.
Proof.
  induction f as [|f IH]; intros n acc; cbn [digits_fuel].
  - reflexivity.
  - destruct (n / b =? 0).
    + reflexivity.
    + rewrite (IH _ (n mod b :: acc)), (IH _ [n mod b]). rewrite <- app_assoc. reflexivity.
Qed.

Lemma pow2_step : forall b f n, 2 <= b -> n < 2 ^ N.of_nat (S f) -> n / b < 2 ^ N.of_nat f.
Proof.
  intros b f n Hb Hn. apply N.div_lt_upper_bound; [lia|].
  rewrite Nat2N.inj_succ, N.pow_succ_r' in Hn.
  assert (2 * 2 ^ N.of_nat f <= b * 2 ^ N.of_nat f) by (apply N.mul_le_mono_r; exact Hb). lia.
Qed.

Lemma digits_fuel_spec : forall b, 2 <= b -> forall f n, n < 2 ^ N.of_nat f ->
  dval b (digits_fuel b f n []) = n /\ Forall (fun d => d < b) (digits_fuel b f n []).
Proof.
  intros b Hb. induction f as [|f IH]; intros n Hn.
  - cbn in Hn. assert (n = 0) by lia. subst. cbn. split; constructor.
  - cbn [digits_fuel]. destruct (n / b =? 0) eqn:E.
    + apply N.eqb_eq in E. split.
      * unfold dval; cbn [fold_left]. pose proof (N.div_mod n b ltac:(lia)). rewrite E in H. lia.
      * constructor; [apply N.mod_lt; lia|constructor].
    + rewrite digits_fuel_acc. destruct (IH (n / b) (pow2_step b f n Hb Hn)) as (Hv & Hf).
      split.
      * rewrite dval_app1, Hv. pose proof (N.div_mod n b ltac:(lia)). lia.
      * apply Forall_app. split; [exact Hf|]. constructor; [apply N.mod_lt; lia|constructor].
Qed.

Lemma digits_fuel_nonempty : forall b f n, digits_fuel b (S f) n [] <> [].
Proof.
  intros. cbn [digits_fuel]. destruct (n / b =? 0); [discriminate|].
  rewrite digits_fuel_acc. intro H. apply app_eq_nil in H. destruct H; discriminate.
Qed.

Lemma fuel_enough : forall n, n < 2 ^ N.of_nat (S (N.to_nat (N.log2 n))).
Proof.
  intros n. rewrite Nat2N.inj_succ, N2Nat.id. destruct (N.eq_dec n 0) as [->|Hn].
  - cbn. lia.
  - apply N.log2_spec. lia.
Qed.

(* the fuel of [digits] is sufficient: the digit list denotes exactly n *)
Lemma digits_value : forall b n, 2 <= b -> dval b (digits b n) = n.
Proof. intros. unfold digits. apply digits_fuel_spec; [assumption|apply fuel_enough]. Qed.
Lemma digits_range : forall b n, 2 <= b -> Forall (fun d => d < b) (digits b n).
Proof. intros. unfold digits. apply digits_fuel_spec; [assumption|apply fuel_enough]. Qed.
Lemma digits_nonempty : forall b n, 2 <= b -> digits b n <> [].
Proof. intros. unfold digits. apply digits_fuel_nonempty. Qed.

Lemma digits_inj : forall b n m, 2 <= b -> digits b n = digits b m -> n = m.
Proof. intros b n m Hb H. rewrite <- (digits_value b n Hb), <- (digits_value b m Hb), H. reflexivity. Qed.

(* ---------- length of the rendering ---------- *)
Lemma digits_fuel_len_le : forall b, 2 <= b -> forall f n k, n < 2 ^ N.of_nat f -> (1 <= k)%nat ->
  n < b ^ N.of_nat k -> (length (digits_fuel b f n []) <= k)%nat.
Proof.
  intros b Hb. induction f as [|f IH]; intros n k Hn Hk Hlt.
  - cbn. lia.
  - cbn [digits_fuel]. destruct (n / b =? 0) eqn:E.
    + cbn. lia.
    + apply N.eqb_neq in E. rewrite digits_fuel_acc, app_length. cbn [length].
      destruct k as [|k]; [lia|]. destruct k as [|k].
      * exfalso. change (N.of_nat 1) with 1 in Hlt. rewrite N.pow_1_r in Hlt. apply E. apply N.div_small. exact Hlt.
      * assert (n / b < b ^ N.of_nat (S k)).
        { apply N.div_lt_upper_bound; [lia|]. rewrite (Nat2N.inj_succ (S k)), N.pow_succ_r' in Hlt. exact Hlt. }
        specialize (IH (n / b) (S k) (pow2_step b f n Hb Hn) ltac:(lia) H). lia.
Qed.

Lemma digits_fuel_len_gt : forall b, 2 <= b -> forall f n k, n < 2 ^ N.of_nat f ->
  b ^ N.of_nat k <= n -> (k < length (digits_fuel b f n []))%nat.
Proof.
  intros b Hb. induction f as [|f IH]; intros n k Hn Hge.
  - cbn in Hn. assert (0 < b ^ N.of_nat k) by (apply N.neq_0_lt_0, N.pow_nonzero; lia). lia.
  - cbn [digits_fuel]. destruct k as [|k].
    + destruct (n / b =? 0); [cbn; lia|]. rewrite digits_fuel_acc, app_length. cbn. lia.
    + rewrite Nat2N.inj_succ, N.pow_succ_r' in Hge.
      assert (Hq : b ^ N.of_nat k <= n / b).
      { apply N.div_le_lower_bound; [lia|]. exact Hge. }
      assert (0 < b ^ N.of_nat k) by (apply N.neq_0_lt_0, N.pow_nonzero; lia).
      destruct (n / b =? 0) eqn:E; [apply N.eqb_eq in E; lia|].
      rewrite digits_fuel_acc, app_length. cbn [length].
      specialize (IH (n / b) k (pow2_step b f n Hb Hn) Hq). lia.
Qed.

(* n has at most k digits exactly when n < base^k *)
Lemma digits_len_le : forall b n k, 2 <= b -> (1 <= k)%nat -> n < b ^ N.of_nat k ->
  (length (digits b n) <= k)%nat.
Proof. intros. unfold digits. apply digits_fuel_len_le; auto. apply fuel_enough. Qed.
Lemma digits_len_gt : forall b n k, 2 <= b -> b ^ N.of_nat k <= n -> (k < length (digits b n))%nat.
Proof. intros. unfold digits. apply digits_fuel_len_gt; auto. apply fuel_enough. Qed.
Lemma digits_len_ge1 : forall b n, 2 <= b -> (1 <= length (digits b n))%nat.
Proof. intros b n Hb. pose proof (digits_nonempty b n Hb). destruct (digits b n); [congruence|cbn; lia]. Qed.

(* ---------- characters ---------- *)
Lemma hexchar_inj : forall a b, a < 16 -> b < 16 -> hexchar a = hexchar b -> a = b.
Proof.
  intros a b Ha Hb. unfold hexchar. destruct (a <? 10) eqn:Ea, (b <? 10) eqn:Eb;
  try apply N.ltb_lt in Ea; try apply N.ltb_lt in Eb; try apply N.ltb_ge in Ea; try apply N.ltb_ge in Eb; lia.
Qed.
Lemma hexchar_not_us : forall a, a < 16 -> hexchar a <> underscore.
Proof.
  intros a Ha. unfold hexchar, underscore. destruct (a <? 10) eqn:Ea;
  [apply N.ltb_lt in Ea | apply N.ltb_ge in Ea]; lia.
Qed.
Lemma decchar_inj : forall a b, decchar a = decchar b -> a = b.
Proof. unfold decchar. intros. lia. Qed.
Lemma decchar_not_us : forall a, a < 10 -> decchar a <> underscore.
Proof. unfold decchar, underscore. intros. lia. Qed.

Lemma map_inj_on : forall (f : N -> N) (P : N -> Prop),
  (forall a b, P a -> P b -> f a = f b -> a = b) ->
  forall l m, Forall P l -> Forall P m -> map f l = map f m -> l = m.
Proof.
  intros f P Hf. induction l as [|x l IH]; intros [|y m] Hl Hm H; cbn in H; try discriminate; auto.
  inversion H. inversion Hl; inversion Hm; subst. f_equal; auto.
Qed.

Definition hexs (n : N) : str := map hexchar (digits 16 n).   (* hex(n)[2:] *)

Lemma hexs_inj : forall n m, hexs n = hexs m -> n = m.
Proof.
  intros n m H. apply (digits_inj 16); [lia|].
  apply (map_inj_on hexchar (fun d => d < 16) hexchar_inj); auto; apply digits_range; lia.
Qed.
Lemma hexs_len : forall n, length (hexs n) = length (digits 16 n).
Proof. intros. unfold hexs. apply map_length. Qed.
Lemma py_dec_inj : forall n m, py_dec n = py_dec m -> n = m.
Proof.
  intros n m H. apply (digits_inj 10); [lia|].
  apply (map_inj_on decchar (fun _ => True) (fun a b _ _ => decchar_inj a b)); auto;
  apply Forall_forall; auto.
Qed.
Lemma py_dec_no_us : forall n, ~ In underscore (py_dec n).
Proof.
  intros n H. unfold py_dec in H. apply in_map_iff in H. destruct H as (d & Hd & Hin).
  pose proof (digits_range 10 n ltac:(lia)) as Hr. rewrite Forall_forall in Hr.
  apply (decchar_not_us d); auto.
Qed.

(* hex(counter)[2:] is the digit string *)
Lemma hex_skip_ok : forall n, slice_from (py_hex n) hex_skip = hexs n.
Proof. intros. reflexivity. Qed.

(* ---------- slicing ---------- *)
Local Open Scope Z_scope.

Lemma slice_to_len_nonneg : forall s e, 0 <= e -> slen (slice_to s e) = Z.min e (slen s).
Proof.
  intros s e He. unfold slice_to, slen. destruct (e <? 0) eqn:E; [apply Z.ltb_lt in E; lia|].
  rewrite firstn_length. lia.
Qed.
Lemma slice_to_len_neg : forall s e, e < 0 -> slen (slice_to s e) = Z.max (slen s + e) 0.
Proof.
  intros s e He. unfold slice_to. destruct (e <? 0) eqn:E; [|apply Z.ltb_ge in E; lia].
  unfold slen. rewrite firstn_length. lia.
Qed.
Lemma slice_from_len_neg : forall s b, b < 0 -> slen (slice_from s b) = Z.min (slen s) (- b).
Proof.
  intros s b Hb. unfold slice_from. destruct (b <? 0) eqn:E; [|apply Z.ltb_ge in E; lia].
  unfold slen. rewrite skipn_length. lia.
Qed.

(* splitting at the last underscore: body ++ "_" ++ digits is unambiguous *)
Lemma split_last_sep : forall (c : N) (d1 d2 b1 b2 : str),
  ~ In c d1 -> ~ In c d2 -> b1 ++ [c] ++ d1 = b2 ++ [c] ++ d2 -> b1 = b2 /\ d1 = d2.
Proof.
  intros c d1 d2 b1 b2 H1 H2 H.
  assert (Hr : rev d1 ++ c :: rev b1 = rev d2 ++ c :: rev b2).
  { apply (f_equal (@rev N)) in H. rewrite !rev_app_distr in H. cbn in H.
    rewrite <- !app_assoc in H. exact H. }
  assert (G : forall (x y p q : str), ~ In c x -> ~ In c y -> x ++ c :: p = y ++ c :: q -> x = y /\ p = q).
  { induction x as [|a x IH]; intros [|b y] p q Hx Hy E; cbn in E.
    - inversion E. auto.
    - inversion E. subst. exfalso. apply Hy. left. reflexivity.
    - inversion E. subst. exfalso. apply Hx. left. reflexivity.
    - inversion E. subst. destruct (IH y p q) as [-> ->]; auto.
      + intro; apply Hx; right; assumption.
      + intro; apply Hy; right; assumption. }
  destruct (G (rev d1) (rev d2) (rev b1) (rev b2)) as [Ha Hb]; auto.
  - rewrite <- in_rev. exact H1.
  - rewrite <- in_rev. exact H2.
  - split.
    + rewrite <- (rev_involutive b1), <- (rev_involutive b2), Hb. reflexivity.
    + rewrite <- (rev_involutive d1), <- (rev_involutive d2), Ha. reflexivity.
Qed.

(* equal-length prefixes can be cancelled *)
Lemma app_inv_len : forall (a b c d : str), length a = length b -> a ++ c = b ++ d -> a = b /\ c = d.
Proof.
  induction a as [|x a IH]; intros [|y b] c d Hl H; cbn in *; try discriminate; auto.
  inversion H. subst. destruct (IH b c d) as [-> ->]; auto.
Qed.
