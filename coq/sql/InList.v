(* C07 - IN / NOT IN with "expanding" bound parameters.  Definitions only (proofs: InListProofs*.v).

   CODE SIDE (transcribed from lib/sqlalchemy):
     sql/default_comparator.py  _in_impl                       -> [in_impl]
     sql/coercions.py           InElementImpl._post_coercion   -> [in_impl] (expand_op := operator)
     sql/elements.py            BinaryExpression._negate, BindParameter._negate_in_binary
                                                               -> [negate], [negate_in_binary]
     sql/compiler.py            visit_binary / visit_not_in_op_binary / visit_bindparam (expanding)
                                                               -> [compile_template]
                                visit_empty_set_op_expr, visit_empty_set_expr (+ sqlite / postgresql /
                                mysql overrides)               -> [visit_empty_set_op_expr] ...
                                _literal_execute_expanding_parameter            -> [leep]
                                _literal_execute_expanding_parameter_literal_binds -> [leep_literal]
                                _process_parameters_for_postcompile             -> [process]
   Rendered SQL is a list of tokens (the code works on strings: the placeholder "__[POSTCOMPILE_x]" is
   replaced by a replacement string that is NOT balanced for the default empty-set form
   "NULL) AND (1 != 1" - which is why the model is token based and the spec side is a parser).

   SPEC SIDE: [in_sem] (SQL's definition of IN), [or_eq] (Kleene OR of equalities), and an evaluator
   [teval] for the boolean-expression fragment of SQL the renderings fall into, with SQL's precedence
   (OR < AND < NOT < comparison / IN).  The spec side is validated against SQLite on every run. *)
From Coq Require Import List ZArith NArith Bool.
Import ListNotations.
From SAV.sql Require Import Val3.

(* ------------------------------------------------------------------------------------------ *)
(** * Spec: the meaning of IN *)

(* SQL: "x IN (r1..rn)" is TRUE if some x = ri is TRUE; otherwise UNKNOWN if some x = ri is UNKNOWN;
   otherwise (in particular for n = 0) FALSE.  Operands are rows (a scalar is a row of arity 1). *)
Definition in_sem (x : list sv) (rows : list (list sv)) : tv :=
  if existsb (fun r => is_true (row_eq3 x r)) rows then TT
  else if existsb (fun r => is_unknown (row_eq3 x r)) rows then TU else TF.
(* the "equivalent explicit OR-of-equalities":  x = r1 OR x = r2 OR ... (FALSE for the empty list) *)
Definition or_eq (x : list sv) (rows : list (list sv)) : tv :=
  fold_right (fun r acc => or3 (row_eq3 x r) acc) TF rows.

(* ------------------------------------------------------------------------------------------ *)
(** * Tokens of rendered SQL *)
Inductive tok :=
| TLp | TRp | TComma | TIn | TNot | TAnd | TOr | TNull | TEq | TNe
| TSelect | TFrom | TWhere | TValues
| TNum (z : Z)            (* integer literal *)
| TStr (s : list N)       (* string literal *)
| TCol (c : N)            (* column reference *)
| TQ                      (* positional placeholder "?" / "%s" *)
| TBind (i j : N)         (* named placeholder ":x_1_<i>" (j = 0) or ":x_1_<i>_<j>" *)
| TOther (n : N)          (* named placeholder of an ordinary (non expanding) parameter *)
| TPost                   (* "__[POSTCOMPILE_x_1]" *)
| TWord (w : N)           (* any other word: CAST AS INTEGER _in_0 _empty_set ... *)
| TVal (v : sv).          (* a value already substituted for a column / placeholder (spec side only) *)

Fixpoint join (sep : list tok) (parts : list (list tok)) : list tok :=
  match parts with
  | [] => []
  | [p] => p
  | p :: rest => p ++ sep ++ join sep rest
  end.

(* ------------------------------------------------------------------------------------------ *)
(** * Code side: expression construction *)
Inductive inop := OIn | ONotIn.
Definition inop_eqb (a b : inop) : bool :=
  match a, b with OIn, OIn | ONotIn, ONotIn => true | _, _ => false end.
Definition negate_op (o : inop) : inop := match o with OIn => ONotIn | ONotIn => OIn end.

(* the type of the expanding bind parameter: a scalar type, TupleType with k element types, or
   NullType (left operand without a type, e.g. literal_column / text) *)
Inductive bkind := KScalar | KTuple (k : nat) | KNull.
Record bindparam := { bp_kind : bkind; bp_expand_op : option inop }.

Inductive lhs := LCol (c : N) | LTuple (cs : list N).
Definition lhs_kind (l : lhs) : bkind := match l with LCol _ => KScalar | LTuple cs => KTuple (length cs) end.

Record inexpr := {
  ie_left : lhs; ie_bind : bindparam; ie_op : inop; ie_negate : inop;
  ie_text : bool  (* written by the user in text(): "x NOT IN :q" has no surrounding brackets *)
}.

(* _in_impl -> coercions.expect(InElementRole) -> expr._bind_param(operator, list, expanding=True),
   _post_coercion: element.expand_op = operator; _boolean_compare(expr, op, .., negate_op=negate_op) *)
Definition in_impl (left : lhs) (kind : bkind) (op : inop) : inexpr :=
  {| ie_left := left; ie_bind := {| bp_kind := kind; bp_expand_op := Some op |};
     ie_op := op; ie_negate := negate_op op; ie_text := false |}.
(* text("x [NOT] IN :q").bindparams(bindparam("q", expanding=True)): expand_op stays None *)
Definition text_in (left : lhs) (op : inop) : inexpr :=
  {| ie_left := left; ie_bind := {| bp_kind := KNull; bp_expand_op := None |};
     ie_op := op; ie_negate := negate_op op; ie_text := true |}.

Definition opt_inop_eqb (a : option inop) (b : inop) : bool :=
  match a with Some a' => inop_eqb a' b | None => false end.
(* BindParameter._negate_in_binary *)
Definition negate_in_binary (b : bindparam) (negated_op original_op : inop) : bindparam :=
  if opt_inop_eqb b.(bp_expand_op) original_op
  then {| bp_kind := b.(bp_kind); bp_expand_op := Some negated_op |}
  else b.
(* BinaryExpression._negate (self.negate is not None) *)
Definition negate (e : inexpr) : inexpr :=
  {| ie_left := e.(ie_left);
     ie_bind := negate_in_binary e.(ie_bind) e.(ie_negate) e.(ie_op);
     ie_op := e.(ie_negate); ie_negate := e.(ie_op); ie_text := e.(ie_text) |}.

(* ------------------------------------------------------------------------------------------ *)
(** * Code side: compilation to a template *)
Definition lhs_tokens (l : lhs) : list tok :=
  match l with
  | LCol c => [TCol c]
  | LTuple cs => TLp :: join [TComma] (map (fun c => [TCol c]) cs) ++ [TRp]    (* visit_tuple *)
  end.
Definition op_tokens (o : inop) : list tok := match o with OIn => [TIn] | ONotIn => [TNot; TIn] end.
(* visit_bindparam, expanding: "(" + "__[POSTCOMPILE_name]" + ")" *)
Definition bind_template : list tok := [TLp; TPost; TRp].
(* _generate_generic_binary *)
Definition generic_binary (e : inexpr) (right : list tok) : list tok :=
  lhs_tokens e.(ie_left) ++ op_tokens e.(ie_op) ++ right.
(* visit_binary -> visit_in_op_binary (generic) / visit_not_in_op_binary ("(%s)" % ...) *)
Definition render_binary (e : inexpr) (right : list tok) : list tok :=
  match e.(ie_op) with
  | OIn => generic_binary e right
  | ONotIn => if e.(ie_text) then generic_binary e right else [TLp] ++ generic_binary e right ++ [TRp]
  end.
Definition compile_template (e : inexpr) : list tok := render_binary e bind_template.

(* ------------------------------------------------------------------------------------------ *)
(** * Code side: dialects and the empty-set expressions *)
Inductive exn := NotImplementedError | KeyError | IndexError | TypeError | AttributeError.
Inductive result (A : Type) := Ok (a : A) | Raise (e : exn).
Arguments Ok {A} a.
Arguments Raise {A} e.
Definition bind {A B} (r : result A) (f : A -> result B) : result B :=
  match r with Ok a => f a | Raise e => Raise e end.

Inductive empty_style := ENone | ESqlite | EPg | EMysql.
Record dialect := {
  d_positional : bool;          (* paramstyle qmark/format (True) or named/pyformat (False) *)
  d_tuple_in_values : bool;     (* dialect.tuple_in_values *)
  d_empty_op_override : bool;   (* SQLiteCompiler.visit_empty_set_op_expr -> visit_empty_set_expr *)
  d_empty : empty_style         (* which visit_empty_set_expr *)
}.
Definition sqlite_dialect := {| d_positional := true; d_tuple_in_values := true;
                                d_empty_op_override := true; d_empty := ESqlite |}.
Definition default_dialect := {| d_positional := false; d_tuple_in_values := false;
                                 d_empty_op_override := false; d_empty := ENone |}.
Definition pg_dialect := {| d_positional := false; d_tuple_in_values := false;
                            d_empty_op_override := false; d_empty := EPg |}.
Definition mysql_dialect := {| d_positional := true; d_tuple_in_values := false;
                               d_empty_op_override := false; d_empty := EMysql |}.

(* words *)
Definition W_CAST : N := 0.  Definition W_AS : N := 1.  Definition W_INTEGER : N := 2.
Definition W_EMPTY_SET : N := 3.  Definition W_IN_ (idx : nat) : N := (10 + N.of_nat idx)%N.

Definition one_ne_one : list tok := [TNum 1; TNe; TNum 1].
Definition ones (k : nat) : list tok := join [TComma] (repeat [TNum 1] k).
Definition nulls (k : nat) : list tok := join [TComma] (repeat [TNull] k).
Definition or_one (k : nat) : nat := match k with O => 1%nat | _ => k end.   (* element_types or [INTEGER()] *)

(* visit_empty_set_expr of the base compiler / sqlite / postgresql / mysql; k = len(element_types) *)
Definition visit_empty_set_expr (d : dialect) (k : nat) : result (list tok) :=
  match d.(d_empty) with
  | ENone => Raise NotImplementedError
  | ESqlite =>
      Ok ([TSelect] ++ ones (or_one k) ++ [TFrom; TLp; TSelect] ++ ones (or_one k) ++ [TRp; TWhere] ++ one_ne_one)
  | EPg =>
      Ok ([TSelect] ++ join [TComma] (repeat [TWord W_CAST; TLp; TNull; TWord W_AS; TWord W_INTEGER; TRp] (or_one k))
          ++ [TWhere] ++ one_ne_one)
  | EMysql =>
      Ok ([TSelect] ++ join [TComma] (map (fun i => [TWord (W_IN_ i)]) (seq 0 k))
          ++ [TFrom; TLp; TSelect]
          ++ join [TComma] (map (fun i => [TNum 1; TWord W_AS; TWord (W_IN_ i)]) (seq 0 k))
          ++ [TRp; TWord W_AS; TWord W_EMPTY_SET; TWhere] ++ one_ne_one)
  end.

(* SQLCompiler.visit_empty_set_op_expr (SQLite overrides it to always use the subquery) *)
Definition visit_empty_set_op_expr (d : dialect) (k : nat) (expand_op : option inop) : result (list tok) :=
  if d.(d_empty_op_override) then visit_empty_set_expr d k else
  match expand_op with
  | Some ONotIn =>
      Ok ((if Nat.ltb 1 k then [TLp] ++ nulls k ++ [TRp; TRp] else [TNull; TRp]) ++ [TOr; TLp; TNum 1; TEq; TNum 1])
  | Some OIn =>
      Ok ((if Nat.ltb 1 k then [TLp] ++ nulls k ++ [TRp; TRp] else [TNull; TRp]) ++ [TAnd; TLp; TNum 1; TNe; TNum 1])
  | None => visit_empty_set_expr d k
  end.

(* ------------------------------------------------------------------------------------------ *)
(** * Code side: expanding one parameter *)
(* a value of the list handed to in_(): a plain value or a Python tuple *)
Inductive value := VScalar (v : sv) | VTuple (l : list sv).
Definition is_sequence (v : value) : bool := match v with VTuple _ => true | VScalar _ => false end.

(* parameter.type.types (tuple) / [parameter.type] *)
Definition type_count (b : bindparam) : nat := match b.(bp_kind) with KTuple k => k | _ => 1%nat end.
Definition is_tuple_type (b : bindparam) : bool := match b.(bp_kind) with KTuple _ => true | _ => false end.
Definition is_null_type (b : bindparam) : bool := match b.(bp_kind) with KNull => true | _ => false end.

Notation key := (N * N)%type.     (* "name_i" = (i, 0) ; "name_i_j" = (i, j) *)
Definition key_eqb (a b : key) : bool := N.eqb (fst a) (fst b) && N.eqb (snd a) (snd b).
(* bind_template % {"name": name}: "?" for positional dialects *)
Definition render_bindtemplate (d : dialect) (k : key) : tok :=
  if d.(d_positional) then TQ else TBind (fst k) (snd k).

(* enumerate(l, 1) *)
Fixpoint enum_from {A} (n : N) (l : list A) : list (N * A) :=
  match l with [] => [] | a :: r => (n, a) :: enum_from (N.succ n) r end.

Definition tuple_items (v : value) : result (list sv) :=
  match v with VTuple l => Ok l | VScalar _ => Raise TypeError end.    (* enumerate(<int>) *)
Fixpoint all_ok {A} (l : list (result A)) : result (list A) :=
  match l with
  | [] => Ok []
  | Ok a :: r => bind (all_ok r) (fun r' => Ok (a :: r'))
  | Raise e :: _ => Raise e
  end.

(* the branch condition shared by both expansion functions *)
Definition tuple_branch (b : bindparam) (values : list value) : bool :=
  is_tuple_type b || (is_null_type b && match values with v0 :: _ => is_sequence v0 | [] => false end).

(* _literal_execute_expanding_parameter (parameter.literal_execute False) *)
Definition leep (d : dialect) (b : bindparam) (values : list value)
  : result (list (key * sv) * list tok) :=
  match values with
  | [] =>
      bind (visit_empty_set_op_expr d (type_count b) b.(bp_expand_op)) (fun repl => Ok ([], repl))
  | _ =>
      if tuple_branch b values then
        bind (all_ok (map tuple_items values)) (fun tuples =>
        let to_update :=
          flat_map (fun it => map (fun jv => ((fst it, fst jv), snd jv)) (enum_from 1 (snd it)))
                   (enum_from 1 tuples) in
        (* to_update[i * len(tuple_element) + j][0]  with 0-based i, j *)
        let cell (i : nat) (te : list sv) (j : nat) : result tok :=
          match nth_error to_update (i * length te + j) with
          | Some (k, _) => Ok (render_bindtemplate d k)
          | None => Raise IndexError
          end in
        bind (all_ok (map (fun it =>
                bind (all_ok (map (cell (fst it) (snd it)) (seq 0 (length (snd it)))))
                     (fun cells => Ok ([TLp] ++ join [TComma] (map (fun c => [c]) cells) ++ [TRp])))
              (combine (seq 0 (length tuples)) tuples))) (fun rows =>
        Ok (to_update, (if d.(d_tuple_in_values) then [TValues] else []) ++ join [TComma] rows)))
      else
        bind (all_ok (map (fun v => match v with VScalar s => Ok s | VTuple _ => Raise TypeError end) values))
        (fun scalars =>
        let to_update := map (fun iv => ((fst iv, 0%N), snd iv)) (enum_from 1 scalars) in
        Ok (to_update, join [TComma] (map (fun kv => [render_bindtemplate d (fst kv)]) to_update)))
  end.

(* render_literal_value (Integer / String / None) *)
Definition render_literal_value (v : sv) : tok :=
  match v with SNull => TNull | SInt z => TNum z | SText s => TStr s end.

(* _literal_execute_expanding_parameter_literal_binds (no bind_expression_template) *)
Definition leep_literal (d : dialect) (b : bindparam) (values : list value) : result (list tok) :=
  match values with
  | [] =>
      (* (since a8e8272 no "VALUES " before the empty-set expression of a tuple type) *)
      if is_tuple_type b then visit_empty_set_op_expr d (type_count b) b.(bp_expand_op)
      else visit_empty_set_op_expr d 1 b.(bp_expand_op)
  | _ =>
      if tuple_branch b values then
        match b.(bp_kind) with
        | KTuple k =>                                 (* zip(tuple_element, parameter.type.types) truncates *)
            bind (all_ok (map tuple_items values)) (fun tuples =>
            Ok ((if d.(d_tuple_in_values) then [TValues] else [])
                ++ join [TComma] (map (fun te => [TLp] ++ join [TComma] (map (fun v => [render_literal_value v]) (firstn k te)) ++ [TRp]) tuples)))
        | _ => Raise AttributeError                   (* NullType has no attribute 'types' *)
        end
      else
        bind (all_ok (map (fun v => match v with VScalar s => Ok s | VTuple _ => Raise TypeError end) values))
        (fun scalars => Ok (join [TComma] (map (fun v => [render_literal_value v]) scalars)))
  end.

(* compile(compile_kwargs={"literal_binds": True}): visit_bindparam -> render_literal_bindparam -> "(%s)" *)
Definition compile_literal (d : dialect) (e : inexpr) (values : list value) : result (list tok) :=
  bind (leep_literal d e.(ie_bind) values) (fun repl => Ok (render_binary e ([TLp] ++ repl ++ [TRp]))).

(* ------------------------------------------------------------------------------------------ *)
(** * Code side: the compiled object and _process_parameters_for_postcompile *)
(* names in positiontup: the expanding parameter, an ordinary parameter, an already expanded name *)
Inductive pname := PParam | POther (n : N) | PExp (k : key).

Record compiled := {
  c_dialect : dialect;
  c_bind : bindparam;                       (* self.binds[name], in self.post_compile_params *)
  c_string : list tok;                      (* self.string *)
  c_pre_string : option (list tok);         (* self._pre_expanded_string *)
  c_bind_names : list pname;                (* self.bind_names.values(), in order of first visit *)
  c_positiontup : list pname;               (* self.positiontup (positional dialects) *)
  c_pre_positiontup : option (list pname)   (* self._pre_expanded_positiontup *)
}.

Record expanded := {
  x_statement : list tok;
  x_params : list (pname * sv);             (* parameters after pop / update, in dict order *)
  x_positiontup : option (list pname)
}.

Definition subst (repl : option (list tok)) (s : list tok) : result (list tok) :=
  fold_right (fun t acc =>
     match t with
     | TPost => match repl with Some r => bind acc (fun a => Ok (r ++ a)) | None => Raise KeyError end
     | _ => bind acc (fun a => Ok (t :: a))
     end) (Ok []) s.

(* the loop "for name in names" ; state: parameters, new_positiontup, replacement (and to_update_sets) *)
Record pstate := {
  ps_params : list (pname * sv);
  ps_pos : list pname;
  ps_repl : option (list (key * sv) * list tok)
}.
Definition remove_param (p : pname) (l : list (pname * sv)) : list (pname * sv) :=
  filter (fun kv => match fst kv, p with PParam, PParam => false | _, _ => true end) l.
Definition exp_params (u : list (key * sv)) : list (pname * sv) := map (fun kv => (PExp (fst kv), snd kv)) u.
(* dict.update with names that are not yet present (expanded names are new) *)
Definition update_params (l : list (pname * sv)) (u : list (key * sv)) : list (pname * sv) :=
  let fresh := filter (fun kv => negb (existsb (fun kv' => match fst kv' with PExp k' => key_eqb k' (fst kv) | _ => false end) l)) u in
  l ++ exp_params fresh.

Definition step (d : dialect) (b : bindparam) (values : list value) (st : pstate) (name : pname)
  : result pstate :=
  match name with
  | PParam =>
      match st.(ps_repl) with
      | Some (to_update, _) =>              (* escaped_name in replacement_expressions: the expansion of the
                                               first occurrence is reused (db2bb13 also keeps its values, which
                                               only the bind processors of tuple types - not modelled - read) *)
          Ok {| ps_params := update_params st.(ps_params) to_update;
                ps_pos := st.(ps_pos) ++ map (fun kv => PExp (fst kv)) to_update;
                ps_repl := st.(ps_repl) |}
      | None =>
          bind (leep d b values) (fun r =>
          Ok {| ps_params := update_params (remove_param PParam st.(ps_params)) (fst r);
                ps_pos := st.(ps_pos) ++ map (fun kv => PExp (fst kv)) (fst r);
                ps_repl := Some r |})
      end
  | POther n => Ok {| ps_params := st.(ps_params); ps_pos := st.(ps_pos) ++ [name]; ps_repl := st.(ps_repl) |}
  | PExp _ => Raise KeyError                (* self.binds[name] *)
  end.

Fixpoint run_names (d : dialect) (b : bindparam) (values : list value) (st : pstate) (names : list pname)
  : result pstate :=
  match names with
  | [] => Ok st
  | n :: r => bind (step d b values st n) (fun st' => run_names d b values st' r)
  end.

Definition lookup_param (p : pname) (l : list (pname * sv)) : option sv :=
  match find (fun kv => match fst kv, p with
                        | PParam, PParam => true
                        | POther a, POther b => N.eqb a b
                        | PExp a, PExp b => key_eqb a b
                        | _, _ => false end) l with
  | Some kv => Some (snd kv) | None => None end.

Definition or_else {A} (o : option A) (a : A) : A := match o with Some x => x | None => a end.

(* [others]: the values of the ordinary parameters; the expanding one is (PParam, <list>) - its list
   value is passed separately as [values] *)
Definition process (c : compiled) (others : list (pname * sv)) (values : list value) (populate_self : bool)
  : result (expanded * compiled) :=
  let d := c.(c_dialect) in
  let pre_expanded_string := or_else c.(c_pre_string) c.(c_string) in
  let pre_expanded_positiontup :=
    if d.(d_positional) then Some (or_else c.(c_pre_positiontup) c.(c_positiontup)) else None in
  let names := match pre_expanded_positiontup with
               | Some p => p
               | None => c.(c_bind_names)
               end in
  (* construct_params: one entry per bind name, in that order (the list value itself is [values]) *)
  let parameters := map (fun n => (n, match lookup_param n others with Some v => v | None => SNull end))
                        c.(c_bind_names) in
  bind (run_names d c.(c_bind) values
          {| ps_params := parameters; ps_pos := []; ps_repl := None |} names) (fun st =>
  bind (subst (option_map snd st.(ps_repl)) pre_expanded_string) (fun statement =>
  let new_positiontup := if d.(d_positional) then Some st.(ps_pos) else None in
  let ex := {| x_statement := statement; x_params := st.(ps_params); x_positiontup := new_positiontup |} in
  Ok (ex,
      if populate_self then
        {| c_dialect := d; c_bind := c.(c_bind); c_bind_names := c.(c_bind_names);
           c_string := statement; c_pre_string := Some pre_expanded_string;
           c_positiontup := (if d.(d_positional) then or_else new_positiontup [] else c.(c_positiontup));
           c_pre_positiontup := pre_expanded_positiontup |}
      else c))).

(* ------------------------------------------------------------------------------------------ *)
(** * Code side: a statement = context around the predicate, its compilation, the compiled cache *)
(* where the predicate stands (the SQL around it is rendered by code that belongs to other properties;
   what matters here is which tokens are adjacent to the predicate and which other parameters exist) *)
Inductive position :=
| PosBare                 (* WHERE <p>   /  SELECT <p> AS r *)
| PosCase                 (* CASE WHEN (<p>) THEN .. *)
| PosAnd (a b : Z)        (* WHERE t.id != :a AND <p> AND t.id != :b *)
| PosOr (a : Z).          (* WHERE t.id = :a OR <p> *)

Definition other_tok (d : dialect) (n : N) : tok := if d.(d_positional) then TQ else TOther n.
Definition ctx_pre (d : dialect) (p : position) : list tok :=
  match p with
  | PosBare => []
  | PosCase => [TLp]
  | PosAnd _ _ => [TCol 0; TNe; other_tok d 1; TAnd]
  | PosOr _ => [TCol 0; TEq; other_tok d 1; TOr]
  end.
Definition ctx_post (d : dialect) (p : position) : list tok :=
  match p with
  | PosBare => []
  | PosCase => [TRp]
  | PosAnd _ _ => [TAnd; TCol 0; TNe; other_tok d 2]
  | PosOr _ => []
  end.
Definition ctx_names_pre (p : position) : list pname :=
  match p with PosAnd _ _ | PosOr _ => [POther 1] | _ => [] end.
Definition ctx_names_post (p : position) : list pname :=
  match p with PosAnd _ _ => [POther 2] | _ => [] end.
Definition ctx_others (p : position) : list (pname * sv) :=
  match p with
  | PosAnd a b => [(POther 1, SInt a); (POther 2, SInt b)]
  | PosOr a => [(POther 1, SInt a)]
  | _ => []
  end.

Definition compile (d : dialect) (p : position) (e : inexpr) : compiled :=
  {| c_dialect := d; c_bind := e.(ie_bind);
     c_string := ctx_pre d p ++ compile_template e ++ ctx_post d p;
     c_pre_string := None;
     c_bind_names := ctx_names_pre p ++ [PParam] ++ ctx_names_post p;
     c_positiontup := ctx_names_pre p ++ [PParam] ++ ctx_names_post p;
     c_pre_positiontup := None |}.
Definition compile_literal_stmt (d : dialect) (p : position) (e : inexpr) (values : list value)
  : result (list tok) :=
  bind (compile_literal d e values) (fun t =>
  Ok (match p with
      | PosBare => t
      | PosCase => [TLp] ++ t ++ [TRp]
      | PosAnd a b => [TCol 0; TNe; TNum a; TAnd] ++ t ++ [TAnd; TCol 0; TNe; TNum b]
      | PosOr a => [TCol 0; TEq; TNum a; TOr] ++ t
      end)).

(* executions against one compiled object (engine cache hit: _populate_self False;
   render_postcompile / construct_expanded_state: the first expansion ran with _populate_self True) *)
Fixpoint run_execs (c : compiled) (others : list (pname * sv)) (execs : list (list value * bool))
  : result (list expanded) :=
  match execs with
  | [] => Ok []
  | (values, populate) :: r =>
      bind (process c others values populate) (fun xc =>
      bind (run_execs (snd xc) others r) (fun xs => Ok (fst xc :: xs)))
  end.

(* ------------------------------------------------------------------------------------------ *)
(** * Spec side: evaluating rendered SQL *)
(* step 1: what the DBAPI does - substitute values for placeholders (positional: in order) and the
   current row for column references *)

Fixpoint close (row : N -> sv) (params : list (pname * sv)) (args : list sv) (ts : list tok)
  : option (list tok) :=
  match ts with
  | [] => match args with [] => Some [] | _ => None end        (* every positional argument is used *)
  | TQ :: r => match args with
               | a :: args' => option_map (cons (TVal a)) (close row params args' r)
               | [] => None end
  | TBind i j :: r => match lookup_param (PExp (i, j)) params with
                      | Some v => option_map (cons (TVal v)) (close row params args r) | None => None end
  | TOther n :: r => match lookup_param (POther n) params with
                     | Some v => option_map (cons (TVal v)) (close row params args r) | None => None end
  | TCol c :: r => option_map (cons (TVal (row c))) (close row params args r)
  | TPost :: _ => None
  | t :: r => option_map (cons t) (close row params args r)
  end.

Fixpoint all_some {A} (l : list (option A)) : option (list A) :=
  match l with
  | [] => Some []
  | Some a :: r => option_map (cons a) (all_some r)
  | None :: _ => None
  end.
Definition close_expanded (row : N -> sv) (x : expanded) : option (list tok) :=
  match x.(x_positiontup) with
  | Some pos => match all_some (map (fun p => lookup_param p x.(x_params)) pos) with
                | Some args => close row x.(x_params) args x.(x_statement)
                | None => None end
  | None => close row x.(x_params) [] x.(x_statement)
  end.

(* step 2: parse and evaluate closed tokens *)
Definition scalar_of (t : tok) : option sv :=
  match t with
  | TVal v => Some v | TNum z => Some (SInt z) | TNull => Some SNull | TStr s => Some (SText s)
  | _ => None
  end.

(* "s , s , s"  (at least one, greedy) *)
Fixpoint p_scalars (ts : list tok) : option (list sv * list tok) :=
  match ts with
  | t :: rest =>
      match scalar_of t with
      | Some v =>
          match rest with
          | TComma :: rest' =>
              match p_scalars rest' with Some (vs, r) => Some (v :: vs, r) | None => None end
          | _ => Some ([v], rest)
          end
      | None => None
      end
  | [] => None
  end.

(* an operand: a scalar or a row value "( s , s )" *)
Definition p_operand (ts : list tok) : option (list sv * list tok) :=
  match ts with
  | TLp :: rest => match p_scalars rest with Some (vs, TRp :: r) => Some (vs, r) | _ => None end
  | t :: rest => match scalar_of t with Some v => Some ([v], rest) | None => None end
  | [] => None
  end.

(* inside a row of "( s , s ) , ( s , s )" after its opening bracket; consumes the last ")" *)
Fixpoint p_rl (ts : list tok) (cur : list sv) (acc : list (list sv)) : option (list (list sv) * list tok) :=
  match ts with
  | t :: rest =>
      match scalar_of t with
      | None => None
      | Some v =>
          match rest with
          | TComma :: rest' => p_rl rest' (cur ++ [v]) acc
          | TRp :: TComma :: TLp :: rest' => p_rl rest' [] (acc ++ [cur ++ [v]])
          | TRp :: rest' => Some (acc ++ [cur ++ [v]], rest')
          | _ => None
          end
      end
  | [] => None
  end.
Definition p_rows (ts : list tok) : option (list (list sv) * list tok) :=
  match ts with TLp :: rest => p_rl rest [] [] | _ => None end.

(* select list [FROM ...] WHERE: number of result columns (top-level commas of the select list + 1)
   and the tokens after the top-level WHERE *)
Fixpoint sel_scan (ts : list tok) (depth commas : nat) (in_list : bool) : option (nat * list tok) :=
  match ts with
  | [] => None
  | TLp :: r => sel_scan r (S depth) commas in_list
  | TRp :: r => match depth with O => None | S d => sel_scan r d commas in_list end
  | TComma :: r => sel_scan r depth (match depth with O => if in_list then S commas else commas | _ => commas end) in_list
  | TFrom :: r => sel_scan r depth commas (match depth with O => false | _ => in_list end)
  | TWhere :: r => match depth with O => Some (S commas, r) | _ => sel_scan r depth commas in_list end
  | _ :: r => sel_scan r depth commas in_list
  end.

Definition same_arity (a b : list sv) : bool := Nat.eqb (length a) (length b).

(* "a = b" / "a != b" *)
Definition p_cmp (ts : list tok) : option (tv * list tok) :=
  match p_operand ts with
  | Some (a, TEq :: r) =>
      match p_operand r with
      | Some (b, r') => if same_arity a b then Some (row_eq3 a b, r') else None | None => None end
  | Some (a, TNe :: r) =>
      match p_operand r with
      | Some (b, r') => if same_arity a b then Some (not3 (row_eq3 a b), r') else None | None => None end
  | _ => None
  end.

(* what stands between "IN (" and the matching ")": (arity, rows, rest after the ")") *)
Definition p_inbody (ts : list tok) : option (nat * list (list sv) * list tok) :=
  match ts with
  | TSelect :: rest =>
      (* a subquery "SELECT .. WHERE cond": only the case where cond is not TRUE (no row) is supported *)
      match sel_scan rest 0 0 true with
      | Some (k, cond) =>
          match p_cmp cond with
          | Some (t, TRp :: r) => if is_true t then None else Some (k, [], r)
          | _ => None end
      | None => None
      end
  | TValues :: rest =>
      match p_rows rest with
      | Some (r0 :: rows, TRp :: r) => Some (length r0, r0 :: rows, r) | _ => None end
  | TLp :: _ =>
      match p_rows ts with
      | Some (r0 :: rows, TRp :: r) => Some (length r0, r0 :: rows, r) | _ => None end
  | _ =>
      match p_scalars ts with
      | Some (vs, TRp :: r) => Some (1%nat, map (fun v => [v]) vs, r) | _ => None end
  end.

Definition rows_ok (k : nat) (x : list sv) (rows : list (list sv)) : bool :=
  Nat.eqb (length x) k && forallb (fun r => Nat.eqb (length r) k) rows.

(* comparison / IN predicates (no recursion into sub-predicates) *)
Definition p_simple (ts : list tok) : option (tv * list tok) :=
  match p_operand ts with
  | Some (a, TIn :: TLp :: r) =>
      match p_inbody r with
      | Some (k, rows, r') => if rows_ok k a rows then Some (in_sem a rows, r') else None
      | None => None end
  | Some (a, TNot :: TIn :: TLp :: r) =>
      match p_inbody r with
      | Some (k, rows, r') => if rows_ok k a rows then Some (not3 (in_sem a rows), r') else None
      | None => None end
  | Some (a, TEq :: _) | Some (a, TNe :: _) => p_cmp ts
  | _ => None
  end.

Inductive level := LOr | LAnd | LNot | LAtom.
Inductive pres := POk (t : tv) (rest : list tok) | PErr | PFuel.

Fixpoint parse (fuel : nat) (lvl : level) (ts : list tok) : pres :=
  match fuel with
  | O => PFuel
  | S f =>
      match lvl with
      | LOr =>
          match parse f LAnd ts with
          | POk a (TOr :: r) =>
              match parse f LOr r with POk b r' => POk (or3 a b) r' | e => e end
          | x => x
          end
      | LAnd =>
          match parse f LNot ts with
          | POk a (TAnd :: r) =>
              match parse f LAnd r with POk b r' => POk (and3 a b) r' | e => e end
          | x => x
          end
      | LNot =>
          match ts with
          | TNot :: r => match parse f LNot r with POk a r' => POk (not3 a) r' | e => e end
          | _ => parse f LAtom ts
          end
      | LAtom =>
          match p_simple ts with
          | Some (t, r) => POk t r
          | None =>
              match ts with
              | TLp :: r => match parse f LOr r with
                            | POk a (TRp :: r') => POk a r'
                            | POk _ _ => PErr
                            | e => e end
              | _ => PErr
              end
          end
      end
  end.

Inductive eres := EOk (t : tv) | EErr | EFuel.
Definition teval (ts : list tok) : eres :=
  match parse (4 * length ts + 4) LOr ts with
  | POk t [] => EOk t
  | POk _ _ => EErr
  | PErr => EErr
  | PFuel => EFuel
  end.

(* the truth value of an expanded statement for one row; EErr also covers unbound placeholders *)
Definition exec_sem (row : N -> sv) (x : expanded) : eres :=
  match close_expanded row x with Some ts => teval ts | None => EErr end.
Definition exec_literal (row : N -> sv) (ts : list tok) : eres :=
  match close row [] [] ts with Some ts' => teval ts' | None => EErr end.

(* ------------------------------------------------------------------------------------------ *)
(** * Spec side: the explicit forms the property compares with *)
Definition lhs_vals (row : N -> sv) (l : lhs) : list sv :=
  match l with LCol c => [row c] | LTuple cs => map row cs end.
Definition value_row (v : value) : list sv := match v with VScalar s => [s] | VTuple l => l end.
Definition operand_tokens (r : list sv) : list tok :=
  match r with
  | [v] => [TVal v]
  | _ => [TLp] ++ join [TComma] (map (fun v => [TVal v]) r) ++ [TRp]
  end.
(* "x = r1 OR x = r2 OR .. " ; "1 != 1" for no row *)
Definition explicit_or (x : list sv) (rows : list (list sv)) : list tok :=
  match rows with
  | [] => [TNum 1; TNe; TNum 1]
  | _ => join [TOr] (map (fun r => operand_tokens x ++ [TEq] ++ operand_tokens r) rows)
  end.
Definition explicit_not_or (x : list sv) (rows : list (list sv)) : list tok :=
  [TNot; TLp] ++ explicit_or x rows ++ [TRp].

(* the value the property prescribes *)
Definition expected (op : inop) (x : list sv) (rows : list (list sv)) : tv :=
  match op with OIn => or_eq x rows | ONotIn => not3 (or_eq x rows) end.
(* the value of the whole WHERE expression built by [ctx_pre]/[ctx_post] around a predicate value *)
Definition ctx_value (p : position) (row : N -> sv) (t : tv) : tv :=
  match p with
  | PosBare | PosCase => t
  | PosAnd a b => and3 (not3 (eq3 (row 0%N) (SInt a))) (and3 t (not3 (eq3 (row 0%N) (SInt b))))
  | PosOr a => or3 (eq3 (row 0%N) (SInt a)) t
  end.

(* ------------------------------------------------------------------------------------------ *)
(** * Side conditions of the theorems *)
(* reachable expressions: in_() / not_in() / text forms and any number of ~ keep [consistent] *)
Definition consistent (e : inexpr) : bool :=
  match e.(ie_bind).(bp_expand_op) with
  | None => true
  | Some o => inop_eqb o e.(ie_op) && negb e.(ie_text)
  end && inop_eqb e.(ie_negate) (negate_op e.(ie_op)).

Definition all_scalar (vals : list value) : bool := forallb (fun v => negb (is_sequence v)) vals.
Definition all_tuple (k : nat) (vals : list value) : bool :=
  forallb (fun v => match v with VTuple l => Nat.eqb (length l) k | VScalar _ => false end) vals.
Definition is_nil {A} (l : list A) : bool := match l with [] => true | _ => false end.

(* the values fit the left operand: scalars for a column; k-tuples for a row value of arity k >= 1.
   (An untyped row-value operand with an EMPTY list is excluded: the code cannot know its arity.) *)
Definition wf (e : inexpr) (vals : list value) : bool :=
  match e.(ie_left), e.(ie_bind).(bp_kind) with
  | LCol _, KScalar | LCol _, KNull => all_scalar vals
  | LTuple cs, KTuple k => Nat.eqb (length cs) k && Nat.leb 1 k && all_tuple k vals
  | LTuple cs, KNull => Nat.leb 1 (length cs) && all_tuple (length cs) vals && negb (is_nil vals)
  | _, _ => false
  end.

(* the dialect can render an empty set for this parameter (documented NotImplementedError otherwise) *)
Definition empty_ok (d : dialect) (e : inexpr) (vals : list value) : bool :=
  match vals with
  | [] => match visit_empty_set_op_expr d (type_count e.(ie_bind)) e.(ie_bind).(bp_expand_op) with
          | Ok _ => true | Raise _ => false end
  | _ => true
  end.

(* literal rendering: outside the defective region
   tuple values for a NullType parameter (AttributeError).
   (The former region "empty list for a tuple type on a dialect with tuple_in_values" - "VALUES SELECT .." -
   was repaired by commit a8e8272.) *)
Definition literal_guard (d : dialect) (e : inexpr) (vals : list value) : bool :=
  negb (is_null_type e.(ie_bind) && tuple_branch e.(ie_bind) vals).
